/*
 * c01_meta.h - metadata writer and metadata reader seen through ONE
 * append-buffer contract, for the encode/decode round trips of C01
 * (write_inode <-> read_inode, dir_writer <-> readdir):
 *
 *   sqfs_meta_writer_append(w, data, n)   requires r_ok(data, n); appends the
 *        n bytes to the capture buffer (ghost g_cap, at most CAP bytes - a
 *        larger record is reported, never truncated) or fails with an
 *        arbitrary negative error when g_cap_may_fail is set
 *   sqfs_meta_reader_seek(r, block, off)  records the target, succeeds
 *   sqfs_meta_reader_read(r, buf, n)      requires w_ok(buf, n); delivers the
 *        next n captured bytes; asking for more than was written fails with
 *        SQFS_ERROR_OUT_OF_BOUNDS
 *
 * i.e. "the reader returns exactly the bytes the writer appended, in order".
 * That the real meta writer / reader pair implements this over compressed
 * 8 KiB blocks is C03.meta.* / C05.meta.* / C10.meta.*.
 */
#ifndef C01_META_H
#define C01_META_H
#include "sqfs/meta_writer.h"
#include "sqfs/meta_reader.h"
#include "sqfs/error.h"

#ifndef CAP
#define CAP 64
#endif

static sqfs_u8 g_cap[CAP];
static size_t g_cap_wr, g_cap_rd;
static unsigned g_cap_appends, g_cap_reads, g_cap_seeks;
static bool g_cap_may_fail, g_cap_failed, g_cap_underrun;
static sqfs_u64 g_seek_block;
static size_t g_seek_off;

int sqfs_meta_writer_append(sqfs_meta_writer_t *m, const void *data, size_t size)
{
	const sqfs_u8 *s = data;
	size_t i;

	(void)m;
	VERIF_ASSERT(size == 0 || VERIF_R_OK(data, size), "C01.env.meta_append.readable");
	++g_cap_appends;
	if (g_cap_may_fail && verif_nd_bool("append_fails")) {
		g_cap_failed = true;
		return SQFS_ERROR_IO;
	}
	VERIF_ASSERT(size <= CAP - g_cap_wr, "C01.env.meta_append.capture_capacity");
	(void)i; (void)s;
	if (size > 0)
		(memcpy)(g_cap + g_cap_wr, data, size);
	g_cap_wr += size;
	return 0;
}

#ifdef C01_SEEKABLE
/* The capture is one stretch of an uncompressed metadata block: it starts at
 * (g_cap_base_block, g_cap_base_off) for the writer and at
 * (g_cap_base_block + g_cap_rd_shift, g_cap_base_off) for the reader (the
 * table start the reader adds). Seeking inside the stretch moves the read
 * cursor; anywhere else fails. */
static sqfs_u64 g_cap_base_block, g_cap_rd_shift;
static sqfs_u32 g_cap_base_off;

void sqfs_meta_writer_get_position(const sqfs_meta_writer_t *m, sqfs_u64 *block_start,
				   sqfs_u32 *offset)
{
	(void)m;
	*block_start = g_cap_base_block;
	*offset = g_cap_base_off + (sqfs_u32)g_cap_wr;
}
#endif

int sqfs_meta_reader_seek(sqfs_meta_reader_t *m, sqfs_u64 block_start, size_t offset)
{
	(void)m;
	++g_cap_seeks;
	g_seek_block = block_start;
	g_seek_off = offset;
#ifdef C01_SEEKABLE
	if (block_start != g_cap_base_block + g_cap_rd_shift || offset < g_cap_base_off ||
	    offset - g_cap_base_off > g_cap_wr) {
		g_cap_underrun = true;
		return SQFS_ERROR_OUT_OF_BOUNDS;
	}
	g_cap_rd = offset - g_cap_base_off;
	g_seek_off = g_cap_base_off;
#endif
	return 0;
}

int sqfs_meta_reader_read(sqfs_meta_reader_t *m, void *data, size_t size)
{
	sqfs_u8 *d = data;
	size_t i;

	(void)m;
	VERIF_ASSERT(size == 0 || VERIF_W_OK(data, size), "C01.env.meta_read.writable");
	++g_cap_reads;
	if (size > g_cap_wr - g_cap_rd) {
		g_cap_underrun = true;
		return SQFS_ERROR_OUT_OF_BOUNDS;
	}
	(void)d;
#ifdef C01_READ_SIZES
	{	/* sizes the reader computes from image fields: serve a request
		 * equal to a listed constant with that constant (cbmc handles a
		 * symbolic-length copy badly) */
		static const size_t rs[] = { C01_READ_SIZES };
		for (i = 0; i < sizeof(rs) / sizeof(rs[0]); ++i) {
			if (size == rs[i] && rs[i] > 0) {
				(memcpy)(data, g_cap + g_cap_rd, rs[i]);
				g_cap_rd += rs[i];
				return 0;
			}
		}
	}
#endif
	(void)i;
	if (size > 0)
		(memcpy)(data, g_cap + g_cap_rd, size);
	g_cap_rd += size;
	return 0;
}

void sqfs_meta_reader_get_position(const sqfs_meta_reader_t *m,
				   sqfs_u64 *block_start, size_t *offset)
{
	(void)m;
	*block_start = g_seek_block;
	*offset = g_seek_off + g_cap_rd;
}
#endif
