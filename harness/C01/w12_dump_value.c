/* C01 (bounded value): dump_xattrs / is_printable / print_hex of
 * bin/rdsquashfs/src/dump_xattrs.c - `rdsquashfs -x`, the read-back
 * direction of an extended attribute - for one attribute "user.k" whose
 * value is EVERY byte string of VLEN bytes (fully symbolic, NUL bytes
 * included, stored with the NUL behind it as libsquashfs does). stdout is a
 * capture buffer (<= 30 bytes); the printf family is a contract that
 * interprets %s %c %02X %03o (C standard meaning). The xattr reader is a
 * stub that hands out the list.
 *
 * Inverse pair with the `--xattr-file` parser, meeting in the middle: the
 * printed value text is judged by spec/xattr_value_spec.h (the getfattr
 * --dump value format), the same function the parser is checked against in
 * w12_xattr_value. The two real functions are never chained.
 *
 *  C01.xattr_dump.line_shape     exactly one line: "user.k=" <text> "\n",
 *                                no newline inside the text, and the text
 *                                neither starts nor ends with white space
 *                                (the line reader of the parser trims the
 *                                line's end)
 *  C01.xattr_dump.value_spec     the text is a well-formed value text
 *                                (XV_OK - not malformed, not one of the
 *                                forms the documents leave open)
 *  C01.xattr_dump.value_inverse  ... and it means exactly the VLEN value
 *                                bytes: nothing truncated, nothing altered
 *  C01.xattr_dump.status         0 on success, the list is released once
 */
#include <stdarg.h>
#include <stdlib.h>
#include <string.h>
#include "verif.h"

#ifndef VLEN
#define VLEN 2
#endif
/* longest sensible text: every byte as \\ooo inside quotes */
#define CAP_MAX (4 * VLEN + 14)
static char g_cap[CAP_MAX];
static size_t g_cap_n;
static int g_cap_ovf, g_fmt_bad;

#include <stdio.h>
#ifdef VERIF_REPLAY
int w12_printf(const char *fmt, ...);
int w12_fprintf(FILE *fp, const char *fmt, ...);
int w12_putchar(int c);
int w12_puts(const char *s);
int w12_fputs(const char *s, FILE *fp);
int w12_fputc(int c, FILE *fp);
size_t w12_fwrite(const void *p, size_t sz, size_t n, FILE *fp);
#undef putchar
#undef putc
#define printf w12_printf
#define fprintf w12_fprintf
#define putchar w12_putchar
#define puts w12_puts
#define fputs w12_fputs
#define fputc w12_fputc
#define putc w12_fputc
#define fwrite w12_fwrite
#endif

#include "bin/rdsquashfs/src/dump_xattrs.c"
#include "xattr_value_spec.h"

static void out_c(char c)
{
	if (g_cap_n + 1 < CAP_MAX)
		g_cap[g_cap_n++] = c;
	else
		g_cap_ovf = 1;
}

static void out_digits(unsigned int v, unsigned int base, int width)
{
	static const char dig[] = "0123456789ABCDEF";
	char tmp[12];
	int n = 0;

	do {
		tmp[n++] = dig[v % base];
		v /= base;
	} while (v != 0 && n < 11);
	while (n < width)
		tmp[n++] = '0';
	while (n > 0)
		out_c(tmp[--n]);
}

/* cbmc 6.11 does not apply the default argument promotions to variadic
 * arguments (printf("%02X", *(value++)) stores a 1-byte object): take the
 * width of the stored object; natively the promoted type */
static unsigned int next_uint(va_list *app)
{
#ifndef VERIF_REPLAY
	if (__CPROVER_OBJECT_SIZE(**app) == 1)
		return va_arg(*app, unsigned char);
	if (__CPROVER_OBJECT_SIZE(**app) == 2)
		return va_arg(*app, unsigned short);
#endif
	return va_arg(*app, unsigned int);
}

static void vfmt(const char *fmt, va_list ap)
{
	for (; *fmt != '\0'; ++fmt) {
		if (*fmt != '%') {
			out_c(*fmt);
			continue;
		}
		++fmt;
		if (fmt[0] == 's') {
			const char *s = va_arg(ap, const char *);

			for (; *s != '\0'; ++s)
				out_c(*s);
		} else if (fmt[0] == 'c') {
			out_c((char)next_uint(&ap));
		} else if (fmt[0] == '%') {
			out_c('%');
		} else if (fmt[0] == '0' && fmt[1] == '2' && fmt[2] == 'X') {
			out_digits(next_uint(&ap), 16, 2);
			fmt += 2;
		} else if (fmt[0] == '0' && fmt[1] == '3' && fmt[2] == 'o') {
			out_digits(next_uint(&ap), 8, 3);
			fmt += 2;
		} else {
			g_fmt_bad = 1;
			return;
		}
	}
}

int printf(const char *fmt, ...)
{
	va_list ap;

	va_start(ap, fmt);
	vfmt(fmt, ap);
	va_end(ap);
	return 0;
}

int fprintf(FILE *fp, const char *fmt, ...)
{
	va_list ap;

	if (fp != stdout)
		return 0;
	va_start(ap, fmt);
	vfmt(fmt, ap);
	va_end(ap);
	return 0;
}

int putchar(int c)
{
	out_c((char)c);
	return c;
}

int fputc(int c, FILE *fp)
{
	if (fp == stdout)
		out_c((char)c);
	return c;
}

int puts(const char *s)
{
	for (; *s != '\0'; ++s)
		out_c(*s);
	out_c('\n');
	return 0;
}

int fputs(const char *s, FILE *fp)
{
	if (fp != stdout)
		return 0;
	for (; *s != '\0'; ++s)
		out_c(*s);
	return 0;
}

size_t fwrite(const void *p, size_t sz, size_t n, FILE *fp)
{
	size_t i;

	VERIF_ASSERT(VERIF_R_OK(p, sz * n), "C01.xattr_dump.fwrite_pre");
	if (fp != stdout)
		return n;
	for (i = 0; i < sz * n; ++i)
		out_c(((const char *)p)[i]);
	return n;
}

/* ---------------------------------------------------- the reader contract */
#define KEY "user.k"
#define KEYLEN 6
static struct {
	sqfs_xattr_t x;
	sqfs_u8 data[KEYLEN + 1 + VLEN + 1];
} g_ent;
static int g_freed, g_fail_read;

int sqfs_inode_get_xattr_index(const sqfs_inode_generic_t *inode,
			       sqfs_u32 *out)
{
	(void)inode;
	*out = 3;
	return 0;
}

int sqfs_xattr_reader_read_all(sqfs_xattr_reader_t *xr, sqfs_u32 idx,
			       sqfs_xattr_t **out)
{
	(void)xr;
	VERIF_ASSERT(idx == 3, "C01.xattr_dump.index");
	if (g_fail_read) {
		*out = NULL;
		return SQFS_ERROR_IO;
	}
	*out = &g_ent.x;
	return 0;
}

void sqfs_xattr_list_free(sqfs_xattr_t *list)
{
	VERIF_ASSERT(list == &g_ent.x, "C01.xattr_dump.status");
	++g_freed;
}

static int is_ws(char c)
{
	return c == ' ' || (c >= '\t' && c <= '\r');
}

void harness(void)
{
	sqfs_inode_generic_t inode;
	sqfs_u8 *val, want[CAP_MAX];
	size_t i, tlen, want_len = 0;
	const char *text;
	int ret, verdict, nl = 0;

#ifndef VERIF_REPLAY
	VERIF_ASSUME(stdout != stderr);	/* libc: two streams */
#endif
	g_cap_n = 0;
	g_cap_ovf = 0;
	g_fmt_bad = 0;
	g_freed = 0;
	g_fail_read = verif_nd_bool("read.fail");
	memset(g_cap, 0, sizeof(g_cap));
	memset(&g_ent, 0, sizeof(g_ent));
	memset(&inode, 0, sizeof(inode));
	memcpy(g_ent.x.data, KEY, KEYLEN + 1);
	val = g_ent.x.data + KEYLEN + 1;
	verif_nd_bytes(val, VLEN, "value");
	val[VLEN] = '\0';
	g_ent.x.key = (const char *)g_ent.x.data;
	g_ent.x.value = val;
	g_ent.x.value_len = VLEN;

	ret = dump_xattrs((sqfs_xattr_reader_t *)&g_ent, &inode);

	if (g_fail_read) {
		VERIF_ASSERT(ret == -1 && g_cap_n == 0 && g_freed == 0,
			     "C01.xattr_dump.status");
		VERIF_COVER(1);
		return;
	}
	VERIF_ASSERT(ret == 0 && g_freed == 1 && !g_cap_ovf && !g_fmt_bad,
		     "C01.xattr_dump.status");

	/* "user.k=" text "\n" */
	VERIF_ASSERT(g_cap_n >= KEYLEN + 2 &&
		     memcmp(g_cap, KEY "=", KEYLEN + 1) == 0 &&
		     g_cap[g_cap_n - 1] == '\n', "C01.xattr_dump.line_shape");
	if (g_cap_n < KEYLEN + 2)
		return;
	text = g_cap + KEYLEN + 1;
	tlen = g_cap_n - (KEYLEN + 2);
	for (i = 0; i < CAP_MAX; ++i) {
		if (i < tlen && text[i] == '\n')
			nl = 1;
	}
	VERIF_ASSERT(!nl, "C01.xattr_dump.line_shape");
	VERIF_ASSERT(tlen == 0 || (!is_ws(text[0]) && !is_ws(text[tlen - 1])),
		     "C01.xattr_dump.line_shape");

	verdict = spec_xattr_value(text, tlen, want, &want_len);
	VERIF_ASSERT(verdict == XV_OK, "C01.xattr_dump.value_spec");
	if (verdict == XV_OK) {
		VERIF_ASSERT(want_len == VLEN, "C01.xattr_dump.value_inverse");
		for (i = 0; i < VLEN; ++i) {
			if (want_len == VLEN)
				VERIF_ASSERT(want[i] == val[i],
					     "C01.xattr_dump.value_inverse");
		}
	}
	VERIF_COVER(verdict == XV_OK && want_len == VLEN);
#if VLEN >= 1
	VERIF_COVER(tlen == 2 * VLEN + 2 && text[0] == '0' && text[1] == 'x');
	VERIF_COVER(tlen > 0 && !(text[0] == '0' && text[1] == 'x'));
#endif
}
