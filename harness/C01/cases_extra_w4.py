# C01 harnesses of the data path (worker w4): block processor front end, tail
# fragments, block deduplication, reader/writer agreement, xattr out-of-line
# values. Same format as cases.py; merged by the driver.
FUNCTIONS = [
    "deduplicate_blocks (roll-back keeps the data the inode points at)",
    "process_completed_fragment (fragment location in the inode)",
]
TRUSTED = []
ASSUMPTIONS = []

_BW_FP = {"truncate": "stub_truncate", "destroy": "stub_unreachable_destroy",
          "get_size": "stub_unreachable_get_size", "write_at": "stub_unreachable_write_at"}
_BE_FP = {"key_equals_function": "stub_chunk_equals", "dequeue": "stub_pool_dequeue",
          "get_status": "stub_pool_get_status", "write_data_block": "stub_write_data_block"}

HARNESSES = [
    dict(name="bp_dedup", file="../C08/blk_dedup.c", label="bounded(blocks<=4)", timeout=900,
         fp=_BW_FP, defines={"C01_NAMES": 1},
         must_have=["C01.blocks.dedup_keeps_data", "C01.blocks.start_after_dedup"],
         cases=[dict(id="u%df%d" % (u, f), defines={"NB": 4, "USED": u, "FS": f}, unwind=5, tier="quick")
                for u, f in ((2, 1), (3, 1), (3, 2), (4, 1), (4, 2), (4, 3))]),
    dict(name="bp_frag_location", file="../C08/frag_pcf.c",
         label="bounded(colliding stored chunks<=2, block size 4096)", timeout=300,
         fp=_BE_FP, malloc_fail=True, unwind=3, defines={"C01_NAMES": 1},
         must_have=["C01.frag.location"],
         cases=[dict(id="fb%d" % fb, defines={"HAVE_FB": fb, "HAVE_INODE": 1, "BS": 4096}, tier="quick")
                for fb in (0, 1)]),
]

# The unbounded front-end proof (bp_append.c) that used to be disabled here did
# not finish with get_new_block / enqueue_block in place; w14 made it modular:
# see cases_extra_w14.py (harness bp_append, loop table C01_w14).
