/* C01.blocks.sizes: lib/sqfs/src/block_processor/backend.c
 * process_completed_block() + set_block_size() with the real inode helpers
 * (lib/sqfs/src/inode.c): what the block writer did with a finished block is
 * what the file inode / fragment table says afterwards. The block writer
 * (write_data_block: any location, or failure) and sqfs_frag_table_set are
 * contracts that record their arguments. Block flags, size, checksum, index
 * (<= 3, the inode has room for 4 size words - growing it is C13's
 * set_block_size harness) symbolic; inode basic or extended.
 *
 *   C01.blocks.size_word    data block: extra[index] = on-disk size, bit 24
 *                           set iff the block went out uncompressed
 *   C01.blocks.sparse_zero  sparse block: extra[index] = 0 and the inode's
 *                           sparse counter (0 for a basic inode) grew by the
 *                           size (.counter)
 *   C01.blocks.start        LAST_BLOCK: the inode's block start = the location
 *                           the writer reported
 *   C01.blocks.frag_entry   fragment block: fragment table entry `index` =
 *                           (location, size word)
 *   C01.blocks.written_as_is  the writer got the block's data, size, checksum
 *                           and flags (internal flags masked out)
 *   C01.blocks.others_kept  other size words and the file size are untouched
 *   C01.blocks.payload_used payload_bytes_used covers the entry
 */
#include <stdlib.h>
#include <string.h>
#include "verif.h"
#include "sqfs/predef.h"
#define C01_SIZES 0
#include "c01_alloc.h"
#include "lib/sqfs/src/inode.c"
#include "lib/sqfs/src/block_processor/backend.c"

#define BS 16
static struct { sqfs_block_t b; sqfs_u8 data[BS]; } g_blk;
static struct { sqfs_inode_generic_t n; sqfs_u32 words[4]; } g_ino;
static sqfs_block_writer_t g_wr;
static struct sqfs_frag_table_t { sqfs_object_t base; } g_ft;
static unsigned g_wdb_calls, g_ft_calls;
static sqfs_u64 g_loc, g_ft_loc;
static sqfs_u32 g_wdb_size, g_wdb_sum, g_wdb_flags, g_ft_idx, g_ft_size;
static const sqfs_u8 *g_wdb_data;
static bool g_fault;

int stub_write_data_block(sqfs_block_writer_t *wr, void *user, sqfs_u32 size,
			  sqfs_u32 checksum, sqfs_u32 flags, const sqfs_u8 *data,
			  sqfs_u64 *location)
{
	(void)wr; (void)user;
	g_wdb_calls++;
	g_wdb_size = size;
	g_wdb_sum = checksum;
	g_wdb_flags = flags;
	g_wdb_data = data;
	if (verif_nd_bool("write_fails")) {
		g_fault = true;
		return SQFS_ERROR_IO;
	}
	g_loc = verif_nd_u64("location");
	*location = g_loc;
	return 0;
}

int sqfs_frag_table_set(sqfs_frag_table_t *tbl, sqfs_u32 index, sqfs_u64 location, sqfs_u32 size)
{
	(void)tbl;
	g_ft_calls++;
	g_ft_idx = index;
	g_ft_loc = location;
	g_ft_size = size;
	if (verif_nd_bool("ft_fails")) {
		g_fault = true;
		return SQFS_ERROR_ALLOC;
	}
	return 0;
}

int enqueue_block(sqfs_block_processor_t *proc, sqfs_block_t *blk) { (void)proc; (void)blk; return 0; }

void harness(void)
{
	static sqfs_block_processor_t proc;
	sqfs_inode_generic_t *ip = &g_ino.n;
	bool with_inode = verif_nd_bool("with_inode"), ext = verif_nd_bool("ext");
	sqfs_u32 flags = verif_nd_u32("flags"), size = verif_nd_u32("size"), idx = verif_nd_u32("index");
	sqfs_u32 w0[4], used0, fidx = verif_nd_u32("fidx"), foff = verif_nd_u32("foff");
	sqfs_u64 fsize = verif_nd_u64("fsize"), start0 = verif_nd_u64("start0"), sparse0 = verif_nd_u64("sparse0");
	sqfs_u64 got;
	unsigned i;
	int ret;

	g_wdb_calls = g_ft_calls = 0;
	g_fault = false;
	VERIF_ASSUME(size <= BS && idx <= 3);
	g_wr.write_data_block = stub_write_data_block;
	proc.wr = &g_wr;
	proc.frag_tbl = verif_nd_bool("with_frag_tbl") ? &g_ft : NULL;
	proc.backlog = 1;
	proc.fblk_in_flight = NULL;
	g_blk.b.flags = flags;
	g_blk.b.size = size;
	g_blk.b.checksum = verif_nd_u32("checksum");
	g_blk.b.index = idx;
	g_blk.b.inode = with_inode ? &ip : NULL;
	g_blk.b.user = NULL;

	g_ino.n.payload_bytes_available = 16;
	used0 = (verif_nd_u32("used") & 3) * 4;
	g_ino.n.payload_bytes_used = used0;
	for (i = 0; i < 4; ++i) {
		w0[i] = verif_nd_u32("word");
		g_ino.words[i] = w0[i];
	}
	if (ext) {
		g_ino.n.base.type = SQFS_INODE_EXT_FILE;
		g_ino.n.data.file_ext.file_size = fsize;
		g_ino.n.data.file_ext.blocks_start = start0;
		g_ino.n.data.file_ext.sparse = sparse0;
		g_ino.n.data.file_ext.nlink = 1;
		g_ino.n.data.file_ext.fragment_idx = fidx;
		g_ino.n.data.file_ext.fragment_offset = foff;
		g_ino.n.data.file_ext.xattr_idx = 0xFFFFFFFF;
		VERIF_ASSUME(sparse0 <= UINT64_MAX - BS);
	} else {
		VERIF_ASSUME(fsize <= 0xFFFFFFFFUL && start0 <= 0xFFFFFFFFUL);
		sparse0 = 0;
		g_ino.n.base.type = SQFS_INODE_FILE;
		g_ino.n.data.file.file_size = (sqfs_u32)fsize;
		g_ino.n.data.file.blocks_start = (sqfs_u32)start0;
		g_ino.n.data.file.fragment_index = fidx;
		g_ino.n.data.file.fragment_offset = foff;
	}

	ret = process_completed_block(&proc, &g_blk.b);

	VERIF_ASSERT(g_wdb_calls == 1 && g_wdb_size == size && g_wdb_sum == g_blk.b.checksum &&
		     g_wdb_data == g_blk.b.data && g_wdb_flags == (flags & ~BLK_FLAG_INTERNAL),
		     "C01.blocks.written_as_is");
	VERIF_ASSERT(ip == &g_ino.n, "C01.blocks.others_kept");
	if (ret != 0) {
		VERIF_ASSERT(g_fault, "C01.blocks.status");
		VERIF_COVER(1);
		return;
	}
	VERIF_ASSERT(!g_fault, "C01.blocks.status");
	if (with_inode) {
		bool touched = false;
		sqfs_u64 sz = 0;

		if (flags & SQFS_BLK_IS_SPARSE) {
			touched = true;
			VERIF_ASSERT(g_ino.words[idx] == 0, "C01.blocks.sparse_zero");
			/* a basic inode says "no sparse bytes" */
			VERIF_ASSERT((g_ino.n.base.type == SQFS_INODE_EXT_FILE ?
				      g_ino.n.data.file_ext.sparse : 0) == sparse0 + size,
				     "C01.blocks.sparse_zero.counter");
			VERIF_COVER(!ext);
		} else if (size != 0 && !(flags & SQFS_BLK_FRAGMENT_BLOCK)) {
			touched = true;
			VERIF_ASSERT(g_ino.words[idx] ==
				     (size | ((flags & SQFS_BLK_IS_COMPRESSED) ? 0 : (1u << 24))),
				     "C01.blocks.size_word");
			VERIF_COVER((flags & SQFS_BLK_IS_COMPRESSED) != 0);
			VERIF_COVER((flags & SQFS_BLK_IS_COMPRESSED) == 0);
		}
		for (i = 0; i < 4; ++i) {
			if (!(touched && i == idx))
				VERIF_ASSERT(g_ino.words[i] == w0[i], "C01.blocks.others_kept");
		}
		if (touched)
			VERIF_ASSERT(g_ino.n.payload_bytes_used >= 4 * (idx + 1) &&
				     g_ino.n.payload_bytes_used == (used0 > 4 * (idx + 1) ? used0 : 4 * (idx + 1)),
				     "C01.blocks.payload_used");
		else
			VERIF_ASSERT(g_ino.n.payload_bytes_used == used0, "C01.blocks.payload_used");
		VERIF_ASSERT(sqfs_inode_get_file_size(&g_ino.n, &sz) == 0 && sz == fsize,
			     "C01.blocks.others_kept");
		VERIF_ASSERT(sqfs_inode_get_file_block_start(&g_ino.n, &got) == 0 &&
			     got == ((flags & SQFS_BLK_LAST_BLOCK) ? g_loc : start0),
			     "C01.blocks.start");
		VERIF_COVER((flags & SQFS_BLK_LAST_BLOCK) != 0);
	}
	if (!(flags & SQFS_BLK_IS_SPARSE) && size != 0 && (flags & SQFS_BLK_FRAGMENT_BLOCK) &&
	    proc.frag_tbl != NULL) {
		VERIF_ASSERT(g_ft_calls == 1 && g_ft_idx == idx && g_ft_loc == g_loc &&
			     g_ft_size == (size | ((flags & SQFS_BLK_IS_COMPRESSED) ? 0 : (1u << 24))),
			     "C01.blocks.frag_entry");
		VERIF_COVER(1);
	} else {
		VERIF_ASSERT(g_ft_calls == 0, "C01.blocks.frag_entry");
	}
}
