/* C01.mknode.faithful: lib/fstree/src/fstree.c mknode() - the node created
 * for an entry carries the entry's fields; values the tree node cannot hold
 * (owner ids / device numbers beyond 32 bit) are refused, never stored
 * altered; the time stamp is clamped to the 32 bit range as documented in
 * clamp_timestamp. canonicalize_name is a contract (may refuse). One run per
 * file kind (-DKIND: 0 dir 1 reg 2 slink 3 hard link 4 blk 5 chr 6 fifo
 * 7 sock), name length NAME_LEN and extra length EXTRA_LEN concrete, all
 * bytes and numbers symbolic (64 bit ids, 64 bit rdev, signed 64 bit mtime).
 *
 *   C01.mknode.faithful.ids      node uid/gid equal the entry's as numbers,
 *                                or the entry is refused (NULL)
 *   C01.mknode.faithful.devno    same for the device number of blk/chr
 *                                (the inode field is 32 bit)
 *   C01.mknode.faithful.mtime    mod_time = mtime clamped to [0, 2^32-1]
 *   C01.mknode.faithful.mode     mode = entry mode (symlinks and hard links:
 *                                S_IFLNK|0777), hard link flag set iff asked
 *   C01.mknode.faithful.name     name bytes + NUL, stored inside the node
 *   C01.mknode.faithful.extra    symlink target / hard link target / input
 *                                file = the extra string, stored in the node
 *   C01.mknode.faithful.links    link count 1 (directory 2), parent's + 1,
 *                                xattr index "none", node is in the
 *                                parent's child list
 *   C01.mknode.faithful.refuse_keeps_tree   a refused entry changes nothing
 */
#include <stdlib.h>
#include <string.h>
#include <errno.h>
#include "verif.h"

#ifndef NAME_LEN
#define NAME_LEN 2
#endif
#ifndef EXTRA_LEN
#define EXTRA_LEN 3
#endif
#ifndef KIND
#define KIND 1
#endif
#define C01_SIZES sizeof(tree_node_t) + NAME_LEN + 1, sizeof(tree_node_t) + NAME_LEN + 1 + EXTRA_LEN + 1
#include "sqfs/predef.h"
#include "fstree.h"
#include "c01_alloc.h"

static int g_cn_calls, g_cn_ret;
int canonicalize_name(char *filename)
{
	(void)filename;
	g_cn_calls += 1;
	g_cn_ret = verif_nd_bool("canon_refuses") ? -1 : 0;
	return g_cn_ret;
}

#include "lib/fstree/src/fstree.c"

static const sqfs_u16 g_kind_mode[8] = {
	S_IFDIR, S_IFREG, S_IFLNK, S_IFLNK, S_IFBLK, S_IFCHR, S_IFIFO, S_IFSOCK
};

void harness(void)
{
	static fstree_t fs;
	static tree_node_t parent;
	sqfs_dir_entry_t ent;
	char name[NAME_LEN + 1];
	char extra[EXTRA_LEN + 1];
	bool with_extra = verif_nd_bool("with_extra");
	tree_node_t *n;
	size_t i;
	sqfs_u32 old_links;

	g_cn_calls = 0;
	memset(&ent, 0, sizeof(ent));
	ent.uid = verif_nd_u64("uid");
	ent.gid = verif_nd_u64("gid");
	ent.mode = g_kind_mode[KIND] | (verif_nd_u16("perm") & 07777);
	ent.mtime = verif_nd_i64("mtime");
	ent.flags = KIND == 3 ? SQFS_DIR_ENTRY_FLAG_HARD_LINK : 0;
	ent.rdev = verif_nd_u64("rdev");

	for (i = 0; i < NAME_LEN; ++i) {
		uint8_t b = verif_nd_u8("name");
		VERIF_ASSUME(b != 0 && b != '/');
		(memcpy)(&name[i], &b, 1);
	}
	name[NAME_LEN] = 0;
	for (i = 0; i < EXTRA_LEN; ++i) {
		uint8_t b = verif_nd_u8("extra");
		VERIF_ASSUME(b != 0);
		(memcpy)(&extra[i], &b, 1);
	}
	extra[EXTRA_LEN] = 0;
	/* fstree_add_generic refuses symlinks without a target */
	if (KIND == 2 || KIND == 3)
		with_extra = true;

	parent.mode = S_IFDIR | 0755;
	parent.link_count = verif_nd_u32("plinks");
	parent.data.children = NULL;
	old_links = parent.link_count;
	fs.root = &parent;
	fs.links_unresolved = NULL;

	n = mknode(&fs, &parent, name, NAME_LEN, with_extra ? extra : NULL, &ent);

	if (n == NULL) {
		VERIF_ASSERT(parent.data.children == NULL && parent.link_count == old_links &&
			     fs.links_unresolved == NULL && g_live == 0,
			     "C01.mknode.faithful.refuse_keeps_tree");
		VERIF_COVER(old_links == 0xFFFFFFFF);
		return;
	}
	VERIF_COVER(n != NULL && with_extra);
	VERIF_ASSERT((sqfs_u64)n->uid == ent.uid && (sqfs_u64)n->gid == ent.gid,
		     "C01.mknode.faithful.ids");
	if (KIND == 4 || KIND == 5)
		VERIF_ASSERT(n->data.devno == ent.rdev && n->data.devno <= 0xFFFFFFFFUL,
			     "C01.mknode.faithful.devno");
	VERIF_ASSERT(n->mod_time == (ent.mtime < 0 ? 0 : ent.mtime > 0xFFFFFFFFLL ?
				     0xFFFFFFFF : (sqfs_u32)ent.mtime),
		     "C01.mknode.faithful.mtime");
	if (KIND == 2 || KIND == 3)
		VERIF_ASSERT(n->mode == (S_IFLNK | 0777), "C01.mknode.faithful.mode");
	else
		VERIF_ASSERT(n->mode == ent.mode, "C01.mknode.faithful.mode");
	VERIF_ASSERT(((n->flags & FLAG_LINK_IS_HARD) != 0) == (KIND == 3) &&
		     (KIND != 3 || (fs.links_unresolved == n && g_cn_calls == 1 && g_cn_ret == 0)),
		     "C01.mknode.faithful.mode");
	VERIF_ASSERT(n->name == (char *)n->payload && n->name[NAME_LEN] == '\0',
		     "C01.mknode.faithful.name");
	for (i = 0; i < NAME_LEN; ++i)
		VERIF_ASSERT(n->name[i] == name[i], "C01.mknode.faithful.name");
	if (with_extra && (KIND == 1 || KIND == 2 || KIND == 3)) {
		const char *p = KIND == 1 ? n->data.file.input_file : n->data.target;

		VERIF_ASSERT(p == n->name + NAME_LEN + 1 && p[EXTRA_LEN] == '\0',
			     "C01.mknode.faithful.extra");
		for (i = 0; i < EXTRA_LEN; ++i)
			VERIF_ASSERT(p[i] == extra[i], "C01.mknode.faithful.extra");
	}
	if (KIND == 1 && !with_extra)
		VERIF_ASSERT(n->data.file.input_file == NULL, "C01.mknode.faithful.extra");
	VERIF_ASSERT(n->link_count == (KIND == 0 ? 2 : 1) && n->xattr_idx == 0xFFFFFFFF &&
		     parent.link_count == old_links + 1 && old_links != 0xFFFFFFFF &&
		     parent.data.children == n && n->parent == &parent && n->next == NULL,
		     "C01.mknode.faithful.links");
	VERIF_COVER(KIND == 3 ? (n->flags & FLAG_LINK_IS_HARD) != 0 : 1);
}
