PROPERTY = "C01"
LEVEL = "proof"
FUNCTIONS = ["sqfs_meta_writer_write_inode", "write_block_sizes", "write_dir_index",
             "sqfs_meta_reader_read_inode", "read_inode_file", "read_inode_file_ext",
             "read_inode_slink", "read_inode_slink_ext", "read_inode_dir_ext", "set_mode"]
TRUSTED = []
ASSUMPTIONS = []
EXPLANATION = ""

_INO = {1: "dir", 2: "file", 3: "slink", 4: "bdev", 5: "cdev", 6: "fifo", 7: "socket",
        8: "dir_ext", 9: "file_ext", 10: "slink_ext", 11: "bdev_ext", 12: "cdev_ext",
        13: "fifo_ext", 14: "socket_ext"}

def _inode_cases():
    out = []
    for t, n in _INO.items():
        if n in ("file", "file_ext"):
            for nb, fr, tier in ((0, 1, "quick"), (1, 0, "quick"), (2, 1, "quick"), (2, 0, "thorough"), (0, 0, "thorough")):
                out.append(dict(id="%s_b%d_f%d" % (n, nb, fr), tier=tier,
                                defines={"ITYPE": t, "NBLK": nb, "FRAG": fr},
                                unwindset=["read_inode_file.0:%d" % (nb + 1), "read_inode_file_ext.0:%d" % (nb + 1),
                                           "write_block_sizes.0:%d" % (nb + 1)]))
        elif n in ("slink", "slink_ext"):
            for tl, tier in ((1, "quick"), (5, "quick"), (0, "thorough"), (12, "thorough")):
                out.append(dict(id="%s_t%d" % (n, tl), tier=tier, defines={"ITYPE": t, "TL": tl}))
        elif n == "dir_ext":
            for ni, tier in ((0, "quick"), (1, "quick"), (2, "thorough")):
                out.append(dict(id="%s_i%d" % (n, ni), tier=tier, defines={"ITYPE": t, "NIDX": ni}))
        else:
            out.append(dict(id=n, tier="quick", defines={"ITYPE": t}, label="proved"))
    return out

HARNESSES = [
    dict(name="inode_roundtrip", file="inode_roundtrip.c",
         label="bounded(blocks<=2,target<=12,index<=2)", timeout=300, unwind=34,
         cases=_inode_cases()),
    dict(name="packfile_kinds", file="packfile_kinds.c",
         label="bounded(path length 3)", unwind=12, timeout=300,
         include_dirs=["bin/gensquashfs/src"], nochecks=["--conversion-check"],
         fp={"callback": ["add_generic", "add_device", "add_file"], "get_filename": None},
         cases=[dict(id=k, defines={"KW": i}, tier="quick")
                for i, k in enumerate(("dir", "slink", "link", "nod", "pipe", "sock", "file", "glob"))] +
               [dict(id="nod_b", defines={"KW": 3, "NODTYPE": '"b"'}, tier="quick")]),
    dict(name="mknode", file="mknode.c", label="bounded(name length 2, extra length 3)",
         unwind=8, timeout=300,
         cases=[dict(id=k, defines={"KIND": i}, tier="quick")
                for i, k in enumerate(("dir", "reg", "slink", "hardlink", "blk", "chr", "fifo", "sock"))]),
    # sqfs_id_table_id_to_index: w6's parametrised harness (harness/C03/ids_index.c) with the
    # C01 obligation names: index_valid/first_match/append_new = ids.roundtrip, refuse = 65536th id
    dict(name="ids", file="../C03/ids_index.c", label="proved", timeout=300,
         loops=["sqfs_id_table_id_to_index"], loop_tables=["C03"], flags=["--arrays-uf-always"],
         defines={"P": '"C01"', "IDS_REFUSE": None},
         cases=[dict(id="all", tier="quick")]),
    dict(name="node_to_inode", file="node_to_inode.c", label="bounded(target length 3)",
         unwind=8, timeout=300, include_dirs=["lib/common/src/writer"],
         nochecks=["--conversion-check"],
         cases=[dict(id=k, defines={"KIND": i}, tier="quick")
                for i, k in enumerate(("dir", "reg_basic", "reg_ext", "slink", "blk", "chr", "fifo", "sock"))]),
    dict(name="dir_inode", file="dir_inode.c", label="proved", timeout=300, unwind=3,
         nochecks=["--conversion-check"],
         fp={"destroy": None, "copy": None, "*": None}),
    dict(name="meta_write_to_file", file="meta_write_to_file.c", label="bounded(queued blocks<=3)",
         timeout=300, unwind=5, flags=["--arrays-uf-always"],
         fp={"get_size": "stub_get_size", "write_at": "stub_write_at", "destroy": "stub_destroy",
             "*": None},
         cases=[dict(id="nb%d" % n, defines={"NB": n}, tier="quick") for n in range(4)]),
    # deduplicate_blocks: the C08 harness (harness/C08/blk_dedup.c) - its truncate_safe /
    # match_needs_compare obligations are what keeps "byte-identical contents" for files that
    # share storage; here on the shapes where the matched run can overlap the file's own blocks
    dict(name="blk_dedup", file="../C08/blk_dedup.c", label="bounded(blocks<=4)", timeout=900,
         fp={"truncate": "stub_truncate", "destroy": "stub_unreachable_destroy",
             "get_size": "stub_unreachable_get_size", "write_at": "stub_unreachable_write_at"},
         cases=[dict(id="u%df%d" % (u, f), defines={"NB": 4, "USED": u, "FS": f}, unwind=5, tier="quick")
                for u, f in ((3, 1), (4, 1), (4, 2), (4, 3))]),
    dict(name="blocks_sizes", file="blocks_sizes.c", label="bounded(block index<=3)",
         timeout=300, unwind=6, nochecks=["--conversion-check"],
         include_dirs=["lib/sqfs/src/block_processor"],
         fp={"write_data_block": "stub_write_data_block", "*": None}),
]
