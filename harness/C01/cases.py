PROPERTY = "C01"
LEVEL = "model_checking"
FUNCTIONS = [
    "sqfs_meta_writer_write_inode", "write_block_sizes", "write_dir_index",
    "sqfs_meta_reader_read_inode", "read_inode_file", "read_inode_file_ext", "read_inode_slink",
    "read_inode_slink_ext", "read_inode_dir_ext", "set_mode",
    "sqfs_id_table_id_to_index",
    "handle_line", "add_generic", "add_device", "add_file",
    "mknode", "clamp_timestamp", "insert_sorted",
    "serialize_tree_node", "tree_node_to_inode", "sqfs_inode_make_extended", "sqfs_inode_make_basic",
    "sqfs_inode_set_xattr_index", "sqfs_inode_get_xattr_index", "sqfs_inode_set_file_block_start",
    "sqfs_dir_writer_create_inode", "sqfs_dir_writer_begin", "sqfs_dir_writer_add_entry",
    "sqfs_dir_writer_end", "add_header", "get_conseq_entry_count",
    "sqfs_readdir_state_init", "sqfs_meta_reader_readdir", "sqfs_meta_reader_read_dir_header",
    "sqfs_meta_reader_read_dir_ent",
    "sqfs_meta_write_write_to_file", "write_block",
    "deduplicate_blocks", "process_completed_block", "set_block_size",
    "sqfs_super_write", "sqfs_super_read",
    "to_base32", "from_base32", "sqfs_get_xattr_prefix", "sqfs_get_xattr_prefix_id",
]
TRUSTED = [
    "metadata writer/reader as ONE append-buffer contract (harness/C01/c01_meta.h): the reader returns exactly the bytes the writer appended, in order; seek inside the stretch moves the cursor. That the real pair implements this over compressed 8 KiB blocks is C03.meta.* / C05.meta.* / C10.meta.*",
    "malloc/calloc/alloc_flex/alloc_array: fresh object of the requested size, never fail here (allocation failure is C13's subject) - harness/C01/c01_alloc.h",
    "sqfs_file_t get_size/write_at/read_at ghost-size contract (meta_write_to_file, super_roundtrip)",
    "parse_uint / parse_uint_oct / canonicalize_name / split_line_remove_front / makedev contracts in packfile_kinds.c (each is verified elsewhere: C07, C18)",
    "sqfs_id_table_id_to_index, sqfs_meta_writer_get_position, sqfs_meta_writer_write_inode, directory writer contracts inside node_to_inode.c (each verified in its own harness here)",
    "block writer write_data_block / sqfs_frag_table_set recording contracts in blocks_sizes.c; comparer / truncate contracts of harness/C08/blk_dedup.c",
    "ghost strlen for strings the harness built (dirent_roundtrip.c)",
]
ASSUMPTIONS = [
    "end-to-end equality of the read-back tree with the input tree is NOT a machine-checked theorem: what is checked is that every encode/decode pair on the path is inverse and that unrepresentable inputs are refused; the composition is an argument in prose",
    "C01.table.roundtrip and C01.frag.location are the composition of C03.write_table / C03.frag_write (locations recorded = where each chunk went, proved with loop contracts) with C05/C10 read_table / frag_lookup; not repeated here",
    "C01.bp.append_safe (append for every (size, current block) state incl. size 0) is C13.append.no_crash / accounts_all_bytes in harness/C13/bp_append.c; not repeated here",
    "payload shapes are concrete and bounded: file inodes <= 2 block words, symlink targets <= 12 bytes, directory index <= 1 entry, directory listings <= 2 entries with names <= 2 bytes, xattr values <= 4 bytes, pack file path 3 bytes, block history <= 4 blocks; all field values symbolic",
    "wf_inode (precondition of the inode round trip): type bits of mode = inode type, payload_bytes_used = what the type fields announce; established by the inode constructors (C03.inode_kind / C03.dir.inode_kind)",
    "directory entries: inode reference block < 2^32 (the 32 bit start_block field of the directory header); a larger inode table is not representable and not refused by sqfs_dir_writer_add_entry - outside the claim",
    "compressor correctness, option parsing, glob matching, directory scanning are not covered",
]
EXPLANATION = ("each encode/decode pair of the packing path is verified as an inverse pair over a shared capture buffer "
               "(inode write/read for all 14 types, directory listing write/readdir, super block write/read, xattr value "
               "hex coding and key prefixes), field transport functions (pack file line -> entry -> tree node -> inode, "
               "completed block -> size word / block start) are verified against the property text, and values the "
               "on-disk fields cannot hold must be refused")

_INO = {1: "dir", 2: "file", 3: "slink", 4: "bdev", 5: "cdev", 6: "fifo", 7: "socket",
        8: "dir_ext", 9: "file_ext", 10: "slink_ext", 11: "bdev_ext", 12: "cdev_ext",
        13: "fifo_ext", 14: "socket_ext"}

def _inode_cases():
    out = []
    for t, n in _INO.items():
        if n in ("file", "file_ext"):
            for nb, fr, tier in ((0, 1, "quick"), (1, 0, "quick"), (2, 1, "quick"), (2, 0, "thorough"), (0, 0, "thorough")):
                out.append(dict(id="%s_b%d_f%d" % (n, nb, fr), tier=tier,
                                defines={"ITYPE": t, "NBLK": nb, "FRAG": fr},
                                unwindset=["read_inode_file.0:%d" % (nb + 1), "read_inode_file_ext.0:%d" % (nb + 1),
                                           "write_block_sizes.0:%d" % (nb + 1)]))
        elif n in ("slink", "slink_ext"):
            for tl, tier in ((1, "quick"), (5, "quick"), (0, "thorough"), (12, "thorough")):
                out.append(dict(id="%s_t%d" % (n, tl), tier=tier, defines={"ITYPE": t, "TL": tl}))
        elif n == "dir_ext":
            # two index entries do not fit the 64 byte capture buffer of the
            # harness (its own guard C01.env.meta_append.capture_capacity fired
            # in the thorough tier): a limit of the harness, not of the code -
            # the case is not registered; directory indexes are bounded by 1 here
            # (C03.dir.inode_kind covers <= 3 entries on the writer side)
            for ni, tier in ((0, "quick"), (1, "quick")):
                out.append(dict(id="%s_i%d" % (n, ni), tier=tier, defines={"ITYPE": t, "NIDX": ni}))
        else:
            out.append(dict(id=n, tier="quick", defines={"ITYPE": t}, label="proved"))
    return out

HARNESSES = [
    dict(name="inode_roundtrip", file="inode_roundtrip.c",
         label="bounded(blocks<=2,target<=12,index<=1)", timeout=300, unwind=34,
         cases=_inode_cases()),
    dict(name="packfile_kinds", file="packfile_kinds.c",
         label="bounded(path length 3)", unwind=12, timeout=300,
         include_dirs=["bin/gensquashfs/src"], nochecks=["--conversion-check"],
         fp={"callback": ["add_generic", "add_device", "add_file"], "get_filename": None},
         cases=[dict(id=k, defines={"KW": i}, tier="quick")
                for i, k in enumerate(("dir", "slink", "link", "nod", "pipe", "sock", "file", "glob"))] +
               [dict(id="nod_b", defines={"KW": 3, "NODTYPE": '"b"'}, tier="quick")]),
    dict(name="mknode", file="mknode.c", label="bounded(name length 2, extra length 3)",
         unwind=8, timeout=900, nochecks=["--conversion-check"],  # the narrowing is the named obligation .ids
         cases=[dict(id=k, defines={"KIND": i}, tier="quick")
                for i, k in enumerate(("dir", "reg", "slink", "hardlink", "blk", "chr", "fifo", "sock"))]),
    # sqfs_id_table_id_to_index: w6's parametrised harness (harness/C03/ids_index.c) with the
    # C01 obligation names: index_valid/first_match/append_new = ids.roundtrip, refuse = 65536th id
    dict(name="ids", file="../C03/ids_index.c", label="proved", timeout=300,
         loops=["sqfs_id_table_id_to_index"], loop_tables=["C03"], flags=["--arrays-uf-always"],
         defines={"P": '"C01"', "IDS_REFUSE": None},
         cases=[dict(id="all", tier="quick")]),
    dict(name="node_to_inode", file="node_to_inode.c", label="bounded(target length 3)",
         unwind=8, timeout=300, include_dirs=["lib/common/src/writer"],
         nochecks=["--conversion-check"],
         cases=[dict(id=k, defines={"KIND": i}, tier="quick")
                for i, k in enumerate(("dir", "reg_basic", "reg_ext", "slink", "blk", "chr", "fifo", "sock"))]),
    dict(name="dir_inode", file="dir_inode.c", label="proved", timeout=300, unwind=3,
         nochecks=["--conversion-check"],
         fp={"destroy": None, "copy": None, "*": None}),
    dict(name="meta_write_to_file", file="meta_write_to_file.c", label="bounded(queued blocks<=3)",
         timeout=300, unwind=5, flags=["--arrays-uf-always"],
         fp={"get_size": "stub_get_size", "write_at": "stub_write_at", "destroy": "stub_destroy",
             "*": None},
         cases=[dict(id="nb%d" % n, defines={"NB": n}, tier="quick") for n in range(4)]),
    # deduplicate_blocks: the C08 harness (harness/C08/blk_dedup.c) - its truncate_safe /
    # match_needs_compare obligations are what keeps "byte-identical contents" for files that
    # share storage; here on the shapes where the matched run can overlap the file's own blocks
    dict(name="blk_dedup", file="../C08/blk_dedup.c", label="bounded(blocks<=4)", timeout=900,
         fp={"truncate": "stub_truncate", "destroy": "stub_unreachable_destroy",
             "get_size": "stub_unreachable_get_size", "write_at": "stub_unreachable_write_at"},
         cases=[dict(id="u%df%d" % (u, f), defines={"NB": 4, "USED": u, "FS": f}, unwind=5, tier="quick")
                for u, f in ((3, 1), (4, 1), (4, 2), (4, 3))]),
    dict(name="blocks_sizes", file="blocks_sizes.c", label="bounded(block index<=3)",
         timeout=900, weight=6, unwind=6, nochecks=["--conversion-check"],
         include_dirs=["lib/sqfs/src/block_processor"],
         fp={"write_data_block": "stub_write_data_block", "*": None}),
    dict(name="super_roundtrip", file="super_roundtrip.c", label="proved", timeout=300, unwind=22,
         fp={"write_at": "stub_write_at", "read_at": "stub_read_at"}),
    dict(name="dirent_roundtrip", file="dirent_roundtrip.c", label="bounded(entries<=2,name<=2)",
         timeout=900, unwind=4, weight=5, unwindset=["c01_raw_alloc.0:10"], nochecks=["--conversion-check"],
         fp={"destroy": None, "copy": None, "*": None},
         cases=[dict(id="n%d" % n, defines={"N": n}, tier="quick") for n in (0, 1)] +
               [dict(id="n2", defines={"N": 2}, tier="thorough", timeout=1500)]),
    dict(name="xattr_kv", file="xattr_kv.c", label="bounded(value<=4 bytes)", timeout=300, unwind=19,
         nochecks=["--conversion-check"], include_dirs=["lib/sqfs/src/xattr"],
         fp={"*": None},
         cases=[dict(id="size%d" % n, defines={"SIZE": n}, tier="quick" if n in (0, 1, 3) else "thorough")
                for n in range(5)]),
]
