/* C01 / C07 (bounded tree shapes): apply_xattrs / apply_dfs of
 * bin/gensquashfs/src/apply_xattr.c - the pass that gives every tree node
 * its xattr set: writer begin, xattrs scanned from the source file system,
 * the `--xattr-file` map, the SELinux label, writer end -> node->xattr_idx.
 * Concrete tree SHAPE, everything else symbolic (which sources are enabled,
 * which call fails):
 *   SHAPE 0  root only          SHAPE 1  root{ a, b{ c } }
 *   SHAPE 2  root{ a{ b{ c } } }   SHAPE 3  root{ a }
 * All callees are contract stubs that log (kind, node) and check their
 * arguments: sqfs_xattr_writer_begin/end, fstree_get_path,
 * xattr_apply_map_file (harness w12_xattr_apply_map), selinux_relable_node,
 * and - replaced with goto-instrument --replace-calls - the static
 * get_full_path / xattr_from_path (harness C07 w12_xattr_from_path).
 * One nondeterministically chosen call fails (or none).
 *
 *  C01.xattr_apply.per_node   without a failure the log is, for every node
 *                             in depth-first pre-order exactly once:
 *                             begin, [full path, scan], [path], [map],
 *                             [selinux], end - the optional parts exactly
 *                             when that source is enabled; no node skipped,
 *                             none visited twice
 *  C01.xattr_apply.args       scan gets the node's full path, map and
 *                             selinux the node's tree path, selinux the
 *                             node, end stores into that node's xattr_idx,
 *                             begin gets flags 0, everyone the caller's
 *                             writer / handles
 *  C07.xattr_apply.fail_stop  the first failing call is the last call made
 *                             and the result is -1; otherwise 0
 *  C01.xattr_apply.nothing_to_do   no writer, or no source enabled: 0 and
 *                             no call at all
 *  every path string is released on every outcome (--memory-leak-check)
 */
#include <stdlib.h>
#include <string.h>
#include "verif.h"
#include "bin/gensquashfs/src/apply_xattr.c"

#ifndef SHAPE
#define SHAPE 1
#endif
#if SHAPE == 0
#define NNODES 1
#elif SHAPE == 3
#define NNODES 2
#else
#define NNODES 4
#endif

typedef struct {
	tree_node_t n;
	char name[2];
} node_box_t;

static node_box_t g_n0, g_n1, g_n2, g_n3;
static node_box_t *const g_ntab[4] = { &g_n0, &g_n1, &g_n2, &g_n3 };
static fstree_t g_fs;
static options_t g_opt;
static int g_xwr_tag, g_se_tag, g_map_tag;
static char g_packdir[2];

enum { EV_BEGIN = 1, EV_FULL, EV_SCAN, EV_PATH, EV_MAP, EV_SE, EV_END };
#define NONE 7
#define MAXEV 32
static unsigned char g_log[MAXEV];
static int g_nev, g_fail_at, g_args_ok;
static char *g_full, *g_path;
static int g_full_node, g_path_node;

static int node_id(const tree_node_t *n)
{
	int i;

	for (i = 0; i < 4; ++i) {
		if (n == &g_ntab[i]->n)
			return i;
	}
	return NONE;
}

/* log one call; returns true when this call is the one that fails */
static int ev(int kind, int node)
{
	if (g_nev < MAXEV)
		g_log[g_nev] = (unsigned char)(kind * 8 + node);
	++g_nev;
	return g_nev - 1 == g_fail_at;
}

int sqfs_xattr_writer_begin(sqfs_xattr_writer_t *xwr, sqfs_u32 flags)
{
	if (xwr != (sqfs_xattr_writer_t *)&g_xwr_tag || flags != 0)
		g_args_ok = 0;
	return ev(EV_BEGIN, NONE) ? SQFS_ERROR_ALLOC : 0;
}

int sqfs_xattr_writer_end(sqfs_xattr_writer_t *xwr, sqfs_u32 *out)
{
	int i, id = NONE;

	for (i = 0; i < 4; ++i) {
		if (out == &g_ntab[i]->n.xattr_idx)
			id = i;
	}
	if (xwr != (sqfs_xattr_writer_t *)&g_xwr_tag || id == NONE)
		g_args_ok = 0;
	if (ev(EV_END, id))
		return SQFS_ERROR_ALLOC;
	if (id != NONE)
		*out = verif_nd_u32("end.idx");
	return 0;
}

char *stub_get_full_path(const char *prefix, tree_node_t *node)
{
	if (prefix != g_packdir)
		g_args_ok = 0;
	g_full_node = node_id(node);
	if (ev(EV_FULL, g_full_node))
		return NULL;
	g_full = malloc(2);
	if (g_full != NULL) {
		g_full[0] = 'f';
		g_full[1] = '\0';
	}
	return g_full;
}

int stub_xattr_from_path(sqfs_xattr_writer_t *xwr, const char *path)
{
	if (xwr != (sqfs_xattr_writer_t *)&g_xwr_tag || path == NULL ||
	    path != g_full)
		g_args_ok = 0;
	return ev(EV_SCAN, g_full_node) ? -1 : 0;
}

char *fstree_get_path(tree_node_t *node)
{
	g_path_node = node_id(node);
	if (ev(EV_PATH, g_path_node))
		return NULL;
	g_path = malloc(2);
	if (g_path != NULL) {
		g_path[0] = '/';
		g_path[1] = '\0';
	}
	return g_path;
}

int xattr_apply_map_file(char *path, void *map, sqfs_xattr_writer_t *xwr)
{
	if (xwr != (sqfs_xattr_writer_t *)&g_xwr_tag || map != &g_map_tag ||
	    path == NULL || path != g_path)
		g_args_ok = 0;
	return ev(EV_MAP, g_path_node) ? SQFS_ERROR_UNSUPPORTED : 0;
}

int selinux_relable_node(void *sehnd, sqfs_xattr_writer_t *xwr,
			 tree_node_t *node, const char *path)
{
	if (xwr != (sqfs_xattr_writer_t *)&g_xwr_tag || sehnd != &g_se_tag ||
	    path == NULL || path != g_path || node_id(node) != g_path_node)
		g_args_ok = 0;
	return ev(EV_SE, node_id(node)) ? -1 : 0;
}

void sqfs_perror(const char *file, const char *action, int error_code)
{
	(void)file; (void)action; (void)error_code;
}

int canonicalize_name(char *filename)
{
	(void)filename;
	VERIF_ASSERT(0, "C01.xattr_apply.unexpected_callee");
	return -1;
}

static void mk(node_box_t *b, node_box_t *parent, node_box_t *next,
	       node_box_t *child, int dir, char name)
{
	/* field by field (a memset would turn the link pointers into byte
	 * expressions and the recursion would no longer be cut by symex);
	 * static storage: everything else is zero */
	b->name[0] = name;
	b->name[1] = '\0';
	b->n.data.children = NULL;
	b->n.name = b->name;
	b->n.parent = parent ? &parent->n : NULL;
	b->n.next = next ? &next->n : NULL;
	b->n.mode = dir ? (S_IFDIR | 0755) : (S_IFREG | 0644);
	if (dir)
		b->n.data.children = child ? &child->n : NULL;
	b->n.xattr_idx = 0xFFFFFFFF;
}

void harness(void)
{
	bool scan, have_map, have_se, have_xwr;
	unsigned char want[MAXEV];
	int nwant = 0, i, ret;

	memset(g_log, 0, sizeof(g_log));
	g_nev = 0;
	g_args_ok = 1;
	g_full = NULL;
	g_path = NULL;
	g_full_node = NONE;
	g_path_node = NONE;
	g_packdir[0] = 'd';
	g_packdir[1] = '\0';

#if SHAPE == 0
	mk(&g_n0, NULL, NULL, NULL, 1, '\0');
#elif SHAPE == 3
	mk(&g_n0, NULL, NULL, &g_n1, 1, '\0');
	mk(&g_n1, &g_n0, NULL, NULL, 0, 'a');
#elif SHAPE == 1
	mk(&g_n0, NULL, NULL, &g_n1, 1, '\0');
	mk(&g_n1, &g_n0, &g_n2, NULL, 0, 'a');
	mk(&g_n2, &g_n0, NULL, &g_n3, 1, 'b');
	mk(&g_n3, &g_n2, NULL, NULL, 0, 'c');
#else
	mk(&g_n0, NULL, NULL, &g_n1, 1, '\0');
	mk(&g_n1, &g_n0, NULL, &g_n2, 1, 'a');
	mk(&g_n2, &g_n1, NULL, &g_n3, 1, 'b');
	mk(&g_n3, &g_n2, NULL, NULL, 0, 'c');
#endif
	memset(&g_fs, 0, sizeof(g_fs));
	g_fs.root = &g_n0.n;

	memset(&g_opt, 0, sizeof(g_opt));
	g_opt.packdir = g_packdir;
	g_opt.scan_xattr = verif_nd_bool("opt.scan_xattr");
	g_opt.infile = verif_nd_bool("opt.infile") ? "pack" : NULL;
	scan = g_opt.scan_xattr && g_opt.infile == NULL;
	have_map = verif_nd_bool("have_map");
	have_se = verif_nd_bool("have_se");
	have_xwr = verif_nd_bool("have_xwr");
	g_fail_at = verif_nd_bool("fails") ?
		(int)(verif_nd_u8("fail_at") % MAXEV) : -1;

	ret = apply_xattrs(&g_fs, &g_opt, have_se ? &g_se_tag : NULL,
			   have_map ? &g_map_tag : NULL,
			   have_xwr ? (sqfs_xattr_writer_t *)&g_xwr_tag : NULL);

	if (!have_xwr || (!scan && !have_map && !have_se)) {
		VERIF_ASSERT(ret == 0 && g_nev == 0,
			     "C01.xattr_apply.nothing_to_do");
		VERIF_COVER(have_xwr);
		VERIF_COVER(!have_xwr);
		return;
	}

	/* nodes 0..NNODES-1 are numbered in depth-first pre-order */
	for (i = 0; i < NNODES; ++i) {
		want[nwant++] = EV_BEGIN * 8 + NONE;
		if (scan) {
			want[nwant++] = (unsigned char)(EV_FULL * 8 + i);
			want[nwant++] = (unsigned char)(EV_SCAN * 8 + i);
		}
		if (have_map || have_se)
			want[nwant++] = (unsigned char)(EV_PATH * 8 + i);
		if (have_map)
			want[nwant++] = (unsigned char)(EV_MAP * 8 + i);
		if (have_se)
			want[nwant++] = (unsigned char)(EV_SE * 8 + i);
		want[nwant++] = (unsigned char)(EV_END * 8 + i);
	}
	if (g_fail_at >= 0 && g_fail_at < nwant)
		nwant = g_fail_at + 1;
	else
		g_fail_at = -1;

	if (g_fail_at < 0)
		VERIF_ASSERT(g_nev == nwant, "C01.xattr_apply.per_node");
	else
		VERIF_ASSERT(g_nev == nwant, "C07.xattr_apply.fail_stop");
	/* every position (witness index instead of a loop over the log) */
	i = (int)(verif_nd_u8("witness") % MAXEV);
	if (i < nwant && i < g_nev)
		VERIF_ASSERT(g_log[i] == want[i], "C01.xattr_apply.per_node");
	VERIF_ASSERT(g_args_ok, "C01.xattr_apply.args");
	VERIF_ASSERT(ret == (g_fail_at >= 0 ? -1 : 0),
		     "C07.xattr_apply.fail_stop");

	VERIF_COVER(ret == 0 && scan && have_map && have_se);
	VERIF_COVER(ret == 0 && !scan && have_map && !have_se);
	VERIF_COVER(ret == -1 && g_nev == 1);
	VERIF_COVER(ret == -1 && g_nev > 3 && g_log[g_nev - 1] / 8 == EV_MAP);
#if NNODES > 1
	VERIF_COVER(ret == -1 && g_log[g_nev - 1] == EV_END * 8 + NNODES - 1);
#endif
}
