# C01 (lead, round 3): reading back goes through the metadata reader; the
# position it reports (sqfs_meta_reader_get_position) has to be one it accepts
# again - the xattr reader depends on it for shared out-of-line values
# (seed C01-7: a position at the end of a short last block was refused on the
# way back, `rdsquashfs -x` failed on a correct image).
import os as _os, sys as _sys
_sys.path.insert(0, _os.path.join(_os.path.dirname(_os.path.abspath(__file__)), "..", "..", "tools"))
from borrow import borrow as _borrow

HARNESSES = _borrow(__file__, "C10", ["meta_getpos"])
FUNCTIONS = ["sqfs_meta_reader_get_position (via harness/C10)"]
TRUSTED = []
ASSUMPTIONS = []
