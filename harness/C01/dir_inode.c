/* C01.dir.inode: sqfs_dir_writer_create_inode (lib/sqfs/src/dir_writer.c)
 * for a finished directory without index entries (the index payload is
 * C03.dir.inode_kind.index): every quantity of the writer arrives in the
 * inode *as a number* - a value the chosen inode layout cannot hold must make
 * the function pick the other layout or refuse (NULL), never wrap. All
 * writer fields symbolic over their full range; loop-free: proved.
 *
 * (each clause once per layout: C01.dir.inode.basic.* / C01.dir.inode.ext.*)
 *   C01.dir.inode.size_exact    listing size field = dir_size + 3 (the three
 *                               bytes the format adds), as integers - this is
 *                               what makes readdir see every entry
 *   C01.dir.inode.start_exact   start block / offset = the recorded position
 *   C01.dir.inode.nlink_exact   link count = entries + hard links + 2
 *   C01.dir.inode.parent_xattr  parent inode number, xattr index
 *   C01.dir.inode.basic_only_if_fits   a basic inode is chosen only without
 *                               xattrs and below the index threshold
 */
#include <stdlib.h>
#include <string.h>
#include "verif.h"
#include "sqfs/predef.h"
#define C01_SIZES 64
#include "c01_alloc.h"

struct sqfs_meta_writer_t { sqfs_object_t base; int opaque; };
#include "lib/sqfs/src/dir_writer.c"

void harness(void)
{
	static sqfs_dir_writer_t w;
	size_t hlinks = verif_nd_size("hlinks");
	sqfs_u32 xattr = verif_nd_u32("xattr"), parent = verif_nd_u32("parent");
	sqfs_inode_generic_t *i;

	w.idx = NULL;
	w.idx_end = NULL;
	w.dir_ref = verif_nd_u64("dir_ref");
	w.dir_size = verif_nd_size("dir_size");
	w.ent_count = verif_nd_size("ent_count");
	/* what sqfs_dir_writer_end records: meta block position, 13 bit offset */
	VERIF_ASSUME((w.dir_ref & 0xFFFF) < 8192);

	i = sqfs_dir_writer_create_inode(&w, hlinks, xattr, parent);
	if (i == NULL) {
		VERIF_COVER(1);
		return;
	}
	if (i->base.type == SQFS_INODE_DIR) {
		VERIF_ASSERT((sqfs_u64)i->data.dir.size == (sqfs_u64)w.dir_size + 3 &&
			     w.dir_size <= SIZE_MAX - 3, "C01.dir.inode.basic.size_exact");
		VERIF_ASSERT((sqfs_u64)i->data.dir.start_block == (w.dir_ref >> 16) &&
			     i->data.dir.offset == (w.dir_ref & 0xFFFF),
			     "C01.dir.inode.basic.start_exact");
		VERIF_ASSERT(w.ent_count <= SIZE_MAX - 2 && hlinks <= SIZE_MAX - 2 - w.ent_count &&
			     (sqfs_u64)i->data.dir.nlink == (sqfs_u64)w.ent_count + hlinks + 2,
			     "C01.dir.inode.basic.nlink_exact");
		VERIF_ASSERT(i->data.dir.parent_inode == parent, "C01.dir.inode.basic.parent_xattr");
		VERIF_ASSERT(xattr == 0xFFFFFFFF && w.ent_count < 256,
			     "C01.dir.inode.basic.basic_only_if_fits");
		VERIF_COVER(w.dir_size == 0xFFFF - 3);
	} else {
		VERIF_ASSERT(i->base.type == SQFS_INODE_EXT_DIR, "C01.dir.inode.basic_only_if_fits");
		VERIF_ASSERT(w.dir_size <= SIZE_MAX - 3 &&
			     (sqfs_u64)i->data.dir_ext.size == (sqfs_u64)w.dir_size + 3,
			     "C01.dir.inode.ext.size_exact");
		VERIF_ASSERT((sqfs_u64)i->data.dir_ext.start_block == (w.dir_ref >> 16) &&
			     i->data.dir_ext.offset == (w.dir_ref & 0xFFFF),
			     "C01.dir.inode.ext.start_exact");
		VERIF_ASSERT(w.ent_count <= SIZE_MAX - 2 && hlinks <= SIZE_MAX - 2 - w.ent_count &&
			     (sqfs_u64)i->data.dir_ext.nlink == (sqfs_u64)w.ent_count + hlinks + 2,
			     "C01.dir.inode.ext.nlink_exact");
		VERIF_ASSERT(i->data.dir_ext.parent_inode == parent &&
			     i->data.dir_ext.xattr_idx == xattr && i->data.dir_ext.inodex_count == 0 &&
			     i->payload_bytes_used == 0, "C01.dir.inode.ext.parent_xattr");
		VERIF_COVER(w.dir_size == 0xFFFF - 2);
	}
	free(i);
}
