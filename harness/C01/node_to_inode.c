/* C01.node.to_inode: lib/common/src/writer/serialize_fstree.c
 * serialize_tree_node() / tree_node_to_inode() with the real inode helpers
 * (lib/sqfs/src/inode.c: make_extended / make_basic / set_xattr_index) - the
 * inode handed to sqfs_meta_writer_write_inode carries the node's fields.
 * Contracts: sqfs_id_table_id_to_index (any index, remembered with its id, or
 * failure), sqfs_meta_writer_get_position (any position), write_inode (keeps a
 * copy of what it is given, any result), the directory writer (dir kind only:
 * create_inode returns a basic or an extended directory inode).
 * One run per node kind (-DKIND: 0 dir 1 reg-basic 2 reg-extended 3 slink
 * 4 blk 5 chr 6 fifo 7 sock), TL = symlink target length; every number
 * symbolic (device number 64 bit as the node stores it).
 *
 *   C01.node.to_inode.type     inode type is the node's file kind; extended
 *                              exactly when needed (xattr index / link count
 *                              of a file), never when not
 *   C01.node.to_inode.base     mode, mtime, inode number
 *   C01.node.to_inode.owner    uid_idx / gid_idx are the indices the id table
 *                              returned for the node's uid / gid
 *   C01.node.to_inode.nlink    link count
 *   C01.node.to_inode.xattr    xattr index readable from the inode = node's
 *   C01.node.to_inode.devno    device number equal as a number (the inode
 *                              field is 32 bit; requires devno <= 2^32-1,
 *                              which C01.mknode.faithful.devno provides)
 *   C01.node.to_inode.target   symlink target size and bytes
 *   C01.node.to_inode.file     file size / block start / fragment location
 *                              of a file inode survive the basic<->extended
 *                              conversion
 *   C01.node.to_inode.ref      node->inode_ref = (block << 16) | offset of the
 *                              meta writer when the inode was written
 *   C01.node.to_inode.status   result = the writer's / id table's status
 */
#include <stdlib.h>
#include <string.h>
#include <stdio.h>
#include "verif.h"
#ifndef KIND
#define KIND 3
#endif
#ifndef TL
#define TL 3
#endif
#define GEN 64
#define C01_SIZES GEN, GEN + TL
#include "sqfs/predef.h"
#include "c01_alloc.h"
#include "common.h"

struct sqfs_meta_writer_t { sqfs_object_t base; int opaque; };
struct sqfs_id_table_t { sqfs_object_t base; int opaque; };
struct sqfs_dir_writer_t { sqfs_object_t base; int opaque; };

static struct { sqfs_u32 id; sqfs_u16 idx; } g_idcall[2];
static unsigned g_id_calls, g_wi_calls, g_dir_adds;
static bool g_id_failed;
static struct { sqfs_inode_generic_t n; sqfs_u8 payload[8]; } g_seen;
static sqfs_u64 g_pos_block;
static sqfs_u32 g_pos_off;
static int g_wi_ret, g_id_ret;
static bool g_dir_ext;

int sqfs_id_table_id_to_index(sqfs_id_table_t *tbl, sqfs_u32 id, sqfs_u16 *out)
{
	(void)tbl;
	if (verif_nd_bool("id_fails")) {
		g_id_failed = true;
		g_id_ret = verif_nd_bool("id_overflow") ? SQFS_ERROR_OVERFLOW : SQFS_ERROR_ALLOC;
		return g_id_ret;
	}
	*out = verif_nd_u16("idx");
	if (g_id_calls < 2) {
		g_idcall[g_id_calls].id = id;
		g_idcall[g_id_calls].idx = *out;
	}
	g_id_calls++;
	return 0;
}

void sqfs_meta_writer_get_position(const sqfs_meta_writer_t *m,
				   sqfs_u64 *block_start, sqfs_u32 *offset)
{
	(void)m;
	*block_start = g_pos_block;
	*offset = g_pos_off;
}

int sqfs_meta_writer_write_inode(sqfs_meta_writer_t *ir, const sqfs_inode_generic_t *n)
{
	(void)ir;
	g_wi_calls++;
	g_seen.n = *n;
	if (n->base.type == SQFS_INODE_SLINK || n->base.type == SQFS_INODE_EXT_SLINK)
		(memcpy)(g_seen.payload, n->extra, TL);
	g_wi_ret = verif_nd_bool("write_fails") ? SQFS_ERROR_IO : 0;
	return g_wi_ret;
}

int sqfs_dir_writer_begin(sqfs_dir_writer_t *w, sqfs_u32 flags) { (void)w; (void)flags; return 0; }
int sqfs_dir_writer_add_entry(sqfs_dir_writer_t *w, const char *name, sqfs_u32 inode_num,
			      sqfs_u64 inode_ref, sqfs_u16 mode)
{ (void)w; (void)name; (void)inode_num; (void)inode_ref; (void)mode; g_dir_adds++; return 0; }
int sqfs_dir_writer_end(sqfs_dir_writer_t *w) { (void)w; return 0; }
static sqfs_u32 g_dir_parent, g_dir_xattr;
sqfs_inode_generic_t *sqfs_dir_writer_create_inode(const sqfs_dir_writer_t *w, size_t hlinks,
						   sqfs_u32 xattr, sqfs_u32 parent_ino)
{
	sqfs_inode_generic_t *i = calloc(1, sizeof(*i));
	(void)w; (void)hlinks;
	g_dir_parent = parent_ino;
	g_dir_xattr = xattr;
	g_dir_ext = xattr != 0xFFFFFFFF || verif_nd_bool("dir_ext");
	if (g_dir_ext) {
		i->base.type = SQFS_INODE_EXT_DIR;
		i->data.dir_ext.xattr_idx = xattr;
		i->data.dir_ext.parent_inode = parent_ino;
	} else {
		i->base.type = SQFS_INODE_DIR;
		i->data.dir.parent_inode = parent_ino;
	}
	return i;
}
void sqfs_perror(const char *file, const char *action, int error_code)
{ (void)file; (void)action; (void)error_code; }
#ifndef VERIF_REPLAY
void perror(const char *s) { (void)s; }
#endif

#include "lib/sqfs/src/inode.c"
#include "lib/common/src/writer/serialize_fstree.c"

void harness(void)
{
	static sqfs_writer_t wr;
	static sqfs_meta_writer_t im;
	static sqfs_id_table_t idtbl;
	static sqfs_dir_writer_t dirwr;
	static struct { tree_node_t n; char s[TL + 2]; } nw;
	static tree_node_t parent;
	tree_node_t *n = &nw.n;
	sqfs_inode_generic_t *fi = NULL;
	sqfs_u64 fsize = verif_nd_u64("fsize"), fstart = verif_nd_u64("fstart"), devno;
	sqfs_u32 fidx = verif_nd_u32("fidx"), foff = verif_nd_u32("foff"), xattr_seen = 0;
	sqfs_u16 perm = verif_nd_u16("perm") & 07777;
	size_t i;
	int ret;

	g_id_calls = g_wi_calls = g_dir_adds = 0;
	g_id_failed = false;
	wr.im = &im;
	wr.idtbl = &idtbl;
	wr.dirwr = &dirwr;
	g_pos_block = verif_nd_u64("block");
	g_pos_off = verif_nd_u32("offset") & 0x1FFF;
	VERIF_ASSUME(g_pos_block < (1ULL << 48));

	n->name = nw.s;
	n->xattr_idx = verif_nd_bool("has_xattr") ? verif_nd_u32("xattr") : 0xFFFFFFFF;
	n->uid = verif_nd_u32("uid");
	n->gid = verif_nd_u32("gid");
	n->inode_num = verif_nd_u32("inode_num");
	n->mod_time = verif_nd_u32("mod_time");
	n->link_count = verif_nd_u32("link_count");
	VERIF_ASSUME(n->link_count >= 1); /* every node is linked from its parent */
	n->flags = 0;
	n->parent = &parent;
	parent.inode_num = verif_nd_u32("parent_num");
	devno = verif_nd_u64("devno");
	VERIF_ASSUME(devno <= 0xFFFFFFFFUL); /* ensured by mknode (C01.mknode.faithful.devno) */

#if KIND == 0
	n->mode = S_IFDIR | perm;
	n->data.children = NULL;
#elif KIND == 1 || KIND == 2
	n->mode = S_IFREG | perm;
	fi = calloc(1, sizeof(*fi));
	if (KIND == 1) {
		fi->base.type = SQFS_INODE_FILE;
		VERIF_ASSUME(fsize <= 0xFFFFFFFFUL && fstart <= 0xFFFFFFFFUL);
		fi->data.file.file_size = (sqfs_u32)fsize;
		fi->data.file.blocks_start = (sqfs_u32)fstart;
		fi->data.file.fragment_index = fidx;
		fi->data.file.fragment_offset = foff;
	} else {
		fi->base.type = SQFS_INODE_EXT_FILE;
		fi->data.file_ext.file_size = fsize;
		fi->data.file_ext.blocks_start = fstart;
		fi->data.file_ext.fragment_idx = fidx;
		fi->data.file_ext.fragment_offset = foff;
		fi->data.file_ext.sparse = verif_nd_u64("sparse");
		fi->data.file_ext.nlink = 1;
		fi->data.file_ext.xattr_idx = 0xFFFFFFFF;
	}
	n->data.file.inode = fi;
#elif KIND == 3
	n->mode = S_IFLNK | 0777;
	for (i = 0; i < TL; ++i) {
		uint8_t b = verif_nd_u8("target");
		VERIF_ASSUME(b != 0);
		(memcpy)(&nw.s[1 + i], &b, 1);
	}
	nw.s[1 + TL] = 0;
	n->data.target = nw.s + 1;
#elif KIND == 4
	n->mode = S_IFBLK | perm;
	n->data.devno = devno;
#elif KIND == 5
	n->mode = S_IFCHR | perm;
	n->data.devno = devno;
#elif KIND == 6
	n->mode = S_IFIFO | perm;
#else
	n->mode = S_IFSOCK | perm;
#endif

	ret = serialize_tree_node("x", &wr, n);

	if (g_id_failed) {
		VERIF_ASSERT(ret == g_id_ret && g_wi_calls == 0, "C01.node.to_inode.status");
		VERIF_COVER(1);
		VERIF_ASSERT(g_live == 0, "C01.node.to_inode.inode_released");
		return;
	}
	VERIF_ASSERT(g_wi_calls == 1 && ret == g_wi_ret && g_id_calls == 2,
		     "C01.node.to_inode.status");
	VERIF_ASSERT(g_live == 0, "C01.node.to_inode.inode_released");
	VERIF_COVER(ret == 0);
	VERIF_COVER(ret != 0);

	{
		const sqfs_inode_generic_t *s = &g_seen.n;
		bool ext = s->base.type >= SQFS_INODE_EXT_DIR;
		unsigned basic_t = ext ? s->base.type - 7 : s->base.type;
		static const unsigned want[8] = {
			SQFS_INODE_DIR, SQFS_INODE_FILE, SQFS_INODE_FILE, SQFS_INODE_SLINK,
			SQFS_INODE_BDEV, SQFS_INODE_CDEV, SQFS_INODE_FIFO, SQFS_INODE_SOCKET
		};
		sqfs_u32 nlink = 0;

		VERIF_ASSERT(basic_t == want[KIND], "C01.node.to_inode.type");
		if (n->xattr_idx != 0xFFFFFFFF)
			VERIF_ASSERT(ext, "C01.node.to_inode.type");
		else if (KIND >= 3)
			VERIF_ASSERT(!ext, "C01.node.to_inode.type");
		VERIF_ASSERT(s->base.mode == n->mode && s->base.mod_time == n->mod_time &&
			     s->base.inode_number == n->inode_num, "C01.node.to_inode.base");
		VERIF_ASSERT(g_idcall[0].id == n->uid && s->base.uid_idx == g_idcall[0].idx &&
			     g_idcall[1].id == n->gid && s->base.gid_idx == g_idcall[1].idx,
			     "C01.node.to_inode.owner");
		VERIF_ASSERT(sqfs_inode_get_xattr_index(s, &xattr_seen) == 0 &&
			     xattr_seen == n->xattr_idx, "C01.node.to_inode.xattr");
		switch (s->base.type) {
		case SQFS_INODE_DIR: nlink = s->data.dir.nlink; break;
		case SQFS_INODE_EXT_DIR: nlink = s->data.dir_ext.nlink; break;
		case SQFS_INODE_FILE: nlink = 1; break;
		case SQFS_INODE_EXT_FILE: nlink = s->data.file_ext.nlink; break;
		case SQFS_INODE_SLINK: case SQFS_INODE_EXT_SLINK: nlink = s->data.slink.nlink; break;
		case SQFS_INODE_BDEV: case SQFS_INODE_CDEV:
		case SQFS_INODE_EXT_BDEV: case SQFS_INODE_EXT_CDEV: nlink = s->data.dev.nlink; break;
		default: nlink = s->data.ipc.nlink; break;
		}
		VERIF_ASSERT(nlink == n->link_count, "C01.node.to_inode.nlink");
#if KIND == 0
		VERIF_ASSERT(g_dir_parent == parent.inode_num && g_dir_xattr == n->xattr_idx &&
			     g_dir_adds == 0, "C01.node.to_inode.dir");
#elif KIND == 1 || KIND == 2
		{
			sqfs_u64 sz = 0, st = 0;
			sqfs_u32 a = 0, b = 0;
			VERIF_ASSERT(sqfs_inode_get_file_size(s, &sz) == 0 && sz == fsize &&
				     sqfs_inode_get_file_block_start(s, &st) == 0 && st == fstart &&
				     sqfs_inode_get_frag_location(s, &a, &b) == 0 && a == fidx && b == foff,
				     "C01.node.to_inode.file");
			if (ext)
				VERIF_ASSERT(KIND == 1 ? s->data.file_ext.sparse == 0 : 1,
					     "C01.node.to_inode.file");
			if (!ext)
				VERIF_ASSERT(n->link_count == 1, "C01.node.to_inode.type");
			VERIF_ASSERT(n->data.file.inode == NULL, "C01.node.to_inode.inode_released");
		}
#elif KIND == 3
		VERIF_ASSERT(s->data.slink.target_size == TL, "C01.node.to_inode.target");
		for (i = 0; i < TL; ++i)
			VERIF_ASSERT(g_seen.payload[i] == (sqfs_u8)nw.s[1 + i],
				     "C01.node.to_inode.target");
#elif KIND == 4 || KIND == 5
		VERIF_ASSERT((sqfs_u64)s->data.dev.devno == devno, "C01.node.to_inode.devno");
#endif
		VERIF_ASSERT(n->inode_ref == ((g_pos_block << 16) | g_pos_off),
			     "C01.node.to_inode.ref");
	}
}
