/* C01 (w14): add_sentinel_block (lib/sqfs/src/block_processor/frontend.c),
 * get_new_block and enqueue_block REPLACED by their contracts GNB / ENQ
 * (w14_bp_model.h). The sentinel is the empty block that tells the back end
 * "this file is complete" when the last data block was already submitted.
 * Loop-free, full domain.
 *
 *   C01.bp.sentinel.block      the one block handed over is fresh from GNB,
 *              empty (size 0, index 0), belongs to the file's inode and
 *              carries exactly blk_flags | SQFS_BLK_LAST_BLOCK
 *   C01.bp.sentinel.fail_stop  ret != 0 <==> a callee failed; nothing is
 *              handed over when no block could be had
 *   C01.bp.sentinel.frame      the per-file state (inode, flags, index,
 *              current block) is untouched
 */
#include "lib/sqfs/src/block_processor/internal.h"

static void w14_enq_monitor(const sqfs_block_t *blk);
#define W14_ENQ_MONITOR(blk) w14_enq_monitor(blk)
#define W14_BP_CALLER_STUBS
#include "w14_bp_model.h"

#include "lib/sqfs/src/block_processor/frontend.c"

static sqfs_inode_generic_t **g_inode_arg;
static sqfs_u32 g_flags0;

static void w14_enq_monitor(const sqfs_block_t *blk)
{
	VERIF_ASSERT(g_submitted == 0 && blk->size == 0 && blk->index == 0 &&
		     blk->inode == g_inode_arg &&
		     blk->flags == (g_flags0 | SQFS_BLK_LAST_BLOCK) &&
		     blk->next == NULL && blk->user == NULL &&
		     blk->checksum == 0 && blk->io_seq_num == 0,
		     "C01.bp.sentinel.block");
}

int dequeue_block(sqfs_block_processor_t *proc)
{
	(void)proc;
	VERIF_ASSERT(0, "C01.bp.env_unreachable");
	return 0;
}

void *alloc_flex(size_t a, size_t b, size_t c)
{
	(void)a; (void)b; (void)c;
	VERIF_ASSERT(0, "C01.bp.env_unreachable");
	return NULL;
}

int sqfs_inode_get_file_size(const sqfs_inode_generic_t *inode, sqfs_u64 *size)
{
	(void)inode; (void)size;
	VERIF_ASSERT(0, "C01.bp.env_unreachable");
	return 0;
}

int sqfs_inode_set_file_size(sqfs_inode_generic_t *inode, sqfs_u64 size)
{
	(void)inode; (void)size;
	VERIF_ASSERT(0, "C01.bp.env_unreachable");
	return 0;
}

int sqfs_inode_set_frag_location(sqfs_inode_generic_t *inode, sqfs_u32 index,
				 sqfs_u32 offset)
{
	(void)inode; (void)index; (void)offset;
	VERIF_ASSERT(0, "C01.bp.env_unreachable");
	return 0;
}

void harness(void)
{
	static sqfs_inode_generic_t *slot;
	sqfs_u32 idx0;
	int ret;

	g_faults = g_submitted = 0;
	g_live = 0;
	g_p.proc.max_block_size = BS;
	g_p.proc.begin_called = true;
	g_p.proc.pool = NULL;
	g_p.proc.blk_current = NULL;
	g_p.proc.max_backlog = verif_nd_size("max_backlog");
	VERIF_ASSUME(g_p.proc.max_backlog >= 3);
	g_p.proc.backlog = verif_nd_size("backlog");
	g_inode_arg = verif_nd_bool("with_inode") ? &slot : NULL;
	g_p.proc.inode = g_inode_arg;
	/* flags of an open file: user flags, first-block mark */
	g_flags0 = verif_nd_u32("blk_flags") &
		   (SQFS_BLK_USER_SETTABLE_FLAGS | SQFS_BLK_FIRST_BLOCK);
	g_p.proc.blk_flags = g_flags0;
	idx0 = verif_nd_u32("blk_index");
	g_p.proc.blk_index = idx0;
	g_blk.b.next = &g_blk.b;		/* stale */
	g_blk.b.user = &g_blk;
	g_blk.b.inode = NULL;
	g_blk.b.flags = verif_nd_u32("stale");
	g_blk.b.size = verif_nd_u32("stale");
	g_blk.b.index = verif_nd_u32("stale");
	g_blk.b.checksum = verif_nd_u32("stale");
	g_blk.b.io_seq_num = verif_nd_u32("stale");

	ret = add_sentinel_block(&g_p.proc);

	VERIF_ASSERT((ret == 0) == (g_faults == 0) && g_faults <= 1,
		     "C01.bp.sentinel.fail_stop");
	VERIF_ASSERT(ret != 0 || g_submitted == 1, "C01.bp.sentinel.block");
	VERIF_ASSERT(!g_live || (ret != 0 && g_submitted == 0),
		     "C01.bp.sentinel.fail_stop");
	VERIF_ASSERT(g_p.proc.inode == g_inode_arg && g_p.proc.blk_flags == g_flags0 &&
		     g_p.proc.blk_index == idx0 && g_p.proc.blk_current == NULL &&
		     g_p.proc.begin_called, "C01.bp.sentinel.frame");

	VERIF_COVER(ret == 0 && (g_flags0 & SQFS_BLK_FIRST_BLOCK) == 0);
	VERIF_COVER(ret != 0 && g_submitted == 0);
	VERIF_COVER(ret != 0 && g_submitted == 1);
}
