/* C01 (w14): enqueue_block (lib/sqfs/src/block_processor/frontend.c) proved
 * against the contract ENQ of w14_bp_model.h, which bp_append.c and
 * w14_bp_sentinel.c assume. Loop-free, full domain: every header value, with
 * and without the read-back objects (file, uncmp), every failure of
 * alloc_flex / pool->submit, every pool status.
 *
 *   C01.bp.enqueue.submitted  ret == 0: pool->submit took (pool, blk) exactly
 *              once and the block it saw had flags, size, index, inode, user,
 *              checksum, io_seq_num as at entry; nothing of the processor's
 *              per-file state moved
 *   C01.bp.enqueue.copy       a fragment block of a processor with read-back
 *              gets exactly one in-flight copy (size, index and size payload
 *              bytes of the block, copied within both payloads) pushed on
 *              fblk_in_flight before the submit; any other block gets none
 *   C01.bp.enqueue.fail_stop  ret != 0 <==> a callee failed; a block the pool
 *              refused is the new head of the free list in front of the old
 *              list, the status is the pool's (SQFS_ERROR_ALLOC if it has
 *              none); after a failed copy allocation nothing was submitted,
 *              ret == SQFS_ERROR_ALLOC and the block is on the free list too
 *
 * (Until fix 1bda2ca a block was dropped after a failed copy allocation - the
 * leak worker w17 turned into C13.bp.no_orphan.)
 */
#include "w14_bp_model.h"

#ifndef WITH_READBACK
#define WITH_READBACK 1
#endif

static blk_t g_copy, g_old;
static thread_pool_t g_pool;
static sqfs_file_t g_file;
static sqfs_compressor_t g_uncmp;
static unsigned g_alloc_calls, g_submit_calls, g_memcpy_calls, g_status_calls;
static size_t g_alloc_nmemb;
static _Bool g_submit_failed, g_alloc_failed;
static int g_status;
static sqfs_block_t g_seen;		/* header the pool saw */
static sqfs_block_t *g_inflight_at_submit;

void *alloc_flex(size_t base_size, size_t item_size, size_t nmemb)
{
	VERIF_ASSERT(g_alloc_calls == 0 && g_submit_calls == 0 &&
		     base_size == sizeof(sqfs_block_t) && item_size == 1 &&
		     nmemb == g_blk.b.size, "C01.bp.enqueue.copy");
	g_alloc_calls += 1;
	g_alloc_nmemb = nmemb;
	if (verif_nd_bool("alloc_fails")) {
		g_faults += 1;
		g_alloc_failed = 1;
		return NULL;
	}
	blk_zero_header(&g_copy.b);	/* calloc semantics */
	return &g_copy.b;
}

static void *c01_memcpy(void *dst, const void *src, size_t n)
{
	VERIF_ASSERT(g_alloc_calls == 1 && g_memcpy_calls == 0 &&
		     dst == (void *)g_copy.b.data && src == (const void *)g_blk.b.data &&
		     n == g_blk.b.size && n <= g_alloc_nmemb && n <= BS,
		     "C01.bp.enqueue.copy");
	g_memcpy_calls += 1;
	return dst;
}
#define memcpy c01_memcpy
#include "lib/sqfs/src/block_processor/frontend.c"
#undef memcpy

int stub_submit(thread_pool_t *pool, void *item)
{
	VERIF_ASSERT(pool == &g_pool && item == (void *)&g_blk.b &&
		     g_submit_calls == 0, "C01.bp.enqueue.submitted");
	g_submit_calls += 1;
	g_seen = g_blk.b;
	g_inflight_at_submit = g_p.proc.fblk_in_flight;
	if (verif_nd_bool("submit_fails")) {
		g_faults += 1;
		g_submit_failed = 1;
		return nd_nonzero("submit_ret");
	}
	return 0;
}

int stub_get_status(thread_pool_t *pool)
{
	VERIF_ASSERT(pool == &g_pool && g_submit_failed,
		     "C01.bp.enqueue.fail_stop");
	g_status_calls += 1;
	g_status = verif_nd_int("pool_status");
	VERIF_ASSUME(g_status <= 0);
	return g_status;
}

int dequeue_block(sqfs_block_processor_t *proc)
{
	(void)proc;
	VERIF_ASSERT(0, "C01.bp.env_unreachable");
	return 0;
}

int sqfs_inode_get_file_size(const sqfs_inode_generic_t *inode, sqfs_u64 *size)
{
	(void)inode; (void)size;
	VERIF_ASSERT(0, "C01.bp.env_unreachable");
	return 0;
}

int sqfs_inode_set_file_size(sqfs_inode_generic_t *inode, sqfs_u64 size)
{
	(void)inode; (void)size;
	VERIF_ASSERT(0, "C01.bp.env_unreachable");
	return 0;
}

int sqfs_inode_set_frag_location(sqfs_inode_generic_t *inode, sqfs_u32 index,
				 sqfs_u32 offset)
{
	(void)inode; (void)index; (void)offset;
	VERIF_ASSERT(0, "C01.bp.env_unreachable");
	return 0;
}

void harness(void)
{
	static sqfs_inode_generic_t *slot;
	sqfs_block_t h0, *fl0, *inflight0, *cur0;
	size_t backlog0;
	sqfs_u32 idx0, flags0;
	_Bool wants_copy;
	int ret;

	g_faults = 0;
	g_alloc_calls = g_submit_calls = g_memcpy_calls = g_status_calls = 0;
	g_alloc_nmemb = 0;
	g_submit_failed = g_alloc_failed = 0;
	g_status = 0;
	g_inflight_at_submit = NULL;

	g_pool.submit = stub_submit;
	g_pool.get_status = stub_get_status;
	g_p.proc.pool = &g_pool;
	g_p.proc.max_block_size = BS;
#if WITH_READBACK
	g_p.proc.file = verif_nd_bool("with_file") ? &g_file : NULL;
	g_p.proc.uncmp = verif_nd_bool("with_uncmp") ? &g_uncmp : NULL;
#else
	g_p.proc.file = NULL;
	g_p.proc.uncmp = NULL;
#endif
	g_old.b.next = NULL;
	g_p.proc.free_list = verif_nd_bool("free_list") ? &g_old.b : NULL;
	g_p.proc.fblk_in_flight = verif_nd_bool("in_flight") ? &g_old.b : NULL;
	g_p.proc.blk_current = verif_nd_bool("cur_is_blk") ? &g_blk.b : NULL;
	g_p.proc.backlog = verif_nd_size("backlog");
	g_p.proc.blk_index = verif_nd_u32("blk_index");
	g_p.proc.blk_flags = verif_nd_u32("blk_flags");
	fl0 = g_p.proc.free_list;
	inflight0 = g_p.proc.fblk_in_flight;
	cur0 = g_p.proc.blk_current;
	backlog0 = g_p.proc.backlog;
	idx0 = g_p.proc.blk_index;
	flags0 = g_p.proc.blk_flags;

	g_blk.b.next = verif_nd_bool("stale_next") ? &g_old.b : NULL;
	g_blk.b.inode = verif_nd_bool("with_inode") ? &slot : NULL;
	g_blk.b.io_seq_num = verif_nd_u32("io_seq_num");
	g_blk.b.flags = verif_nd_u32("flags");
	g_blk.b.size = verif_nd_u32("size");
	g_blk.b.checksum = verif_nd_u32("checksum");
	g_blk.b.index = verif_nd_u32("index");
	g_blk.b.user = verif_nd_bool("with_user") ? &slot : NULL;
	VERIF_ASSUME(g_blk.b.size <= BS);			/* ENQ requires */
	h0 = g_blk.b;
	wants_copy = (h0.flags & SQFS_BLK_FRAGMENT_BLOCK) != 0 &&
		     g_p.proc.file != NULL && g_p.proc.uncmp != NULL;

	ret = enqueue_block(&g_p.proc, &g_blk.b);

	VERIF_ASSERT((ret == 0) == (g_faults == 0) && g_faults <= 1,
		     "C01.bp.enqueue.fail_stop");
	VERIF_ASSERT(g_p.proc.blk_current == cur0 && g_p.proc.backlog == backlog0 &&
		     g_p.proc.blk_index == idx0 && g_p.proc.blk_flags == flags0,
		     "C01.bp.enqueue.submitted");
	VERIF_ASSERT(g_blk.b.inode == h0.inode && g_blk.b.io_seq_num == h0.io_seq_num &&
		     g_blk.b.flags == h0.flags && g_blk.b.size == h0.size &&
		     g_blk.b.checksum == h0.checksum && g_blk.b.index == h0.index &&
		     g_blk.b.user == h0.user, "C01.bp.enqueue.submitted");

	if (g_submit_calls == 1)
		VERIF_ASSERT(g_seen.inode == h0.inode && g_seen.io_seq_num == h0.io_seq_num &&
			     g_seen.flags == h0.flags && g_seen.size == h0.size &&
			     g_seen.checksum == h0.checksum && g_seen.index == h0.index &&
			     g_seen.user == h0.user, "C01.bp.enqueue.submitted");

	/* in-flight copy: iff wanted, made before the submit */
	VERIF_ASSERT(g_alloc_calls == (wants_copy ? 1u : 0u), "C01.bp.enqueue.copy");
	if (wants_copy && !g_alloc_failed)
		VERIF_ASSERT(g_memcpy_calls == 1 && g_p.proc.fblk_in_flight == &g_copy.b &&
			     g_inflight_at_submit == &g_copy.b &&
			     g_copy.b.next == inflight0 && g_copy.b.size == h0.size &&
			     g_copy.b.index == h0.index, "C01.bp.enqueue.copy");
	else
		VERIF_ASSERT(g_memcpy_calls == 0 && g_p.proc.fblk_in_flight == inflight0,
			     "C01.bp.enqueue.copy");

	if (ret == 0) {
		VERIF_ASSERT(g_submit_calls == 1 && g_status_calls == 0 &&
			     g_p.proc.free_list == fl0 && g_blk.b.next == h0.next,
			     "C01.bp.enqueue.submitted");
	} else if (g_alloc_failed) {
		/* since fix 1bda2ca the refused block goes back to the free
		 * list here as well (it used to be dropped: C13.bp.no_orphan) */
		VERIF_ASSERT(ret == SQFS_ERROR_ALLOC && g_submit_calls == 0 &&
			     g_p.proc.free_list == &g_blk.b && g_blk.b.next == fl0,
			     "C01.bp.enqueue.fail_stop");
	} else {
		VERIF_ASSERT(g_submit_failed && g_status_calls == 1 &&
			     ret == (g_status != 0 ? g_status : SQFS_ERROR_ALLOC) &&
			     g_p.proc.free_list == &g_blk.b && g_blk.b.next == fl0,
			     "C01.bp.enqueue.fail_stop");
	}

	VERIF_COVER(ret == 0 && !wants_copy);
#if WITH_READBACK
	VERIF_COVER(ret == 0 && wants_copy && h0.size == BS && inflight0 != NULL);
	VERIF_COVER(ret == SQFS_ERROR_ALLOC && g_alloc_failed);
	VERIF_COVER(ret != 0 && wants_copy && g_submit_failed);
#endif
	VERIF_COVER(ret != 0 && g_submit_failed && g_status == 0 && fl0 != NULL);
	VERIF_COVER(ret != 0 && g_submit_failed && g_status < 0 && ret == g_status);
}
