/* C01 (bounded text): decode() of bin/gensquashfs/src/filemap_xattr.c
 * together with the real hex_decode / base64_decode it calls, against the
 * independent value specification spec/xattr_value_spec.h, for EVERY value
 * text of LEN bytes (no NUL inside - parse_xattr passes strlen). FORM fixes
 * the first two bytes so that the payload can be longer:
 *   FORM 0  all LEN bytes symbolic          FORM 1  "0x" + LEN-2 symbolic
 *   FORM 2  "0s" + LEN-2 symbolic           FORM 3  '"' + LEN-2 symbolic + '"'
 *
 *  C01.xattr_value.eq_spec            the specification gives the text a
 *                                     meaning (XV_OK) => decode returns
 *                                     exactly those bytes and that length
 *  C01.xattr_value.malformed_refused  the text announces hex / base64 and
 *                                     violates the encoding (XV_MALFORMED)
 *                                     => decode returns NULL - one class is
 *                                     named separately:
 *  C01.xattr_value.odd_hex_refused    "0x" + an odd number of characters (a
 *                                     hex digit without partner, or a stray
 *                                     byte behind complete pairs)
 *  (XV_UNSPEC texts: memory safety only)
 */
#include <stdlib.h>
#include <string.h>
#include "verif.h"
#include "bin/gensquashfs/src/filemap_xattr.c"
#include "lib/util/src/hex_decode.c"
#include "lib/util/src/base64_decode.c"
#include "xattr_value_spec.h"

#ifndef LEN
#define LEN 4
#endif
#ifndef FORM
#define FORM 0
#endif

static char g_text[LEN + 1];
static uint8_t g_want[LEN + 1];

int canonicalize_name(char *filename)
{
	(void)filename;
	VERIF_ASSERT(0, "C01.xattr_value.unexpected_callee");
	return -1;
}

void harness(void)
{
	size_t size = LEN, want_len = 0, i;
	int verdict;
	sqfs_u8 *got;

	verif_nd_bytes(g_text, LEN, "text");
	g_text[LEN] = '\0';
#if FORM == 1 && LEN >= 2
	g_text[0] = '0';
	g_text[1] = verif_nd_bool("upper") ? 'X' : 'x';
#elif FORM == 2 && LEN >= 2
	g_text[0] = '0';
	g_text[1] = verif_nd_bool("upper") ? 'S' : 's';
#elif FORM == 3 && LEN >= 2
	g_text[0] = '"';
	g_text[LEN - 1] = '"';
#endif
	for (i = 0; i < LEN; ++i)
		VERIF_ASSUME(g_text[i] != '\0');

	verdict = spec_xattr_value(g_text, LEN, g_want, &want_len);

	got = decode("xattrs", 1, g_text, &size);

	if (verdict == XV_OK) {
		VERIF_ASSERT(got != NULL && size == want_len,
			     "C01.xattr_value.eq_spec");
		if (got != NULL && size == want_len) {
			for (i = 0; i < LEN; ++i) {
				if (i < want_len)
					VERIF_ASSERT(got[i] == g_want[i],
						     "C01.xattr_value.eq_spec");
			}
		}
	} else if (verdict == XV_MALFORMED) {
		if (LEN >= 2 && LEN % 2 == 1 && g_text[0] == '0' &&
		    (g_text[1] == 'x' || g_text[1] == 'X')) {
			VERIF_ASSERT(got == NULL,
				     "C01.xattr_value.odd_hex_refused");
		} else {
			VERIF_ASSERT(got == NULL,
				     "C01.xattr_value.malformed_refused");
		}
	}
	/* which verdicts exist depends on the shape (FORM, LEN) */
#if FORM == 0
	VERIF_COVER(verdict == XV_OK && want_len == LEN);
	VERIF_COVER(verdict == XV_UNSPEC && got != NULL);
#if LEN >= 4
	VERIF_COVER(verdict == XV_OK && want_len + 2 == LEN);
	VERIF_COVER(verdict == XV_OK && want_len == 1);
#endif
#if LEN >= 3
	VERIF_COVER(verdict == XV_MALFORMED);
#endif
#elif FORM == 1
#if LEN % 2 == 0
	VERIF_COVER(verdict == XV_OK && 2 * want_len + 2 == LEN);
#endif
#if LEN >= 3
	VERIF_COVER(verdict == XV_MALFORMED);
#endif
#elif FORM == 2
#if (LEN - 2) % 4 == 0
	VERIF_COVER(verdict == XV_OK && 4 * want_len == 3 * (LEN - 2));
#if LEN >= 6
	VERIF_COVER(verdict == XV_OK && 4 * want_len + 8 == 3 * (LEN - 2));
	VERIF_COVER(verdict == XV_MALFORMED);
#endif
#elif (LEN - 2) % 4 == 1
	VERIF_COVER(verdict == XV_MALFORMED);
#else
	VERIF_COVER(verdict == XV_UNSPEC);
#endif
#else
	VERIF_COVER(verdict == XV_OK && want_len + 2 == LEN);
#if LEN >= 6
	VERIF_COVER(verdict == XV_OK && want_len + 5 == LEN);
#endif
#if LEN >= 3
	VERIF_COVER(verdict == XV_UNSPEC);
#endif
#endif
	free(got);
}
