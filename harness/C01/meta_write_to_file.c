/* C01.meta.write_to_file: sqfs_meta_write_write_to_file
 * (lib/sqfs/src/meta_writer.c) - the in-memory directory table reaches the
 * image completely and in order, or the caller is told. NB queued blocks
 * (-DNB=0..3, concrete), header words symbolic; the output file is the
 * ghost-size contract (get_size = current size; write_at requires a readable
 * buffer, may fail with any negative error and then leaves the size as it
 * was, else extends the file).
 *
 *   C01.meta.write_to_file.in_order      the k-th write is block k, appended at
 *        the end of the file, with the length its header announces + 2
 *   C01.meta.write_to_file.propagates    0 only if every block was written;
 *        a failed write is returned to the caller
 *   C01.meta.write_to_file.stops_at_failure  nothing is written after a failed
 *        write (the following blocks would land where the failed one belongs
 *        and every directory reference would be off)
 *   C01.meta.write_to_file.drains        success: list empty, blocks released;
 *        failure: the unwritten blocks are still queued (not lost, not leaked)
 */
#include <stdlib.h>
#include <string.h>
#include "verif.h"
#include "sqfs/predef.h"
#include "c01_alloc.h"
#include "lib/sqfs/src/meta_writer.c"

#ifndef NB
#define NB 2
#endif
#define NA (NB > 0 ? NB : 1)

static sqfs_file_t g_file;
static sqfs_u64 g_fsize;
static unsigned g_writes, g_fail_at, g_writes_after_fail;
static bool g_failed;
static int g_err;
static meta_block_t *g_blk[NA];
static sqfs_u16 g_hdr[NA];
static bool g_order_ok;

sqfs_u64 stub_get_size(const sqfs_file_t *f)
{
	(void)f;
	return g_fsize;
}

int stub_write_at(sqfs_file_t *f, sqfs_u64 off, const void *buf, size_t n)
{
	unsigned k = g_writes;

	(void)f;
	VERIF_ASSERT(n == 0 || VERIF_R_OK(buf, n), "C01.env.write_at.readable");
	if (g_failed)
		g_writes_after_fail++;
	if (!(k < NB && buf == (const void *)g_blk[k < NB ? k : 0]->data &&
	      off == g_fsize && n == (size_t)(g_hdr[k < NB ? k : 0] & 0x7FFF) + 2))
		g_order_ok = false;
	g_writes++;
	if (verif_nd_bool("write_fails")) {
		if (!g_failed) {
			g_failed = true;
			g_fail_at = k;
			g_err = verif_nd_int("write_err");
			VERIF_ASSUME(g_err < 0);
			return g_err;
		}
		return SQFS_ERROR_IO;
	}
	g_fsize += n;
	return 0;
}

void stub_destroy(sqfs_object_t *o) { (void)o; }

void harness(void)
{
	static sqfs_meta_writer_t m;
	unsigned i;
	int ret;

	g_writes = g_writes_after_fail = 0;
	g_failed = false;
	g_order_ok = true;
	g_fsize = verif_nd_u64("file_size");
	VERIF_ASSUME(g_fsize < (1ULL << 62));
	g_file.get_size = stub_get_size;
	g_file.write_at = stub_write_at;
	m.file = &g_file;
	m.list = NULL;
	m.list_end = NULL;
	for (i = 0; i < NB; ++i) {
		g_blk[i] = malloc(sizeof(meta_block_t));
		g_hdr[i] = verif_nd_u16("header");
		VERIF_ASSUME((g_hdr[i] & 0x7FFF) <= SQFS_META_BLOCK_SIZE);
		(memcpy)(g_blk[i]->data, &g_hdr[i], 2);
		g_blk[i]->next = NULL;
		if (i > 0)
			g_blk[i - 1]->next = g_blk[i];
	}
	if (NB > 0) {
		m.list = g_blk[0];
		m.list_end = g_blk[NB - 1];
	}

	ret = sqfs_meta_write_write_to_file(&m);

	VERIF_ASSERT(g_order_ok, "C01.meta.write_to_file.in_order");
	VERIF_ASSERT(g_writes_after_fail == 0, "C01.meta.write_to_file.stops_at_failure");
	if (g_failed) {
		VERIF_ASSERT(ret == g_err, "C01.meta.write_to_file.propagates");
		VERIF_ASSERT(m.list == g_blk[g_fail_at < NB ? g_fail_at : 0] &&
			     g_live == (long)(NB - g_fail_at), "C01.meta.write_to_file.drains");
#if NB > 0
		VERIF_COVER(g_fail_at == 0);
#endif
#if NB > 1
		VERIF_COVER(g_fail_at == NB - 1);
#endif
	} else {
		VERIF_ASSERT(ret == 0 && g_writes == NB, "C01.meta.write_to_file.propagates");
		VERIF_ASSERT(m.list == NULL && m.list_end == NULL && g_live == 0,
			     "C01.meta.write_to_file.drains");
		VERIF_COVER(1);
	}
}
