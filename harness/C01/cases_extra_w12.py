# worker w12: extended attributes arrive in the image exactly as given -
# the `--xattr-file` value decoder, the map application, the xattr pass over
# the tree, and the rdsquashfs -x printer as the inverse direction.
FUNCTIONS = [
    "decode (filemap_xattr.c) + hex_decode + base64_decode (composition against spec/xattr_value_spec.h)",
]
TRUSTED = []
ASSUMPTIONS = []

CT = {"__NO_CTYPE": None}
GSRC = ["bin/gensquashfs/src"]


def _val(form, n, tier, label):
    return dict(id="form%d_len%d" % (form, n), defines={"FORM": form, "LEN": n, "__NO_CTYPE": None},
                unwind=n + 3, tier=tier, label=label)


HARNESSES = [
    dict(name="w12_xattr_value", file="w12_xattr_value.c", label="bounded(value text <= 8 bytes)",
         include_dirs=GSRC, nochecks=["--conversion-check"], timeout=900,
         flags=["--no-malloc-may-fail"],   # allocation failure of decode is C07 w12_xattr_decode; here: function vs spec

         cases=[_val(0, n, "quick", "bounded(value text <= 5 bytes)") for n in (1, 2, 3, 4, 5)] +
               [_val(1, n, "quick", "bounded(hex text <= 8 bytes)") for n in (3, 5, 6, 7, 8)] +
               [_val(2, n, "quick", "bounded(base64 text <= 10 bytes)") for n in (6, 7, 10)] +
               [_val(3, n, "quick", "bounded(quoted text <= 8 bytes)") for n in (3, 6, 8)] +
               [_val(0, 6, "thorough", "bounded(value text <= 6 bytes)"),
                _val(1, 12, "thorough", "bounded(hex text <= 12 bytes)"),
                _val(2, 14, "thorough", "bounded(base64 text <= 14 bytes)"),
                _val(3, 10, "thorough", "bounded(quoted text <= 10 bytes)")]),
    dict(name="w12_dump_value", file="w12_dump_value.c", label="bounded(value <= 3 bytes)",
         include_dirs=["bin/rdsquashfs/src"], nochecks=["--conversion-check"], timeout=900,
         cases=[dict(id="vlen%d" % n, defines={"VLEN": n}, unwind=4 * n + 16, tier="quick") for n in (0, 1, 2, 3)] +
               [dict(id="vlen4", defines={"VLEN": 4}, unwind=32, tier="thorough", label="bounded(value <= 4 bytes)")]),
    dict(name="w12_xattr_apply_map", file="w12_xattr_apply_map.c",
         label="bounded(patterns <= 2, entries <= 2 each, paths <= 3 bytes)",
         include_dirs=GSRC, nochecks=["--conversion-check"], timeout=600, unwind=6,
         cases=[dict(id="p%d_e%d%d" % (np, a, b), defines={"NPAT": np, "NENT0": a, "NENT1": b}, tier=t)
                for np, a, b, t in ((1, 1, 0, "quick"), (2, 1, 1, "quick"), (2, 2, 1, "quick"), (2, 0, 2, "quick"),
                                    (2, 2, 2, "thorough"), (1, 2, 0, "thorough"))] +
               [dict(id="abs0_p2_e11", defines={"NPAT": 2, "NENT0": 1, "NENT1": 1, "ABS0": 1}, tier="quick")]),
    dict(name="w12_apply_dfs", file="w12_apply_dfs.c", label="bounded(tree shapes <= 4 nodes)",
         include_dirs=GSRC, nochecks=["--conversion-check"], timeout=300, unwind=6, native=False,
         # allocation failure of the path strings is one of the logged calls (it fails when chosen)
         flags=["--no-malloc-may-fail", "--memory-leak-check"],
         pre_instrument_flags=["--replace-calls", "get_full_path:stub_get_full_path",
                               "--replace-calls", "xattr_from_path:stub_xattr_from_path"],
         cases=[dict(id="shape%d" % k, defines={"SHAPE": k}, tier="quick") for k in (0, 1, 2)]),
]
