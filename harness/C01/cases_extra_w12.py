# worker w12: extended attributes arrive in the image exactly as given -
# the `--xattr-file` value decoder, the map application, the xattr pass over
# the tree, and the rdsquashfs -x printer as the inverse direction.
FUNCTIONS = [
    "decode (filemap_xattr.c) + hex_decode + base64_decode (composition against spec/xattr_value_spec.h)",
    "xattr_apply_map_file", "apply_xattrs", "apply_dfs", "xattr_from_path",
    "dump_xattrs", "is_printable", "print_hex",
]
TRUSTED = [
    "w12: spec/xattr_value_spec.h - the value text format of getfattr --dump (gensquashfs.1 names it as the --xattr-file format), "
    "written from getfattr(1)/setfattr(1); three verdicts OK / MALFORMED / UNSPEC",
    "w12: stdout capture in w12_dump_value: printf/fputs/fputc/putchar/puts/fwrite append their bytes; %s %c %02X %03o have their "
    "C standard meaning; stdout != stderr",
    "w12: sqfs_xattr_writer_begin/add/add_kv/end, fstree_get_path, selinux_relable_node, sqfs_xattr_reader_read_all, "
    "sqfs_inode_get_xattr_index, sqfs_xattr_list_free: contract stubs that record and check their arguments and may fail",
    "w12: llistxattr/lgetxattr per xattr(7): size query then fill, the second answer may differ or fail, the name list is a sequence "
    "of NUL-terminated names",
    "w12: get_full_path / xattr_from_path are replaced by contract stubs inside w12_apply_dfs (goto-instrument --replace-calls); "
    "xattr_from_path has its own harness, get_full_path has none",
]
ASSUMPTIONS = [
    "w12: the printer -> parser inverse pair meets in the spec function: printer output is judged by spec_xattr_value "
    "(w12_dump_value), the parser is compared with the same function (w12_xattr_value); the two real functions are never chained",
    "w12: value texts the documents leave open (XV_UNSPEC: bare text with backslash or quote, other escapes, octal > \\377, "
    "URL-safe / unpadded base64) get memory safety only; decode accepts them the way setfattr does",
    "w12: bounded: value text <= 5 bytes fully symbolic, hex <= 8, base64 <= 10, quoted <= 8 (thorough 6/12/14/10); printer values "
    "<= 3 (thorough 4) bytes over the full byte alphabet incl. NUL; maps <= 2 patterns x <= 2 entries, paths <= 3 bytes; "
    "apply_dfs on trees of <= 2 nodes (root, root{a}); xattr lists <= 2 names",
    "w12: keys: only the value direction is an inverse pair; a key with '=' or a non-printable key cannot be read back "
    "(dump_xattrs prints a non-printable key as 0x.. without the '=' separator - observation)",
    "w12: get_full_path (prefix join, realloc/memmove) and the line loop of xattr_open_map_file have no harness",
]

CT = {"__NO_CTYPE": None}
GSRC = ["bin/gensquashfs/src"]


def _val(form, n, tier, label):
    return dict(id="form%d_len%d" % (form, n), defines={"FORM": form, "LEN": n, "__NO_CTYPE": None},
                unwind=n + 3, tier=tier, label=label)


HARNESSES = [
    dict(name="w12_xattr_value", file="w12_xattr_value.c", label="bounded(value text <= 8 bytes)",
         include_dirs=GSRC, nochecks=["--conversion-check"], timeout=900,
         flags=["--no-malloc-may-fail"],   # allocation failure of decode is C07 w12_xattr_decode; here: function vs spec

         cases=[_val(0, n, "quick", "bounded(value text <= 5 bytes)") for n in (1, 2, 3, 4, 5)] +
               [_val(1, n, "quick", "bounded(hex text <= 8 bytes)") for n in (3, 5, 6, 7, 8)] +
               [_val(2, n, "quick", "bounded(base64 text <= 10 bytes)") for n in (6, 7, 10)] +
               [_val(3, n, "quick", "bounded(quoted text <= 8 bytes)") for n in (3, 6, 8)] +
               [_val(0, 6, "thorough", "bounded(value text <= 6 bytes)"),
                _val(1, 12, "thorough", "bounded(hex text <= 12 bytes)"),
                _val(2, 14, "thorough", "bounded(base64 text <= 14 bytes)"),
                _val(3, 10, "thorough", "bounded(quoted text <= 10 bytes)")]),
    dict(name="w12_dump_value", file="w12_dump_value.c", label="bounded(value <= 3 bytes)",
         include_dirs=["bin/rdsquashfs/src"], nochecks=["--conversion-check"], timeout=900,
         cases=[dict(id="vlen%d" % n, defines={"VLEN": n}, unwind=4 * n + 16, tier="quick") for n in (0, 1, 2, 3)] +
               [dict(id="vlen4", defines={"VLEN": 4}, unwind=32, tier="thorough", label="bounded(value <= 4 bytes)")]),
    dict(name="w12_xattr_apply_map", file="w12_xattr_apply_map.c",
         label="bounded(patterns <= 2, entries <= 2 each, paths <= 3 bytes)",
         include_dirs=GSRC, nochecks=["--conversion-check"], timeout=600, unwind=6,
         cases=[dict(id="p%d_e%d%d" % (np, a, b), defines={"NPAT": np, "NENT0": a, "NENT1": b}, tier=t)
                for np, a, b, t in ((1, 1, 0, "quick"), (2, 1, 1, "quick"), (2, 2, 1, "quick"), (2, 0, 2, "quick"),
                                    (2, 2, 2, "thorough"), (1, 2, 0, "thorough"))] +
               [dict(id="abs0_p2_e11", defines={"NPAT": 2, "NENT0": 1, "NENT1": 1, "ABS0": 1}, tier="quick")]),
    dict(name="w12_apply_dfs", file="w12_apply_dfs.c", label="bounded(tree shapes <= 2 nodes)",
         include_dirs=GSRC, nochecks=["--conversion-check"], timeout=300, unwind=6, native=False,
         # allocation failure of the path strings is one of the logged calls (it fails when chosen)
         flags=["--no-malloc-may-fail", "--memory-leak-check"],
         pre_instrument_flags=["--replace-calls", "get_full_path:stub_get_full_path",
                               "--replace-calls", "xattr_from_path:stub_xattr_from_path"],
         cases=[dict(id="shape%d" % k, defines={"SHAPE": k}, unwindset=["apply_dfs:%d" % d, "apply_dfs.0:3"], tier="quick")
                for k, d in ((0, 2), (3, 3))]),
    dict(name="w12_xattr_from_path", file="w12_xattr_from_path.c", label="bounded(names <= 2 of <= 2 bytes, values <= 2 bytes)",
         include_dirs=GSRC, nochecks=["--conversion-check"], timeout=300, unwind=8,
         # allocation failure is not injected here (the failing call is chosen among the syscalls and the writer)
         flags=["--no-malloc-may-fail", "--memory-leak-check"],
         cases=[dict(id="names%d" % n, defines={"NNAMES": n}, tier="quick") for n in (1, 2)]),
]
