# worker w12: extended attributes arrive in the image exactly as given -
# the `--xattr-file` value decoder, the map application, the xattr pass over
# the tree, and the rdsquashfs -x printer as the inverse direction.
FUNCTIONS = [
    "decode (filemap_xattr.c) + hex_decode + base64_decode (composition against spec/xattr_value_spec.h)",
]
TRUSTED = []
ASSUMPTIONS = []

CT = {"__NO_CTYPE": None}
GSRC = ["bin/gensquashfs/src"]


def _val(form, n, tier, label):
    return dict(id="form%d_len%d" % (form, n), defines={"FORM": form, "LEN": n, "__NO_CTYPE": None},
                unwind=n + 3, tier=tier, label=label)


HARNESSES = [
    dict(name="w12_xattr_value", file="w12_xattr_value.c", label="bounded(value text <= 8 bytes)",
         include_dirs=GSRC, nochecks=["--conversion-check"], timeout=900,
         flags=["--no-malloc-may-fail"],   # allocation failure of decode is C07 w12_xattr_decode; here: function vs spec

         cases=[_val(0, n, "quick", "bounded(value text <= 5 bytes)") for n in (1, 2, 3, 4, 5)] +
               [_val(1, n, "quick", "bounded(hex text <= 8 bytes)") for n in (3, 5, 6, 7, 8)] +
               [_val(2, n, "quick", "bounded(base64 text <= 10 bytes)") for n in (6, 7, 10)] +
               [_val(3, n, "quick", "bounded(quoted text <= 8 bytes)") for n in (3, 6, 8)] +
               [_val(0, 6, "thorough", "bounded(value text <= 6 bytes)"),
                _val(1, 12, "thorough", "bounded(hex text <= 12 bytes)"),
                _val(2, 14, "thorough", "bounded(base64 text <= 14 bytes)"),
                _val(3, 10, "thorough", "bounded(quoted text <= 10 bytes)")]),
]
