/* C01 (w14): get_new_block (lib/sqfs/src/block_processor/frontend.c) proved
 * against the contract GNB of w14_bp_model.h, which bp_append.c and
 * w14_bp_sentinel.c assume. Unbounded: the back-pressure loop is closed by a
 * loop contract (contracts/loops/C01_w14.tbl), backlog and max_backlog are
 * any values with max_backlog >= 1.
 *
 * Environment: dequeue_block (backend.c) is its contract "fails, or the
 * backlog went down; finished blocks may have come back to the free list";
 * malloc may fail. The free list is empty or made of the typed blocks g_fl_a,
 * g_fl_c in any of the shapes [A], [C], [A, C] - get_new_block looks at the
 * head and the head's next only.
 *
 *   C01.bp.get_new_block.fresh     ret == 0: *out is the popped head of the
 *              free list (the list now starts at its successor) or, only when
 *              the list was empty, the block malloc just delivered
 *   C01.bp.get_new_block.capacity  the block asked from malloc has exactly
 *              sizeof(sqfs_block_t) + max_block_size bytes
 *   C01.bp.get_new_block.zeroed    ret == 0: the whole header of *out is zero
 *   C01.bp.get_new_block.backlog   ret == 0: 1 <= backlog <= max_backlog (one
 *              more than when the loop was left)
 *   C01.bp.get_new_block.fail_stop ret != 0 <==> a callee failed; then *out
 *              is untouched and no block was taken or allocated for keeps
 *   terminates                     (decreases: backlog)
 */
#include "w14_bp_model.h"

blk_t g_fl_a, g_fl_c, g_m;
unsigned g_deq_calls;
static unsigned g_malloc_calls, g_zero_calls;
static sqfs_block_t *g_popped_next;
static size_t g_backlog_at_exit;

static void *c01_memset(void *dst, int c, size_t n);
static void *c01_malloc(size_t n);
#define memset c01_memset
#define malloc c01_malloc
#include "lib/sqfs/src/block_processor/frontend.c"
#undef memset
#undef malloc

/* contract of dequeue_block as seen by get_new_block */
int dequeue_block(sqfs_block_processor_t *proc)
{
	size_t nb;

	VERIF_ASSERT(proc == &g_p.proc && proc->backlog > 0,
		     "C01.bp.dequeue_block.pre");
	if (g_deq_calls < 0xFFFFFFFFu)
		g_deq_calls += 1;
	if (verif_nd_bool("dequeue_fails"))
		return nd_failure("dequeue_err");
	nb = verif_nd_size("backlog_after");
	VERIF_ASSUME(nb < proc->backlog);
	proc->backlog = nb;
	if (verif_nd_bool("blocks_recycled")) {
		g_fl_a.b.next = verif_nd_bool("a_then_c") ? &g_fl_c.b : NULL;
		proc->free_list = verif_nd_bool("head_is_a") ? &g_fl_a.b :
				  verif_nd_bool("head_is_c") ? &g_fl_c.b : NULL;
	}
	return 0;
}

static void *c01_malloc(size_t n)
{
	VERIF_ASSERT(n == sizeof(sqfs_block_t) + g_p.proc.max_block_size,
		     "C01.bp.get_new_block.capacity");
	VERIF_ASSERT(g_p.proc.free_list == NULL && g_malloc_calls == 0,
		     "C01.bp.get_new_block.fresh");
	g_malloc_calls += 1;
	if (verif_nd_bool("malloc_fails")) {
		g_faults += 1;
		return NULL;
	}
	return &g_m.b;
}

/* memset(blk, 0, sizeof(*blk)): clears the header of the block handed out */
static void *c01_memset(void *dst, int c, size_t n)
{
	sqfs_block_t *b = dst;

	VERIF_ASSERT(n == sizeof(sqfs_block_t) && c == 0 &&
		     (b == &g_fl_a.b || b == &g_fl_c.b || b == &g_m.b),
		     "C01.bp.get_new_block.zeroed");
	g_zero_calls += 1;
	g_popped_next = b->next;
	g_backlog_at_exit = g_p.proc.backlog;
	blk_zero_header(b);
	return dst;
}

void harness(void)
{
	sqfs_block_t *const untouched = (sqfs_block_t *)&g_popped_next;
	sqfs_block_t *out = untouched;
	sqfs_block_t *fl0;
	size_t backlog0;
	int ret;

	g_faults = 0;
	g_deq_calls = g_malloc_calls = g_zero_calls = 0;
	g_popped_next = NULL;
	g_backlog_at_exit = 0;

	g_p.proc.max_block_size = BS;
	g_p.proc.max_backlog = verif_nd_size("max_backlog");
	VERIF_ASSUME(g_p.proc.max_backlog >= 1);
	g_p.proc.backlog = verif_nd_size("backlog");

	g_fl_a.b.flags = verif_nd_u32("stale");
	g_fl_a.b.size = verif_nd_u32("stale");
	g_fl_a.b.index = verif_nd_u32("stale");
	g_fl_a.b.checksum = verif_nd_u32("stale");
	g_fl_a.b.io_seq_num = verif_nd_u32("stale");
	g_fl_a.b.inode = (sqfs_inode_generic_t **)&g_fl_c;	/* stale */
	g_fl_a.b.user = &g_fl_c;				/* stale */
	g_fl_c.b.flags = verif_nd_u32("stale");
	g_fl_c.b.size = verif_nd_u32("stale");
	g_fl_c.b.index = verif_nd_u32("stale");
	g_fl_c.b.checksum = verif_nd_u32("stale");
	g_fl_c.b.io_seq_num = verif_nd_u32("stale");
	g_fl_c.b.inode = NULL;
	g_fl_c.b.user = &g_fl_a;				/* stale */
	g_fl_c.b.next = NULL;
	g_fl_a.b.next = verif_nd_bool("a_then_c") ? &g_fl_c.b : NULL;
	g_m.b.next = &g_fl_a.b;					/* malloc: garbage */
	g_m.b.inode = NULL;
	g_m.b.user = &g_fl_a;
	g_m.b.flags = verif_nd_u32("stale");
	g_m.b.size = verif_nd_u32("stale");
	g_m.b.index = verif_nd_u32("stale");
	g_m.b.checksum = verif_nd_u32("stale");
	g_m.b.io_seq_num = verif_nd_u32("stale");
	g_p.proc.free_list = verif_nd_bool("head_is_a") ? &g_fl_a.b :
			     verif_nd_bool("head_is_c") ? &g_fl_c.b : NULL;
	fl0 = g_p.proc.free_list;
	backlog0 = g_p.proc.backlog;

	ret = get_new_block(&g_p.proc, &out);

	VERIF_ASSERT((ret == 0) == (g_faults == 0) && g_faults <= 1,
		     "C01.bp.get_new_block.fail_stop");
	if (ret == 0) {
		VERIF_ASSERT(g_zero_calls == 1 &&
			     (out == &g_fl_a.b || out == &g_fl_c.b || out == &g_m.b),
			     "C01.bp.get_new_block.fresh");
		if (out == &g_m.b)
			VERIF_ASSERT(g_malloc_calls == 1 && g_p.proc.free_list == NULL,
				     "C01.bp.get_new_block.fresh");
		else
			VERIF_ASSERT(g_malloc_calls == 0 &&
				     g_p.proc.free_list == g_popped_next &&
				     g_p.proc.free_list != out,
				     "C01.bp.get_new_block.fresh");
		if (g_deq_calls == 0 && fl0 != NULL)
			VERIF_ASSERT(out == fl0, "C01.bp.get_new_block.fresh");
		VERIF_ASSERT(GNB_HEADER_ZERO(out), "C01.bp.get_new_block.zeroed");
		VERIF_ASSERT(GNB_BACKLOG_OK(&g_p.proc) &&
			     g_p.proc.backlog == g_backlog_at_exit + 1,
			     "C01.bp.get_new_block.backlog");
		if (g_deq_calls == 0)
			VERIF_ASSERT(g_p.proc.backlog == backlog0 + 1,
				     "C01.bp.get_new_block.backlog");
		else
			VERIF_ASSERT(g_p.proc.backlog <= backlog0,
				     "C01.bp.get_new_block.backlog");
	} else {
		VERIF_ASSERT(out == untouched && g_zero_calls == 0,
			     "C01.bp.get_new_block.fail_stop");
		VERIF_ASSERT(ret == SQFS_ERROR_ALLOC || g_malloc_calls == 0,
			     "C01.bp.get_new_block.fail_stop");
	}

	VERIF_COVER(ret == 0 && out == &g_m.b && g_deq_calls >= 2);
	VERIF_COVER(ret == 0 && out == &g_fl_a.b && g_p.proc.free_list == &g_fl_c.b);
	VERIF_COVER(ret == 0 && out == &g_fl_c.b && g_deq_calls == 0);
	VERIF_COVER(ret == 0 && g_deq_calls == 0 && g_p.proc.backlog == g_p.proc.max_backlog);
	VERIF_COVER(ret == SQFS_ERROR_ALLOC && g_malloc_calls == 1);
	VERIF_COVER(ret != 0 && g_malloc_calls == 0 && g_deq_calls >= 1);
}
