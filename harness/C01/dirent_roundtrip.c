/* C01.dirent.roundtrip: the listing sqfs_dir_writer_begin / _add_entry /
 * _end (lib/sqfs/src/dir_writer.c) write and the inode
 * sqfs_dir_writer_create_inode makes for it are decoded by
 * sqfs_readdir_state_init / sqfs_meta_reader_readdir (lib/sqfs/src/readdir.c)
 * to the same sequence of (name, type, inode number, inode reference).
 * Meta writer / reader: one seekable stretch of an uncompressed meta block
 * (c01_meta.h). N entries (-DN=0..2, concrete), name lengths NL0/NL1 concrete,
 * name bytes, inode numbers, references, file kinds symbolic.
 * requires: inode numbers >= 1, reference = (block < 2^32) << 16 | offset
 * < 8192 (what serialize_tree_node records).
 *
 *   C01.dirent.roundtrip.write_ok   begin/add/end succeed, inode created
 *   C01.dirent.roundtrip.count      readdir yields exactly N entries, then EOF
 *   C01.dirent.roundtrip.entry      k-th entry: name length and bytes, type =
 *                                   the basic inode type of the mode, inode
 *                                   number, inode reference
 *   C01.dirent.roundtrip.consumed   the reader consumed the whole listing
 *   C01.dirent.roundtrip.size       inode size = listing size + 3
 */
#include <stdlib.h>
#include <string.h>
#include "verif.h"
#include "sqfs/predef.h"
#ifndef N
#define N 2
#endif
#ifndef NL0
#define NL0 1
#endif
#ifndef NL1
#define NL1 2
#endif
#define C01_SIZES 40 + NL0, 40 + NL1, 32, 64, 64 + 12 + NL0, 64 + 24 + NL0 + NL1, 8 + NL0 + 1, 8 + NL1 + 1
#define C01_READ_SIZES NL0, NL1
#define C01_SEEKABLE
#define CAP 64
#include "c01_alloc.h"
#include "c01_meta.h"

static char g_name0[NL0 + 1], g_name1[NL1 + 1];
static size_t c01_strlen(const char *s)
{
	if (s == g_name0)
		return NL0;
	VERIF_ASSERT(s == g_name1, "C01.env.strlen.known_string");
	return NL1;
}
#define strlen(s) c01_strlen(s)
struct sqfs_meta_writer_t { sqfs_object_t base; int opaque; };
#include "lib/util/src/array.c"
#include "lib/sqfs/src/dir_writer.c"
#undef strlen
#include "lib/sqfs/src/readdir.c"

static const sqfs_u16 g_modes[7] = { S_IFDIR, S_IFREG, S_IFLNK, S_IFBLK, S_IFCHR, S_IFIFO, S_IFSOCK };

void harness(void)
{
	static sqfs_dir_writer_t w;
	static sqfs_meta_writer_t dm;
	sqfs_meta_reader_t *mr = NULL;
	sqfs_readdir_state_t st;
	sqfs_super_t super;
	sqfs_inode_generic_t *ino;
	sqfs_u32 inum[2];
	sqfs_u64 iref[2];
	unsigned kind[2];
	char *names[2] = { g_name0, g_name1 };
	const size_t nl[2] = { NL0, NL1 };
	unsigned i, j;
	int ret;

	g_cap_base_block = verif_nd_u32("dir_block");
	g_cap_base_off = verif_nd_u16("dir_off");
	VERIF_ASSUME(g_cap_base_off <= 8192 - CAP - 12);
	g_cap_rd_shift = verif_nd_u64("directory_table_start");
	VERIF_ASSUME(g_cap_rd_shift < (1ULL << 62));
	super.directory_table_start = g_cap_rd_shift;
	w.dm = &dm;
	w.export_tbl.data = NULL;

	for (i = 0; i < 2; ++i) {
		for (j = 0; j < nl[i]; ++j) {
			uint8_t b = verif_nd_u8("name");
			VERIF_ASSUME(b != 0);
			(memcpy)(&names[i][j], &b, 1);
		}
		names[i][nl[i]] = 0;
		inum[i] = verif_nd_u32("inum");
		iref[i] = ((sqfs_u64)verif_nd_u32("ref_block") << 16) | (verif_nd_u16("ref_off") & 0x1FFF);
		kind[i] = verif_nd_u8("kind") % 7;
		VERIF_ASSUME(inum[i] >= 1);
	}

	ret = sqfs_dir_writer_begin(&w, 0);
	for (i = 0; i < N && ret == 0; ++i)
		ret = sqfs_dir_writer_add_entry(&w, names[i], inum[i], iref[i],
						g_modes[kind[i]] | 0644);
	if (ret == 0)
		ret = sqfs_dir_writer_end(&w);
	VERIF_ASSERT(ret == 0, "C01.dirent.roundtrip.write_ok");
	ino = sqfs_dir_writer_create_inode(&w, 0, 0xFFFFFFFF, 1);
	VERIF_ASSERT(ino != NULL, "C01.dirent.roundtrip.write_ok");
	if (ret != 0 || ino == NULL)
		return;
	VERIF_ASSERT(sqfs_dir_writer_get_size(&w) == g_cap_wr &&
		     (ino->base.type == SQFS_INODE_DIR ? ino->data.dir.size :
		      ino->data.dir_ext.size) == g_cap_wr + 3, "C01.dirent.roundtrip.size");

	ret = sqfs_readdir_state_init(&st, &super, ino);
	VERIF_ASSERT(ret == 0, "C01.dirent.roundtrip.count");
	for (i = 0; i < N; ++i) {
		sqfs_dir_node_t *ent = NULL;
		sqfs_u32 rn = 0;
		sqfs_u64 rr = 0;

		ret = sqfs_meta_reader_readdir(mr, &st, &ent, &rn, &rr);
		VERIF_ASSERT(ret == 0 && ent != NULL, "C01.dirent.roundtrip.count");
		if (ret != 0 || ent == NULL)
			return;
		VERIF_ASSERT((size_t)ent->size + 1 == nl[i] && ent->type == kind[i] + 1 &&
			     rn == inum[i] && rr == iref[i], "C01.dirent.roundtrip.entry");
		for (j = 0; j < 2; ++j) {
			if (j < nl[i])
				VERIF_ASSERT(ent->name[j] == (sqfs_u8)names[i][j],
					     "C01.dirent.roundtrip.entry");
		}
		free(ent);
	}
	{
		sqfs_dir_node_t *ent = NULL;
		ret = sqfs_meta_reader_readdir(mr, &st, &ent, NULL, NULL);
		VERIF_ASSERT(ret == 1, "C01.dirent.roundtrip.count");
	}
	VERIF_ASSERT(g_cap_rd == g_cap_wr && !g_cap_underrun, "C01.dirent.roundtrip.consumed");
	VERIF_COVER(ret == 1);
#if N == 2
	VERIF_COVER(g_cap_appends == 5); /* one header run */
	VERIF_COVER(g_cap_appends == 6); /* two header runs */
#endif
}
