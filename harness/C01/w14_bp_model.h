/* C01 (w14): the block processor front end (lib/sqfs/src/block_processor/
 * frontend.c) proved modularly.
 *
 *   get_new_block       proved against GNB (w14_bp_get_new_block.c; loop
 *                       contract for the back-pressure loop)
 *   enqueue_block       proved against ENQ (w14_bp_enqueue.c)
 *   add_sentinel_block  proved with both callees replaced (w14_bp_sentinel.c)
 *   sqfs_block_processor_append
 *                       proved with both callees replaced (bp_append.c; loop
 *                       contract = the arithmetic identity only)
 *
 * This header is the one place where the two callee contracts are written
 * down: the caller-side stubs c01_get_new_block / c01_enqueue_block ("a stub
 * that is the contract": assert the precondition, produce every outcome the
 * postcondition permits) and the predicates the callee harnesses assert of the
 * real bodies use the same macros.
 *
 * GNB  get_new_block(proc, out)
 *   requires  proc is the processor, max_block_size == BS, max_backlog >= 1,
 *             out writable, the free list is empty or its head is a block of
 *             capacity BS
 *   ensures   ret == 0: *out is a block of capacity BS that nobody else holds
 *             (the head of the free list, popped; or fresh from malloc), its
 *             header is all zero (GNB_HEADER_ZERO), 1 <= backlog <=
 *             max_backlog, no callee failed;
 *             ret != 0: a callee failed (dequeue_block, malloc), *out is
 *             untouched, no block was taken
 *   assigns   proc->backlog, proc->free_list, *out, the header of *out (and
 *             what dequeue_block's contract assigns)
 *   terminates
 *
 * ENQ  enqueue_block(proc, blk)
 *   requires  proc is the processor, blk is a block the caller holds,
 *             blk->size <= BS
 *   ensures   the caller no longer holds blk (pool, or free list on failure);
 *             ret == 0: pool->submit took blk, exactly once, with flags, size,
 *             index, inode, user as at entry (ENQ_SAME_HEADER); ret != 0: a
 *             callee failed
 *   assigns   blk->next, proc->free_list, proc->fblk_in_flight
 *
 * Model on the caller side: the front end holds at most one block at a time
 * (asserted: C01.bp.one_block_in_hand), so one typed block object g_blk stands
 * for "the block get_new_block delivers"; g_live says whether the front end
 * holds it.
 */
#ifndef W14_BP_MODEL_H
#define W14_BP_MODEL_H

#include <stdlib.h>
#include <string.h>
#include "verif.h"
#include "lib/sqfs/src/block_processor/internal.h"

#ifndef BS_LOG
#define BS_LOG 12
#endif
#define BS (1u << BS_LOG)

/* W14_BLK_PHYS: payload bytes physically present in the block objects of the
 * model (8, not BS). cbmc expands every access through a loop-havocked
 * pointer (proc->blk_current, proc->free_list) into a case split over all
 * address-taken objects, and a 4 KiB..1 MiB byte array in that split costs
 * millions of clauses (measured on append: 7.2M variables / 458 s with the
 * arrays, 0.5M / 50 s without). No function of the front end reads or writes
 * payload bytes except through memcpy/memset, which are checking stubs here;
 * each of them proves "offset + n <= BS" arithmetically (C01.bp.append_safe,
 * C01.bp.enqueue.copy), and the capacity BS itself is the argument of the
 * real malloc(sizeof(*blk) + max_block_size), asserted by the malloc contract
 * in w14_bp_get_new_block.c (C01.bp.get_new_block.capacity). */
#ifndef W14_BLK_PHYS
#define W14_BLK_PHYS 8
#endif

typedef struct {
	sqfs_block_t b;
	sqfs_u8 data[W14_BLK_PHYS];
} blk_t;

typedef struct {
	sqfs_block_processor_t proc;
	sqfs_u8 scratch[8];
} proc_t;

proc_t g_p;
blk_t g_blk;
_Bool g_live;			/* the front end holds g_blk */
unsigned g_faults;		/* callee failures so far */

#define GNB_HEADER_ZERO(b) \
	((b)->next == NULL && (b)->inode == NULL && (b)->io_seq_num == 0 && \
	 (b)->flags == 0 && (b)->size == 0 && (b)->checksum == 0 && \
	 (b)->index == 0 && (b)->user == NULL)

#define GNB_BACKLOG_OK(proc) \
	((proc)->backlog >= 1 && (proc)->backlog <= (proc)->max_backlog)

static void blk_zero_header(sqfs_block_t *b)
{
	b->next = NULL;
	b->inode = NULL;
	b->io_seq_num = 0;
	b->flags = 0;
	b->size = 0;
	b->checksum = 0;
	b->index = 0;
	b->user = NULL;
}

static int nd_nonzero(const char *tag)
{
	int e = verif_nd_int(tag);

	VERIF_ASSUME(e != 0);
	return e;
}

static int nd_failure(const char *tag)
{
	g_faults += 1;
	return nd_nonzero(tag);
}

#ifdef W14_BP_CALLER_STUBS
/* ---- GNB, caller side ----------------------------------------------------- */
int c01_get_new_block(sqfs_block_processor_t *proc, sqfs_block_t **out)
{
	size_t nb;

	VERIF_ASSERT(proc == &g_p.proc && proc->max_block_size == BS &&
		     proc->max_backlog >= 1 && VERIF_W_OK(out, sizeof(*out)),
		     "C01.bp.get_new_block.pre");
	VERIF_ASSERT(!g_live, "C01.bp.one_block_in_hand");
	if (verif_nd_bool("get_new_block_fails"))
		return nd_failure("get_new_block_err");
	nb = verif_nd_size("backlog_after");
	VERIF_ASSUME(nb >= 1 && nb <= proc->max_backlog);
	proc->backlog = nb;
	blk_zero_header(&g_blk.b);
	g_live = 1;
	*out = &g_blk.b;
	return 0;
}

/* ---- ENQ, caller side ------------------------------------------------------
 * W14_ENQ_MONITOR(blk): what the caller under proof promises about the block
 * it hands over (its own obligation, checked at the hand-over point) */
#ifndef W14_ENQ_MONITOR
#define W14_ENQ_MONITOR(blk) ((void)0)
#endif
unsigned g_submitted;

int c01_enqueue_block(sqfs_block_processor_t *proc, sqfs_block_t *blk)
{
	VERIF_ASSERT(proc == &g_p.proc && blk == &g_blk.b && g_live &&
		     blk->size <= BS, "C01.bp.enqueue_block.pre");
	/* a fragment block whose in-flight copy cannot be allocated stays with
	 * the caller (w14_bp_enqueue.c); the front end never hands one over */
	VERIF_ASSERT(!(blk->flags & SQFS_BLK_FRAGMENT_BLOCK),
		     "C01.bp.enqueue_block.pre");
	W14_ENQ_MONITOR(blk);
	g_live = 0;		/* the pool (or the free list) has it now */
	if (g_submitted < 0xFFFFFFFFu)
		g_submitted += 1;
	if (verif_nd_bool("enqueue_block_fails"))
		return nd_failure("enqueue_block_err");
	return 0;
}
#endif /* W14_BP_CALLER_STUBS */

#endif /* W14_BP_MODEL_H */
