/* C01 / C07 (bounded list): xattr_from_path of
 * bin/gensquashfs/src/apply_xattr.c - copies the extended attributes of a
 * source file into the xattr writer. llistxattr / lgetxattr are contract
 * stubs (xattr(7): size query, then fill; the second answer may be shorter
 * than the first or fail; the name list is a sequence of NUL-terminated
 * names whose total length is the return value). The list holds NNAMES
 * names of 1 or 2 symbolic bytes; the value sizes are symbolic 0..2.
 * sqfs_xattr_writer_add_kv records its arguments.
 *
 *  C07.xattr_scan.key_in_list    every key handed to lgetxattr / the writer
 *                                starts inside the list the kernel returned
 *                                and is terminated inside it
 *  C07.xattr_scan.value_buf      lgetxattr is given a buffer of at least the
 *                                size passed with it
 *  C01.xattr_scan.kv_exact       the writer gets the key, the buffer
 *                                lgetxattr filled and the length lgetxattr
 *                                returned
 *  C01.xattr_scan.every_key      success (0): every name of the list was
 *                                handed to the writer exactly once, in list
 *                                order - attributes with a non-empty value
 *  C01.xattr_scan.empty_value_kept   ... and attributes whose value is empty
 *  C07.xattr_scan.fail_stop      any failing call => -1, no further call
 *  buffers released on every outcome (--memory-leak-check)
 */
#include <stdlib.h>
#include <string.h>
#include "verif.h"
#include "bin/gensquashfs/src/apply_xattr.c"

#ifndef NNAMES
#define NNAMES 2
#endif
#define LISTMAX (3 * NNAMES)

static char g_list[LISTMAX + 1];
static size_t g_listlen, g_off[NNAMES + 1];
static size_t g_vlen[NNAMES + 1];
static char *g_buf;
static size_t g_buflen;
static int g_list_calls, g_failed, g_after_fail, g_key_ok, g_vbuf_ok, g_kv_ok;
static void *g_lastval;
static size_t g_lastlen;
static int g_cur;			/* index of the name of the last query */
static int g_added[NNAMES + 1], g_nadd, g_order_ok;
static int g_xwr_tag;

static int fails(const char *tag)
{
	if (g_failed) {
		g_after_fail = 1;
		return 1;
	}
	if (verif_nd_bool(tag)) {
		g_failed = 1;
		return 1;
	}
	return 0;
}

static int key_index(const char *key)
{
	size_t off;
	int i;

	if (g_buf == NULL || !VERIF_SAME_OBJECT(key, g_buf))
		return -1;
	off = VERIF_POINTER_OFFSET(key);
	for (i = 0; i < NNAMES; ++i) {
		if (off == g_off[i])
			return i;
	}
	return -1;
}

ssize_t llistxattr(const char *path, char *list, size_t size)
{
	size_t i;

	(void)path;
	++g_list_calls;
	if (fails("llist.fail"))
		return -1;
	if (list == NULL)
		return (ssize_t)g_listlen;
	VERIF_ASSERT(size >= g_listlen && VERIF_W_OK(list, size),
		     "C07.xattr_scan.list_buf");
	g_buf = list;
	g_buflen = size;
	for (i = 0; i < LISTMAX; ++i) {
		if (i < g_listlen)
			list[i] = g_list[i];
	}
	return (ssize_t)g_listlen;
}

ssize_t lgetxattr(const char *path, const char *name, void *value,
		  size_t size)
{
	int k = key_index(name);

	(void)path;
	if (k < 0)
		g_key_ok = 0;
	if (fails("lget.fail"))
		return -1;
	if (k < 0)
		return 0;
	g_cur = k;
	if (value == NULL)
		return (ssize_t)g_vlen[k];
	if (size < g_vlen[k] || !VERIF_W_OK(value, size))
		g_vbuf_ok = 0;
	g_lastval = value;
	g_lastlen = g_vlen[k];
	return (ssize_t)g_vlen[k];
}

int sqfs_xattr_writer_add_kv(sqfs_xattr_writer_t *xwr, const char *key,
			     const void *value, size_t size)
{
	int k = key_index(key);

	if (k < 0)
		g_key_ok = 0;
	if (xwr != (sqfs_xattr_writer_t *)&g_xwr_tag || k != g_cur ||
	    (size > 0 && (value != g_lastval || size != g_lastlen)) ||
	    (k >= 0 && size != g_vlen[k]))
		g_kv_ok = 0;
	if (k >= 0) {
		if (k != g_nadd)
			g_order_ok = 0;
		++g_added[k];
	}
	++g_nadd;
	return fails("add.fail") ? SQFS_ERROR_ALLOC : 0;
}

void sqfs_perror(const char *file, const char *action, int error_code)
{
	(void)file; (void)action; (void)error_code;
}

char *fstree_get_path(tree_node_t *node)
{
	(void)node;
	VERIF_ASSERT(0, "C01.xattr_scan.unexpected_callee");
	return NULL;
}
int canonicalize_name(char *filename)
{
	(void)filename;
	VERIF_ASSERT(0, "C01.xattr_scan.unexpected_callee");
	return -1;
}
int xattr_apply_map_file(char *path, void *map, sqfs_xattr_writer_t *xwr)
{
	(void)path; (void)map; (void)xwr;
	VERIF_ASSERT(0, "C01.xattr_scan.unexpected_callee");
	return -1;
}
int selinux_relable_node(void *sehnd, sqfs_xattr_writer_t *xwr,
			 tree_node_t *node, const char *path)
{
	(void)sehnd; (void)xwr; (void)node; (void)path;
	VERIF_ASSERT(0, "C01.xattr_scan.unexpected_callee");
	return -1;
}
int sqfs_xattr_writer_begin(sqfs_xattr_writer_t *xwr, sqfs_u32 flags)
{
	(void)xwr; (void)flags;
	VERIF_ASSERT(0, "C01.xattr_scan.unexpected_callee");
	return -1;
}
int sqfs_xattr_writer_end(sqfs_xattr_writer_t *xwr, sqfs_u32 *out)
{
	(void)xwr; (void)out;
	VERIF_ASSERT(0, "C01.xattr_scan.unexpected_callee");
	return -1;
}

void harness(void)
{
	size_t o = 0, n;
	int i, ret, all_nonempty = 1, complete = 1;

	g_buf = NULL;
	g_buflen = 0;
	g_list_calls = 0;
	g_failed = 0;
	g_after_fail = 0;
	g_key_ok = 1;
	g_vbuf_ok = 1;
	g_kv_ok = 1;
	g_order_ok = 1;
	g_lastval = NULL;
	g_lastlen = 0;
	g_cur = -1;
	g_nadd = 0;

	for (i = 0; i < NNAMES; ++i) {
		n = 1 + (verif_nd_bool("name.long") ? 1 : 0);
		g_off[i] = o;
		g_list[o] = (char)verif_nd_u8("name.c0");
		VERIF_ASSUME(g_list[o] != '\0');
		if (n == 2) {
			g_list[o + 1] = (char)verif_nd_u8("name.c1");
			VERIF_ASSUME(g_list[o + 1] != '\0');
		}
		g_list[o + n] = '\0';
		o += n + 1;
		g_vlen[i] = verif_nd_u8("value.len") % 3;
		g_added[i] = 0;
		if (g_vlen[i] == 0)
			all_nonempty = 0;
	}
	g_off[NNAMES] = o;
	g_listlen = o;

	ret = xattr_from_path((sqfs_xattr_writer_t *)&g_xwr_tag, "src/file");

	VERIF_ASSERT(g_key_ok, "C07.xattr_scan.key_in_list");
	VERIF_ASSERT(g_vbuf_ok, "C07.xattr_scan.value_buf");
	VERIF_ASSERT(g_kv_ok, "C01.xattr_scan.kv_exact");
	VERIF_ASSERT(!g_after_fail && ret == (g_failed ? -1 : 0),
		     "C07.xattr_scan.fail_stop");
	if (ret == 0) {
		for (i = 0; i < NNAMES; ++i) {
			if (g_vlen[i] > 0) {
				VERIF_ASSERT(g_added[i] == 1,
					     "C01.xattr_scan.every_key");
			} else {
				VERIF_ASSERT(g_added[i] == 1,
					     "C01.xattr_scan.empty_value_kept");
			}
			if (g_added[i] != 1)
				complete = 0;
		}
		if (complete)
			VERIF_ASSERT(g_order_ok, "C01.xattr_scan.every_key");
	}
	VERIF_COVER(ret == 0 && all_nonempty && g_nadd == NNAMES);
	VERIF_COVER(ret == 0 && !all_nonempty);
	VERIF_COVER(ret == -1 && g_nadd == NNAMES);
	VERIF_COVER(ret == -1 && g_list_calls == 1);
}
