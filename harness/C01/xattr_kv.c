/* C01.xattr.kv: the two encodings the xattr writer applies to what the
 * packer hands it are inverted exactly.
 *  - to_base32 (xattr_writer_record.c, how values are interned in the string
 *    table) / from_base32 (xattr_writer_flush.c, how they are turned back into
 *    bytes when the table is written): from(to(v)) = v for every byte string
 *    of SIZE bytes (-DSIZE=0..4 concrete, bytes symbolic), length included
 *  - key prefix: sqfs_get_xattr_prefix_id(prefix(id) + suffix) = id for the
 *    three name spaces and every non-empty suffix byte; write_key strips
 *    exactly the prefix (the part up to and including the first '.')
 *
 *   C01.xattr.kv.base32_len      strlen(to(v)) = 2 * SIZE, decoded size = SIZE
 *   C01.xattr.kv.base32_inverse  decoded bytes = v
 *   C01.xattr.kv.base32_alphabet every character is one from_base32 knows
 *   C01.xattr.kv.prefix_inverse  id -> prefix -> id, NULL for unknown ids
 *   C01.xattr.kv.prefix_needs_suffix  a bare prefix is not a valid key
 */
#include <stdlib.h>
#include <string.h>
#include "verif.h"
#include "sqfs/predef.h"
#ifndef SIZE
#define SIZE 3
#endif
#define C01_SIZES 2 * SIZE + 1, SIZE
#include "c01_alloc.h"
struct sqfs_meta_writer_t { sqfs_object_t base; int opaque; };
#define hexmap hexmap_record
#include "lib/sqfs/src/xattr/xattr_writer_record.c"
#undef hexmap
#define hexmap hexmap_flush
#include "lib/sqfs/src/xattr/xattr_writer_flush.c"
#undef hexmap
#include "lib/sqfs/src/xattr/xattr.c"

void harness(void)
{
	sqfs_u8 v[SIZE + 1];
	char key[12];
	char *s;
	sqfs_u8 *back;
	size_t n = 99, i, pl;
	unsigned id = verif_nd_u8("id");
	const char *p;

	verif_nd_bytes(v, SIZE, "value");
	s = to_base32(v, SIZE);
	VERIF_ASSERT(s != NULL && s[2 * SIZE] == '\0', "C01.xattr.kv.base32_len");
	for (i = 0; i < 2 * SIZE; ++i)
		VERIF_ASSERT((s[i] >= '0' && s[i] <= '9') || (s[i] >= 'A' && s[i] <= 'F'),
			     "C01.xattr.kv.base32_alphabet");
	back = from_base32(s, &n);
	VERIF_ASSERT(n == SIZE && (back != NULL), "C01.xattr.kv.base32_len");
	for (i = 0; i < SIZE; ++i)
		VERIF_ASSERT(back[i] == v[i], "C01.xattr.kv.base32_inverse");
	free(back);
	free(s);
	VERIF_COVER(1);

	p = sqfs_get_xattr_prefix((SQFS_XATTR_TYPE)id);
	if (id == SQFS_XATTR_USER || id == SQFS_XATTR_TRUSTED || id == SQFS_XATTR_SECURITY) {
		sqfs_u8 c = verif_nd_u8("suffix");

		VERIF_ASSUME(c != 0);
		VERIF_ASSERT(p != NULL, "C01.xattr.kv.prefix_inverse");
		pl = strlen(p);
		VERIF_ASSERT(pl >= 2 && pl <= 9 && p[pl - 1] == '.', "C01.xattr.kv.prefix_inverse");
		(memcpy)(key, p, pl);
		key[pl] = '\0';
		VERIF_ASSERT(sqfs_get_xattr_prefix_id(key) < 0, "C01.xattr.kv.prefix_needs_suffix");
		(memcpy)(&key[pl], &c, 1);
		key[pl + 1] = '\0';
		VERIF_ASSERT(sqfs_get_xattr_prefix_id(key) == (int)id, "C01.xattr.kv.prefix_inverse");
		VERIF_ASSERT(strchr(key, '.') == key + pl - 1, "C01.xattr.kv.prefix_inverse");
		VERIF_COVER(id == SQFS_XATTR_SECURITY);
	} else {
		VERIF_ASSERT(p == NULL, "C01.xattr.kv.prefix_inverse");
	}
}
