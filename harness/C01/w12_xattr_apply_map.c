/* C01 (bounded map): xattr_apply_map_file of
 * bin/gensquashfs/src/filemap_xattr.c - hands the entries of the
 * `--xattr-file` map to the xattr writer for one tree node. The map has NPAT
 * (1..2) patterns in list order with NENT0 / NENT1 (0..2) entries; pattern
 * paths are fully symbolic strings of <= 2 bytes, the node path is '/' +
 * <= 2 symbolic bytes (what fstree_get_path delivers) or, case ABS0, any
 * string of <= 3 bytes. sqfs_xattr_writer_add is a contract stub that
 * records (writer, entry) and may fail with any negative code.
 *
 *  C01.xattr_map.applied_exactly  the writer receives exactly the entries of
 *                                 the patterns whose path equals the node
 *                                 path without its leading slash, each once,
 *                                 pattern by pattern in list order, with the
 *                                 caller's writer; entries of other patterns
 *                                 never; nothing is skipped silently
 *  C01.xattr_map.error_stops      the first writer failure ends the walk and
 *                                 is the return value; without failure the
 *                                 result is 0
 *  C07.xattr_map.value_readable   the value handed to fwrite has value_len
 *                                 readable bytes
 */
#include <stdlib.h>
#include <string.h>
#include "verif.h"

#ifndef NPAT
#define NPAT 2
#endif
#ifndef NENT0
#define NENT0 1
#endif
#ifndef NENT1
#define NENT1 1
#endif
#define PLEN 2

#ifdef VERIF_REPLAY
#include <stdio.h>
size_t w12_fwrite(const void *p, size_t sz, size_t n, FILE *fp);
int w12_printf(const char *fmt, ...);
int w12_puts(const char *s);
#define fwrite w12_fwrite
#define printf w12_printf
#define puts w12_puts
#endif

#include "bin/gensquashfs/src/filemap_xattr.c"

#define MAXCALLS 4
static sqfs_xattr_t g_e00, g_e01, g_e10, g_e11;
static sqfs_xattr_t *const g_etab[2][2] = { { &g_e00, &g_e01 },
					    { &g_e10, &g_e11 } };
static struct XattrMapPattern g_p0, g_p1;
static struct XattrMapPattern *const g_ptab[2] = { &g_p0, &g_p1 };
static char g_pp0[PLEN + 1], g_pp1[PLEN + 1];
static char *const g_pptab[2] = { g_pp0, g_pp1 };
static const int g_nent[2] = { NENT0, NENT1 };
static struct XattrMap g_map;
static char g_path[PLEN + 2];
static sqfs_u8 g_valbuf[2];
static int g_xwr_tag;

static const sqfs_xattr_t *g_rec[MAXCALLS];
static int g_nrec, g_rec_ovf, g_wr_ok, g_fail_at, g_fail_code;

int sqfs_xattr_writer_add(sqfs_xattr_writer_t *xwr, const sqfs_xattr_t *ent)
{
	if (xwr != (sqfs_xattr_writer_t *)&g_xwr_tag)
		g_wr_ok = 0;
	if (g_nrec < MAXCALLS)
		g_rec[g_nrec] = ent;
	else
		g_rec_ovf = 1;
	++g_nrec;
	if (g_nrec - 1 == g_fail_at)
		return g_fail_code;
	return 0;
}

size_t fwrite(const void *p, size_t sz, size_t n, FILE *fp)
{
	(void)fp;
	VERIF_ASSERT(VERIF_R_OK(p, sz * n), "C07.xattr_map.value_readable");
	return n;
}

int printf(const char *fmt, ...)
{
	(void)fmt;
	return 0;
}

int puts(const char *s)
{
	(void)s;
	return 0;
}

int canonicalize_name(char *filename)
{
	(void)filename;
	VERIF_ASSERT(0, "C01.xattr_map.unexpected_callee");
	return -1;
}
int hex_decode(const char *in, size_t in_sz, sqfs_u8 *out, size_t out_sz)
{
	(void)in; (void)in_sz; (void)out; (void)out_sz;
	VERIF_ASSERT(0, "C01.xattr_map.unexpected_callee");
	return -1;
}
int base64_decode(const char *in, size_t in_len, sqfs_u8 *out,
		  size_t *out_len)
{
	(void)in; (void)in_len; (void)out; (void)out_len;
	VERIF_ASSERT(0, "C01.xattr_map.unexpected_callee");
	return -1;
}

/* independent string equality */
static int same_str(const char *a, const char *b)
{
	size_t i;

	for (i = 0; i <= PLEN + 1; ++i) {
		if (a[i] != b[i])
			return 0;
		if (a[i] == '\0')
			return 1;
	}
	return 0;
}

void harness(void)
{
	const sqfs_xattr_t *want[MAXCALLS];
	const char *node;
	int nwant = 0, p, e, ret, i, match[2];

	g_nrec = 0;
	g_rec_ovf = 0;
	g_wr_ok = 1;
	g_fail_at = verif_nd_bool("add.fails") ?
		(int)(verif_nd_u8("add.fail_at") % MAXCALLS) : -1;
	g_fail_code = -1 - (int)(verif_nd_u8("add.code") % 16);

	for (p = 0; p < 2; ++p) {
		verif_nd_bytes(g_pptab[p], PLEN, "pat.path");
		g_pptab[p][PLEN] = '\0';
		memset(g_ptab[p], 0, sizeof(*g_ptab[p]));
		g_ptab[p]->path = g_pptab[p];
		for (e = 0; e < 2; ++e) {
			sqfs_xattr_t *x = g_etab[p][e];

			memset(x, 0, sizeof(*x));
			x->key = "user.a";
			x->value = g_valbuf;
			x->value_len = verif_nd_u8("ent.vlen") % 3;
			if (e + 1 < g_nent[p])
				x->next = g_etab[p][e + 1];
		}
		if (g_nent[p] > 0)
			g_ptab[p]->entries = g_etab[p][0];
	}
#if NPAT >= 2
	g_p0.next = &g_p1;
#endif
	g_map.patterns = &g_p0;

	verif_nd_bytes(g_path, PLEN + 1, "node.path");
	g_path[PLEN + 1] = '\0';
#ifndef ABS0
	g_path[0] = '/';
#endif

	ret = xattr_apply_map_file(g_path, &g_map,
				   (sqfs_xattr_writer_t *)&g_xwr_tag);

	/* what the property asks for */
	for (p = 0; p < NPAT; ++p) {
		node = g_path;
		if (node[0] == '/' && g_pptab[p][0] != '/')
			++node;
		match[p] = same_str(g_pptab[p], node);
		if (!match[p])
			continue;
		for (e = 0; e < g_nent[p]; ++e)
			want[nwant++] = g_etab[p][e];
	}
	if (g_fail_at >= 0 && g_fail_at < nwant)
		nwant = g_fail_at + 1;
	else
		g_fail_at = -1;

	VERIF_ASSERT(!g_rec_ovf && g_wr_ok && g_nrec == nwant,
		     "C01.xattr_map.applied_exactly");
	for (i = 0; i < MAXCALLS; ++i) {
		if (i < nwant && i < g_nrec)
			VERIF_ASSERT(g_rec[i] == want[i],
				     "C01.xattr_map.applied_exactly");
	}
	VERIF_ASSERT(ret == (g_fail_at >= 0 ? g_fail_code : 0),
		     "C01.xattr_map.error_stops");

	VERIF_COVER(nwant == 0 && g_fail_at < 0);
#if NENT0 > 0
	VERIF_COVER(match[0] && ret == 0);
	VERIF_COVER(match[0] && ret < 0);
#endif
#if NPAT >= 2 && NENT0 > 0 && NENT1 > 0
	VERIF_COVER(match[0] && match[1] && nwant == NENT0 + NENT1);
	VERIF_COVER(!match[0] && match[1] && nwant == NENT1);
#endif
}
