/* C01.inode.roundtrip: sqfs_meta_reader_read_inode (lib/sqfs/src/read_inode.c)
 * applied to the bytes sqfs_meta_writer_write_inode (lib/sqfs/src/write_inode.c)
 * produced gives back the inode that was written - for each of the 14 inode
 * types (-DITYPE=1..14, concrete), every field value symbolic.
 * Meta writer / reader: the append-buffer contract of c01_meta.h.
 *
 * Shape parameters (concrete per case): NBLK block size words and FRAG
 * (has a tail end in a fragment) for files, TL target length for symlinks,
 * NIDX index entries (name lengths 1, 2, ...) for extended directories;
 * BS = block size of the image.
 *
 * wf_inode (requires): the type bits of mode are those of the inode type;
 * payload_bytes_used is what the type fields announce (4 * block count of
 * file_size/BS/fragment, target_size, size of the index entries with
 * inodex_count = their number and a non-empty listing if there are any).
 *
 *   C01.inode.roundtrip.write_ok   the writer accepts every wf inode
 *   C01.inode.roundtrip.read_ok    the reader accepts what was written
 *   C01.inode.roundtrip.consumed   and consumes exactly those bytes
 *   C01.inode.roundtrip.seek       after seeking to the inode reference
 *   C01.inode.roundtrip.base       type, mode, uid/gid index, mtime, number
 *   C01.inode.roundtrip.fields     every field of the type's record
 *   C01.inode.roundtrip.payload    payload_bytes_used and every payload byte
 *                                  (block sizes, target, index entries)
 *   C01.inode.roundtrip.slink_nul  the target read back is NUL terminated
 */
#include <stdlib.h>
#include <string.h>
#include "verif.h"
#include "sqfs/predef.h"
#ifndef ITYPE
#define ITYPE 2
#endif
#ifndef NBLK
#define NBLK 1
#endif
#ifndef FRAG
#define FRAG 0
#endif
#ifndef TL
#define TL 3
#endif
#ifndef NIDX
#define NIDX 1
#endif
#ifndef BS
#define BS 4096
#endif
#define GEN 64 /* sizeof(sqfs_inode_generic_t), asserted below */
#define IDXBYTES (NIDX * 12 + NIDX * (NIDX + 1) / 2)
#define C01_SIZES GEN, GEN + 4 * NBLK, GEN + TL + 1, GEN + 128
#define C01_READ_SIZES 4 * NBLK, TL
#include "c01_alloc.h"
#include "c01_meta.h"
#include "lib/sqfs/src/write_inode.c"
#include "lib/sqfs/src/read_inode.c"

#define PAY 32
typedef struct {
	sqfs_inode_generic_t n;
	sqfs_u8 payload[PAY];
} inode_wrap_t;

static const sqfs_u16 g_ifmt[15] = {
	0, S_IFDIR, S_IFREG, S_IFLNK, S_IFBLK, S_IFCHR, S_IFIFO, S_IFSOCK,
	S_IFDIR, S_IFREG, S_IFLNK, S_IFBLK, S_IFCHR, S_IFIFO, S_IFSOCK,
};

static sqfs_u64 blk_count(sqfs_u64 size, sqfs_u32 fidx, sqfs_u32 foff)
{
	sqfs_u64 c = size / BS;

	if ((size % BS) != 0 && (fidx == 0xFFFFFFFF || foff == 0xFFFFFFFF))
		++c;
	return c;
}

void harness(void)
{
	static inode_wrap_t w;
	sqfs_inode_generic_t *n = &w.n, *r = NULL;
	sqfs_meta_writer_t *mw = NULL;
	sqfs_meta_reader_t *mr = NULL;
	sqfs_super_t super;
	sqfs_u64 ref_block = verif_nd_u64("ref_block");
	size_t ref_off = verif_nd_size("ref_off") & 0x1FFF;
	size_t used = 0, i;
	int ret;

	VERIF_ASSERT(sizeof(sqfs_inode_generic_t) == GEN &&
		     offsetof(inode_wrap_t, payload) == offsetof(sqfs_inode_generic_t, extra),
		     "C01.env.wrapper_layout");
	super.inode_table_start = verif_nd_u64("inode_table_start");
	super.block_size = BS;
	VERIF_ASSUME(ref_block <= UINT64_MAX - super.inode_table_start);

	n->base.type = ITYPE;
	n->base.mode = (verif_nd_u16("mode") & 07777) | g_ifmt[ITYPE];
	n->base.uid_idx = verif_nd_u16("uid_idx");
	n->base.gid_idx = verif_nd_u16("gid_idx");
	n->base.mod_time = verif_nd_u32("mod_time");
	n->base.inode_number = verif_nd_u32("inode_number");
	verif_nd_bytes(w.payload, PAY, "payload");

#if ITYPE == 1 /* SQFS_INODE_DIR */
	n->data.dir.start_block = verif_nd_u32("f");
	n->data.dir.nlink = verif_nd_u32("f");
	n->data.dir.size = verif_nd_u16("f");
	n->data.dir.offset = verif_nd_u16("f");
	n->data.dir.parent_inode = verif_nd_u32("f");
#elif ITYPE == 2 /* SQFS_INODE_FILE */
	n->data.file.blocks_start = verif_nd_u32("f");
	n->data.file.fragment_index = FRAG ? verif_nd_u32("f") : 0xFFFFFFFF;
	n->data.file.fragment_offset = FRAG ? verif_nd_u32("f") : 0xFFFFFFFF;
	n->data.file.file_size = verif_nd_u32("f");
	VERIF_ASSUME(blk_count(n->data.file.file_size, n->data.file.fragment_index,
			       n->data.file.fragment_offset) == NBLK);
	used = 4 * NBLK;
#elif ITYPE == 3 /* SQFS_INODE_SLINK */
	n->data.slink.nlink = verif_nd_u32("f");
	n->data.slink.target_size = TL;
	used = TL;
#elif ITYPE == 4 /* SQFS_INODE_BDEV */ || ITYPE == 5 /* SQFS_INODE_CDEV */
	n->data.dev.nlink = verif_nd_u32("f");
	n->data.dev.devno = verif_nd_u32("f");
#elif ITYPE == 6 /* SQFS_INODE_FIFO */ || ITYPE == 7 /* SQFS_INODE_SOCKET */
	n->data.ipc.nlink = verif_nd_u32("f");
#elif ITYPE == 8 /* SQFS_INODE_EXT_DIR */
	n->data.dir_ext.nlink = verif_nd_u32("f");
	n->data.dir_ext.size = verif_nd_u32("f");
	n->data.dir_ext.start_block = verif_nd_u32("f");
	n->data.dir_ext.parent_inode = verif_nd_u32("f");
	n->data.dir_ext.inodex_count = NIDX;
	n->data.dir_ext.offset = verif_nd_u16("f");
	n->data.dir_ext.xattr_idx = verif_nd_u32("f");
	VERIF_ASSUME(NIDX == 0 || n->data.dir_ext.size != 0);
	{	/* index entries: name length i + 1, stored as size = i */
		size_t o = 0;
		for (i = 0; i < NIDX; ++i) {
			sqfs_dir_index_t e;
			e.index = verif_nd_u32("idx");
			e.start_block = verif_nd_u32("idx");
			e.size = (sqfs_u32)i;
			(memcpy)(w.payload + o, &e, sizeof(e));
			o += sizeof(e) + i + 1;
		}
		used = o;
	}
#elif ITYPE == 9 /* SQFS_INODE_EXT_FILE */
	n->data.file_ext.blocks_start = verif_nd_u64("f");
	n->data.file_ext.file_size = verif_nd_u64("f");
	n->data.file_ext.sparse = verif_nd_u64("f");
	n->data.file_ext.nlink = verif_nd_u32("f");
	n->data.file_ext.fragment_idx = FRAG ? verif_nd_u32("f") : 0xFFFFFFFF;
	n->data.file_ext.fragment_offset = FRAG ? verif_nd_u32("f") : 0xFFFFFFFF;
	n->data.file_ext.xattr_idx = verif_nd_u32("f");
	VERIF_ASSUME(blk_count(n->data.file_ext.file_size, n->data.file_ext.fragment_idx,
			       n->data.file_ext.fragment_offset) == NBLK);
	used = 4 * NBLK;
#elif ITYPE == 10 /* SQFS_INODE_EXT_SLINK */
	n->data.slink_ext.nlink = verif_nd_u32("f");
	n->data.slink_ext.target_size = TL;
	n->data.slink_ext.xattr_idx = verif_nd_u32("f");
	used = TL;
#elif ITYPE == 11 /* SQFS_INODE_EXT_BDEV */ || ITYPE == 12 /* SQFS_INODE_EXT_CDEV */
	n->data.dev_ext.nlink = verif_nd_u32("f");
	n->data.dev_ext.devno = verif_nd_u32("f");
	n->data.dev_ext.xattr_idx = verif_nd_u32("f");
#elif ITYPE == 13 /* SQFS_INODE_EXT_FIFO */ || ITYPE == 14 /* SQFS_INODE_EXT_SOCKET */
	n->data.ipc_ext.nlink = verif_nd_u32("f");
	n->data.ipc_ext.xattr_idx = verif_nd_u32("f");
#else
#error "ITYPE must be 1..14"
#endif
	n->payload_bytes_used = (sqfs_u32)used;
	n->payload_bytes_available = PAY;

	ret = sqfs_meta_writer_write_inode(mw, n);
	VERIF_ASSERT(ret == 0, "C01.inode.roundtrip.write_ok");
	VERIF_COVER(ret == 0);

	ret = sqfs_meta_reader_read_inode(mr, &super, ref_block, ref_off, &r);
	VERIF_ASSERT(ret == 0 && r != NULL, "C01.inode.roundtrip.read_ok");
	if (ret != 0 || r == NULL)
		return;
	VERIF_ASSERT(g_cap_rd == g_cap_wr && !g_cap_underrun, "C01.inode.roundtrip.consumed");
	VERIF_ASSERT(g_cap_seeks == 1 && g_seek_block == ref_block + super.inode_table_start &&
		     g_seek_off == ref_off, "C01.inode.roundtrip.seek");
	VERIF_ASSERT(r->base.type == n->base.type && r->base.mode == n->base.mode &&
		     r->base.uid_idx == n->base.uid_idx && r->base.gid_idx == n->base.gid_idx &&
		     r->base.mod_time == n->base.mod_time &&
		     r->base.inode_number == n->base.inode_number, "C01.inode.roundtrip.base");

#if ITYPE == 1 /* SQFS_INODE_DIR */
	VERIF_ASSERT(r->data.dir.start_block == n->data.dir.start_block &&
		     r->data.dir.nlink == n->data.dir.nlink &&
		     r->data.dir.size == n->data.dir.size &&
		     r->data.dir.offset == n->data.dir.offset &&
		     r->data.dir.parent_inode == n->data.dir.parent_inode,
		     "C01.inode.roundtrip.fields");
#elif ITYPE == 2 /* SQFS_INODE_FILE */
	VERIF_ASSERT(r->data.file.blocks_start == n->data.file.blocks_start &&
		     r->data.file.fragment_index == n->data.file.fragment_index &&
		     r->data.file.fragment_offset == n->data.file.fragment_offset &&
		     r->data.file.file_size == n->data.file.file_size,
		     "C01.inode.roundtrip.fields");
#elif ITYPE == 3 /* SQFS_INODE_SLINK */
	VERIF_ASSERT(r->data.slink.nlink == n->data.slink.nlink &&
		     r->data.slink.target_size == TL, "C01.inode.roundtrip.fields");
#elif ITYPE == 4 /* SQFS_INODE_BDEV */ || ITYPE == 5 /* SQFS_INODE_CDEV */
	VERIF_ASSERT(r->data.dev.nlink == n->data.dev.nlink &&
		     r->data.dev.devno == n->data.dev.devno, "C01.inode.roundtrip.fields");
#elif ITYPE == 6 /* SQFS_INODE_FIFO */ || ITYPE == 7 /* SQFS_INODE_SOCKET */
	VERIF_ASSERT(r->data.ipc.nlink == n->data.ipc.nlink, "C01.inode.roundtrip.fields");
#elif ITYPE == 8 /* SQFS_INODE_EXT_DIR */
	VERIF_ASSERT(r->data.dir_ext.nlink == n->data.dir_ext.nlink &&
		     r->data.dir_ext.size == n->data.dir_ext.size &&
		     r->data.dir_ext.start_block == n->data.dir_ext.start_block &&
		     r->data.dir_ext.parent_inode == n->data.dir_ext.parent_inode &&
		     r->data.dir_ext.inodex_count == NIDX &&
		     r->data.dir_ext.offset == n->data.dir_ext.offset &&
		     r->data.dir_ext.xattr_idx == n->data.dir_ext.xattr_idx,
		     "C01.inode.roundtrip.fields");
#elif ITYPE == 9 /* SQFS_INODE_EXT_FILE */
	VERIF_ASSERT(r->data.file_ext.blocks_start == n->data.file_ext.blocks_start &&
		     r->data.file_ext.file_size == n->data.file_ext.file_size &&
		     r->data.file_ext.sparse == n->data.file_ext.sparse &&
		     r->data.file_ext.nlink == n->data.file_ext.nlink &&
		     r->data.file_ext.fragment_idx == n->data.file_ext.fragment_idx &&
		     r->data.file_ext.fragment_offset == n->data.file_ext.fragment_offset &&
		     r->data.file_ext.xattr_idx == n->data.file_ext.xattr_idx,
		     "C01.inode.roundtrip.fields");
#elif ITYPE == 10 /* SQFS_INODE_EXT_SLINK */
	VERIF_ASSERT(r->data.slink_ext.nlink == n->data.slink_ext.nlink &&
		     r->data.slink_ext.target_size == TL &&
		     r->data.slink_ext.xattr_idx == n->data.slink_ext.xattr_idx,
		     "C01.inode.roundtrip.fields");
#elif ITYPE == 11 /* SQFS_INODE_EXT_BDEV */ || ITYPE == 12 /* SQFS_INODE_EXT_CDEV */
	VERIF_ASSERT(r->data.dev_ext.nlink == n->data.dev_ext.nlink &&
		     r->data.dev_ext.devno == n->data.dev_ext.devno &&
		     r->data.dev_ext.xattr_idx == n->data.dev_ext.xattr_idx,
		     "C01.inode.roundtrip.fields");
#else
	VERIF_ASSERT(r->data.ipc_ext.nlink == n->data.ipc_ext.nlink &&
		     r->data.ipc_ext.xattr_idx == n->data.ipc_ext.xattr_idx,
		     "C01.inode.roundtrip.fields");
#endif
	VERIF_ASSERT(r->payload_bytes_used == used, "C01.inode.roundtrip.payload");
	for (i = 0; i < PAY; ++i) {
		if (i < used)
			VERIF_ASSERT(((sqfs_u8 *)r->extra)[i] == w.payload[i],
				     "C01.inode.roundtrip.payload");
	}
#if ITYPE == 3 /* SQFS_INODE_SLINK */ || ITYPE == 10 /* SQFS_INODE_EXT_SLINK */
	VERIF_ASSERT(r->payload_bytes_available >= TL + 1 &&
		     ((sqfs_u8 *)r->extra)[TL] == 0, "C01.inode.roundtrip.slink_nul");
#endif
	VERIF_COVER(1);
	free(r);
}
