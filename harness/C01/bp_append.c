/* C01: sqfs_block_processor_append (lib/sqfs/src/block_processor/frontend.c)
 * with get_new_block and enqueue_block in place - where every input byte of a
 * file goes. Unbounded: `size` is any value (0 included), the copy loop and
 * the back-pressure loop of get_new_block are closed by loop contracts
 * (contracts/loops/C01_w4.tbl); the state at entry is arbitrary within the
 * front end's invariant: no current block, or one with 0 <= fill < block size;
 * data may be NULL (zero fill); with or without inode.
 *
 * Environment: at most one block is in the front end's hands at a time, so one
 * typed block object stands for "the block malloc / the free list delivers"
 * (the pool takes it away at submit; dequeue_block may hand it back through
 * the free list); memcpy/memset are checking stubs that advance the ghost
 * input cursor g_done; the pool, dequeue_block and malloc may fail.
 *
 * File position P = BS * (index of the block being filled) + its fill.
 *
 *  ensures  C01.bp.append_safe   every pointer the loop forms is valid for
 *              every (size, data, current block) - incl. size 0 without a
 *              current block (CBMC memory checks + the stub preconditions)
 *           C01.bp.bytes_in_order  the k-th copy takes the input bytes
 *              [done, done + n) - no gap, no overlap - and puts them at
 *              in-block offset P % BS of the block with index P / BS,
 *              never across a block end; success ==> done == size
 *           C01.bp.blocks_full   only full blocks are submitted, with
 *              consecutive indices, each exactly once; afterwards the current
 *              block (if any) is the one holding position P with fill P % BS
 *              < BS
 *           C01.bp.file_size     the inode's file size grows by exactly `size`
 *           C01.bp.fail_stop     an environment failure is returned
 *           terminates           (decreases clauses)
 */
/* block size = 2^BS_LOG; positions are split with shifts and masks (a 64 bit
 * division circuit per clause makes the SAT problem needlessly hard) */
#ifndef BS_LOG
#define BS_LOG 12
#endif
#define BS (1u << BS_LOG)
#define P_IDX(p) ((sqfs_u64)(p) >> BS_LOG)
#define P_OFF(p) ((sqfs_u64)(p) & (BS - 1))
#include "C08/bp_env.h"

#ifndef HAVE_CUR
#define HAVE_CUR 1
#endif

/* ghosts named in the loop contracts */
size_t g_size0, g_done;
const char *g_data0;
sqfs_u64 g_pos0;		/* file position at entry */
sqfs_u64 g_read0;		/* stats.input_bytes_read at entry */
unsigned g_faults, g_submitted, g_deq_calls;
_Bool g_live;			/* the block object is in the front end's hands */
blk_t g_blk;
sqfs_inode_generic_t *g_slot;
sqfs_inode_generic_t **g_inode_arg;
sqfs_u32 g_user_flags;

static void *c01_memcpy(void *dst, const void *src, size_t n);
static void *c01_memset(void *dst, int c, size_t n);
static void *c01_malloc(size_t n);
#define memcpy c01_memcpy
#define memset c01_memset
#define malloc c01_malloc
#include "lib/sqfs/src/block_processor/frontend.c"
#undef memcpy
#undef memset
#undef malloc

static thread_pool_t g_pool;
static sqfs_u64 g_fsize0, g_fsize_set;
static unsigned g_setsize_calls;

static void copy_pre(void *dst, size_t n)
{
	sqfs_u64 p = g_pos0 + g_done;

	VERIF_ASSERT(g_live && g_p.proc.blk_current == &g_blk.b,
		     "C01.bp.bytes_in_order");
	VERIF_ASSERT(n > 0 && n <= g_size0 - g_done, "C01.bp.bytes_in_order");
	VERIF_ASSERT(g_blk.b.index == P_IDX(p) && g_blk.b.size == P_OFF(p) &&
		     dst == (void *)(g_blk.b.data + g_blk.b.size) &&
		     n <= BS - g_blk.b.size, "C01.bp.bytes_in_order");
	VERIF_ASSERT(VERIF_W_OK(dst, n), "C01.bp.append_safe");
}

static void *c01_memcpy(void *dst, const void *src, size_t n)
{
	copy_pre(dst, n);
	VERIF_ASSERT(g_data0 != NULL && src == (const void *)(g_data0 + g_done) &&
		     VERIF_R_OK(src, n), "C01.bp.bytes_in_order");
	g_done += n;
	return dst;
}

static void *c01_memset(void *dst, int c, size_t n)
{
	if (n == sizeof(sqfs_block_t) && dst == (void *)&g_blk.b) {
		/* get_new_block clears the header of the block it hands out */
		VERIF_ASSERT(c == 0 && g_live, "C01.bp.append_safe");
		g_blk.b.next = NULL;
		g_blk.b.inode = NULL;
		g_blk.b.io_seq_num = 0;
		g_blk.b.flags = 0;
		g_blk.b.size = 0;
		g_blk.b.checksum = 0;
		g_blk.b.index = 0;
		g_blk.b.user = NULL;
		return dst;
	}
	/* zero fill for data == NULL */
	copy_pre(dst, n);
	VERIF_ASSERT(g_data0 == NULL && c == 0, "C01.bp.bytes_in_order");
	g_done += n;
	return dst;
}

static void *c01_malloc(size_t n)
{
	VERIF_ASSERT(n == sizeof(sqfs_block_t) + BS && !g_live &&
		     g_p.proc.free_list == NULL, "C01.bp.append_safe");
	if (verif_nd_bool("malloc_fails")) {
		g_faults += 1;
		return NULL;
	}
	g_live = 1;
	return &g_blk.b;
}

int stub_submit(thread_pool_t *pool, void *item)
{
	VERIF_ASSERT(pool == &g_pool && item == (void *)&g_blk.b && g_live,
		     "C01.bp.blocks_full");
	VERIF_ASSERT(g_blk.b.size == BS &&
		     g_blk.b.index == P_IDX(g_pos0) + g_submitted &&
		     g_blk.b.inode == g_inode_arg,
		     "C01.bp.blocks_full");
	VERIF_ASSERT((g_blk.b.flags & ~(sqfs_u32)SQFS_BLK_FIRST_BLOCK) == g_user_flags,
		     "C01.bp.blocks_full");
	g_live = 0;	/* the pool owns it now */
	if (g_submitted < 0xFFFFFFFFu)
		g_submitted += 1;
	if (verif_nd_bool("submit_fails")) {
		g_faults += 1;
		return -1;
	}
	return 0;
}

int stub_get_status(thread_pool_t *pool)
{
	(void)pool;
	return verif_nd_bool("status_zero") ? 0 : SQFS_ERROR_COMPRESSOR;
}

/* contract of dequeue_block as seen by get_new_block: an error, or the
 * backlog shrank; a finished block may have come back to the free list */
int dequeue_block(sqfs_block_processor_t *proc)
{
	size_t nb;

	VERIF_ASSERT(proc == &g_p.proc && proc->backlog > 0, "C01.bp.append_safe");
	g_deq_calls += 1;
	if (verif_nd_bool("dequeue_fails")) {
		g_faults += 1;
		return SQFS_ERROR_IO;
	}
	nb = verif_nd_size("backlog_after");
	VERIF_ASSUME(nb < proc->backlog);
	proc->backlog = nb;
	if (!g_live && verif_nd_bool("block_recycled")) {
		g_blk.b.next = NULL;
		g_blk.b.flags = verif_nd_u32("stale");
		g_blk.b.size = verif_nd_u32("stale");
		g_blk.b.index = verif_nd_u32("stale");
		proc->free_list = &g_blk.b;
	}
	return 0;
}

int sqfs_inode_get_file_size(const sqfs_inode_generic_t *inode, sqfs_u64 *size)
{
	VERIF_ASSERT(inode == g_slot, "C01.bp.file_size");
	*size = g_fsize0;
	return 0;
}

int sqfs_inode_set_file_size(sqfs_inode_generic_t *inode, sqfs_u64 size)
{
	VERIF_ASSERT(inode == g_slot, "C01.bp.file_size");
	g_setsize_calls += 1;
	g_fsize_set = size;
	return 0;
}

int sqfs_inode_set_frag_location(sqfs_inode_generic_t *inode, sqfs_u32 index,
				 sqfs_u32 offset)
{
	(void)inode; (void)index; (void)offset;
	return 0;
}

void harness(void)
{
	static sqfs_inode_generic_t inode_obj;
	sqfs_u32 index0, fill0;
	sqfs_u64 pend;
	size_t bufsz;
	int ret;

	g_done = 0;
	g_faults = g_submitted = g_deq_calls = 0;
	g_setsize_calls = 0;
	g_alloc_calls = 0;

	g_p.proc.max_block_size = BS;
	g_p.proc.begin_called = true;
	g_p.proc.pool = &g_pool;
	g_pool.submit = stub_submit;
	g_pool.get_status = stub_get_status;
	g_p.proc.file = NULL;		/* in-flight copies: C08 frag_enqueue */
	g_p.proc.uncmp = NULL;
	g_p.proc.user = NULL;
	g_p.proc.free_list = NULL;
	g_p.proc.max_backlog = verif_nd_size("max_backlog");
	VERIF_ASSUME(g_p.proc.max_backlog >= 3);
	g_p.proc.backlog = verif_nd_size("backlog");
	VERIF_ASSUME(g_p.proc.backlog <= g_p.proc.max_backlog);

	g_slot = &inode_obj;
	g_inode_arg = verif_nd_bool("with_inode") ? &g_slot : NULL;
	g_p.proc.inode = g_inode_arg;
	g_fsize0 = verif_nd_u64("file_size");
	g_read0 = verif_nd_u64("input_bytes_read");
	g_p.proc.stats.input_bytes_read = g_read0;

	g_user_flags = verif_nd_u32("user_flags") & SQFS_BLK_USER_SETTABLE_FLAGS;
	index0 = verif_nd_u32("blk_index");
	fill0 = verif_nd_u32("fill");
	/* block list of a file stays below 2^30 entries (set_block_size) */
	VERIF_ASSUME(index0 < (1u << 30));
	blk_nd_header(&g_blk, "stale");
#if HAVE_CUR
	VERIF_ASSUME(index0 >= 1 && fill0 < BS);
	g_blk.b.index = index0 - 1;
	g_blk.b.size = fill0;
	g_blk.b.inode = g_inode_arg;
	g_blk.b.flags = g_user_flags | (index0 == 1 ? SQFS_BLK_FIRST_BLOCK : 0);
	g_p.proc.blk_current = &g_blk.b;
	g_p.proc.blk_flags = g_user_flags;
	g_live = 1;
	g_pos0 = ((sqfs_u64)(index0 - 1) << BS_LOG) + fill0;
#else
	g_p.proc.blk_current = NULL;
	g_p.proc.blk_flags = g_user_flags | (index0 == 0 ? SQFS_BLK_FIRST_BLOCK : 0);
	g_live = 0;
	g_pos0 = (sqfs_u64)index0 << BS_LOG;
#endif
	g_p.proc.blk_index = index0;

	g_size0 = verif_nd_size("size");
	VERIF_ASSUME(g_size0 <= ((sqfs_u64)1 << 40));
	if (verif_nd_bool("data_is_null")) {
		g_data0 = NULL;
	} else {
		/* the caller's buffer: size bytes (capped object, symbolic size) */
		bufsz = g_size0 ? g_size0 : 1;
		g_data0 = malloc(bufsz);
		VERIF_ASSUME(g_data0 != NULL);
	}

	ret = sqfs_block_processor_append(&g_p.proc, g_data0, g_size0);

	/* ---------------------------------------------------------------- */
	pend = g_pos0 + g_size0;

	if (g_inode_arg != NULL)
		VERIF_ASSERT(g_setsize_calls == 1 && g_fsize_set == g_fsize0 + g_size0,
			     "C01.bp.file_size");
	else
		VERIF_ASSERT(g_setsize_calls == 0, "C01.bp.file_size");

	VERIF_ASSERT((ret == 0) == (g_faults == 0), "C01.bp.fail_stop");

	if (ret == 0) {
		VERIF_ASSERT(g_done == g_size0, "C01.bp.bytes_in_order");
		VERIF_ASSERT(g_p.proc.stats.input_bytes_read == g_read0 + g_size0,
			     "C01.bp.bytes_in_order");
		VERIF_ASSERT(g_submitted == P_IDX(pend) - P_IDX(g_pos0),
			     "C01.bp.blocks_full");
		if (P_OFF(pend) == 0) {
			VERIF_ASSERT(g_p.proc.blk_current == NULL && !g_live &&
				     g_p.proc.blk_index == P_IDX(pend),
				     "C01.bp.blocks_full");
		} else {
			VERIF_ASSERT(g_p.proc.blk_current == &g_blk.b && g_live &&
				     g_blk.b.index == P_IDX(pend) &&
				     g_blk.b.size == P_OFF(pend) &&
				     g_p.proc.blk_index == P_IDX(pend) + 1 &&
				     g_blk.b.inode == g_inode_arg,
				     "C01.bp.blocks_full");
		}
	}

	VERIF_COVER(ret == 0 && g_size0 == 0);
	VERIF_COVER(ret == 0 && g_submitted >= 3);
	VERIF_COVER(ret == 0 && g_data0 == NULL && g_size0 > 0);
	VERIF_COVER(ret == 0 && P_OFF(pend) == 0 && g_size0 > 0);
	VERIF_COVER(ret == 0 && g_deq_calls > 0);
	VERIF_COVER(ret != 0);
}
