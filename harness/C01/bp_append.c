/* C01: sqfs_block_processor_append (lib/sqfs/src/block_processor/frontend.c)
 * - where every input byte of a file goes. Unbounded: `size` is any value
 * <= 2^40 (0 included), the copy loop is closed by a loop contract
 * (contracts/loops/C01_w14.tbl); the state at entry is arbitrary within the
 * front end's invariant: no current block, or one with 0 < fill < block size
 * (a block is only fetched when there is a byte to put into it);
 * data may be NULL (zero fill); with or without inode.
 *
 * Modular (w14): get_new_block and enqueue_block are REPLACED by their
 * contracts GNB / ENQ (w14_bp_model.h, goto-instrument --replace-calls in a
 * pre-pass); the real bodies are proved against the same contracts in
 * w14_bp_get_new_block.c / w14_bp_enqueue.c. The loop invariant is therefore
 * only the arithmetic identity  index * BS + fill == pos0 + done.
 *
 * memcpy/memset are checking stubs that advance the ghost input cursor g_done.
 *
 * File position P = BS * (index of the block being filled) + its fill.
 *
 *  ensures  C01.bp.append_safe   every copy stays inside the block's BS
 *              payload bytes and inside the caller's [data, data + size) for
 *              every (size, data, current block) - incl. size 0 without a
 *              current block. Both ranges are checked arithmetically at the
 *              copy (payload and buffer are address ranges anchored at small
 *              objects, see w14_bp_model.h; --pointer-overflow-check is off
 *              for this harness, all other cbmc memory checks are on)
 *           C01.bp.bytes_in_order  the k-th copy takes the input bytes
 *              [done, done + n) - no gap, no overlap - and puts them at
 *              in-block offset P % BS of the block with index P / BS,
 *              never across a block end; success ==> done == size
 *           C01.bp.blocks_full   only full blocks are submitted, with
 *              consecutive indices, each exactly once, the first-block mark
 *              on index 0 and only there; afterwards the current block (if
 *              any) is the one holding position P with fill P % BS < BS
 *           C01.bp.file_size     the inode's file size grows by exactly `size`
 *           C01.bp.fail_stop     a callee failure is returned, and only that
 *           C01.bp.one_block_in_hand  a new block is only asked for when the
 *              previous one was handed over
 *           terminates           (decreases clause)
 */
/* block size = 2^BS_LOG; positions are split with shifts and masks (a 64 bit
 * division circuit per clause makes the SAT problem needlessly hard) */
#ifndef BS_LOG
#define BS_LOG 12
#endif
#define P_IDX(p) ((sqfs_u64)(p) >> BS_LOG)
#define P_OFF(p) ((sqfs_u64)(p) & (BS - 1))

#ifndef HAVE_CUR
#define HAVE_CUR 1
#endif

#define FIRST ((sqfs_u32)SQFS_BLK_FIRST_BLOCK)

#include "lib/sqfs/src/block_processor/internal.h"

/* ghosts named in the loop contract */
size_t g_size0, g_done;
const char *g_data0;
sqfs_u64 g_pos0;		/* file position at entry */
sqfs_u64 g_read0;		/* stats.input_bytes_read at entry */
sqfs_inode_generic_t **g_inode_arg;
sqfs_u32 g_user_flags;

/* what append promises about every block it hands to enqueue_block */
static void w14_enq_monitor(const sqfs_block_t *blk);
#define W14_ENQ_MONITOR(blk) w14_enq_monitor(blk)

#define W14_BP_CALLER_STUBS
#include "w14_bp_model.h"

static void *c01_memcpy(void *dst, const void *src, size_t n);
static void *c01_memset(void *dst, int c, size_t n);
#define memcpy c01_memcpy
#define memset c01_memset
#include "lib/sqfs/src/block_processor/frontend.c"
#undef memcpy
#undef memset

static sqfs_inode_generic_t *g_slot;
static const char g_data_anchor[1];
static sqfs_u64 g_fsize0, g_fsize_set;
static unsigned g_setsize_calls;

static void w14_enq_monitor(const sqfs_block_t *blk)
{
	VERIF_ASSERT(blk->size == BS &&
		     blk->index == P_IDX(g_pos0) + g_submitted &&
		     blk->inode == g_inode_arg, "C01.bp.blocks_full");
	VERIF_ASSERT((blk->flags & ~FIRST) == g_user_flags &&
		     ((blk->flags & FIRST) != 0) == (blk->index == 0),
		     "C01.bp.blocks_full");
}

static void copy_pre(void *dst, size_t n)
{
	sqfs_u64 p = g_pos0 + g_done;

	VERIF_ASSERT(g_live && g_p.proc.blk_current == &g_blk.b,
		     "C01.bp.bytes_in_order");
	VERIF_ASSERT(n > 0 && n <= g_size0 - g_done, "C01.bp.bytes_in_order");
	VERIF_ASSERT(g_blk.b.index == P_IDX(p) && g_blk.b.size == P_OFF(p) &&
		     dst == (void *)(g_blk.b.data + g_blk.b.size),
		     "C01.bp.bytes_in_order");
	/* inside the block's BS payload bytes (capacity: GNB) */
	VERIF_ASSERT(g_blk.b.size < BS && n <= BS - g_blk.b.size,
		     "C01.bp.append_safe");
}

static void *c01_memcpy(void *dst, const void *src, size_t n)
{
	copy_pre(dst, n);
	VERIF_ASSERT(g_data0 != NULL && src == (const void *)(g_data0 + g_done),
		     "C01.bp.bytes_in_order");
	/* inside the caller's [data, data + size) */
	VERIF_ASSERT(g_done < g_size0 && n <= g_size0 - g_done,
		     "C01.bp.append_safe");
	g_done += n;
	return dst;
}

static void *c01_memset(void *dst, int c, size_t n)
{
	/* zero fill for data == NULL (the header clearing memset is in
	 * get_new_block, which is replaced here) */
	copy_pre(dst, n);
	VERIF_ASSERT(g_data0 == NULL && c == 0, "C01.bp.bytes_in_order");
	g_done += n;
	return dst;
}

int dequeue_block(sqfs_block_processor_t *proc)
{
	(void)proc;
	VERIF_ASSERT(0, "C01.bp.env_unreachable");
	return 0;
}

void *alloc_flex(size_t a, size_t b, size_t c)
{
	(void)a; (void)b; (void)c;
	VERIF_ASSERT(0, "C01.bp.env_unreachable");
	return NULL;
}

int sqfs_inode_get_file_size(const sqfs_inode_generic_t *inode, sqfs_u64 *size)
{
	VERIF_ASSERT(inode == g_slot, "C01.bp.file_size");
	*size = g_fsize0;
	return 0;
}

int sqfs_inode_set_file_size(sqfs_inode_generic_t *inode, sqfs_u64 size)
{
	VERIF_ASSERT(inode == g_slot, "C01.bp.file_size");
	g_setsize_calls += 1;
	g_fsize_set = size;
	return 0;
}

int sqfs_inode_set_frag_location(sqfs_inode_generic_t *inode, sqfs_u32 index,
				 sqfs_u32 offset)
{
	(void)inode; (void)index; (void)offset;
	return 0;
}

void harness(void)
{
	/* the inode is opaque to append (only handed to the inode helpers); a
	 * small stand-in object keeps the points-to split of cbmc cheap */
	static long inode_standin;
	sqfs_u32 index0, fill0;
	sqfs_u64 pend;
	int ret;

	g_done = 0;
	g_faults = g_submitted = 0;
	g_setsize_calls = 0;

	g_p.proc.max_block_size = BS;
	g_p.proc.begin_called = true;
	g_p.proc.pool = NULL;		/* only enqueue_block touches the pool */
	g_p.proc.file = NULL;
	g_p.proc.uncmp = NULL;
	g_p.proc.user = NULL;
	g_p.proc.free_list = NULL;
	g_p.proc.max_backlog = verif_nd_size("max_backlog");
	VERIF_ASSUME(g_p.proc.max_backlog >= 3);
	g_p.proc.backlog = verif_nd_size("backlog");
	VERIF_ASSUME(g_p.proc.backlog <= g_p.proc.max_backlog);

	g_slot = (sqfs_inode_generic_t *)&inode_standin;
	g_inode_arg = verif_nd_bool("with_inode") ? &g_slot : NULL;
	g_p.proc.inode = g_inode_arg;
	g_fsize0 = verif_nd_u64("file_size");
	g_read0 = verif_nd_u64("input_bytes_read");
	g_p.proc.stats.input_bytes_read = g_read0;

	g_user_flags = verif_nd_u32("user_flags") & SQFS_BLK_USER_SETTABLE_FLAGS;
	index0 = verif_nd_u32("blk_index");
	fill0 = verif_nd_u32("fill");
	/* block list of a file stays below 2^30 entries (set_block_size) */
	VERIF_ASSUME(index0 < (1u << 30));
	g_blk.b.next = NULL;
	g_blk.b.user = NULL;
	g_blk.b.io_seq_num = verif_nd_u32("stale");
	g_blk.b.checksum = verif_nd_u32("stale");
#if HAVE_CUR
	VERIF_ASSUME(index0 >= 1 && fill0 >= 1 && fill0 < BS);
	g_blk.b.index = index0 - 1;
	g_blk.b.size = fill0;
	g_blk.b.inode = g_inode_arg;
	g_blk.b.flags = g_user_flags | (index0 == 1 ? FIRST : 0);
	g_p.proc.blk_current = &g_blk.b;
	g_p.proc.blk_flags = g_user_flags;
	g_live = 1;
	g_pos0 = ((sqfs_u64)(index0 - 1) << BS_LOG) + fill0;
#else
	g_blk.b.index = verif_nd_u32("stale");
	g_blk.b.size = verif_nd_u32("stale");
	g_blk.b.inode = NULL;
	g_blk.b.flags = verif_nd_u32("stale");
	g_p.proc.blk_current = NULL;
	g_p.proc.blk_flags = g_user_flags | (index0 == 0 ? FIRST : 0);
	g_live = 0;
	g_pos0 = (sqfs_u64)index0 << BS_LOG;
#endif
	g_p.proc.blk_index = index0;

	g_size0 = verif_nd_size("size");
	VERIF_ASSUME(g_size0 <= ((sqfs_u64)1 << 40));
	/* the caller's buffer [data, data + size) is an address range anchored
	 * at a one-byte object: the copies are checked against the range
	 * arithmetically (C01.bp.append_safe in c01_memcpy); a real object of
	 * symbolic size would sit in cbmc's points-to split of the loop-havocked
	 * pointers as an unbounded array (measured: + 2.4M variables) */
	g_data0 = verif_nd_bool("data_is_null") ? NULL : g_data_anchor;

	ret = sqfs_block_processor_append(&g_p.proc, g_data0, g_size0);

	/* ---------------------------------------------------------------- */
	pend = g_pos0 + g_size0;

	if (g_inode_arg != NULL)
		VERIF_ASSERT(g_setsize_calls == 1 && g_fsize_set == g_fsize0 + g_size0,
			     "C01.bp.file_size");
	else
		VERIF_ASSERT(g_setsize_calls == 0, "C01.bp.file_size");

	VERIF_ASSERT((ret == 0) == (g_faults == 0), "C01.bp.fail_stop");

	if (ret == 0) {
		VERIF_ASSERT(g_done == g_size0, "C01.bp.bytes_in_order");
		VERIF_ASSERT(g_p.proc.stats.input_bytes_read == g_read0 + g_size0,
			     "C01.bp.bytes_in_order");
		VERIF_ASSERT(g_submitted == P_IDX(pend) - P_IDX(g_pos0),
			     "C01.bp.blocks_full");
		VERIF_ASSERT((g_p.proc.blk_flags & ~FIRST) == g_user_flags &&
			     ((g_p.proc.blk_flags & FIRST) != 0) ==
			     (g_p.proc.blk_index == 0), "C01.bp.blocks_full");
		if (P_OFF(pend) == 0) {
			VERIF_ASSERT(g_p.proc.blk_current == NULL && !g_live &&
				     g_p.proc.blk_index == P_IDX(pend),
				     "C01.bp.blocks_full");
		} else {
			VERIF_ASSERT(g_p.proc.blk_current == &g_blk.b && g_live &&
				     g_blk.b.index == P_IDX(pend) &&
				     g_blk.b.size == P_OFF(pend) &&
				     g_p.proc.blk_index == P_IDX(pend) + 1 &&
				     g_blk.b.inode == g_inode_arg &&
				     (g_blk.b.flags & ~FIRST) == g_user_flags &&
				     ((g_blk.b.flags & FIRST) != 0) ==
				     (g_blk.b.index == 0),
				     "C01.bp.blocks_full");
		}
	}

	VERIF_COVER(ret == 0 && g_size0 == 0);
	VERIF_COVER(ret == 0 && g_submitted >= 3);
	VERIF_COVER(ret == 0 && g_data0 == NULL && g_size0 > 0);
	VERIF_COVER(ret == 0 && P_OFF(pend) == 0 && g_size0 > 0);
	VERIF_COVER(ret == 0 && P_OFF(pend) != 0 && g_submitted >= 1);
	VERIF_COVER(ret != 0);
}
