/* C01.packfile.kinds: bin/gensquashfs/src/fstree_from_file.c handle_line()
 * hands fstree_add_generic() / glob_files() an entry that is what the line
 * says - one run per keyword of the pack file format (-DKEYWORD, concrete:
 * dir slink link nod pipe sock file glob), the numeric fields symbolic
 * (parse_uint / parse_uint_oct are contracts: any value inside the range
 * asked for, or failure), options symbolic.
 *
 * Expected kind per keyword (from the format description in
 * doc/gensquashfs.1 / the property text, NOT from the table in the code):
 *   dir  S_IFDIR   slink S_IFLNK   link S_IFLNK + HARD_LINK flag
 *   nod  S_IFCHR / S_IFBLK by the c|b argument, rdev = makedev(maj, min)
 *   pipe S_IFIFO   sock S_IFSOCK   file S_IFREG   glob: mode bits only
 *
 *   C01.packfile.kinds.mode     entry mode = type bits of the keyword |
 *                               the permission bits parsed from the line
 *   C01.packfile.kinds.flags    entry flags = HARD_LINK exactly for `link`
 *   C01.packfile.fields.owner   uid / gid = the parsed numbers, or the forced
 *                               ids when the options say so
 *   C01.packfile.fields.mtime   mtime = the tree default
 *   C01.packfile.fields.name    name = the canonical path
 *   C01.packfile.fields.extra   the extra argument (link target / input
 *                               file) handed on is the line's; `file`
 *                               without one uses the entry name
 *   C01.packfile.fields.rdev    nod: rdev = makedev(major, minor)
 *   C01.packfile.one_sink       at most one entry per line
 */
#include <stdlib.h>
#include <string.h>
#include <stdio.h>
#include <stddef.h>
#include "verif.h"

#define PATH_LEN 3
#ifndef KW
#define KW 0
#endif
/* keyword table of the pack file format */
#if KW == 0
#define KEYWORD "dir"
#define EXP_MODE S_IFDIR
#elif KW == 1
#define KEYWORD "slink"
#define EXP_MODE S_IFLNK
#elif KW == 2
#define KEYWORD "link"
#define EXP_MODE S_IFLNK
#define EXP_HARD 1
#elif KW == 3
#define KEYWORD "nod"
#define EXP_MODE 0
#define IS_NOD 1
#elif KW == 4
#define KEYWORD "pipe"
#define EXP_MODE S_IFIFO
#elif KW == 5
#define KEYWORD "sock"
#define EXP_MODE S_IFSOCK
#elif KW == 6
#define KEYWORD "file"
#define EXP_MODE S_IFREG
#define IS_FILE 1
#else
#define KEYWORD "glob"
#define EXP_MODE 0
#define IS_GLOB 1
#endif
#ifndef EXP_HARD
#define EXP_HARD 0
#endif
#ifndef IS_NOD
#define IS_NOD 0
#endif
#ifndef IS_FILE
#define IS_FILE 0
#endif
#ifndef IS_GLOB
#define IS_GLOB 0
#endif
#ifndef NODTYPE
#define NODTYPE "c"
#endif

#include "bin/gensquashfs/src/mkfs.h"

static int g_sink_calls, g_cn_calls;
static char g_path[PATH_LEN + 1];
static sqfs_u64 g_oct, g_uint[4];
static unsigned g_oct_calls, g_uint_calls;
static char g_extra[] = "tgt";
static const char *g_seen_extra;
static struct { sqfs_dir_entry_t e; char name[PATH_LEN + 1]; } g_ent;
static const options_t *g_opt;
static const fstree_t *g_fs;
static bool g_have_extra;

int canonicalize_name(char *filename)
{
	(void)filename;
	g_cn_calls += 1;
	return verif_nd_bool("canon_refuses") ? -1 : 0;
}

static void sink(const sqfs_dir_entry_t *ent, const char *extra)
{
	sqfs_u64 uid, gid;
	unsigned exp_mode = EXP_MODE;
	size_t i;
	int same = 1;

	g_sink_calls += 1;
	g_seen_extra = extra;
	if (IS_NOD)
		exp_mode = (NODTYPE[0] == 'c' || NODTYPE[0] == 'C') ? S_IFCHR : S_IFBLK;
	VERIF_ASSERT(g_oct_calls == 1 && ent->mode == (exp_mode | (unsigned)g_oct),
		     "C01.packfile.kinds.mode");
	VERIF_ASSERT(ent->flags == (EXP_HARD ? SQFS_DIR_ENTRY_FLAG_HARD_LINK : 0),
		     "C01.packfile.kinds.flags");
	uid = (g_opt->dirscan_flags & DIR_SCAN_KEEP_UID) ? g_uint[0] : g_opt->force_uid_value;
	gid = (g_opt->dirscan_flags & DIR_SCAN_KEEP_GID) ? g_uint[1] : g_opt->force_gid_value;
	VERIF_ASSERT(g_uint_calls >= 2 && ent->uid == uid && ent->gid == gid,
		     "C01.packfile.fields.owner");
	VERIF_ASSERT(ent->mtime == g_fs->defaults.mtime, "C01.packfile.fields.mtime");
	for (i = 0; i <= PATH_LEN; ++i) {
		if (ent->name[i] != g_path[i])
			same = 0;
	}
	VERIF_ASSERT(same && g_cn_calls == 1, "C01.packfile.fields.name");
	if (IS_NOD)
		VERIF_ASSERT(g_uint_calls == 4 && ent->rdev == makedev(g_uint[2], g_uint[3]),
			     "C01.packfile.fields.rdev");
	if (!IS_GLOB) {
		if (g_have_extra)
			VERIF_ASSERT(extra == g_extra, "C01.packfile.fields.extra");
		else if (IS_FILE)
			VERIF_ASSERT(extra == ent->name, "C01.packfile.fields.extra");
		else
			VERIF_ASSERT(extra == NULL, "C01.packfile.fields.extra");
	}
}

tree_node_t *fstree_add_generic(fstree_t *fs, const sqfs_dir_entry_t *ent,
				const char *extra)
{
	static tree_node_t node;
	(void)fs;
	sink(ent, extra);
	return verif_nd_bool("add_fails") ? NULL : &node;
}

int glob_files(fstree_t *fs, const char *filename, size_t line_num,
	       const sqfs_dir_entry_t *ent, const char *basepath,
	       unsigned int glob_flags, split_line_t *extra)
{
	(void)fs; (void)filename; (void)line_num; (void)basepath;
	(void)glob_flags; (void)extra;
	VERIF_ASSERT(IS_GLOB, "C01.packfile.kinds.glob_only_for_glob");
	sink(ent, NULL);
	return verif_nd_bool("glob_fails") ? -1 : 0;
}

int parse_uint_oct(const char *in, size_t len, size_t *diff,
		   sqfs_u64 vmin, sqfs_u64 vmax, sqfs_u64 *out)
{
	(void)in; (void)len; (void)diff;
	g_oct_calls++;
	if (verif_nd_bool("oct_fails"))
		return -1;
	g_oct = verif_nd_u64("oct");
	VERIF_ASSUME(g_oct >= vmin && g_oct <= vmax);
	*out = g_oct;
	return 0;
}

int parse_uint(const char *in, size_t len, size_t *diff,
	       sqfs_u64 vmin, sqfs_u64 vmax, sqfs_u64 *out)
{
	sqfs_u64 v;
	(void)in; (void)len; (void)diff;
	if (verif_nd_bool("uint_fails"))
		return -1;
	v = verif_nd_u64("uint");
	VERIF_ASSUME(v >= vmin && v <= vmax);
	if (g_uint_calls < 4)
		g_uint[g_uint_calls] = v;
	g_uint_calls++;
	*out = v;
	return 0;
}

void split_line_remove_front(split_line_t *sep, size_t count)
{
	size_t i;
	VERIF_ASSERT(count <= sep->count, "C01.env.remove_front_pre");
	for (i = count; i < sep->count; ++i)
		sep->args[i - count] = sep->args[i];
	sep->count -= count;
}

void *alloc_flex(size_t base_size, size_t item_size, size_t nmemb)
{
	VERIF_ASSERT(base_size == sizeof(sqfs_dir_entry_t) && item_size == 1 &&
		     nmemb <= PATH_LEN + 1, "C01.env.alloc_size");
	if (verif_nd_bool("alloc_fails"))
		return NULL;
	memset(&g_ent, 0, sizeof(g_ent));
	return &g_ent;
}

#ifndef VERIF_REPLAY
void free(void *p) { (void)p; }
int fprintf(FILE *stream, const char *format, ...) { (void)stream; (void)format; return 0; }
int fputs(const char *s, FILE *stream) { (void)s; (void)stream; return 0; }
char *strerror(int e) { (void)e; return "err"; }
/* glibc makedev(): assumed pure function of its arguments */
unsigned long gnu_dev_makedev(unsigned int ma, unsigned int mi)
{
	return ((unsigned long)ma << 8) | mi;
}
#endif

#include "bin/gensquashfs/src/fstree_from_file.c"

void harness(void)
{
	static struct { split_line_t l; char *args[9]; } line;
	static fstree_t fs;
	static options_t opt;
	static char kw[] = KEYWORD;
	static char a2[] = "0644", a3[] = "0", a4[] = "0", nt[] = NODTYPE, a6[] = "1", a7[] = "2";
	size_t i, n = 0;
	int ret;

	g_sink_calls = g_cn_calls = 0;
	g_oct_calls = g_uint_calls = 0;
	for (i = 0; i < PATH_LEN; ++i) {
		uint8_t b = verif_nd_u8("path");
		VERIF_ASSUME(b != 0);
		memcpy(&g_path[i], &b, 1);
	}
	g_path[PATH_LEN] = 0;

	line.l.args[n++] = kw;
	line.l.args[n++] = g_path;
	line.l.args[n++] = a2;
	line.l.args[n++] = a3;
	line.l.args[n++] = a4;
	if (IS_NOD) {
		line.l.args[n++] = nt;
		line.l.args[n++] = a6;
		line.l.args[n++] = a7;
	}
	g_have_extra = verif_nd_bool("have_extra");
	if (g_have_extra)
		line.l.args[n++] = g_extra;
	line.l.count = n;
	opt.dirscan_flags = verif_nd_u32("dirscan_flags");
	opt.force_uid_value = verif_nd_u32("fuid");
	opt.force_gid_value = verif_nd_u32("fgid");
	opt.packdir = NULL;
	fs.defaults.mtime = verif_nd_u32("mtime");
	g_opt = &opt;
	g_fs = &fs;

	ret = handle_line(&fs, "f", 1, &line.l, &opt);

	VERIF_COVER(g_sink_calls == 1 && ret == 0);
	VERIF_COVER(ret == -1);
	VERIF_ASSERT(g_sink_calls <= 1, "C01.packfile.one_sink");
	VERIF_ASSERT(ret == 0 ? g_sink_calls == 1 : 1, "C01.packfile.one_sink");
}
