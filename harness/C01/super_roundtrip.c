/* C01.super.roundtrip: sqfs_super_read (lib/sqfs/src/read_super.c) applied to
 * the 96 bytes sqfs_super_write (lib/sqfs/src/write_super.c) put at offset 0
 * returns the super block that was written - every field symbolic within
 * wf_super (what sqfs_super_init establishes and the writer maintains: magic,
 * version 4.0, block size 2^block_log in [4 KiB, 1 MiB], compressor id in
 * range, at least one id). File contract: write_at stores the bytes, read_at
 * returns the stored bytes (both may be asked only for offset 0, 96 bytes).
 * The only loop runs block_log <= 20 times (a constant of the code): proved.
 *
 *   C01.super.roundtrip.write_ok / read_ok
 *   C01.super.roundtrip.fields     all 19 fields equal
 *   C01.super.roundtrip.placement  exactly 96 bytes at offset 0, both ways
 */
#include <stdlib.h>
#include <string.h>
#include "verif.h"
#include "sqfs/predef.h"
#include "sqfs/io.h"
#include "lib/sqfs/src/write_super.c"
#include "lib/sqfs/src/read_super.c"

static sqfs_u8 g_img[sizeof(sqfs_super_t)];
static unsigned g_wr_calls, g_rd_calls;
static bool g_place_ok;

int stub_write_at(sqfs_file_t *f, sqfs_u64 off, const void *buf, size_t n)
{
	(void)f;
	g_wr_calls++;
	if (off != 0 || n != sizeof(g_img)) {
		g_place_ok = false;
		return SQFS_ERROR_IO;
	}
	VERIF_ASSERT(VERIF_R_OK(buf, n), "C01.env.write_at.readable");
	(memcpy)(g_img, buf, sizeof(g_img));
	return 0;
}

int stub_read_at(sqfs_file_t *f, sqfs_u64 off, void *buf, size_t n)
{
	(void)f;
	g_rd_calls++;
	if (off != 0 || n != sizeof(g_img)) {
		g_place_ok = false;
		return SQFS_ERROR_IO;
	}
	VERIF_ASSERT(VERIF_W_OK(buf, n), "C01.env.read_at.writable");
	(memcpy)(buf, g_img, sizeof(g_img));
	return 0;
}

#define FIELDS(X) X(magic) X(inode_count) X(modification_time) X(block_size) \
	X(fragment_entry_count) X(compression_id) X(block_log) X(flags) X(id_count) \
	X(version_major) X(version_minor) X(root_inode_ref) X(bytes_used) \
	X(id_table_start) X(xattr_id_table_start) X(inode_table_start) \
	X(directory_table_start) X(fragment_table_start) X(export_table_start)

void harness(void)
{
	static sqfs_file_t file;
	sqfs_super_t s, r;
	unsigned lg = verif_nd_u8("block_log");
	int ret;

	g_wr_calls = g_rd_calls = 0;
	g_place_ok = true;
	file.write_at = stub_write_at;
	file.read_at = stub_read_at;
#define X(f) s.f = (__typeof__(s.f))(verif_nd_u64("super") & \
		(sizeof(s.f) == 8 ? ~0ULL : ((1ULL << (8 * (sizeof(s.f) & 7))) - 1)));
	FIELDS(X)
#undef X
	VERIF_ASSUME(lg >= 12 && lg <= 20);
	s.magic = SQFS_MAGIC;
	s.version_major = SQFS_VERSION_MAJOR;
	s.version_minor = SQFS_VERSION_MINOR;
	s.block_log = (sqfs_u16)lg;
	s.block_size = 1u << lg;
	VERIF_ASSUME(s.compression_id >= SQFS_COMP_MIN && s.compression_id <= SQFS_COMP_MAX);
	VERIF_ASSUME(s.id_count >= 1);
	(memset)(&r, 0, sizeof(r));

	ret = sqfs_super_write(&s, &file);
	VERIF_ASSERT(ret == 0, "C01.super.roundtrip.write_ok");
	ret = sqfs_super_read(&r, &file);
	VERIF_ASSERT(ret == 0, "C01.super.roundtrip.read_ok");
	VERIF_ASSERT(g_place_ok && g_wr_calls == 1 && g_rd_calls == 1,
		     "C01.super.roundtrip.placement");
#define X(f) VERIF_ASSERT(r.f == s.f, "C01.super.roundtrip.fields");
	FIELDS(X)
#undef X
	VERIF_COVER(ret == 0 && lg == 17);
}
