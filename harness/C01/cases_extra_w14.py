# C01 (worker w14): block processor front end, proved modularly
# (w14_bp_model.h states the contracts GNB / ENQ).
FUNCTIONS = [
    "sqfs_block_processor_append (get_new_block / enqueue_block replaced by their contracts)",
]
TRUSTED = []
ASSUMPTIONS = []

_REPL = ["--replace-calls", "get_new_block:c01_get_new_block",
         "--replace-calls", "enqueue_block:c01_enqueue_block"]

HARNESSES = [
    dict(name="bp_append", file="bp_append.c", label="proved", timeout=600,
         loops=["sqfs_block_processor_append"], loop_tables=["C01_w14"],
         pre_instrument_flags=_REPL,
         cases=[dict(id="cur%d_bs%d" % (c, 1 << lg), defines={"HAVE_CUR": c, "BS_LOG": lg},
                     tier="quick" if lg == 12 else "thorough")
                for lg in (12, 17, 20) for c in (0, 1)]),
]
