# C01 (worker w14): block processor front end, proved modularly.
# w14_bp_model.h states the two callee contracts GNB (get_new_block) and ENQ
# (enqueue_block) once: the callee harnesses prove the real bodies against
# them, the caller harnesses (append, add_sentinel_block) run with the callees
# REPLACED by stubs that are those contracts (goto-instrument --replace-calls
# in a pre-pass, so --apply-loop-contracts never sees the real callee bodies).
FUNCTIONS = [
    "sqfs_block_processor_append (get_new_block / enqueue_block replaced by their contracts; unbounded, loop contract)",
    "get_new_block (unbounded, loop contract on the back-pressure loop)",
    "enqueue_block",
    "add_sentinel_block (callees replaced by their contracts)",
]
TRUSTED = [
    "dequeue_block as seen by get_new_block: fails, or the backlog strictly decreases; may refill the free list",
    "thread_pool_t.submit / get_status: any result",
]
ASSUMPTIONS = [
    "bp_append: one append call adds at most 2^40 bytes and the file's block index stays below 2^30 "
    "before it (blk_index is 32 bit; set_block_size bounds the block list)",
    "bp_append / w14_bp_*: block payloads and the caller's data buffer are address ranges, not cbmc "
    "objects of that size; every copy is checked against the range arithmetically (C01.bp.append_safe, "
    "C01.bp.enqueue.copy) and the capacity BS is the checked argument of the real malloc "
    "(C01.bp.get_new_block.capacity); --pointer-overflow-check is off for bp_append only",
    "the front end holds at most one block at a time (asserted: C01.bp.one_block_in_hand), so one block "
    "object stands for every block get_new_block delivers to append",
]

_REPL = ["--replace-calls", "get_new_block:c01_get_new_block",
         "--replace-calls", "enqueue_block:c01_enqueue_block"]
_BS = (12, 17, 20)


def _tier(lg):
    return "quick" if lg == 12 else "thorough"


HARNESSES = [
    dict(name="bp_append", file="bp_append.c", label="proved", timeout=600,
         loops=["sqfs_block_processor_append"], loop_tables=["C01_w14"],
         pre_instrument_flags=_REPL,
         # --conversion-check: "blk_flags &= ~SQFS_BLK_FIRST_BLOCK" converts the int
         # mask to unsigned (defined, intended; same exclusion as C13 bp_append).
         # --pointer-overflow-check: the data buffer and the block payload are
         # address ranges anchored at small objects (see bp_append.c); cbmc 6.11's
         # check also reports "pointer outside object bounds", which the named
         # obligations C01.bp.append_safe state arithmetically instead.
         nochecks=["--conversion-check", "--pointer-overflow-check"],
         must_have=["C01.bp.append_safe", "C01.bp.bytes_in_order", "C01.bp.blocks_full",
                    "C01.bp.file_size", "C01.bp.fail_stop", "C01.bp.one_block_in_hand"],
         cases=[dict(id="cur%d_bs%d" % (c, 1 << lg), defines={"HAVE_CUR": c, "BS_LOG": lg},
                     tier=_tier(lg))
                for lg in _BS for c in (0, 1)]),
    dict(name="bp_get_new_block", file="w14_bp_get_new_block.c", label="proved", timeout=300,
         loops=["get_new_block"], loop_tables=["C01_w14"],
         must_have=["C01.bp.get_new_block.fresh", "C01.bp.get_new_block.capacity",
                    "C01.bp.get_new_block.zeroed", "C01.bp.get_new_block.backlog",
                    "C01.bp.get_new_block.fail_stop"],
         cases=[dict(id="bs%d" % (1 << lg), defines={"BS_LOG": lg}, tier=_tier(lg)) for lg in _BS]),
    dict(name="bp_enqueue", file="w14_bp_enqueue.c", label="proved", timeout=300,
         fp={"submit": "stub_submit", "get_status": "stub_get_status"},
         must_have=["C01.bp.enqueue.submitted", "C01.bp.enqueue.copy", "C01.bp.enqueue.fail_stop"],
         cases=[dict(id="readback%d_bs%d" % (rb, 1 << lg), defines={"WITH_READBACK": rb, "BS_LOG": lg},
                     tier=_tier(lg))
                for lg in _BS for rb in (0, 1)]),
    dict(name="bp_sentinel", file="w14_bp_sentinel.c", label="proved", timeout=300,
         pre_instrument_flags=_REPL,
         must_have=["C01.bp.sentinel.block", "C01.bp.sentinel.fail_stop", "C01.bp.sentinel.frame"],
         cases=[dict(id="all", tier="quick")]),
]
