# C01 (worker w14): block processor front end, proved modularly
# (w14_bp_model.h states the contracts GNB / ENQ).
FUNCTIONS = [
    "sqfs_block_processor_append (get_new_block / enqueue_block replaced by their contracts)",
]
TRUSTED = []
ASSUMPTIONS = []

_REPL = ["--replace-calls", "get_new_block:c01_get_new_block",
         "--replace-calls", "enqueue_block:c01_enqueue_block"]

HARNESSES = [
    dict(name="bp_append", file="bp_append.c", label="proved", timeout=600,
         loops=["sqfs_block_processor_append"], loop_tables=["C01_w14"],
         pre_instrument_flags=_REPL,
         # --conversion-check: "blk_flags &= ~SQFS_BLK_FIRST_BLOCK" converts the int
         # mask to unsigned (defined, intended; same exclusion as C13 bp_append).
         # --pointer-overflow-check: the data buffer and the block payload are
         # address ranges anchored at small objects (see bp_append.c); cbmc 6.11's
         # check also reports "pointer outside object bounds", which the named
         # obligations C01.bp.append_safe state arithmetically instead.
         nochecks=["--conversion-check", "--pointer-overflow-check"],
         cases=[dict(id="cur%d_bs%d" % (c, 1 << lg), defines={"HAVE_CUR": c, "BS_LOG": lg},
                     tier="quick" if lg == 12 else "thorough")
                for lg in (12, 17, 20) for c in (0, 1)]),
]
