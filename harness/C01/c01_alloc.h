/*
 * c01_alloc.h - allocation contract for the C01 round-trip harnesses:
 * malloc/calloc/realloc/alloc_flex/alloc_array return a fresh object of the
 * requested size (calloc/alloc_*: zeroed). Allocation failure is C13's
 * subject and not modelled here. A size that equals one of the constants in
 * C01_SIZES is served with that constant (cbmc needs compile-time object
 * sizes; a merely-equal computed size gives a symbolic-size object on which
 * copies silently lose data). Other sizes are served as requested.
 * The redirection is a macro in front of the verbatim #include.
 */
#ifndef C01_ALLOC_H
#define C01_ALLOC_H
#include <stdlib.h>
#include <string.h>
#include <errno.h>
#ifndef C01_SIZES
#define C01_SIZES 0
#endif
static long g_live;

static void *c01_raw_alloc(size_t n, int zero)
{
#ifndef VERIF_REPLAY
	static const size_t sizes[] = { C01_SIZES };
	unsigned i;

	for (i = 0; i < sizeof(sizes) / sizeof(sizes[0]); ++i) {
		if (sizes[i] != 0 && n == sizes[i]) {
			void *p = zero ? calloc(1, sizes[i]) : malloc(sizes[i]);
			__CPROVER_assume(p != NULL);
			return p;
		}
	}
#endif
	{
		void *p = zero ? calloc(1, n) : malloc(n);
#ifndef VERIF_REPLAY
		__CPROVER_assume(p != NULL);
#endif
		return p;
	}
}

static void *c01_malloc(size_t n) { g_live++; return c01_raw_alloc(n, 0); }
static void *c01_calloc(size_t a, size_t b) { g_live++; return c01_raw_alloc(a * b, 1); }
static void c01_free(void *p) { if (p != NULL) g_live--; free(p); }

void *alloc_flex(size_t base_size, size_t item_size, size_t nmemb)
{
	VERIF_ASSERT(item_size == 0 || nmemb <= (SIZE_MAX - base_size) / item_size,
		     "C01.env.alloc_no_overflow");
	return c01_calloc(1, base_size + item_size * nmemb);
}

void *alloc_array(size_t item_size, size_t nmemb)
{
	VERIF_ASSERT(item_size == 0 || nmemb <= SIZE_MAX / item_size,
		     "C01.env.alloc_no_overflow");
	return c01_calloc(1, item_size * nmemb);
}

#define malloc(n) c01_malloc(n)
#define calloc(a, b) c01_calloc(a, b)
#define free(p) c01_free(p)
#endif
