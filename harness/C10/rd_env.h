/*
 * rd_env.h - environment contracts of the reader side (DESIGN section 3):
 * the image (sqfs_file_t.read_at), the un-compressor (sqfs_compressor_t.
 * do_block) and checking payload copy routines. The stubs ARE the contracts:
 * they assert the callee's precondition at every call site, return every
 * outcome the contract permits, and log the call in ghost state so that a
 * harness can say which bytes the cache now holds.
 *
 * Include AFTER <string.h>/<stdlib.h> and BEFORE the real translation unit.
 * ENV_PROP must be a string literal ("C10" / "C05"): prefix of the names of
 * the environment obligations.
 *
 * The image is an arbitrary byte string. It is deterministic: one witness
 * pair (g_img_off, g_img_val) says "image[g_img_off] == g_img_val"; every
 * read_at that covers that offset delivers that value. All other delivered
 * bytes are arbitrary (short buffers are filled byte by byte from the tape,
 * long ones keep their previous - arbitrary - contents except for one more
 * arbitrary position g_k).
 */
#ifndef RD_ENV_H
#define RD_ENV_H

#include "verif.h"
#include "sqfs/predef.h"
#include "sqfs/io.h"
#include "sqfs/compressor.h"
#include "sqfs/error.h"

#ifndef ENV_PROP
#error "define ENV_PROP"
#endif
#define ENV_NAME(s) ENV_PROP ".env." s

#ifndef ENV_LOG
#define ENV_LOG 4
#endif
#ifndef ENV_SMALL
#define ENV_SMALL 40	/* read_at buffers up to this size are filled completely */
#endif
#ifndef ENV_CPY_SMALL
#define ENV_CPY_SMALL 0	/* memcpy/memset up to this size are done byte by byte */
#endif

/* ---- ghost state ------------------------------------------------------ */
typedef struct {
	sqfs_u64 off;
	void *buf;
	size_t n;
	int ret;
	sqfs_u8 vk;	/* payload reads: the byte delivered at position g_k */
} env_read_rec_t;

typedef struct {
	const sqfs_u8 *in;
	sqfs_u32 n;
	sqfs_u8 *out;
	sqfs_u32 m;
	sqfs_s32 ret;
} env_blk_rec_t;

typedef struct {
	void *dst;
	const void *src;
	size_t n;
} env_cpy_rec_t;

static sqfs_u64 g_img_off;	/* witness: image[g_img_off] == g_img_val */
static sqfs_u8 g_img_val;
static size_t g_k;		/* witness position inside a payload buffer */
static sqfs_u8 g_blk_val;	/* value do_block produced at position g_k */

static unsigned g_rd_n;		/* number of read_at calls */
static env_read_rec_t g_rd[ENV_LOG];
static unsigned g_blk_n;	/* number of do_block calls */
static env_blk_rec_t g_blk[ENV_LOG];
static unsigned g_cpy_n;	/* number of payload memcpy calls */
static env_cpy_rec_t g_cpy[ENV_LOG];
static unsigned g_set_n;	/* number of payload memset calls */
static unsigned g_env_seq;	/* total number of environment calls */

static sqfs_file_t g_file;
static sqfs_compressor_t g_cmp;

static void env_init(void)
{
	g_img_off = verif_nd_u64("img.off");
	g_img_val = verif_nd_u8("img.val");
	g_k = verif_nd_size("k");
	g_blk_val = verif_nd_u8("blk.val");
	g_rd_n = g_blk_n = g_cpy_n = g_set_n = g_env_seq = 0;
}

/* the harness can hook every environment write (cache dirty tracking) */
#ifndef ENV_ON_WRITE
#define ENV_ON_WRITE(p, n) ((void)0)
#endif

/* Which read_at destinations are payload buffers (large, only the witness
 * position is tracked) as opposed to small on-stack records that are filled
 * completely? Under CBMC the object size decides (statically known, so the
 * other branch is pruned); natively the transfer size, unless the harness
 * knows better. Both must agree for the tape to replay. */
#ifndef ENV_IS_PAYLOAD
#ifdef VERIF_REPLAY
#define ENV_IS_PAYLOAD(p, n) ((n) > ENV_SMALL)
#else
#define ENV_IS_PAYLOAD(p, n) (VERIF_OBJECT_SIZE(p) > ENV_SMALL)
#endif
#endif

/* any error a callee may report: every negative int */
static int env_nd_error(const char *tag)
{
	int e = verif_nd_int(tag);
	if (e >= 0)
		e = SQFS_ERROR_IO;
	return e;
}

/* ---- sqfs_file_t.read_at ---------------------------------------------- */
static int stub_read_at(sqfs_file_t *file, sqfs_u64 offset,
			void *buffer, size_t size)
{
	sqfs_u8 *b = buffer;
	bool fail;

	VERIF_ASSERT(file == &g_file, ENV_NAME("read_at.file"));
	VERIF_ASSERT(size == 0 || VERIF_W_OK(buffer, size),
		     ENV_NAME("read_at.buffer_writable"));
	if (g_rd_n < ENV_LOG) {
		g_rd[g_rd_n].off = offset;
		g_rd[g_rd_n].buf = buffer;
		g_rd[g_rd_n].n = size;
	}
	++g_env_seq;
	ENV_ON_WRITE(buffer, size);

	/* delivered bytes (also on failure: the buffer is then arbitrary) */
	if (!ENV_IS_PAYLOAD(buffer, size)) {
		size_t i;
		for (i = 0; i < ENV_SMALL; ++i) {
			if (i < size)
				b[i] = verif_nd_u8("read_at.byte");
		}
	} else {
		sqfs_u8 v = verif_nd_u8("read_at.vk");
		if (g_k < size)
			b[g_k] = v;
		if (g_rd_n < ENV_LOG)
			g_rd[g_rd_n].vk = v;
	}

	fail = verif_nd_bool("read_at.fail");
	if (fail) {
		int e = env_nd_error("read_at.err");
		if (g_rd_n < ENV_LOG)
			g_rd[g_rd_n].ret = e;
		++g_rd_n;
		return e;
	}
	/* determinism of the image (small reads only; a payload read is
	   identified by its log entry: offset, length, byte at g_k) */
	if (!ENV_IS_PAYLOAD(buffer, size) &&
	    g_img_off >= offset && g_img_off - offset < size)
		b[g_img_off - offset] = g_img_val;
	if (g_rd_n < ENV_LOG)
		g_rd[g_rd_n].ret = 0;
	++g_rd_n;
	return 0;
}

/* ---- sqfs_compressor_t.do_block (un-compress direction) --------------- */
static sqfs_s32 stub_do_block(sqfs_compressor_t *cmp, const sqfs_u8 *in,
			      sqfs_u32 size, sqfs_u8 *out, sqfs_u32 outsize)
{
	sqfs_s32 r;

	VERIF_ASSERT(cmp == &g_cmp, ENV_NAME("do_block.cmp"));
	VERIF_ASSERT(size == 0 || VERIF_R_OK(in, size),
		     ENV_NAME("do_block.input_readable"));
	VERIF_ASSERT(outsize == 0 || VERIF_W_OK(out, outsize),
		     ENV_NAME("do_block.output_writable"));
	++g_env_seq;
	ENV_ON_WRITE(out, outsize);

	r = verif_nd_int("do_block.ret");
	if (r > 0 && (sqfs_u32)r > outsize)
		r = (sqfs_s32)(outsize <= 0x7FFFFFFF ? outsize : 0x7FFFFFFF);
	if (r > 0 && g_k < (size_t)r)
		out[g_k] = g_blk_val;
	if (g_blk_n < ENV_LOG) {
		g_blk[g_blk_n].in = in;
		g_blk[g_blk_n].n = size;
		g_blk[g_blk_n].out = out;
		g_blk[g_blk_n].m = outsize;
		g_blk[g_blk_n].ret = r;
	}
	++g_blk_n;
	return r;
}

/* ---- checking payload copy routines ----------------------------------- */
static void *verif_memcpy(void *dst, const void *src, size_t n)
{
	VERIF_ASSERT(n == 0 || VERIF_R_OK(src, n), ENV_NAME("memcpy.src_readable"));
	VERIF_ASSERT(n == 0 || VERIF_W_OK(dst, n), ENV_NAME("memcpy.dst_writable"));
	if (g_cpy_n < ENV_LOG) {
		g_cpy[g_cpy_n].dst = dst;
		g_cpy[g_cpy_n].src = src;
		g_cpy[g_cpy_n].n = n;
	}
	++g_cpy_n;
	++g_env_seq;
	ENV_ON_WRITE(dst, n);
#ifdef VERIF_REPLAY
	return (memcpy)(dst, src, n);
#else
	if (n <= ENV_CPY_SMALL) {
		size_t i;
		for (i = 0; i < ENV_CPY_SMALL; ++i) {
			if (i < n)
				((sqfs_u8 *)dst)[i] = ((sqfs_u8 *)src)[i];
		}
	} else {
		if (g_k < n) {
			sqfs_u8 *d = dst;
			sqfs_u8 *s = (sqfs_u8 *)src;
			sqfs_u8 v = s[g_k];
			d[g_k] = v;
		}
	}
	return dst;
#endif
}

static void *verif_memset(void *dst, int c, size_t n)
{
	VERIF_ASSERT(n == 0 || VERIF_W_OK(dst, n), ENV_NAME("memset.dst_writable"));
	++g_set_n;
	++g_env_seq;
	ENV_ON_WRITE(dst, n);
#ifdef VERIF_REPLAY
	return (memset)(dst, c, n);
#else
	if (n <= ENV_CPY_SMALL) {
		size_t i;
		for (i = 0; i < ENV_CPY_SMALL; ++i) {
			if (i < n)
				((sqfs_u8 *)dst)[i] = (sqfs_u8)c;
		}
	} else {
		if (g_k < n) {
			sqfs_u8 *d = dst;
			d[g_k] = (sqfs_u8)c;
		}
	}
	return dst;
#endif
}

static void env_objects_init(void)
{
	g_file.base.refcount = 1;
	g_file.base.destroy = NULL;
	g_file.base.copy = NULL;
	g_file.read_at = stub_read_at;
	g_file.write_at = NULL;
	g_file.get_size = NULL;
	g_file.truncate = NULL;
	g_file.get_filename = NULL;
	g_cmp.base.refcount = 1;
	g_cmp.base.destroy = NULL;
	g_cmp.base.copy = NULL;
	g_cmp.get_configuration = NULL;
	g_cmp.write_options = NULL;
	g_cmp.read_options = NULL;
	g_cmp.do_block = stub_do_block;
}

/* route the payload copies of the real code through the checking stubs */
#ifndef ENV_NO_MEM_OVERRIDE
#define memcpy(d, s, n) verif_memcpy((d), (s), (n))
#define memset(d, c, n) verif_memset((d), (c), (n))
#endif

#endif /* RD_ENV_H */
