/*
 * rd_env.h - environment contracts of the reader side (DESIGN section 3):
 * the image (sqfs_file_t.read_at), the un-compressor (sqfs_compressor_t.
 * do_block) and checking payload copy routines. The stubs ARE the contracts:
 * they assert the callee's precondition at every call site, return every
 * outcome the contract permits, and log the call in ghost state so that a
 * harness can say which bytes a cache now holds.
 *
 * Include AFTER <string.h>/<stdlib.h> and BEFORE the real translation unit.
 * ENV_PROP must be a string literal ("C10" / "C05"): prefix of the names of
 * the environment obligations.
 *
 * The image is an arbitrary byte string. Small reads (on-stack records) are
 * filled completely from the tape, and are deterministic through the witness
 * pair "image[g_img_off] == g_img_val". Payload reads (block buffers) keep
 * the previous - arbitrary - contents of the buffer except at the witness
 * position g_k, whose delivered value is logged; since g_k is arbitrary this
 * stands for every byte of the payload.
 *
 * All ghost state lives in one object (g_e) so that a loop contract can name
 * it in its assigns clause.
 */
#ifndef RD_ENV_H
#define RD_ENV_H

#include "verif.h"
#include "sqfs/predef.h"
#include "sqfs/io.h"
#include "sqfs/compressor.h"
#include "sqfs/error.h"

#ifndef ENV_PROP
#error "define ENV_PROP"
#endif
#define ENV_NAME(s) ENV_PROP ".env." s

#ifndef ENV_LOG
#define ENV_LOG 4
#endif
#ifndef ENV_SMALL
#define ENV_SMALL 40	/* read_at records up to this size are filled completely */
#endif
#ifndef ENV_CPY_SMALL
#define ENV_CPY_SMALL 0	/* memcpy/memset up to this size are done byte by byte */
#endif

/* ---- ghost state ------------------------------------------------------ */
typedef struct {
	sqfs_u64 off;
	void *buf;
	size_t n;
	int ret;
	sqfs_u8 vk;	/* payload reads: the byte delivered at position g_k */
	sqfs_u64 val;	/* small reads: first (up to) 8 bytes delivered, LE */
	sqfs_u64 val_hi;	/* small reads: bytes 8..15 */
} env_read_rec_t;

typedef struct {
	const sqfs_u8 *in;
	sqfs_u32 n;
	sqfs_u8 *out;
	sqfs_u32 m;
	sqfs_s32 ret;
} env_blk_rec_t;

typedef struct {
	void *dst;
	const void *src;
	size_t n;
} env_cpy_rec_t;

typedef struct {
	sqfs_u64 img_off;	/* witness: image[img_off] == img_val */
	sqfs_u8 img_val;
	size_t k;		/* witness position inside a payload buffer */
	sqfs_u8 blk_val;	/* value do_block produces at position k */
	unsigned rd_n;		/* number of read_at calls */
	env_read_rec_t rd[ENV_LOG];
	unsigned blk_n;		/* number of do_block calls */
	env_blk_rec_t blk[ENV_LOG];
	unsigned cpy_n;		/* number of payload memcpy calls */
	env_cpy_rec_t cpy[ENV_LOG];
	unsigned set_n;		/* number of payload memset calls */
	unsigned seq;		/* total number of environment calls */
	bool fault;		/* some environment call reported an error */
	bool cpy_handled;	/* ENV_ON_MEMCPY did the (witness) copy itself */
} env_ghost_t;

static env_ghost_t g_e;
#define g_img_off g_e.img_off
#define g_img_val g_e.img_val
#define g_k g_e.k
#define g_blk_val g_e.blk_val
#define g_rd_n g_e.rd_n
#define g_rd g_e.rd
#define g_blk_n g_e.blk_n
#define g_blk g_e.blk
#define g_cpy_n g_e.cpy_n
#define g_cpy g_e.cpy
#define g_set_n g_e.set_n
#define g_env_seq g_e.seq

static sqfs_file_t g_file;
static sqfs_compressor_t g_cmp;

static void env_init(void)
{
	g_img_off = verif_nd_u64("img.off");
	g_img_val = verif_nd_u8("img.val");
	g_k = verif_nd_size("k");
	g_blk_val = verif_nd_u8("blk.val");
	g_rd_n = g_blk_n = g_cpy_n = g_set_n = g_env_seq = 0;
	g_e.fault = false;
}

/* hooks a harness may define before including this file */
#ifndef ENV_ON_WRITE		/* every environment write: (pointer, length) */
#define ENV_ON_WRITE(p, n) ((void)0)
#endif
#ifndef ENV_ON_READ_AT		/* (offset, buffer, size) before the transfer */
#define ENV_ON_READ_AT(off, buf, n) ((void)0)
#endif
#ifndef ENV_ON_DO_BLOCK		/* (in, size, out, outsize) */
#define ENV_ON_DO_BLOCK(in, n, out, m) ((void)0)
#endif
#ifndef ENV_ON_MEMCPY		/* (dst, src, n); may set g_e.cpy_handled */
#define ENV_ON_MEMCPY(d, s, n) ((void)0)
#endif

/* (buffer, size, index of this read): constrain / fix a tag of a small record */
#ifndef ENV_FIXUP
#define ENV_FIXUP(b, n, idx) ((void)0)
#endif

/* A harness whose payload buffer is reached through an expression CBMC
 * cannot handle efficiently (flexible array member: see dr_common.h) maps the
 * pointer to the object that stands for it here; preconditions are checked
 * on the mapped pointer. */
#ifndef ENV_REBASE
#define ENV_REBASE(p) (p)
#endif

/* Which read_at destinations are payload buffers (large, only the witness
 * position is tracked) as opposed to small on-stack records that are filled
 * completely? The decision must be static for CBMC (otherwise both variants
 * are explored for every call site, and forty guarded writes into an 8 KiB
 * array cost five million SAT variables) and must be the same natively for
 * the tape to replay. Default: object size under CBMC, transfer size natively;
 * a harness that reads short pieces into a large buffer defines its own. */
#ifndef ENV_IS_PAYLOAD
#ifdef VERIF_REPLAY
#define ENV_IS_PAYLOAD(p, n) ((n) > ENV_SMALL)
#else
#define ENV_IS_PAYLOAD(p, n) (VERIF_OBJECT_SIZE(p) > ENV_SMALL)
#endif
#endif

/* any error a callee may report: every negative int */
static int env_nd_error(const char *tag)
{
	int e = verif_nd_int(tag);
	if (e >= 0)
		e = SQFS_ERROR_IO;
	return e;
}

/* ---- sqfs_file_t.read_at ---------------------------------------------- */
static int stub_read_at(sqfs_file_t *file, sqfs_u64 offset,
			void *buffer, size_t size)
{
	sqfs_u8 *b = ENV_REBASE(buffer);
	bool fail;

	VERIF_ASSERT(file == &g_file, ENV_NAME("read_at.file"));
	VERIF_ASSERT(size == 0 || VERIF_W_OK(b, size),
		     ENV_NAME("read_at.buffer_writable"));
	ENV_ON_READ_AT(offset, buffer, size);
	if (g_rd_n < ENV_LOG) {
		g_rd[g_rd_n].off = offset;
		g_rd[g_rd_n].buf = buffer;
		g_rd[g_rd_n].n = size;
	}
	++g_env_seq;
	ENV_ON_WRITE(buffer, size);

	/* delivered bytes (also on failure: the buffer is then arbitrary) */
	if (!ENV_IS_PAYLOAD(buffer, size)) {
		/* unrolled by hand: a loop here would need a loop contract
		   whenever the caller sits inside a contracted loop */
		VERIF_ASSERT(size <= ENV_SMALL, ENV_NAME("read_at.small_record"));
#define ENV_B1(i) if ((size_t)(i) < size) b[i] = verif_nd_u8("read_at.byte");
#define ENV_B8(o) ENV_B1(o) ENV_B1(o + 1) ENV_B1(o + 2) ENV_B1(o + 3) \
	ENV_B1(o + 4) ENV_B1(o + 5) ENV_B1(o + 6) ENV_B1(o + 7)
		ENV_B8(0) ENV_B8(8) ENV_B8(16) ENV_B8(24) ENV_B8(32)
#if ENV_SMALL > 40
		ENV_B8(40) ENV_B8(48) ENV_B8(56) ENV_B8(64) ENV_B8(72)
		ENV_B8(80) ENV_B8(88)
#endif
#if ENV_SMALL > 96
#error "ENV_SMALL > 96 not supported"
#endif
	} else {
		sqfs_u8 v = verif_nd_u8("read_at.vk");
#ifdef VERIF_REPLAY
		/* natively the whole transfer is performed, so that the
		   sanitizers see an undersized buffer */
		(memset)(b, v ^ 0x55, size);
#endif
		if (g_k < size)
			b[g_k] = v;
		if (g_rd_n < ENV_LOG)
			g_rd[g_rd_n].vk = v;
	}

	fail = verif_nd_bool("read_at.fail");
	if (fail) {
		int e = env_nd_error("read_at.err");
		if (g_rd_n < ENV_LOG)
			g_rd[g_rd_n].ret = e;
		++g_rd_n;
		g_e.fault = true;
		return e;
	}
	/* determinism of the image (small reads only; a payload read is
	   identified by its log entry: offset, length, byte at g_k) */
	if (!ENV_IS_PAYLOAD(buffer, size)) {
		sqfs_u64 val = 0, val_hi = 0;

		if (g_img_off >= offset && g_img_off - offset < size)
			b[g_img_off - offset] = g_img_val;
		ENV_FIXUP(b, size, g_rd_n);
#define ENV_V1(i) if ((size_t)(i) < size) val |= (sqfs_u64)b[i] << (8 * (i));
		ENV_V1(0) ENV_V1(1) ENV_V1(2) ENV_V1(3)
		ENV_V1(4) ENV_V1(5) ENV_V1(6) ENV_V1(7)
#define ENV_V2(i) if ((size_t)(i) < size) val_hi |= (sqfs_u64)b[i] << (8 * ((i) - 8));
		ENV_V2(8) ENV_V2(9) ENV_V2(10) ENV_V2(11)
		ENV_V2(12) ENV_V2(13) ENV_V2(14) ENV_V2(15)
		if (g_rd_n < ENV_LOG) {
			g_rd[g_rd_n].val = val;
			g_rd[g_rd_n].val_hi = val_hi;
		}
	}
	if (g_rd_n < ENV_LOG)
		g_rd[g_rd_n].ret = 0;
	++g_rd_n;
	return 0;
}

/* ---- sqfs_compressor_t.do_block (un-compress direction) --------------- */
static sqfs_s32 stub_do_block(sqfs_compressor_t *cmp, const sqfs_u8 *in,
			      sqfs_u32 size, sqfs_u8 *out, sqfs_u32 outsize)
{
	sqfs_s32 r;

	VERIF_ASSERT(cmp == &g_cmp, ENV_NAME("do_block.cmp"));
	VERIF_ASSERT(size == 0 || VERIF_R_OK(ENV_REBASE(in), size),
		     ENV_NAME("do_block.input_readable"));
	VERIF_ASSERT(outsize == 0 || VERIF_W_OK(ENV_REBASE(out), outsize),
		     ENV_NAME("do_block.output_writable"));
	ENV_ON_DO_BLOCK(in, size, out, outsize);
	++g_env_seq;
	ENV_ON_WRITE(out, outsize);

	r = verif_nd_int("do_block.ret");
	if (r > 0 && (sqfs_u32)r > outsize)
		r = (sqfs_s32)(outsize <= 0x7FFFFFFF ? outsize : 0x7FFFFFFF);
#ifdef VERIF_REPLAY
	{
		/* natively: consume the whole input, produce the whole output */
		volatile sqfs_u8 sink = 0;
		sqfs_u32 i;
		for (i = 0; i < size; ++i)
			sink ^= in[i];
		if (r > 0)
			(memset)(out, sink, (size_t)r);
	}
#endif
	if (r > 0 && g_k < (size_t)r) {
		sqfs_u8 *o = ENV_REBASE(out);
		o[g_k] = g_blk_val;
	}
	if (r < 0)
		g_e.fault = true;
	if (g_blk_n < ENV_LOG) {
		g_blk[g_blk_n].in = in;
		g_blk[g_blk_n].n = size;
		g_blk[g_blk_n].out = out;
		g_blk[g_blk_n].m = outsize;
		g_blk[g_blk_n].ret = r;
	}
	++g_blk_n;
	return r;
}

/* ---- checking payload copy routines ----------------------------------- */
static void *verif_memcpy(void *dst, const void *src, size_t n)
{
	VERIF_ASSERT(n == 0 || VERIF_R_OK(ENV_REBASE(src), n),
		     ENV_NAME("memcpy.src_readable"));
	VERIF_ASSERT(n == 0 || VERIF_W_OK(ENV_REBASE(dst), n),
		     ENV_NAME("memcpy.dst_writable"));
	g_e.cpy_handled = false;
	ENV_ON_MEMCPY(dst, src, n);
	if (g_cpy_n < ENV_LOG) {
		g_cpy[g_cpy_n].dst = dst;
		g_cpy[g_cpy_n].src = src;
		g_cpy[g_cpy_n].n = n;
	}
	++g_cpy_n;
	++g_env_seq;
	ENV_ON_WRITE(dst, n);
#ifdef VERIF_REPLAY
	return (memcpy)(dst, src, n);
#else
	/* typed locals: a cast of the void pointer inside the index
	   expression makes CBMC fall back to byte_update on the whole
	   enclosing object. A hook that knows the typed lvalues behind the
	   two pointers (after asserting that they are what it expects) may
	   do the witness copy itself and set g_e.cpy_handled. */
	if (g_e.cpy_handled)
		return dst;
#if ENV_CPY_SMALL > 0
	if (n <= ENV_CPY_SMALL) {
		sqfs_u8 *d = dst;
		sqfs_u8 *s = (sqfs_u8 *)src;
		size_t i;
		for (i = 0; i < ENV_CPY_SMALL; ++i) {
			if (i < n) {
				sqfs_u8 v = s[i];
				d[i] = v;
			}
		}
	} else
#endif
	if (g_k < n) {
		sqfs_u8 *d = ENV_REBASE(dst);
		sqfs_u8 *s = ENV_REBASE((sqfs_u8 *)src);
		sqfs_u8 v = s[g_k];
		d[g_k] = v;
	}
	return dst;
#endif
}

static void *verif_memset(void *dst, int c, size_t n)
{
	VERIF_ASSERT(n == 0 || VERIF_W_OK(ENV_REBASE(dst), n),
		     ENV_NAME("memset.dst_writable"));
	++g_set_n;
	++g_env_seq;
	ENV_ON_WRITE(dst, n);
#ifdef VERIF_REPLAY
	return (memset)(dst, c, n);
#else
#if ENV_CPY_SMALL > 0
	if (n <= ENV_CPY_SMALL) {
		sqfs_u8 *d = dst;
		size_t i;
		for (i = 0; i < ENV_CPY_SMALL; ++i) {
			if (i < n)
				d[i] = (sqfs_u8)c;
		}
	} else
#endif
	if (g_k < n) {
		sqfs_u8 *d = ENV_REBASE(dst);
		d[g_k] = (sqfs_u8)c;
	}
	return dst;
#endif
}

static void env_objects_init(void)
{
	g_file.base.refcount = 1;
	g_file.base.destroy = NULL;
	g_file.base.copy = NULL;
	g_file.read_at = stub_read_at;
	g_file.write_at = NULL;
	g_file.get_size = NULL;
	g_file.truncate = NULL;
	g_file.get_filename = NULL;
	g_cmp.base.refcount = 1;
	g_cmp.base.destroy = NULL;
	g_cmp.base.copy = NULL;
	g_cmp.get_configuration = NULL;
	g_cmp.write_options = NULL;
	g_cmp.read_options = NULL;
	g_cmp.do_block = stub_do_block;
}

/* route the payload copies of the real code through the checking stubs */
#ifndef ENV_NO_MEM_OVERRIDE
#define memcpy(d, s, n) verif_memcpy((d), (s), (n))
#define memset(d, c, n) verif_memset((d), (c), (n))
#endif

#endif /* RD_ENV_H */
