/* C10: sqfs_frag_table_lookup is a pure function of (table, index): it
 * changes nothing and its answer is the entry of that index, or
 * OUT_OF_BOUNDS - whatever was looked up before. Table of any length
 * (symbolic, up to the 2^32-1 entries the superblock field can announce),
 * arbitrary contents.
 *
 *   C10.frag.lookup_value   ret == 0 <=> index < used; then *out is entry
 *                           [index] decoded little endian
 *   C10.frag.lookup_pure    the table object and the witness byte of its
 *                           array are unchanged; *out untouched on failure
 */
#include <stdlib.h>
#include <string.h>
#include "verif.h"
#define ENV_PROP "C10"
#define ENV_NO_MEM_OVERRIDE
#include "C10/rd_env.h"
#include "lib/sqfs/src/frag_table.c"

void harness(void)
{
	sqfs_frag_table_t *tbl = malloc(sizeof(*tbl));
	size_t used = verif_nd_size("used"), cap = verif_nd_size("count");
	sqfs_fragment_t *arr, out, out0;
	sqfs_u32 index = verif_nd_u32("index");
	size_t w = verif_nd_size("w");
	sqfs_u8 wb;
	array_t old;
	int ret;

	VERIF_ASSUME(tbl != NULL);
	VERIF_ASSUME(used <= cap && cap <= 0xFFFFFFFFUL && cap >= 1);
	arr = malloc(cap * sizeof(*arr));
	VERIF_ASSUME(arr != NULL);
	tbl->base.refcount = 1;
	tbl->base.destroy = frag_table_destroy;
	tbl->base.copy = frag_table_copy;
	tbl->table.size = sizeof(sqfs_fragment_t);
	tbl->table.count = cap;
	tbl->table.used = used;
	tbl->table.data = arr;
	old = tbl->table;
	VERIF_ASSUME(w < cap * sizeof(*arr));
	wb = ((sqfs_u8 *)arr)[w];
	if (index < used) {
		arr[index].start_offset = verif_nd_u64("ent.start");
		arr[index].size = verif_nd_u32("ent.size");
		arr[index].pad0 = verif_nd_u32("ent.pad0");
		wb = ((sqfs_u8 *)arr)[w];
	}
	out.start_offset = out0.start_offset = verif_nd_u64("out.start");
	out.size = out0.size = verif_nd_u32("out.size");
	out.pad0 = out0.pad0 = verif_nd_u32("out.pad0");

	ret = sqfs_frag_table_lookup(tbl, index, &out);

	VERIF_ASSERT((ret == 0) == (index < used) &&
		     (ret == 0 || ret == SQFS_ERROR_OUT_OF_BOUNDS),
		     "C10.frag.lookup_value");
	if (ret == 0) {
		VERIF_ASSERT(out.start_offset == le64toh(arr[index].start_offset) &&
			     out.size == le32toh(arr[index].size),
			     "C10.frag.lookup_value");
	} else {
		VERIF_ASSERT(out.start_offset == out0.start_offset &&
			     out.size == out0.size && out.pad0 == out0.pad0,
			     "C10.frag.lookup_pure");
	}
	VERIF_ASSERT(tbl->table.size == old.size && tbl->table.count == old.count &&
		     tbl->table.used == old.used && tbl->table.data == old.data &&
		     ((sqfs_u8 *)arr)[w] == wb, "C10.frag.lookup_pure");
	VERIF_COVER(ret == 0 && index > 70000);
	VERIF_COVER(ret != 0);
	free(arr);
	free(tbl);
}
