/* C10: sqfs_meta_reader_readdir. The directory cursor lives in the caller's
 * sqfs_readdir_state_t, not in the (shared) metadata reader: whatever other
 * queries moved the reader's cursor in between, the answer of a call is a
 * function of (image, *it). Metadata reader = its contract with a ghost
 * cursor (mr_contract.h) that starts anywhere, possibly undefined.
 *
 *   C10.readdir.seek_before_read  the first reader operation of a call is a
 *                                 seek to (it->block, it->offset) as they
 *                                 were on entry; the entry is read after a
 *                                 seek to the state's position, never from
 *                                 wherever the reader happens to stand
 *   C10.readdir.state_is_cursor   ret == 0 => (it->block, it->offset) is the
 *                                 reader position right after the entry's
 *                                 name - the next call resumes there
 *   C10.readdir.answer            inode number / reference are computed from
 *                                 the state and the delivered entry only
 *   C10.readdir.eof_clears        ret > 0 => size == entries == 0, nothing
 *                                 returned; ret < 0 => a reader call failed or
 *                                 the header count is out of range
 */
#include <stdlib.h>
#include <string.h>
#include "verif.h"
#define ENV_PROP "C10"
#define ENV_NO_MEM_OVERRIDE
#include "C10/rd_env.h"
#include "C10/mr_contract.h"
#include "lib/sqfs/src/readdir.c"

void harness(void)
{
	sqfs_meta_reader_t *m = malloc(1);
	sqfs_readdir_state_t it, it0;
	sqfs_dir_node_t *ent = NULL;
	sqfs_u32 inum = 0;
	sqfs_u64 iref = 0;
	bool want_inum = verif_nd_bool("want.inum");
	bool want_iref = verif_nd_bool("want.iref");
	unsigned e;	/* index of the entry read in the log */
	int ret;

	VERIF_ASSUME(m != NULL);
	env_init();
	mrc_init();
	g_mrc_rd0 = m;

	it.inode_block = verif_nd_u64("it.inode_block");
	it.block = verif_nd_u64("it.block");
	it.offset = verif_nd_size("it.offset");
	it.size = verif_nd_size("it.size");
	it.entries = verif_nd_size("it.entries");
	it.inum_base = verif_nd_u32("it.inum_base");
	it0 = it;

	ret = sqfs_meta_reader_readdir(m, &it, &ent, want_inum ? &inum : NULL,
				       want_iref ? &iref : NULL);

	if (g_mrc.ops > 0) {
		VERIF_ASSERT(g_mrc.seeks >= 1 && g_mrc.s[0].seq == 1 &&
			     g_mrc.s[0].to.block == it0.block &&
			     g_mrc.s[0].to.off == it0.offset,
			     "C10.readdir.seek_before_read");
	}
	e = (it0.entries == 0) ? 1 : 0;
	if (ret == 0) {
		sqfs_u32 base = it0.inum_base;
		sqfs_u64 iblk = it0.inode_block;

		VERIF_ASSERT(!g_mrc.failed && ent != NULL, "C10.readdir.eof_clears");
		if (it0.entries == 0) {
			/* header, then the entry after a seek to where the
			   header ended */
			VERIF_ASSERT(g_mrc.seeks == 2 && g_mrc.reads == 3 &&
				     g_mrc.r[0].n == sizeof(sqfs_dir_header_t) &&
				     g_mrc.r[0].seq == 2 &&
				     g_mrc.s[1].seq == 3 &&
				     g_mrc.s[1].to.block == g_mrc.r[0].after.block &&
				     g_mrc.s[1].to.off == g_mrc.r[0].after.off &&
				     g_mrc.r[1].seq == 4 && g_mrc.r[2].seq == 5,
				     "C10.readdir.seek_before_read");
			base = it.inum_base;
			iblk = it.inode_block;
		} else {
			VERIF_ASSERT(g_mrc.seeks == 1 && g_mrc.reads == 2 &&
				     g_mrc.r[0].seq == 2 && g_mrc.r[1].seq == 3,
				     "C10.readdir.seek_before_read");
		}
		VERIF_ASSERT(g_mrc.r[e].n == sizeof(sqfs_dir_node_t) &&
			     g_mrc.r[e + 1].buf == (void *)ent->name &&
			     g_mrc.r[e + 1].n == (size_t)ent->size + 1,
			     "C10.readdir.answer");
		VERIF_ASSERT(g_mrc.pos_valid && it.block == g_mrc.pos.block &&
			     it.offset == g_mrc.pos.off &&
			     it.block == g_mrc.r[e + 1].after.block &&
			     it.offset == g_mrc.r[e + 1].after.off,
			     "C10.readdir.state_is_cursor");
		if (want_inum)
			VERIF_ASSERT(inum == base + (sqfs_u32)(sqfs_s32)ent->inode_diff,
				     "C10.readdir.answer");
		if (want_iref)
			VERIF_ASSERT(iref == ((iblk << 16) | ent->offset),
				     "C10.readdir.answer");
	} else if (ret > 0) {
		VERIF_ASSERT(it.size == 0 && it.entries == 0 && ent == NULL &&
			     !g_mrc.failed, "C10.readdir.eof_clears");
	} else {
		VERIF_ASSERT(ent == NULL, "C10.readdir.eof_clears");
		VERIF_ASSERT(g_mrc.failed || ret == SQFS_ERROR_CORRUPTED ||
			     ret == SQFS_ERROR_ALLOC, "C10.readdir.eof_clears");
	}

	VERIF_COVER(ret == 0 && it0.entries == 0);
	VERIF_COVER(ret == 0 && it0.entries > 0 && ent->size > 100);
	VERIF_COVER(ret > 0 && g_mrc.ops == 0);
	VERIF_COVER(ret > 0 && g_mrc.ops > 0);
	VERIF_COVER(ret < 0 && !g_mrc.failed);
	VERIF_COVER(ret < 0 && g_mrc.failed && g_mrc.reads == 3);
	free(ent);
	free(m);
}
