/* C10: precache_data_block (data_reader.c), tag-payload coherence of the
 * data block cache. The cache key of a data block is what the caller asks
 * for: (location, size word) - the size word decides how many bytes are read
 * and whether they are un-compressed, so two requests for the same location
 * with different size words have different answers on a fresh reader.
 *
 * Every reachable state of this cache is "empty" or "the result of the last
 * load" (a load replaces the whole cache, a hit changes nothing), so instead
 * of a history the harness takes: empty cache, one arbitrary request
 * (location1, word1) with arbitrary outcome - that is the arbitrary reachable
 * state, and it ties the cached payload to the word it was loaded with
 * through the real code - then the request under test (location, word).
 * Block size symbolic (every legal size in one run).
 *
 *   C10.data.block_ok_tag      ret == 0 => data_block != NULL, current_block
 *                              == location, buffer has block_size bytes
 *   C10.data.block_key_word    ret == 0 without a load (hit) => the cached
 *                              block was loaded for the same location AND the
 *                              same size word
 *   C10.data.block_hit_clean   same (location, word) cached => ret == 0, no
 *                              environment call, same buffer
 *   C10.data.block_miss_loaded ret == 0 with a load => exactly one read at
 *                              `location` of the on-disk size, un-compressed
 *                              iff the word says so, into a fresh block_size
 *                              buffer; data_blk_size and witness byte agree
 *   C10.data.block_fail_invalid ret != 0 => the cache is empty (can never hit)
 */
#include <stdlib.h>
#include <string.h>
#include <errno.h>
#include "verif.h"
#define ENV_PROP "C10"
#define ENV_IS_PAYLOAD(p, n) 1
#include "C10/dr_common.h"

void harness(void)
{
	sqfs_data_reader_t *rd;
	sqfs_u64 location, old_tag;
	sqfs_u32 word, g_tag_word, disksz;
	sqfs_u8 *old_blk;
	bool cached, same_key, loaded;
	int ret;

	env_init();
	env_objects_init();
	rd = dr_new(NULL);

	/* the arbitrary reachable state: empty, or loaded for (tag, tag.word) */
	old_tag = verif_nd_u64("tag");
	g_tag_word = verif_nd_u32("tag.word");
	if (verif_nd_bool("preload"))
		(void)precache_data_block(rd, old_tag, g_tag_word);
	cached = (rd->data_block != NULL);
	env_init();	/* forget the log of the preload */

	location = verif_nd_u64("location");
	word = verif_nd_u32("word");
	disksz = SQFS_ON_DISK_BLOCK_SIZE(word);

	old_blk = rd->data_block;
	same_key = cached && old_tag == location && g_tag_word == word;

	ret = precache_data_block(rd, location, word);

	loaded = false;
	if (g_env_seq == 0) {
		/* sparse word on a miss: a zeroed block, nothing read */
		loaded = (rd->data_block != old_blk || !cached) &&
			SQFS_IS_SPARSE_BLOCK(word) && rd->data_block != NULL &&
			rd->data_blk_size == BS;
	} else if (g_rd_n == 1 && g_rd[0].ret == 0 && g_rd[0].off == location &&
		   g_rd[0].n == disksz && disksz <= BS) {
		if (SQFS_IS_BLOCK_COMPRESSED(word)) {
			loaded = g_blk_n == 1 && g_blk[0].ret > 0 &&
				g_rd[0].buf == (void *)rd->scratch &&
				g_blk[0].in == rd->scratch &&
				g_blk[0].n == disksz &&
				g_blk[0].out == rd->data_block &&
				g_blk[0].m == BS &&
				rd->data_blk_size == (size_t)g_blk[0].ret;
			if (loaded && g_k < rd->data_blk_size)
				loaded = rd->data_block[g_k] == g_blk_val;
		} else {
			loaded = g_blk_n == 0 &&
				g_rd[0].buf == (void *)rd->data_block &&
				rd->data_blk_size == disksz;
			if (loaded && g_k < disksz)
				loaded = rd->data_block[g_k] == g_rd[0].vk;
		}
	}

	if (ret == 0) {
		VERIF_ASSERT(rd->data_block != NULL &&
			     rd->current_block == location &&
			     VERIF_R_OK(rd->data_block, BS) &&
			     rd->data_blk_size <= BS,
			     "C10.data.block_ok_tag");
		if (cached && rd->data_block == old_blk && g_env_seq == 0) {
			/* answered from the cache */
			VERIF_ASSERT(old_tag == location && g_tag_word == word,
				     "C10.data.block_key_word");
		} else {
			VERIF_ASSERT(loaded, "C10.data.block_miss_loaded");
		}
	} else {
		VERIF_ASSERT(rd->data_block == NULL,
			     "C10.data.block_fail_invalid");
	}
	if (same_key) {
		VERIF_ASSERT(ret == 0 && g_env_seq == 0 &&
			     rd->data_block == old_blk,
			     "C10.data.block_hit_clean");
	}

	VERIF_COVER(ret == 0 && same_key);
	VERIF_COVER(ret == 0 && !same_key && g_blk_n == 1);
	VERIF_COVER(ret == 0 && !same_key && g_blk_n == 0 && g_rd_n == 1);
	VERIF_COVER(ret == 0 && g_env_seq == 0 && !cached);
	VERIF_COVER(ret != 0 && g_rd_n == 0);
	VERIF_COVER(ret != 0 && g_rd_n == 1);
	dr_delete(rd);
}
