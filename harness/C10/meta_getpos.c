/* C10: sqfs_meta_reader_get_position (lib/sqfs/src/meta_reader.c) - the
 * position a reader reports is one that sqfs_meta_reader_seek() accepts and
 * that names the next unread byte, for EVERY well-formed cache state (any
 * data_used <= 8192 - the last block of a table is short -, any cursor <=
 * data_used). The xattr reader saves its position with this call before the
 * detour to an out-of-line value and seeks back to it afterwards: a position
 * at the end of a SHORT block that is reported as (this block, data_used)
 * is refused by seek (offset >= data_used), i.e. the answer of the next read
 * depends on where the previous one ended (seed C01-7).
 *
 *   C10.meta.get_position.seekable   the reported offset is < data_used of the
 *                                    block it names, or it is offset 0 of the
 *                                    next block
 *   C10.meta.get_position.next_byte  cursor inside the block => (block_offset,
 *                                    offset) unchanged; cursor at the end of
 *                                    the cached data => (next_block, 0)
 *   C10.meta.get_position.pure       the reader is not modified
 */
#include <stdlib.h>
#include <string.h>
#include "verif.h"
#define ENV_PROP "C10"
#define ENV_NO_MEM_OVERRIDE
#include "C10/rd_env.h"
#include "lib/sqfs/src/meta_reader.c"

void harness(void)
{
	sqfs_meta_reader_t *m = malloc(sizeof(*m));
	sqfs_u64 block = 0, blk0, next0;
	size_t off = 0, off0, used0;

	VERIF_ASSUME(m != NULL);
	env_init();
	m->start = verif_nd_u64("start");
	m->limit = verif_nd_u64("limit");
	m->block_offset = blk0 = verif_nd_u64("block_offset");
	m->next_block = next0 = verif_nd_u64("next_block");
	m->data_used = used0 = verif_nd_size("data_used");
	m->offset = off0 = verif_nd_size("offset");
	/* wf_meta: what seek / read establish (C10.meta.seek_ok_tag, read loop invariant) */
	VERIF_ASSUME(used0 <= sizeof(m->data) && off0 <= used0);

	sqfs_meta_reader_get_position(m, &block, &off);

	VERIF_COVER(off0 == used0 && used0 > 0 && used0 < sizeof(m->data));
	VERIF_COVER(off0 < used0);
	VERIF_ASSERT((block == blk0 && off < used0) || (block == next0 && off == 0),
		     "C10.meta.get_position.seekable");
	if (off0 < used0)
		VERIF_ASSERT(block == blk0 && off == off0,
			     "C10.meta.get_position.next_byte");
	else
		VERIF_ASSERT(block == next0 && off == 0,
			     "C10.meta.get_position.next_byte");
	VERIF_ASSERT(m->block_offset == blk0 && m->next_block == next0 &&
		     m->data_used == used0 && m->offset == off0,
		     "C10.meta.get_position.pure");
	free(m);
}
