/*
 * mr_contract.h - sqfs_meta_reader_t seen through its contract, for the
 * harnesses of functions that USE a metadata reader (readdir, read_inode,
 * xattr reader, dir reader, read_table): the three entry points are stubs
 * that are the contract, with a ghost cursor.
 *
 *   sqfs_meta_reader_seek(m, block, off)   fails (any negative error, cursor
 *        then undefined) or succeeds and puts the cursor at (block, off)
 *   sqfs_meta_reader_read(m, buf, n)       requires w_ok(buf, n); fails, or
 *        delivers n arbitrary bytes (records up to MRC_SMALL bytes are filled
 *        completely from the tape, longer payloads keep their arbitrary
 *        contents except for the witness position g_k) and moves the cursor to
 *        an arbitrary new place - an over-approximation of "n bytes further,
 *        possibly in a following block" (C10/meta_read proves the real one)
 *   sqfs_meta_reader_get_position          requires a defined cursor
 *
 * Every call is logged (g_mrc). Include after rd_env.h (ENV_PROP, g_k) and
 * before or after the real translation unit (which must not be
 * meta_reader.c).
 */
#ifndef MR_CONTRACT_H
#define MR_CONTRACT_H

#include "sqfs/meta_reader.h"

#ifndef MRC_LOG
#define MRC_LOG 8
#endif
#ifndef MRC_SMALL
#define MRC_SMALL 40
#endif
/* -DMRC_NO_LOG: keep only the counters (needed inside contracted loops, where
 * the counters are havocked and a symbolically indexed store into an array of
 * structures is more than cbmc's array theory accepts) */
#ifdef MRC_NO_LOG
#define MRC_LOGGING(idx) 0
#else
#define MRC_LOGGING(idx) ((idx) < MRC_LOG)
#endif

typedef struct {
	sqfs_u64 block;
	size_t off;
} mrc_pos_t;

typedef struct {
	sqfs_meta_reader_t *rd;	/* the reader */
	void *buf;
	size_t n;
	sqfs_u64 val;		/* first (up to) 8 bytes delivered, LE */
	sqfs_u64 val_hi;	/* bytes 8..15 */
	mrc_pos_t after;	/* cursor after the read */
	unsigned seq;		/* position in the sequence of reader calls */
	int ret;
} mrc_read_rec_t;

typedef struct {
	sqfs_meta_reader_t *rd;
	mrc_pos_t to;
	int ret;
	unsigned seq;
} mrc_seek_rec_t;

typedef struct {
	mrc_pos_t pos;		/* ghost cursor */
	bool pos_valid;
	unsigned ops;		/* reader operations so far */
	unsigned reads, seeks;
	mrc_read_rec_t r[MRC_LOG];
	mrc_seek_rec_t s[MRC_LOG];
	bool failed;		/* some reader call failed */
	size_t bytes;		/* total bytes delivered */
} mrc_ghost_t;

static mrc_ghost_t g_mrc;

/* which reader objects exist (the harness sets them; NULL = unused) */
static sqfs_meta_reader_t *g_mrc_rd0, *g_mrc_rd1;

static void mrc_init(void)
{
	g_mrc.pos.block = verif_nd_u64("mrc.pos.block");
	g_mrc.pos.off = verif_nd_size("mrc.pos.off");
	g_mrc.pos_valid = verif_nd_bool("mrc.pos.valid");
	g_mrc.ops = g_mrc.reads = g_mrc.seeks = 0;
	g_mrc.failed = false;
	g_mrc.bytes = 0;
}

#ifndef MRC_ON_READ		/* (m, buf, n) before the transfer */
#define MRC_ON_READ(m, b, n) ((void)0)
#endif
#ifndef MRC_ON_SEEK		/* (m, block, off) */
#define MRC_ON_SEEK(m, b, o) ((void)0)
#endif
/* Records of up to MRC_SMALL bytes are delivered completely (every byte
 * arbitrary); longer transfers are payload: only the witness position is
 * written, so the destination must have arbitrary contents already or its
 * contents must not be interpreted by the function under test. */
#ifndef MRC_IS_PAYLOAD
#define MRC_IS_PAYLOAD(p, n) ((n) > MRC_SMALL)
#endif
/* Inside a contracted loop the destination pointer of the function under
 * test is havocked; cbmc would then treat every object of the program as a
 * possible target of the delivery. MRC_ON_READ asserts which object and
 * offset it is; MRC_REBASE names that place through a pointer symex knows. */
#ifndef MRC_REBASE
#define MRC_REBASE(p) (p)
#endif
#ifndef MRC_FIXUP	/* (reader, buf, n, index of this read): make a tag concrete */
#define MRC_FIXUP(m, b, n, idx) ((void)0)
#endif

int sqfs_meta_reader_read(sqfs_meta_reader_t *m, void *data, size_t size)
{
	sqfs_u8 *b;
	sqfs_u64 val = 0, val_hi = 0;

	VERIF_ASSERT(m != NULL && (m == g_mrc_rd0 || m == g_mrc_rd1),
		     ENV_NAME("meta_read.reader"));
	MRC_ON_READ(m, data, size);
	b = (sqfs_u8 *)MRC_REBASE(data);
	VERIF_ASSERT(size == 0 || VERIF_W_OK(b, size),
		     ENV_NAME("meta_read.buffer_writable"));
	++g_mrc.ops;
	if (MRC_LOGGING(g_mrc.reads)) {
		g_mrc.r[g_mrc.reads].rd = m;
		g_mrc.r[g_mrc.reads].buf = data;
		g_mrc.r[g_mrc.reads].n = size;
		g_mrc.r[g_mrc.reads].seq = g_mrc.ops;
	}
	if (!MRC_IS_PAYLOAD(data, size)) {
		VERIF_ASSERT(size <= MRC_SMALL, ENV_NAME("meta_read.small_record"));
#define MRC_B1(i) if ((size_t)(i) < size) b[i] = verif_nd_u8("mr.byte");
#define MRC_B8(o) MRC_B1(o) MRC_B1(o + 1) MRC_B1(o + 2) MRC_B1(o + 3) \
	MRC_B1(o + 4) MRC_B1(o + 5) MRC_B1(o + 6) MRC_B1(o + 7)
		MRC_B8(0) MRC_B8(8) MRC_B8(16) MRC_B8(24) MRC_B8(32)
#if MRC_SMALL > 40
#error "MRC_SMALL > 40 not supported"
#endif
		MRC_FIXUP(m, b, size, g_mrc.reads);
#define MRC_V1(i) if ((size_t)(i) < size) val |= (sqfs_u64)b[i] << (8 * (i));
		MRC_V1(0) MRC_V1(1) MRC_V1(2) MRC_V1(3)
		MRC_V1(4) MRC_V1(5) MRC_V1(6) MRC_V1(7)
#define MRC_V2(i) if ((size_t)(i) < size) val_hi |= (sqfs_u64)b[i] << (8 * ((i) - 8));
		MRC_V2(8) MRC_V2(9) MRC_V2(10) MRC_V2(11)
		MRC_V2(12) MRC_V2(13) MRC_V2(14) MRC_V2(15)
	} else {
		sqfs_u8 v = verif_nd_u8("mr.vk");
#ifdef VERIF_REPLAY
		(memset)(b, v ^ 0x55, size);	/* natively: the whole transfer */
#endif
		if (g_k < size)
			b[g_k] = v;
		val = v;
	}
	/* the transfer above also stands for "buffer contents arbitrary after
	   a failure"; deciding the outcome only now keeps concrete tags
	   (MRC_FIXUP) concrete on every path */
	if (verif_nd_bool("mr.fail")) {
		int e = env_nd_error("mr.err");
		g_mrc.failed = true;
		g_mrc.pos_valid = false;
		if (MRC_LOGGING(g_mrc.reads))
			g_mrc.r[g_mrc.reads].ret = e;
		++g_mrc.reads;
		return e;
	}
	g_mrc.pos.block = verif_nd_u64("mr.pos.block");
	g_mrc.pos.off = verif_nd_size("mr.pos.off");
	g_mrc.bytes += size;
	if (MRC_LOGGING(g_mrc.reads)) {
		g_mrc.r[g_mrc.reads].val = val;
		g_mrc.r[g_mrc.reads].val_hi = val_hi;
		g_mrc.r[g_mrc.reads].after = g_mrc.pos;
		g_mrc.r[g_mrc.reads].ret = 0;
	}
	++g_mrc.reads;
	return 0;
}

void sqfs_meta_reader_get_position(const sqfs_meta_reader_t *m,
				   sqfs_u64 *block_start, size_t *offset)
{
	VERIF_ASSERT(m != NULL && (m == g_mrc_rd0 || m == g_mrc_rd1) &&
		     g_mrc.pos_valid, ENV_NAME("meta_get_position.pre"));
	*block_start = g_mrc.pos.block;
	*offset = g_mrc.pos.off;
}

int sqfs_meta_reader_seek(sqfs_meta_reader_t *m, sqfs_u64 block_start,
			  size_t offset)
{
	int ret = 0;

	VERIF_ASSERT(m != NULL && (m == g_mrc_rd0 || m == g_mrc_rd1),
		     ENV_NAME("meta_seek.reader"));
	MRC_ON_SEEK(m, block_start, offset);
	++g_mrc.ops;
	if (verif_nd_bool("ms.fail")) {
		ret = env_nd_error("ms.err");
		g_mrc.failed = true;
		g_mrc.pos_valid = false;
	} else {
		g_mrc.pos.block = block_start;
		g_mrc.pos.off = offset;
		g_mrc.pos_valid = true;
	}
	if (MRC_LOGGING(g_mrc.seeks)) {
		g_mrc.s[g_mrc.seeks].rd = m;
		g_mrc.s[g_mrc.seeks].to.block = block_start;
		g_mrc.s[g_mrc.seeks].to.off = offset;
		g_mrc.s[g_mrc.seeks].ret = ret;
		g_mrc.s[g_mrc.seeks].seq = g_mrc.ops;
	}
	++g_mrc.seeks;
	return ret;
}

#endif /* MR_CONTRACT_H */
