PROPERTY = "C10"
LEVEL = "proof"
FUNCTIONS = ["sqfs_meta_reader_seek"]
TRUSTED = []
ASSUMPTIONS = []
_FP = {"read_at": "stub_read_at", "do_block": "stub_do_block",
       "destroy": "meta_reader_destroy", "copy": "meta_reader_copy"}
HARNESSES = [
    dict(name="meta_seek", file="meta_seek.c", label="proved", fp=_FP, timeout=600),
]
