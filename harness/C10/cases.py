PROPERTY = "C10"
LEVEL = "proof"
FUNCTIONS = ["sqfs_meta_reader_seek", "sqfs_meta_reader_read",
             "precache_data_block", "precache_fragment_block", "get_block",
             "sqfs_data_reader_load_fragment_table",
             "read_value_hdr", "sqfs_xattr_reader_read_value",
             "sqfs_xattr_reader_load", "sqfs_xattr_reader_get_desc",
             "sqfs_meta_reader_readdir", "sqfs_meta_reader_read_dir_header",
             "sqfs_meta_reader_read_dir_ent", "sqfs_meta_reader_read_inode",
             "sqfs_frag_table_lookup", "sqfs_id_table_index_to_id"]
TRUSTED = [
    "sqfs_file_t.read_at contract (harness/C10/rd_env.h): arbitrary bytes or any negative error; requires a writable buffer of the requested size; deterministic per offset",
    "sqfs_compressor_t.do_block contract (un-compress): any r <= outsize or negative, writes only out[0..r)",
    "sqfs_meta_reader_t contract (harness/C10/mr_contract.h) where a function only USES a metadata reader (readdir, read_inode, xattr reader): seek sets the cursor or fails, read delivers arbitrary bytes and moves the cursor arbitrarily or fails; the real seek/read are verified in meta_seek / meta_read",
    "sqfs_frag_table_lookup / _read / _get_size contracts in the data reader harnesses (the real lookup is verified in frag_lookup, the real read in C05)",
    "sqfs_meta_reader_create contract in xattr_load: fresh object or NULL",
    "CBMC memory model: malloc/calloc return fresh non-overlapping objects, malloc'ed contents arbitrary; every allocation may fail (--malloc-may-fail)",
    "CBMC array theory back end (--arrays-uf-always) for the 8 KiB..1 MiB buffers",
]
ASSUMPTIONS = [
    "method: every operation is verified from an ARBITRARY cache state satisfying the representation invariant (or, for the data block cache, from every state reachable by one load from the empty cache - a load replaces the whole cache); together with determinism of read_at/do_block (assumed) tag-payload coherence is the induction step of 'cached payload = decode(image, tag)', hence answers are functions of (image, query)",
    "cursor-relative calls are outside the claim: sqfs_meta_reader_read right after a FAILED seek (every high-level reader operation starts with a seek; C05.meta.seek_wf covers the memory safety of that sequence)",
    "payload contents are tracked through one arbitrary witness position per buffer (all other bytes arbitrary), not byte for byte",
    "the equivalence of the three file data APIs (C10.api.agree: stream / positional read / per-block access compute the same block index, offset and source) is NOT established here; each API is verified separately for memory safety and cache coherence only",
    "sqfs_dir_reader_* (path resolution, open_dir, get_inode) and dir_iterator.c are not covered; their use of the readers is through the functions verified here",
    "copies of reader objects (C19) and readers shared between threads are out of scope",
    "xattr_load: the id table is bounded to <= 2 blocks (<= 1024 xattr ids) for the byte-swap loop; xattr_desc: id table of 3 blocks",
]
EXPLANATION = ("contracts on the real cache-touching functions of meta_reader.c, data_reader.c, "
               "xattr_reader.c, readdir.c, read_inode.c: from an arbitrary well-formed cache/cursor "
               "state and arbitrary image bytes, each operation leaves the cache tag naming exactly "
               "the payload it holds (or no payload), never consults state owned by another query, "
               "and returns an object fully determined by the delivered bytes")
_FP = {"read_at": "stub_read_at", "do_block": "stub_do_block",
       "destroy": "meta_reader_destroy", "copy": "meta_reader_copy"}
_FP_DR = {"read_at": "stub_read_at", "do_block": "stub_do_block",
          "destroy": "data_reader_destroy", "copy": "data_reader_copy"}
_BS_QUICK = [4096, 131072]
_BS_ALL = [4096, 8192, 16384, 32768, 65536, 131072, 262144, 524288, 1048576]

def _bs_cases():
    return [dict(id="bs%d" % b, defines={"BS": b},
                 tier="quick" if b in _BS_QUICK else "thorough") for b in _BS_ALL]

HARNESSES = [
    dict(name="meta_seek", file="meta_seek.c", label="proved", fp=_FP, timeout=170,
         flags=["--arrays-uf-always"]),
    dict(name="meta_read", file="meta_read.c", label="proved", fp=_FP, timeout=170,
         loops=["sqfs_meta_reader_read"], defines={"MR_CAP": 1048576},
         flags=["--arrays-uf-always"]),
    dict(name="dr_block", file="dr_block.c", label="proved", fp=_FP_DR, timeout=170,
         malloc_fail=True, flags=["--arrays-uf-always"]),
    dict(name="dr_frag", file="dr_frag.c", label="proved", fp=_FP_DR, timeout=170,
         malloc_fail=True, flags=["--arrays-uf-always"]),
    dict(name="dr_loadfrag", file="dr_loadfrag.c", label="proved", fp=_FP_DR, timeout=170,
         malloc_fail=True, flags=["--arrays-uf-always"]),
    dict(name="xattr_value", file="xattr_value.c", label="proved", timeout=170,
         fp={"read_at": "stub_read_at", "destroy": "xattr_reader_destroy",
             "copy": "xattr_reader_copy"},
         malloc_fail=True, flags=["--arrays-uf-always"]),
    dict(name="frag_lookup", file="frag_lookup.c", label="proved", timeout=170,
         fp={"read_at": "stub_read_at", "destroy": "frag_table_destroy",
             "copy": "frag_table_copy"},
         flags=["--arrays-uf-always"]),
    dict(name="id_lookup", file="id_lookup.c", label="proved", timeout=170,
         fp={"read_at": "stub_read_at", "destroy": "id_table_destroy",
             "copy": "id_table_copy"},
         flags=["--arrays-uf-always"]),
    # --conversion-check is off here: inum_base + (s16)inode_diff converts a
    # negative difference to unsigned on purpose (well defined, modulo 2^32)
    dict(name="readdir", file="readdir.c", label="proved", timeout=170,
         nochecks=["--conversion-check"],
         malloc_fail=True, flags=["--arrays-uf-always"]),
    # --- added after the lead's seeded-change run (C10-2, C10-3) ---------------
    # 11 of the 14 inode types (file, ext. file and ext. directory with their
    # variable payloads are run under C05 only): the split does not cover the
    # whole domain, hence not labelled proved
    dict(name="read_inode", file="read_inode.c",
         label="bounded(11 of 14 inode types)", timeout=170,
         malloc_fail=True, flags=["--arrays-uf-always"],
         nochecks=["--conversion-check"],   # 32 bit payload size fields: C05
         cases=[dict(id=n, defines={"ITYPE": t}, tier="quick")
                for t, n in [(1, "dir"), (3, "slink"), (4, "bdev"), (5, "cdev"), (6, "fifo"),
                             (7, "socket"), (10, "slink_ext"), (11, "bdev_ext"),
                             (12, "cdev_ext"), (13, "fifo_ext"), (14, "socket_ext")]]),
    dict(name="xattr_load", file="xattr_load.c", label="bounded(xattr id table blocks <= 2)",
         timeout=170, malloc_fail=True,
         fp={"read_at": "stub_read_at", "do_block": "stub_do_block",
             "destroy": "xl_reader_destroy",
             "copy": "xattr_reader_copy"},
         cases=[dict(id="idblk%d" % k, defines={"NIDBLK": k}, tier="quick",
                     unwindset=["sqfs_xattr_reader_load.0:%d" % (k + 1)]) for k in (0, 1, 2)]),
    dict(name="xattr_desc", file="xattr_desc.c", label="proved", timeout=170,
         fp={"read_at": "stub_read_at", "destroy": "xattr_reader_destroy",
             "copy": "xattr_reader_copy"},
         unwindset=["harness.0:4", "harness.1:9", "verif_nd_bytes.0:17", "memset.0:17"]),
]
