PROPERTY = "C10"
LEVEL = "proof"
FUNCTIONS = ["sqfs_meta_reader_seek"]
TRUSTED = []
ASSUMPTIONS = []
_FP = {"read_at": "stub_read_at", "do_block": "stub_do_block",
       "destroy": "meta_reader_destroy", "copy": "meta_reader_copy"}
_FP_DR = {"read_at": "stub_read_at", "do_block": "stub_do_block",
          "destroy": "data_reader_destroy", "copy": "data_reader_copy"}
_BS_QUICK = [4096, 131072]
_BS_ALL = [4096, 8192, 16384, 32768, 65536, 131072, 262144, 524288, 1048576]

def _bs_cases():
    return [dict(id="bs%d" % b, defines={"BS": b},
                 tier="quick" if b in _BS_QUICK else "thorough") for b in _BS_ALL]

HARNESSES = [
    dict(name="meta_seek", file="meta_seek.c", label="proved", fp=_FP, timeout=170,
         flags=["--arrays-uf-always"]),
    dict(name="meta_read", file="meta_read.c", label="proved", fp=_FP, timeout=170,
         loops=["sqfs_meta_reader_read"], defines={"MR_CAP": 1048576},
         flags=["--arrays-uf-always"]),
    dict(name="dr_block", file="dr_block.c", label="proved", fp=_FP_DR, timeout=170,
         malloc_fail=True, flags=["--arrays-uf-always"]),
    dict(name="dr_frag", file="dr_frag.c", label="proved", fp=_FP_DR, timeout=170,
         malloc_fail=True, flags=["--arrays-uf-always"]),
    dict(name="dr_loadfrag", file="dr_loadfrag.c", label="proved", fp=_FP_DR, timeout=170,
         malloc_fail=True, flags=["--arrays-uf-always"]),
    dict(name="xattr_value", file="xattr_value.c", label="proved", timeout=170,
         fp={"read_at": "stub_read_at", "destroy": "xattr_reader_destroy",
             "copy": "xattr_reader_copy"},
         malloc_fail=True, flags=["--arrays-uf-always"]),
    dict(name="frag_lookup", file="frag_lookup.c", label="proved", timeout=170,
         fp={"read_at": "stub_read_at", "destroy": "frag_table_destroy",
             "copy": "frag_table_copy"},
         flags=["--arrays-uf-always"]),
    dict(name="id_lookup", file="id_lookup.c", label="proved", timeout=170,
         fp={"read_at": "stub_read_at", "destroy": "id_table_destroy",
             "copy": "id_table_copy"},
         flags=["--arrays-uf-always"]),
    # --conversion-check is off here: inum_base + (s16)inode_diff converts a
    # negative difference to unsigned on purpose (well defined, modulo 2^32)
    dict(name="readdir", file="readdir.c", label="proved", timeout=170,
         nochecks=["--conversion-check"],
         malloc_fail=True, flags=["--arrays-uf-always"]),
]
