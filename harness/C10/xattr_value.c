/* C10: sqfs_xattr_reader_read_value / read_value_hdr (xattr_reader.c): the kv
 * meta reader's cursor is shared state; an out-of-line value makes the reader
 * take a detour. The metadata reader is replaced by its contract with a ghost
 * cursor (g_pos): read delivers arbitrary bytes and moves the cursor to an
 * arbitrary new place (or fails), get_position reports it, seek sets it (or
 * fails and leaves it undefined).
 *
 *   C10.xattr.pos_restored     ret == 0 for an out-of-line key => the last
 *                              operation on the kv reader was a successful
 *                              seek to the position saved right after the
 *                              8 byte reference, and the cursor is there
 *   C10.xattr.inline_no_seek   ret == 0 for an inline key => no seek at all,
 *                              value bytes read right after the header
 *   C10.xattr.detour_target    the detour seek goes to xattr_start + (ref>>16)
 *                              at offset ref & 0xFFFF, inside the table
 *   C10.xattr.value_source     the returned size is the one of the header
 *                              read last (at the detour for OOL), and exactly
 *                              that many bytes were read into the value
 *   C10.xattr.fail_reported    any failing reader call => non-zero result,
 *                              nothing returned (the caller re-seeks: every
 *                              listing starts with sqfs_xattr_reader_seek_kv)
 */
#include <stdlib.h>
#include <string.h>
#include <errno.h>
#include "verif.h"
#ifndef ENV_PROP
#define ENV_PROP "C10"	/* harness/C05/xattr_value.c re-uses this file */
#endif
#define XV(s) ENV_PROP ".xattr." s
#define ENV_NO_MEM_OVERRIDE
#include "C10/rd_env.h"
#include "C10/mr_contract.h"
#include "lib/sqfs/src/xattr/xattr_reader.c"

static sqfs_meta_reader_t *g_kv;

void harness(void)
{
	sqfs_xattr_reader_t *xr = malloc(sizeof(*xr));
	sqfs_xattr_entry_t key;
	sqfs_xattr_value_t *val = NULL;
	bool ool;
	int ret;

	VERIF_ASSUME(xr != NULL);
	env_init();
	env_objects_init();
	g_kv = malloc(1);
	VERIF_ASSUME(g_kv != NULL);
	xr->base.refcount = 1;
	xr->base.destroy = xattr_reader_destroy;
	xr->base.copy = xattr_reader_copy;
	xr->xattr_start = verif_nd_u64("xattr_start");
	xr->xattr_end = verif_nd_u64("xattr_end");
	xr->num_id_blocks = 0;
	xr->num_ids = 0;
	xr->id_block_starts = NULL;
	xr->idrd = NULL;
	xr->kvrd = g_kv;

	/* the key header as a previous read_key left it (host byte order) */
	key.type = verif_nd_u16("key.type");
	key.size = verif_nd_u16("key.size");
	ool = (key.type & SQFS_XATTR_FLAG_OOL) != 0;

	mrc_init();
	g_mrc_rd0 = g_kv;
	VERIF_ASSUME(g_mrc.pos_valid);

	ret = sqfs_xattr_reader_read_value(xr, &key, &val);

	if (ret == 0) {
		VERIF_ASSERT(!g_mrc.failed && val != NULL, XV("fail_reported"));
		if (ool) {
			sqfs_u64 ref = g_mrc.r[1].val;

			VERIF_ASSERT(g_mrc.reads == 4 && g_mrc.seeks == 2 &&
				     g_mrc.r[0].n == 4 && g_mrc.r[1].n == 8 &&
				     g_mrc.s[0].seq == 3 &&
				     g_mrc.s[0].to.block ==
					xr->xattr_start + (ref >> 16) &&
				     g_mrc.s[0].to.off == (ref & 0xFFFF) &&
				     g_mrc.s[0].to.block < xr->xattr_end,
				     XV("detour_target"));
			VERIF_ASSERT(g_mrc.s[1].seq == g_mrc.ops && g_mrc.s[1].ret == 0 &&
				     g_mrc.s[1].to.block == g_mrc.r[1].after.block &&
				     g_mrc.s[1].to.off == g_mrc.r[1].after.off &&
				     g_mrc.pos_valid &&
				     g_mrc.pos.block == g_mrc.r[1].after.block &&
				     g_mrc.pos.off == g_mrc.r[1].after.off,
				     XV("pos_restored"));
			VERIF_ASSERT(g_mrc.r[2].n == 4 &&
				     val->size == (sqfs_u32)g_mrc.r[2].val &&
				     g_mrc.r[3].buf == (void *)val->value &&
				     g_mrc.r[3].n == val->size,
				     XV("value_source"));
		} else {
			VERIF_ASSERT(g_mrc.seeks == 0 && g_mrc.reads == 2 && g_mrc.pos_valid &&
				     g_mrc.pos.block == g_mrc.r[1].after.block &&
				     g_mrc.pos.off == g_mrc.r[1].after.off,
				     XV("inline_no_seek"));
			VERIF_ASSERT(g_mrc.r[0].n == 4 &&
				     val->size == (sqfs_u32)g_mrc.r[0].val &&
				     g_mrc.r[1].buf == (void *)val->value &&
				     g_mrc.r[1].n == val->size,
				     XV("value_source"));
		}
	} else {
		VERIF_ASSERT(val == NULL, XV("fail_reported"));
	}
	if (g_mrc.failed)
		VERIF_ASSERT(ret != 0, XV("fail_reported"));

	VERIF_COVER(ret == 0 && ool);
	VERIF_COVER(ret == 0 && !ool && val->size > 100);
	VERIF_COVER(ret != 0 && ool && g_mrc.seeks == 2);
	VERIF_COVER(ret != 0 && !g_mrc.failed);
	free(val);
	free(g_kv);
	free(xr);
}
