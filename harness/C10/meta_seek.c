/* C10: sqfs_meta_reader_seek, tag-payload coherence of the one-block cache.
 *
 * The reader is put into an ARBITRARY well-formed cache state (any tag, any
 * data_used <= 8192, any cursor <= data_used, arbitrary payload bytes) - this
 * replaces "any history of earlier calls". The image and the un-compressor
 * are the contracts of rd_env.h. One call of the real function with arbitrary
 * arguments must leave the cache coherent:
 *
 *   C10.meta.seek_ok_tag         ret == 0  => tag == requested block, cursor ==
 *                                requested offset < data_used <= 8192
 *   C10.meta.seek_hit_clean      ret == 0 on a hit (requested == old tag) =>
 *                                no environment call, payload untouched
 *   C10.meta.seek_miss_loaded    ret == 0 on a miss => the payload is what the
 *                                environment delivered for exactly this block:
 *                                header read at block, body read at block+2
 *                                with the header's length, un-compressed iff
 *                                bit 15 clear, data_used / next_block / witness
 *                                byte agree with it
 *   C10.meta.seek_fail_coherent  ret != 0 => the cache is unchanged (payload
 *                                not written, tag, data_used, next_block as
 *                                before), or the tag can never hit again
 *                                (outside [start, limit)), or the block was
 *                                loaded completely and the tag names it
 *   C10.meta.seek_reject_early   block outside [start, limit) => error and no
 *                                environment call
 */
#include <stdlib.h>
#include <string.h>
#include "verif.h"
#define ENV_PROP "C10"
static bool g_payload_dirty;
static void *g_pl_lo;
static size_t g_pl_sz;
#define ENV_ON_WRITE(p, n) do { \
	if ((n) > 0 && VERIF_SAME_OBJECT((p), g_pl_lo) && \
	    env_overlaps((p), (n))) g_payload_dirty = true; } while (0)
static bool env_overlaps(const void *p, size_t n);
#ifdef VERIF_REPLAY
#define ENV_IS_PAYLOAD(p, n) env_overlaps((p), 1)
#else
#define ENV_IS_PAYLOAD(p, n) VERIF_SAME_OBJECT((p), g_pl_lo)
#endif
#include "C10/rd_env.h"
#include "lib/sqfs/src/meta_reader.c"

static sqfs_meta_reader_t *g_m;

static bool env_overlaps(const void *p, size_t n)
{
#ifdef VERIF_REPLAY
	const char *a = p, *lo = (const char *)g_m->data;
	return a < lo + sizeof(g_m->data) && a + n > lo;
#else
	size_t a = VERIF_POINTER_OFFSET(p);
	size_t lo = VERIF_POINTER_OFFSET(g_pl_lo);
	return a < lo + g_pl_sz && a + n > lo;
#endif
}

void harness(void)
{
	sqfs_meta_reader_t *m = malloc(sizeof(*m));
	sqfs_u64 block_start, old_tag, old_next;
	size_t offset, old_used;
	sqfs_u16 hdr;
	bool hit, in_window, loaded;
	int ret;

	VERIF_ASSUME(m != NULL);
	env_init();
	env_objects_init();
	g_m = m;
	g_pl_lo = m->data;
	g_pl_sz = sizeof(m->data);

	/* arbitrary well-formed reader state */
	m->base.refcount = 1;
	m->base.destroy = meta_reader_destroy;
	m->base.copy = meta_reader_copy;
	m->file = &g_file;
	m->cmp = &g_cmp;
	m->start = verif_nd_u64("start");
	m->limit = verif_nd_u64("limit");
	m->block_offset = verif_nd_u64("tag");
	m->next_block = verif_nd_u64("next");
	m->data_used = verif_nd_size("used");
	m->offset = verif_nd_size("cursor");
	VERIF_ASSUME(m->data_used <= sizeof(m->data));
	VERIF_ASSUME(m->offset <= m->data_used);
#ifdef VERIF_REPLAY
	(memset)(m->data, 0xA5, sizeof(m->data));
	(memset)(m->scratch, 0x5A, sizeof(m->scratch));
#endif

	block_start = verif_nd_u64("block_start");
	offset = verif_nd_size("offset");

	old_tag = m->block_offset;
	old_next = m->next_block;
	old_used = m->data_used;
	hit = (block_start == old_tag);
	in_window = (block_start >= m->start && block_start < m->limit);
	g_payload_dirty = false;

	ret = sqfs_meta_reader_seek(m, block_start, offset);

	/* what did the environment deliver? */
	loaded = false;
	hdr = 0;
	if (g_rd_n == 2 && g_rd[0].ret == 0 && g_rd[1].ret == 0 &&
	    g_rd[0].off == block_start && g_rd[0].n == 2 &&
	    g_rd[1].off == block_start + 2 && g_rd[1].buf == (void *)m->data) {
		/* the on-disk header: bit 15 set = stored uncompressed,
		   low 15 bits = stored length */
		hdr = (sqfs_u16)g_rd[0].val;
		if ((hdr & 0x7FFF) != g_rd[1].n ||
		    ((hdr & 0x8000) != 0) != (g_blk_n == 0)) {
			loaded = false;
		} else if (g_blk_n == 0 && g_cpy_n == 0) {
			loaded = (m->data_used == g_rd[1].n);
		} else if (g_blk_n == 1 && g_cpy_n == 1) {
			loaded = g_blk[0].ret >= 0 &&
				g_blk[0].in == m->data &&
				g_blk[0].n == g_rd[1].n &&
				g_blk[0].out == m->scratch &&
				g_blk[0].m == sizeof(m->scratch) &&
				g_cpy[0].dst == (void *)m->data &&
				g_cpy[0].src == (const void *)m->scratch &&
				g_cpy[0].n == (size_t)g_blk[0].ret &&
				m->data_used == (size_t)g_blk[0].ret;
			if (loaded && g_k < m->data_used)
				loaded = (m->data[g_k] == g_blk_val);
		}
		if (loaded)
			loaded = (m->next_block == block_start + 2 + g_rd[1].n) &&
				g_rd[1].n <= sizeof(m->data);
		if (loaded && g_blk_n == 0 && g_k < g_rd[1].n)
			loaded = (m->data[g_k] == g_rd[1].vk);
	}

	if (ret == 0) {
		VERIF_ASSERT(m->block_offset == block_start &&
			     m->offset == offset && offset < m->data_used &&
			     m->data_used <= sizeof(m->data),
			     "C10.meta.seek_ok_tag");
		VERIF_ASSERT(in_window, "C10.meta.seek_reject_early");
		if (hit) {
			VERIF_ASSERT(g_env_seq == 0 && !g_payload_dirty &&
				     m->data_used == old_used &&
				     m->next_block == old_next,
				     "C10.meta.seek_hit_clean");
		} else {
			VERIF_ASSERT(loaded, "C10.meta.seek_miss_loaded");
		}
	} else {
		bool unchanged = !g_payload_dirty &&
			m->block_offset == old_tag &&
			m->data_used == old_used && m->next_block == old_next;
		bool dead_tag = !(m->block_offset >= m->start &&
				  m->block_offset < m->limit);
		bool complete = loaded && m->block_offset == block_start;

		VERIF_ASSERT(unchanged || dead_tag || complete,
			     "C10.meta.seek_fail_coherent");
		if (!in_window)
			VERIF_ASSERT(g_env_seq == 0, "C10.meta.seek_reject_early");
	}
	VERIF_COVER(ret == 0 && hit);
	VERIF_COVER(ret == 0 && !hit && g_blk_n == 0);
	VERIF_COVER(ret == 0 && !hit && g_blk_n == 1 && g_k < m->data_used);
	VERIF_COVER(ret != 0 && !in_window);
	VERIF_COVER(ret != 0 && in_window && g_rd_n == 1);
	VERIF_COVER(ret != 0 && g_rd_n == 2 && g_blk_n == 1);
	VERIF_COVER(ret != 0 && g_payload_dirty);
	free(m);
}
