/* C10 (and the memory-safety core of C05): sqfs_meta_reader_read from an
 * ARBITRARY well-formed reader state, for every request size, with the real
 * sqfs_meta_reader_seek (loop free) running against the image / un-compressor
 * contracts. The loop is closed by the loop contract in contracts/loops/
 * C10.tbl - no unwinding, so any number of block refills is covered.
 *
 *   C10.meta.read_from_cursor  every byte handed out is copied from the cached
 *                              block at the cursor: src == data + offset,
 *                              1 <= n <= data_used - offset, dst == out + done;
 *                              the cursor is where it was on entry plus what
 *                              was handed out since (ghost g_mr.cur)
 *   C10.meta.read_refill_next  the block is replaced only when the cursor is at
 *                              its end, and by the block at next_block
 *   C10.meta.read_complete     ret == 0 => exactly `size` bytes were delivered
 *   (loop invariant)           the reader stays well formed (data_used <= 8192,
 *                              offset <= data_used) across every refill
 *   (decreases)                termination for every size and image
 */
#include <stdlib.h>
#include <string.h>
#include <stdint.h>
#include "verif.h"
#ifndef ENV_PROP
#define ENV_PROP "C10"	/* harness/C05/meta_read.c re-uses this file */
#endif
#define MRN(s) ENV_PROP ".meta." s

typedef struct {
	unsigned char *out;	/* destination buffer */
	size_t size0;		/* requested size */
	size_t done;		/* bytes delivered so far */
	size_t cur;		/* where the read cursor has to be: entry value,
				   plus what was handed out, 0 after a refill */
} mr_ghost_t;
static mr_ghost_t g_mr;

static void *mr_copy_out(void *d, const void *s, size_t n);
static void mr_on_read_at(unsigned long long off, void *buf, size_t n);
static int mr_in_reader(const void *p);
#define ENV_ON_READ_AT(off, buf, n) mr_on_read_at((off), (buf), (n))
#define ENV_IS_PAYLOAD(p, n) mr_in_reader(p)
#define ENV_NO_MEM_OVERRIDE
#include "C10/rd_env.h"
/* Static dispatch between the two memcpy sites of meta_reader.c: in seek the
 * destination is the array m->data (sizeof == 8192), in read it is the
 * caller's void pointer. The copy-out must not be modelled through the
 * (loop-havocked) pointer `data` - CBMC would consider every object of the
 * program as its target - but through the typed lvalues it is asserted to
 * equal. */
#define memcpy(d, s, n) (sizeof(d) == SQFS_META_BLOCK_SIZE ? \
	verif_memcpy((void *)(d), (s), (n)) : mr_copy_out((void *)(d), (s), (n)))
#include "lib/sqfs/src/meta_reader.c"

static sqfs_meta_reader_t *g_m;

static int mr_in_reader(const void *p)
{
#ifdef VERIF_REPLAY
	return (const char *)p >= (const char *)g_m &&
		(const char *)p < (const char *)(g_m + 1);
#else
	return VERIF_SAME_OBJECT(p, g_m);
#endif
}

static void *mr_copy_out(void *d, const void *s, size_t n)
{
	VERIF_ASSERT((const sqfs_u8 *)s == g_m->data + g_mr.cur &&
		     g_m->offset == g_mr.cur &&
		     g_m->offset <= g_m->data_used &&
		     n >= 1 && n <= g_m->data_used - g_m->offset &&
		     (unsigned char *)d == g_mr.out + g_mr.done &&
		     n <= g_mr.size0 - g_mr.done,
		     MRN("read_from_cursor"));
	++g_env_seq;
#ifdef VERIF_REPLAY
	(memcpy)(d, s, n);
#else
	/* the same transfer through the typed lvalues, witness position */
	if (g_k < n)
		g_mr.out[g_mr.done + g_k] = g_m->data[g_m->offset + g_k];
#endif
	g_mr.done += n;
	g_mr.cur += n;
	return d;
}

static void mr_on_read_at(unsigned long long off, void *buf, size_t n)
{
	if (mr_in_reader(buf)) {
		g_mr.cur = 0;	/* block body: a refill starts at offset 0 */
		return;
	}
	/* block header: a refill */
	VERIF_ASSERT(n == 2 && g_m->offset == g_m->data_used &&
		     g_m->offset == g_mr.cur &&
		     off == g_m->next_block, MRN("read_refill_next"));
}

void harness(void)
{
	sqfs_meta_reader_t *m = malloc(sizeof(*m));
	size_t size = verif_nd_size("size");
	size_t cap = verif_nd_size("cap");
	unsigned char *out;
	int ret;

	VERIF_ASSUME(m != NULL);
	env_init();
	env_objects_init();
	g_m = m;

	m->base.refcount = 1;
	m->base.destroy = meta_reader_destroy;
	m->base.copy = meta_reader_copy;
	m->file = &g_file;
	m->cmp = &g_cmp;
	m->start = verif_nd_u64("start");
	m->limit = verif_nd_u64("limit");
	m->block_offset = verif_nd_u64("tag");
	m->next_block = verif_nd_u64("next");
	m->data_used = verif_nd_size("used");
	m->offset = verif_nd_size("cursor");
	VERIF_ASSUME(m->data_used <= sizeof(m->data));
	VERIF_ASSUME(m->offset <= m->data_used);
	/* the block after the cached one is not the cached one (holds in every
	   reachable state, see contracts/loops/C10.tbl; re-established by the
	   loop invariant) */
	VERIF_ASSUME(m->next_block != m->block_offset ||
		     m->block_offset >= m->limit);
#ifdef VERIF_REPLAY
	(memset)(m->data, 0xA5, sizeof(m->data));
	(memset)(m->scratch, 0x5A, sizeof(m->scratch));
#endif

	/* destination: any buffer with at least `size` bytes */
	VERIF_ASSUME(cap >= 1 && cap <= MR_CAP && size <= cap);
	out = malloc(cap);
	VERIF_ASSUME(out != NULL);
	g_mr.out = out;
	g_mr.size0 = size;
	g_mr.done = 0;
	g_mr.cur = m->offset;

	ret = sqfs_meta_reader_read(m, out, size);

	if (ret == 0)
		VERIF_ASSERT(g_mr.done == size, MRN("read_complete"));

	VERIF_COVER(ret == 0 && size > 8192 * 2);
	VERIF_COVER(ret == 0 && size > 0 && g_rd_n == 0);
	VERIF_COVER(ret == 0 && g_rd_n > 0);
	VERIF_COVER(ret != 0);
	free(out);
	free(m);
}
