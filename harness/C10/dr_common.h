/* dr_common.h - typed wrapper for sqfs_data_reader_t (flexible array member
 * `scratch[]`), DESIGN 2.4: never malloc(sizeof + symbolic). The block size is
 * the compile-time parameter BS of the harness; the driver runs one case per
 * legal block size. Includes rd_env.h (define ENV_PROP and hooks first), the real data_reader.c
 * and the real alloc helpers (loop free, overflow checked).
 */
#ifndef DR_COMMON_H
#define DR_COMMON_H

#ifndef BS
#error "define BS (block size)"
#endif

/* rd->scratch is a flexible array member inside the wrapper: give the stubs
 * the wrapper's own array instead (same address, typed, indexable) */
#ifndef VERIF_REPLAY
struct dr_wrap;
static struct dr_wrap *g_w;
static unsigned char *dr_rebase(const void *p);
#define ENV_REBASE(p) (VERIF_SAME_OBJECT((p), g_w) ? dr_rebase(p) : (unsigned char *)(p))
#endif
#include "C10/rd_env.h"

#include "lib/util/src/alloc.c"
#include "lib/sqfs/src/data_reader.c"

/* Instances must come from calloc(1, sizeof(dr_wrap_t)): a malloc'ed or
 * automatic wrapper starts with nondeterministic contents, and the nondet
 * initialiser of the zero-length member rd.scratch is an array expression
 * CBMC's array theory (--arrays-uf-always, needed for 128 KiB..1 MiB buffers)
 * rejects; a static one loses the member path of &w->scratch in symex. The
 * scratch area is a pure transit buffer; its initial contents are never
 * observed. */
typedef struct dr_wrap {
	sqfs_data_reader_t rd;
	sqfs_u8 scratch[BS];
} dr_wrap_t;

#ifndef VERIF_REPLAY
_Static_assert(offsetof(dr_wrap_t, scratch) ==
	       offsetof(dr_wrap_t, rd) + offsetof(sqfs_data_reader_t, scratch),
	       "wrapper payload must coincide with the flexible array member");

static unsigned char *dr_rebase(const void *p)
{
	/* data_reader.c only ever passes the start of the scratch area */
	VERIF_ASSERT((const sqfs_u8 *)p == g_w->rd.scratch,
		     ENV_NAME("scratch_pointer_exact"));
	return g_w->scratch;
}
#else
static dr_wrap_t *g_w;
#endif

/* the frag table is only reached through sqfs_frag_table_* (stubbed or real,
 * harness decides); a dummy object stands for it where it is not used */
static void dr_base_init(dr_wrap_t *w, sqfs_frag_table_t *ft)
{
	g_w = w;
	w->rd.obj.refcount = 1;
	w->rd.obj.destroy = data_reader_destroy;
	w->rd.obj.copy = data_reader_copy;
	w->rd.frag_tbl = ft;
	w->rd.cmp = &g_cmp;
	w->rd.file = &g_file;
	w->rd.block_size = BS;
	w->rd.data_block = NULL;
	w->rd.data_blk_size = 0;
	w->rd.current_block = 0;
	w->rd.frag_block = NULL;
	w->rd.frag_blk_size = 0;
	w->rd.current_frag_index = 0;
}

#endif
