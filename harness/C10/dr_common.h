/* dr_common.h - sqfs_data_reader_t for the harnesses.
 *
 * The real object is allocated as alloc_flex(sizeof(*rd), 1, block_size): the
 * structure followed by block_size bytes reached through the flexible array
 * member `scratch[]`. DESIGN 2.4: never malloc(sizeof + n) under CBMC (the
 * object becomes an untyped byte array). The typed-wrapper alternative
 * struct { rd; u8 scratch[BS]; } works up to 128 KiB but costs 8 SAT variables
 * per scratch byte per SSA version (31 M variables at 128 KiB, over the
 * memory cap at 1 MiB), and CBMC's array theory rejects the nested zero-length
 * member. So here the structure and its trailing block_size bytes are two
 * objects: `rd` (exactly sizeof(sqfs_data_reader_t)) and a block_size heap
 * buffer; the environment stubs translate the pointer rd->scratch - asserted
 * to be exactly the start of the flexible array member, the only form
 * data_reader.c uses - to that buffer BEFORE checking their preconditions, so
 * "at most block_size bytes go through scratch" is still what is proved.
 * Natively (replay) the reader is allocated exactly as the library does.
 *
 * The block size is the compile-time parameter BS; the driver runs one case
 * per legal block size. Define ENV_PROP and hooks, then include this file: it
 * includes rd_env.h, the real data_reader.c and the real alloc helpers.
 */
#ifndef DR_COMMON_H
#define DR_COMMON_H

/* BS: block size. -DBS=<n> fixes it (replay, experiments); by default it is
 * SYMBOLIC: any value wf_super allows (power of two, 4 KiB .. 1 MiB). All
 * payload buffers are then objects of symbolic size, which CBMC's array
 * theory handles without allocating a variable per byte. */
#ifndef BS
static unsigned int g_bs;
#define BS g_bs
#define BS_SYMBOLIC 1
#endif

#ifndef VERIF_REPLAY
static unsigned char *g_scratch;	/* the block_size bytes behind rd */
static void *g_rd_obj;			/* the reader object */
static unsigned char *dr_rebase(const void *p);
#define ENV_REBASE(p) (VERIF_SAME_OBJECT((p), g_rd_obj) ? dr_rebase(p) : (unsigned char *)(p))
#endif
#include "C10/rd_env.h"

#include "lib/util/src/alloc.c"
#include "lib/sqfs/src/data_reader.c"

#ifndef VERIF_REPLAY
static unsigned char *dr_rebase(const void *p)
{
	VERIF_ASSERT((const sqfs_u8 *)p ==
		     ((sqfs_data_reader_t *)g_rd_obj)->scratch,
		     ENV_NAME("scratch_pointer_exact"));
	return g_scratch;
}
#endif

#ifdef VERIF_REPLAY
/* native link: the parts of frag_table.c that data_reader.c references but
 * a harness does not reach; a harness that defines one itself says so with
 * DR_DEFINES_LOOKUP / DR_DEFINES_TABLE_READ before including this file */
__attribute__((weak)) sqfs_frag_table_t *sqfs_frag_table_create(sqfs_u32 f)
{ (void)f; return NULL; }
#ifndef DR_DEFINES_TABLE_READ
__attribute__((weak)) int sqfs_frag_table_read(sqfs_frag_table_t *t, sqfs_file_t *f,
	const sqfs_super_t *s, sqfs_compressor_t *c)
{ (void)t; (void)f; (void)s; (void)c; return SQFS_ERROR_INTERNAL; }
__attribute__((weak)) size_t sqfs_frag_table_get_size(sqfs_frag_table_t *t)
{ (void)t; return 0; }
#endif
#ifndef DR_DEFINES_LOOKUP
__attribute__((weak)) int sqfs_frag_table_lookup(sqfs_frag_table_t *t, sqfs_u32 i,
	sqfs_fragment_t *o)
{ (void)t; (void)i; (void)o; return SQFS_ERROR_INTERNAL; }
#endif
#endif

static sqfs_data_reader_t *dr_new(sqfs_frag_table_t *ft)
{
	sqfs_data_reader_t *rd;

#ifdef BS_SYMBOLIC
	g_bs = verif_nd_u32("block_size");
	VERIF_ASSUME(g_bs >= SQFS_MIN_BLOCK_SIZE && g_bs <= SQFS_MAX_BLOCK_SIZE);
	VERIF_ASSUME((g_bs & (g_bs - 1)) == 0);
#endif

#ifdef VERIF_REPLAY
	rd = calloc(1, sizeof(*rd) + BS);
	VERIF_ASSUME(rd != NULL);
#else
	rd = malloc(sizeof(*rd));
	VERIF_ASSUME(rd != NULL);
	g_scratch = malloc(BS);
	VERIF_ASSUME(g_scratch != NULL);
	g_rd_obj = rd;
#endif
	rd->obj.refcount = 1;
	rd->obj.destroy = data_reader_destroy;
	rd->obj.copy = data_reader_copy;
	rd->frag_tbl = ft;
	rd->cmp = &g_cmp;
	rd->file = &g_file;
	rd->block_size = BS;
	rd->data_block = NULL;
	rd->data_blk_size = 0;
	rd->current_block = 0;
	rd->frag_block = NULL;
	rd->frag_blk_size = 0;
	rd->current_frag_index = 0;
	return rd;
}

static void dr_delete(sqfs_data_reader_t *rd)
{
	free(rd->data_block);
	free(rd->frag_block);
#ifndef VERIF_REPLAY
	free(g_scratch);
#endif
	free(rd);
}

#endif
