/* C10: sqfs_data_reader_load_fragment_table. Loading a (new) fragment table
 * changes what every fragment index means, so whatever the outcome the
 * fragment block cache must be empty afterwards; the data block cache is not
 * concerned. sqfs_frag_table_read / _get_size are replaced by their contracts
 * (C05 verifies the real ones): read returns 0 or an error, get_size returns
 * the entry count (at most 2^32-1, the width of the superblock field).
 *
 *   C10.data.loadfrag_invalidates   frag_block == NULL after the call,
 *                                   whatever it returns
 *   C10.data.loadfrag_error         an error of frag_table_read is returned
 *   C10.data.loadfrag_frame         data block cache untouched
 */
#include <stdlib.h>
#include <string.h>
#include <errno.h>
#include "verif.h"
#define ENV_PROP "C10"
#define ENV_IS_PAYLOAD(p, n) 1
#define DR_DEFINES_TABLE_READ
#include "C10/dr_common.h"
#include "sqfs/super.h"

static sqfs_frag_table_t *g_ft;
static sqfs_super_t g_super;
static int g_read_ret;
static unsigned g_read_n;
static sqfs_data_reader_t *g_rdp;

int sqfs_frag_table_read(sqfs_frag_table_t *tbl, sqfs_file_t *file,
			 const sqfs_super_t *super, sqfs_compressor_t *cmp)
{
	VERIF_ASSERT(tbl == g_ft && file == &g_file && cmp == &g_cmp &&
		     super == &g_super, "C10.env.frag_table_read.args");
	/* the table changes now: nothing may be cached under the old one */
	VERIF_ASSERT(g_rdp->frag_block == NULL,
		     "C10.data.loadfrag_invalidates");
	++g_read_n;
	g_read_ret = verif_nd_bool("ftr.fail") ? env_nd_error("ftr.err") : 0;
	return g_read_ret;
}

size_t sqfs_frag_table_get_size(sqfs_frag_table_t *tbl)
{
	VERIF_ASSERT(tbl == g_ft, "C10.env.frag_table_get_size.args");
	return verif_nd_u32("ft.size");
}

void harness(void)
{
	sqfs_data_reader_t *rd;
	sqfs_u8 *old_data;
	sqfs_u64 old_cur;
	int ret;

	env_init();
	env_objects_init();
	g_ft = malloc(1);
	VERIF_ASSUME(g_ft != NULL);
	rd = dr_new(g_ft);
	g_rdp = rd;
	g_read_n = 0;

	if (verif_nd_bool("frag.cached")) {
		rd->frag_block = malloc(BS);
		VERIF_ASSUME(rd->frag_block != NULL);
		rd->frag_blk_size = verif_nd_size("frag.size");
		VERIF_ASSUME(rd->frag_blk_size <= BS);
	}
	rd->current_frag_index = verif_nd_u32("frag.tag");
	if (verif_nd_bool("data.cached")) {
		rd->data_block = malloc(BS);
		VERIF_ASSUME(rd->data_block != NULL);
		rd->data_blk_size = BS;
	}
	rd->current_block = verif_nd_u64("data.tag");
	old_data = rd->data_block;
	old_cur = rd->current_block;

	ret = sqfs_data_reader_load_fragment_table(rd, &g_super);

	VERIF_ASSERT(rd->frag_block == NULL, "C10.data.loadfrag_invalidates");
	VERIF_ASSERT(g_read_n == 1 && ret == g_read_ret,
		     "C10.data.loadfrag_error");
	VERIF_ASSERT(rd->data_block == old_data && rd->current_block == old_cur,
		     "C10.data.loadfrag_frame");
	VERIF_COVER(ret == 0);
	VERIF_COVER(ret != 0);
	dr_delete(rd);
	free(g_ft);
}
