# C10 (lead, round 3): position reporting of the meta reader, total order of
# the directory cache, and the table loaders starting from a NON-EMPTY old
# table (harness/C05: a failed or empty reload must not leave the previous
# table behind - seed C10-6).
import os as _os, sys as _sys
_sys.path.insert(0, _os.path.join(_os.path.dirname(_os.path.abspath(__file__)), "..", "..", "tools"))
from borrow import borrow as _borrow

_FP = {"read_at": "stub_read_at", "do_block": "stub_do_block"}
HARNESSES = [
    dict(name="meta_getpos", file="meta_getpos.c", label="proved", timeout=170, fp=_FP,
         must_have=["C10.meta.get_position.seekable"]),
    dict(name="dcache_cmp", file="dcache_cmp.c", label="proved", timeout=170,
         fp={"read_at": "stub_read_at", "do_block": "stub_do_block", "*": None},
         must_have=["C10.dcache.cmp.sign"]),
] + _borrow(__file__, "C05", ["frag_table_read", "id_table_read"])
FUNCTIONS = ["sqfs_meta_reader_get_position", "dcache_key_compare",
             "sqfs_frag_table_read, sqfs_id_table_read (reload from a non-empty table; via harness/C05)"]
TRUSTED = []
ASSUMPTIONS = []
