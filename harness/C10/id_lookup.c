/* C10: sqfs_id_table_index_to_id is a pure function of (table, index).
 * Table of any length up to 65536 (the index is 16 bit), arbitrary ids.
 *
 *   C10.id.lookup_value   ret == 0 <=> index < used; then *out == ids[index]
 *   C10.id.lookup_pure    table unchanged; *out untouched on failure
 */
#include <stdlib.h>
#include <string.h>
#include "verif.h"
#define ENV_PROP "C10"
#define ENV_NO_MEM_OVERRIDE
#include "C10/rd_env.h"
#include "lib/sqfs/src/id_table.c"

void harness(void)
{
	sqfs_id_table_t *tbl = malloc(sizeof(*tbl));
	size_t used = verif_nd_size("used"), cap = verif_nd_size("count");
	sqfs_u32 *arr, out, out0;
	sqfs_u16 index = verif_nd_u16("index");
	size_t w = verif_nd_size("w");
	sqfs_u32 wv;
	array_t old;
	int ret;

	VERIF_ASSUME(tbl != NULL);
	VERIF_ASSUME(used <= cap && cap <= 0x10000 && cap >= 1);
	arr = malloc(cap * sizeof(*arr));
	VERIF_ASSUME(arr != NULL);
	tbl->base.refcount = 1;
	tbl->base.destroy = id_table_destroy;
	tbl->base.copy = id_table_copy;
	tbl->ids.size = sizeof(sqfs_u32);
	tbl->ids.count = cap;
	tbl->ids.used = used;
	tbl->ids.data = arr;
	old = tbl->ids;
	VERIF_ASSUME(w < cap);
	if (index < used)
		arr[index] = verif_nd_u32("id");
	wv = arr[w];
	out = out0 = verif_nd_u32("out");

	ret = sqfs_id_table_index_to_id(tbl, index, &out);

	VERIF_ASSERT((ret == 0) == (index < used) &&
		     (ret == 0 || ret == SQFS_ERROR_OUT_OF_BOUNDS),
		     "C10.id.lookup_value");
	if (ret == 0)
		VERIF_ASSERT(out == arr[index], "C10.id.lookup_value");
	else
		VERIF_ASSERT(out == out0, "C10.id.lookup_pure");
	VERIF_ASSERT(tbl->ids.size == old.size && tbl->ids.count == old.count &&
		     tbl->ids.used == old.used && tbl->ids.data == old.data &&
		     arr[w] == wv, "C10.id.lookup_pure");
	VERIF_COVER(ret == 0 && index > 40000);
	VERIF_COVER(ret != 0);
	free(arr);
	free(tbl);
}
