/* C10: dcache_key_compare (lib/sqfs/src/dir_reader.c) - the order of the
 * inode-number cache behind "." / ".." and sqfs_dir_reader_resolve_inum. The
 * red-black tree finds an entry again only if the comparison is a total
 * order; with a non-transitive comparison (the classic `return lhs - rhs`
 * for keys >= 2^31 apart) whether an inode number is still reachable depends
 * on the order in which earlier queries inserted their inodes - exactly what
 * C10 excludes. Loop-free, full 32 bit domain for all three keys.
 *
 *   C10.dcache.cmp.sign         cmp(a, b) < 0 <=> a < b, == 0 <=> a == b,
 *                               > 0 <=> a > b (as unsigned 32 bit numbers)
 *   C10.dcache.cmp.antisymmetric / .transitive   (implied; stated for the
 *                               report of a failing change)
 */
#include <stdlib.h>
#include "verif.h"
#define ENV_PROP "C10"
#define ENV_NO_MEM_OVERRIDE
#include "C10/rd_env.h"
#include "lib/sqfs/src/dir_reader.c"

static int sgn(int x) { return x < 0 ? -1 : (x > 0 ? 1 : 0); }

void harness(void)
{
	sqfs_u32 a = verif_nd_u32("a"), b = verif_nd_u32("b"), c = verif_nd_u32("c");
	int ab = dcache_key_compare(NULL, &a, &b);
	int ba = dcache_key_compare(NULL, &b, &a);
	int bc = dcache_key_compare(NULL, &b, &c);
	int ac = dcache_key_compare(NULL, &a, &c);

	VERIF_COVER(a > b && a - b > 0x80000000u);
	VERIF_ASSERT(sgn(ab) == (a < b ? -1 : (a > b ? 1 : 0)), "C10.dcache.cmp.sign");
	VERIF_ASSERT(sgn(ab) == -sgn(ba), "C10.dcache.cmp.antisymmetric");
	VERIF_ASSERT(!(ab < 0 && bc < 0) || ac < 0, "C10.dcache.cmp.transitive");
	VERIF_ASSERT(!(ab == 0 && bc == 0) || ac == 0, "C10.dcache.cmp.transitive");
}
