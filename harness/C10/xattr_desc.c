/* C10: sqfs_xattr_reader_get_desc touches only the descriptor reader (idrd):
 * a descriptor lookup between sqfs_xattr_reader_seek_kv and the key / value
 * reads must not move the key/value cursor, otherwise the answer of those
 * reads would depend on interleaved queries. Both metadata readers are
 * contracts (mr_contract.h, two distinct reader objects, every call logged
 * with the reader it was issued on). The id block table has XD_BLKS entries
 * (symbolic contents).
 *
 *   C10.xattr.desc_frame      every reader call of get_desc is issued on idrd;
 *                             no call on kvrd (its cursor, cache, everything
 *                             stays as it was)
 *   C10.xattr.desc_lookup     ret == 0 for idx < num_ids => one seek to
 *                             (id_block_starts[idx * 16 / 8192], idx * 16 %
 *                             8192) followed by one 16 byte read, decoded
 *                             little endian; idx == 0xFFFFFFFF => zeroed
 *                             descriptor, no reader call; idx >= num_ids =>
 *                             OUT_OF_BOUNDS, no reader call
 *   C10.xattr.desc_pure       the reader object itself is unchanged
 */
#include <stdlib.h>
#include <string.h>
#include <errno.h>
#include "verif.h"
#ifndef ENV_PROP
#define ENV_PROP "C10"
#endif
#define XD(s) ENV_PROP ".xattr." s
#define ENV_NO_MEM_OVERRIDE
#include "C10/rd_env.h"
#include "C10/mr_contract.h"
#include "lib/sqfs/src/xattr/xattr_reader.c"

#ifndef XD_BLKS
#define XD_BLKS 3
#endif

void harness(void)
{
	sqfs_xattr_reader_t *xr = malloc(sizeof(*xr));
	sqfs_meta_reader_t *idrd = malloc(1), *kvrd = malloc(1);
	sqfs_u64 starts[XD_BLKS];
	sqfs_xattr_id_t desc;
	sqfs_u32 idx = verif_nd_u32("idx");
	bool loaded = verif_nd_bool("loaded");
	unsigned i;
	int ret;

	VERIF_ASSUME(xr != NULL && idrd != NULL && kvrd != NULL);
	env_init();
	mrc_init();
	g_mrc_rd0 = idrd;
	g_mrc_rd1 = kvrd;

	xr->base.refcount = 1;
	xr->base.destroy = xattr_reader_destroy;
	xr->base.copy = xattr_reader_copy;
	xr->xattr_start = verif_nd_u64("xattr_start");
	xr->xattr_end = verif_nd_u64("xattr_end");
	xr->num_ids = verif_nd_size("num_ids");
	/* wf after load: blocks = ceil(num_ids * 16 / 8192) <= XD_BLKS */
	VERIF_ASSUME(xr->num_ids <= (size_t)XD_BLKS * 512);
	xr->num_id_blocks = (xr->num_ids * 16 + 8191) / 8192;
	for (i = 0; i < XD_BLKS; ++i)
		starts[i] = verif_nd_u64("id_block_start");
	xr->id_block_starts = starts;
	xr->idrd = loaded ? idrd : NULL;
	xr->kvrd = loaded ? kvrd : NULL;
	if (!loaded) {
		xr->num_ids = 0;
		xr->num_id_blocks = 0;
		xr->id_block_starts = NULL;
	}
	verif_nd_bytes(&desc, sizeof(desc), "desc.before");

	ret = sqfs_xattr_reader_get_desc(xr, idx, &desc);

	for (i = 0; i < MRC_LOG; ++i) {
		if (i < g_mrc.reads)
			VERIF_ASSERT(g_mrc.r[i].rd == idrd, XD("desc_frame"));
		if (i < g_mrc.seeks)
			VERIF_ASSERT(g_mrc.s[i].rd == idrd, XD("desc_frame"));
	}
	VERIF_ASSERT(g_mrc.reads <= 1 && g_mrc.seeks <= 1, XD("desc_frame"));

	if (idx == 0xFFFFFFFF) {
		VERIF_ASSERT(ret == 0 && g_mrc.ops == 0 && desc.xattr == 0 &&
			     desc.count == 0 && desc.size == 0, XD("desc_lookup"));
	} else if (!loaded) {
		VERIF_ASSERT(ret == (idx == 0 ? 0 : SQFS_ERROR_OUT_OF_BOUNDS) &&
			     g_mrc.ops == 0, XD("desc_lookup"));
	} else if (idx >= xr->num_ids) {
		VERIF_ASSERT(ret == SQFS_ERROR_OUT_OF_BOUNDS && g_mrc.ops == 0,
			     XD("desc_lookup"));
	} else if (ret == 0) {
		size_t blk = ((size_t)idx * 16) / 8192;
		VERIF_ASSERT(g_mrc.seeks == 1 && g_mrc.reads == 1 &&
			     g_mrc.s[0].seq == 1 && g_mrc.r[0].seq == 2 &&
			     blk < XD_BLKS && g_mrc.s[0].to.block == starts[blk] &&
			     g_mrc.s[0].to.off == ((size_t)idx * 16) % 8192 &&
			     g_mrc.r[0].n == 16 && g_mrc.r[0].buf == (void *)&desc &&
			     desc.xattr == g_mrc.r[0].val &&
			     desc.count == (sqfs_u32)(g_mrc.r[0].val_hi & 0xFFFFFFFFUL) &&
			     desc.size == (sqfs_u32)(g_mrc.r[0].val_hi >> 32),
			     XD("desc_lookup"));
	} else {
		VERIF_ASSERT(g_mrc.failed, XD("desc_lookup"));
	}
	VERIF_ASSERT(xr->idrd == (loaded ? idrd : NULL) &&
		     xr->kvrd == (loaded ? kvrd : NULL) &&
		     xr->id_block_starts == (loaded ? starts : NULL),
		     XD("desc_pure"));
	VERIF_COVER(ret == 0 && loaded && idx < xr->num_ids && idx > 600);
	VERIF_COVER(ret == 0 && idx == 0xFFFFFFFF);
	VERIF_COVER(ret != 0 && g_mrc.failed);
	VERIF_COVER(ret != 0 && !g_mrc.failed);
	free(idrd);
	free(kvrd);
	free(xr);
}
