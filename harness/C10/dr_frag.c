/* C10: precache_fragment_block (data_reader.c), tag-payload coherence of the
 * fragment block cache. The key is the fragment INDEX; the fragment table is
 * immutable between two sqfs_data_reader_load_fragment_table calls (which
 * empty the cache: harness dr_loadfrag), so index -> (location, size word) is
 * a function and is replaced by its contract: sqfs_frag_table_lookup returns
 * an error and writes nothing, or the entry of that index.
 * Block size symbolic (every legal size in one run).
 *
 *   C10.data.frag_ok_tag        ret == 0 => frag_block != NULL, tag == idx,
 *                               buffer has block_size bytes
 *   C10.data.frag_hit_clean     idx cached => ret == 0, no lookup, no
 *                               environment call, same buffer
 *   C10.data.frag_miss_loaded   ret == 0 on a miss => one lookup of idx, one
 *                               read at the entry's location with the entry's
 *                               size word (un-compressed iff it says so), into
 *                               a fresh buffer; size and witness byte agree
 *   C10.data.frag_lookup_error  lookup fails => that error, cache untouched
 *   C10.data.frag_fail_invalid  any other failure => cache empty
 */
#include <stdlib.h>
#include <string.h>
#include <errno.h>
#include "verif.h"
#define ENV_PROP "C10"
#define ENV_IS_PAYLOAD(p, n) 1
#define DR_DEFINES_LOOKUP
#include "C10/dr_common.h"

static unsigned g_lk_n;		/* lookups */
static sqfs_u32 g_lk_idx;
static int g_lk_ret;
static sqfs_fragment_t g_lk_ent;
static sqfs_frag_table_t *g_ft;

int sqfs_frag_table_lookup(sqfs_frag_table_t *tbl, sqfs_u32 index,
			   sqfs_fragment_t *out)
{
	VERIF_ASSERT(tbl == g_ft, "C10.env.lookup.table");
	VERIF_ASSERT(VERIF_W_OK(out, sizeof(*out)), "C10.env.lookup.out_writable");
	++g_lk_n;
	g_lk_idx = index;
	if (verif_nd_bool("lookup.fail")) {
		g_lk_ret = SQFS_ERROR_OUT_OF_BOUNDS;
		return g_lk_ret;
	}
	g_lk_ent.start_offset = verif_nd_u64("lookup.start");
	g_lk_ent.size = verif_nd_u32("lookup.size");
	g_lk_ent.pad0 = verif_nd_u32("lookup.pad0");
	*out = g_lk_ent;
	g_lk_ret = 0;
	return 0;
}

void harness(void)
{
	sqfs_data_reader_t *rd;
	sqfs_u32 idx, old_tag, word, disksz;
	sqfs_u8 *old_blk;
	size_t old_sz;
	bool cached, same_key, loaded;
	int ret;

	env_init();
	env_objects_init();
	g_ft = malloc(1);	/* opaque handle, never dereferenced here */
	VERIF_ASSUME(g_ft != NULL);
	rd = dr_new(g_ft);
	g_lk_n = 0;

	cached = verif_nd_bool("cached");
	if (cached) {
		rd->frag_block = malloc(BS);
		VERIF_ASSUME(rd->frag_block != NULL);
		rd->frag_blk_size = verif_nd_size("blk_size");
		VERIF_ASSUME(rd->frag_blk_size <= BS);
	}
	rd->current_frag_index = verif_nd_u32("tag");
	idx = verif_nd_u32("idx");

	old_tag = rd->current_frag_index;
	old_blk = rd->frag_block;
	old_sz = rd->frag_blk_size;
	same_key = cached && old_tag == idx;

	ret = precache_fragment_block(rd, idx);

	word = g_lk_ent.size;
	disksz = SQFS_ON_DISK_BLOCK_SIZE(word);
	loaded = false;
	if (g_lk_n == 1 && g_lk_ret == 0 && g_lk_idx == idx) {
		if (g_env_seq == 0) {
			loaded = SQFS_IS_SPARSE_BLOCK(word) &&
				rd->frag_block != NULL &&
				rd->frag_blk_size == BS;
		} else if (g_rd_n == 1 && g_rd[0].ret == 0 &&
			   g_rd[0].off == g_lk_ent.start_offset &&
			   g_rd[0].n == disksz && disksz <= BS) {
			if (SQFS_IS_BLOCK_COMPRESSED(word)) {
				loaded = g_blk_n == 1 && g_blk[0].ret > 0 &&
					g_rd[0].buf == (void *)rd->scratch &&
					g_blk[0].in == rd->scratch &&
					g_blk[0].n == disksz &&
					g_blk[0].out == rd->frag_block &&
					g_blk[0].m == BS &&
					rd->frag_blk_size == (size_t)g_blk[0].ret;
				if (loaded && g_k < rd->frag_blk_size)
					loaded = rd->frag_block[g_k] == g_blk_val;
			} else {
				loaded = g_blk_n == 0 &&
					g_rd[0].buf == (void *)rd->frag_block &&
					rd->frag_blk_size == disksz;
				if (loaded && g_k < disksz)
					loaded = rd->frag_block[g_k] == g_rd[0].vk;
			}
		}
	}

	if (ret == 0) {
		VERIF_ASSERT(rd->frag_block != NULL &&
			     rd->current_frag_index == idx &&
			     VERIF_R_OK(rd->frag_block, BS) &&
			     rd->frag_blk_size <= BS,
			     "C10.data.frag_ok_tag");
		if (!same_key)
			VERIF_ASSERT(loaded, "C10.data.frag_miss_loaded");
	} else if (g_lk_n == 1 && g_lk_ret != 0) {
		VERIF_ASSERT(ret == g_lk_ret && g_env_seq == 0 &&
			     rd->frag_block == old_blk &&
			     rd->current_frag_index == old_tag &&
			     rd->frag_blk_size == old_sz,
			     "C10.data.frag_lookup_error");
	} else {
		VERIF_ASSERT(rd->frag_block == NULL,
			     "C10.data.frag_fail_invalid");
	}
	if (same_key) {
		VERIF_ASSERT(ret == 0 && g_env_seq == 0 && g_lk_n == 0 &&
			     rd->frag_block == old_blk &&
			     rd->frag_blk_size == old_sz,
			     "C10.data.frag_hit_clean");
	}

	VERIF_COVER(ret == 0 && same_key);
	VERIF_COVER(ret == 0 && !same_key && g_blk_n == 1);
	VERIF_COVER(ret == 0 && !same_key && g_blk_n == 0 && g_rd_n == 1);
	VERIF_COVER(ret != 0 && g_lk_ret != 0);
	VERIF_COVER(ret != 0 && g_lk_ret == 0 && g_rd_n == 1);
	dr_delete(rd);
	free(g_ft);
}
