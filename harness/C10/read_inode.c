/* C10: the inode object returned by sqfs_meta_reader_read_inode is a function
 * of the image only - not of what the allocator hands back, i.e. not of the
 * queries made (and inodes released) before. The harness of C05/read_inode.c
 * (one run per inode type, metadata reader = contract, CBMC's malloc returns
 * arbitrary contents) with the obligations named for C10; the ones that carry
 * this property:
 *   C10.inode.determined     every byte not delivered by a read or set by a
 *                            field assignment is zero (union tail, payload
 *                            bytes beyond payload_bytes_used)
 *   C10.inode.wf_slink_nul   the byte behind a symlink target is NUL
 *   C10.inode.seeks_to_ref   the first reader call is a seek to the inode
 *                            reference: the answer does not depend on where
 *                            the shared inode reader stood
 */
#define ENV_PROP "C10"
/* the size bookkeeping (payload_bytes_available vs. the allocation, 32 bit
 * truncation at 4 GiB payloads) is C05's subject: C05.inode.wf_payload */
#define INO_ONLY_DETERMINISM
#include "C05/read_inode.c"
