/* C10: sqfs_xattr_reader_load. The xattr reader keeps TWO metadata readers:
 * idrd for the descriptor table and kvrd for the key/value area. Answers of
 * the key/value functions depend on kvrd's cursor, so a descriptor lookup in
 * between must not move it: the two must be distinct objects.
 * sqfs_meta_reader_create is replaced by its contract (fresh object or NULL),
 * the image by the read_at contract; -DNIDBLK = number of id table blocks
 * (the byte-swap loop is unwound, bounded).
 *
 *   C10.xattr.readers_distinct   ret == 0 with readers => idrd != kvrd, two
 *                                separate create calls, both on the same
 *                                window; the old pair was dropped
 *   (C05 only) C05.xattr.load_alloc_failure_reported   ret == 0 after the
 *                                table was read => both readers exist (a
 *                                failed allocation is not a successful load)
 *   C10.xattr.load_fail_clean    ret != 0 => no id table, never only one of
 *                                the two readers
 *   C10.xattr.load_table         num_id_blocks == ceil(num_ids * 16 / 8192),
 *                                that many locations read right behind the
 *                                16 byte header, each <= bytes_used
 */
#include <stdlib.h>
#include <string.h>
#include <errno.h>
#include "verif.h"
#ifndef ENV_PROP
#define ENV_PROP "C10"	/* harness/C05/xattr_load.c re-uses this file */
#endif
#define XL(s) ENV_PROP ".xattr." s
#define ENV_NO_MEM_OVERRIDE
#ifndef NIDBLK
#define NIDBLK 1
#endif
/* shape concrete: the number of descriptors is such that the id table has
 * exactly NIDBLK blocks (512 descriptors of 16 bytes per 8 KiB block) */
#include "sqfs/xattr.h"
#define ENV_FIXUP(b, n, idx) do { if ((idx) == 0 && (n) == 16) { \
	sqfs_u32 ids_ = ((sqfs_xattr_id_table_t *)(void *)(b))->xattr_ids; \
	VERIF_ASSUME((ids_ + 511) / 512 == NIDBLK && ids_ <= 512 * NIDBLK); } \
	} while (0)
#include "C10/rd_env.h"
#include "lib/util/src/alloc.c"
#include "lib/sqfs/src/xattr/xattr_reader.c"

typedef struct {
	sqfs_object_t base;
	sqfs_u64 start, limit;
} xl_reader_t;

static unsigned g_created, g_destroyed;
static xl_reader_t *g_made[4];

static void xl_reader_destroy(sqfs_object_t *obj)
{
	++g_destroyed;
	free(obj);
}

sqfs_meta_reader_t *sqfs_meta_reader_create(sqfs_file_t *file,
					    sqfs_compressor_t *cmp,
					    sqfs_u64 start, sqfs_u64 limit)
{
	xl_reader_t *r;

	VERIF_ASSERT(file == &g_file && cmp == &g_cmp, ENV_NAME("meta_create.args"));
	r = malloc(sizeof(*r));
	if (r == NULL)
		return NULL;
	r->base.refcount = 1;
	r->base.destroy = xl_reader_destroy;
	r->base.copy = NULL;
	r->start = start;
	r->limit = limit;
	if (g_created < 4)
		g_made[g_created] = r;
	++g_created;
	return (sqfs_meta_reader_t *)r;
}

void harness(void)
{
	sqfs_xattr_reader_t *xr = malloc(sizeof(*xr));
	sqfs_super_t super;
	bool had_readers = verif_nd_bool("had_readers");
	sqfs_u32 num_ids;
	int ret;

	VERIF_ASSUME(xr != NULL);
	env_init();
	env_objects_init();
	g_created = g_destroyed = 0;
	xr->base.refcount = 1;
	xr->base.destroy = xattr_reader_destroy;
	xr->base.copy = xattr_reader_copy;
	xr->xattr_start = verif_nd_u64("old.start");
	xr->xattr_end = verif_nd_u64("old.end");
	xr->num_id_blocks = 0;
	xr->num_ids = 0;
	xr->id_block_starts = NULL;
	xr->idrd = xr->kvrd = NULL;
	if (had_readers) {
		/* a previously loaded state */
		xr->idrd = sqfs_meta_reader_create(&g_file, &g_cmp, 0, 0);
		xr->kvrd = sqfs_meta_reader_create(&g_file, &g_cmp, 0, 0);
		VERIF_ASSUME(xr->idrd != NULL && xr->kvrd != NULL);
		g_created = 0;
	}

	super.flags = verif_nd_u16("flags");
	super.xattr_id_table_start = verif_nd_u64("xattr_id_table_start");
	super.bytes_used = verif_nd_u64("bytes_used");
	super.id_table_start = verif_nd_u64("id_table_start");

	ret = sqfs_xattr_reader_load(xr, &super, &g_file, &g_cmp);

#ifdef XL_ALLOC_OBLIGATION	/* checked under C05 ("succeed or report an error") */
	if (ret == 0 && g_rd_n > 0) {
		/* a table was announced and read; the readers must exist now */
		VERIF_ASSERT(xr->idrd != NULL && xr->kvrd != NULL,
			     XL("load_alloc_failure_reported"));
	}
#endif
	if (ret == 0 && g_rd_n > 0 && (xr->idrd != NULL || xr->kvrd != NULL)) {
		/* header = first read */
		num_ids = (sqfs_u32)(g_rd[0].val_hi & 0xFFFFFFFFUL);
		VERIF_ASSERT(g_created == 2 && xr->idrd != NULL && xr->kvrd != NULL &&
			     xr->idrd != xr->kvrd &&
			     xr->idrd == (sqfs_meta_reader_t *)g_made[0] &&
			     xr->kvrd == (sqfs_meta_reader_t *)g_made[1] &&
			     g_made[0]->base.refcount == 1 &&
			     g_made[1]->base.refcount == 1 &&
			     g_made[0]->start == g_made[1]->start &&
			     g_made[0]->limit == g_made[1]->limit &&
			     g_made[0]->limit == super.bytes_used &&
			     g_destroyed == (had_readers ? 2u : 0u),
			     XL("readers_distinct"));
		VERIF_ASSERT(g_rd_n == 2 && g_rd[0].n == sizeof(sqfs_xattr_id_table_t) &&
			     g_rd[0].off == super.xattr_id_table_start &&
			     xr->num_ids == num_ids &&
			     xr->num_id_blocks == ((size_t)num_ids * 16 + 8191) / 8192 &&
			     g_rd[1].off == super.xattr_id_table_start + 16 &&
			     g_rd[1].n == xr->num_id_blocks * 8 &&
			     xr->id_block_starts != NULL &&
			     xr->xattr_end == super.bytes_used,
			     XL("load_table"));
	} else if (ret != 0) {
		VERIF_ASSERT(xr->id_block_starts == NULL &&
			     (xr->idrd == NULL) == (xr->kvrd == NULL) &&
			     (xr->idrd == NULL || g_rd_n == 0),
			     XL("load_fail_clean"));
	}
	VERIF_COVER(ret == 0 && g_rd_n == 2 && xr->num_id_blocks == NIDBLK);
	VERIF_COVER(ret == 0 && g_rd_n == 0);
	VERIF_COVER(g_created == 1);	/* second create failed */
	VERIF_COVER(ret != 0 && g_rd_n == 2 && g_created == 0);
}
