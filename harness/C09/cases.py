import os

PROPERTY = "C09"
LEVEL = "model_checking"
FUNCTIONS = [
    "store_completed", "get_next_work_item", "worker_proc", "try_dequeue_done",
    "submit", "dequeue", "get_status", "set_worker_ptr", "destroy", "free_item_list",
    "threadpool_serial.c: submit", "threadpool_serial.c: dequeue", "threadpool_serial.c: get_status",
    "dequeue_block", "process_completed_block", "store_io_block", "release_old_block",
]
TRUSTED = [
    "pthread_mutex_lock/unlock implement mutual exclusion; pthread_cond_wait atomically releases and re-acquires the mutex "
    "(contracts in harness/C09/pool_model.h: lock and every return of cond_wait deliver an arbitrary shared state within the "
    "monitor invariant INV, wake-ups may be spurious; broadcast wakes every waiter)",
    "pthread_join returns after the worker thread has left worker_proc; pthread_{cond,mutex}_destroy have no effect on the lists",
    "the work callback (thread_pool_worker_t) terminates, may return any status, and does not touch the pool",
    "calloc/free: CBMC memory model, every allocation may fail",
    "sqfs_block_writer_t.write_data_block: any result <= 0, any location; thread_pool_t seen by the block processor: the abstract "
    "FIFO/exactly-once/sticky-status contract established by the threadpool harnesses (harness/C09/bp_env.h)",
]
ASSUMPTIONS = [
    "NOT decided: real OS scheduling, fairness, termination of the worker callback, that the pthread primitives implement a monitor. "
    "Deadlock freedom is claimed only as its safety premises: INV at every release + the signalling rule (C09.signal) + "
    "C09.no_stuck (nobody sleeps while the thing it waits for can no longer arrive); CBMC cannot explore the threads themselves "
    "(\"pointer handling for concurrency is unsound\")",
    "every harness is bounded(list nodes <= K): queue, done, safe_done, recycle have at most K = 2 (quick) / 3 (quick+thorough) nodes at each "
    "acquisition of the monitor, at most K worker threads; list lengths, tickets (full 64 bit), data pointers, status, the number of "
    "items in other workers' hands are symbolic",
    "fewer than 2^64 - 64 submissions in the life of a pool (next_ticket does not wrap)",
    "single consumer: submit, dequeue, get_status, set_worker_ptr, destroy are called from one thread (the API contract behind the "
    "unlocked recycle/safe_done/item_count fields); hence destroy() owes no broadcast on done_cond",
    "proof cuts (standard loop rule, stated in pool_model.h): after each lock one return of cond_wait is explored with a fresh arbitrary "
    "INV state (the loop condition is re-evaluated by the real code); the following wait is checked like any release and ends the path. "
    "worker_proc: the first pass and one general pass of its endless loop are explored, the third lock ends the path; in the quick tier "
    "its waits end the path immediately (the wake-up continuation is the get_next harness), the thorough tier explores them too",
    "the in-worker set W is defined as the complement of queue and done in [next_dequeue_ticket, next_ticket): other workers' items are "
    "not individually tracked; their sections are covered by the same harness instantiated for them (WIDX case split)",
    "block processor: only dequeue_block() with plain data blocks (no fragment kinds, no inode attached, empty io_queue, <= 2 blocks in the "
    "pool); sync()/finish() are covered by the argument that they return the first non-zero result of dequeue_block()",
    "thread_pool_create (thread start-up, signal masks) and the Windows wrapper are outside",
]
EXPLANATION = ("classical monitor proof: each critical section of threadpool.c is verified sequentially from an arbitrary "
               "shared state satisfying the monitor invariant and must re-establish it at every unlock/wait, with ghost "
               "lock and broadcast flags for lock discipline and the signalling rule; FIFO / exactly-once / context / frame "
               "are section-local postconditions; the serial pool and the block processor's dequeue_block are checked "
               "against the same abstract pool contract")

K2 = {"KQ": 2, "KD": 2, "KS": 2, "KR": 2, "NW": 2}
K3 = {"KQ": 3, "KD": 3, "KS": 3, "KR": 3, "NW": 3}
L2 = "bounded(list nodes <= 2)"
L3 = "bounded(list nodes <= 3)"

def _k(extra2=None, extra3=None, t3="quick"):
    return [dict(id="k2", defines=dict(K2, **(extra2 or {})), unwind=8, label=L2, tier="quick"),
            dict(id="k3", defines=dict(K3, **(extra3 or {})), unwind=10, label=L3, tier=t3)]

# every function-pointer call site of backend.c + block_processor.c; the ones
# that the scenario cannot reach go to a stub that fails C09.bp.unreachable
BP_FP = {"dequeue": "stub_dequeue", "get_status": "stub_get_status",
         "submit": "stub_submit", "write_data_block": "stub_write_data_block",
         "destroy": "stub_unreach_destroy", "copy": "stub_unreach_copy",
         "read_at": "stub_unreach_read_at", "do_block": "stub_unreach_do_block",
         "get_worker_count": "stub_unreach_get_worker_count",
         "set_worker_ptr": "stub_unreach_set_worker_ptr"}

def _bp_cases():
    kinds = [("plain", "0", "SQFS_BLK_LAST_BLOCK"),
             ("sparse", "SQFS_BLK_IS_SPARSE", "(SQFS_BLK_IS_COMPRESSED|SQFS_BLK_FIRST_BLOCK)")]
    out = []
    for kn, f0, f1 in kinds:
        for n, g in ((0, -1), (1, -1), (1, 0), (2, -1), (2, 0)):
            if kn == "sparse" and n == 0:
                continue
            out.append(dict(id="%s_n%d_g%s" % (kn, n, "x" if g < 0 else g),
                            defines={"NB": 2, "NPOOL": n, "GIVEUP_AT": "(%d)" % g,
                                     "FL0": f0, "FL1": f1},
                            # one slow case (87 s in the SAT solver) goes to the thorough tier
                            tier="thorough" if (kn, n, g) == ("sparse", 2, -1) else "quick"))
    return out

HARNESSES = [
    dict(name="bp_dequeue_block", file="bp_dequeue_block.c",
         label="bounded(blocks in pool <= 2)", unwind=5, timeout=600, fp=BP_FP,
         # `flags & ~BLK_FLAG_INTERNAL`: the int constant ~0x10000000 is converted
         # to sqfs_u32, which is defined behaviour; the conversion check flags it
         nochecks=["--conversion-check"],
         # native replay links the rest of the library from the in-tree build
         native_libs=[os.path.join(os.environ.get("VERIF_REPO", "/repo"), ".libs/libsquashfs.a"),
                      "-lz", "-llzma", "-llz4", "-lzstd", "-lbz2", "-lpthread"],
         cases=_bp_cases()),
    dict(name="store_completed", file="store_completed.c", label=L2, timeout=600, cases=_k()),
    dict(name="get_next", file="get_next.c", label=L2, timeout=600, cases=_k()),
    dict(name="try_dequeue", file="try_dequeue.c", label=L2, timeout=600, cases=_k()),
    dict(name="submit", file="submit.c", label=L2, timeout=1800, malloc_fail=True, weight=8,
         cases=_k(t3="thorough")),
    dict(name="dequeue", file="dequeue.c", label=L2, timeout=1800, weight=8,
         cases=_k(t3="thorough")),
    dict(name="get_status", file="small.c", label=L2, timeout=600,
         cases=_k({"OP_GET_STATUS": None}, {"OP_GET_STATUS": None})),
    dict(name="set_worker_ptr", file="small.c", label=L2, timeout=600,
         cases=_k({"OP_SET_WORKER_PTR": None}, {"OP_SET_WORKER_PTR": None})),
    dict(name="destroy", file="destroy.c", label=L2, timeout=600,
         flags=["--memory-leak-check"], cases=_k()),
    dict(name="serial_submit", file="serial.c", label="bounded(list nodes <= 3)", timeout=600,
         malloc_fail=True, defines={"OP_SUBMIT": None},
         cases=[dict(id="k3", defines={"KQ": 3, "KR": 2}, unwind=7, tier="quick")]),
    dict(name="serial_dequeue", file="serial.c", label="bounded(list nodes <= 3)", timeout=600,
         fp={"fun": "stub_fun"}, defines={"OP_DEQUEUE": None},
         cases=[dict(id="k3", defines={"KQ": 3, "KR": 2}, unwind=7, tier="quick")]),
    dict(name="frame_store", file="frame_worker.c", label=L2, timeout=600, mode="dfcc",
         enforce="cs_store_completed", native=False,
         cases=_k({"FRAME_STORE": None}, {"FRAME_STORE": None})),
    dict(name="frame_next", file="frame_worker.c", label=L2, timeout=600, mode="dfcc",
         enforce="cs_get_next_work_item", native=False,
         cases=_k({"FRAME_NEXT": None}, {"FRAME_NEXT": None})),
    dict(name="worker_proc", file="worker_proc.c", label=L2, timeout=2400, weight=9,
         fp={"fun": "stub_fun"},
         cases=[dict(id="k2w0", defines=dict(K2, WIDX=0, MAXWAIT=0), unwind=8, label=L2, tier="quick"),
                dict(id="k2w1", defines=dict(K2, WIDX=1, MAXWAIT=0), unwind=8, label=L2, tier="quick"),
                dict(id="k2w1_wake", defines=dict(K2, WIDX=1, MAXWAIT=1), unwind=8, label=L2, tier="thorough"),
                dict(id="k3w2", defines=dict(K3, WIDX=2), unwind=10, label=L3, tier="thorough")]),
    # per-worker contexts are made and bound in the block processor's constructor
    dict(name="create_ctx", file="create_ctx.c", label="bounded(workers <= 4)", timeout=600,
         fp={"block_processor_destroy:destroy": "stub_pool_destroy", "destroy": "stub_obj_destroy",
             "copy": "stub_cmp_copy", "get_worker_count": "stub_get_worker_count",
             "set_worker_ptr": "stub_set_worker_ptr", "do_block": "stub_do_block",
             "read_at": "stub_read_at"},
         unwind=6,
         cases=[dict(id="w%d_q%d" % (w, q), defines={"WORKERS": w, "BACKLOG": q, "BS": 4096},
                     tier="quick")
                for w, q in ((1, 0), (2, 3), (3, 3), (4, 3), (4, 10), (4, 1))]),
]
