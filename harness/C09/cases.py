PROPERTY = "C09"
LEVEL = "model_checking"
FUNCTIONS = ["store_completed"]
TRUSTED = []
ASSUMPTIONS = []
EXPLANATION = ""

UNW = 14

HARNESSES = [
    dict(name="store_completed", file="store_completed.c",
         label="bounded(list nodes <= 2)", unwind=UNW, timeout=600,
         cases=[dict(id="k2", defines={"KQ": 2, "KD": 2}, tier="quick"),
                dict(id="k3", defines={"KQ": 3, "KD": 3, "KS": 3, "KR": 3, "NW": 3},
                     unwind=18, label="bounded(list nodes <= 3)", tier="quick"),
                dict(id="k4", defines={"KQ": 2, "KD": 4, "KS": 1, "KR": 1, "NW": 3},
                     unwind=18, label="bounded(list nodes <= 4)", tier="thorough")]),
]
