PROPERTY = "C09"
LEVEL = "model_checking"
FUNCTIONS = ["store_completed"]
TRUSTED = []
ASSUMPTIONS = []
EXPLANATION = ""

K2 = {"KQ": 2, "KD": 2, "KS": 2, "KR": 2, "NW": 2}
K3 = {"KQ": 3, "KD": 3, "KS": 3, "KR": 3, "NW": 3}
L2 = "bounded(list nodes <= 2)"
L3 = "bounded(list nodes <= 3)"

def _k(extra2=None, extra3=None, t3="quick"):
    return [dict(id="k2", defines=dict(K2, **(extra2 or {})), unwind=8, label=L2, tier="quick"),
            dict(id="k3", defines=dict(K3, **(extra3 or {})), unwind=10, label=L3, tier=t3)]

# every function-pointer call site of backend.c + block_processor.c; the ones
# that the scenario cannot reach go to a stub that fails C09.bp.unreachable
BP_FP = {"dequeue": "stub_dequeue", "get_status": "stub_get_status",
         "submit": "stub_submit", "write_data_block": "stub_write_data_block",
         "destroy": "stub_unreach_destroy", "copy": "stub_unreach_copy",
         "read_at": "stub_unreach_read_at", "do_block": "stub_unreach_do_block",
         "get_worker_count": "stub_unreach_get_worker_count",
         "set_worker_ptr": "stub_unreach_set_worker_ptr"}

HARNESSES = [
    dict(name="bp_sync", file="bp_sync.c", label="bounded(blocks in pool <= 2)", unwind=5, timeout=600,
         fp=BP_FP,
         cases=[dict(id="nb2", defines={"NB": 2}, tier="quick")]),
    dict(name="bp_t", file="bp_t.c", label="bounded(blocks in pool <= 2)", unwind=5, timeout=600,
         fp=BP_FP, cases=[dict(id="nb2", defines={"NB": 2}, tier="quick")]),
    dict(name="store_completed", file="store_completed.c", label=L2, timeout=600, cases=_k()),
    dict(name="get_next", file="get_next.c", label=L2, timeout=600, cases=_k()),
    dict(name="worker_proc", file="worker_proc.c", label=L2, timeout=900,
         fp={"fun": "stub_fun"},
         cases=[dict(id="k2w0", defines=dict(K2, WIDX=0, MAXWAIT=0), unwind=8, label=L2, tier="quick"),
                dict(id="k2w1", defines=dict(K2, WIDX=1), unwind=8, label=L2, tier="quick"),
                dict(id="k3w2", defines=dict(K3, WIDX=2), unwind=10, label=L3, tier="thorough")]),
]
