import os

PROPERTY = "C09"
LEVEL = "model_checking"
FUNCTIONS = ["store_completed"]
TRUSTED = []
ASSUMPTIONS = []
EXPLANATION = ""

K2 = {"KQ": 2, "KD": 2, "KS": 2, "KR": 2, "NW": 2}
K3 = {"KQ": 3, "KD": 3, "KS": 3, "KR": 3, "NW": 3}
L2 = "bounded(list nodes <= 2)"
L3 = "bounded(list nodes <= 3)"

def _k(extra2=None, extra3=None, t3="quick"):
    return [dict(id="k2", defines=dict(K2, **(extra2 or {})), unwind=8, label=L2, tier="quick"),
            dict(id="k3", defines=dict(K3, **(extra3 or {})), unwind=10, label=L3, tier=t3)]

# every function-pointer call site of backend.c + block_processor.c; the ones
# that the scenario cannot reach go to a stub that fails C09.bp.unreachable
BP_FP = {"dequeue": "stub_dequeue", "get_status": "stub_get_status",
         "submit": "stub_submit", "write_data_block": "stub_write_data_block",
         "destroy": "stub_unreach_destroy", "copy": "stub_unreach_copy",
         "read_at": "stub_unreach_read_at", "do_block": "stub_unreach_do_block",
         "get_worker_count": "stub_unreach_get_worker_count",
         "set_worker_ptr": "stub_unreach_set_worker_ptr"}

def _bp_cases():
    kinds = [("plain", "0", "SQFS_BLK_LAST_BLOCK"),
             ("sparse", "SQFS_BLK_IS_SPARSE", "(SQFS_BLK_IS_COMPRESSED|SQFS_BLK_FIRST_BLOCK)")]
    out = []
    for kn, f0, f1 in kinds:
        for n, g in ((0, -1), (1, -1), (1, 0), (2, -1), (2, 0)):
            if kn == "sparse" and n == 0:
                continue
            out.append(dict(id="%s_n%d_g%s" % (kn, n, "x" if g < 0 else g),
                            defines={"NB": 2, "NPOOL": n, "GIVEUP_AT": "(%d)" % g,
                                     "FL0": f0, "FL1": f1},
                            # one slow case (87 s in the SAT solver) goes to the thorough tier
                            tier="thorough" if (kn, n, g) == ("sparse", 2, -1) else "quick"))
    return out

HARNESSES = [
    dict(name="bp_dequeue_block", file="bp_dequeue_block.c",
         label="bounded(blocks in pool <= 2)", unwind=5, timeout=600, fp=BP_FP,
         # `flags & ~BLK_FLAG_INTERNAL`: the int constant ~0x10000000 is converted
         # to sqfs_u32, which is defined behaviour; the conversion check flags it
         nochecks=["--conversion-check"],
         # native replay links the rest of the library from the in-tree build
         native_libs=[os.path.join(os.environ.get("VERIF_REPO", "/repo"), ".libs/libsquashfs.a"),
                      "-lz", "-llzma", "-llz4", "-lzstd", "-lbz2", "-lpthread"],
         cases=_bp_cases()),
    dict(name="store_completed", file="store_completed.c", label=L2, timeout=600, cases=_k()),
    dict(name="get_next", file="get_next.c", label=L2, timeout=600, cases=_k()),
    dict(name="try_dequeue", file="try_dequeue.c", label=L2, timeout=600, cases=_k()),
    dict(name="submit", file="submit.c", label=L2, timeout=900, malloc_fail=True, weight=8,
         cases=_k(t3="thorough")),
    dict(name="dequeue", file="dequeue.c", label=L2, timeout=900, weight=8,
         cases=_k(t3="thorough")),
    dict(name="get_status", file="small.c", label=L2, timeout=600,
         cases=_k({"OP_GET_STATUS": None}, {"OP_GET_STATUS": None})),
    dict(name="set_worker_ptr", file="small.c", label=L2, timeout=600,
         cases=_k({"OP_SET_WORKER_PTR": None}, {"OP_SET_WORKER_PTR": None})),
    dict(name="destroy", file="destroy.c", label=L2, timeout=600,
         flags=["--memory-leak-check"], cases=_k()),
    dict(name="serial_submit", file="serial.c", label="bounded(list nodes <= 3)", timeout=600,
         malloc_fail=True, defines={"OP_SUBMIT": None},
         cases=[dict(id="k3", defines={"KQ": 3, "KR": 2}, unwind=7, tier="quick")]),
    dict(name="serial_dequeue", file="serial.c", label="bounded(list nodes <= 3)", timeout=600,
         fp={"fun": "stub_fun"}, defines={"OP_DEQUEUE": None},
         cases=[dict(id="k3", defines={"KQ": 3, "KR": 2}, unwind=7, tier="quick")]),
    dict(name="frame_store", file="frame_worker.c", label=L2, timeout=600, mode="dfcc",
         enforce="cs_store_completed", native=False,
         cases=_k({"FRAME_STORE": None}, {"FRAME_STORE": None})),
    dict(name="frame_next", file="frame_worker.c", label=L2, timeout=600, mode="dfcc",
         enforce="cs_get_next_work_item", native=False,
         cases=_k({"FRAME_NEXT": None}, {"FRAME_NEXT": None})),
    dict(name="worker_proc", file="worker_proc.c", label=L2, timeout=900,
         fp={"fun": "stub_fun"},
         cases=[dict(id="k2w0", defines=dict(K2, WIDX=0, MAXWAIT=0), unwind=8, label=L2, tier="quick"),
                dict(id="k2w1", defines=dict(K2, WIDX=1, MAXWAIT=0), unwind=8, label=L2, tier="quick"),
                dict(id="k2w1_wake", defines=dict(K2, WIDX=1, MAXWAIT=1), unwind=8, label=L2, tier="thorough"),
                dict(id="k3w2", defines=dict(K3, WIDX=2), unwind=10, label=L3, tier="thorough")]),
]
