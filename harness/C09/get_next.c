/* C09: get_next_work_item() - the worker-side section that takes work.
 * Called with the mutex held and nothing in this worker's hands, from an
 * ARBITRARY shared state satisfying INV. Every return of cond_wait delivers a
 * fresh arbitrary INV state (spurious wake-ups included: the awaited
 * predicate is never promised to hold).
 *
 *   C09.get_next_work_item.inv  INV holds at every wait and at return, with
 *                               the returned item now in this worker's hands
 *   C09.once                    the returned item is the head of the queue as
 *                               it was at the last acquisition, it is unlinked
 *                               (next == NULL, queue advanced by exactly one,
 *                               queue_last reset iff the queue drained) -
 *                               nobody else can take or see it again
 *   C09.get_next_work_item.stops_on_status
 *                               returns NULL iff the pool status is non-zero,
 *                               and then takes nothing
 *   C09.no_stuck                the worker goes to sleep only on queue_cond and
 *                               only while there is nothing to take and no
 *                               status to react to (it never sleeps on work)
 *   C09.frame                   done list, ticket counters, main-thread fields,
 *                               every ticket and data pointer untouched
 */
#define CS "get_next_work_item"
#include "pool_model.h"

static void c09_on_release(int is_wait, pthread_cond_t *cond)
{
	thread_pool_impl_t *pool = POOL;

	VERIF_ASSERT(is_wait, "C09.lock.discipline");
	VERIF_ASSERT(cond == &pool->queue_cond, "C09.no_stuck");
	VERIF_ASSERT(pool->queue == NULL && pool->status == 0, "C09.no_stuck");
	/* going to sleep leaves the state exactly as it was found */
	VERIF_ASSERT(pool->queue == s_b.queue && pool->queue_last == s_b.queue_last &&
		     pool->done == s_b.done && pool->status == s_b.status,
		     "C09.frame");
	c09_check_worker_frame(NULL);
}

void harness(void)
{
	thread_pool_impl_t *pool = POOL;
	work_item_t *item;
	size_t i;

	g_is_main = 0;
	c09_build_main();
	g_held = NULL;
	g_locked = 1;
	c09_build_shared();

	VERIF_COVER(s_qn == KQ && s_dn == KD && s_status == 0);
	VERIF_COVER(s_qn == 1 && s_status == 0);
	VERIF_COVER(s_qn == 0 && s_status == 0);
	VERIF_COVER(s_qn > 0 && s_status != 0);

	item = get_next_work_item(pool);

	VERIF_ASSERT(g_locked, "C09.lock.discipline");
	VERIF_ASSERT((item == NULL) == (s_status != 0),
		     "C09.get_next_work_item.stops_on_status");
	if (item == NULL) {
		VERIF_ASSERT(pool->queue == s_b.queue &&
			     pool->queue_last == s_b.queue_last,
			     "C09.get_next_work_item.stops_on_status");
		for (i = 0; i < 4; ++i) {
			if (s_q[i] != NULL)
				VERIF_ASSERT(s_q[i]->next == s_b.q[i].next,
					     "C09.get_next_work_item.stops_on_status");
		}
	} else {
		VERIF_ASSERT(s_qn > 0 && item == s_q[0], "C09.once");
		VERIF_ASSERT(item->next == NULL, "C09.once");
		VERIF_ASSERT(pool->queue == s_b.q[0].next, "C09.once");
		VERIF_ASSERT(pool->queue_last ==
			     (s_qn == 1 ? NULL : s_b.queue_last), "C09.once");
		VERIF_ASSERT(!c09_has(pool->queue, item, QMAX) &&
			     !c09_has(pool->done, item, DMAX), "C09.once");
		for (i = 1; i < 4; ++i) {
			if (s_q[i] != NULL)
				VERIF_ASSERT(s_q[i]->next == s_b.q[i].next,
					     "C09.once");
		}
	}
	/* frame: done list and status untouched */
	VERIF_ASSERT(pool->done == s_b.done && pool->status == s_b.status,
		     "C09.frame");
	for (i = 0; i < 4; ++i) {
		if (s_d[i] != NULL)
			VERIF_ASSERT(s_d[i]->next == s_b.d[i].next, "C09.frame");
	}
	c09_check_worker_frame(NULL);

	g_held = item;
	c09_check_inv();

	VERIF_COVER(item != NULL && g_waits == 0);
	VERIF_COVER(item != NULL && g_waits == 1);
	VERIF_COVER(item == NULL && g_waits == 1);
	VERIF_COVER(item != NULL && pool->queue == NULL);
	VERIF_COVER(item != NULL && pool->queue != NULL);
}
