/* C09: worker_proc() - the worker thread as a whole, WIDX = which worker.
 * The real thread function runs against the monitor contracts: every lock
 * and every return of cond_wait delivers an arbitrary shared state within
 * INV (consistent with the item this worker holds); the work callback is a
 * contract that may return any status. Explored: the first pass through the
 * loop (nothing held) and one general pass (an item held, any callback
 * status), each with a spurious/real wake-up; the next pass starts like the
 * general one and is cut (see pool_model.h).
 *
 * Per release of the monitor (unlock or wait), relative to the state found
 * at the acquisition:
 *   C09.worker_proc.inv   INV re-established
 *   C09.once              an item held at the acquisition has been through
 *                         the callback exactly once and is now in done, which
 *                         is the old done list plus that item; the item taken
 *                         (if any) is the old queue head, unlinked; the
 *                         callback only ever sees the item in hand; the thread
 *                         exits empty-handed
 *   C09.ctx               the callback gets workers[WIDX].user and no other
 *   C09.worker_proc.status_first
 *                         pool status = first non-zero callback status
 *   C09.signal            done gained an element / status changed => done_cond
 *                         broadcast
 *   C09.no_stuck          sleeps only on queue_cond, only with an empty queue
 *                         and zero status, never while holding an item; takes
 *                         work whenever the queue is non-empty and status is 0
 *   C09.worker_proc.exits_only_on_status
 *   C09.frame             main-thread fields, ticket counters, tickets, data
 *   C09.lock.discipline   lock/unlock/wait pairing, callback outside the lock
 */
#define CS "worker_proc"
#ifndef MAXLOCK
#define MAXLOCK 2
#endif
#include "pool_model.h"

#ifndef WIDX
#define WIDX 0
#endif

static int g_processed;		/* held item has been through the callback */
static int g_cb_status;		/* ... which returned this */
static unsigned g_calls;
static int g_last_status;	/* pool status at the last release */

static int stub_fun(void *user, void *data)
{
	VERIF_ASSERT(!g_locked, "C09.lock.discipline");
	VERIF_ASSERT(user == g_pw.w[WIDX].user, "C09.ctx");
	VERIF_ASSERT(g_held != NULL && g_processed == 0, "C09.once");
	VERIF_ASSERT(g_held != NULL && data == g_held->data, "C09.once");
	g_processed = 1;
	g_calls += 1;
	g_cb_status = verif_nd_int("callback_status");
	return g_cb_status;
}

static void c09_on_release(int is_wait, pthread_cond_t *cond)
{
	thread_pool_impl_t *pool = POOL;
	int exp_status = s_status;
	size_t i;

	if (s_held != NULL) {
		/* the item held at the acquisition was processed, then stored */
		VERIF_ASSERT(g_processed == 1, "C09.once");
		VERIF_ASSERT(c09_len(pool->done, DMAX) == s_dn + 1, "C09.once");
		VERIF_ASSERT(c09_has(pool->done, s_held, DMAX), "C09.once");
		for (i = 0; i < 4; ++i) {
			if (s_d[i] != NULL)
				VERIF_ASSERT(c09_has(pool->done, s_d[i], DMAX),
					     "C09.once");
		}
		VERIF_ASSERT(g_bcast_done, "C09.signal");
		if (s_status == 0)
			exp_status = g_cb_status;
		g_processed = 0;
	} else {
		VERIF_ASSERT(pool->done == s_b.done, "C09.frame");
		for (i = 0; i < 4; ++i) {
			if (s_d[i] != NULL)
				VERIF_ASSERT(s_d[i]->next == s_b.d[i].next,
					     "C09.frame");
		}
	}
	VERIF_ASSERT(pool->status == exp_status, "C09.worker_proc.status_first");
	if (exp_status != s_status)
		VERIF_ASSERT(g_bcast_done, "C09.signal");

	if (is_wait) {
		VERIF_ASSERT(cond == &pool->queue_cond, "C09.no_stuck");
		VERIF_ASSERT(pool->queue == NULL && pool->status == 0,
			     "C09.no_stuck");
		VERIF_ASSERT(pool->queue == s_b.queue &&
			     pool->queue_last == s_b.queue_last, "C09.frame");
		g_held = NULL;
	} else if (exp_status != 0) {
		/* shutting down: nothing taken */
		VERIF_ASSERT(pool->queue == s_b.queue &&
			     pool->queue_last == s_b.queue_last,
			     "C09.worker_proc.exits_only_on_status");
		for (i = 0; i < 4; ++i) {
			if (s_q[i] != NULL)
				VERIF_ASSERT(s_q[i]->next == s_b.q[i].next,
					     "C09.worker_proc.exits_only_on_status");
		}
		g_held = NULL;
	} else {
		/* leaves the monitor with the old queue head in hand */
		VERIF_ASSERT(s_qn > 0, "C09.no_stuck");
		VERIF_ASSERT(pool->queue == s_b.q[0].next, "C09.once");
		VERIF_ASSERT(s_q[0] != NULL && s_q[0]->next == NULL, "C09.once");
		VERIF_ASSERT(pool->queue_last ==
			     (s_qn == 1 ? NULL : s_b.queue_last), "C09.once");
		for (i = 1; i < 4; ++i) {
			if (s_q[i] != NULL)
				VERIF_ASSERT(s_q[i]->next == s_b.q[i].next,
					     "C09.once");
		}
		g_held = s_q[0];
	}
	g_last_status = exp_status;
	c09_check_worker_frame(s_held);
}

void harness(void)
{
	void *ret;

	g_is_main = 0;
	c09_build_main();
	g_pw.w[WIDX].fun = stub_fun;
	g_held = NULL;
	g_locked = 0;

	ret = worker_proc(&g_pw.w[WIDX]);

	VERIF_ASSERT(ret == NULL, "C09.worker_proc.exits_only_on_status");
	VERIF_ASSERT(!g_locked && g_locks == g_unlocks, "C09.lock.discipline");
	VERIF_ASSERT(g_held == NULL, "C09.once");
	VERIF_ASSERT(g_last_status != 0, "C09.worker_proc.exits_only_on_status");
	VERIF_COVER(g_calls == 0);
	VERIF_COVER(g_calls == 1 && g_waits_total == 0);
	VERIF_COVER(g_calls == 1 && g_waits_total == 2 * MAXWAIT);
	VERIF_COVER(g_calls == 1 && g_cb_status != 0 && POOL->status == g_cb_status);
	VERIF_COVER(g_calls == 1 && g_cb_status != 0 && POOL->status != g_cb_status);
}
