/* C09: try_dequeue_done() - the consumer-side step that releases finished
 * items in ticket order. Called by the submitting thread with the mutex held,
 * from an ARBITRARY shared state satisfying INV.
 *
 *   C09.fifo     an item is released iff the head of done carries exactly
 *                next_dequeue_ticket; it is that head, unlinked; the ticket
 *                counter advances by one; otherwise nothing changes at all
 *   C09.once     the released item is no longer reachable from done or queue
 *   C09.try_dequeue_done.inv
 *   C09.frame    queue, status, next_ticket, every ticket / data untouched
 */
#define CS "try_dequeue_done"
#include "pool_model.h"

static void c09_on_release(int is_wait, pthread_cond_t *cond)
{
	(void)is_wait; (void)cond;
	VERIF_ASSERT(0, "C09.lock.discipline");	/* no release in this section */
}

void harness(void)
{
	thread_pool_impl_t *pool = POOL;
	work_item_t *out;
	int avail;
	size_t i;

	g_is_main = 1;
	c09_build_main();
	g_held = NULL;
	g_locked = 1;
	c09_build_shared();
	avail = s_dn > 0 && s_d[0]->ticket_number == s_ndt;

	VERIF_COVER(avail && s_dn == KD && s_qn == KQ);
	VERIF_COVER(!avail && s_dn == KD);
	VERIF_COVER(s_dn == 0 && s_qn > 0);

	out = try_dequeue_done(pool);

	VERIF_ASSERT((out != NULL) == avail, "C09.fifo");
	if (out != NULL) {
		VERIF_ASSERT(out == s_d[0], "C09.fifo");
		VERIF_ASSERT(out->ticket_number == s_ndt, "C09.fifo");
		VERIF_ASSERT(pool->next_dequeue_ticket == s_ndt + 1, "C09.fifo");
		VERIF_ASSERT(out->next == NULL && pool->done == s_b.d[0].next,
			     "C09.once");
		VERIF_ASSERT(!c09_has(pool->done, out, DMAX) &&
			     !c09_has(pool->queue, out, QMAX), "C09.once");
	} else {
		VERIF_ASSERT(pool->done == s_b.done &&
			     pool->next_dequeue_ticket == s_ndt, "C09.fifo");
		if (s_d[0] != NULL)
			VERIF_ASSERT(s_d[0]->next == s_b.d[0].next, "C09.fifo");
	}
	/* frame */
	VERIF_ASSERT(pool->queue == s_b.queue && pool->queue_last == s_b.queue_last &&
		     pool->status == s_b.status && pool->next_ticket == s_nt &&
		     pool->item_count == s_b.item_count &&
		     pool->safe_done == s_b.safe_done &&
		     pool->safe_done_last == s_b.safe_done_last &&
		     pool->recycle == s_b.recycle, "C09.frame");
	for (i = 0; i < 4; ++i) {
		if (s_q[i] != NULL)
			VERIF_ASSERT(c09_item_eq(s_q[i], &s_b.q[i], 1), "C09.frame");
		if (s_d[i] != NULL)
			VERIF_ASSERT(c09_item_eq(s_d[i], &s_b.d[i], i > 0), "C09.frame");
		VERIF_ASSERT(c09_item_eq(SN(i), &s_b.s[i], 1), "C09.frame");
		VERIF_ASSERT(c09_item_eq(RN(i), &s_b.r[i], 1), "C09.frame");
	}
	VERIF_ASSERT(g_locked && !g_bcast_done && !g_bcast_queue,
		     "C09.lock.discipline");
	c09_check_inv();
}
