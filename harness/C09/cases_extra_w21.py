# w21: representation-independent black-box harness of the serial pool
# (harness/C09/w21_serial_bb.c): thread_pool_create (NO_THREAD_IMPL) and the
# six thread_pool_t function pointers only, one CONCRETE schedule over
# {S,D,U} per case, worker results / num_jobs / drain-or-not (and, in the _oom
# twin, every allocation outcome) symbolic.
import itertools

FUNCTIONS = [
    "threadpool_serial.c as a whole through include/util/threadpool.h: thread_pool_create (NO_THREAD_IMPL), "
    "thread_pool_create_serial, submit, dequeue, get_status, get_worker_count, set_worker_ptr, destroy",
]
TRUSTED = [
    "calloc/free: CBMC memory model (w21_serial_blackbox: allocation succeeds; w21_serial_blackbox_oom: every allocation may fail)",
]
ASSUMPTIONS = [
    "w21_serial_blackbox*: bounded(schedules): only the enumerated concrete call sequences (every word over {S,D} of length <= 6, "
    "plus the multi-round shapes listed in cases_extra_w21.py) - a defect that needs a longer or different history is not decided "
    "here; the state-based harnesses serial_submit / serial_dequeue (any history, keyed to the representation) are the other line",
    "w21_serial_blackbox*: items are distinct objects never NULL; the worker's result is a function of the item; single caller",
]


def _runs(*rl):
    """('S', 2), ('D', 2) ... -> 'SSDD'"""
    return "".join(ch * n for ch, n in rl)


def _words(maxlen):
    for n in range(1, maxlen + 1):
        for w in itertools.product("SD", repeat=n):
            yield "".join(w)


# multi-round shapes: recycling (rounds 2,1,1), more rounds, > 16 items in
# flight, a wrapped queue followed by growth
SHAPES = [
    ("r211", _runs(("S", 2), ("D", 2), ("S", 1), ("D", 1), ("S", 1), ("D", 1)), 0, "quick"),
    ("r3213", "SSSDDDSSDDSDSSSDDD", 0, "thorough"),
    ("ctx", "SUDSSUDD", 0, "quick"),
    ("s10d10s17d17", _runs(("S", 10), ("D", 10), ("S", 17), ("D", 17)), 10, "quick"),
    ("s20d5s20d35", _runs(("S", 20), ("D", 5), ("S", 20), ("D", 35)), 20, "quick"),
    ("s12d8s12d4s12d40", _runs(("S", 12), ("D", 8), ("S", 12), ("D", 4), ("S", 12), ("D", 40)), 24, "thorough"),
    ("s33d1s32d70", _runs(("S", 33), ("D", 1), ("S", 32), ("D", 70)), 40, "thorough"),
]

QUICK_WORDS = {"S", "D", "SD", "DS", "SS", "SSD", "SDD", "SDS", "SSDD", "SDSD", "DSDS",
               "SSDSD", "SDSSD", "SSDDSD", "SDSDSD", "SSSDDD", "SSDSDD", "DDSSDS"}


def _case(cid, word, sym_from, tier, oom=False):
    d = {"SCHED": '"%s"' % word, "RES_SYM_FROM": sym_from}
    if "S" in word:
        d["COVER_FAIL"] = None
        if oom:
            d["COVER_OOM"] = None
    return dict(id=cid, defines=d, unwind=len(word) + 2, tier=tier)


def _cases(oom):
    out = []
    for w in _words(6):
        out.append(_case(w, w, 0, "quick" if w in QUICK_WORDS else "thorough", oom))
    for cid, w, sym_from, tier in SHAPES:
        if oom and len(w) > 20:
            continue
        out.append(_case(cid, w, sym_from, tier, oom))
    return out


_LABEL = ("bounded(schedules: all words over {S,D} of length <= 6 [quick: %d of 126] + %d multi-round shapes "
          "up to 136 calls / 40 items in flight)" % (len(QUICK_WORDS), len(SHAPES)))

HARNESSES = [
    dict(name="w21_serial_blackbox", file="w21_serial_bb.c", label=_LABEL, timeout=900,
         # cbmc 6 lets every allocation fail by default; this twin switches that off
         # (long schedules stay concrete), the _oom twin keeps it on
         flags=["--memory-leak-check", "--no-malloc-may-fail"], cases=_cases(False)),
    dict(name="w21_serial_blackbox_oom", file="w21_serial_bb.c",
         label="bounded(schedules: all words over {S,D} of length <= 6 [quick: %d of 126] + 3 multi-round shapes; "
               "every allocation may fail)" % len(QUICK_WORDS),
         timeout=900, malloc_fail=True, defines={"BB_OOM": None},
         flags=["--memory-leak-check"], cases=_cases(True)),
]
