/*
 * Native demonstration for C09.no_stuck / C09.bp.error_surfaces at the level
 * of the public block processor API (real libsquashfs, real pthreads).
 *
 *   cc -I$REPO/include -pthread bp_error_demo.c $REPO/.libs/libsquashfs.a \
 *      (plus the compressor libraries libsquashfs was built with) -o bpdemo
 *   ./bpdemo <nblocks> <failing-block-index> [<bytes in a trailing partial block>]
 *
 * A compressor whose do_block() fails for one chosen block, one worker, a
 * backlog large enough to queue the whole file before the worker runs.
 * Exit status: 0 = finish() reported the failure, 1 = finish() returned 0
 * although a worker failed (failure swallowed), 3 = watchdog (hang).
 */
#include <pthread.h>
#include <signal.h>
#include <stdio.h>
#include <stdlib.h>
#include <string.h>
#include <unistd.h>
#include "sqfs/block_processor.h"
#include "sqfs/block_writer.h"
#include "sqfs/compressor.h"
#include "sqfs/error.h"
#include "sqfs/block.h"

#define BS 4096

static pthread_mutex_t gate_mtx = PTHREAD_MUTEX_INITIALIZER;
static pthread_cond_t gate_cond = PTHREAD_COND_INITIALIZER;
static int gate_open, fail_index, blocks_seen, writes;

typedef struct { sqfs_compressor_t base; } fail_cmp_t;

static void cmp_destroy(sqfs_object_t *obj) { free(obj); }
static sqfs_object_t *cmp_copy(const sqfs_object_t *orig)
{
	fail_cmp_t *c = malloc(sizeof(*c));
	if (c != NULL) {
		memcpy(c, orig, sizeof(*c));
		c->base.base.refcount = 1;
	}
	return (sqfs_object_t *)c;
}
static sqfs_s32 cmp_do_block(sqfs_compressor_t *cmp, const sqfs_u8 *in,
			     sqfs_u32 size, sqfs_u8 *out, sqfs_u32 outsize)
{
	int idx;
	(void)cmp; (void)in; (void)size; (void)out; (void)outsize;
	pthread_mutex_lock(&gate_mtx);
	while (!gate_open)
		pthread_cond_wait(&gate_cond, &gate_mtx);
	idx = blocks_seen++;
	pthread_mutex_unlock(&gate_mtx);
	return idx == fail_index ? SQFS_ERROR_COMPRESSOR : 0;
}

typedef struct { sqfs_block_writer_t base; } null_wr_t;
static void wr_destroy(sqfs_object_t *obj) { free(obj); }
static int wr_write(sqfs_block_writer_t *wr, void *user, sqfs_u32 size,
		    sqfs_u32 checksum, sqfs_u32 flags, const sqfs_u8 *data,
		    sqfs_u64 *location)
{
	(void)wr; (void)user; (void)size; (void)checksum; (void)flags; (void)data;
	*location = 96 + (sqfs_u64)BS * (sqfs_u64)writes++;
	return 0;
}
static sqfs_u64 wr_count(const sqfs_block_writer_t *wr) { (void)wr; return writes; }

static void on_alarm(int sig)
{
	static const char msg[] = "HANG: sqfs_block_processor_finish() did not return within 5 s\n";
	(void)sig;
	if (write(2, msg, sizeof(msg) - 1) < 0)
		_exit(4);
	_exit(3);
}

int main(int argc, char **argv)
{
	int nblocks = argc > 1 ? atoi(argv[1]) : 4, i, ret;
	int tail = argc > 3 ? atoi(argv[3]) : 0;
	sqfs_block_processor_t *proc;
	sqfs_inode_generic_t *inode = NULL;
	fail_cmp_t *cmp = calloc(1, sizeof(*cmp));
	null_wr_t *wr = calloc(1, sizeof(*wr));
	static unsigned char buf[BS];

	fail_index = argc > 2 ? atoi(argv[2]) : 0;
	cmp->base.base.refcount = 1;
	cmp->base.base.destroy = cmp_destroy;
	cmp->base.base.copy = cmp_copy;
	cmp->base.do_block = cmp_do_block;
	wr->base.base.refcount = 1;
	wr->base.base.destroy = wr_destroy;
	wr->base.write_data_block = wr_write;
	wr->base.get_block_count = wr_count;

	proc = sqfs_block_processor_create(BS, &cmp->base, 1, 64, &wr->base, NULL);
	if (proc == NULL)
		return 2;
	ret = sqfs_block_processor_begin_file(proc, &inode, NULL,
					      SQFS_BLK_DONT_FRAGMENT);
	for (i = 0; ret == 0 && i < nblocks; ++i) {
		memset(buf, 'a' + i, sizeof(buf));
		ret = sqfs_block_processor_append(proc, buf, sizeof(buf));
	}
	if (ret == 0 && tail > 0 && tail < BS) {
		/* no sentinel block is queued behind a partial last block */
		memset(buf, 'z', sizeof(buf));
		ret = sqfs_block_processor_append(proc, buf, tail);
	}
	if (ret == 0)
		ret = sqfs_block_processor_end_file(proc);
	if (ret != 0) {
		fprintf(stderr, "unexpected early failure %d\n", ret);
		return 2;
	}
	pthread_mutex_lock(&gate_mtx);
	gate_open = 1;
	pthread_cond_broadcast(&gate_cond);
	pthread_mutex_unlock(&gate_mtx);

	signal(SIGALRM, on_alarm);
	alarm(5);
	ret = sqfs_block_processor_finish(proc);
	alarm(0);
	fprintf(stderr, "finish() = %d, blocks written %d of %d, do_block calls %d\n",
		ret, writes, nblocks, blocks_seen);
	if (ret == 0 && blocks_seen > fail_index) {
		fprintf(stderr, "SWALLOWED: a worker reported SQFS_ERROR_COMPRESSOR "
			"but finish() returned success\n");
		return 1;
	}
	return 0;
}
