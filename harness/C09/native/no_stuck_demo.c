/*
 * Native demonstration for C09.no_stuck (real pthreads, real threadpool.c).
 *
 *   cc -I$REPO/include -I$REPO -pthread no_stuck_demo.c \
 *      $REPO/lib/util/src/threadpool.c $REPO/lib/util/src/alloc.c -o demo
 *
 * One worker, three items. The worker reports a failure for the first item
 * while the other two are still queued. The pool stops its workers (status
 * != 0), so tickets 1 and 2 are never processed; the consumer gets ticket 0
 * back and then sleeps forever on done_cond waiting for ticket 1.
 * Exit status: 0 = every dequeue returned, 3 = watchdog fired (hang).
 */
#include <pthread.h>
#include <signal.h>
#include <stdio.h>
#include <stdlib.h>
#include <unistd.h>
#include "util/threadpool.h"

static pthread_mutex_t gate_mtx = PTHREAD_MUTEX_INITIALIZER;
static pthread_cond_t gate_cond = PTHREAD_COND_INITIALIZER;
static int gate_open;
static int calls;

static int worker(void *user, void *item)
{
	(void)user;
	/* hold the first item until everything has been submitted */
	pthread_mutex_lock(&gate_mtx);
	while (!gate_open)
		pthread_cond_wait(&gate_cond, &gate_mtx);
	calls += 1;
	pthread_mutex_unlock(&gate_mtx);
	return *(int *)item == 0 ? -42 : 0;
}

static void on_alarm(int sig)
{
	static const char msg[] = "HANG: dequeue() did not return within 5 s\n";
	(void)sig;
	if (write(2, msg, sizeof(msg) - 1) < 0)
		_exit(4);
	_exit(3);
}

int main(void)
{
	int items[3] = { 0, 1, 2 }, i;
	thread_pool_t *pool = thread_pool_create(1, worker);
	void *p;

	if (pool == NULL)
		return 2;
	for (i = 0; i < 3; ++i) {
		if (pool->submit(pool, &items[i]) != 0) {
			fprintf(stderr, "submit %d failed early\n", i);
			return 2;
		}
	}
	pthread_mutex_lock(&gate_mtx);
	gate_open = 1;
	pthread_cond_broadcast(&gate_cond);
	pthread_mutex_unlock(&gate_mtx);

	signal(SIGALRM, on_alarm);
	alarm(5);
	for (i = 0; i < 3; ++i) {
		p = pool->dequeue(pool);
		fprintf(stderr, "dequeue %d -> %s, status %d\n", i,
			p == NULL ? "NULL" : "item", pool->get_status(pool));
		if (p == NULL)
			break;
	}
	alarm(0);
	fprintf(stderr, "all dequeues returned; status %d, worker calls %d\n",
		pool->get_status(pool), calls);
	pool->destroy(pool);
	return 0;
}
