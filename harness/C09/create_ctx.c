/* C09.ctx at construction time: sqfs_block_processor_create_ex()
 * (block_processor.c) is where the per-worker contexts are made and bound to
 * the pool's workers. "No two workers use the same per-worker context at the
 * same time" holds because worker i only ever passes workers[i].user to the
 * callback (C09.ctx in worker_proc) AND because the contexts bound here are
 * pairwise different objects - for EVERY relation between the number of
 * workers and the backlog size.
 *
 * WORKERS (what the pool reports) and BACKLOG (desc.max_backlog) are case
 * parameters covering fewer / as many / more workers than backlog slots.
 * Contracts: thread_pool_create yields the pool object whose
 * get_worker_count is WORKERS and whose set_worker_ptr records (idx, ptr);
 * alloc_flex yields a fresh typed object per call (header only - the scratch
 * size is recorded); sqfs_copy of the compressor yields a fresh compressor
 * object per call; hash_table_create yields a table. Nothing fails here
 * (failure paths are C13 / C08).
 *
 *   C09.ctx.distinct   success => every worker index 0..WORKERS-1 was bound
 *        exactly once, to a worker_data_t that no other index is bound to,
 *        whose compressor is a copy made for it alone (not the caller's
 *        object, not another worker's) and whose scratch area was requested
 *        with max_block_size bytes and recorded as such
 *   C09.ctx.env_pre    call-site preconditions of the contracts
 */
#include <stdlib.h>
#include <string.h>
#include "verif.h"

#ifndef WORKERS
#define WORKERS 4
#endif
#ifndef BS
#define BS 4096
#endif
#ifndef BACKLOG
#define BACKLOG 3	/* desc.max_backlog: case parameter (a symbolic value makes any
			   arithmetic on it in the constructor intractable) */
#endif
#define MAXW 4

static void c09_free(void *p) { (void)p; }
#define free c09_free
#include "lib/sqfs/src/block_processor/block_processor.c"
#undef free

static struct { sqfs_block_processor_t proc; } g_p;
static struct { worker_data_t w; } g_w0, g_w1, g_w2, g_w3;
static sqfs_compressor_t g_cmp, g_c0, g_c1, g_c2, g_c3;
static sqfs_block_writer_t g_wr;
static thread_pool_t g_pool;
static struct hash_table g_ht;

static unsigned g_worker_allocs, g_cmp_copies, g_bound[MAXW];
static size_t g_worker_nmemb[MAXW];
static void *g_worker_ptr[MAXW];

static worker_data_t *W(unsigned i)
{
	switch (i) {
	case 0: return &g_w0.w; case 1: return &g_w1.w;
	case 2: return &g_w2.w; default: return &g_w3.w;
	}
}

static sqfs_compressor_t *C(unsigned i)
{
	switch (i) {
	case 0: return &g_c0; case 1: return &g_c1;
	case 2: return &g_c2; default: return &g_c3;
	}
}

void stub_obj_destroy(sqfs_object_t *obj) { (void)obj; }

sqfs_object_t *stub_cmp_copy(const sqfs_object_t *orig)
{
	sqfs_compressor_t *c;

	VERIF_ASSERT(orig == (const sqfs_object_t *)&g_cmp && g_cmp_copies < MAXW,
		     "C09.ctx.env_pre");
	c = C(g_cmp_copies);
	g_cmp_copies += 1;
	((sqfs_object_t *)c)->refcount = 1;
	((sqfs_object_t *)c)->destroy = stub_obj_destroy;
	((sqfs_object_t *)c)->copy = stub_cmp_copy;
	return (sqfs_object_t *)c;
}

void *alloc_flex(size_t base_size, size_t item_size, size_t nmemb)
{
	worker_data_t *w;

	VERIF_ASSERT(item_size == 1 && nmemb <= BS, "C09.ctx.env_pre");
	if (base_size == sizeof(sqfs_block_processor_t)) {
		memset(&g_p.proc, 0, sizeof(g_p.proc));
		return &g_p.proc;
	}
	VERIF_ASSERT(base_size == sizeof(worker_data_t) && g_worker_allocs < MAXW,
		     "C09.ctx.env_pre");
	g_worker_nmemb[g_worker_allocs] = nmemb;
	w = W(g_worker_allocs);
	g_worker_allocs += 1;
	w->next = NULL;
	w->cmp = NULL;
	w->scratch_size = 0;
	return w;
}

size_t stub_get_worker_count(thread_pool_t *pool)
{
	VERIF_ASSERT(pool == &g_pool, "C09.ctx.env_pre");
	return WORKERS;
}

void stub_set_worker_ptr(thread_pool_t *pool, size_t idx, void *ptr)
{
	VERIF_ASSERT(pool == &g_pool && idx < WORKERS, "C09.ctx.env_pre");
	if (idx < MAXW) {
		g_worker_ptr[idx] = ptr;
		g_bound[idx] += 1;
	}
}

void stub_pool_destroy(thread_pool_t *pool) { (void)pool; }

thread_pool_t *thread_pool_create(size_t num_jobs, thread_pool_worker_t worker)
{
	(void)num_jobs;
	VERIF_ASSERT(worker == process_block, "C09.ctx.env_pre");
	g_pool.destroy = stub_pool_destroy;
	g_pool.get_worker_count = stub_get_worker_count;
	g_pool.set_worker_ptr = stub_set_worker_ptr;
	return &g_pool;
}

struct hash_table *
hash_table_create(sqfs_u32 (*key_hash_function)(void *user, const void *key),
		  bool (*key_equals_function)(void *user, const void *a,
					      const void *b))
{
	g_ht.key_hash_function = key_hash_function;
	g_ht.key_equals_function = key_equals_function;
	g_ht.user = NULL;
	return &g_ht;
}

void hash_table_destroy(struct hash_table *ht,
			void (*delete_function)(struct hash_entry *entry))
{
	(void)ht; (void)delete_function;
}

/* reached only through other entry points of the translation unit */
bool is_memory_zero(const void *blob, size_t size) { (void)blob; (void)size; return false; }
sqfs_u32 xxh32(const void *input, const size_t len) { (void)input; (void)len; return 0; }
int sqfs_frag_table_lookup(sqfs_frag_table_t *tbl, sqfs_u32 index,
			   sqfs_fragment_t *out)
{
	(void)tbl; (void)index; (void)out;
	return SQFS_ERROR_OUT_OF_BOUNDS;
}
int dequeue_block(sqfs_block_processor_t *proc) { (void)proc; return 0; }
int enqueue_block(sqfs_block_processor_t *proc, sqfs_block_t *blk)
{
	(void)proc; (void)blk;
	return 0;
}
int stub_read_at(sqfs_file_t *f, sqfs_u64 o, void *b, size_t n)
{
	(void)f; (void)o; (void)b; (void)n;
	return 0;
}
sqfs_s32 stub_do_block(sqfs_compressor_t *c, const sqfs_u8 *in, sqfs_u32 size,
		       sqfs_u8 *out, sqfs_u32 outsize)
{
	(void)c; (void)in; (void)size; (void)out; (void)outsize;
	return 0;
}

void harness(void)
{
	sqfs_block_processor_desc_t desc;
	sqfs_block_processor_t *out = NULL;
	unsigned i, j;
	int ret;

	g_worker_allocs = g_cmp_copies = 0;
	for (i = 0; i < MAXW; ++i) {
		g_worker_ptr[i] = NULL;
		g_bound[i] = 0;
		g_worker_nmemb[i] = 0;
	}
	((sqfs_object_t *)&g_cmp)->refcount = 1;
	((sqfs_object_t *)&g_cmp)->destroy = stub_obj_destroy;
	((sqfs_object_t *)&g_cmp)->copy = stub_cmp_copy;
	((sqfs_object_t *)&g_wr)->refcount = 1;
	((sqfs_object_t *)&g_wr)->destroy = stub_obj_destroy;
	((sqfs_object_t *)&g_wr)->copy = NULL;

	memset(&desc, 0, sizeof(desc));
	desc.size = sizeof(desc);
	desc.max_block_size = BS;
	desc.num_workers = verif_nd_u32("num_workers");
	desc.max_backlog = BACKLOG;
	desc.cmp = &g_cmp;
	desc.wr = &g_wr;

	ret = sqfs_block_processor_create_ex(&desc, &out);

	VERIF_ASSERT(ret == 0 && out == &g_p.proc, "C09.ctx.distinct");
	for (i = 0; i < MAXW; ++i) {
		worker_data_t *wi = g_worker_ptr[i];

		if (i >= WORKERS)
			continue;
		VERIF_ASSERT(g_bound[i] == 1 && wi != NULL, "C09.ctx.distinct");
		if (wi == NULL)
			continue;
		VERIF_ASSERT(wi->cmp != NULL && wi->cmp != &g_cmp,
			     "C09.ctx.distinct");
		VERIF_ASSERT(wi->scratch_size == BS, "C09.ctx.distinct");
		for (j = 0; j < i; ++j) {
			worker_data_t *wj = g_worker_ptr[j];

			VERIF_ASSERT(wj != wi, "C09.ctx.distinct");
			if (wj != NULL)
				VERIF_ASSERT(wj->cmp != wi->cmp, "C09.ctx.distinct");
		}
	}
	VERIF_ASSERT(g_worker_allocs == WORKERS && g_cmp_copies == WORKERS,
		     "C09.ctx.distinct");
	for (i = 0; i < MAXW; ++i) {
		if (i < WORKERS)
			VERIF_ASSERT(g_worker_nmemb[i] == BS, "C09.ctx.distinct");
	}
	VERIF_COVER(ret == 0 && g_worker_ptr[WORKERS - 1] != NULL);
}
