/* C09 on the block processor: dequeue_block() (lib/sqfs/src/block_processor/
 * backend.c) - the only place where the main thread takes blocks back from
 * the pool - with the real process_completed_block() / store_io_block()
 * underneath, the pool and the block writer replaced by their contracts
 * (bp_env.h). Arbitrary state within the block processor's accounting
 * invariant
 *   backlog = blocks inside the pool + (frag_block != NULL) + (blk_current != NULL)
 * with an empty io_queue; a worker may fail at any moment.
 *
 *   C09.bp.error_surfaces    when dequeue() yields NULL the call fails with
 *                            the pool status (SQFS_ERROR_INTERNAL if that is
 *                            0) - never success
 *   C09.bp.failure_reported  a worker failure is never swallowed: if the call
 *                            returns 0, no block was taken back from the pool
 *                            while the pool status was non-zero. (sync() and
 *                            finish() return the first non-zero result of this
 *                            function and 0 only when every block has been
 *                            taken back, so this is the inductive step of
 *                            "finish() == 0 => no worker failed".)
 *   (the order in which blocks reach the writer is C02.io.order, not here)
 *   C09.bp.pool_pre / writer_pre   call-site preconditions of the contracts
 */
#include <stdlib.h>
#include <string.h>
#include "bp_env.h"
#include "lib/sqfs/src/block_processor/backend.c"

static sqfs_block_processor_t g_proc;

void harness(void)
{
	sqfs_block_processor_t *proc = &g_proc;
	size_t n = NPOOL;
	bool has_cur = verif_nd_bool("has_cur"), has_frag = verif_nd_bool("has_frag");
	sqfs_u32 seq0 = verif_nd_u32("io_seq_num");
	int ret;

	VERIF_ASSUME(seq0 < 0xFFFFFF00u);
	c09_bp_block(BLK(0), FL0);
	c09_bp_block(BLK(1), FL1);
	c09_bp_block(BLK(2), FL2);
	c09_bp_block(BLK(3), FL3);
	c09_bp_block(&g_cur, 0);
	c09_bp_block(&g_frag, SQFS_BLK_FRAGMENT_BLOCK);
	g_inpool = n;
	g_pstatus = verif_nd_int("pool_status");

	g_tp.dequeue = stub_dequeue;
	g_tp.get_status = stub_get_status;
	g_tp.submit = stub_submit;
	g_wr.write_data_block = stub_write_data_block;

	proc->frag_tbl = NULL;
	proc->frag_block = has_frag ? &g_frag.b : NULL;
	proc->blk_current = has_cur ? &g_cur.b : NULL;
	proc->wr = &g_wr;
	proc->free_list = NULL;
	proc->max_block_size = BLK_DATA;
	proc->max_backlog = 10;
	proc->backlog = n + (has_cur ? 1 : 0) + (has_frag ? 1 : 0);
	proc->pool = &g_tp;
	proc->io_queue = NULL;
	proc->io_seq_num = seq0;
	proc->io_deq_seq_num = seq0;
	proc->fblk_in_flight = NULL;
	proc->file = NULL;
	proc->uncmp = NULL;
	proc->stats.output_bytes_generated = verif_nd_u64("stats");
	proc->stats.data_block_count = verif_nd_u64("stats");
	proc->stats.sparse_block_count = verif_nd_u64("stats");
	VERIF_ASSUME(proc->stats.output_bytes_generated < (1ULL << 60) &&
		     proc->stats.data_block_count < (1ULL << 60) &&
		     proc->stats.sparse_block_count < (1ULL << 60));

	ret = dequeue_block(proc);

	if (g_null_returned)
		VERIF_ASSERT(ret != 0 &&
			     ret == (g_pstatus != 0 ? g_pstatus : SQFS_ERROR_INTERNAL),
			     "C09.bp.error_surfaces");
	if (ret == 0)
		VERIF_ASSERT(!g_handed_while_failed, "C09.bp.failure_reported");

#if GIVEUP_AT >= 0 || NPOOL == 0
	VERIF_COVER(ret != 0 && g_null_returned);
#else
	VERIF_COVER(ret == 0 && g_writes == 1);
	VERIF_COVER(ret != 0 && g_write_failed);
	VERIF_COVER(g_handed_while_failed);
#endif
	VERIF_COVER(has_cur && has_frag);
}
