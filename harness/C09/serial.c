/* C09.serial_refines: the serial pool (lib/util/src/threadpool_serial.c, the
 * NO_THREAD_IMPL build and thread_pool_create_serial) against the same
 * abstract contract the threaded pool is held to: a FIFO of submitted
 * pointers, each processed exactly once with the pool's context before it is
 * handed back, first failure status sticks and makes submit fail.
 *   -DOP_SUBMIT / -DOP_DEQUEUE, from an arbitrary state satisfying
 *   S-INV: queue NULL-terminated (<= KQ nodes), queue_last its tail (NULL iff
 *          empty), recycle NULL-terminated (<= KR nodes); data, user, status
 *          symbolic.
 *
 * submit:  status != 0 -> returns it, nothing changes (no allocation either);
 *          else the pointer is appended at the TAIL, the rest of the queue
 *          keeps its order and data; allocation failure -> -1, nothing
 *          changes; the node comes from recycle first.
 * dequeue: empty -> NULL, callback not called, nothing changes; else returns
 *          the HEAD's pointer, the callback ran exactly once, with that
 *          pointer and pool->user, the queue is the old tail, the node is
 *          recycled; status = first non-zero callback status.
 * All named C09.serial_refines.<clause>; S-INV afterwards is
 * C09.serial.<op>.inv.
 */
#include <stdlib.h>
#include <string.h>
#include "verif.h"
#include "lib/util/src/threadpool_serial.c"

#ifndef KQ
#define KQ 3
#endif
#ifndef KR
#define KR 2
#endif
/* obligation name prefix: C02 re-uses this harness as C02.serial_equiv */
#ifndef SER_PREFIX
#define SER_PREFIX "C09.serial_refines"
#endif
#ifndef SER_INV_PREFIX
#define SER_INV_PREFIX "C09.serial"
#endif
#ifdef OP_SUBMIT
#define INV_NAME SER_INV_PREFIX ".submit.inv"
#else
#define INV_NAME SER_INV_PREFIX ".dequeue.inv"
#endif

static serial_impl_t g_sp;
static work_item_t g_q0, g_q1, g_q2, g_q3, g_r0, g_r1, g_r2, g_r3;
static char g_blob[64];

static work_item_t *QN(size_t i)
{
	switch (i) {
	case 0: return &g_q0; case 1: return &g_q1;
	case 2: return &g_q2; case 3: return &g_q3; default: return NULL;
	}
}

static work_item_t *RN(size_t i)
{
	switch (i) {
	case 0: return &g_r0; case 1: return &g_r1;
	case 2: return &g_r2; case 3: return &g_r3; default: return NULL;
	}
}

static void *nd_ptr(const char *tag)
{
	uint8_t k = verif_nd_u8(tag);

	return k < 64 ? (void *)&g_blob[k] : NULL;
}

static size_t s_len(const work_item_t *l, size_t max)
{
	size_t n = 0;

	while (l != NULL && n <= max) {
		l = l->next;
		++n;
	}
	return n;
}

static const work_item_t *s_last(const work_item_t *l, size_t max)
{
	size_t n = 0;

	while (l != NULL && l->next != NULL && n <= max) {
		l = l->next;
		++n;
	}
	return l;
}

static const work_item_t *s_nth(const work_item_t *l, size_t k, size_t max)
{
	size_t n = 0;

	while (l != NULL && n < k && n <= max) {
		l = l->next;
		++n;
	}
	return l;
}

static unsigned g_calls;
static void *g_cb_user, *g_cb_item;
static int g_cb_status;

static int stub_fun(void *user, void *item)
{
	g_calls += 1;
	g_cb_user = user;
	g_cb_item = item;
	g_cb_status = verif_nd_int("callback_status");
	return g_cb_status;
}

static size_t q0n, r0n;
static void *q0data[4];
static work_item_t *r0head;
static int status0;
static void *user0;

static void build(void)
{
	size_t q = verif_nd_size("qlen"), r = verif_nd_size("rlen"), i;

	VERIF_ASSUME(q <= KQ && r <= KR);
	for (i = 0; i < 4; ++i) {
		QN(i)->data = nd_ptr("queue.data");
		QN(i)->next = (i + 1 < q) ? QN(i + 1) : NULL;
		RN(i)->data = nd_ptr("recycle.data");
		RN(i)->next = (i + 1 < r) ? RN(i + 1) : NULL;
		q0data[i] = QN(i)->data;
	}
	g_sp.queue = q > 0 ? QN(0) : NULL;
	g_sp.queue_last = q > 0 ? QN(q - 1) : NULL;
	g_sp.recycle = r > 0 ? RN(0) : NULL;
	g_sp.fun = stub_fun;
	g_sp.user = nd_ptr("user");
	g_sp.status = verif_nd_int("status");
	q0n = q;
	r0n = r;
	r0head = g_sp.recycle;
	status0 = g_sp.status;
	user0 = g_sp.user;
}

static void check_inv(void)
{
	VERIF_ASSERT(s_len(g_sp.queue, KQ + 1) <= KQ + 1, INV_NAME);
	VERIF_ASSERT(g_sp.queue_last == s_last(g_sp.queue, KQ + 1), INV_NAME);
	VERIF_ASSERT(s_len(g_sp.recycle, KR + 1) <= KR + 1, INV_NAME);
	VERIF_ASSERT(g_sp.fun == stub_fun && g_sp.user == user0, INV_NAME);
}

void harness(void)
{
	size_t i;

	build();
#ifdef OP_SUBMIT
	{
		void *ptr = nd_ptr("submitted");
		int ret = submit(&g_sp.base, ptr);
		const work_item_t *last = s_last(g_sp.queue, KQ + 1);

		VERIF_ASSERT(g_calls == 0, SER_PREFIX ".once");
		if (status0 != 0) {
			VERIF_ASSERT(ret == status0, SER_PREFIX ".reports_status");
		} else {
			VERIF_ASSERT(ret == 0 || (ret == -1 && r0head == NULL),
				     SER_PREFIX ".reports_status");
		}
		VERIF_ASSERT(g_sp.status == status0, SER_PREFIX ".reports_status");
		if (ret == 0) {
			VERIF_ASSERT(s_len(g_sp.queue, KQ + 1) == q0n + 1,
				     SER_PREFIX ".fifo");
			VERIF_ASSERT(last != NULL && last->data == ptr &&
				     last->next == NULL, SER_PREFIX ".fifo");
			for (i = 0; i < 4; ++i) {
				if (i < q0n)
					VERIF_ASSERT(s_nth(g_sp.queue, i, KQ + 1) == QN(i) &&
						     QN(i)->data == q0data[i],
						     SER_PREFIX ".fifo");
			}
			VERIF_ASSERT(r0head == NULL ? g_sp.recycle == NULL
				     : (last == r0head &&
					s_len(g_sp.recycle, KR + 1) == r0n - 1),
				     SER_PREFIX ".once");
		} else {
			VERIF_ASSERT(s_len(g_sp.queue, KQ + 1) == q0n &&
				     g_sp.queue == (q0n > 0 ? QN(0) : NULL) &&
				     g_sp.recycle == r0head,
				     SER_PREFIX ".reports_status");
			for (i = 0; i < 4; ++i) {
				if (i < q0n)
					VERIF_ASSERT(s_nth(g_sp.queue, i, KQ + 1) == QN(i) &&
						     QN(i)->data == q0data[i],
						     SER_PREFIX ".reports_status");
			}
		}
		VERIF_COVER(ret == 0 && q0n == KQ && r0head != NULL);
		VERIF_COVER(ret == 0 && q0n == 0 && r0head == NULL);
		VERIF_COVER(ret == -1 && status0 == 0);
		VERIF_COVER(ret != 0 && status0 != 0);
	}
#else
	{
		void *ptr = dequeue(&g_sp.base);
		int st;

		if (q0n == 0) {
			VERIF_ASSERT(ptr == NULL && g_calls == 0 &&
				     g_sp.queue == NULL && g_sp.recycle == r0head &&
				     g_sp.status == status0,
				     SER_PREFIX ".empty");
		} else {
			VERIF_ASSERT(ptr == q0data[0], SER_PREFIX ".fifo");
			VERIF_ASSERT(g_calls == 1 && g_cb_item == q0data[0],
				     SER_PREFIX ".once");
			VERIF_ASSERT(g_cb_user == user0, SER_PREFIX ".ctx");
			VERIF_ASSERT(g_sp.queue == (q0n > 1 ? QN(1) : NULL) &&
				     s_len(g_sp.queue, KQ + 1) == q0n - 1,
				     SER_PREFIX ".fifo");
			for (i = 1; i < 4; ++i) {
				if (i < q0n)
					VERIF_ASSERT(s_nth(g_sp.queue, i - 1, KQ + 1) == QN(i) &&
						     QN(i)->data == q0data[i],
						     SER_PREFIX ".fifo");
			}
			VERIF_ASSERT(g_sp.recycle == QN(0) && QN(0)->next == r0head &&
				     QN(0)->data == NULL, SER_PREFIX ".once");
			VERIF_ASSERT(g_sp.status ==
				     (status0 != 0 ? status0 : g_cb_status),
				     SER_PREFIX ".status_first");
		}
		st = get_status(&g_sp.base);
		VERIF_ASSERT(st == g_sp.status, SER_PREFIX ".status_first");
		VERIF_COVER(q0n == 0);
		VERIF_COVER(q0n == KQ && g_cb_status != 0 && status0 == 0);
		VERIF_COVER(q0n == 1 && status0 != 0 && g_cb_status != status0);
	}
#endif
	check_inv();
}
