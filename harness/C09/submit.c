/* C09: submit() - the submitting thread's entry. Started from an arbitrary
 * M-INV state (recycle list, safe_done run, counters); the lock delivers an
 * arbitrary shared state within INV; calloc may fail.
 *
 *   C09.submit.inv        INV at unlock, M-INV at return
 *   C09.fifo              status 0: the new item is appended at the TAIL of
 *                         the queue with ticket = old next_ticket and the
 *                         caller's pointer, next_ticket advances by one,
 *                         item_count by one; everything that was queued
 *                         stays queued in its order
 *   C09.once              items drained from done go to the tail of
 *                         safe_done, in ticket order, each exactly once
 *                         (M-INV's run property), and leave done
 *   C09.submit.reports_status
 *                         the return value is the pool status found under
 *                         the lock; if it is non-zero nothing is queued, the
 *                         ticket counter and item_count do not move and the
 *                         item goes back to recycle; allocation failure is
 *                         -1 without touching the monitor
 *   C09.signal            queue gained an element => queue_cond broadcast
 *   C09.lock.discipline
 */
#define CS "submit"
#include "pool_model.h"

static void *g_ptr;
static size_t g_ic0;		/* item_count at entry */
static size_t g_sl0;		/* |safe_done| at entry */
static int g_released;

static void c09_on_release(int is_wait, pthread_cond_t *cond)
{
	thread_pool_impl_t *pool = POOL;
	const work_item_t *last = c09_last(pool->queue, QMAX);
	size_t moved = pool->next_dequeue_ticket - s_ndt;
	size_t i;

	(void)cond;
	VERIF_ASSERT(!is_wait, "C09.lock.discipline");	/* submit never blocks */
	g_released += 1;

	if (s_status == 0) {
		VERIF_ASSERT(c09_len(pool->queue, QMAX) == s_qn + 1, "C09.fifo");
		VERIF_ASSERT(last != NULL && last->ticket_number == s_nt &&
			     last->data == g_ptr && last->next == NULL, "C09.fifo");
		VERIF_ASSERT(pool->next_ticket == s_nt + 1, "C09.fifo");
		VERIF_ASSERT(s_qn == 0 ? pool->queue == last
				       : pool->queue == s_b.queue, "C09.fifo");
		for (i = 0; i < 4; ++i) {
			if (s_q[i] != NULL)
				VERIF_ASSERT(c09_item_eq(s_q[i], &s_b.q[i],
							 i + 1 < s_qn) &&
					     (i + 1 < s_qn || s_q[i]->next == last),
					     "C09.fifo");
		}
		VERIF_ASSERT(g_bcast_queue, "C09.signal");
		/* ghost: ticket s_nt now maps to the caller's pointer */
		if (s_nt == g_wt)
			g_wd = g_ptr;
	} else {
		VERIF_ASSERT(pool->queue == s_b.queue &&
			     pool->queue_last == s_b.queue_last &&
			     pool->next_ticket == s_nt, "C09.submit.reports_status");
		for (i = 0; i < 4; ++i) {
			if (s_q[i] != NULL)
				VERIF_ASSERT(c09_item_eq(s_q[i], &s_b.q[i], 1),
					     "C09.submit.reports_status");
		}
	}
	VERIF_ASSERT(pool->status == s_status, "C09.frame");

	/* drain: a prefix of done moved to the tail of safe_done */
	VERIF_ASSERT(moved <= s_dn, "C09.once");
	VERIF_ASSERT(c09_len(pool->done, DMAX) == s_dn - moved, "C09.once");
	VERIF_ASSERT(c09_len(pool->safe_done, SMAX) == g_sl0 + moved, "C09.once");
	for (i = 0; i < 4; ++i) {
		if (s_d[i] != NULL) {
			if (i < moved)
				VERIF_ASSERT(c09_has(pool->safe_done, s_d[i], SMAX) &&
					     !c09_has(pool->done, s_d[i], DMAX),
					     "C09.once");
			else
				VERIF_ASSERT(c09_has(pool->done, s_d[i], DMAX) &&
					     !c09_has(pool->safe_done, s_d[i], SMAX),
					     "C09.once");
			VERIF_ASSERT(c09_item_eq(s_d[i], &s_b.d[i], 0), "C09.frame");
		}
	}
	/* ... and all of it that was available */
	VERIF_ASSERT(pool->done == NULL ||
		     pool->done->ticket_number != pool->next_dequeue_ticket,
		     "C09.submit.drains");
}

void harness(void)
{
	thread_pool_impl_t *pool = POOL;
	work_item_t *r0, *r0next;
	int ret;

	g_is_main = 1;
	c09_build_main();
	g_held = NULL;
	g_locked = 0;
	g_ptr = c09_nd_ptr("submitted");
	g_ic0 = pool->item_count;
	g_sl0 = c09_len(pool->safe_done, SMAX);
	r0 = pool->recycle;
	r0next = r0 != NULL ? r0->next : NULL;

	ret = submit(&pool->base, g_ptr);

	VERIF_ASSERT(!g_locked && g_locks == g_unlocks, "C09.lock.discipline");
	if (g_locks == 0) {
		/* allocation failure: nothing happened */
		VERIF_ASSERT(ret == -1 && r0 == NULL, "C09.submit.reports_status");
		VERIF_ASSERT(pool->item_count == g_ic0 && pool->recycle == NULL,
			     "C09.submit.reports_status");
	} else {
		VERIF_ASSERT(g_released == 1, "C09.lock.discipline");
		VERIF_ASSERT(ret == s_status, "C09.submit.reports_status");
		if (ret == 0) {
			VERIF_ASSERT(pool->item_count == g_ic0 + 1, "C09.fifo");
			VERIF_ASSERT(pool->recycle == r0next, "C09.once");
		} else {
			VERIF_ASSERT(pool->item_count == g_ic0,
				     "C09.submit.reports_status");
			VERIF_ASSERT(pool->recycle != NULL &&
				     (r0 == NULL || pool->recycle == r0) &&
				     pool->recycle->next == r0next,
				     "C09.submit.reports_status");
		}
		c09_check_main_inv();
	}
	VERIF_COVER(g_locks == 0);
	VERIF_COVER(g_locks == 1 && ret == 0 && r0 != NULL);
	VERIF_COVER(g_locks == 1 && ret == 0 && r0 == NULL && s_qn == KQ);
	VERIF_COVER(g_locks == 1 && ret != 0 && r0 == NULL);
	VERIF_COVER(g_locks == 1 && ret == 0 && s_qn == 0 &&
		    pool->next_dequeue_ticket == s_ndt + KD && g_sl0 == KS);
	VERIF_COVER(g_locks == 1 && s_dn == KD && pool->next_dequeue_ticket == s_ndt);
}
