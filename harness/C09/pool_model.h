/*
 * pool_model.h - C09: monitor-proof vocabulary for lib/util/src/threadpool.c
 *
 * The real translation unit is compiled verbatim. Its pthread calls are routed
 * (macro rename, so that the native replay build does not interpose libc) to
 * the environment contracts below. Those contracts are the trusted base:
 *
 *   lock        requires the calling thread does not hold the mutex; returns
 *               with the SHARED state arbitrary within the monitor invariant
 *               INV (whatever any other thread may have left behind)
 *   cond_wait   requires the mutex held and INV re-established (checked);
 *               returns with the shared state again arbitrary within INV -
 *               wake-ups are spurious by construction, the awaited predicate
 *               is never promised
 *   unlock      requires the mutex held and INV re-established (checked),
 *               plus the signalling rule (ghost broadcast flags)
 *   broadcast   sets the ghost flag of its condition variable
 *
 * Heap model: every list has its own array of typed nodes; a list of length n
 * is the chain of the first n nodes of its array (any other arrangement is
 * isomorphic - the pool never compares node addresses). Each acquisition of
 * the monitor uses a fresh generation of queue/done nodes, so an item a
 * worker holds across a release is never aliased by the new shared state.
 * Lengths are symbolic up to the capacities KQ/KD/KS/KR (or fixed with
 * -DQLEN/-DDLEN for the first acquisition); tickets, data pointers, status
 * and the number of items in other workers' hands are symbolic.
 *
 * INV (shared, protected by pool->mtx):
 *   queue NULL-terminated, its tickets are the run ending at next_ticket - 1
 *     (neighbours differ by one), queue_last its tail (NULL iff queue empty);
 *     let qfirst = ticket of the queue head, or next_ticket if it is empty
 *   next_dequeue_ticket <= qfirst <= next_ticket
 *   done NULL-terminated, strictly increasing tickets, all in
 *     [next_dequeue_ticket, qfirst)
 *   W, the tickets in workers' hands, is BY DEFINITION the rest of
 *     [next_dequeue_ticket, qfirst) - so every ticket that was handed out and
 *     not yet dequeued is in exactly one of queue / done / W (no gaps, no
 *     duplicates); |W| <= number of workers (each holds at most one item);
 *     the item the thread under test holds has a ticket in W
 *   for the witness ticket g_wt: an item carrying it carries data g_wd
 *     (ticket -> data is a function; universally quantified by the solver)
 * M-INV (owned by the submitting thread, touched without the lock):
 *   safe_done NULL-terminated, its tickets are the run ending at
 *     next_dequeue_ticket - 1, safe_done_last its tail (NULL iff empty)
 *   recycle NULL-terminated
 *   item_count = next_ticket - next_dequeue_ticket + |safe_done|
 *
 * A harness defines CS (the critical-section name used in obligation names)
 * and the hook c09_on_release() before including this file's stubs.
 */
#ifndef C09_POOL_MODEL_H
#define C09_POOL_MODEL_H

#include <pthread.h>
#include <signal.h>
#include <stdlib.h>
#include <string.h>
#include "verif.h"

/* route the pthread API used by threadpool.c to the contracts below */
static int c09_mutex_lock(pthread_mutex_t *m);
static int c09_mutex_unlock(pthread_mutex_t *m);
static int c09_cond_wait(pthread_cond_t *c, pthread_mutex_t *m);
static int c09_cond_broadcast(pthread_cond_t *c);
static int c09_cond_signal(pthread_cond_t *c);
static int c09_join(pthread_t t, void **ret);
static int c09_cond_destroy(pthread_cond_t *c);
static int c09_mutex_destroy(pthread_mutex_t *m);
#define pthread_mutex_lock c09_mutex_lock
#define pthread_mutex_unlock c09_mutex_unlock
#define pthread_cond_wait c09_cond_wait
#define pthread_cond_broadcast c09_cond_broadcast
#define pthread_cond_signal c09_cond_signal
#define pthread_join c09_join
#define pthread_cond_destroy c09_cond_destroy
#define pthread_mutex_destroy c09_mutex_destroy

#include "lib/util/src/threadpool.c"

#ifndef CS
#error "define CS (critical section name) before including pool_model.h"
#endif
#define INV_NAME "C09." CS ".inv"
/* a != b, phrased with the order atoms the code itself uses */
#define C09_NEQ(a, b) (((a) < (b)) || ((b) < (a)))

#ifndef KQ
#define KQ 2
#endif
#ifndef KD
#define KD 2
#endif
#ifndef KS
#define KS 2
#endif
#ifndef KR
#define KR 2
#endif
#ifndef NW
#define NW 2		/* worker threads */
#endif
#ifndef MAXWAIT
#define MAXWAIT 1	/* cond_wait returns explored after each lock */
#endif
#ifndef MAXLOCK
#define MAXLOCK 1	/* lock calls explored per harness */
#endif
#ifndef NGEN
#define NGEN (MAXLOCK * (MAXWAIT + 1))	/* acquisitions modelled */
#endif
/* longest list a section can produce from a state within the capacities */
#define QMAX (KQ + 1)
#define DMAX (KD + 1)
#define SMAX (KS + KD + 1)
#define RMAX (KR + 1)

typedef struct {
	thread_pool_impl_t p;
	worker_t w[NW];
} c09_pool_t;

#ifndef C09_HEAP
static c09_pool_t g_pw;
#else
/* destroy() frees the pool and its items: everything comes from malloc */
static c09_pool_t *g_pwp;
#define g_pw (*g_pwp)
#endif
#define POOL (&g_pw.p)

/*
 * List nodes are DISTINCT objects (not array elements): a pointer to a node is
 * then an object identity with offset 0, which keeps CBMC's dereferences cheap.
 * Capacity: 4 generations x 4 nodes for queue/done, 4 for safe_done/recycle.
 */
#ifndef C09_HEAP
#define C09_N4(p) static work_item_t p##0, p##1, p##2, p##3
C09_N4(g_q0_); C09_N4(g_q1_); C09_N4(g_q2_); C09_N4(g_q3_);
C09_N4(g_d0_); C09_N4(g_d1_); C09_N4(g_d2_); C09_N4(g_d3_);
C09_N4(g_s_); C09_N4(g_r_);

#define C09_SW4(p, i) \
	switch (i) { case 0: return &p##0; case 1: return &p##1; \
		     case 2: return &p##2; case 3: return &p##3; default: return NULL; }

static work_item_t *QN(unsigned g, size_t i)
{
	switch (g) {
	case 0: C09_SW4(g_q0_, i)
	case 1: C09_SW4(g_q1_, i)
	case 2: C09_SW4(g_q2_, i)
	case 3: C09_SW4(g_q3_, i)
	default: return NULL;
	}
}

static work_item_t *DN(unsigned g, size_t i)
{
	switch (g) {
	case 0: C09_SW4(g_d0_, i)
	case 1: C09_SW4(g_d1_, i)
	case 2: C09_SW4(g_d2_, i)
	case 3: C09_SW4(g_d3_, i)
	default: return NULL;
	}
}

static work_item_t *SN(size_t i) { C09_SW4(g_s_, i) }
static work_item_t *RN(size_t i) { C09_SW4(g_r_, i) }
#else
static work_item_t *g_hq[4], *g_hd[4], *g_hs[4], *g_hr[4];
static work_item_t *QN(unsigned g, size_t i) { (void)g; return i < 4 ? g_hq[i] : NULL; }
static work_item_t *DN(unsigned g, size_t i) { (void)g; return i < 4 ? g_hd[i] : NULL; }
static work_item_t *SN(size_t i) { return i < 4 ? g_hs[i] : NULL; }
static work_item_t *RN(size_t i) { return i < 4 ? g_hr[i] : NULL; }

static void c09_heap_alloc(void)
{
	size_t i;

	g_pwp = malloc(sizeof(*g_pwp));
	VERIF_ASSUME(g_pwp != NULL);
	for (i = 0; i < 4; ++i) {
		g_hq[i] = malloc(sizeof(work_item_t));
		g_hd[i] = malloc(sizeof(work_item_t));
		g_hs[i] = malloc(sizeof(work_item_t));
		g_hr[i] = malloc(sizeof(work_item_t));
		VERIF_ASSUME(g_hq[i] != NULL && g_hd[i] != NULL &&
			     g_hs[i] != NULL && g_hr[i] != NULL);
	}
}
#endif

/* ------------------------------------------------------------ ghost state */
static int g_locked;		/* this thread holds pool->mtx */
static int g_is_main;		/* CS under test runs on the submitting thread */
static int g_bcast_queue;	/* queue_cond broadcast since last acquisition */
static int g_bcast_done;	/* done_cond broadcast since last acquisition */
static unsigned g_gen;		/* acquisitions so far */
static unsigned g_waits;	/* cond_wait returns since the last lock */
static unsigned g_waits_total;
static unsigned g_locks, g_unlocks;

static work_item_t *g_held;	/* item in THIS thread's hands (or NULL) */
static work_item_t *s_held;	/* ... as it was at the last acquisition */
static size_t g_busy_cap;	/* workers other than this thread */
static size_t g_wt;		/* witness ticket ... */
static void *g_wd;		/* ... and the data submitted with it */

/* snapshot of the shared state at the last acquisition */
static size_t s_qn, s_dn;
static work_item_t *s_q[4], *s_d[4];
static int s_status;
static size_t s_nt, s_ndt;

/* plain-field copy of everything outside the shared lists' links, taken at
 * every acquisition: what a worker-side section must not write */
typedef struct {
	work_item_t *queue, *queue_last, *done, *safe_done, *safe_done_last;
	work_item_t *recycle;
	size_t next_ticket, next_dequeue_ticket, item_count, num_workers;
	int status;
	void *user[NW];
	thread_pool_impl_t *wpool[NW];
	work_item_t q[4], d[4], s[4], r[4], held;
} c09_snap_t;
static c09_snap_t s_b;

static void c09_on_release(int is_wait, pthread_cond_t *cond);

/* ------------------------------------------------------------ list helpers */
/* length of a NULL-terminated list, max+1 if it does not end within max */
static size_t c09_len(const work_item_t *l, size_t max)
{
	size_t n = 0;

	while (l != NULL && n <= max) {
		l = l->next;
		++n;
	}
	return n;
}

static int c09_has(const work_item_t *l, const work_item_t *x, size_t max)
{
	size_t n = 0;

	while (l != NULL && n <= max) {
		if (l == x)
			return 1;
		l = l->next;
		++n;
	}
	return 0;
}

static int c09_has_ticket(const work_item_t *l, size_t t, size_t max)
{
	size_t n = 0;

	while (l != NULL && n <= max) {
		if (!C09_NEQ(l->ticket_number, t))
			return 1;
		l = l->next;
		++n;
	}
	return 0;
}

static int c09_strictly_increasing(const work_item_t *l, size_t max)
{
	size_t n = 0;

	while (l != NULL && l->next != NULL && n <= max) {
		if (!(l->ticket_number < l->next->ticket_number))
			return 0;
		l = l->next;
		++n;
	}
	return 1;
}

/* tickets are first, first+1, ... */
static int c09_consecutive_from(const work_item_t *l, size_t first, size_t max)
{
	size_t n = 0;

	while (l != NULL && n <= max) {
		if (l->ticket_number != first + n)
			return 0;
		l = l->next;
		++n;
	}
	return 1;
}

static const work_item_t *c09_last(const work_item_t *l, size_t max)
{
	size_t n = 0;

	while (l != NULL && l->next != NULL && n <= max) {
		l = l->next;
		++n;
	}
	return l;
}

/* all tickets of l in [lo, hi) */
static int c09_in_range(const work_item_t *l, size_t lo, size_t hi, size_t max)
{
	size_t n = 0;

	while (l != NULL && n <= max) {
		if (l->ticket_number < lo || !(l->ticket_number < hi))
			return 0;
		l = l->next;
		++n;
	}
	return 1;
}

static int c09_witness_ok(const work_item_t *l, size_t max)
{
	size_t n = 0;

	while (l != NULL && n <= max) {
		if (l->ticket_number == g_wt && l->data != g_wd)
			return 0;
		l = l->next;
		++n;
	}
	return 1;
}

/* opaque user pointers: any address inside a dummy object or NULL (the pool
 * never dereferences them; only their identity matters) */
static char g_blob[64];
static void *c09_nd_ptr(const char *tag)
{
	uint8_t k = verif_nd_u8(tag);

	return k < 64 ? (void *)&g_blob[k] : NULL;
}

/* ------------------------------------------------- INV as an assertion set */
/*
 * Written relationally (neighbour tickets differ by one, counts against one
 * difference) in exactly the shape c09_build_shared() assumes it, so that
 * the solver never has to re-associate 64-bit sums.
 */
static int c09_step_one(const work_item_t *l, size_t max)
{
	size_t n = 0;

	while (l != NULL && l->next != NULL && n <= max) {
		if (l->next->ticket_number != l->ticket_number + 1)
			return 0;
		l = l->next;
		++n;
	}
	return 1;
}

static void c09_check_inv(void)
{
	thread_pool_impl_t *pool = POOL;
	size_t ql = c09_len(pool->queue, QMAX), dl = c09_len(pool->done, DMAX);
	size_t wl = g_held != NULL ? 1 : 0;
	size_t nt = pool->next_ticket, ndt = pool->next_dequeue_ticket;
	const work_item_t *qlast = c09_last(pool->queue, QMAX);
	size_t qfirst = pool->queue != NULL ? pool->queue->ticket_number : nt;

	VERIF_ASSERT(ql <= QMAX && dl <= DMAX, INV_NAME);
	/* queue = the run of tickets ending at next_ticket - 1 */
	VERIF_ASSERT(c09_step_one(pool->queue, QMAX), INV_NAME);
	VERIF_ASSERT(pool->queue_last == qlast, INV_NAME);
	VERIF_ASSERT(qlast == NULL || qlast->ticket_number + 1 == nt, INV_NAME);
	VERIF_ASSERT(ndt <= qfirst && qfirst <= nt, INV_NAME);
	/* done: sorted, below the queue */
	VERIF_ASSERT(c09_strictly_increasing(pool->done, DMAX), INV_NAME);
	VERIF_ASSERT(c09_in_range(pool->done, ndt, qfirst, DMAX), INV_NAME);
	if (g_held != NULL) {
		VERIF_ASSERT(!(g_held->ticket_number < ndt) &&
			     g_held->ticket_number < qfirst, INV_NAME);
		VERIF_ASSERT(!c09_has_ticket(pool->done, g_held->ticket_number,
					     DMAX), INV_NAME);
		VERIF_ASSERT(!c09_has(pool->queue, g_held, QMAX) &&
			     !c09_has(pool->done, g_held, DMAX), INV_NAME);
		VERIF_ASSERT(g_held->ticket_number != g_wt ||
			     g_held->data == g_wd, INV_NAME);
	}
	/*
	 * W, the tickets in workers' hands, is by definition what is left of
	 * [ndt, qfirst) after removing the done list (so there are no gaps by
	 * construction); each worker holds at most one item.
	 */
	VERIF_ASSERT(dl <= qfirst - ndt, INV_NAME);
	VERIF_ASSERT((qfirst - ndt) - dl <= g_busy_cap + wl, INV_NAME);
	VERIF_ASSERT(wl <= (qfirst - ndt) - dl, INV_NAME);
	VERIF_ASSERT(c09_witness_ok(pool->queue, QMAX) &&
		     c09_witness_ok(pool->done, DMAX), INV_NAME);
}

/* M-INV, the part owned by the submitting thread */
static void c09_check_main_inv(void)
{
	thread_pool_impl_t *pool = POOL;
	size_t sl = c09_len(pool->safe_done, SMAX);
	size_t rl = c09_len(pool->recycle, RMAX);
	const work_item_t *slast = c09_last(pool->safe_done, SMAX);

	VERIF_ASSERT(sl <= SMAX && rl <= RMAX, INV_NAME);
	VERIF_ASSERT(pool->safe_done_last == slast, INV_NAME);
	VERIF_ASSERT(c09_step_one(pool->safe_done, SMAX), INV_NAME);
	VERIF_ASSERT(slast == NULL ||
		     slast->ticket_number + 1 == pool->next_dequeue_ticket,
		     INV_NAME);
	VERIF_ASSERT(pool->next_dequeue_ticket <= pool->next_ticket, INV_NAME);
	VERIF_ASSERT(c09_witness_ok(pool->safe_done, SMAX), INV_NAME);
	VERIF_ASSERT(pool->item_count ==
		     pool->next_ticket - pool->next_dequeue_ticket + sl, INV_NAME);
}

/* ----------------------------------------- arbitrary states satisfying INV */

/* main-thread-owned part; called once at harness start */
static void c09_build_main(void)
{
	thread_pool_impl_t *pool = POOL;
	size_t s = verif_nd_size("slen"), r = verif_nd_size("rlen");
	size_t nt = verif_nd_size("next_ticket");
	size_t ndt = verif_nd_size("next_dequeue_ticket");
	size_t i;

#ifdef SLEN
	s = SLEN;
#endif
#ifdef RLEN
	r = RLEN;
#endif
	VERIF_ASSUME(s <= KS && r <= KR);
	/* fewer than 2^64 - 64 submissions in the life of a pool */
	VERIF_ASSUME(ndt <= nt && nt < SIZE_MAX - 64);

	g_wt = verif_nd_size("witness_ticket");
	g_wd = c09_nd_ptr("witness_data");

	pool->next_ticket = nt;
	pool->next_dequeue_ticket = ndt;
	pool->num_workers = NW;

	for (i = 0; i < KS; ++i) {
		work_item_t *n = SN(i);

		n->ticket_number = verif_nd_size("safe.ticket");
		n->data = c09_nd_ptr("safe.data");
		n->next = (i + 1 < s) ? SN(i + 1) : NULL;
	}
	for (i = 0; i < KS; ++i) {
		work_item_t *n = SN(i);

		if (i + 1 < s)
			VERIF_ASSUME(SN(i + 1)->ticket_number ==
				     n->ticket_number + 1);
		if (i + 1 == s)
			VERIF_ASSUME(n->ticket_number + 1 == ndt);
		if (i < s)
			VERIF_ASSUME(n->ticket_number < ndt &&
				     (n->ticket_number != g_wt || n->data == g_wd));
	}
	pool->safe_done = s > 0 ? SN(0) : NULL;
	pool->safe_done_last = s > 0 ? SN(s - 1) : NULL;

	for (i = 0; i < KR; ++i) {
		work_item_t *n = RN(i);

		n->ticket_number = verif_nd_size("recycle.ticket");
		n->data = c09_nd_ptr("recycle.data");
		n->next = (i + 1 < r) ? RN(i + 1) : NULL;
	}
	pool->recycle = r > 0 ? RN(0) : NULL;

	pool->item_count = nt - ndt + s;

	for (i = 0; i < NW; ++i) {
		g_pw.w[i].pool = pool;
		g_pw.w[i].user = c09_nd_ptr("worker.user");
	}
}

/*
 * Shared part: what lock / cond_wait hand to the caller: lengths, tickets,
 * data, status, the tickets in other workers' hands all symbolic, constrained
 * by INV only. A worker sees arbitrary ticket counters; the submitting thread
 * is the only writer of next_ticket / next_dequeue_ticket, so for it they
 * keep their values. A non-zero status is never reset (rely condition on
 * every thread).
 */
static void c09_build_shared(void)
{
	thread_pool_impl_t *pool = POOL;
	unsigned g = g_gen;
	size_t q = verif_nd_size("qlen"), d = verif_nd_size("dlen");
	size_t nt, ndt, qfirst, i;
	size_t wcap = g_is_main ? NW : NW - 1;
	int status = verif_nd_int("status");

	VERIF_ASSUME(g < NGEN);
	g_gen = g + 1;
#ifdef QLEN
	if (g == 0)
		q = QLEN;
#endif
#ifdef DLEN
	if (g == 0)
		d = DLEN;
#endif
	VERIF_ASSUME(q <= KQ && d <= KD);

	if (g_is_main) {
		nt = pool->next_ticket;
		ndt = pool->next_dequeue_ticket;
		VERIF_ASSUME(g_held == NULL);
	} else {
		nt = verif_nd_size("next_ticket");
		ndt = verif_nd_size("next_dequeue_ticket");
		/* fewer than 2^64 - 64 submissions in the life of a pool */
		VERIF_ASSUME(ndt <= nt && nt < SIZE_MAX - 64);
		pool->next_ticket = nt;
		pool->next_dequeue_ticket = ndt;
	}
	if (g > 0 && s_status != 0)
		VERIF_ASSUME(status != 0);
	pool->status = status;

	/* queue: the run of tickets ending at nt - 1 */
	for (i = 0; i < KQ; ++i) {
		work_item_t *n = QN(g, i);

		n->ticket_number = verif_nd_size("queue.ticket");
		n->data = c09_nd_ptr("queue.data");
		n->next = (i + 1 < q) ? QN(g, i + 1) : NULL;
	}
	for (i = 0; i < KQ; ++i) {
		work_item_t *n = QN(g, i);

		if (i + 1 < q)
			VERIF_ASSUME(QN(g, i + 1)->ticket_number ==
				     n->ticket_number + 1);
		if (i + 1 == q)
			VERIF_ASSUME(n->ticket_number + 1 == nt);
		if (i < q)
			VERIF_ASSUME(n->ticket_number != g_wt || n->data == g_wd);
	}
	pool->queue = q > 0 ? QN(g, 0) : NULL;
	pool->queue_last = q > 0 ? QN(g, q - 1) : NULL;
	qfirst = q > 0 ? QN(g, 0)->ticket_number : nt;
	VERIF_ASSUME(ndt <= qfirst && qfirst <= nt);

	/* done: strictly increasing, below the queue */
	for (i = 0; i < KD; ++i) {
		work_item_t *n = DN(g, i);

		n->ticket_number = verif_nd_size("done.ticket");
		n->data = c09_nd_ptr("done.data");
		n->next = (i + 1 < d) ? DN(g, i + 1) : NULL;
	}
	for (i = 0; i < KD; ++i) {
		work_item_t *n = DN(g, i);

		if (i < d) {
			VERIF_ASSUME(!(n->ticket_number < ndt) &&
				     n->ticket_number < qfirst);
			if (i + 1 < d)
				VERIF_ASSUME(n->ticket_number <
					     DN(g, i + 1)->ticket_number);
			VERIF_ASSUME(n->ticket_number != g_wt || n->data == g_wd);
			if (g_held != NULL)
				VERIF_ASSUME(C09_NEQ(n->ticket_number,
						     g_held->ticket_number));
		}
	}
	pool->done = d > 0 ? DN(g, 0) : NULL;

	/* the rest of [ndt, qfirst) is in workers' hands: this thread's item
	 * plus at most one per other worker */
	if (g_held != NULL)
		VERIF_ASSUME(!(g_held->ticket_number < ndt) &&
			     g_held->ticket_number < qfirst);
	g_busy_cap = wcap;
	VERIF_ASSUME(d + (g_held != NULL ? 1 : 0) <= qfirst - ndt);
	VERIF_ASSUME((qfirst - ndt) - d <= wcap + (g_held != NULL ? 1 : 0));

	/* ---- snapshot ---- */
	s_qn = q;
	s_dn = d;
	for (i = 0; i < 4; ++i) {
		s_q[i] = (i < q) ? QN(g, i) : NULL;
		s_d[i] = (i < d) ? DN(g, i) : NULL;
	}
	s_status = status;
	s_nt = nt;
	s_ndt = ndt;
	g_bcast_queue = 0;
	g_bcast_done = 0;

	s_b.queue = pool->queue; s_b.queue_last = pool->queue_last;
	s_b.done = pool->done; s_b.safe_done = pool->safe_done;
	s_b.safe_done_last = pool->safe_done_last; s_b.recycle = pool->recycle;
	s_b.next_ticket = nt; s_b.next_dequeue_ticket = ndt;
	s_b.item_count = pool->item_count; s_b.num_workers = pool->num_workers;
	s_b.status = status;
	for (i = 0; i < NW; ++i) {
		s_b.user[i] = g_pw.w[i].user;
		s_b.wpool[i] = g_pw.w[i].pool;
	}
	for (i = 0; i < 4; ++i) {
		s_b.q[i] = *QN(g, i); s_b.d[i] = *DN(g, i);
		s_b.s[i] = *SN(i); s_b.r[i] = *RN(i);
	}
	s_held = g_held;
	if (g_held != NULL)
		s_b.held = *g_held;
}

static int c09_item_eq(const work_item_t *a, const work_item_t *b, int with_next)
{
	return a->ticket_number == b->ticket_number && a->data == b->data &&
		(!with_next || a->next == b->next);
}

/*
 * C09.frame for a worker-side section, relative to the last acquisition:
 * nothing owned by the submitting thread (recycle, safe_done, item_count and
 * their nodes; the ticket counters, which only submit/dequeue advance), no
 * worker context, no ticket number and no data pointer of any item is
 * written. `held` is the item this worker held at the acquisition (or NULL).
 */
static void c09_check_worker_frame(const work_item_t *held)
{
	thread_pool_impl_t *pool = POOL;
	size_t i;

	VERIF_ASSERT(pool->next_ticket == s_b.next_ticket &&
		     pool->next_dequeue_ticket == s_b.next_dequeue_ticket,
		     "C09.frame");
	VERIF_ASSERT(pool->item_count == s_b.item_count &&
		     pool->safe_done == s_b.safe_done &&
		     pool->safe_done_last == s_b.safe_done_last &&
		     pool->recycle == s_b.recycle &&
		     pool->num_workers == s_b.num_workers, "C09.frame");
	for (i = 0; i < NW; ++i)
		VERIF_ASSERT(g_pw.w[i].user == s_b.user[i] &&
			     g_pw.w[i].pool == s_b.wpool[i], "C09.frame");
	for (i = 0; i < 4; ++i) {
		if (s_q[i] != NULL)
			VERIF_ASSERT(c09_item_eq(s_q[i], &s_b.q[i], 0), "C09.frame");
		if (s_d[i] != NULL)
			VERIF_ASSERT(c09_item_eq(s_d[i], &s_b.d[i], 0), "C09.frame");
		VERIF_ASSERT(c09_item_eq(SN(i), &s_b.s[i], 1), "C09.frame");
		VERIF_ASSERT(c09_item_eq(RN(i), &s_b.r[i], 1), "C09.frame");
	}
	if (held != NULL)
		VERIF_ASSERT(c09_item_eq(held, &s_b.held, 0), "C09.frame");
}

/* ------------------------------------------------- environment contracts */
static int c09_mutex_lock(pthread_mutex_t *m)
{
	VERIF_ASSERT(m == &POOL->mtx, "C09.lock.discipline");
	VERIF_ASSERT(!g_locked, "C09.lock.discipline");
	/*
	 * Proof cut for the worker's endless loop: the MAXLOCK+1st section of
	 * a harness starts like the previous one (arbitrary INV state, the
	 * same kind of locals) and is not explored again.
	 */
	if (g_locks >= MAXLOCK)
		VERIF_ASSUME(0);
	g_locked = 1;
	g_locks += 1;
	g_waits = 0;
	c09_build_shared();
	return 0;
}

static int c09_mutex_unlock(pthread_mutex_t *m)
{
	VERIF_ASSERT(m == &POOL->mtx, "C09.lock.discipline");
	VERIF_ASSERT(g_locked, "C09.lock.discipline");
	c09_on_release(0, NULL);	/* section-specific obligations, ghost update */
	c09_check_inv();
	g_locked = 0;
	g_unlocks += 1;
	return 0;
}

static int c09_cond_wait(pthread_cond_t *c, pthread_mutex_t *m)
{
	VERIF_ASSERT(m == &POOL->mtx, "C09.lock.discipline");
	VERIF_ASSERT(c == &POOL->queue_cond || c == &POOL->done_cond,
		     "C09.lock.discipline");
	VERIF_ASSERT(g_locked, "C09.lock.discipline");
	c09_on_release(1, c);
	c09_check_inv();
	/*
	 * Proof cut: the MAXWAIT+1st wait of a harness is checked like every
	 * other release and then ends the path. Its continuation is the same
	 * loop head with the same locals from an arbitrary INV state, which
	 * is what the continuation of the previous wait already explored.
	 */
	if (g_waits >= MAXWAIT)
		VERIF_ASSUME(0);
	g_waits += 1;
	g_waits_total += 1;
	c09_build_shared();
	return 0;
}

static int c09_cond_broadcast(pthread_cond_t *c)
{
	VERIF_ASSERT(c == &POOL->queue_cond || c == &POOL->done_cond,
		     "C09.lock.discipline");
	if (c == &POOL->queue_cond)
		g_bcast_queue = 1;
	if (c == &POOL->done_cond)
		g_bcast_done = 1;
	return 0;
}

/* waking one waiter is not enough for either condition (N workers wait on
 * queue_cond for the shutdown status): it does not set the broadcast flag */
static int c09_cond_signal(pthread_cond_t *c)
{
	(void)c;
	return 0;
}

static unsigned g_joined, g_destroyed;

static int c09_join(pthread_t t, void **ret)
{
	(void)t; (void)ret;
	VERIF_ASSERT(!g_locked, "C09.lock.discipline");
	g_joined += 1;
	return 0;
}

static int c09_cond_destroy(pthread_cond_t *c)
{
	(void)c;
	VERIF_ASSERT(!g_locked && g_joined == POOL->num_workers,
		     "C09.lock.discipline");
	g_destroyed += 1;
	return 0;
}

static int c09_mutex_destroy(pthread_mutex_t *m)
{
	(void)m;
	VERIF_ASSERT(!g_locked && g_joined == POOL->num_workers,
		     "C09.lock.discipline");
	g_destroyed += 1;
	return 0;
}

#endif /* C09_POOL_MODEL_H */
