/*
 * pool_model.h - C09: monitor-proof vocabulary for lib/util/src/threadpool.c
 *
 * The real translation unit is compiled verbatim. Its pthread calls are routed
 * (macro rename, so that the native replay build does not interpose libc) to
 * the environment contracts below. Those contracts are the trusted base:
 *
 *   lock        requires the calling thread does not hold the mutex; returns
 *               with the SHARED state arbitrary within the monitor invariant
 *               INV (whatever any other thread may have left behind)
 *   cond_wait   requires the mutex held and INV re-established (checked);
 *               returns with the shared state again arbitrary within INV -
 *               wake-ups are spurious by construction, the awaited predicate
 *               is never promised
 *   unlock      requires the mutex held and INV re-established (checked),
 *               plus the signalling rule (ghost broadcast flags)
 *   broadcast   sets the ghost flag of its condition variable
 *
 * Heap model: every list has its own array of typed nodes; a list of length n
 * is the chain of the first n nodes of its array (any other arrangement is
 * isomorphic - the pool never compares node addresses). Each acquisition of
 * the monitor uses a fresh generation of queue/done nodes, so an item a
 * worker holds across a release is never aliased by the new shared state.
 * Lengths are symbolic up to the capacities KQ/KD/KS/KR (or fixed with
 * -DQLEN/-DDLEN for the first acquisition); tickets, data pointers, status
 * and the number of items in other workers' hands are symbolic.
 *
 * INV (shared, protected by pool->mtx), with W = tickets in workers' hands:
 *   queue NULL-terminated, strictly increasing tickets, queue_last its tail
 *     (NULL iff queue is empty)
 *   done NULL-terminated, strictly increasing tickets
 *   tickets of queue, done, W pairwise distinct, all in
 *     [next_dequeue_ticket, next_ticket); every ticket of done/W is smaller
 *     than every ticket of queue (workers take from the head)
 *   |queue| + |done| + |W| = next_ticket - next_dequeue_ticket   (no gaps)
 *   for the witness ticket g_wt: an item carrying it carries data g_wd
 *     (ticket -> data is a function; universally quantified by the solver)
 * M-INV (owned by the submitting thread, touched without the lock):
 *   safe_done NULL-terminated, its tickets are the run ending at
 *     next_dequeue_ticket - 1, safe_done_last its tail (NULL iff empty)
 *   recycle NULL-terminated
 *   item_count = next_ticket - next_dequeue_ticket + |safe_done|
 *
 * A harness defines CS (the critical-section name used in obligation names)
 * and the hook c09_on_release() before including this file's stubs.
 */
#ifndef C09_POOL_MODEL_H
#define C09_POOL_MODEL_H

#include <pthread.h>
#include <signal.h>
#include <stdlib.h>
#include <string.h>
#include "verif.h"

/* route the pthread API used by threadpool.c to the contracts below */
static int c09_mutex_lock(pthread_mutex_t *m);
static int c09_mutex_unlock(pthread_mutex_t *m);
static int c09_cond_wait(pthread_cond_t *c, pthread_mutex_t *m);
static int c09_cond_broadcast(pthread_cond_t *c);
static int c09_cond_signal(pthread_cond_t *c);
static int c09_join(pthread_t t, void **ret);
static int c09_cond_destroy(pthread_cond_t *c);
static int c09_mutex_destroy(pthread_mutex_t *m);
#define pthread_mutex_lock c09_mutex_lock
#define pthread_mutex_unlock c09_mutex_unlock
#define pthread_cond_wait c09_cond_wait
#define pthread_cond_broadcast c09_cond_broadcast
#define pthread_cond_signal c09_cond_signal
#define pthread_join c09_join
#define pthread_cond_destroy c09_cond_destroy
#define pthread_mutex_destroy c09_mutex_destroy

#include "lib/util/src/threadpool.c"

#ifndef CS
#error "define CS (critical section name) before including pool_model.h"
#endif
#define INV_NAME "C09." CS ".inv"

#ifndef KQ
#define KQ 2
#endif
#ifndef KD
#define KD 2
#endif
#ifndef KS
#define KS 2
#endif
#ifndef KR
#define KR 2
#endif
#ifndef NW
#define NW 2		/* worker threads */
#endif
#ifndef NGEN
#define NGEN 3		/* monitor acquisitions modelled per harness */
#endif
#ifndef MAXWAIT
#define MAXWAIT 1	/* cond_wait returns explored per acquisition chain */
#endif
#define LMAX (KQ + KD + KS + KR + 4)	/* more nodes than any list can have */

typedef struct {
	thread_pool_impl_t p;
	worker_t w[NW];
} c09_pool_t;

static c09_pool_t g_pw;
#define POOL (&g_pw.p)

static work_item_t g_qn[NGEN][KQ];	/* queue nodes per generation */
static work_item_t g_dn[NGEN][KD];	/* done nodes per generation */
static work_item_t g_sn[KS];		/* safe_done nodes */
static work_item_t g_rn[KR];		/* recycle nodes */

/* ------------------------------------------------------------ ghost state */
static int g_locked;		/* this thread holds pool->mtx */
static int g_is_main;		/* CS under test runs on the submitting thread */
static int g_bcast_queue;	/* queue_cond broadcast since last acquisition */
static int g_bcast_done;	/* done_cond broadcast since last acquisition */
static unsigned g_gen;		/* acquisitions so far */
static unsigned g_waits;	/* cond_wait calls so far */
static unsigned g_locks, g_unlocks;

static work_item_t *g_held;	/* item in THIS worker's hands (or NULL) */
static size_t g_ow[NW];		/* tickets in the other workers' hands */
static size_t g_ow_n;
static size_t g_wt;		/* witness ticket ... */
static void *g_wd;		/* ... and the data submitted with it */

/* snapshot of the shared state at the last acquisition */
static size_t s_qn, s_dn;
static work_item_t *s_q[KQ + 1], *s_d[KD + 1];
static int s_status;
static size_t s_nt, s_ndt;

static void c09_on_release(int is_wait, pthread_cond_t *cond);

/* ------------------------------------------------------------ list helpers */
/* length of a NULL-terminated list, LMAX+1 if it does not end within LMAX */
static size_t c09_len(const work_item_t *l)
{
	size_t n = 0;

	while (l != NULL && n <= LMAX) {
		l = l->next;
		++n;
	}
	return n;
}

static const work_item_t *c09_nth(const work_item_t *l, size_t k)
{
	size_t n = 0;

	while (l != NULL && n < k && n <= LMAX) {
		l = l->next;
		++n;
	}
	return l;
}

static int c09_has(const work_item_t *l, const work_item_t *x)
{
	size_t n = 0;

	while (l != NULL && n <= LMAX) {
		if (l == x)
			return 1;
		l = l->next;
		++n;
	}
	return 0;
}

static int c09_has_ticket(const work_item_t *l, size_t t)
{
	size_t n = 0;

	while (l != NULL && n <= LMAX) {
		if (l->ticket_number == t)
			return 1;
		l = l->next;
		++n;
	}
	return 0;
}

static int c09_strictly_increasing(const work_item_t *l)
{
	size_t n = 0;

	while (l != NULL && l->next != NULL && n <= LMAX) {
		if (!(l->ticket_number < l->next->ticket_number))
			return 0;
		l = l->next;
		++n;
	}
	return 1;
}

static const work_item_t *c09_last(const work_item_t *l)
{
	size_t n = 0;

	while (l != NULL && l->next != NULL && n <= LMAX) {
		l = l->next;
		++n;
	}
	return l;
}

/* all tickets of l in [lo, hi) */
static int c09_in_range(const work_item_t *l, size_t lo, size_t hi)
{
	size_t n = 0;

	while (l != NULL && n <= LMAX) {
		if (l->ticket_number < lo || l->ticket_number >= hi)
			return 0;
		l = l->next;
		++n;
	}
	return 1;
}

static int c09_witness_ok(const work_item_t *l)
{
	size_t n = 0;

	while (l != NULL && n <= LMAX) {
		if (l->ticket_number == g_wt && l->data != g_wd)
			return 0;
		l = l->next;
		++n;
	}
	return 1;
}

/* opaque user pointers: any address inside a dummy object (the pool never
 * dereferences them; only their identity matters) */
static char g_blob[64];
static void *c09_nd_ptr(const char *tag)
{
	uint8_t k = verif_nd_u8(tag);

	return k < 64 ? (void *)&g_blob[k] : NULL;
}

/* ------------------------------------------------- INV as an assertion set */
static void c09_check_inv(void)
{
	thread_pool_impl_t *pool = POOL;
	size_t ql = c09_len(pool->queue), dl = c09_len(pool->done);
	size_t wl = g_ow_n + (g_held != NULL ? 1 : 0);
	const work_item_t *qh = pool->queue, *dlast = c09_last(pool->done);
	size_t i;

	VERIF_ASSERT(ql <= LMAX && dl <= LMAX, INV_NAME);
	VERIF_ASSERT(c09_strictly_increasing(pool->queue), INV_NAME);
	VERIF_ASSERT(c09_strictly_increasing(pool->done), INV_NAME);
	VERIF_ASSERT(pool->queue_last == c09_last(pool->queue), INV_NAME);
	VERIF_ASSERT(pool->next_dequeue_ticket <= pool->next_ticket, INV_NAME);
	VERIF_ASSERT(c09_in_range(pool->queue, pool->next_dequeue_ticket,
				  pool->next_ticket), INV_NAME);
	VERIF_ASSERT(c09_in_range(pool->done, pool->next_dequeue_ticket,
				  pool->next_ticket), INV_NAME);
	/* done and W below the queue head; W distinct from done */
	if (qh != NULL && dlast != NULL)
		VERIF_ASSERT(dlast->ticket_number < qh->ticket_number, INV_NAME);
	for (i = 0; i < NW; ++i) {
		if (i < g_ow_n) {
			VERIF_ASSERT(g_ow[i] >= pool->next_dequeue_ticket &&
				     g_ow[i] < pool->next_ticket, INV_NAME);
			VERIF_ASSERT(qh == NULL ||
				     g_ow[i] < qh->ticket_number, INV_NAME);
			VERIF_ASSERT(!c09_has_ticket(pool->done, g_ow[i]),
				     INV_NAME);
		}
	}
	if (g_held != NULL) {
		VERIF_ASSERT(g_held->ticket_number >= pool->next_dequeue_ticket &&
			     g_held->ticket_number < pool->next_ticket, INV_NAME);
		VERIF_ASSERT(qh == NULL ||
			     g_held->ticket_number < qh->ticket_number, INV_NAME);
		VERIF_ASSERT(!c09_has_ticket(pool->done, g_held->ticket_number),
			     INV_NAME);
		VERIF_ASSERT(!c09_has(pool->queue, g_held) &&
			     !c09_has(pool->done, g_held), INV_NAME);
		VERIF_ASSERT(g_held->ticket_number != g_wt ||
			     g_held->data == g_wd, INV_NAME);
		for (i = 0; i < NW; ++i) {
			if (i < g_ow_n)
				VERIF_ASSERT(g_ow[i] != g_held->ticket_number,
					     INV_NAME);
		}
	}
	VERIF_ASSERT(ql + dl + wl ==
		     pool->next_ticket - pool->next_dequeue_ticket, INV_NAME);
	VERIF_ASSERT(c09_witness_ok(pool->queue) && c09_witness_ok(pool->done),
		     INV_NAME);
}

/* M-INV, the part owned by the submitting thread */
static void c09_check_main_inv(void)
{
	thread_pool_impl_t *pool = POOL;
	size_t sl = c09_len(pool->safe_done), rl = c09_len(pool->recycle);
	const work_item_t *it = pool->safe_done;
	size_t i;

	VERIF_ASSERT(sl <= LMAX && rl <= LMAX, INV_NAME);
	VERIF_ASSERT(pool->safe_done_last == c09_last(pool->safe_done), INV_NAME);
	VERIF_ASSERT(pool->next_dequeue_ticket <= pool->next_ticket &&
		     sl <= pool->next_dequeue_ticket, INV_NAME);
	for (i = 0; i <= LMAX && it != NULL; ++i, it = it->next) {
		VERIF_ASSERT(it->ticket_number ==
			     pool->next_dequeue_ticket - sl + i, INV_NAME);
		VERIF_ASSERT(it->ticket_number != g_wt || it->data == g_wd,
			     INV_NAME);
	}
	VERIF_ASSERT(pool->item_count ==
		     pool->next_ticket - pool->next_dequeue_ticket + sl, INV_NAME);
}

/* ----------------------------------------- arbitrary states satisfying INV */

/* main-thread-owned part; called once at harness start */
static void c09_build_main(void)
{
	thread_pool_impl_t *pool = POOL;
	size_t s = verif_nd_size("slen"), r = verif_nd_size("rlen");
	size_t nt = verif_nd_size("next_ticket");
	size_t ndt = verif_nd_size("next_dequeue_ticket");
	size_t i;

#ifdef SLEN
	s = SLEN;
#endif
#ifdef RLEN
	r = RLEN;
#endif
	VERIF_ASSUME(s <= KS && r <= KR);
	/* fewer than 2^64 - 16 submissions in the life of a pool */
	VERIF_ASSUME(ndt <= nt && nt < (SIZE_MAX - 16) && s <= ndt);

	g_wt = verif_nd_size("witness_ticket");
	g_wd = c09_nd_ptr("witness_data");

	pool->next_ticket = nt;
	pool->next_dequeue_ticket = ndt;
	pool->num_workers = NW;

	for (i = 0; i < KS; ++i) {
		g_sn[i].ticket_number = ndt - s + i;
		g_sn[i].data = c09_nd_ptr("safe.data");
		g_sn[i].next = (i + 1 < s) ? &g_sn[i + 1] : NULL;
		if (i < s)
			VERIF_ASSUME(g_sn[i].ticket_number != g_wt ||
				     g_sn[i].data == g_wd);
	}
	pool->safe_done = s > 0 ? &g_sn[0] : NULL;
	pool->safe_done_last = s > 0 ? &g_sn[s - 1] : NULL;

	for (i = 0; i < KR; ++i) {
		g_rn[i].ticket_number = verif_nd_size("recycle.ticket");
		g_rn[i].data = c09_nd_ptr("recycle.data");
		g_rn[i].next = (i + 1 < r) ? &g_rn[i + 1] : NULL;
	}
	pool->recycle = r > 0 ? &g_rn[0] : NULL;

	pool->item_count = nt - ndt + s;

	for (i = 0; i < NW; ++i) {
		pool->workers[i].pool = pool;
		pool->workers[i].user = c09_nd_ptr("worker.user");
	}
}

/*
 * shared part: what lock / cond_wait hand to the caller. A worker sees
 * arbitrary tickets counters; the submitting thread is the only writer of
 * next_ticket / next_dequeue_ticket, so for it they keep their values.
 * A non-zero status is never reset (rely condition on every other thread).
 */
static void c09_build_shared(void)
{
	thread_pool_impl_t *pool = POOL;
	unsigned g = g_gen;
	size_t q = verif_nd_size("qlen"), d = verif_nd_size("dlen");
	size_t ow = verif_nd_size("other_workers_busy");
	size_t nt, ndt, i, j, wl;
	int status = verif_nd_int("status");

	VERIF_ASSUME(g < NGEN);
	g_gen = g + 1;
#ifdef QLEN
	if (g == 0)
		q = QLEN;
#endif
#ifdef DLEN
	if (g == 0)
		d = DLEN;
#endif
	VERIF_ASSUME(q <= KQ && d <= KD);
	VERIF_ASSUME(ow <= (g_is_main ? NW : NW - 1));

	if (g_is_main) {
		nt = pool->next_ticket;
		ndt = pool->next_dequeue_ticket;
	} else {
		nt = verif_nd_size("next_ticket");
		ndt = verif_nd_size("next_dequeue_ticket");
		VERIF_ASSUME(ndt <= nt && nt < (SIZE_MAX - 16));
		pool->next_ticket = nt;
		pool->next_dequeue_ticket = ndt;
	}
	if (g > 0 && s_status != 0)
		VERIF_ASSUME(status != 0);
	pool->status = status;

	for (i = 0; i < KQ; ++i) {
		g_qn[g][i].ticket_number = verif_nd_size("queue.ticket");
		g_qn[g][i].data = c09_nd_ptr("queue.data");
		g_qn[g][i].next = (i + 1 < q) ? &g_qn[g][i + 1] : NULL;
	}
	pool->queue = q > 0 ? &g_qn[g][0] : NULL;
	pool->queue_last = q > 0 ? &g_qn[g][q - 1] : NULL;

	for (i = 0; i < KD; ++i) {
		g_dn[g][i].ticket_number = verif_nd_size("done.ticket");
		g_dn[g][i].data = c09_nd_ptr("done.data");
		g_dn[g][i].next = (i + 1 < d) ? &g_dn[g][i + 1] : NULL;
	}
	pool->done = d > 0 ? &g_dn[g][0] : NULL;

	g_ow_n = ow;
	for (i = 0; i < NW; ++i)
		g_ow[i] = verif_nd_size("other.ticket");

	/* ---- INV as the precondition ---- */
	for (i = 0; i < KQ; ++i) {
		if (i < q) {
			size_t t = g_qn[g][i].ticket_number;

			VERIF_ASSUME(ndt <= t && t < nt);
			if (i + 1 < q)
				VERIF_ASSUME(t < g_qn[g][i + 1].ticket_number);
			VERIF_ASSUME(t != g_wt || g_qn[g][i].data == g_wd);
		}
	}
	for (i = 0; i < KD; ++i) {
		if (i < d) {
			size_t t = g_dn[g][i].ticket_number;

			VERIF_ASSUME(ndt <= t && t < nt);
			if (i + 1 < d)
				VERIF_ASSUME(t < g_dn[g][i + 1].ticket_number);
			if (q > 0)
				VERIF_ASSUME(t < g_qn[g][0].ticket_number);
			VERIF_ASSUME(t != g_wt || g_dn[g][i].data == g_wd);
			if (g_held != NULL)
				VERIF_ASSUME(t != g_held->ticket_number);
		}
	}
	for (i = 0; i < NW; ++i) {
		if (i < ow) {
			size_t t = g_ow[i];

			VERIF_ASSUME(ndt <= t && t < nt);
			if (i + 1 < ow)
				VERIF_ASSUME(t < g_ow[i + 1]);
			if (q > 0)
				VERIF_ASSUME(t < g_qn[g][0].ticket_number);
			for (j = 0; j < KD; ++j) {
				if (j < d)
					VERIF_ASSUME(t != g_dn[g][j].ticket_number);
			}
			if (g_held != NULL)
				VERIF_ASSUME(t != g_held->ticket_number);
		}
	}
	wl = ow;
	if (g_held != NULL) {
		size_t t = g_held->ticket_number;

		VERIF_ASSUME(ndt <= t && t < nt);
		if (q > 0)
			VERIF_ASSUME(t < g_qn[g][0].ticket_number);
		wl += 1;
	}
	VERIF_ASSUME(q + d + wl == nt - ndt);

	/* ---- snapshot ---- */
	s_qn = q;
	s_dn = d;
	for (i = 0; i < KQ; ++i)
		s_q[i] = (i < q) ? &g_qn[g][i] : NULL;
	s_q[KQ] = NULL;
	for (i = 0; i < KD; ++i)
		s_d[i] = (i < d) ? &g_dn[g][i] : NULL;
	s_d[KD] = NULL;
	s_status = status;
	s_nt = nt;
	s_ndt = ndt;
	g_bcast_queue = 0;
	g_bcast_done = 0;
}

/* ------------------------------------------------- environment contracts */
static int c09_mutex_lock(pthread_mutex_t *m)
{
	VERIF_ASSERT(m == &POOL->mtx, "C09.lock.discipline");
	VERIF_ASSERT(!g_locked, "C09.lock.discipline");
	g_locked = 1;
	g_locks += 1;
	c09_build_shared();
	return 0;
}

static int c09_mutex_unlock(pthread_mutex_t *m)
{
	VERIF_ASSERT(m == &POOL->mtx, "C09.lock.discipline");
	VERIF_ASSERT(g_locked, "C09.lock.discipline");
	c09_check_inv();
	c09_on_release(0, NULL);
	g_locked = 0;
	g_unlocks += 1;
	return 0;
}

static int c09_cond_wait(pthread_cond_t *c, pthread_mutex_t *m)
{
	VERIF_ASSERT(m == &POOL->mtx, "C09.lock.discipline");
	VERIF_ASSERT(c == &POOL->queue_cond || c == &POOL->done_cond,
		     "C09.lock.discipline");
	VERIF_ASSERT(g_locked, "C09.lock.discipline");
	c09_check_inv();
	c09_on_release(1, c);
	/*
	 * Proof cut: the MAXWAIT+1st wait of a harness is checked like every
	 * other release and then ends the path. Its continuation is the same
	 * loop head with the same locals from an arbitrary INV state, which
	 * is what the continuation of the previous wait already explored.
	 */
	if (g_waits >= MAXWAIT)
		VERIF_ASSUME(0);
	g_waits += 1;
	c09_build_shared();
	return 0;
}

static int c09_cond_broadcast(pthread_cond_t *c)
{
	VERIF_ASSERT(c == &POOL->queue_cond || c == &POOL->done_cond,
		     "C09.lock.discipline");
	if (c == &POOL->queue_cond)
		g_bcast_queue = 1;
	if (c == &POOL->done_cond)
		g_bcast_done = 1;
	return 0;
}

/* waking one waiter is not enough for either condition (N workers wait on
 * queue_cond for the shutdown status): it does not set the broadcast flag */
static int c09_cond_signal(pthread_cond_t *c)
{
	(void)c;
	return 0;
}

static unsigned g_joined, g_destroyed;

static int c09_join(pthread_t t, void **ret)
{
	(void)t; (void)ret;
	VERIF_ASSERT(!g_locked, "C09.lock.discipline");
	g_joined += 1;
	return 0;
}

static int c09_cond_destroy(pthread_cond_t *c)
{
	(void)c;
	VERIF_ASSERT(!g_locked, "C09.lock.discipline");
	g_destroyed += 1;
	return 0;
}

static int c09_mutex_destroy(pthread_mutex_t *m)
{
	(void)m;
	VERIF_ASSERT(!g_locked, "C09.lock.discipline");
	g_destroyed += 1;
	return 0;
}

#endif /* C09_POOL_MODEL_H */
