/* C09: store_completed() - the worker-side section that hands a finished
 * item back. Called with the mutex held, from an ARBITRARY shared state
 * satisfying INV in which this worker holds one item (any ticket consistent
 * with INV, any data), with any worker status.
 *
 *   C09.store_completed.inv     INV holds again afterwards, with the item no
 *                               longer in the worker's hands
 *   C09.once                    the done list is the old done list plus this
 *                               item, each exactly once (sorted insert)
 *   C09.store_completed.status_first
 *                               the pool status is the first non-zero worker
 *                               status and is never overwritten
 *   C09.signal                  done_cond is broadcast (done gained an element,
 *                               the status may have changed)
 *   C09.frame                   nothing owned by the submitting thread, no
 *                               queue field, no ticket, no data pointer, no
 *                               other item's link is written
 */
#define CS "store_completed"
#include "pool_model.h"

static work_item_t g_mine;	/* the item in this worker's hands */

static void c09_on_release(int is_wait, pthread_cond_t *cond)
{
	(void)is_wait; (void)cond;
	VERIF_ASSERT(0, "C09.lock.discipline");	/* no release in this section */
}

void harness(void)
{
	thread_pool_impl_t *pool = POOL;
	struct { struct { work_item_t *queue,*queue_last,*safe_done,*safe_done_last,*recycle; size_t next_ticket,next_dequeue_ticket,item_count,num_workers;} p; struct {void *user; void *pool;} w[NW]; } before;
	work_item_t qn0[KQ], dn0[KD], sn0[KS], rn0[KR], mine0;
	int st = verif_nd_int("worker_status");
	size_t i;

	g_is_main = 0;
	c09_build_main();
	g_mine.ticket_number = verif_nd_size("held.ticket");
	g_mine.data = c09_nd_ptr("held.data");
	g_mine.next = NULL;
	VERIF_ASSUME(g_mine.ticket_number != g_wt || g_mine.data == g_wd);
	g_held = &g_mine;
	g_locked = 1;
	c09_build_shared();

	before.p.queue = pool->queue; before.p.queue_last = pool->queue_last; before.p.safe_done = pool->safe_done; before.p.safe_done_last = pool->safe_done_last; before.p.recycle = pool->recycle; before.p.next_ticket = pool->next_ticket; before.p.next_dequeue_ticket = pool->next_dequeue_ticket; before.p.item_count = pool->item_count; before.p.num_workers = pool->num_workers;
	for (i = 0; i < NW; ++i) { before.w[i].user = g_pw.w[i].user; before.w[i].pool = g_pw.w[i].pool; }
	mine0 = g_mine;
	for (i = 0; i < KQ; ++i) qn0[i] = g_qn[0][i];
	for (i = 0; i < KD; ++i) dn0[i] = g_dn[0][i];
	for (i = 0; i < KS; ++i) sn0[i] = g_sn[i];
	for (i = 0; i < KR; ++i) rn0[i] = g_rn[i];

	VERIF_COVER(s_dn == KD && s_qn == KQ);
	VERIF_COVER(s_dn > 0 && g_mine.ticket_number < g_dn[0][0].ticket_number);
	VERIF_COVER(s_dn > 1 && g_mine.ticket_number > g_dn[0][0].ticket_number &&
		    g_mine.ticket_number < g_dn[0][1].ticket_number);
	VERIF_COVER(s_dn > 0 && g_mine.ticket_number > g_dn[0][s_dn - 1].ticket_number);
	VERIF_COVER(s_dn == 0);
	VERIF_COVER(s_status != 0 && st != 0 && st != s_status);

	store_completed(pool, &g_mine, st);

	/* once: done' = done + item */
	VERIF_ASSERT(c09_len(pool->done) == s_dn + 1, "C09.once");
	VERIF_ASSERT(c09_has(pool->done, &g_mine), "C09.once");
	for (i = 0; i < KD; ++i) {
		if (i < s_dn)
			VERIF_ASSERT(c09_has(pool->done, s_d[i]), "C09.once");
	}
	VERIF_ASSERT(c09_strictly_increasing(pool->done), "C09.once");

	VERIF_ASSERT(pool->status == (s_status != 0 ? s_status : st),
		     "C09.store_completed.status_first");
	VERIF_ASSERT(g_bcast_done, "C09.signal");
	VERIF_ASSERT(g_locked, "C09.lock.discipline");

	/* frame */
	VERIF_ASSERT(pool->queue == before.p.queue &&
		     pool->queue_last == before.p.queue_last &&
		     pool->next_ticket == before.p.next_ticket &&
		     pool->next_dequeue_ticket == before.p.next_dequeue_ticket,
		     "C09.frame");
	VERIF_ASSERT(pool->item_count == before.p.item_count &&
		     pool->safe_done == before.p.safe_done &&
		     pool->safe_done_last == before.p.safe_done_last &&
		     pool->recycle == before.p.recycle &&
		     pool->num_workers == before.p.num_workers, "C09.frame");
	for (i = 0; i < NW; ++i)
		VERIF_ASSERT(g_pw.w[i].user == before.w[i].user &&
			     g_pw.w[i].pool == before.w[i].pool, "C09.frame");
	for (i = 0; i < KQ; ++i)
		VERIF_ASSERT(g_qn[0][i].next == qn0[i].next &&
			     g_qn[0][i].ticket_number == qn0[i].ticket_number &&
			     g_qn[0][i].data == qn0[i].data, "C09.frame");
	for (i = 0; i < KD; ++i)
		VERIF_ASSERT(g_dn[0][i].ticket_number == dn0[i].ticket_number &&
			     g_dn[0][i].data == dn0[i].data, "C09.frame");
	for (i = 0; i < KS; ++i)
		VERIF_ASSERT(g_sn[i].next == sn0[i].next &&
			     g_sn[i].ticket_number == sn0[i].ticket_number &&
			     g_sn[i].data == sn0[i].data, "C09.frame");
	for (i = 0; i < KR; ++i)
		VERIF_ASSERT(g_rn[i].next == rn0[i].next &&
			     g_rn[i].ticket_number == rn0[i].ticket_number &&
			     g_rn[i].data == rn0[i].data, "C09.frame");
	VERIF_ASSERT(g_mine.ticket_number == mine0.ticket_number &&
		     g_mine.data == mine0.data, "C09.frame");

	/* INV with the item handed over */
	g_held = NULL;
	c09_check_inv();
	VERIF_COVER(pool->done == &g_mine);
	VERIF_COVER(pool->done != &g_mine && g_mine.next != NULL);
	VERIF_COVER(pool->done != &g_mine && g_mine.next == NULL);
}
