/* C09.serial_bb.* - the serial pool (lib/util/src/threadpool_serial.c, the
 * NO_THREAD_IMPL build of thread_pool_create) driven ONLY through its public
 * interface, include/util/threadpool.h: thread_pool_create and the six
 * function pointers of thread_pool_t. Nothing in this file names a field of
 * the implementation's state, a helper type or a static function of the
 * translation unit - a rewrite of the representation (linked list -> ring
 * buffer, ...) still compiles and is still decided. It is the
 * representation-independent second line behind serial.c (which starts from an
 * arbitrary state satisfying an invariant over the FIELDS: any history, but
 * keyed to the representation).
 *
 *   -DSCHED="SSDSD"   CONCRETE schedule of the case: S submit a fresh item,
 *                     D dequeue, U re-bind the worker context. After it:
 *                     either destroy() at once (items may still be inside),
 *                     or drain (as many dequeues as items are outstanding,
 *                     one more that must return NULL) and then destroy().
 *   symbolic:         the result the worker returns for each item (a function
 *                     of the item, like the block processor's worker), the
 *                     num_jobs argument, drain-or-not, with BB_OOM every
 *                     allocation outcome.
 *   -DRES_SYM_FROM=k  items 0..k-1 get worker result 0, the others symbolic
 *                     (long schedules: keeps the prefix concrete)
 *
 * Abstract model kept by the harness: the sequence g_sub[0..g_nsub) of items
 * whose submit() returned 0, the number g_ndeq of items handed back, per item
 * how often the worker ran on it, the first non-zero worker result.
 *
 * Obligations (BB_PREFIX = C09.serial_bb; C02 borrows this file):
 *  .fifo            the k-th non-NULL dequeue() result is the k-th item whose
 *                   submit() returned 0
 *  .once            the worker is only ever called with a non-NULL item that
 *                   was accepted and has not been handed back, on which it has
 *                   not run before; an item that is handed back has had the
 *                   worker run on it (exactly once)
 *  .ctx             the worker gets the context bound by set_worker_ptr
 *  .drain           dequeue() returns NULL only if nothing is outstanding or
 *                   the status is non-zero; after as many dequeues as accepted
 *                   submits the next dequeue() is NULL, the worker is not
 *                   called, get_status() is the first non-zero worker result
 *                   or 0; every accepted item has then been handed back unless
 *                   the pool gave up after a failure
 *  .status_sticky   after every operation get_status() equals the first
 *                   non-zero worker result so far (0 if none) - never
 *                   overwritten, never reset
 *  .submit_reports  submit() on a failed pool returns the status and accepts
 *                   nothing; on a healthy pool it returns 0, or (only with
 *                   allocation failure enabled) -1; what it refused is never
 *                   processed nor handed back (that half is .once/.fifo)
 *  .workers         get_worker_count() is in [1, 4]
 *  no leak after destroy(): cbmc --memory-leak-check, every path
 */
#include <stdlib.h>
#include <string.h>
#include <errno.h>
#include "verif.h"

#ifndef NO_THREAD_IMPL
#define NO_THREAD_IMPL		/* thread_pool_create := the serial pool */
#endif
#include "lib/util/src/threadpool_serial.c"
/* libutil's allocation helpers are part of the same library; linking them
 * keeps an implementation that uses alloc_array()/alloc_flex() decidable */
#include "lib/util/src/alloc.c"

#ifndef VERIF_REPLAY
static int bb_errno;
int *__errno_location(void) { return &bb_errno; }
#endif

#ifndef BB_PREFIX
#define BB_PREFIX "C09.serial_bb"
#endif
#ifndef SCHED
#define SCHED "SSDSDD"
#endif
#ifndef RES_SYM_FROM
#define RES_SYM_FROM 0
#endif
#define BB_MAXW 4

static const char g_sched[] = SCHED;
#define NOPS (sizeof(g_sched) - 1)

typedef struct {
	int result;		/* what the worker returns for this item */
	unsigned runs;		/* worker calls on it */
	unsigned char accepted;	/* submit() returned 0 */
	unsigned char returned;	/* handed back by dequeue() */
} bb_item_t;

static bb_item_t g_item[NOPS + 1];	/* the i-th S submits &g_item[i] */
static bb_item_t *g_sub[NOPS + 1];	/* accepted items, in submit order */
static size_t g_nitem, g_nsub, g_ndeq, g_calls;
static int g_model_status;		/* first non-zero worker result */
static int g_gave_up;			/* NULL with items left (needs status != 0) */
static char g_ctx[BB_MAXW + 2];
static void *g_user;			/* context bound to the worker(s) */

static int bb_is_item(const void *p)
{
#ifdef VERIF_REPLAY
	return (const char *)p >= (const char *)g_item &&
	       (const char *)p < (const char *)(g_item + NOPS + 1) &&
	       ((const char *)p - (const char *)g_item) % sizeof(g_item[0]) == 0;
#else
	return p != NULL && VERIF_SAME_OBJECT(p, g_item) &&
	       VERIF_POINTER_OFFSET(p) % sizeof(g_item[0]) == 0 &&
	       VERIF_POINTER_OFFSET(p) < sizeof(g_item);
#endif
}

static int bb_worker(void *user, void *item)
{
	bb_item_t *it = item;

	g_calls += 1;
	VERIF_ASSERT(item != NULL, BB_PREFIX ".once");
	VERIF_ASSERT(bb_is_item(item), BB_PREFIX ".once");
	if (item == NULL || !bb_is_item(item))
		return 0;
	VERIF_ASSERT(it->accepted && !it->returned, BB_PREFIX ".once");
	VERIF_ASSERT(it->runs == 0, BB_PREFIX ".once");
	VERIF_ASSERT(user == g_user, BB_PREFIX ".ctx");
	it->runs += 1;
	if (g_model_status == 0)
		g_model_status = it->result;
	return it->result;
}

static void bb_check_status(thread_pool_t *p)
{
	int st = p->get_status(p);

	VERIF_ASSERT(st == g_model_status, BB_PREFIX ".status_sticky");
}

static void bb_submit(thread_pool_t *p)
{
	bb_item_t *it = &g_item[g_nitem];
	int st0 = g_model_status, ret;

	it->result = g_nitem >= RES_SYM_FROM ? verif_nd_int("item.result") : 0;
	it->runs = 0;
	it->accepted = 0;
	it->returned = 0;
	g_nitem += 1;

	ret = p->submit(p, it);

	if (st0 != 0) {
		VERIF_ASSERT(ret == st0, BB_PREFIX ".submit_reports");
	} else {
#ifdef BB_OOM
		VERIF_ASSERT(ret == 0 || ret == -1, BB_PREFIX ".submit_reports");
#else
		VERIF_ASSERT(ret == 0, BB_PREFIX ".submit_reports");
#endif
	}
	if (ret == 0) {
		it->accepted = 1;
		g_sub[g_nsub] = it;
		g_nsub += 1;
	}
	bb_check_status(p);
}

static void *bb_dequeue(thread_pool_t *p)
{
	void *r = p->dequeue(p);

	if (r != NULL) {
		VERIF_ASSERT(g_ndeq < g_nsub, BB_PREFIX ".fifo");
		VERIF_ASSERT(g_ndeq < g_nsub && r == (void *)g_sub[g_ndeq],
			     BB_PREFIX ".fifo");
		if (bb_is_item(r)) {
			bb_item_t *it = r;

			VERIF_ASSERT(it->runs == 1, BB_PREFIX ".once");
			VERIF_ASSERT(!it->returned, BB_PREFIX ".fifo");
			it->returned = 1;
		}
		g_ndeq += 1;
	} else {
		VERIF_ASSERT(g_ndeq == g_nsub || g_model_status != 0,
			     BB_PREFIX ".drain");
		if (g_ndeq != g_nsub)
			g_gave_up = 1;
	}
	bb_check_status(p);
	return r;
}

void harness(void)
{
	thread_pool_t *p;
	size_t i, n;

	g_nitem = g_nsub = g_ndeq = g_calls = 0;
	g_model_status = 0;
	g_gave_up = 0;

	p = thread_pool_create(verif_nd_size("num_jobs"), bb_worker);
	if (p == NULL) {
#ifdef BB_OOM
		VERIF_COVER(1);
#else
		VERIF_ASSERT(0, BB_PREFIX ".create");
#endif
		return;
	}

	n = p->get_worker_count(p);
	VERIF_ASSERT(n >= 1 && n <= BB_MAXW, BB_PREFIX ".workers");
	/* one context for every worker; an index past the end is ignored */
	g_user = &g_ctx[0];
	for (i = 0; i < n && i < BB_MAXW; ++i)
		p->set_worker_ptr(p, i, g_user);
	p->set_worker_ptr(p, n, &g_ctx[BB_MAXW + 1]);
	bb_check_status(p);

	for (i = 0; i < NOPS; ++i) {
		switch (g_sched[i]) {
		case 'S':
			bb_submit(p);
			break;
		case 'D':
			(void)bb_dequeue(p);
			break;
		default:
			g_user = (g_user == &g_ctx[0]) ? &g_ctx[1] : &g_ctx[0];
			for (n = p->get_worker_count(p); n > 0; --n)
				p->set_worker_ptr(p, n - 1, g_user);
			break;
		}
	}

	if (verif_nd_bool("drain")) {
		size_t calls0;
		void *r;

		for (i = 0; i < NOPS && g_ndeq < g_nsub; ++i) {
			if (bb_dequeue(p) == NULL)
				break;
		}
		/* as many dequeues as accepted submits (or the pool gave up
		 * after a failure): the next one has nothing to hand back */
		calls0 = g_calls;
		r = p->dequeue(p);
		VERIF_ASSERT(r == NULL, BB_PREFIX ".drain");
		VERIF_ASSERT(g_calls == calls0, BB_PREFIX ".drain");
		VERIF_ASSERT(p->get_status(p) == g_model_status, BB_PREFIX ".drain");
		VERIF_ASSERT(g_ndeq == g_nsub || (g_gave_up && g_model_status != 0),
			     BB_PREFIX ".drain");
		for (i = 0; i < NOPS; ++i) {
			if (i < g_nsub && !g_gave_up)
				VERIF_ASSERT(g_sub[i]->returned && g_sub[i]->runs == 1,
					     BB_PREFIX ".once");
		}
		VERIF_COVER(g_ndeq == g_nsub);
	}

	VERIF_COVER(g_model_status == 0);
#ifdef COVER_FAIL	/* schedules in which a worker runs at all */
	VERIF_COVER(g_model_status != 0);
#endif
#if defined(BB_OOM) && defined(COVER_OOM)	/* schedules with a submit on an empty recycle store */
	VERIF_COVER(g_nsub < g_nitem && g_model_status == 0);
#endif
	VERIF_COVER(g_nsub == g_nitem);

	p->destroy(p);

	/* whatever destroy() did, no item was processed twice */
	for (i = 0; i < NOPS; ++i)
		VERIF_ASSERT(g_item[i].runs <= 1, BB_PREFIX ".once");
}
