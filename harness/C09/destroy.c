/* C09: destroy() - shutdown by the submitting thread. The pool and all list
 * nodes are heap objects here (destroy frees them); arbitrary M-INV state,
 * the lock delivers an arbitrary shared state within INV, in particular with
 * items still queued, done, and in workers' hands.
 *
 *   C09.destroy.inv       INV at unlock (the workers keep running until they
 *                         are joined)
 *   C09.no_stuck          under the lock the status becomes non-zero and
 *                         queue_cond is broadcast - every worker, sleeping or
 *                         not, finds status != 0 at its next look (see
 *                         get_next_work_item.stops_on_status) and exits
 *   C09.signal            status changed => queue_cond broadcast (done_cond
 *                         has no waiter: its only waiter is this thread)
 *   C09.lock.discipline   every worker is joined exactly once, after the
 *                         mutex was released (joining under the lock would
 *                         deadlock with a worker storing its last item);
 *                         condition variables and mutex are destroyed after
 *                         the joins
 *   C09.destroy.releases  all four lists and the pool are freed, nothing
 *                         twice (memory-leak + pointer checks; nodes not on
 *                         any list are released by the harness)
 */
#define CS "destroy"
#define C09_HEAP
#include "pool_model.h"

static int g_released;

static void c09_on_release(int is_wait, pthread_cond_t *cond)
{
	thread_pool_impl_t *pool = POOL;
	size_t i;

	(void)cond;
	VERIF_ASSERT(!is_wait, "C09.lock.discipline");
	g_released += 1;
	VERIF_ASSERT(pool->status != 0, "C09.no_stuck");
	VERIF_ASSERT(g_bcast_queue, "C09.no_stuck");
	if (pool->status != s_status)
		VERIF_ASSERT(g_bcast_queue, "C09.signal");
	VERIF_ASSERT(g_joined == 0 && g_destroyed == 0, "C09.lock.discipline");
	/* nothing but the status is written while workers are alive */
	VERIF_ASSERT(pool->queue == s_b.queue && pool->queue_last == s_b.queue_last &&
		     pool->done == s_b.done &&
		     pool->next_ticket == s_b.next_ticket &&
		     pool->next_dequeue_ticket == s_b.next_dequeue_ticket,
		     "C09.frame");
	for (i = 0; i < 4; ++i) {
		if (s_q[i] != NULL)
			VERIF_ASSERT(c09_item_eq(s_q[i], &s_b.q[i], 1), "C09.frame");
		if (s_d[i] != NULL)
			VERIF_ASSERT(c09_item_eq(s_d[i], &s_b.d[i], 1), "C09.frame");
	}
}

void harness(void)
{
	size_t i, sl, rl;

	c09_heap_alloc();
	g_is_main = 1;
	c09_build_main();
	g_held = NULL;
	g_locked = 0;
	sl = c09_len(POOL->safe_done, SMAX);
	rl = c09_len(POOL->recycle, RMAX);

	destroy(&POOL->base);

	VERIF_ASSERT(!g_locked && g_locks == 1 && g_released == 1,
		     "C09.lock.discipline");
	VERIF_ASSERT(g_joined == NW, "C09.lock.discipline");
	VERIF_ASSERT(g_destroyed == 3, "C09.lock.discipline");
	VERIF_COVER(s_qn == KQ && s_dn == KD && sl == KS && rl == KR);
	VERIF_COVER(s_qn == 0 && s_dn == 0 && sl == 0 && rl == 0);

	/* nodes that were on no list belong to the harness */
	for (i = 0; i < 4; ++i) {
		if (i >= s_qn) free(g_hq[i]);
		if (i >= s_dn) free(g_hd[i]);
		if (i >= sl) free(g_hs[i]);
		if (i >= rl) free(g_hr[i]);
	}
}
