/* C09: dequeue() - the consumer's entry. Started from an arbitrary M-INV
 * state; lock and every return of cond_wait deliver an arbitrary shared state
 * within INV in which the ticket counters (which only this thread writes)
 * have kept their values. Wake-ups are spurious by construction.
 *
 *   C09.dequeue.inv   INV at every wait and at unlock, M-INV at return
 *   C09.fifo          the k-th successful call returns the pointer that was
 *                     submitted with ticket k: the item returned carries
 *                     ticket next_ticket - item_count (entry values), taken
 *                     from safe_done if that is non-empty, else from done; by
 *                     the witness clause of INV its data is the data that was
 *                     submitted with that ticket
 *   C09.once          the item leaves safe_done / done, goes to recycle with
 *                     its fields cleared; item_count decreases by one;
 *                     nothing else is handed out or lost
 *   C09.dequeue.empty item_count == 0: NULL, nothing touched, no lock
 *   C09.dequeue.null_only_on_failure
 *                     with items outstanding the call comes back empty-handed
 *                     only if the pool status is non-zero, and then nothing
 *                     was dequeued, recycled or counted (accepted so that a
 *                     repair of C09.no_stuck - give up instead of sleeping
 *                     forever - is not a violation)
 *   C09.no_stuck      when the consumer goes to sleep (on done_cond), the
 *                     ticket it waits for is in a worker's hands, or it is
 *                     queued AND the pool status is 0 so that a worker will
 *                     take it - never "queued, but the workers have stopped"
 *   C09.lock.discipline
 */
#define CS "dequeue"
#include "pool_model.h"

static size_t g_ic0, g_sl0, g_nt0, g_ndt0;
static work_item_t *g_s0, *g_s0next, *g_r0;
static size_t g_s0_ticket;
static void *g_s0_data;
static int g_released, g_slept, g_gave_up;

static void c09_on_release(int is_wait, pthread_cond_t *cond)
{
	thread_pool_impl_t *pool = POOL;
	size_t qfirst = pool->queue != NULL ? pool->queue->ticket_number
					    : pool->next_ticket;
	size_t i;

	/* queue, status: never written by the consumer */
	VERIF_ASSERT(pool->queue == s_b.queue && pool->queue_last == s_b.queue_last &&
		     pool->status == s_status && pool->next_ticket == g_nt0,
		     "C09.frame");
	for (i = 0; i < 4; ++i) {
		if (s_q[i] != NULL)
			VERIF_ASSERT(c09_item_eq(s_q[i], &s_b.q[i], 1), "C09.frame");
		if (s_d[i] != NULL)
			VERIF_ASSERT(c09_item_eq(s_d[i], &s_b.d[i], i > 0), "C09.frame");
	}

	if (is_wait) {
		g_slept += 1;
		VERIF_ASSERT(cond == &pool->done_cond, "C09.no_stuck");
		/* sleeps only if the awaited item is not there ... */
		VERIF_ASSERT(pool->done == NULL ||
			     pool->done->ticket_number != pool->next_dequeue_ticket,
			     "C09.no_stuck");
		/* ... and only if somebody is going to deliver it */
		VERIF_ASSERT(pool->next_dequeue_ticket < qfirst ||
			     (pool->queue != NULL && pool->status == 0),
			     "C09.no_stuck");
		VERIF_ASSERT(pool->done == s_b.done &&
			     pool->next_dequeue_ticket == g_ndt0, "C09.frame");
		if (s_d[0] != NULL)
			VERIF_ASSERT(s_d[0]->next == s_b.d[0].next, "C09.frame");
	} else if (pool->next_dequeue_ticket == g_ndt0) {
		g_released += 1;
		g_gave_up = 1;
		/* leaves empty-handed: only because the pool has failed, and
		 * then without having touched anything */
		VERIF_ASSERT(pool->status != 0, "C09.dequeue.null_only_on_failure");
		VERIF_ASSERT(pool->done == s_b.done, "C09.dequeue.null_only_on_failure");
		if (s_d[0] != NULL)
			VERIF_ASSERT(s_d[0]->next == s_b.d[0].next,
				     "C09.dequeue.null_only_on_failure");
	} else {
		g_released += 1;
		/* leaves with exactly the awaited item */
		VERIF_ASSERT(s_dn > 0 && s_d[0]->ticket_number == g_ndt0, "C09.fifo");
		VERIF_ASSERT(pool->done == s_b.d[0].next &&
			     pool->next_dequeue_ticket == g_ndt0 + 1, "C09.fifo");
	}
}

void harness(void)
{
	thread_pool_impl_t *pool = POOL;
	work_item_t *got;
	void *ptr;

	g_is_main = 1;
	c09_build_main();
	g_held = NULL;
	g_locked = 0;
	g_ic0 = pool->item_count;
	g_nt0 = pool->next_ticket;
	g_ndt0 = pool->next_dequeue_ticket;
	g_sl0 = c09_len(pool->safe_done, SMAX);
	g_s0 = pool->safe_done;
	g_s0next = g_s0 != NULL ? g_s0->next : NULL;
	g_s0_ticket = g_s0 != NULL ? g_s0->ticket_number : 0;
	g_s0_data = g_s0 != NULL ? g_s0->data : NULL;
	g_r0 = pool->recycle;

	ptr = dequeue(&pool->base);

	VERIF_ASSERT(!g_locked && g_locks == g_unlocks, "C09.lock.discipline");
	if (g_ic0 == 0) {
		VERIF_ASSERT(ptr == NULL && g_locks == 0 &&
			     pool->item_count == 0 && pool->recycle == g_r0 &&
			     pool->safe_done == g_s0, "C09.dequeue.empty");
	} else if (g_gave_up) {
		VERIF_ASSERT(ptr == NULL && g_s0 == NULL && g_locks == 1,
			     "C09.dequeue.null_only_on_failure");
		VERIF_ASSERT(pool->item_count == g_ic0 && pool->recycle == g_r0 &&
			     pool->safe_done == NULL &&
			     pool->next_dequeue_ticket == g_ndt0,
			     "C09.dequeue.null_only_on_failure");
		c09_check_main_inv();
	} else {
		got = pool->recycle;
		VERIF_ASSERT(ptr != NULL || g_s0 != NULL || s_b.d[0].data == NULL,
			     "C09.dequeue.null_only_on_failure");
		VERIF_ASSERT(got != NULL && got->next == g_r0, "C09.once");
		VERIF_ASSERT(got->ticket_number == 0 && got->data == NULL,
			     "C09.once");
		VERIF_ASSERT(pool->item_count == g_ic0 - 1, "C09.once");
		if (g_s0 != NULL) {
			/* from the safe list: head, no lock needed */
			VERIF_ASSERT(got == g_s0 && g_locks == 0, "C09.fifo");
			VERIF_ASSERT(pool->safe_done == g_s0next, "C09.once");
			VERIF_ASSERT(g_s0_ticket == g_nt0 - g_ic0, "C09.fifo");
			VERIF_ASSERT(ptr == g_s0_data, "C09.fifo");
			VERIF_ASSERT(g_s0_ticket != g_wt || ptr == g_wd, "C09.fifo");
			VERIF_ASSERT(pool->next_dequeue_ticket == g_ndt0, "C09.frame");
		} else {
			VERIF_ASSERT(g_locks == 1 && g_released == 1, "C09.lock.discipline");
			VERIF_ASSERT(got == s_d[0], "C09.fifo");
			VERIF_ASSERT(g_ndt0 == g_nt0 - g_ic0, "C09.fifo");
			VERIF_ASSERT(g_ndt0 != g_wt || ptr == g_wd, "C09.fifo");
			VERIF_ASSERT(ptr == s_b.d[0].data, "C09.fifo");
			VERIF_ASSERT(pool->safe_done == NULL, "C09.frame");
		}
		c09_check_main_inv();
	}
	VERIF_COVER(g_ic0 == 0);
	VERIF_COVER(g_ic0 != 0 && g_s0 != NULL && g_s0next != NULL);
	VERIF_COVER(g_ic0 != 0 && g_s0 == NULL && g_slept == 0);
	VERIF_COVER(g_ic0 != 0 && g_s0 == NULL && g_slept == 1 && g_r0 != NULL);
}
