/* C09: store_completed() - the worker-side section that hands a finished
 * item back. Called with the mutex held, from an ARBITRARY shared state
 * satisfying INV in which this worker holds one item (any ticket consistent
 * with INV, any data), with any worker status.
 *
 *   C09.store_completed.inv     INV holds again afterwards, with the item no
 *                               longer in the worker's hands
 *   C09.once                    the done list is the old done list plus this
 *                               item, each exactly once (sorted insert)
 *   C09.store_completed.status_first
 *                               the pool status is the first non-zero worker
 *                               status and is never overwritten
 *   C09.signal                  done_cond is broadcast (done gained an element,
 *                               the status may have changed)
 *   C09.frame                   nothing owned by the submitting thread, no
 *                               queue field, no ticket, no data pointer, no
 *                               other item's link is written
 */
#define CS "store_completed"
#include "pool_model.h"

static work_item_t g_mine;	/* the item in this worker's hands */

static void c09_on_release(int is_wait, pthread_cond_t *cond)
{
	(void)is_wait; (void)cond;
	VERIF_ASSERT(0, "C09.lock.discipline");	/* no release in this section */
}

void harness(void)
{
	thread_pool_impl_t *pool = POOL;
	int st = verif_nd_int("worker_status");
	size_t i;

	g_is_main = 0;
	c09_build_main();
	g_mine.ticket_number = verif_nd_size("held.ticket");
	g_mine.data = c09_nd_ptr("held.data");
	g_mine.next = NULL;
	VERIF_ASSUME(g_mine.ticket_number != g_wt || g_mine.data == g_wd);
	g_held = &g_mine;
	g_locked = 1;
	c09_build_shared();

	VERIF_COVER(s_dn == KD && s_qn == KQ);
	VERIF_COVER(s_dn > 0 && g_mine.ticket_number < s_d[0]->ticket_number);
	VERIF_COVER(s_dn > 1 && g_mine.ticket_number > s_d[0]->ticket_number &&
		    g_mine.ticket_number < s_d[1]->ticket_number);
	VERIF_COVER(s_dn > 0 && g_mine.ticket_number > s_d[s_dn - 1]->ticket_number);
	VERIF_COVER(s_dn == 0);
	VERIF_COVER(s_status != 0 && st != 0 && st != s_status);

	store_completed(pool, &g_mine, st);

	/* once: done' = done + item */
	VERIF_ASSERT(c09_len(pool->done, DMAX) == s_dn + 1, "C09.once");
	VERIF_ASSERT(c09_has(pool->done, &g_mine, DMAX), "C09.once");
	for (i = 0; i < KD; ++i) {
		if (i < s_dn)
			VERIF_ASSERT(c09_has(pool->done, s_d[i], DMAX), "C09.once");
	}
	VERIF_ASSERT(c09_strictly_increasing(pool->done, DMAX), "C09.once");

	VERIF_ASSERT(pool->status == (s_status != 0 ? s_status : st),
		     "C09.store_completed.status_first");
	VERIF_ASSERT(g_bcast_done, "C09.signal");
	VERIF_ASSERT(g_locked, "C09.lock.discipline");

	/* frame: the queue is not touched at all, neither are the main
	 * thread's fields, any ticket or any data pointer */
	VERIF_ASSERT(pool->queue == s_b.queue && pool->queue_last == s_b.queue_last,
		     "C09.frame");
	for (i = 0; i < 4; ++i) {
		if (s_q[i] != NULL)
			VERIF_ASSERT(s_q[i]->next == s_b.q[i].next, "C09.frame");
	}
	c09_check_worker_frame(&g_mine);

	/* INV with the item handed over */
	g_held = NULL;
	c09_check_inv();
	VERIF_COVER(pool->done == &g_mine);
	VERIF_COVER(pool->done != &g_mine && g_mine.next != NULL);
	VERIF_COVER(pool->done != &g_mine && g_mine.next == NULL);
}
