/* C09: store_completed() - the worker-side section that hands a finished
 * item back. Called with the mutex held, from an ARBITRARY shared state
 * satisfying INV in which this worker holds one item (any ticket consistent
 * with INV, any data), with any worker status.
 *
 *   C09.store_completed.inv     INV holds again afterwards, with the item no
 *                               longer in the worker's hands
 *   C09.once                    the done list is the old done list plus this
 *                               item, each exactly once (sorted insert)
 *   C09.store_completed.status_first
 *                               the pool status is the first non-zero worker
 *                               status and is never overwritten
 *   C09.signal                  done_cond is broadcast (done gained an element,
 *                               the status may have changed)
 *   C09.frame                   nothing owned by the submitting thread, no
 *                               queue field, no ticket, no data pointer, no
 *                               other item's link is written
 */
#define CS "store_completed"
#include "pool_model.h"

static work_item_t g_mine;	/* the item in this worker's hands */

static void c09_on_release(int is_wait, pthread_cond_t *cond)
{
	(void)is_wait; (void)cond;
	VERIF_ASSERT(0, "C09.lock.discipline");	/* no release in this section */
}

/* plain-field snapshot of everything a worker-side section must not write */
typedef struct {
	work_item_t *queue, *queue_last, *done, *safe_done, *safe_done_last;
	work_item_t *recycle;
	size_t next_ticket, next_dequeue_ticket, item_count, num_workers;
	int status;
	void *user[NW];
	thread_pool_impl_t *wpool[NW];
	work_item_t q[4], d[4], s[4], r[4];
} c09_snap_t;

static void c09_snap(c09_snap_t *b, unsigned g)
{
	thread_pool_impl_t *pool = POOL;
	size_t i;

	b->queue = pool->queue; b->queue_last = pool->queue_last;
	b->done = pool->done; b->safe_done = pool->safe_done;
	b->safe_done_last = pool->safe_done_last; b->recycle = pool->recycle;
	b->next_ticket = pool->next_ticket;
	b->next_dequeue_ticket = pool->next_dequeue_ticket;
	b->item_count = pool->item_count; b->num_workers = pool->num_workers;
	b->status = pool->status;
	for (i = 0; i < NW; ++i) {
		b->user[i] = g_pw.w[i].user;
		b->wpool[i] = g_pw.w[i].pool;
	}
	for (i = 0; i < 4; ++i) {
		b->q[i] = *QN(g, i); b->d[i] = *DN(g, i);
		b->s[i] = *SN(i); b->r[i] = *RN(i);
	}
}

static int c09_item_eq(const work_item_t *a, const work_item_t *b, int with_next)
{
	return a->ticket_number == b->ticket_number && a->data == b->data &&
		(!with_next || a->next == b->next);
}

void harness(void)
{
	thread_pool_impl_t *pool = POOL;
	c09_snap_t b;
	work_item_t mine0;
	int st = verif_nd_int("worker_status");
	size_t i;

	g_is_main = 0;
	c09_build_main();
	g_mine.ticket_number = verif_nd_size("held.ticket");
	g_mine.data = c09_nd_ptr("held.data");
	g_mine.next = NULL;
	VERIF_ASSUME(g_mine.ticket_number != g_wt || g_mine.data == g_wd);
	g_held = &g_mine;
	g_locked = 1;
	c09_build_shared();
	c09_snap(&b, 0);
	mine0 = g_mine;

	VERIF_COVER(s_dn == KD && s_qn == KQ && g_ow_n == NW - 1);
	VERIF_COVER(s_dn > 0 && g_mine.ticket_number < s_d[0]->ticket_number);
	VERIF_COVER(s_dn > 1 && g_mine.ticket_number > s_d[0]->ticket_number &&
		    g_mine.ticket_number < s_d[1]->ticket_number);
	VERIF_COVER(s_dn > 0 && g_mine.ticket_number > s_d[s_dn - 1]->ticket_number);
	VERIF_COVER(s_dn == 0);
	VERIF_COVER(s_status != 0 && st != 0 && st != s_status);

	store_completed(pool, &g_mine, st);

	/* once: done' = done + item */
	VERIF_ASSERT(c09_len(pool->done, DMAX) == s_dn + 1, "C09.once");
	VERIF_ASSERT(c09_has(pool->done, &g_mine, DMAX), "C09.once");
	for (i = 0; i < KD; ++i) {
		if (i < s_dn)
			VERIF_ASSERT(c09_has(pool->done, s_d[i], DMAX), "C09.once");
	}
	VERIF_ASSERT(c09_strictly_increasing(pool->done, DMAX), "C09.once");

	VERIF_ASSERT(pool->status == (s_status != 0 ? s_status : st),
		     "C09.store_completed.status_first");
	VERIF_ASSERT(g_bcast_done, "C09.signal");
	VERIF_ASSERT(g_locked, "C09.lock.discipline");

	/* frame */
	VERIF_ASSERT(pool->queue == b.queue && pool->queue_last == b.queue_last &&
		     pool->next_ticket == b.next_ticket &&
		     pool->next_dequeue_ticket == b.next_dequeue_ticket,
		     "C09.frame");
	VERIF_ASSERT(pool->item_count == b.item_count &&
		     pool->safe_done == b.safe_done &&
		     pool->safe_done_last == b.safe_done_last &&
		     pool->recycle == b.recycle &&
		     pool->num_workers == b.num_workers, "C09.frame");
	for (i = 0; i < NW; ++i)
		VERIF_ASSERT(g_pw.w[i].user == b.user[i] &&
			     g_pw.w[i].pool == b.wpool[i], "C09.frame");
	for (i = 0; i < 4; ++i) {
		VERIF_ASSERT(c09_item_eq(QN(0, i), &b.q[i], 1), "C09.frame");
		VERIF_ASSERT(c09_item_eq(DN(0, i), &b.d[i], 0), "C09.frame");
		VERIF_ASSERT(c09_item_eq(SN(i), &b.s[i], 1), "C09.frame");
		VERIF_ASSERT(c09_item_eq(RN(i), &b.r[i], 1), "C09.frame");
	}
	VERIF_ASSERT(c09_item_eq(&g_mine, &mine0, 0), "C09.frame");

	/* INV with the item handed over */
	g_held = NULL;
	c09_check_inv();
	VERIF_COVER(pool->done == &g_mine);
	VERIF_COVER(pool->done != &g_mine && g_mine.next != NULL);
	VERIF_COVER(pool->done != &g_mine && g_mine.next == NULL);
}
