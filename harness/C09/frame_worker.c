/* C09.frame by DFCC assigns clauses: the two worker-side sections may write
 * ONLY the shared fields they are meant to write - checked on every store
 * the real function performs (the value-comparison frame checks of the other
 * harnesses cannot see a write that restores the old value, or a read).
 *   -DFRAME_STORE  store_completed():      pool->done, pool->status, the next
 *                  links of the stored item and of the done list's nodes
 *   -DFRAME_NEXT   get_next_work_item():   pool->queue, pool->queue_last, the
 *                  next link of the queue head
 * Nothing owned by the submitting thread (recycle, safe_done, item_count,
 * next_ticket, next_dequeue_ticket), no worker context, no ticket, no data.
 * The wrapper functions only carry the contract; --enforce-contract checks
 * the real callee's stores against it. cond_wait ends the path here (what
 * happens across a wait is the business of get_next.c / worker_proc.c).
 */
#define CS "frame"
#define MAXWAIT 0
#include "pool_model.h"

static work_item_t g_mine;

static void c09_on_release(int is_wait, pthread_cond_t *cond)
{
	(void)is_wait; (void)cond;
}

#ifdef FRAME_STORE
static void cs_store_completed(thread_pool_impl_t *pool, work_item_t *item, int status)
__CPROVER_requires(pool == POOL && item == &g_mine)
__CPROVER_assigns(pool->done, pool->status, item->next, g_bcast_done,
		  g_d0_0.next, g_d0_1.next, g_d0_2.next, g_d0_3.next)
{
	store_completed(pool, item, status);
}
#else
static work_item_t *cs_get_next_work_item(thread_pool_impl_t *pool)
__CPROVER_requires(pool == POOL)
__CPROVER_assigns(pool->queue, pool->queue_last, g_q0_0.next)
{
	return get_next_work_item(pool);
}
#endif

void harness(void)
{
	g_is_main = 0;
	c09_build_main();
	g_locked = 1;
#ifdef FRAME_STORE
	g_mine.ticket_number = verif_nd_size("held.ticket");
	g_mine.data = c09_nd_ptr("held.data");
	g_mine.next = NULL;
	VERIF_ASSUME(g_mine.ticket_number != g_wt || g_mine.data == g_wd);
	g_held = &g_mine;
	c09_build_shared();
	VERIF_COVER(s_dn == KD);
	cs_store_completed(POOL, &g_mine, verif_nd_int("worker_status"));
	VERIF_COVER(POOL->done != &g_mine);
#else
	g_held = NULL;
	c09_build_shared();
	VERIF_COVER(s_qn == KQ && s_status == 0);
	{
		work_item_t *it = cs_get_next_work_item(POOL);
		VERIF_COVER(it != NULL);
		VERIF_COVER(it == NULL);
	}
#endif
}
