/*
 * bp_env.h - C09: the block processor's main-thread code on top of the
 * ABSTRACT pool contract that the threadpool.c / threadpool_serial.c harnesses
 * establish (FIFO, exactly once, status = first worker failure, sticky).
 *
 * Pool contract used here (stub object behind proc->pool):
 *   dequeue()     returns the blocks that are in the pool in submission order,
 *                 each once; NULL if the pool is empty; once the status is
 *                 non-zero it may also return NULL with blocks left inside
 *                 (the workers have stopped - this is the behaviour the
 *                 proposed fix of C09.no_stuck gives; on the unfixed tree the
 *                 call would not return at all, which no harness can observe)
 *   get_status()  the current status
 *   A worker may fail at any moment while blocks are inside the pool: the
 *   status flips from 0 to an arbitrary non-zero value at any pool call.
 *   When dequeue() hands back the block whose worker failed the status is
 *   already non-zero (store_completed sets both in one critical section).
 * Block writer contract: any result, any location.
 *
 * Scenario bound: <= NB blocks inside the pool, all plain data blocks
 * (no IS_FRAGMENT / FRAGMENT_BLOCK, no inode attached), io_queue initially
 * empty, no fragment table.
 */
#ifndef C09_BP_ENV_H
#define C09_BP_ENV_H

#include "verif.h"
#include "lib/sqfs/src/block_processor/internal.h"

#ifndef NB
#define NB 2
#endif
#define BLK_DATA 8

typedef struct {
	sqfs_block_t b;
	sqfs_u8 data[BLK_DATA];
} c09_blk_t;

static c09_blk_t g_blk[4];		/* blocks inside the pool, in submit order */
static c09_blk_t g_cur, g_frag;		/* blk_current / frag_block stand-ins */
static size_t g_inpool, g_next;
static int g_pstatus;			/* pool status now */
static int g_null_returned;		/* dequeue() returned NULL */
static int g_handed_while_failed;	/* a block came back with status != 0 */
static unsigned g_writes;
static sqfs_u32 g_write_seq[4];		/* io_seq_num of the k-th write */
static int g_write_failed;

static thread_pool_t g_tp;
static sqfs_block_writer_t g_wr;

static void c09_worker_may_fail(void)
{
	if (g_pstatus == 0 && g_inpool > 0 && verif_nd_bool("worker_fails")) {
		g_pstatus = verif_nd_int("worker_status");
		VERIF_ASSUME(g_pstatus != 0);
	}
}

static void *stub_dequeue(thread_pool_t *pool)
{
	sqfs_block_t *blk;

	VERIF_ASSERT(pool == &g_tp, "C09.bp.pool_pre");
	c09_worker_may_fail();
	if (g_inpool == 0 ||
	    (g_pstatus != 0 && verif_nd_bool("stopped_pool_gives_up"))) {
		g_null_returned = 1;
		return NULL;
	}
	blk = &g_blk[g_next].b;
	g_next += 1;
	g_inpool -= 1;
	if (g_pstatus != 0)
		g_handed_while_failed = 1;
	return blk;
}

static int stub_get_status(thread_pool_t *pool)
{
	VERIF_ASSERT(pool == &g_tp, "C09.bp.pool_pre");
	return g_pstatus;
}

static int stub_submit(thread_pool_t *pool, void *ptr)
{
	(void)pool; (void)ptr;
	VERIF_ASSERT(0, "C09.bp.unreachable");
	return -1;
}

static int stub_write_data_block(sqfs_block_writer_t *wr, void *user,
				 sqfs_u32 size, sqfs_u32 checksum,
				 sqfs_u32 flags, const sqfs_u8 *data,
				 sqfs_u64 *location)
{
	int err = verif_nd_int("write_err");

	(void)user; (void)checksum; (void)flags;
	VERIF_ASSERT(wr == &g_wr, "C09.bp.writer_pre");
	VERIF_ASSERT(size <= BLK_DATA && VERIF_R_OK(data, size) &&
		     VERIF_W_OK(location, sizeof(*location)), "C09.bp.writer_pre");
	VERIF_ASSUME(err <= 0);
	if (g_writes < 4)
		g_write_seq[g_writes] = ((const sqfs_block_t *)
			((const char *)data - offsetof(sqfs_block_t, data)))->io_seq_num;
	g_writes += 1;
	if (err != 0)
		g_write_failed = 1;
	*location = verif_nd_u64("location");
	return err;
}

static void c09_bp_block(c09_blk_t *w)
{
	w->b.next = NULL;
	w->b.inode = NULL;
	w->b.io_seq_num = verif_nd_u32("blk.io_seq_num");
	w->b.flags = verif_nd_u32("blk.flags") &
		~(sqfs_u32)(SQFS_BLK_IS_FRAGMENT | SQFS_BLK_FRAGMENT_BLOCK);
	w->b.size = verif_nd_u32("blk.size");
	VERIF_ASSUME(w->b.size <= BLK_DATA);
	w->b.checksum = verif_nd_u32("blk.checksum");
	w->b.index = verif_nd_u32("blk.index");
	w->b.user = NULL;
}

#endif /* C09_BP_ENV_H */
