/*
 * bp_env.h - C09: the block processor's main-thread code on top of the
 * ABSTRACT pool contract that the threadpool.c / threadpool_serial.c harnesses
 * establish (FIFO, exactly once, status = first worker failure, sticky).
 *
 * Pool contract used here (stub object behind proc->pool):
 *   dequeue()     returns the blocks that are in the pool in submission order,
 *                 each once; NULL if the pool is empty; once the status is
 *                 non-zero it may also return NULL with blocks left inside
 *                 (the workers have stopped - this is the behaviour the
 *                 proposed fix of C09.no_stuck gives; on the unfixed tree the
 *                 call would not return at all, which no harness can observe)
 *   get_status()  the current status
 *   A worker may fail at any moment while blocks are inside the pool: the
 *   status flips from 0 to an arbitrary non-zero value at any pool call.
 *   When dequeue() hands back the block whose worker failed the status is
 *   already non-zero (store_completed sets both in one critical section).
 * Block writer contract: any result, any location.
 *
 * Scenario bound: NPOOL <= NB blocks inside the pool (case parameter, like
 * the index of the call at which a stopped pool gives up), all plain data blocks
 * (no IS_FRAGMENT / FRAGMENT_BLOCK, no inode attached; the flag word of each
 * block is a concrete case parameter), io_queue initially
 * empty, no fragment table.
 */
#ifndef C09_BP_ENV_H
#define C09_BP_ENV_H

#include "verif.h"
#include "lib/sqfs/src/block_processor/internal.h"

#ifndef NB
#define NB 2
#endif
#define BLK_DATA 8
#ifndef NPOOL
#define NPOOL NB	/* blocks inside the pool: concrete per case */
#endif
#ifndef GIVEUP_AT
#define GIVEUP_AT (-1)	/* index of the dequeue() call that returns NULL with
			   blocks left (needs status != 0); -1: none */
#endif

typedef struct {
	sqfs_block_t b;
	sqfs_u8 data[BLK_DATA];
} c09_blk_t;

/* blocks inside the pool, in submit order: distinct objects, so that a
 * pointer to one is an object identity (keeps symbolic execution from
 * treating constant fields such as inode == NULL as unknown) */
static c09_blk_t g_blk0, g_blk1, g_blk2, g_blk3;
static c09_blk_t *BLK(size_t i)
{
	switch (i) {
	case 0: return &g_blk0; case 1: return &g_blk1;
	case 2: return &g_blk2; default: return &g_blk3;
	}
}
static c09_blk_t g_cur, g_frag;		/* blk_current / frag_block stand-ins */
static size_t g_inpool, g_next;
static int g_pstatus;			/* pool status now */
static int g_null_returned;		/* dequeue() returned NULL */
static unsigned g_dequeue_calls;
static int g_handed_while_failed;	/* a block came back with status != 0 */
static unsigned g_writes;
static sqfs_u32 g_write_seq[4];		/* io_seq_num of the k-th write */
static int g_write_failed;

static thread_pool_t g_tp;
static sqfs_block_writer_t g_wr;

static void c09_worker_may_fail(void)
{
	if (g_pstatus == 0 && g_inpool > 0 && verif_nd_bool("worker_fails")) {
		g_pstatus = verif_nd_int("worker_status");
		VERIF_ASSUME(g_pstatus != 0);
	}
}

static void *stub_dequeue(thread_pool_t *pool)
{
	sqfs_block_t *blk;

	VERIF_ASSERT(pool == &g_tp, "C09.bp.pool_pre");
	c09_worker_may_fail();
	g_dequeue_calls += 1;
	if (g_inpool == 0) {
		g_null_returned = 1;
		return NULL;
	}
	/* which call (if any) gives up is a case parameter, so that the
	 * returned pointer is concrete on every path */
	if ((int)g_dequeue_calls - 1 == GIVEUP_AT) {
		VERIF_ASSUME(g_pstatus != 0);
		g_null_returned = 1;
		return NULL;
	}
	blk = &BLK(g_next)->b;
	g_next += 1;
	g_inpool -= 1;
	if (g_pstatus != 0)
		g_handed_while_failed = 1;
	return blk;
}

static int stub_get_status(thread_pool_t *pool)
{
	VERIF_ASSERT(pool == &g_tp, "C09.bp.pool_pre");
	return g_pstatus;
}

static int stub_submit(thread_pool_t *pool, void *ptr)
{
	(void)pool; (void)ptr;
	VERIF_ASSERT(0, "C09.bp.unreachable");
	return -1;
}

/* call sites of the translation unit that this scenario never reaches
 * (external linkage, so that the symbols exist even while nothing calls them) */
void stub_unreach_destroy(sqfs_object_t *o)
{
	(void)o;
	VERIF_ASSERT(0, "C09.bp.unreachable");
}
sqfs_object_t *stub_unreach_copy(const sqfs_object_t *o)
{
	(void)o;
	VERIF_ASSERT(0, "C09.bp.unreachable");
	return NULL;
}
int stub_unreach_read_at(sqfs_file_t *f, sqfs_u64 off, void *buf, size_t n)
{
	(void)f; (void)off; (void)buf; (void)n;
	VERIF_ASSERT(0, "C09.bp.unreachable");
	return -1;
}
sqfs_s32 stub_unreach_do_block(sqfs_compressor_t *c, const sqfs_u8 *in,
				      sqfs_u32 n, sqfs_u8 *out, sqfs_u32 m)
{
	(void)c; (void)in; (void)n; (void)out; (void)m;
	VERIF_ASSERT(0, "C09.bp.unreachable");
	return -1;
}
size_t stub_unreach_get_worker_count(thread_pool_t *p)
{
	(void)p;
	VERIF_ASSERT(0, "C09.bp.unreachable");
	return 1;
}
void stub_unreach_set_worker_ptr(thread_pool_t *p, size_t i, void *u)
{
	(void)p; (void)i; (void)u;
	VERIF_ASSERT(0, "C09.bp.unreachable");
}

static int stub_write_data_block(sqfs_block_writer_t *wr, void *user,
				 sqfs_u32 size, sqfs_u32 checksum,
				 sqfs_u32 flags, const sqfs_u8 *data,
				 sqfs_u64 *location)
{
	int err = verif_nd_int("write_err");

	(void)user; (void)checksum; (void)flags;
	VERIF_ASSERT(wr == &g_wr, "C09.bp.writer_pre");
	VERIF_ASSERT(size <= BLK_DATA && VERIF_R_OK(data, size) &&
		     VERIF_W_OK(location, sizeof(*location)), "C09.bp.writer_pre");
	VERIF_ASSUME(err <= 0);
	if (g_writes < 4)
		g_write_seq[g_writes] = ((const sqfs_block_t *)
			((const char *)data - offsetof(sqfs_block_t, data)))->io_seq_num;
	g_writes += 1;
	if (err != 0)
		g_write_failed = 1;
	*location = verif_nd_u64("location");
	return err;
}

/* the block kind is a tag: concrete per case (-DFL0.. -DFL3), never one of
 * the fragment kinds in this scenario */
#ifndef FL0
#define FL0 0
#endif
#ifndef FL1
#define FL1 SQFS_BLK_LAST_BLOCK
#endif
#ifndef FL2
#define FL2 0
#endif
#ifndef FL3
#define FL3 0
#endif

static void c09_bp_block(c09_blk_t *w, sqfs_u32 flags)
{
	w->b.next = NULL;
	w->b.inode = NULL;
	w->b.io_seq_num = verif_nd_u32("blk.io_seq_num");
	w->b.flags = flags;
	w->b.size = verif_nd_u32("blk.size");
	VERIF_ASSUME(w->b.size <= BLK_DATA);
	w->b.checksum = verif_nd_u32("blk.checksum");
	w->b.index = verif_nd_u32("blk.index");
	w->b.user = NULL;
}

#endif /* C09_BP_ENV_H */
