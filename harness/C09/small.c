/* C09: the two trivial sections of the submitting thread,
 *   -DOP_GET_STATUS      get_status()
 *   -DOP_SET_WORKER_PTR  set_worker_ptr()
 * each from an arbitrary M-INV state, the lock delivering an arbitrary shared
 * state within INV.
 *
 *   C09.get_status.inv / C09.set_worker_ptr.inv
 *   C09.get_status.value      returns the status found under the lock
 *   C09.set_worker_ptr.value  idx < num_workers: exactly workers[idx].user is
 *                             set, under the lock; otherwise nothing happens
 *   C09.frame                 nothing else is written (lists, counters,
 *                             status, the other workers' contexts)
 *   C09.signal                neither queue nor done nor status changed, so
 *                             no broadcast is owed (and none is made)
 *   C09.lock.discipline
 */
#ifdef OP_GET_STATUS
#define CS "get_status"
#else
#define CS "set_worker_ptr"
#endif
#include "pool_model.h"

static int g_released;
static size_t g_idx;
static void *g_ptr;
static void *g_user0[NW];

static void c09_frame_all(void)
{
	thread_pool_impl_t *pool = POOL;
	size_t i;

	VERIF_ASSERT(pool->queue == s_b.queue && pool->queue_last == s_b.queue_last &&
		     pool->done == s_b.done && pool->status == s_b.status &&
		     pool->next_ticket == s_b.next_ticket &&
		     pool->next_dequeue_ticket == s_b.next_dequeue_ticket &&
		     pool->item_count == s_b.item_count &&
		     pool->safe_done == s_b.safe_done &&
		     pool->safe_done_last == s_b.safe_done_last &&
		     pool->recycle == s_b.recycle &&
		     pool->num_workers == s_b.num_workers, "C09.frame");
	for (i = 0; i < 4; ++i) {
		if (s_q[i] != NULL)
			VERIF_ASSERT(c09_item_eq(s_q[i], &s_b.q[i], 1), "C09.frame");
		if (s_d[i] != NULL)
			VERIF_ASSERT(c09_item_eq(s_d[i], &s_b.d[i], 1), "C09.frame");
		VERIF_ASSERT(c09_item_eq(SN(i), &s_b.s[i], 1), "C09.frame");
		VERIF_ASSERT(c09_item_eq(RN(i), &s_b.r[i], 1), "C09.frame");
	}
	for (i = 0; i < NW; ++i) {
#ifdef OP_SET_WORKER_PTR
		if (i == g_idx)
			continue;
#endif
		VERIF_ASSERT(g_pw.w[i].user == g_user0[i] &&
			     g_pw.w[i].pool == s_b.wpool[i], "C09.frame");
	}
}

static void c09_on_release(int is_wait, pthread_cond_t *cond)
{
	(void)cond;
	VERIF_ASSERT(!is_wait, "C09.lock.discipline");
	g_released += 1;
	c09_frame_all();
	VERIF_ASSERT(!g_bcast_queue && !g_bcast_done, "C09.signal");
#ifdef OP_SET_WORKER_PTR
	VERIF_ASSERT(g_idx < NW && g_pw.w[g_idx].user == g_ptr,
		     "C09.set_worker_ptr.value");
#endif
}

void harness(void)
{
	thread_pool_impl_t *pool = POOL;
	size_t i;

	g_is_main = 1;
	c09_build_main();
	g_held = NULL;
	g_locked = 0;
	for (i = 0; i < NW; ++i)
		g_user0[i] = g_pw.w[i].user;

#ifdef OP_GET_STATUS
	{
		int ret = get_status(&pool->base);

		VERIF_ASSERT(g_locks == 1 && g_released == 1 && !g_locked,
			     "C09.lock.discipline");
		VERIF_ASSERT(ret == s_status, "C09.get_status.value");
		VERIF_COVER(ret != 0 && s_qn > 0);
		VERIF_COVER(ret == 0);
	}
#else
	g_idx = verif_nd_size("idx");
	g_ptr = c09_nd_ptr("ptr");
	set_worker_ptr(&pool->base, g_idx, g_ptr);

	VERIF_ASSERT(!g_locked && g_locks == g_unlocks, "C09.lock.discipline");
	if (g_idx < NW) {
		VERIF_ASSERT(g_locks == 1 && g_released == 1, "C09.lock.discipline");
		VERIF_ASSERT(g_pw.w[g_idx].user == g_ptr, "C09.set_worker_ptr.value");
	} else {
		VERIF_ASSERT(g_locks == 0, "C09.set_worker_ptr.value");
		for (i = 0; i < NW; ++i)
			VERIF_ASSERT(g_pw.w[i].user == g_user0[i],
				     "C09.set_worker_ptr.value");
	}
	VERIF_COVER(g_idx == NW - 1);
	VERIF_COVER(g_idx == 0 && g_ptr != g_user0[0]);
	VERIF_COVER(g_idx >= NW);
#endif
	c09_check_main_inv();
}
