/* C15 - shared part of the four adapter harnesses (gzip.c / xz.c / zstd.c /
 * bzip2.c process_data against ASSUMED codec-library contracts).
 *
 * Library contract (the documented interface of inflate/deflate, lzma_code,
 * ZSTD_(de)compressStream*, BZ2_bz(De)compress): a call consumes c <= avail_in
 * bytes from next_in and produces p <= avail_out bytes at next_out, advances
 * its cursor fields accordingly and returns one of its documented codes;
 * "ok, go on" implies progress (c + p > 0); failure codes may be returned at
 * any call; after a failure the library makes no further progress.
 *
 * BOUNDED: every sequence of up to LIBCALLS library calls per process_data
 * (each with arbitrary c, p and code); the adapter loops are unwound. Bounded
 * rather than loop contracts because the findings below then fail a NAMED
 * obligation with a replayable input instead of an anonymous invariant.
 *
 * Obligations on process_data (what the wrappers in istream.c/ostream.c rely
 * on, cf. c15_env.h):
 *  C15.adapter.lib_args          call k gets (in+consumed, in_size-consumed,
 *                                out+produced, out_size-produced), right
 *                                direction (compress/decompress)
 *  C15.adapter.flush_mode        the action is the one mapped from flush_mode
 *  C15.adapter.offsets           *in_read / *out_written advance by exactly
 *                                what the library consumed / produced, never
 *                                beyond in_size / out_size
 *  C15.adapter.error_propagates  a library failure ends the call with
 *                                XFRM_STREAM_ERROR (no further library call)
 *  C15.adapter.end_iff_lib_end   XFRM_STREAM_END <=> the library reported the
 *                                end of the compressed stream in this call
 *  C15.adapter.finish_reaches_lib  flush_mode FULL, room in `out`: the
 *                                library is consulted at least once even when
 *                                no input is left - otherwise pending output
 *                                and the stream trailer can never be produced
 *                                and the end of a stream is never seen
 *  C15.adapter.no_spin           a library call that made no progress and
 *                                asked to go on is not simply repeated
 *  C15.adapter.buffer_full_meaning  BUFFER_FULL only when the room ran out
 *                                or, while flushing, the input did
 *  C15.adapter.status_domain     result is ERROR, OK, END or BUFFER_FULL
 */
#ifndef ADAPTER_COMMON_H
#define ADAPTER_COMMON_H
#include <stdlib.h>
#include "verif.h"

#ifndef LIBCALLS
#define LIBCALLS 3
#endif

const uint8_t *g_in0;
uint8_t *g_out0;
uint32_t g_in_size0, g_out_size0;
uint32_t g_c, g_p;        /* consumed / produced by the library so far */
unsigned g_lib_calls;
bool g_lib_failed;        /* a library call returned a failure code */
bool g_lib_end;           /* a library call reported end of stream */
bool g_stalled;           /* last call: "go on" without any progress */
bool g_fail_stalled;      /* last call: failure without any progress */
bool g_compress;
int g_mode;               /* effective flush mode (out of range = NONE) */

/* one library step: returns via *c,*p the progress; `ok_needs_progress` is
 * the library's "ok" class */
static inline void lib_enter(const void *next_in, size_t avail_in,
			     void *next_out, size_t avail_out, bool compress)
{
#ifdef ADAPTER_LIB_CONTINUES_AFTER_END
	/* libzstd starts the next frame by itself */
	VERIF_ASSERT(!g_lib_failed, "C15.adapter.error_propagates");
#else
	VERIF_ASSERT(!g_lib_failed && !g_lib_end, "C15.adapter.error_propagates");
#endif
	VERIF_ASSERT((const uint8_t *)next_in == g_in0 + g_c &&
		     avail_in == g_in_size0 - g_c &&
		     (uint8_t *)next_out == g_out0 + g_p &&
		     avail_out == g_out_size0 - g_p && compress == g_compress,
		     "C15.adapter.lib_args");
#ifndef ADAPTER_LIB_BOUNDS_STALLS
	VERIF_ASSERT(!g_stalled, "C15.adapter.no_spin");
#endif
	/* a failed call that moved nothing will move nothing next time either */
	VERIF_ASSERT(!g_fail_stalled, "C15.adapter.no_spin");
	VERIF_ASSUME(g_lib_calls < LIBCALLS);
	g_lib_calls++;
}

/* to be called by the library stub with its verdict */
static inline void lib_leave(uint32_t c, uint32_t p, bool goes_on)
{
	g_stalled = goes_on && c == 0 && p == 0;
	g_fail_stalled = g_lib_failed && c == 0 && p == 0;
}

static inline void lib_progress(size_t avail_in, size_t avail_out,
				uint32_t *c, uint32_t *p)
{
	*c = verif_nd_u32("lib.consumed");
	*p = verif_nd_u32("lib.produced");
	VERIF_ASSUME(*c <= avail_in && *p <= avail_out);
	g_c += *c;
	g_p += *p;
}

#ifdef ADAPTER_LIB_CONTINUES_AFTER_END
#define ADAPTER_END_CHECK(ret) ((void)0) /* stated by the harness itself */
#else
#define ADAPTER_END_CHECK(ret)                                                  \
	do {                                                                    \
		if (!g_lib_failed)                                              \
			VERIF_ASSERT(((ret) == 1) == g_lib_end,                 \
				     "C15.adapter.end_iff_lib_end");            \
	} while (0)
#endif

#define ADAPTER_POST(ret, in_read, out_written, r0, w0)                        \
	do {                                                                    \
		VERIF_ASSERT((ret) >= -1 && (ret) <= 2,                        \
			     "C15.adapter.status_domain");                      \
		if ((ret) != -1)                                                \
			VERIF_ASSERT((in_read) == (r0) + g_c &&                 \
				     (out_written) == (w0) + g_p &&            \
				     g_c <= g_in_size0 && g_p <= g_out_size0,   \
				     "C15.adapter.offsets");                    \
		if (g_lib_failed)                                               \
			VERIF_ASSERT((ret) == -1, "C15.adapter.error_propagates"); \
		ADAPTER_END_CHECK(ret);                                         \
		if ((ret) == 2)                                                 \
			VERIF_ASSERT(g_p == g_out_size0 ||                      \
				     (g_mode == 2 && g_c == g_in_size0),        \
				     "C15.adapter.buffer_full_meaning");        \
		if (g_mode == 2 && g_out_size0 > 0 && (ret) != -1)              \
			VERIF_ASSERT(g_lib_calls >= 1,                          \
				     "C15.adapter.finish_reaches_lib");         \
	} while (0)
#endif
