/* C15: process_data of lib/xfrm/src/bzip2.c against the libbz2 contract (see
 * adapter_common.h). BZ2_bzCompress: BZ_RUN_OK / BZ_FLUSH_OK / BZ_FINISH_OK
 * (progress made, go on), BZ_STREAM_END (only with BZ_FINISH), failures
 * BZ_SEQUENCE_ERROR, BZ_PARAM_ERROR. BZ2_bzDecompress: BZ_OK (go on),
 * BZ_STREAM_END, failures BZ_PARAM_ERROR, BZ_DATA_ERROR, BZ_DATA_ERROR_MAGIC,
 * BZ_MEM_ERROR - and, in this stub, ANY other negative value except
 * BZ_OUTBUFF_FULL (-8): that code belongs to the one-shot BuffToBuff API, the
 * streaming calls never return it; bzip2.c nevertheless maps it to
 * XFRM_STREAM_BUFFER_FULL before looking at the cursors (dead code; with -8
 * admitted, offsets / error_propagates / buffer_full_meaning fail - noted,
 * not claimed as a defect). Init functions: BZ_OK or a failure. Lazy (re)initialisation,
 * *End after STREAM_END.
 */
#include "C15/adapter_common.h"
#include <bzlib.h>
#include "lib/xfrm/src/bzip2.c"

static xfrm_stream_bzip2_t g_z;
unsigned g_inits, g_ends;
bool g_init_failed;
bool g_init0;

static int lib_init(bz_stream *s, bool compress)
{
	VERIF_ASSERT(s == &g_z.strm && !g_init0 && g_inits == 0 &&
		     g_lib_calls == 0 && compress == g_compress,
		     "C15.adapter.lazy_init");
	g_inits++;
	if (verif_nd_bool("init.fails")) {
		int e = verif_nd_int("init.err");
		VERIF_ASSUME(e != BZ_OK);     /* any other value */
		g_init_failed = true;
		g_lib_failed = true;
		return e;
	}
	return BZ_OK;
}

int BZ2_bzCompressInit(bz_stream *s, int level, int verbosity, int work)
{
	VERIF_ASSERT(level == g_z.level && verbosity == 0 && work == g_z.work_factor,
		     "C15.adapter.lazy_init");
	return lib_init(s, true);
}

int BZ2_bzDecompressInit(bz_stream *s, int verbosity, int small)
{
	VERIF_ASSERT(verbosity == 0 && small == 0, "C15.adapter.lazy_init");
	return lib_init(s, false);
}

static int lib_end(bz_stream *s, bool compress)
{
	VERIF_ASSERT(s == &g_z.strm && g_lib_end && g_ends == 0 &&
		     compress == g_compress, "C15.adapter.end_after_stream_end");
	g_ends++;
	return BZ_OK;
}

int BZ2_bzCompressEnd(bz_stream *s) { return lib_end(s, true); }
int BZ2_bzDecompressEnd(bz_stream *s) { return lib_end(s, false); }

static int lib_step(bz_stream *s, bool compress, int action)
{
	static const int expect[] = { BZ_RUN, BZ_FLUSH, BZ_FINISH };
	uint32_t c, p;
	int code = verif_nd_int("bz.code");

	VERIF_ASSERT(s == &g_z.strm && (g_init0 || g_inits == 1),
		     "C15.adapter.lib_args");
	lib_enter(s->next_in, s->avail_in, s->next_out, s->avail_out, compress);
	if (compress)
		VERIF_ASSERT(action == expect[g_mode], "C15.adapter.flush_mode");
	lib_progress(s->avail_in, s->avail_out, &c, &p);
	if (compress) {
		/* documented go-on codes, or ANY negative value (= failure) */
		VERIF_ASSUME(code == BZ_RUN_OK || code == BZ_FLUSH_OK ||
			     code == BZ_FINISH_OK || code == BZ_STREAM_END ||
			     code < 0);
		VERIF_ASSUME(code != BZ_OUTBUFF_FULL);
		if (code == BZ_STREAM_END)
			VERIF_ASSUME(action == BZ_FINISH);
	} else {
		VERIF_ASSUME(code == BZ_OK || code == BZ_STREAM_END || code < 0);
		VERIF_ASSUME(code != BZ_OUTBUFF_FULL);
	}
	/* "go on" codes: the compressor reports missing progress as
	 * BZ_PARAM_ERROR; the decompressor simply returns BZ_OK when it has no
	 * input or no room */
	if (code >= 0 && code != BZ_STREAM_END &&
	    (compress || (s->avail_in > 0 && s->avail_out > 0)))
		VERIF_ASSUME(c > 0 || p > 0);
	s->next_in += c;
	s->avail_in -= c;
	s->next_out += p;
	s->avail_out -= p;
	if (code == BZ_STREAM_END)
		g_lib_end = true;
	else if (code < 0)
		g_lib_failed = true;
	lib_leave(c, p, code >= 0 && code != BZ_STREAM_END);
	return code;
}

int BZ2_bzCompress(bz_stream *s, int action) { return lib_step(s, true, action); }
int BZ2_bzDecompress(bz_stream *s) { return lib_step(s, false, 0); }

void harness(void)
{
	sqfs_u32 in_size = verif_nd_u32("in_size"), out_size = verif_nd_u32("out_size");
	sqfs_u32 r0 = verif_nd_u32("in_read"), w0 = verif_nd_u32("out_written");
	sqfs_u32 in_read, out_written;
	int mode = verif_nd_int("flush_mode"), ret;
	uint8_t *in, *out;

	VERIF_ASSUME(in_size <= 0x100000 && out_size <= 0x100000);
	VERIF_ASSUME(r0 <= 0x100000 && w0 <= 0x100000);
	in = malloc(in_size);
	out = malloc(out_size);
	VERIF_ASSUME(in != NULL && out != NULL);
	g_compress = verif_nd_bool("compress");
	g_z.compress = g_compress;
	g_z.initialized = g_init0 = verif_nd_bool("initialized");
	g_z.level = verif_nd_int("level");
	g_z.work_factor = verif_nd_int("work");
	g_in0 = in;
	g_out0 = out;
	g_in_size0 = in_size;
	g_out_size0 = out_size;
	g_c = g_p = 0;
	g_lib_calls = 0;
	g_lib_failed = g_lib_end = g_stalled = g_fail_stalled = false;
	g_inits = g_ends = 0;
	g_init_failed = false;
	g_mode = (mode < 0 || mode >= XFRM_STREAM_FLUSH_COUNT) ? 0 : mode;
	in_read = r0;
	out_written = w0;
	VERIF_COVER(in_size > 4 && out_size > 4);

	ret = process_data(&g_z.base, in, in_size, out, out_size, &in_read,
			   &out_written, mode);

	ADAPTER_POST(ret, in_read, out_written, r0, w0);
	if (ret == XFRM_STREAM_END)
		VERIF_ASSERT(g_ends == 1 && !g_z.initialized,
			     "C15.adapter.end_after_stream_end");
	else if (!g_init_failed)
		VERIF_ASSERT(g_z.initialized && g_ends == 0,
			     "C15.adapter.lazy_init");

	VERIF_COVER(ret == XFRM_STREAM_OK && g_lib_calls >= 2 && g_c == in_size);
	VERIF_COVER(ret == XFRM_STREAM_OK && g_p == out_size && g_c < in_size && out_size > 0);
	VERIF_COVER(ret == XFRM_STREAM_END && g_lib_calls >= 2 && g_inits == 1);
	VERIF_COVER(ret == XFRM_STREAM_ERROR && g_init_failed);
	VERIF_COVER(ret == XFRM_STREAM_ERROR && !g_init_failed && g_c > 0);
}
