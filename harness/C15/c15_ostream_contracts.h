/* C15 - contract of flush_inbuf (lib/xfrm/src/ostream.c) as a stub for the
 * harnesses of its callers (goto-instrument --replace-calls
 * flush_inbuf:c15_flush_inbuf_contract). Every clause is proved on the real
 * function by out_flush_inbuf.c (loop contract, unbounded):
 *   ret != 0  <=> codec or append failure; inbuf_used unchanged (C15.out.fail)
 *   ret == 0: the first k <= inbuf_used buffered bytes went to the codec, in
 *             order, once each; the rest moved to the buffer start
 *             (C15.out.consumed_once); everything produced was forwarded
 *             (C15.out.forward_all)
 *             finish == false: k == inbuf_used      (C15.out.all_consumed)
 *             finish == true : the codec reported END, no compressed stream
 *                              is left open         (C15.out.trailer)
 * Ghost: g_flushed = buffered bytes handed to the codec so far; g_aw/g_awat =
 * one arbitrary position of the appended byte stream and where it lives in
 * inbuf; g_awflushed = how often it was handed to the codec.
 */
#ifndef C15_OSTREAM_CONTRACTS_H
#define C15_OSTREAM_CONTRACTS_H

uint64_t g_flushed;
bool g_flush_err;
int g_flush_errcode;
unsigned g_flush_calls;
bool g_flush_finish_seen;
uint64_t g_aw;
size_t g_awat;
unsigned g_awflushed;
bool g_open;      /* the codec holds an unfinished compressed stream */

static void c15_flush_pre(ostream_xfrm_t *xfrm, bool finish);

int c15_flush_inbuf_contract(ostream_xfrm_t *xfrm, bool finish)
{
	size_t used = xfrm->inbuf_used, k;

	c15_flush_pre(xfrm, finish);
	VERIF_ASSERT(!g_flush_err, "C15.out.stops_on_error");
	if (g_flush_calls < 3)
		g_flush_calls++;
	if (finish)
		g_flush_finish_seen = true;
	if (verif_nd_bool("flush_inbuf.fails")) {
		g_flush_errcode = verif_nd_int("flush_inbuf.err");
		VERIF_ASSUME(g_flush_errcode < 0);
		g_flush_err = true;
		if (verif_nd_bool("flush_inbuf.partly"))
			g_open = true;
		return g_flush_errcode;
	}
	k = verif_nd_size("flush_inbuf.consumed");
	VERIF_ASSUME(k <= used && (finish || k == used));
	if (g_awat != SIZE_MAX) {
		if (g_awat < k) {
			g_awflushed++;
			g_awat = SIZE_MAX;
		} else {
			g_awat -= k;
		}
	}
	g_flushed += k;
	xfrm->inbuf_used = used - k;
	g_open = finish ? false : (k > 0 || g_open);
	return 0;
}
#endif
