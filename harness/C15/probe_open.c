/* C15: tar_open_stream (lib/tar/src/iterator.c) - routing of the input
 * stream: loop-free once tar_probe and xfrm_compressor_id_from_magic are
 * replaced by their contracts (proved in probe_tar.c / probe_magic.c - here
 * they return any verdict and record it).
 *
 *  C15.probe.peek        the stream is only peeked at (get_buffered_data with
 *                        want = one tar record, no advance): nothing is consumed
 *  C15.probe.route       probe says ustar, or no magic matches, or the peek
 *                        fails/hits EOF ==> the iterator reads the stream
 *                        itself, no decompressor is created;
 *                        otherwise the decompressor for exactly the detected
 *                        id is created and wrapped around exactly this stream
 *  C15.probe.fail        NULL <=> an allocation / decompressor / wrapper
 *                        creation failed; the iterator is then released
 */
#include <stdlib.h>
#include "verif.h"
#include "sqfs/io.h"
#include "xfrm/stream.h"

sqfs_istream_t g_src;
xfrm_stream_t g_codec_obj;
sqfs_istream_t g_wrapped_obj;
const sqfs_u8 *g_view;
size_t g_view_size;
int g_get_ret;
unsigned g_gets, g_advances, g_probes, g_magics, g_mk_codec, g_mk_wrap;
int g_probe_ret, g_magic_ret, g_codec_id;
bool g_codec_null, g_wrap_null;
unsigned g_codec_drops;

#include "lib/tar/src/iterator.c"

static int c15_src_get(sqfs_istream_t *strm, const sqfs_u8 **out,
		       size_t *size, size_t want)
{
	VERIF_ASSERT(strm == &g_src && want == sizeof(tar_header_t) &&
		     g_gets == 0, "C15.probe.peek");
	g_gets++;
	g_get_ret = verif_nd_int("get.ret");
	if (g_get_ret != 0)
		return g_get_ret;
	g_view_size = verif_nd_size("get.size");
	VERIF_ASSUME(g_view_size >= 1 && g_view_size <= 4096);
	g_view = malloc(g_view_size);
	VERIF_ASSUME(g_view != NULL);
	*out = g_view;
	*size = g_view_size;
	return 0;
}

static void c15_src_advance(sqfs_istream_t *strm, size_t count)
{
	(void)strm; (void)count;
	g_advances++;
}

static const char *c15_src_filename(sqfs_istream_t *strm)
{
	(void)strm;
	return "in";
}

/* contract of tar_probe (probe_tar.c): 0 or 1, reads only the view */
int c15_tar_probe_contract(const sqfs_u8 *data, size_t size)
{
	VERIF_ASSERT(data == g_view && size == g_view_size && g_get_ret == 0 &&
		     g_probes == 0, "C15.probe.route");
	g_probes++;
	g_probe_ret = verif_nd_bool("probe.ustar") ? 1 : 0;
	return g_probe_ret;
}

/* contract of xfrm_compressor_id_from_magic (probe_magic.c): -1 or an id */
int xfrm_compressor_id_from_magic(const void *data, size_t count)
{
	VERIF_ASSERT(data == g_view && count == g_view_size && g_probes == 1 &&
		     g_probe_ret == 0 && g_magics == 0, "C15.probe.route");
	g_magics++;
	g_magic_ret = verif_nd_int("magic.id");
	VERIF_ASSUME(g_magic_ret == -1 || (g_magic_ret >= XFRM_COMPRESSOR_MIN &&
					   g_magic_ret <= XFRM_COMPRESSOR_MAX));
	return g_magic_ret;
}

/* releases the strings of a decoded header (lib/tar/src/cleanup.c); the
 * freshly calloc'ed iterator holds none */
void clear_header(tar_header_decoded_t *hdr)
{
	VERIF_ASSERT(hdr->name == NULL && hdr->link_target == NULL &&
		     hdr->sparse == NULL && hdr->xattr == NULL, "C15.probe.fail");
}

static void codec_destroy(sqfs_object_t *obj)
{
	VERIF_ASSERT(obj == (sqfs_object_t *)&g_codec_obj, "C15.probe.fail");
	g_codec_drops++;
}

xfrm_stream_t *decompressor_stream_create(int id)
{
	VERIF_ASSERT(g_magics == 1 && id == g_magic_ret && id > 0 &&
		     g_mk_codec == 0, "C15.probe.route");
	g_mk_codec++;
	g_codec_id = id;
	g_codec_null = verif_nd_bool("codec.null");
	if (g_codec_null)
		return NULL;
	g_codec_obj.base.refcount = 1;
	g_codec_obj.base.destroy = codec_destroy;
	return &g_codec_obj;
}

sqfs_istream_t *istream_xfrm_create(sqfs_istream_t *strm, xfrm_stream_t *xfrm)
{
	VERIF_ASSERT(strm == &g_src && xfrm == &g_codec_obj && g_mk_codec == 1 &&
		     !g_codec_null && g_mk_wrap == 0, "C15.probe.route");
	g_mk_wrap++;
	g_wrap_null = verif_nd_bool("wrap.null");
	if (g_wrap_null)
		return NULL;
	g_wrapped_obj.base.refcount = 1;
	return &g_wrapped_obj;
}

void harness(void)
{
	sqfs_dir_iterator_t *it;
	tar_iterator_t *tar;
	bool plain;

	g_src.base.refcount = 1;
	g_src.get_buffered_data = c15_src_get;
	g_src.advance_buffer = c15_src_advance;
	g_src.get_filename = c15_src_filename;
	g_gets = g_advances = g_probes = g_magics = g_mk_codec = g_mk_wrap = 0;
	g_get_ret = 0;
	g_probe_ret = 0;
	g_magic_ret = -1;
	g_codec_id = 0;
	g_codec_null = g_wrap_null = false;
	g_codec_drops = 0;
	g_view = NULL;
	g_view_size = 0;

	it = tar_open_stream(&g_src, NULL);
	tar = (tar_iterator_t *)it;

	VERIF_ASSERT(g_advances == 0 && g_gets <= 1, "C15.probe.peek");
	plain = g_gets == 1 &&
		(g_get_ret != 0 || g_probe_ret == 1 || g_magic_ret <= 0);
	if (it != NULL) {
		VERIF_ASSERT(g_gets == 1, "C15.probe.peek");
		if (plain)
			VERIF_ASSERT(tar->stream == &g_src && g_mk_codec == 0 &&
				     g_mk_wrap == 0 && g_src.base.refcount == 2,
				     "C15.probe.route");
		else
			VERIF_ASSERT(tar->stream == &g_wrapped_obj &&
				     g_mk_codec == 1 && g_mk_wrap == 1 &&
				     g_codec_id == g_magic_ret,
				     "C15.probe.route");
	} else {
		VERIF_ASSERT(g_gets == 0 || (!plain && (g_codec_null || g_wrap_null)),
			     "C15.probe.fail");
		if (g_wrap_null)
			VERIF_ASSERT(g_codec_drops == 1, "C15.probe.fail");
	}

	VERIF_COVER(it != NULL && plain && g_probe_ret == 1);
	VERIF_COVER(it != NULL && plain && g_magics == 1 && g_magic_ret == -1);
	VERIF_COVER(it != NULL && plain && g_get_ret > 0);
	VERIF_COVER(it != NULL && !plain && g_codec_id == XFRM_COMPRESSOR_ZSTD);
	VERIF_COVER(it == NULL && g_gets == 0);
	VERIF_COVER(it == NULL && g_codec_null);
	VERIF_COVER(it == NULL && g_wrap_null);
}
