PROPERTY = "C15"
LEVEL = "proof"
FUNCTIONS = ["precache (xfrm/istream.c)"]
TRUSTED = []
ASSUMPTIONS = []

_FP_IN = {"get_buffered_data": "c15_in_get", "advance_buffer": "c15_in_advance",
          "get_filename": "c15_in_filename", "process_data": "c15_process_data"}


def _h(name, loops=None, **kw):
    d = dict(name=name, file=name + ".c", label="proved", solver="cadical",
             timeout=300)
    if loops:
        d["loops"] = loops
    d.update(kw)
    return d


HARNESSES = [
    # for (;;) cannot carry a loop contract in cbmc 6.11 -> unwound, bounded
    _h("in_precache", fp=_FP_IN, timeout=300, label="bounded(codec calls per precache <= 3)",
       cases=[dict(id="calls3", defines={"CALLS": 3}, unwind=4, tier="quick"),
              dict(id="calls5", defines={"CALLS": 5}, unwind=6, tier="thorough",
                   label="bounded(codec calls per precache <= 5)")]),
]
