PROPERTY = "C15"
LEVEL = "proof"
FUNCTIONS = [
    "precache, xfrm_get_buffered_data (bounded), xfrm_advance_buffer",   # xfrm/istream.c
    "flush_inbuf, xfrm_append, xfrm_flush",                              # xfrm/ostream.c
    "process_data of gzip.c / xz.c / zstd.c / bzip2.c (bounded)",
    "xfrm_compressor_id_from_magic",                                     # xfrm/compress.c
    "tar_probe, tar_open_stream, strm_get_buffered_data, strm_advance_buffer, drop_parent",  # tar/iterator.c
]
TRUSTED = [
    "codec libraries (zlib inflate/deflate/*Reset, liblzma lzma_code/lzma_stream_*coder/lzma_end, libzstd "
    "ZSTD_compressStream2/ZSTD_decompressStream/ZSTD_isError, libbz2 BZ2_bz(De)compress*): documented interface "
    "only - consumed <= avail_in, produced <= avail_out, cursors advanced, documented return codes, failure "
    "codes possible at every call, 'go on' implies progress where the library documents it "
    "(adapter_gzip.c, adapter_xz.c, adapter_zstd.c, adapter_bzip2.c)",
    "xfrm_stream_t.process_data as seen by the wrappers = contract c15_env.h (its clauses are the adapter "
    "obligations C15.adapter.*; a compressor ends a stream only when flushing and within finitely many calls)",
    "wrapped sqfs_istream_t = the contract proved for the file istream in C12 (any view length >= 1, < 4 GiB); "
    "wrapped sqfs_ostream_t.append/flush: 0 or a negative error",
    "memmove/memcpy/memset on the 256 KiB buffers: checking placement stubs; 64-bit byte counters do not wrap",
]
ASSUMPTIONS = [
    "NOT decided: that the codecs invert each other, member concatenation inside the libraries, compression "
    "levels, what reference decompressors accept - only the bookkeeping around the library calls is verified",
    "xfrm/istream.c precache/xfrm_get_buffered_data: the refill loop is `for (;;)`, cbmc 6.11 silently drops loop "
    "contracts on guard-less loops, so these two harnesses are bounded (all sequences of <= 3/5 codec calls per "
    "precache); flush_inbuf, xfrm_append (loop contracts) and xfrm_flush/xfrm_advance_buffer (loop-free) are unbounded",
    "codec adapters: bounded (all sequences of <= 3/5 library calls per process_data) so that findings fail a "
    "named obligation with a replayable input",
    "contents are tracked by placement of one arbitrary stream position per byte stream; payload never materialised",
    "xfrm_flush requires the object invariant 'buffer empty ==> no compressed stream open' "
    "(kept by xfrm_append: C15.out.inv; established by ostream_xfrm_create)",
    "tar_open_stream is verified against the contracts of tar_probe and xfrm_compressor_id_from_magic, each proved "
    "for every buffer up to 4 KiB; sqfs2tar/tar2sqfs main() glue is not covered",
]
EXPLANATION = ("wrapper obligations (feed once / deliver once / flush at EOF / END needed for EOF / trailer / conserve) "
               "against an abstract codec contract that may consume and produce any amounts and return any status at "
               "every call; the four adapters against assumed library contracts; stream routing against the format "
               "specifications")

import os as _os

_REPO = _os.environ.get("VERIF_REPO", "/repo")


def _has(relpath, word):
    try:
        return word in open(_os.path.join(_REPO, relpath)).read()
    except OSError:
        return False


# struct fields that exist only once the proposed fixes are applied; the
# harnesses then start from an arbitrary value of them (representation
# invariant), otherwise from the state of a freshly created object
_FEATURES = {}
if _has("lib/xfrm/src/istream.c", "in_stream"):
    _FEATURES["C15_HAVE_IN_STREAM"] = 1
if _has("lib/xfrm/src/zstd.c", "frame_done"):
    _FEATURES["C15_HAVE_FRAME_DONE"] = 1

_FP_IN = {"get_buffered_data": "c15_in_get", "advance_buffer": "c15_in_advance",
          "get_filename": "c15_in_filename", "process_data": "c15_process_data"}


_FP_OUT = {"process_data": "c15_process_data", "append": "c15_out_append",
           "flush": "c15_out_flush", "get_filename": "c15_out_filename"}


# flush_inbuf replaced by its contract (proved by out_flush_inbuf), body removed
_REPL_FLUSH_INBUF = ["--replace-calls", "flush_inbuf:c15_flush_inbuf_contract",
                     "--remove-function-body", "flush_inbuf"]


def _h(name, loops=None, **kw):
    d = dict(name=name, file=name + ".c", label="proved", solver="cadical",
             timeout=900, defines=dict(_FEATURES))
    if loops:
        d["loops"] = loops
    d.update(kw)
    return d


def _calls(quick, thorough):
    return [dict(id="calls%d" % quick, defines={"CALLS": quick}, unwind=quick + 1,
                 tier="quick"),
            dict(id="calls%d" % thorough, defines={"CALLS": thorough},
                 unwind=thorough + 1, tier="thorough",
                 label="bounded(codec calls per precache <= %d)" % thorough)]


def _libcalls(quick, thorough):
    # the adapter's own loop runs at most LIBCALLS+1 times (the library stub
    # stops after LIBCALLS calls); any OTHER loop a change may add around the
    # library call (error tables etc.) gets a generous bound, so that it cannot
    # cut the paths to the named obligations short
    def case(n, tier, **kw):
        return dict(id="lib%d" % n, defines={"LIBCALLS": n}, unwind=24,
                    unwindset=["process_data.0:%d" % (n + 1)], tier=tier, **kw)
    return [case(quick, "quick"),
            case(thorough, "thorough",
                 label="bounded(library calls per process_data <= %d)" % thorough)]


HARNESSES = [
    # xfrm/istream.c: the refill loop is `for (;;)`, which cannot carry a loop
    # contract in cbmc 6.11 -> unwound, bounded number of codec calls
    _h("in_precache", fp=_FP_IN, label="bounded(codec calls per precache <= 3)",
       cases=_calls(3, 5)),
    _h("in_get", fp=_FP_IN, label="bounded(codec calls per precache <= 3)",
       cases=_calls(3, 5)),
    _h("in_advance", fp=_FP_IN),
    _h("out_flush_inbuf", ["flush_inbuf"], fp=_FP_OUT),
    _h("out_append", ["xfrm_append"],
       fp={"flush": "c15_out_flush", "get_filename": "c15_out_filename"},
       pre_instrument_flags=_REPL_FLUSH_INBUF),
    _h("out_flush", fp={"flush": "c15_out_flush", "get_filename": "c15_out_filename"},
       pre_instrument_flags=_REPL_FLUSH_INBUF),
    # loops bounded by constants of the code/format (4 table rows, 6 magic
    # bytes, 512-byte record), unwound completely
    _h("probe_magic", unwind=8),
    _h("probe_tar", unwind=514, timeout=600),
    _h("probe_open", malloc_fail=True,
       fp={"get_buffered_data": "c15_src_get", "advance_buffer": "c15_src_advance",
           "get_filename": "c15_src_filename"},
       pre_instrument_flags=["--replace-calls", "tar_probe:c15_tar_probe_contract"]),
    # per-file stream of the tar reader over the (decompressing) archive stream
    _h("tar_strm", label="bounded(sparse map entries <= 2)", unwind=4,
       fp={"get_buffered_data": "c15_src_get", "advance_buffer": "c15_src_advance",
           "destroy": "it_destroy", "*": None},
       cases=[dict(id="nsp%d" % n, defines={"NSP": n}, tier="quick") for n in (0, 1)] +
             [dict(id="nsp2", defines={"NSP": 2}, tier="thorough")]),
    _h("adapter_gzip", label="bounded(library calls per process_data <= 3)",
       cases=_libcalls(3, 5)),
    _h("adapter_xz", label="bounded(library calls per process_data <= 3)",
       cases=_libcalls(3, 5)),
    _h("adapter_bzip2", label="bounded(library calls per process_data <= 3)",
       cases=_libcalls(3, 5)),
    _h("adapter_zstd", label="bounded(library calls per process_data <= 3)",
       cases=_libcalls(3, 5)),
]
