PROPERTY = "C15"
LEVEL = "proof"
FUNCTIONS = ["precache (xfrm/istream.c)"]
TRUSTED = []
ASSUMPTIONS = []

_FP_IN = {"get_buffered_data": "c15_in_get", "advance_buffer": "c15_in_advance",
          "get_filename": "c15_in_filename", "process_data": "c15_process_data"}


_FP_OUT = {"process_data": "c15_process_data", "append": "c15_out_append",
           "flush": "c15_out_flush", "get_filename": "c15_out_filename"}


def _h(name, loops=None, **kw):
    d = dict(name=name, file=name + ".c", label="proved", solver="cadical",
             timeout=300)
    if loops:
        d["loops"] = loops
    d.update(kw)
    return d


def _calls(quick, thorough):
    return [dict(id="calls%d" % quick, defines={"CALLS": quick}, unwind=quick + 1,
                 tier="quick"),
            dict(id="calls%d" % thorough, defines={"CALLS": thorough},
                 unwind=thorough + 1, tier="thorough",
                 label="bounded(codec calls per precache <= %d)" % thorough)]


def _libcalls(quick, thorough):
    return [dict(id="lib%d" % quick, defines={"LIBCALLS": quick}, unwind=quick + 1,
                 tier="quick"),
            dict(id="lib%d" % thorough, defines={"LIBCALLS": thorough},
                 unwind=thorough + 1, tier="thorough",
                 label="bounded(library calls per process_data <= %d)" % thorough)]


HARNESSES = [
    # xfrm/istream.c: the refill loop is `for (;;)`, which cannot carry a loop
    # contract in cbmc 6.11 -> unwound, bounded number of codec calls
    _h("in_precache", fp=_FP_IN, label="bounded(codec calls per precache <= 3)",
       cases=_calls(3, 5)),
    _h("in_get", fp=_FP_IN, label="bounded(codec calls per precache <= 3)",
       cases=_calls(3, 5)),
    _h("in_advance", fp=_FP_IN),
    _h("out_flush_inbuf", ["flush_inbuf"], fp=_FP_OUT),
    _h("adapter_gzip", label="bounded(library calls per process_data <= 3)",
       cases=_libcalls(3, 5)),
]
