/* C15: precache (lib/xfrm/src/istream.c) - the decompressing wrapper feeds
 * every source byte to the codec exactly once, in order, and delivers every
 * byte the codec produces exactly once, in order, whatever views the source
 * shows and however little the codec consumes/produces per call.
 * BOUNDED: the refill loop is `for (;;)`, and cbmc 6.11 silently drops a loop
 * contract on a loop without a guard (checked on a 3-line example), so the
 * loop is unwound: every sequence of up to CALLS codec calls per precache,
 * each with arbitrary view size / consumed / produced / status. The real
 * 256 KiB buffer is never written by the stubs.
 *
 * Entry state: offset <= used <= BUFSZ, anything else arbitrary.
 *  C15.in.codec_args     each codec call gets (view, view size, buffer+used,
 *                        BUFSZ-used, in_off 0, out_off used)
 *  C15.in.feed_once      the codec's input position equals the source
 *                        position at every call and the source is advanced by
 *                        exactly what the codec consumed (at exit: consumed
 *                        from source == consumed by codec)
 *  C15.in.flush_at_eof   FLUSH_FULL iff the source reported EOF
 *  C15.in.deliver_once   ret == 0: offset' = 0, used' = old unread + produced
 *                        <= BUFSZ, output byte k of the codec lives at
 *                        buffer[k] (old unread bytes first); compaction
 *                        memmove exactly when 0 < offset < used
 *  C15.in.stop_reason    ret == 0 ==> buffer full, codec BUFFER_FULL, or the
 *                        source is at EOF and was flushed
 *  C15.in.fail           a source error (its code) or codec error
 *                        (SQFS_ERROR_COMPRESSOR) is reported; the only other
 *                        permitted failure: the source is at EOF, the codec
 *                        is in mid-stream and, flushed, delivered nothing more
 */
#ifndef CALLS
#define CALLS 3
#endif
#define C15_MAX_CALLS CALLS
#include "C15/c15_env.h"

size_t g_off0, g_used0;
uint64_t g_keep;
unsigned g_moves;

#include "lib/xfrm/src/istream.c"

static istream_xfrm_t g_x;

static void c15_codec_pre(const void *in, sqfs_u32 in_size, void *out,
			  sqfs_u32 out_size, sqfs_u32 in_read,
			  sqfs_u32 out_written, int mode)
{
	VERIF_ASSERT((const sqfs_u8 *)in == g_view && in_size == g_avail &&
		     (sqfs_u8 *)out == g_x.uncompressed + g_x.buffer_used &&
		     out_size == BUFSZ - g_x.buffer_used && in_read == 0 &&
		     out_written == g_x.buffer_used && g_x.buffer_used == g_opos,
		     "C15.in.codec_args");
	VERIF_ASSERT(g_fed == g_cons, "C15.in.feed_once");
	VERIF_ASSERT(mode == (g_eofseen ? XFRM_STREAM_FLUSH_FULL
					: XFRM_STREAM_FLUSH_NONE),
		     "C15.in.flush_at_eof");
}

void *memmove(void *dst, const void *src, size_t n)
{
	size_t di, si;

	VERIF_ASSERT(g_moves == 0 && g_codec_calls == 0 && g_off0 > 0 &&
		     g_off0 < g_used0 && (sqfs_u8 *)dst == g_x.uncompressed &&
		     (const sqfs_u8 *)src == g_x.uncompressed + g_off0 &&
		     n == g_used0 - g_off0, "C15.in.compact");
	VERIF_ASSERT(VERIF_R_OK(src, n) && VERIF_W_OK(dst, n),
		     "C15.in.memmove_bounds");
	g_moves++;
	di = (size_t)((sqfs_u8 *)dst - g_obase);
	si = (size_t)((const sqfs_u8 *)src - g_obase);
	if (g_owat != C15_NOWHERE) {
		if (g_owat >= si && g_owat - si < n)
			g_owat = di + (g_owat - si);
		else
			VERIF_ASSERT(!(g_owat >= di && g_owat - di < n),
				     "C15.codec.no_clobber");
	}
	return dst;
}

void harness(void)
{
	int ret;

	c15_in_init();
	c15_codec_init(g_x.uncompressed);
	g_x.wrapped = &g_in_obj;
	g_x.xfrm = &g_codec_obj;
	g_x.buffer_offset = g_off0 = verif_nd_size("offset");
	g_x.buffer_used = g_used0 = verif_nd_size("used");
	VERIF_ASSUME(g_off0 <= g_used0 && g_used0 <= BUFSZ);
	g_keep = g_used0 - g_off0;
	g_opos = g_keep;   /* the unread bytes are the first bytes of the output */
	g_owat = g_ow < g_keep ? g_off0 + (size_t)g_ow : C15_NOWHERE;
	g_moves = 0;
#ifdef C15_HAVE_IN_STREAM
	/* representation invariant of the fixed wrapper: its belief about the
	 * decoder being in mid-stream is the truth */
	g_x.in_stream = g_open;
#endif
	VERIF_COVER(g_off0 > 0 && g_keep > 4);

	ret = precache((sqfs_istream_t *)&g_x);

	/* a failure is a source error, a codec error, or - the only other
	 * permitted reason - a compressed stream cut short by the end of input */
	if (g_in_err || g_codec_err)
		VERIF_ASSERT(ret == (g_in_err ? g_in_errcode
					      : SQFS_ERROR_COMPRESSOR),
			     "C15.in.fail");
	else if (ret != 0)
		VERIF_ASSERT(ret < 0 && g_eofseen && g_open && g_last_p == 0 &&
			     g_last_mode == XFRM_STREAM_FLUSH_FULL, "C15.in.fail");
#ifdef C15_HAVE_IN_STREAM
	if (ret == 0)
		VERIF_ASSERT(g_x.in_stream == g_open, "C15.in.tracks_stream_state");
#endif
	VERIF_ASSERT(g_x.buffer_offset == 0 && g_x.buffer_used <= BUFSZ,
		     "C15.in.deliver_once");
	if (ret == 0) {
		VERIF_ASSERT(g_x.buffer_used == g_opos, "C15.in.deliver_once");
		VERIF_ASSERT(g_owat == (g_ow < g_opos ? (size_t)g_ow : C15_NOWHERE),
			     "C15.in.deliver_once");
		VERIF_ASSERT(g_cons == g_fed && g_avail == 0, "C15.in.feed_once");
		VERIF_ASSERT(g_x.buffer_used == BUFSZ ||
			     g_last == XFRM_STREAM_BUFFER_FULL ||
			     (g_eofseen && g_last_mode == XFRM_STREAM_FLUSH_FULL),
			     "C15.in.stop_reason");
		if (g_off0 > 0 && g_off0 < g_used0)
			VERIF_ASSERT(g_moves == 1, "C15.in.compact");
	}

	VERIF_COVER(ret == 0 && g_x.buffer_used == BUFSZ && g_codec_calls >= 3 && g_moves == 1);
	VERIF_COVER(ret == 0 && g_eofseen && g_x.buffer_used < BUFSZ && g_codec_calls >= 2);
	VERIF_COVER(ret == 0 && g_last == XFRM_STREAM_BUFFER_FULL && !g_eofseen);
	VERIF_COVER(ret == 0 && g_end_seen && g_codec_calls >= 3);
	VERIF_COVER(ret == 0 && g_ow >= g_keep && g_ow < g_opos);
	VERIF_COVER(ret == 0 && g_ow < g_keep && g_off0 > 0);
	VERIF_COVER(ret != 0 && g_codec_err && g_fed > 0);
	VERIF_COVER(ret != 0 && g_in_err && g_fed > 0);
}
