# C15 (lead, round 2): "sqfs2tar --compressor X emits a stream the reference
# decompressor expands to exactly the uncompressed bytes" needs the final
# flush of the compressing ostream to be checked: its failure (the last
# 256 KiB and the stream trailer) must fail the run. The obligation is
# C13.main.status / C13.success_is_faultfree of harness/C13/main_sqfs2tar.c
# (real main(), callees as contracts); run here as well (seed C15-5).
import os as _os, sys as _sys
_sys.path.insert(0, _os.path.join(_os.path.dirname(_os.path.abspath(__file__)), "..", "..", "tools"))
from borrow import borrow as _borrow

HARNESSES = _borrow(__file__, "C13", ["main_sqfs2tar", "main_tar2sqfs"])
FUNCTIONS = ["sqfs2tar main(), tar2sqfs main() (flush / stage results; via harness/C13)"]
TRUSTED = []
ASSUMPTIONS = []
