/* C15: strm_get_buffered_data / strm_advance_buffer / drop_parent
 * (lib/tar/src/iterator.c) - the per-file stream of the tar reader on top of
 * the (possibly decompressing) archive stream. The archive stream is a
 * contract that may, at any call, report EOF (> 0), fail with any negative
 * code, or show a window of any size. Sparse map of NSP entries (shape
 * concrete, all values symbolic). Loops: the two list walks of
 * is_sparse_region (<= NSP iterations, unwound).
 *
 *  C15.tar.eof_in_data_is_corruption
 *        the archive stream reports EOF while bytes of the file's record are
 *        still owed ==> the file stream fails with SQFS_ERROR_CORRUPTED -
 *        never 1 (clean end of file), never success - and the iterator's
 *        state becomes that error (so the archive as a whole is rejected:
 *        "truncated input is never a shorter archive")
 *  C15.tar.io_error_unchanged   a negative code of the archive stream is
 *        returned unchanged and recorded in the iterator
 *  C15.tar.eof_only_at_file_end ret == 1 ==> the file position is at/after
 *        the file size; the archive stream was not even asked
 *  C15.tar.window    ret == 0 ==> data comes from the archive stream's window
 *        (never more than it offered, never more than `want`), holes from
 *        the zero buffer
 *  C15.tar.advance   advance(n) moves the position by n and passes exactly n
 *        on to the archive stream iff the window was data
 *  C15.tar.sticky    after a failure / EOF the parent is released and
 *        unlocked and the same result is returned again
 */
#include <stdlib.h>
#include "verif.h"
#include "lib/tar/src/iterator.c"

#ifndef NSP
#define NSP 1
#endif

static sqfs_istream_t g_src;
static sqfs_u8 g_srcwin[1];
static size_t g_src_size, g_src_want, g_adv_count;
static int g_src_calls, g_src_ret, g_adv_calls;

static int c15_src_get(sqfs_istream_t *strm, const sqfs_u8 **out,
		       size_t *size, size_t want)
{
	VERIF_ASSERT(strm == &g_src && want >= 1 && g_src_calls == 0,
		     "C15.tar.src_args");
	++g_src_calls;
	g_src_want = want;
	g_src_ret = verif_nd_int("src.ret");
	if (g_src_ret != 0)
		return g_src_ret;
	g_src_size = verif_nd_size("src.size");
	VERIF_ASSUME(g_src_size >= 1);
	*out = g_srcwin;
	*size = g_src_size;
	return 0;
}

static void c15_src_advance(sqfs_istream_t *strm, size_t count)
{
	VERIF_ASSERT(strm == &g_src, "C15.tar.src_args");
	++g_adv_calls;
	g_adv_count = count;
}

/* lib/tar/src/cleanup.c; only reachable if the iterator's last reference
 * were dropped - the harness holds one */
void clear_header(tar_header_decoded_t *hdr) { (void)hdr; }

void harness(void)
{
	static sparse_map_t map[NSP + 1];
	static tar_iterator_t par;
	static tar_istream_t strm;
	const sqfs_u8 *out = NULL;
	size_t size = 0, want = verif_nd_size("want"), n;
	sqfs_u64 off0, rs0, fsz;
	int ret, ret2, i;

	g_src.get_buffered_data = c15_src_get;
	g_src.advance_buffer = c15_src_advance;
	g_src_calls = g_adv_calls = 0;
	g_src_ret = 0;

	for (i = 0; i < NSP; ++i) {
		map[i].offset = verif_nd_u64("map.offset");
		map[i].count = verif_nd_u64("map.count");
		map[i].next = (i + 1 < NSP) ? &map[i + 1] : NULL;
	}
	memset(&par, 0, sizeof(par));
	((sqfs_object_t *)&par)->refcount = 2;
	((sqfs_object_t *)&par)->destroy = it_destroy;
	par.stream = &g_src;
	par.locked = true;
	par.state = 0;
	par.current.sparse = NSP > 0 ? &map[0] : NULL;
	par.file_size = fsz = verif_nd_u64("file_size");
	par.offset = off0 = verif_nd_u64("offset");
	par.record_size = rs0 = verif_nd_u64("record_size");
	memset(&strm, 0, sizeof(strm));
	strm.parent = &par;
	VERIF_ASSUME(want >= 1);
	VERIF_COVER(off0 < fsz);

	ret = strm_get_buffered_data((sqfs_istream_t *)&strm, &out, &size, want);

	if (g_src_calls == 1 && g_src_ret > 0) {
		/* asked for record bytes, the archive had none left */
		VERIF_ASSERT(ret == SQFS_ERROR_CORRUPTED &&
			     par.state == SQFS_ERROR_CORRUPTED &&
			     strm.state == SQFS_ERROR_CORRUPTED,
			     "C15.tar.eof_in_data_is_corruption");
	}
	if (g_src_calls == 1 && g_src_ret < 0)
		VERIF_ASSERT(ret == g_src_ret && par.state == g_src_ret &&
			     strm.state == g_src_ret, "C15.tar.io_error_unchanged");
	if (ret == 1)
		VERIF_ASSERT(g_src_calls == 0 && par.state == 0 && off0 >= fsz,
			     "C15.tar.eof_only_at_file_end");
	if (g_src_calls == 1)
		VERIF_ASSERT(off0 < fsz && !par.last_sparse && g_src_want <= want,
			     "C15.tar.src_args");

	if (ret == 0) {
		VERIF_ASSERT(strm.parent == &par && size <= want && off0 < fsz,
			     "C15.tar.window");
		if (par.last_sparse)
			VERIF_ASSERT(out == strm.buffer && size >= 1 &&
				     size <= sizeof(strm.buffer) && g_src_calls == 0,
				     "C15.tar.window");
		else
			VERIF_ASSERT(out == g_srcwin && size <= g_src_size &&
				     g_src_calls == 1 && g_src_ret == 0,
				     "C15.tar.window");
		n = verif_nd_size("consume");
		VERIF_ASSUME(n <= size);
		strm_advance_buffer((sqfs_istream_t *)&strm, n);
		VERIF_ASSERT(par.offset == off0 + n, "C15.tar.advance");
		if (par.last_sparse)
			VERIF_ASSERT(g_adv_calls == 0 && par.record_size == rs0,
				     "C15.tar.advance");
		else
			VERIF_ASSERT(g_adv_calls == 1 && g_adv_count == n &&
				     par.record_size == rs0 - n, "C15.tar.advance");
		VERIF_COVER(!par.last_sparse && size == want && want > 5000);
#if NSP > 0
		VERIF_COVER(par.last_sparse && size == 4096);
#endif
	} else {
		VERIF_ASSERT(strm.parent == NULL && !par.locked &&
			     ((sqfs_object_t *)&par)->refcount == 1 &&
			     strm.state == ret, "C15.tar.sticky");
		ret2 = strm_get_buffered_data((sqfs_istream_t *)&strm, &out,
					      &size, want);
		VERIF_ASSERT(ret2 == ret && g_src_calls <= 1, "C15.tar.sticky");
		VERIF_COVER(ret == 1);
		VERIF_COVER(ret == SQFS_ERROR_CORRUPTED && g_src_ret > 0);
		VERIF_COVER(ret < 0 && ret != SQFS_ERROR_CORRUPTED);
	}
}
