/* C15: xfrm_flush (lib/xfrm/src/ostream.c) - loop-free; flush_inbuf replaced
 * by its contract. The compressed stream is finished (codec driven with
 * FLUSH_FULL until END, everything forwarded) before the wrapped stream is
 * flushed.
 *
 * requires the object invariant: inbuf_used <= BUFSZ and (inbuf_used == 0 ==>
 * no compressed stream is open) - established by ostream_xfrm_create, kept by
 * xfrm_append (C15.out.inv: a non-empty append leaves the buffer non-empty).
 *  C15.out.trailer      ret == 0 ==> no compressed stream is left open, and
 *                       flush_inbuf(finish = true) ran iff data was buffered
 *  C15.out.flush_order  the wrapped stream is flushed once, last, and only
 *                       if finishing succeeded
 *  C15.out.fail         ret != 0 <=> flush_inbuf or the wrapped flush failed
 */
#include <stdlib.h>
#include "verif.h"
#include "sqfs/io.h"
#include "sqfs/error.h"
#include "xfrm/stream.h"

#include "lib/xfrm/src/ostream.c"
#include "C15/c15_ostream_contracts.h"

static ostream_xfrm_t g_x;
sqfs_ostream_t g_out_obj;
unsigned g_wflush;
bool g_wflush_err;
int g_wflush_errcode;
size_t g_used0;

static void c15_flush_pre(ostream_xfrm_t *xfrm, bool finish)
{
	VERIF_ASSERT(xfrm == &g_x && finish && g_flush_calls == 0 &&
		     g_wflush == 0 && xfrm->inbuf_used == g_used0 && g_used0 > 0,
		     "C15.out.trailer");
}

static int c15_out_flush(sqfs_ostream_t *strm)
{
	VERIF_ASSERT(strm == &g_out_obj && g_wflush == 0 && !g_flush_err &&
		     !g_open, "C15.out.flush_order");
	g_wflush++;
	if (verif_nd_bool("flush.fails")) {
		g_wflush_errcode = verif_nd_int("flush.err");
		VERIF_ASSUME(g_wflush_errcode < 0);
		g_wflush_err = true;
		return g_wflush_errcode;
	}
	return 0;
}

static const char *c15_out_filename(sqfs_ostream_t *strm) { (void)strm; return "out"; }

void harness(void)
{
	int ret;

	g_out_obj.flush = c15_out_flush;
	g_x.wrapped = &g_out_obj;
	g_x.inbuf_used = g_used0 = verif_nd_size("inbuf_used");
	g_open = verif_nd_bool("open");
	VERIF_ASSUME(g_used0 <= BUFSZ && (g_used0 > 0 || !g_open));
	g_flushed = 0;
	g_flush_err = false;
	g_flush_errcode = 0;
	g_flush_calls = 0;
	g_flush_finish_seen = false;
	g_aw = verif_nd_u64("aw");
	g_awat = g_aw < g_used0 ? (size_t)g_aw : SIZE_MAX;
	g_awflushed = 0;
	g_wflush = 0;
	g_wflush_err = false;
	g_wflush_errcode = 0;
	VERIF_COVER(g_used0 > 0);

	ret = xfrm_flush((sqfs_ostream_t *)&g_x);

	VERIF_ASSERT((ret != 0) == (g_flush_err || g_wflush_err), "C15.out.fail");
	if (ret != 0)
		VERIF_ASSERT(ret == (g_flush_err ? g_flush_errcode
						 : g_wflush_errcode), "C15.out.fail");
	if (ret == 0) {
		VERIF_ASSERT(!g_open && g_wflush == 1 &&
			     g_flush_calls == (g_used0 > 0 ? 1 : 0),
			     "C15.out.trailer");
	}

	VERIF_COVER(ret == 0 && g_used0 > 0);
	VERIF_COVER(ret == 0 && g_used0 == 0);
	VERIF_COVER(ret != 0 && g_flush_err);
	VERIF_COVER(ret != 0 && g_wflush_err);
}
