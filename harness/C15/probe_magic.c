/* C15: xfrm_compressor_id_from_magic (lib/xfrm/src/compress.c) - full domain:
 * any buffer of any length, compared with the format specifications
 * (gzip 1F 8B 08, xz FD '7zXZ' 00, zstd 28 B5 2F FD, bzip2 'BZh'). The table
 * loop (4 entries) and memcmp (<= 6 bytes) are unwound completely.
 *  C15.probe.magic_iff   id == X <=> the buffer starts with X's magic and is
 *                        at least that long; -1 otherwise; reads only
 *                        data[0..count) (CBMC bounds checks)
 */
#include <stdlib.h>
#include "verif.h"
#include "lib/xfrm/src/compress.c"

void harness(void)
{
	size_t count = verif_nd_size("count"), i;
	unsigned char b[6] = { 0, 0, 0, 0, 0, 0 };
	unsigned char *data;
	int id, spec = -1;

	VERIF_ASSUME(count <= 4096);
	data = malloc(count);
	VERIF_ASSUME(data != NULL);
	for (i = 0; i < 6 && i < count; ++i)
		data[i] = b[i] = verif_nd_u8("data");

	if (count >= 3 && b[0] == 0x1F && b[1] == 0x8B && b[2] == 0x08)
		spec = XFRM_COMPRESSOR_GZIP;
	if (count >= 6 && b[0] == 0xFD && b[1] == '7' && b[2] == 'z' &&
	    b[3] == 'X' && b[4] == 'Z' && b[5] == 0x00)
		spec = XFRM_COMPRESSOR_XZ;
	if (count >= 4 && b[0] == 0x28 && b[1] == 0xB5 && b[2] == 0x2F && b[3] == 0xFD)
		spec = XFRM_COMPRESSOR_ZSTD;
	if (count >= 3 && b[0] == 'B' && b[1] == 'Z' && b[2] == 'h')
		spec = XFRM_COMPRESSOR_BZIP2;

	id = xfrm_compressor_id_from_magic(data, count);

	VERIF_ASSERT(id == spec, "C15.probe.magic_iff");
	VERIF_COVER(id == XFRM_COMPRESSOR_GZIP);
	VERIF_COVER(id == XFRM_COMPRESSOR_XZ);
	VERIF_COVER(id == XFRM_COMPRESSOR_ZSTD);
	VERIF_COVER(id == XFRM_COMPRESSOR_BZIP2);
	VERIF_COVER(id == -1 && count >= 6);
	VERIF_COVER(id == -1 && count == 2 && b[0] == 0x1F && b[1] == 0x8B);
}
