/* C15: process_data of lib/xfrm/src/gzip.c against the zlib contract
 * (see adapter_common.h). zlib codes: Z_OK (progress made), Z_STREAM_END,
 * Z_BUF_ERROR (no progress possible, not fatal); ANY other int value,
 * documented or not, is a failure and may come back at every call;
 * inflateReset/deflateReset: Z_OK or Z_STREAM_ERROR.
 */
#include "C15/adapter_common.h"
#include <zlib.h>
#include "lib/xfrm/src/gzip.c"

static xfrm_stream_gzip_t g_z;
unsigned g_resets;
bool g_reset_failed;

static int lib_step(z_streamp s, int flush, bool compress)
{
	static const int expect[] = { Z_NO_FLUSH, Z_SYNC_FLUSH, Z_FINISH };
	uint32_t c, p;
	int code = verif_nd_int("zlib.code");

	VERIF_ASSERT(s == &g_z.strm, "C15.adapter.lib_args");
	lib_enter(s->next_in, s->avail_in, s->next_out, s->avail_out, compress);
	VERIF_ASSERT(flush == expect[g_mode], "C15.adapter.flush_mode");
	lib_progress(s->avail_in, s->avail_out, &c, &p);
	/* ANY int may come back: Z_OK, Z_STREAM_END and Z_BUF_ERROR have their
	 * documented meaning, every other value - documented failure codes
	 * (Z_NEED_DICT, Z_ERRNO, Z_STREAM_ERROR, Z_DATA_ERROR, Z_MEM_ERROR,
	 * Z_VERSION_ERROR) or not - is a failure */
	if (code == Z_OK)
		VERIF_ASSUME(c > 0 || p > 0);
	/* "no progress possible": there was no input or no room */
	if (code == Z_BUF_ERROR)
		VERIF_ASSUME(c == 0 && p == 0 &&
			     (s->avail_in == 0 || s->avail_out == 0));
	if (code == Z_STREAM_END)
		VERIF_ASSUME(compress ? flush == Z_FINISH : 1);
	s->next_in += c;
	s->avail_in -= c;
	s->next_out += p;
	s->avail_out -= p;
	if (code == Z_STREAM_END)
		g_lib_end = true;
	else if (code != Z_OK && code != Z_BUF_ERROR)
		g_lib_failed = true;
	lib_leave(c, p, code == Z_OK);
	return code;
}

int deflate(z_streamp s, int flush) { return lib_step(s, flush, true); }
int inflate(z_streamp s, int flush) { return lib_step(s, flush, false); }

static int lib_reset(z_streamp s, bool compress)
{
	VERIF_ASSERT(s == &g_z.strm && g_lib_end && compress == g_compress,
		     "C15.adapter.reset_after_end");
	g_resets++;
	if (verif_nd_bool("reset.fails")) {
		g_lib_failed = true;
		g_reset_failed = true;
		return Z_STREAM_ERROR;
	}
	return Z_OK;
}

int deflateReset(z_streamp s) { return lib_reset(s, true); }
int inflateReset(z_streamp s) { return lib_reset(s, false); }

void harness(void)
{
	sqfs_u32 in_size = verif_nd_u32("in_size"), out_size = verif_nd_u32("out_size");
	sqfs_u32 r0 = verif_nd_u32("in_read"), w0 = verif_nd_u32("out_written");
	sqfs_u32 in_read, out_written;
	int mode = verif_nd_int("flush_mode"), ret;
	uint8_t *in, *out;

	VERIF_ASSUME(in_size <= 0x100000 && out_size <= 0x100000);
	VERIF_ASSUME(r0 <= 0x100000 && w0 <= 0x100000); /* offsets within a buffer */
	in = malloc(in_size);
	out = malloc(out_size);
	VERIF_ASSUME(in != NULL && out != NULL);
	g_compress = verif_nd_bool("compress");
	g_z.compress = g_compress;
	g_in0 = in;
	g_out0 = out;
	g_in_size0 = in_size;
	g_out_size0 = out_size;
	g_c = g_p = 0;
	g_lib_calls = 0;
	g_lib_failed = g_lib_end = g_stalled = g_fail_stalled = false;
	g_resets = 0;
	g_reset_failed = false;
	g_mode = (mode < 0 || mode >= XFRM_STREAM_FLUSH_COUNT) ? 0 : mode;
	in_read = r0;
	out_written = w0;
	VERIF_COVER(in_size > 4 && out_size > 4);

	ret = process_data(&g_z.base, in, in_size, out, out_size, &in_read,
			   &out_written, mode);

	ADAPTER_POST(ret, in_read, out_written, r0, w0);
	if (ret == XFRM_STREAM_END)
		VERIF_ASSERT(g_resets == 1, "C15.adapter.reset_after_end");

	VERIF_COVER(ret == XFRM_STREAM_OK && g_lib_calls >= 2 && g_c == in_size);
	VERIF_COVER(ret == XFRM_STREAM_OK && g_p == out_size && g_c < in_size && out_size > 0);
	VERIF_COVER(ret == XFRM_STREAM_END && g_lib_calls >= 2);
	VERIF_COVER(ret == XFRM_STREAM_BUFFER_FULL);
	VERIF_COVER(ret == XFRM_STREAM_ERROR);
	VERIF_COVER(g_mode == 2 && ret == XFRM_STREAM_END);
}
