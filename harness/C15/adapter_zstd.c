/* C15: process_data of lib/xfrm/src/zstd.c against the libzstd streaming
 * contract (see adapter_common.h). ZSTD_compressStream2 / ZSTD_decompressStream
 * advance in.pos <= in.size and out.pos <= out.size and return an error code
 * (ZSTD_isError) or a hint: 0 = "frame completely written (with ZSTD_e_end) /
 * completely decoded and flushed", > 0 = more to do. A non-error call with
 * input and room available makes progress. The library continues with the
 * next frame by itself, so "end" here means: the last library call of this
 * process_data left the codec at a frame boundary.
 */
#define ADAPTER_LIB_CONTINUES_AFTER_END
#include "C15/adapter_common.h"
#include <zstd.h>
#include "lib/xfrm/src/zstd.c"

static xfrm_zstd_t g_z;
static int g_cstrm_obj, g_dstrm_obj; /* opaque handles */

unsigned ZSTD_isError(size_t code) { return code > SIZE_MAX - 119; }

static size_t lib_step(ZSTD_outBuffer *o, ZSTD_inBuffer *i, bool compress,
		       int action)
{
	static const int expect[] = { ZSTD_e_continue, ZSTD_e_flush, ZSTD_e_end };
	uint32_t c, p;
	size_t hint = verif_nd_size("zstd.ret");

	VERIF_ASSERT(i->pos == 0 && o->pos == 0, "C15.adapter.lib_args");
	lib_enter(i->src, i->size, o->dst, o->size, compress);
	if (compress)
		VERIF_ASSERT(action == expect[g_mode], "C15.adapter.flush_mode");
	lib_progress(i->size, o->size, &c, &p);
	if (!ZSTD_isError(hint) && i->size > 0 && o->size > 0)
		VERIF_ASSUME(c > 0 || p > 0);
	/* a finished frame implies all offered input was taken (e_end) */
	if (compress && !ZSTD_isError(hint) && hint == 0 && action == ZSTD_e_end)
		VERIF_ASSUME(c == i->size);
	if (compress && hint == 0)
		VERIF_ASSUME(action != ZSTD_e_continue);
	i->pos = c;
	o->pos = p;
	/* g_lib_end: the last call that did anything left the codec at a frame
	 * boundary (frame completely decoded / written with ZSTD_e_end) */
	if (ZSTD_isError(hint))
		g_lib_failed = true;
	else if (c > 0 || p > 0)
		g_lib_end = hint == 0 && (compress ? action == ZSTD_e_end : 1);
	lib_leave(c, p, !ZSTD_isError(hint) &&
		  !(compress && hint == 0 && action == ZSTD_e_end));
	return hint;
}

size_t ZSTD_compressStream2(ZSTD_CCtx *cctx, ZSTD_outBuffer *o, ZSTD_inBuffer *i,
			    ZSTD_EndDirective op)
{
	VERIF_ASSERT((void *)cctx == (void *)&g_cstrm_obj, "C15.adapter.lib_args");
	return lib_step(o, i, true, (int)op);
}

size_t ZSTD_decompressStream(ZSTD_DStream *d, ZSTD_outBuffer *o, ZSTD_inBuffer *i)
{
	VERIF_ASSERT((void *)d == (void *)&g_dstrm_obj, "C15.adapter.lib_args");
	return lib_step(o, i, false, 0);
}

void harness(void)
{
	sqfs_u32 in_size = verif_nd_u32("in_size"), out_size = verif_nd_u32("out_size");
	sqfs_u32 r0 = verif_nd_u32("in_read"), w0 = verif_nd_u32("out_written");
	sqfs_u32 in_read, out_written;
	int mode = verif_nd_int("flush_mode"), ret;
	uint8_t *in, *out;

	VERIF_ASSUME(in_size <= 0x100000 && out_size <= 0x100000);
	VERIF_ASSUME(r0 <= 0x100000 && w0 <= 0x100000);
	in = malloc(in_size);
	out = malloc(out_size);
	VERIF_ASSUME(in != NULL && out != NULL);
	g_compress = verif_nd_bool("compress");
	g_z.compress = g_compress;
	g_z.cstrm = (ZSTD_CStream *)&g_cstrm_obj;
	g_z.dstrm = (ZSTD_DStream *)&g_dstrm_obj;
	g_in0 = in;
	g_out0 = out;
	g_in_size0 = in_size;
	g_out_size0 = out_size;
	g_c = g_p = 0;
	g_lib_calls = 0;
	g_lib_failed = g_stalled = g_fail_stalled = false;
	/* frame state on entry: arbitrary if the adapter tracks it (field
	 * frame_done, see proposed_fixes), else that of a fresh codec */
#ifdef C15_HAVE_FRAME_DONE
	g_lib_end = verif_nd_bool("frame_done");
	g_z.frame_done = g_lib_end;
#else
	g_lib_end = !g_compress;
#endif
	g_mode = (mode < 0 || mode >= XFRM_STREAM_FLUSH_COUNT) ? 0 : mode;
	in_read = r0;
	out_written = w0;
	VERIF_COVER(in_size > 4 && out_size > 4);

	ret = process_data(&g_z.base, in, in_size, out, out_size, &in_read,
			   &out_written, mode);

	ADAPTER_POST(ret, in_read, out_written, r0, w0);
	/* zstd: END <=> flushing, all input taken, codec at a frame boundary */
	if (!g_lib_failed)
		VERIF_ASSERT((ret == XFRM_STREAM_END) ==
			     (g_mode != 0 && g_c == in_size && g_lib_end),
			     "C15.adapter.end_iff_lib_end");

	VERIF_COVER(ret == XFRM_STREAM_OK && g_lib_calls >= 2 && g_c == in_size);
	VERIF_COVER(ret == XFRM_STREAM_BUFFER_FULL && g_c < in_size);
	VERIF_COVER(ret == XFRM_STREAM_END && g_lib_calls >= 2);
	VERIF_COVER(ret == XFRM_STREAM_ERROR && g_c > 0);
}
