/* C15: xfrm_advance_buffer (lib/xfrm/src/istream.c) - loop-free, full
 * domain. requires count <= unread bytes (what the istream interface
 * demands of its callers; proved at the call sites of the stream API in
 * C12: advance_le_view).
 *  C15.in.advance   offset' = offset + count, used' = used, so output byte
 *                   count+k becomes unread byte k in place; the two assert()s
 *                   of the function hold
 */
#include "C15/c15_env.h"
#include "lib/xfrm/src/istream.c"

static void c15_codec_pre(const void *in, sqfs_u32 in_size, void *out,
			  sqfs_u32 out_size, sqfs_u32 in_read,
			  sqfs_u32 out_written, int mode)
{
	(void)in; (void)in_size; (void)out; (void)out_size; (void)in_read;
	(void)out_written; (void)mode;
}

void harness(void)
{
	static istream_xfrm_t x;
	size_t off0 = verif_nd_size("offset"), used0 = verif_nd_size("used");
	size_t count = verif_nd_size("count");

	VERIF_ASSUME(off0 <= used0 && used0 <= BUFSZ);
	VERIF_ASSUME(count <= used0 - off0);
	x.buffer_offset = off0;
	x.buffer_used = used0;
	VERIF_COVER(count > 0 && count < used0 - off0);

	xfrm_advance_buffer((sqfs_istream_t *)&x, count);

	VERIF_ASSERT(x.buffer_offset == off0 + count && x.buffer_used == used0 &&
		     x.buffer_offset <= x.buffer_used, "C15.in.advance");
	VERIF_COVER(x.buffer_offset == x.buffer_used && count > 0);
}
