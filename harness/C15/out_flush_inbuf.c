/* C15: flush_inbuf (lib/xfrm/src/ostream.c) - the compressing wrapper hands
 * the buffered input to the codec in order, each byte at most once, forwards
 * EVERYTHING the codec produces to the wrapped stream, in order and exactly
 * once, and with finish == true keeps calling the codec with FLUSH_FULL until
 * it reports the end of the compressed stream - however little the codec
 * consumes or produces per call. Loop contract: unbounded number of calls.
 *
 *  C15.out.codec_args    call k: (inbuf+off_in, avail_in-off_in, outbuf,
 *                        BUFSZ, &off_in, &off_out = 0, FULL iff finish)
 *  C15.out.append_args   after each call: append(wrapped, outbuf, produced)
 *  C15.out.forward_all   ret == 0 ==> forwarded == produced; output byte k
 *                        forwarded exactly once, from where the codec put it
 *  C15.out.consumed_once input byte k consumed at most once, from inbuf+k;
 *                        the unconsumed rest is moved to the buffer start:
 *                        inbuf_used' = avail_in - consumed
 *  C15.out.trailer       finish && ret == 0 ==> the last codec status is END
 *  C15.out.all_consumed  !finish && ret == 0 ==> consumed == avail_in
 *  C15.out.fail          ret != 0 <=> codec error (SQFS_ERROR_COMPRESSOR) or
 *                        append error (its code)
 *  termination under the assumed codec contract (finite calls without
 *  consuming input / before END): decreases (input left, fuel).
 */
#define C15_COMPRESSOR
#include "C15/c15_env.h"

sqfs_ostream_t g_out_obj;
uint64_t g_app;         /* codec output bytes forwarded so far */
bool g_out_err;
int g_out_errcode;
unsigned g_owcount;     /* how often output byte g_ow was forwarded */
size_t g_iwat;          /* where input byte g_iw lives in inbuf */
sqfs_u32 g_avail_in;
bool g_finish;
unsigned g_moves;

#include "lib/xfrm/src/ostream.c"

static ostream_xfrm_t g_x;

static void c15_codec_pre(const void *in, sqfs_u32 in_size, void *out,
			  sqfs_u32 out_size, sqfs_u32 in_read,
			  sqfs_u32 out_written, int mode)
{
	VERIF_ASSERT(in_read == g_fed && in_read <= g_avail_in &&
		     (const sqfs_u8 *)in == g_x.inbuf + in_read &&
		     in_size == g_avail_in - in_read &&
		     (sqfs_u8 *)out == g_x.outbuf && out_size == BUFSZ &&
		     out_written == 0 && g_app == g_opos && !g_out_err,
		     "C15.out.codec_args");
	VERIF_ASSERT(mode == (g_finish ? XFRM_STREAM_FLUSH_FULL
				       : XFRM_STREAM_FLUSH_NONE),
		     "C15.out.flush_mode");
}

static int c15_out_append(sqfs_ostream_t *strm, const void *data, size_t size)
{
	VERIF_ASSERT(strm == &g_out_obj && (const sqfs_u8 *)data == g_x.outbuf &&
		     size == g_opos - g_app && size <= BUFSZ && !g_out_err &&
		     !g_codec_err, "C15.out.append_args");
	if (verif_nd_bool("append.fails")) {
		g_out_errcode = verif_nd_int("append.err");
		VERIF_ASSUME(g_out_errcode < 0);
		g_out_err = true;
		return g_out_errcode;
	}
	if (g_ow >= g_app && g_ow - g_app < size) {
		VERIF_ASSERT(g_owat == (size_t)(g_ow - g_app),
			     "C15.out.forward_all");
		g_owcount++;
		g_owat = C15_NOWHERE;
	}
	g_app += size;
	return 0;
}

static int c15_out_flush(sqfs_ostream_t *strm) { (void)strm; return 0; }
static const char *c15_out_filename(sqfs_ostream_t *strm) { (void)strm; return "out"; }

void *memmove(void *dst, const void *src, size_t n)
{
	VERIF_ASSERT(g_moves == 0 && g_fed < g_avail_in &&
		     (sqfs_u8 *)dst == g_x.inbuf &&
		     (const sqfs_u8 *)src == g_x.inbuf + g_fed &&
		     n == g_avail_in - g_fed, "C15.out.compact");
	VERIF_ASSERT(VERIF_R_OK(src, n) && VERIF_W_OK(dst, n),
		     "C15.out.memmove_bounds");
	g_moves++;
	if (g_iwat != C15_NOWHERE) {
		size_t si = (size_t)((const sqfs_u8 *)src - g_x.inbuf);
		if (g_iwat >= si && g_iwat - si < n)
			g_iwat = g_iwat - si;
		else
			g_iwat = C15_NOWHERE; /* overwritten or left behind */
	}
	return dst;
}

void harness(void)
{
	size_t used0 = verif_nd_size("inbuf_used");
	bool finish = verif_nd_bool("finish");
	int ret;

	VERIF_ASSUME(used0 <= BUFSZ);
	c15_codec_init(g_x.outbuf);
	g_out_obj.append = c15_out_append;
	g_x.wrapped = &g_out_obj;
	g_x.xfrm = &g_codec_obj;
	g_x.inbuf_used = used0;
	g_avail_in = (sqfs_u32)used0;
	g_finish = finish;
	g_app = 0;
	g_out_err = false;
	g_out_errcode = 0;
	g_owcount = 0;
	g_moves = 0;
	g_iwat = g_iw < used0 ? (size_t)g_iw : C15_NOWHERE;
	VERIF_COVER(used0 > 4);

	ret = flush_inbuf(&g_x, finish);

	VERIF_ASSERT((ret != 0) == (g_codec_err || g_out_err), "C15.out.fail");
	if (ret != 0)
		VERIF_ASSERT(ret == (g_codec_err ? SQFS_ERROR_COMPRESSOR
						 : g_out_errcode), "C15.out.fail");
	VERIF_ASSERT(g_fed <= used0, "C15.out.consumed_once");
	if (ret != 0)
		VERIF_ASSERT(g_x.inbuf_used == used0, "C15.out.fail");
	VERIF_ASSERT(g_iwcount == (g_iw < g_fed ? 1 : 0), "C15.out.consumed_once");
	if (g_iw < g_fed)
		VERIF_ASSERT(g_iwsrc == g_x.inbuf + g_iw, "C15.out.consumed_once");
	VERIF_ASSERT(g_owcount == (g_ow < g_app ? 1 : 0), "C15.out.forward_all");
	if (ret == 0) {
		VERIF_ASSERT(g_app == g_opos, "C15.out.forward_all");
		VERIF_ASSERT(g_x.inbuf_used == used0 - g_fed,
			     "C15.out.consumed_once");
		if (g_iw >= g_fed && g_iw < used0)
			VERIF_ASSERT(g_iwat == (size_t)(g_iw - g_fed),
				     "C15.out.consumed_once");
		if (finish)
			VERIF_ASSERT(g_last == XFRM_STREAM_END && !g_open,
				     "C15.out.trailer");
		else
			VERIF_ASSERT(g_fed == used0, "C15.out.all_consumed");
	}

	VERIF_COVER(ret == 0 && !finish && used0 > 4 && g_codec_calls >= 3);
	VERIF_COVER(ret == 0 && finish && g_codec_calls >= 3 && g_fed == used0 && used0 > 4);
	VERIF_COVER(ret == 0 && finish && g_fed < used0 && g_moves == 1);
	VERIF_COVER(ret == 0 && finish && used0 == 0);
	VERIF_COVER(ret == 0 && g_ow < g_app);
	VERIF_COVER(ret != 0 && g_out_err && g_app > 0);
	VERIF_COVER(ret != 0 && g_codec_err && g_app > 0);
}
