/* C15 - environment contracts for the stream-compression wrappers
 * (lib/xfrm/src/istream.c, ostream.c).
 *
 * (1) wrapped sqfs_istream_t - the contract proved for the file istream in
 *     C12 (get_buffered.c / advance.c): at every call any negative error, or
 *     a view of ANY length >= 1 over the bytes still to come, or EOF (> 0)
 *     exactly when nothing is left; advance(count) needs count <= view.
 *     Views are shorter than 4 GiB (process_data takes 32-bit sizes; the real
 *     implementations have 128/256 KiB buffers) - stated assumption.
 * (2) wrapped sqfs_ostream_t - append: 0 or any negative error; bytes
 *     accepted are counted and the placement of one arbitrary position is
 *     recorded.
 * (3) the codec (xfrm_stream_t.process_data), ASSUMED contract of the codec
 *     adapters + libraries: reads at most in_size bytes from `in`, writes at
 *     most out_size bytes to `out`, advances *in_read / *out_written by
 *     exactly those counts, returns ERROR, OK, END or BUFFER_FULL;
 *     OK and END imply progress (consumed + produced > 0); BUFFER_FULL is
 *     returned only when the room (or, while flushing, the input) ran out.
 *     Which status comes
 *     when is otherwise arbitrary - in particular a decoder may ask for more
 *     input (OK) although the source is exhausted (= truncated input).
 *     What the adapters really do is checked against the library contracts
 *     in adapter_*.c.
 *
 * Contents by placement: one arbitrary position of each byte stream (source
 * bytes / codec output) is followed through the copies; never materialised.
 */
#ifndef C15_ENV_H
#define C15_ENV_H
#include <stdlib.h>
#include "verif.h"
#include "sqfs/io.h"
#include "sqfs/error.h"
#include "xfrm/stream.h"

#define C15_NOWHERE SIZE_MAX

/* ------------------------------------------------------------ wrapped istream */
sqfs_istream_t g_in_obj;
uint64_t g_rem;        /* source bytes until EOF at entry */
uint64_t g_cons;       /* source bytes consumed (advanced over) */
size_t g_avail;        /* size of the outstanding view, 0 if none */
const sqfs_u8 *g_view;
bool g_in_err;
int g_in_errcode;
bool g_eofseen;        /* the source reported EOF */
unsigned g_gets;
sqfs_u8 *g_win;        /* the source's buffer object */
size_t g_winsz;

static int c15_in_get(sqfs_istream_t *strm, const sqfs_u8 **out,
		      size_t *size, size_t want)
{
	uint64_t left;
	size_t n, pos;

	(void)want;
	VERIF_ASSERT(strm == &g_in_obj, "C15.in.src_args");
	VERIF_ASSERT(!g_in_err, "C15.in.stops_on_error");
	VERIF_ASSERT(g_avail == 0, "C15.in.one_view");
	if (g_gets < 3)
		g_gets++;
	if (verif_nd_bool("get.fails")) {
		g_in_errcode = verif_nd_int("get.err");
		VERIF_ASSUME(g_in_errcode < 0);
		g_in_err = true;
		return g_in_errcode;
	}
	left = g_rem - g_cons;
	if (left == 0) {
		int r = verif_nd_int("get.eof");
		VERIF_ASSUME(r > 0);
		g_eofseen = true;
		*out = NULL;
		*size = 0;
		return r;
	}
	n = verif_nd_size("get.size");
	VERIF_ASSUME(n >= 1 && n <= left && n <= g_winsz && n <= 0xFFFFFFFFUL);
	pos = verif_nd_size("get.pos");
	VERIF_ASSUME(pos <= g_winsz - n);
	g_view = g_win + pos;
	g_avail = n;
	*out = g_view;
	*size = n;
	return 0;
}

static void c15_in_advance(sqfs_istream_t *strm, size_t count)
{
	VERIF_ASSERT(strm == &g_in_obj, "C15.in.src_args");
	VERIF_ASSERT(count <= g_avail, "C15.in.advance_le_view");
	g_cons += count;
	g_avail = 0;
	g_view = NULL;
}

static const char *c15_in_filename(sqfs_istream_t *strm)
{
	(void)strm;
	return "in";
}

static inline void c15_in_init(void)
{
	g_in_obj.get_buffered_data = c15_in_get;
	g_in_obj.advance_buffer = c15_in_advance;
	g_in_obj.get_filename = c15_in_filename;
	g_rem = verif_nd_u64("rem");
	g_cons = 0;
	g_avail = 0;
	g_view = NULL;
	g_in_err = false;
	g_in_errcode = 0;
	g_eofseen = false;
	g_gets = 0;
	g_winsz = verif_nd_size("winsz");
	VERIF_ASSUME(g_winsz >= 1 && g_winsz <= 0x7fffffffffffULL);
#ifdef VERIF_REPLAY
	/* native replay: the stubs never touch payload, a small block will do */
	g_win = malloc(g_winsz > 4096 ? 4096 : g_winsz);
#else
	g_win = malloc(g_winsz);
#endif
	VERIF_ASSUME(g_win != NULL);
}

/* --------------------------------------------------------------------- codec */
xfrm_stream_t g_codec_obj;
uint64_t g_fed;        /* bytes the codec consumed */
uint64_t g_opos;       /* bytes the codec produced (+ start value) */
int g_last;            /* status of the most recent call */
int g_last_mode;
sqfs_u32 g_last_p;       /* bytes produced by the most recent call */
bool g_codec_err;
unsigned g_codec_calls; /* saturating (cover points) */
unsigned g_ncalls;      /* exact */
bool g_end_seen;       /* some call returned END */
bool g_open;           /* the codec holds an unfinished stream: it consumed
			* input since the last END (or since creation) */
uint64_t g_end_fuel;   /* FLUSH_FULL: END arrives after finitely many calls */
uint64_t g_ow;         /* witness position in the codec's OUTPUT stream */
size_t g_owat;         /* index in the wrapper's output buffer where it lives */
uint64_t g_iw;         /* witness position in the codec's INPUT stream */
unsigned g_iwcount;    /* how often that byte was offered as consumed */
const sqfs_u8 *g_iwsrc;/* address it was consumed from */
sqfs_u8 *g_obase;      /* base of the wrapper's output buffer */

static void c15_codec_pre(const void *in, sqfs_u32 in_size, void *out,
			  sqfs_u32 out_size, sqfs_u32 in_read,
			  sqfs_u32 out_written, int mode);

static int c15_process_data(xfrm_stream_t *stream, const void *in,
			    sqfs_u32 in_size, void *out, sqfs_u32 out_size,
			    sqfs_u32 *in_read, sqfs_u32 *out_written,
			    int flush_mode)
{
	sqfs_u32 c = verif_nd_u32("codec.consumed");
	sqfs_u32 p = verif_nd_u32("codec.produced");
	int st = verif_nd_int("codec.status");
	size_t oi;

	VERIF_ASSERT(stream == &g_codec_obj && !g_codec_err, "C15.codec.args");
	c15_codec_pre(in, in_size, out, out_size, *in_read, *out_written,
		      flush_mode);
	VERIF_ASSERT((in_size == 0 || VERIF_R_OK(in, in_size)) &&
		     (out_size == 0 || VERIF_W_OK(out, out_size)),
		     "C15.codec.buffers");
#ifdef C15_MAX_CALLS
	/* bounded harnesses: at most C15_MAX_CALLS codec calls are explored */
	VERIF_ASSUME(g_ncalls < C15_MAX_CALLS);
#endif
	g_ncalls++;
	if (g_codec_calls < 3)
		g_codec_calls++;
	g_last_mode = flush_mode;

	VERIF_ASSUME(st >= XFRM_STREAM_ERROR && st <= XFRM_STREAM_BUFFER_FULL);
	if (st == XFRM_STREAM_ERROR) {
		g_codec_err = true;
		g_last = st;
		return st;
	}
	VERIF_ASSUME(c <= in_size && p <= out_size);
	/* 64-bit byte counters do not wrap (fewer than 2^64 bytes in total) */
	VERIF_ASSUME(g_fed <= UINT64_MAX - c && g_opos <= UINT64_MAX - p);
	if (st == XFRM_STREAM_OK || st == XFRM_STREAM_END)
		VERIF_ASSUME(c > 0 || p > 0);
	/* BUFFER_FULL means what it says: it stopped because the room ran out,
	 * or - only when flushing - because the input did
	 * (adapter_*.c: C15.adapter.buffer_full_meaning) */
	if (st == XFRM_STREAM_BUFFER_FULL)
		VERIF_ASSUME(p == out_size ||
			     (flush_mode == XFRM_STREAM_FLUSH_FULL && c == in_size));
#ifdef C15_COMPRESSOR
	/* a compressor ends the stream only when told to, within a finite
	 * number of calls ... */
	if (st == XFRM_STREAM_END)
		VERIF_ASSUME(flush_mode == XFRM_STREAM_FLUSH_FULL);
	/* ... and it takes input again after finitely many calls */
	if (st != XFRM_STREAM_END && c == 0) {
		VERIF_ASSUME(g_end_fuel > 0);
		g_end_fuel--;
	}
#endif
	if (g_iw >= g_fed && g_iw - g_fed < c) {
		g_iwsrc = (const sqfs_u8 *)in + (g_iw - g_fed);
		g_iwcount++;
	}
	oi = (size_t)((sqfs_u8 *)out - g_obase);
	VERIF_ASSERT(g_owat == C15_NOWHERE || !(g_owat >= oi && g_owat - oi < p),
		     "C15.codec.no_clobber");
	if (g_ow >= g_opos && g_ow - g_opos < p)
		g_owat = oi + (size_t)(g_ow - g_opos);
	g_last_p = p;
	g_fed += c;
	g_opos += p;
	*in_read += c;
	*out_written += p;
	if (c > 0)
		g_open = true;
	if (st == XFRM_STREAM_END) {
		g_end_seen = true;
		g_open = false;
	}
	g_last = st;
	return st;
}

static inline void c15_codec_init(sqfs_u8 *obase)
{
	g_codec_obj.process_data = c15_process_data;
	g_fed = 0;
	g_opos = 0;
	g_last = XFRM_STREAM_OK;
	g_last_mode = XFRM_STREAM_FLUSH_NONE;
	g_last_p = 0;
	g_codec_err = false;
	g_codec_calls = 0;
	g_ncalls = 0;
	g_end_seen = false;
	g_open = verif_nd_bool("codec.open");
	g_end_fuel = verif_nd_u64("codec.end_fuel");
	g_ow = verif_nd_u64("ow");
	g_owat = C15_NOWHERE;
	g_iw = verif_nd_u64("iw");
	g_iwcount = 0;
	g_iwsrc = NULL;
	g_obase = obase;
}
#endif
