/* C15: process_data of lib/xfrm/src/xz.c against the liblzma contract (see
 * adapter_common.h). lzma_code: LZMA_OK (progress), LZMA_STREAM_END,
 * LZMA_BUF_ERROR (no progress possible, not fatal), failures LZMA_MEM_ERROR,
 * LZMA_MEMLIMIT_ERROR, LZMA_FORMAT_ERROR, LZMA_OPTIONS_ERROR,
 * LZMA_DATA_ERROR, LZMA_PROG_ERROR. lzma_stream_encoder/decoder: LZMA_OK or a
 * failure. The coder is (re)initialised lazily, lzma_end after STREAM_END.
 */
/* liblzma itself turns the second consecutive call without progress into
 * LZMA_BUF_ERROR, so repeating a stalled call is harmless there */
#define ADAPTER_LIB_BOUNDS_STALLS
#include "C15/adapter_common.h"
#include <lzma.h>
#include "lib/xfrm/src/xz.c"

static xfrm_xz_t g_z;
unsigned g_inits, g_ends;
bool g_init_failed;
bool g_init0;

static lzma_ret lib_init(lzma_stream *s, bool compress)
{
	VERIF_ASSERT(s == &g_z.strm && !g_init0 && g_inits == 0 &&
		     g_lib_calls == 0 && compress == g_compress,
		     "C15.adapter.lazy_init");
	g_inits++;
	if (verif_nd_bool("init.fails")) {
		int e = verif_nd_int("init.err");
		VERIF_ASSUME(e != LZMA_OK);   /* any other value */
		g_init_failed = true;
		g_lib_failed = true;
		return (lzma_ret)e;
	}
	return LZMA_OK;
}

lzma_ret lzma_stream_encoder(lzma_stream *s, const lzma_filter *f, lzma_check c)
{
	VERIF_ASSERT(f == g_z.filters && c == LZMA_CHECK_CRC32, "C15.adapter.lazy_init");
	return lib_init(s, true);
}

lzma_ret lzma_stream_decoder(lzma_stream *s, uint64_t memlimit, uint32_t flags)
{
	VERIF_ASSERT(memlimit == g_z.memlimit && flags == 0, "C15.adapter.lazy_init");
	return lib_init(s, false);
}

void lzma_end(lzma_stream *s)
{
	VERIF_ASSERT(s == &g_z.strm && g_lib_end && g_ends == 0,
		     "C15.adapter.end_after_stream_end");
	g_ends++;
}

lzma_ret lzma_code(lzma_stream *s, lzma_action action)
{
	static const lzma_action expect[] = { LZMA_RUN, LZMA_FULL_FLUSH, LZMA_FINISH };
	uint32_t c, p;
	int code = verif_nd_int("lzma.code");

	VERIF_ASSERT(s == &g_z.strm && (g_init0 || g_inits == 1),
		     "C15.adapter.lib_args");
	lib_enter(s->next_in, s->avail_in, s->next_out, s->avail_out, g_z.compress);
	VERIF_ASSERT(action == expect[g_mode], "C15.adapter.flush_mode");
	lib_progress(s->avail_in, s->avail_out, &c, &p);
	/* ANY value of (and outside) enum lzma_ret may come back: LZMA_OK,
	 * LZMA_STREAM_END and LZMA_BUF_ERROR have their documented meaning,
	 * everything else (LZMA_NO_CHECK .. LZMA_PROG_ERROR incl.
	 * LZMA_MEMLIMIT_ERROR, LZMA_SEEK_NEEDED, unknown values) is a failure */
	if (code == LZMA_OK && g_stalled)
		VERIF_ASSUME(c > 0 || p > 0);
	if (code == LZMA_BUF_ERROR)
		VERIF_ASSUME(c == 0 && p == 0 &&
			     (s->avail_in == 0 || s->avail_out == 0));
	if (code == LZMA_STREAM_END && g_z.compress)
		VERIF_ASSUME(action == LZMA_FINISH);
	s->next_in += c;
	s->avail_in -= c;
	s->next_out += p;
	s->avail_out -= p;
	if (code == LZMA_STREAM_END)
		g_lib_end = true;
	else if (code != LZMA_OK && code != LZMA_BUF_ERROR)
		g_lib_failed = true;
	lib_leave(c, p, code == LZMA_OK);
	return (lzma_ret)code;
}

void harness(void)
{
	sqfs_u32 in_size = verif_nd_u32("in_size"), out_size = verif_nd_u32("out_size");
	sqfs_u32 r0 = verif_nd_u32("in_read"), w0 = verif_nd_u32("out_written");
	sqfs_u32 in_read, out_written;
	int mode = verif_nd_int("flush_mode"), ret;
	uint8_t *in, *out;

	VERIF_ASSUME(in_size <= 0x100000 && out_size <= 0x100000);
	VERIF_ASSUME(r0 <= 0x100000 && w0 <= 0x100000);
	in = malloc(in_size);
	out = malloc(out_size);
	VERIF_ASSUME(in != NULL && out != NULL);
	g_compress = verif_nd_bool("compress");
	g_z.compress = g_compress;
	g_z.initialized = g_init0 = verif_nd_bool("initialized");
	g_z.memlimit = verif_nd_u64("memlimit");
	g_in0 = in;
	g_out0 = out;
	g_in_size0 = in_size;
	g_out_size0 = out_size;
	g_c = g_p = 0;
	g_lib_calls = 0;
	g_lib_failed = g_lib_end = g_stalled = g_fail_stalled = false;
	g_inits = g_ends = 0;
	g_init_failed = false;
	g_mode = (mode < 0 || mode >= XFRM_STREAM_FLUSH_COUNT) ? 0 : mode;
	in_read = r0;
	out_written = w0;
	VERIF_COVER(in_size > 4 && out_size > 4);

	ret = process_data(&g_z.base, in, in_size, out, out_size, &in_read,
			   &out_written, mode);

	ADAPTER_POST(ret, in_read, out_written, r0, w0);
	if (ret == XFRM_STREAM_END)
		VERIF_ASSERT(g_ends == 1 && !g_z.initialized,
			     "C15.adapter.end_after_stream_end");
	else if (!g_init_failed)
		VERIF_ASSERT(g_z.initialized && g_ends == 0,
			     "C15.adapter.lazy_init");

	VERIF_COVER(ret == XFRM_STREAM_OK && g_lib_calls >= 2 && g_c == in_size);
	VERIF_COVER(ret == XFRM_STREAM_OK && g_p == out_size && g_c < in_size && out_size > 0);
	VERIF_COVER(ret == XFRM_STREAM_END && g_lib_calls >= 2 && g_inits == 1);
	VERIF_COVER(ret == XFRM_STREAM_BUFFER_FULL);
	VERIF_COVER(ret == XFRM_STREAM_ERROR && g_init_failed);
	VERIF_COVER(ret == XFRM_STREAM_ERROR && !g_init_failed && g_c > 0);
}
