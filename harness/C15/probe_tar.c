/* C15: tar_probe (lib/tar/src/iterator.c) - any buffer of any length up to
 * 4 KiB, fully symbolic; loops are bounded by the record size (512, constant
 * of the format) and unwound completely. The oracle is written from the
 * property text: "first record is a ustar header, optionally after one zero
 * record".
 *  C15.probe.ustar_iff   returns 1 <=> "ustar" at offset 257 of the first
 *                        record, or the first record is all zero and "ustar"
 *                        is at offset 257 of the second; 0 otherwise; reads
 *                        only data[0..size)
 */
#include <stdlib.h>
#include "verif.h"
#include "lib/tar/src/iterator.c"

static int has_ustar(const unsigned char *p, size_t n)
{
	return n >= 262 && p[257] == 'u' && p[258] == 's' && p[259] == 't' &&
	       p[260] == 'a' && p[261] == 'r';
}

void harness(void)
{
	size_t size = verif_nd_size("size"), i;
	unsigned char *data;
	bool allzero = true;
	int spec, ret;

	VERIF_ASSUME(size <= 4096);
	data = malloc(size);
	VERIF_ASSUME(data != NULL);

	if (size >= 512) {
		for (i = 0; i < 512; ++i) {
			if (data[i] != 0)
				allzero = false;
		}
	} else {
		allzero = false;
	}
	spec = allzero ? has_ustar(data + 512, size - 512) : has_ustar(data, size);

	ret = tar_probe(data, size);

	VERIF_ASSERT(ret == spec, "C15.probe.ustar_iff");
	VERIF_COVER(ret == 1 && !allzero);
	VERIF_COVER(ret == 1 && allzero);
	VERIF_COVER(ret == 0 && allzero && size >= 1024);
	VERIF_COVER(ret == 0 && !allzero && size >= 512);
	VERIF_COVER(ret == 0 && size < 262);
}
