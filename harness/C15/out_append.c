/* C15: xfrm_append (lib/xfrm/src/ostream.c) - every appended byte reaches
 * the compressor's input buffer exactly once and in order (zeros for
 * data == NULL), full buffers are handed to the codec in order before more is
 * buffered, whatever the sizes of the append calls. Loop contract (any size);
 * flush_inbuf is replaced by its contract (c15_ostream_contracts.h, proved in
 * out_flush_inbuf.c).
 *
 *  C15.out.copy_args     each copy is (inbuf+used, data+done, <= room, <= rest)
 *  C15.out.flush_when_full  flush_inbuf(false) exactly when the buffer is full
 *  C15.out.conserve      ret == 0 ==> flushed + buffered == old buffered + n;
 *                        stream byte k is either flushed once (k < flushed)
 *                        or sits at inbuf[k - flushed]
 *  C15.out.inv           inbuf_used <= BUFSZ; after appending n > 0 bytes the
 *                        buffer is not empty (so xfrm_flush will finish)
 *  C15.out.fail          ret != 0 <=> flush_inbuf failed; ret is its code
 */
#include <stdlib.h>
#include "verif.h"
#include "sqfs/io.h"
#include "sqfs/error.h"
#include "xfrm/stream.h"

const sqfs_u8 *g_data0;
bool g_null;
size_t g_n;
size_t g_copied;
size_t g_used0;

/* ghost state of the flush_inbuf contract (c15_ostream_contracts.h) - named by
 * the loop clauses, hence declared before the real file */
uint64_t g_flushed;
bool g_flush_err;
int g_flush_errcode;
unsigned g_flush_calls;
bool g_flush_finish_seen;
uint64_t g_aw;
size_t g_awat;
unsigned g_awflushed;
bool g_open;

#include "lib/xfrm/src/ostream.c"
#include "C15/c15_ostream_contracts.h"

static ostream_xfrm_t g_x;

static void c15_flush_pre(ostream_xfrm_t *xfrm, bool finish)
{
	VERIF_ASSERT(xfrm == &g_x && !finish && xfrm->inbuf_used == BUFSZ &&
		     g_copied < g_n, "C15.out.flush_when_full");
}

static int c15_out_flush(sqfs_ostream_t *strm) { (void)strm; return 0; }
static const char *c15_out_filename(sqfs_ostream_t *strm) { (void)strm; return "out"; }

static void copy_common(void *dst, size_t n)
{
	VERIF_ASSERT((sqfs_u8 *)dst == g_x.inbuf + g_x.inbuf_used &&
		     n <= BUFSZ - g_x.inbuf_used && n <= g_n - g_copied && n >= 1,
		     "C15.out.copy_args");
	VERIF_ASSERT(VERIF_W_OK(dst, n), "C15.out.copy_bounds");
	if (g_aw >= g_used0 + g_copied && g_aw - (g_used0 + g_copied) < n) {
		VERIF_ASSERT(g_awat == SIZE_MAX, "C15.out.conserve");
		g_awat = g_x.inbuf_used + (size_t)(g_aw - (g_used0 + g_copied));
	} else {
		/* must not overwrite a byte that is still buffered */
		VERIF_ASSERT(g_awat == SIZE_MAX || g_awat < g_x.inbuf_used,
			     "C15.out.conserve");
	}
	g_copied += n;
}

void *memcpy(void *dst, const void *src, size_t n)
{
	VERIF_ASSERT(!g_null && (const sqfs_u8 *)src == g_data0 + g_copied &&
		     VERIF_R_OK(src, n), "C15.out.copy_args");
	copy_common(dst, n);
	return dst;
}

void *memset(void *dst, int c, size_t n)
{
	VERIF_ASSERT(g_null && c == 0, "C15.out.copy_args");
	copy_common(dst, n);
	return dst;
}

#ifndef AP_MAX
#define AP_MAX 0x7fffffffffffULL
#endif

void harness(void)
{
	size_t n = verif_nd_size("n");
	sqfs_u8 *data;
	int ret;

	VERIF_ASSUME(n <= AP_MAX);
	data = malloc(n);
	VERIF_ASSUME(data != NULL);
	g_null = verif_nd_bool("data==NULL");
	g_data0 = data;
	g_n = n;
	g_copied = 0;
	g_x.inbuf_used = g_used0 = verif_nd_size("inbuf_used");
	VERIF_ASSUME(g_used0 <= BUFSZ);
	g_flushed = 0;
	g_flush_err = false;
	g_flush_errcode = 0;
	g_flush_calls = 0;
	g_flush_finish_seen = false;
	g_open = verif_nd_bool("open");
	g_aw = verif_nd_u64("aw");
	g_awat = g_aw < g_used0 ? (size_t)g_aw : SIZE_MAX;
	g_awflushed = 0;
	VERIF_COVER(n > BUFSZ);

	ret = xfrm_append((sqfs_ostream_t *)&g_x, g_null ? NULL : data, n);

	VERIF_ASSERT((ret != 0) == g_flush_err, "C15.out.fail");
	if (ret != 0)
		VERIF_ASSERT(ret == g_flush_errcode, "C15.out.fail");
	VERIF_ASSERT(g_x.inbuf_used <= BUFSZ, "C15.out.inv");
	if (ret == 0) {
		VERIF_ASSERT(g_copied == n &&
			     g_flushed + g_x.inbuf_used == (uint64_t)g_used0 + n,
			     "C15.out.conserve");
		if (n > 0)
			VERIF_ASSERT(g_x.inbuf_used > 0, "C15.out.inv");
		if (g_aw < g_flushed)
			VERIF_ASSERT(g_awflushed == 1 && g_awat == SIZE_MAX,
				     "C15.out.conserve");
		else if (g_aw < (uint64_t)g_used0 + n)
			VERIF_ASSERT(g_awflushed == 0 &&
				     g_awat == (size_t)(g_aw - g_flushed),
				     "C15.out.conserve");
		else
			VERIF_ASSERT(g_awflushed == 0 && g_awat == SIZE_MAX,
				     "C15.out.conserve");
	}

	VERIF_COVER(ret == 0 && n > BUFSZ && g_flush_calls >= 3 && !g_null);
	VERIF_COVER(ret == 0 && g_null && n > 4 && g_flush_calls >= 1);
	VERIF_COVER(ret == 0 && n > 0 && g_flush_calls == 0);
	VERIF_COVER(ret == 0 && g_aw < g_flushed && g_aw >= g_used0);
	VERIF_COVER(ret == 0 && g_aw >= g_flushed && g_aw < (uint64_t)g_used0 + n && g_flush_calls >= 1);
	VERIF_COVER(ret != 0 && g_copied > 0);
}
