/* C15: xfrm_get_buffered_data (lib/xfrm/src/istream.c) with the real
 * precache - what the consumer of a decompressed stream is shown.
 * BOUNDED like in_precache.c (for (;;) cannot carry a loop contract): every
 * sequence of up to CALLS codec calls.
 *
 * Entry state: INV: offset <= used <= BUFSZ; the codec is either between two
 * compressed streams or in the middle of one (g_open, arbitrary).
 *  C15.in.view           ret >= 0 ==> *out = buffer+offset', *size =
 *                        used'-offset', INV'
 *  C15.in.deliver_once   out[k] is codec output byte k (old unread bytes
 *                        first) for every k < size: nothing lost, nothing
 *                        duplicated, nothing consumed
 *  C15.in.lazy           no source/codec call when enough is buffered
 *  C15.in.fail           ret < 0 <=> source or codec error
 *  C15.in.no_spurious_eof  ret > 0 (end of stream reported to the consumer)
 *                        ==> the source was asked and reported its end
 *  C15.in.eof_needs_end  ... and then the codec is not in the middle of a compressed
 *                        stream: it returned END after the last input it
 *                        consumed (or never consumed any). "Truncated input
 *                        is never a shorter archive."
 *  + codec_args / feed_once / flush_at_eof / compact at every call.
 */
#ifndef CALLS
#define CALLS 3
#endif
#define C15_MAX_CALLS CALLS
#include "C15/c15_env.h"

size_t g_off0, g_used0;
uint64_t g_keep;
unsigned g_moves;

#include "lib/xfrm/src/istream.c"

static istream_xfrm_t g_x;

static void c15_codec_pre(const void *in, sqfs_u32 in_size, void *out,
			  sqfs_u32 out_size, sqfs_u32 in_read,
			  sqfs_u32 out_written, int mode)
{
	VERIF_ASSERT((const sqfs_u8 *)in == g_view && in_size == g_avail &&
		     (sqfs_u8 *)out == g_x.uncompressed + g_x.buffer_used &&
		     out_size == BUFSZ - g_x.buffer_used && in_read == 0 &&
		     out_written == g_x.buffer_used && g_x.buffer_used == g_opos,
		     "C15.in.codec_args");
	VERIF_ASSERT(g_fed == g_cons, "C15.in.feed_once");
	VERIF_ASSERT(mode == (g_eofseen ? XFRM_STREAM_FLUSH_FULL
					: XFRM_STREAM_FLUSH_NONE),
		     "C15.in.flush_at_eof");
}

void *memmove(void *dst, const void *src, size_t n)
{
	size_t di, si;

	VERIF_ASSERT(g_moves == 0 && g_codec_calls == 0 && g_off0 > 0 &&
		     g_off0 < g_used0 && (sqfs_u8 *)dst == g_x.uncompressed &&
		     (const sqfs_u8 *)src == g_x.uncompressed + g_off0 &&
		     n == g_used0 - g_off0, "C15.in.compact");
	VERIF_ASSERT(VERIF_R_OK(src, n) && VERIF_W_OK(dst, n),
		     "C15.in.memmove_bounds");
	g_moves++;
	di = (size_t)((sqfs_u8 *)dst - g_obase);
	si = (size_t)((const sqfs_u8 *)src - g_obase);
	if (g_owat != C15_NOWHERE) {
		if (g_owat >= si && g_owat - si < n)
			g_owat = di + (g_owat - si);
		else
			VERIF_ASSERT(!(g_owat >= di && g_owat - di < n),
				     "C15.codec.no_clobber");
	}
	return dst;
}

void harness(void)
{
	size_t want = verif_nd_size("want"), wantc, size = 0;
	const sqfs_u8 *out = NULL;
	bool enough0;
	int ret;

	c15_in_init();
	c15_codec_init(g_x.uncompressed);
	g_x.wrapped = &g_in_obj;
	g_x.xfrm = &g_codec_obj;
	g_x.buffer_offset = g_off0 = verif_nd_size("offset");
	g_x.buffer_used = g_used0 = verif_nd_size("used");
	VERIF_ASSUME(g_off0 <= g_used0 && g_used0 <= BUFSZ);
	g_keep = g_used0 - g_off0;
	g_opos = g_keep;
	g_owat = g_ow < g_keep ? g_off0 + (size_t)g_ow : C15_NOWHERE;
	g_moves = 0;
#ifdef C15_HAVE_IN_STREAM
	/* representation invariant of the fixed wrapper: its belief about the
	 * decoder being in mid-stream is the truth */
	g_x.in_stream = g_open;
#endif
	wantc = want > BUFSZ ? BUFSZ : want;
	enough0 = g_keep > 0 && g_keep >= wantc;
	VERIF_COVER(g_off0 > 0 && g_keep > 4 && want > g_keep);

	ret = xfrm_get_buffered_data((sqfs_istream_t *)&g_x, &out, &size, want);

	if (g_in_err || g_codec_err)
		VERIF_ASSERT(ret < 0, "C15.in.fail");
	else if (ret < 0)
		VERIF_ASSERT(g_eofseen && g_open && g_last_p == 0 &&
			     g_last_mode == XFRM_STREAM_FLUSH_FULL, "C15.in.fail");
	if (enough0)
		VERIF_ASSERT(g_ncalls == 0 && g_gets == 0 && g_moves == 0 &&
			     g_x.buffer_offset == g_off0 &&
			     g_x.buffer_used == g_used0, "C15.in.lazy");
	if (ret >= 0) {
		VERIF_ASSERT(g_x.buffer_offset <= g_x.buffer_used &&
			     g_x.buffer_used <= BUFSZ &&
			     out == g_x.uncompressed + g_x.buffer_offset &&
			     size == g_x.buffer_used - g_x.buffer_offset,
			     "C15.in.view");
		VERIF_ASSERT(size == (enough0 ? g_keep : g_opos),
			     "C15.in.deliver_once");
		VERIF_ASSERT(g_owat == (g_ow < size ? g_x.buffer_offset + (size_t)g_ow
						    : C15_NOWHERE),
			     "C15.in.deliver_once");
		VERIF_ASSERT((ret > 0) == (size == 0), "C15.in.view");
	}
	if (ret > 0) {
		VERIF_ASSERT(g_eofseen, "C15.in.no_spurious_eof");
		if (g_eofseen)
			VERIF_ASSERT(!g_open, "C15.in.eof_needs_end");
	}

	VERIF_COVER(ret == 0 && !enough0 && size == BUFSZ && g_codec_calls >= 3);
	VERIF_COVER(ret == 0 && enough0 && want > 0);
	VERIF_COVER(ret > 0 && g_eofseen && !g_open && g_end_seen);
	VERIF_COVER(ret > 0 && g_eofseen && !g_open && g_ncalls == 1);
	VERIF_COVER(ret < 0 && g_codec_err);
	VERIF_COVER(ret == 0 && g_ow < size && g_ow >= g_keep);
}
