/* C13 obligations on bin/rdsquashfs/src/restore_fstree.c (bounded: tree of 4
 * nodes - root directory, two children, one grandchild; <= 2 xattr pairs per
 * node; node kinds symbolic). Every system call (mkdir, symlink, mknod, open,
 * lsetxattr, utimensat, fchownat, fchmodat), every path construction and every
 * xattr reader call may fail at every position.
 *   C13.restore_fstree.propagates / C13.update_tree_attribs.propagates
 *        any failure => -1 (mkdir failing with EEXIST is not a failure)
 *   C13.<f>.stops       no further system call after the first failed one
 *   C13.<f>.diagnostic  failure => a diagnostic was printed
 *   C13.<f>.releases    every path / xattr key / value is freed exactly once
 *                       on every path
 *   C13.<f>.no_crash    cbmc pointer checks
 * (which paths are used and with which flags is C06.)
 */
#define C14_SITE "rd_restore"
#include <stdlib.h>
#include <string.h>
#include <fcntl.h>
#include <sys/stat.h>
#include "verif.h"
#include "C12/c12_env.h"
#include "C14/c14_env.h"
#include "C14/c14_libc.h"
#include "C13/c13_alloc.h"
#include "C13/rd_env.h"

static unsigned g_sys_calls, g_sys_after_fail, g_fd_open, g_fd_leak;
static bool g_sys_failed;

static int sys_outcome(const char *tag, bool eexist_ok)
{
	g_sys_calls += 1;
	if (g_sys_failed)
		g_sys_after_fail += 1;
	if (verif_nd_bool(tag)) {
		g_errno = verif_nd_int("errno");
		if (eexist_ok && g_errno == EEXIST)
			return -1;	/* tolerated by the caller */
		g_fault = true;
		g_sys_failed = true;
		return -1;
	}
	return 0;
}

int mkdir(const char *p, mode_t m) { (void)p; (void)m; return sys_outcome("mkdir.fail", true); }
int symlink(const char *t, const char *p) { (void)t; (void)p; return sys_outcome("symlink.fail", false); }
int mknod(const char *p, mode_t m, dev_t d) { (void)p; (void)m; (void)d; return sys_outcome("mknod.fail", false); }
static int rd_open(const char *p, int fl, int m)
{
	(void)p; (void)fl; (void)m;
	if (sys_outcome("open.fail", false))
		return -1;
	if (g_fd_open)
		g_fd_leak += 1;
	g_fd_open = 1;
	return 7;
}
#define open rd_open
int close(int fd) { if (fd != 7 || !g_fd_open) g_fd_leak += 1; g_fd_open = 0; return 0; }
int lsetxattr(const char *p, const char *n, const void *v, size_t s, int f)
{ (void)p; (void)n; (void)v; (void)s; (void)f; return sys_outcome("lsetxattr.fail", false); }
int utimensat(int d, const char *p, const struct timespec t[2], int f)
{ (void)d; (void)p; (void)t; (void)f; return sys_outcome("utimensat.fail", false); }
int fchownat(int d, const char *p, uid_t u, gid_t g, int f)
{ (void)d; (void)p; (void)u; (void)g; (void)f; return sys_outcome("fchownat.fail", false); }
int fchmodat(int d, const char *p, mode_t m, int f)
{ (void)d; (void)p; (void)m; (void)f; return sys_outcome("fchmodat.fail", false); }

/* ---- xattr reader ------------------------------------------------------- */
static int xr_outcome(const char *tag)
{
	if (g_sys_failed)
		g_sys_after_fail += 1;
	if (verif_nd_bool(tag)) {
		g_fault = true;
		g_sys_failed = true;
		return c14_error_code(tag);
	}
	return 0;
}

int sqfs_inode_get_xattr_index(const sqfs_inode_generic_t *inode, sqfs_u32 *out)
{
	(void)inode;
	*out = verif_nd_bool("xattr.none") ? 0xFFFFFFFF : verif_nd_u32("xattr.index");
	return 0;
}

int sqfs_xattr_reader_get_desc(sqfs_xattr_reader_t *xr, sqfs_u32 idx, sqfs_xattr_id_t *desc)
{
	(void)xr; (void)idx;
	if (xr_outcome("xattr_get_desc.fail"))
		return -1;
	desc->count = verif_nd_u32("xattr.count");
	VERIF_ASSUME(desc->count <= 2);
	return 0;
}

int sqfs_xattr_reader_seek_kv(sqfs_xattr_reader_t *xr, const sqfs_xattr_id_t *desc)
{
	(void)xr; (void)desc;
	return xr_outcome("xattr_seek.fail");
}

int sqfs_xattr_reader_read_key(sqfs_xattr_reader_t *xr, sqfs_xattr_entry_t **key_out)
{
	(void)xr;
	if (xr_outcome("xattr_key.fail"))
		return -1;
	if (g_key_live)
		g_path_double_free += 1;	/* previous key leaked */
	g_key_live = true;
	*key_out = &g_kv_key.e;
	return 0;
}

int sqfs_xattr_reader_read_value(sqfs_xattr_reader_t *xr, const sqfs_xattr_entry_t *key,
				 sqfs_xattr_value_t **val_out)
{
	(void)xr; (void)key;
	if (xr_outcome("xattr_value.fail"))
		return -1;
	if (g_val_live)
		g_path_double_free += 1;
	g_val_live = true;
	g_kv_val.v.size = 4;
	*val_out = &g_kv_val.v;
	return 0;
}

#include "bin/rdsquashfs/src/restore_fstree.c"
#undef open

#ifndef RS_CASE
#define RS_CASE 0
#endif

static sqfs_u16 any_kind(const char *tag)
{
	switch (verif_nd_u8(tag) % 7) {
	case 0: return S_IFDIR | 0755;
	case 1: return S_IFLNK | 0777;
	case 2: return S_IFSOCK | 0600;
	case 3: return S_IFIFO | 0600;
	case 4: return S_IFBLK | 0600;
	case 5: return S_IFCHR | 0600;
	default: return S_IFREG | 0644;
	}
}

void harness(void)
{
	sqfs_tree_node_t *root, *a, *b, *c;
	static struct { sqfs_inode_generic_t n; char tgt[4]; } lnk;
	int flags = verif_nd_int("flags"), ret;
	static sqfs_xattr_reader_t *xr;

	c14_ghost_init();
	rd_env_init();
	g_canon_fail_allowed = false;	/* the code asserts it cannot fail here */
	g_sys_calls = g_sys_after_fail = g_fd_open = g_fd_leak = 0;
	g_sys_failed = false;

	root = rd_node(0, verif_nd_bool("root.dir") ? (S_IFDIR | 0755) : any_kind("root.kind"));
	a = rd_node(1, any_kind("a.kind"));
	b = rd_node(2, S_IFDIR | 0755);
	c = rd_node(3, any_kind("c.kind"));
	/* symlink nodes carry their target behind the inode */
	lnk.n = g_rd_inode[1];
	lnk.tgt[0] = 't';
	a->inode = &lnk.n;
	root->children = a;
	a->parent = root;
	a->next = b;
	b->parent = root;
	b->children = c;
	c->parent = b;
	xr = verif_nd_bool("with_xattr") ? (sqfs_xattr_reader_t *)&g_kv_key : NULL;

#if RS_CASE == 0
	ret = restore_fstree(root, flags);
	VERIF_ASSERT(!g_fault || ret != 0, "C13.restore_fstree.propagates");
	VERIF_ASSERT(ret == 0 || ret == -1, "C13.restore_fstree.propagates");
	VERIF_ASSERT(g_sys_after_fail == 0, "C13.restore_fstree.stops");
	VERIF_ASSERT(ret == 0 || g_diag >= 1, "C13.restore_fstree.diagnostic");
	VERIF_ASSERT(g_paths_live == 0 && g_path_double_free == 0 && g_fd_open == 0 &&
		     g_fd_leak == 0, "C13.restore_fstree.releases");
	VERIF_COVER(ret == 0 && g_sys_calls == 3);
	VERIF_COVER(ret == 0 && g_sys_calls == 1 && !S_ISDIR(g_rd_inode[0].base.mode));
	VERIF_COVER(ret != 0 && g_sys_calls == 3);
	VERIF_COVER(ret != 0 && g_sys_calls == 0);
#else
	ret = update_tree_attribs(xr, root, flags);
	VERIF_ASSERT(!g_fault || ret != 0, "C13.update_tree_attribs.propagates");
	VERIF_ASSERT(ret == 0 || ret == -1, "C13.update_tree_attribs.propagates");
	VERIF_ASSERT(g_sys_after_fail == 0, "C13.update_tree_attribs.stops");
	VERIF_ASSERT(ret == 0 || g_diag >= 1, "C13.update_tree_attribs.diagnostic");
	VERIF_ASSERT(g_paths_live == 0 && g_path_double_free == 0 && !g_key_live &&
		     !g_val_live, "C13.update_tree_attribs.releases");
	VERIF_COVER(ret == 0 && g_sys_calls >= 6);
	VERIF_COVER(ret == 0 && g_sys_calls == 0);
	VERIF_COVER(ret != 0 && g_sys_calls >= 2 && xr != NULL);
	VERIF_COVER(ret != 0 && g_sys_calls == 0);
#endif
}
