/* C13.main.status for sqfs2tar (bounded: the image iterator delivers <= 2
 * entries, <= 2 splice rounds per file): the real main(), write_entry(),
 * write_file_data(), terminate_archive() of bin/sqfs2tar/src/sqfs2tar.c; the
 * output stream, the (optional) compressor wrapper, the image iterator, the
 * hard link filter, the tar header writer and the splice are contracts that
 * may fail at every call. "Cannot encode" entries (SQFS_ERROR_UNSUPPORTED)
 * are skipped unless --no-skip was given; that is not a fault.
 *   C13.main.status          any failure => EXIT_FAILURE; result is
 *                            EXIT_SUCCESS or EXIT_FAILURE
 *   C13.success_is_faultfree EXIT_SUCCESS => nothing failed, every entry the
 *                            iterator delivered was written or deliberately
 *                            skipped, the archive terminator (1024 bytes) was
 *                            appended after the last entry and the output was
 *                            flushed after that
 *   C13.main.diagnostic      EXIT_FAILURE => a diagnostic was printed
 *   C13.main.releases        iterator(s), output stream(s), every entry, link
 *                            target, xattr list and file stream are released
 *                            exactly once on every path; no write to the
 *                            output after it was dropped
 */
#define C14_SITE "main_sqfs2tar"
#include <stdlib.h>
#include <string.h>
#include "verif.h"
#include "C14/c14_env.h"
#include "C14/c14_libc.h"
#include "bin/sqfs2tar/src/sqfs2tar.h"

bool dont_skip, keep_as_dir, no_xattr, no_links;
char *root_becomes;
strlist_t subdirs;
int compressor;
const char *filename = "in.sqfs";

enum { O_RAW, O_WRAP, O_IT, O_HL, O_IN, O_N };
static sqfs_ostream_t g_raw, g_wrap;
static sqfs_dir_iterator_t g_it, g_hl;
static sqfs_istream_t g_instrm;
static struct { sqfs_object_t base; } g_xfrm;
static unsigned g_live[O_N], g_made[O_N], g_bad, g_xfrm_live;
static unsigned g_entries_out, g_ent_live, g_ent_made, g_tgt_live, g_xattr_live;
static unsigned g_hdr_written, g_skipped, g_term_seq, g_flush_seq, g_last_entry_seq;
static unsigned g_splices;
static struct { sqfs_dir_entry_t e; char name[4]; } g_ent[2];
static char g_target[4];
static int g_xattr_obj;

/* error codes of the I/O steps: anything negative EXCEPT SQFS_ERROR_UNSUPPORTED.
 * main() takes that code from any step of write_entry() to mean "this entry
 * cannot be encoded, skip it" (see ASSUMPTIONS in cases.py). */
static int s2t_error_code(const char *tag)
{
	int e = c14_error_code(tag);

	return e == SQFS_ERROR_UNSUPPORTED ? SQFS_ERROR_IO : e;
}

static int fail_or_ok(const char *tag)
{
	if (verif_nd_bool(tag)) {
		g_fault = true;
		return s2t_error_code(tag);
	}
	return 0;
}

static int obj_index(const void *o)
{
	if (o == &g_raw) return O_RAW;
	if (o == &g_wrap) return O_WRAP;
	if (o == &g_it) return O_IT;
	if (o == &g_hl) return O_HL;
	if (o == &g_instrm) return O_IN;
	return O_N;
}

void s2t_destroy(sqfs_object_t *o)
{
	int i = obj_index(o);

	if (o == &g_xfrm.base) {
		if (!g_xfrm_live)
			g_bad += 1;
		g_xfrm_live = 0;
		return;
	}
	if (i == O_N || !g_live[i]) {
		g_bad += 1;
		return;
	}
	g_live[i] = 0;
	if (i == O_WRAP) {		/* the wrapper holds the raw stream + xfrm */
		if (g_raw.base.refcount <= 1)
			g_live[O_RAW] = 0;
		else
			g_raw.base.refcount -= 1;
		if (g_xfrm.base.refcount <= 1)
			g_xfrm_live = 0;
		else
			g_xfrm.base.refcount -= 1;
	}
	if (i == O_HL) {		/* the filter holds the source iterator */
		if (((sqfs_object_t *)&g_it)->refcount <= 1)
			g_live[O_IT] = 0;
		else
			((sqfs_object_t *)&g_it)->refcount -= 1;
	}
}

static void mk(int i, sqfs_object_t *o)
{
	o->refcount = 1;
	o->destroy = s2t_destroy;
	g_live[i] = 1;
	g_made[i] += 1;
}

/* ---- output stream ---------------------------------------------------- */
int s2t_append(sqfs_ostream_t *s, const void *data, size_t size)
{
	(void)data;
	g_seq += 1;
	if (obj_index(s) > O_WRAP || !g_live[obj_index(s)])
		g_bad += 1;
	if (size == 1024)
		g_term_seq = g_seq;
	return fail_or_ok("append.fail");
}

int s2t_flush(sqfs_ostream_t *s)
{
	g_seq += 1;
	if (obj_index(s) > O_WRAP || !g_live[obj_index(s)])
		g_bad += 1;
	g_flush_seq = g_seq;
	return fail_or_ok("flush.fail");
}

const char *s2t_get_filename(sqfs_ostream_t *s)
{
	(void)s;
	return "stdout";
}

static void mk_out(int i, sqfs_ostream_t *s)
{
	mk(i, &s->base);
	s->append = s2t_append;
	s->flush = s2t_flush;
	s->get_filename = s2t_get_filename;
}

int ostream_open_stdout(sqfs_ostream_t **out)
{
	int r = fail_or_ok("stdout.fail");

	*out = NULL;
	if (r)
		return r;
	mk_out(O_RAW, &g_raw);
	*out = &g_raw;
	return 0;
}

xfrm_stream_t *compressor_stream_create(int id, const compressor_config_t *cfg)
{
	(void)id; (void)cfg;
	if (verif_nd_bool("xfrm_create.fail")) {
		g_fault = true;
		g_diag += 1;	/* the back ends print their own message */
		return NULL;
	}
	g_xfrm.base.refcount = 1;
	g_xfrm.base.destroy = s2t_destroy;
	g_xfrm_live = 1;
	return (xfrm_stream_t *)&g_xfrm;
}

sqfs_ostream_t *ostream_xfrm_create(sqfs_ostream_t *strm, xfrm_stream_t *xfrm)
{
	if (strm != &g_raw || (void *)xfrm != (void *)&g_xfrm)
		g_bad += 1;
	if (verif_nd_bool("xfrm_wrap.fail")) {
		g_fault = true;
		g_diag += 1;	/* prints "error initializing compressor" */
		return NULL;
	}
	g_raw.base.refcount += 1;
	g_xfrm.base.refcount += 1;
	mk_out(O_WRAP, &g_wrap);
	return &g_wrap;
}

/* ---- image iterator ------------------------------------------------------ */
int s2t_next(sqfs_dir_iterator_t *it, sqfs_dir_entry_t **out)
{
	int r;

	g_seq += 1;
	if (obj_index(it) != O_IT && obj_index(it) != O_HL)
		g_bad += 1;
	if (!g_live[obj_index(it) == O_HL ? O_HL : O_IT])
		g_bad += 1;
	/* C04: the archive is written from the hard link filter stacked ON TOP of
	 * the tar-compat iterator (which strips --subdir prefixes and applies
	 * --root-becomes): the link targets the filter hands out are then names
	 * the archive really contains. The other way round the targets are raw
	 * image paths while every member name is rewritten (seed C04-8). With
	 * --no-hard-links there is no filter. */
	VERIF_ASSERT(obj_index(it) == (no_links ? O_IT : O_HL),
		     "C04.s2t.main.hl_filter_outermost");
	*out = NULL;
	r = fail_or_ok("next.fail");
	if (r)
		return r;
	if (g_entries_out >= 2 || verif_nd_bool("next.end"))
		return 1;
	{
		sqfs_dir_entry_t *e = &g_ent[g_entries_out].e;

		e->mode = verif_nd_u16("ent.mode");
		e->flags = verif_nd_u16("ent.flags");
		e->size = verif_nd_u64("ent.size");
		g_ent[g_entries_out].name[0] = 'n';
		g_entries_out += 1;
		g_ent_live += 1;
		g_ent_made += 1;
		*out = e;
	}
	return 0;
}

int s2t_read_link(sqfs_dir_iterator_t *it, char **out)
{
	int r = fail_or_ok("read_link.fail");

	(void)it;
	*out = NULL;
	if (r)
		return r;
	g_tgt_live += 1;
	*out = g_target;
	return 0;
}

int s2t_read_xattr(sqfs_dir_iterator_t *it, sqfs_xattr_t **out)
{
	int r = fail_or_ok("read_xattr.fail");

	(void)it;
	*out = NULL;
	if (r)
		return r;
	if (verif_nd_bool("xattr.some")) {
		g_xattr_live += 1;
		*out = (sqfs_xattr_t *)&g_xattr_obj;
	}
	return 0;
}

int s2t_open_file_ro(sqfs_dir_iterator_t *it, sqfs_istream_t **out)
{
	int r = fail_or_ok("open_file.fail");

	(void)it;
	*out = NULL;
	if (r)
		return r;
	if (g_live[O_IN])
		g_bad += 1;
	mk(O_IN, &g_instrm.base);
	g_splices = 0;
	*out = &g_instrm;
	return 0;
}

static void mk_it(int i, sqfs_dir_iterator_t *it)
{
	mk(i, (sqfs_object_t *)it);
	it->next = s2t_next;
	it->read_link = s2t_read_link;
	it->read_xattr = s2t_read_xattr;
	it->open_file_ro = s2t_open_file_ro;
}

sqfs_dir_iterator_t *tar_compat_iterator_create(const char *fn)
{
	(void)fn;
	if (verif_nd_bool("iterator.fail")) {
		g_fault = true;
		g_diag += 1;	/* prints its own diagnostics (iterator.c) */
		return NULL;
	}
	mk_it(O_IT, &g_it);
	return &g_it;
}

int sqfs_hard_link_filter_create(sqfs_dir_iterator_t **out, sqfs_dir_iterator_t *base)
{
	int r = fail_or_ok("hl_filter.fail");

	if (base != &g_it)
		g_bad += 1;
	*out = NULL;
	if (r)
		return r;
	((sqfs_object_t *)&g_it)->refcount += 1;
	mk_it(O_HL, &g_hl);
	*out = &g_hl;
	return 0;
}

/* ---- per entry helpers ----------------------------------------------------- */
int write_tar_header(sqfs_ostream_t *fp, const sqfs_dir_entry_t *ent,
		     const char *link_target, const sqfs_xattr_t *xattr,
		     unsigned int counter)
{
	(void)ent; (void)link_target; (void)xattr; (void)counter;
	g_seq += 1;
	g_last_entry_seq = g_seq;
	if (obj_index(fp) > O_WRAP || !g_live[obj_index(fp)])
		g_bad += 1;
	if (verif_nd_bool("tar_header.unsupported")) {
		g_skipped += 1;
		g_diag += 1;
		return SQFS_ERROR_UNSUPPORTED;
	}
	if (verif_nd_bool("tar_header.fail")) {
		g_fault = true;
		g_diag += 1;
		return verif_nd_bool("tar_header.cannot_encode") ? 1 : s2t_error_code("tar_header.err");
	}
	g_hdr_written += 1;
	return 0;
}

int padd_file(sqfs_ostream_t *fp, sqfs_u64 size)
{
	(void)size;
	g_seq += 1;
	g_last_entry_seq = g_seq;
	if (obj_index(fp) > O_WRAP || !g_live[obj_index(fp)])
		g_bad += 1;
	if (verif_nd_bool("padd_file.fail")) {
		g_fault = true;
		g_diag += 1;
		return -1;
	}
	return 0;
}

sqfs_s32 sqfs_istream_splice(sqfs_istream_t *in, sqfs_ostream_t *out, sqfs_u32 size)
{
	(void)size;
	g_seq += 1;
	g_last_entry_seq = g_seq;
	if (in != &g_instrm || !g_live[O_IN] || obj_index(out) > O_WRAP ||
	    !g_live[obj_index(out)])
		g_bad += 1;
	if (verif_nd_bool("splice.fail")) {
		g_fault = true;
		return s2t_error_code("splice.err");
	}
	if (g_splices < 1 && verif_nd_bool("splice.more")) {
		g_splices += 1;
		return 1;
	}
	return 0;
}

void sqfs_xattr_list_free(sqfs_xattr_t *list)
{
	if (list == NULL)
		return;
	if ((void *)list != (void *)&g_xattr_obj || !g_xattr_live)
		g_bad += 1;
	else
		g_xattr_live -= 1;
}

void sqfs_free(void *p)
{
	if (p == NULL)
		return;
	if (p == (void *)g_target) {
		if (!g_tgt_live)
			g_bad += 1;
		else
			g_tgt_live -= 1;
		return;
	}
	if (p == (void *)&g_ent[0] || p == (void *)&g_ent[1]) {
		if (!g_ent_live)
			g_bad += 1;
		else
			g_ent_live -= 1;
		return;
	}
	g_bad += 1;
}

void strlist_cleanup(strlist_t *l) { (void)l; }

void process_args(int argc, char **argv)
{
	(void)argc; (void)argv;
	dont_skip = verif_nd_bool("opt.dont_skip");
	no_links = verif_nd_bool("opt.no_links");
	compressor = verif_nd_bool("opt.compress") ? 1 : 0;
	root_becomes = NULL;
}

int fprintf(FILE *f, const char *fmt, ...)
{
	(void)fmt;
	if (f == stderr)
		g_diag += 1;
	return 0;
}

#define main tool_main
#include "bin/sqfs2tar/src/sqfs2tar.c"
#undef main

void harness(void)
{
	static char *argv[2] = { "sqfs2tar", NULL };
	int status, i;

	c14_ghost_init();
	g_diag = 0;
	for (i = 0; i < O_N; ++i)
		g_live[i] = g_made[i] = 0;
	g_bad = g_xfrm_live = 0;
	g_entries_out = g_ent_live = g_ent_made = g_tgt_live = g_xattr_live = 0;
	g_hdr_written = g_skipped = g_term_seq = g_flush_seq = g_last_entry_seq = 0;
	out_file = NULL;

	status = tool_main(1, argv);

	VERIF_ASSERT(status == EXIT_SUCCESS || status == EXIT_FAILURE, "C13.main.status");
	VERIF_ASSERT(!g_fault || status == EXIT_FAILURE, "C13.main.status");
	if (status == EXIT_SUCCESS)
		VERIF_ASSERT(!g_fault && g_hdr_written + g_skipped == g_ent_made &&
			     (g_skipped == 0 || !dont_skip) &&
			     g_term_seq > g_last_entry_seq && g_flush_seq > g_term_seq,
			     "C13.success_is_faultfree");
	VERIF_ASSERT(status == EXIT_SUCCESS || g_diag >= 1, "C13.main.diagnostic");
	VERIF_ASSERT(g_bad == 0 && !g_live[O_RAW] && !g_live[O_WRAP] && !g_live[O_IT] &&
		     !g_live[O_HL] && !g_live[O_IN] && !g_xfrm_live && g_ent_live == 0 &&
		     g_tgt_live == 0 && g_xattr_live == 0,
		     "C13.main.releases");
	VERIF_COVER(status == EXIT_SUCCESS && g_ent_made == 2 && g_made[O_WRAP] && g_made[O_HL]);
	VERIF_COVER(status == EXIT_SUCCESS && g_ent_made == 0 && !g_made[O_WRAP] && !g_made[O_HL]);
	VERIF_COVER(status == EXIT_SUCCESS && g_skipped == 1);
	VERIF_COVER(status == EXIT_FAILURE && g_skipped == 1 && !g_fault);
	VERIF_COVER(status == EXIT_FAILURE && g_made[O_IN] == 1);
	VERIF_COVER(status == EXIT_FAILURE && g_made[O_RAW] == 0);
	VERIF_COVER(status == EXIT_FAILURE && g_term_seq != 0);
}
