/* C13.end_file.propagates / C13.enqueue_block.propagates (proved; loop
 * contract on get_new_block's back-pressure loop; block payload capacity
 * BP_BS): the main-thread front end of the block processor, frontend.c
 * sqfs_block_processor_end_file -> add_sentinel_block -> get_new_block ->
 * enqueue_block, all real. dequeue_block (backend.c) is its contract "fails,
 * or the backlog went down" (bp_block / bp_fragment prove the parts of its
 * body); malloc, alloc_flex and pool->submit may fail.
 *   C13.end_file.propagates       any failure => ret != 0
 *   C13.end_file.state            ret == 0 => the per-file state is reset;
 *                                 ret != 0 => the file stays "open"
 *                                 (begin_called), so the caller cannot start
 *                                 another file on a broken processor
 *   C13.enqueue_block.propagates  (case enqueue) submit / copy failure =>
 *                                 ret != 0, and a block refused by the pool is
 *                                 back on the free list
 *   C13.end_file.no_crash         cbmc pointer checks
 */
#define C14_SITE "bp_frontend"
#include <stdlib.h>
#include <string.h>
#include "verif.h"
#include "C14/c14_env.h"
#include "C13/c13_alloc.h"
#include "C13/bp_env.h"

static unsigned g_deq_calls;

int dequeue_block(sqfs_block_processor_t *proc)
{
	size_t dec = verif_nd_size("dequeue.dec");

	VERIF_ASSERT(proc == &g_proc && proc->backlog >= 3, "C13.env.dequeue_block.pre");
	g_deq_calls += 1;
	if (verif_nd_bool("dequeue.fail")) {
		g_fault = true;
		return c14_error_code("dequeue.err");
	}
	if (dec < 1 || dec > proc->backlog)
		dec = 1;
	proc->backlog -= dec;
	return 0;
}

void *alloc_flex(size_t base_size, size_t item_size, size_t nmemb)
{
	(void)base_size; (void)item_size;
	VERIF_ASSERT(nmemb <= BP_BS, "C13.env.alloc_flex.pre");
	if (verif_nd_bool("alloc_flex.fail")) {
		g_fault = true;
		return NULL;
	}
	{
#pragma push_macro("calloc")
#undef calloc
		bp_block_t *w = calloc(1, sizeof(*w));
#pragma pop_macro("calloc")
		VERIF_ASSUME(w != NULL);
		return w;
	}
}

/* get_new_block allocates sizeof(block) + max_block_size: give it the typed
 * wrapper (max_block_size == BP_BS in this harness) */
static void *c13_block_malloc(size_t n)
{
	VERIF_ASSERT(n == sizeof(sqfs_block_t) + BP_BS, "C13.env.block_malloc.size");
	if (verif_nd_bool("malloc.fail")) {
		g_fault = true;
		g_alloc_faults += 1;
		return NULL;
	}
	{
#pragma push_macro("calloc")
#undef calloc
		bp_block_t *w = calloc(1, sizeof(*w));
#pragma pop_macro("calloc")
		VERIF_ASSUME(w != NULL);
		g_allocs += 1;
		return w;
	}
}
#undef malloc
#define malloc c13_block_malloc

#include "lib/sqfs/src/block_processor/frontend.c"

#ifndef FE_ENQUEUE
#define FE_ENQUEUE 0
#endif


void harness(void)
{
	sqfs_block_t *cur = NULL;
	sqfs_u32 flags0;
	int ret;

	c14_ghost_init();
	bp_env_init();
	g_deq_calls = 0;
	g_proc.max_block_size = BP_BS;
	g_proc.backlog = verif_nd_size("backlog");
	VERIF_ASSUME(g_proc.backlog < 100000);
	if (verif_nd_bool("with_file"))
		g_proc.file = &g_file;
	if (verif_nd_bool("with_uncmp"))
		g_proc.uncmp = (sqfs_compressor_t *)&g_blkwr;	/* only tested for NULL */
	if (verif_nd_bool("free_list"))
		g_proc.free_list = bp_new_block(NULL);

#if FE_ENQUEUE
	cur = bp_new_block(NULL);
	ret = enqueue_block(&g_proc, cur);
	VERIF_ASSERT(!g_fault || ret != 0, "C13.enqueue_block.propagates");
	if (ret != 0 && g_alloc_faults == 0 && g_submitted == 0)
		VERIF_ASSERT(g_proc.free_list == cur || g_proc.fblk_in_flight == NULL,
			     "C13.enqueue_block.propagates");
	VERIF_COVER(ret == 0 && g_proc.fblk_in_flight != NULL);
	VERIF_COVER(ret == 0 && g_proc.fblk_in_flight == NULL);
	VERIF_COVER(ret != 0 && g_proc.free_list == cur);
	/* since fix 1bda2ca a refused block is always back on the free list (it
	 * used to be lost when the read-back copy could not be allocated:
	 * C13.bp.no_orphan, harness w17_own) */
	VERIF_ASSERT(ret == 0 || g_proc.free_list == cur,
		     "C13.enqueue_block.refused_block_kept");
#else
	g_proc.begin_called = verif_nd_bool("begin_called");
	g_proc.blk_flags = verif_nd_u32("blk_flags");
	flags0 = g_proc.blk_flags;
	if (verif_nd_bool("with_current")) {
		cur = bp_new_block(NULL);
		g_proc.blk_current = cur;
		VERIF_ASSUME(g_proc.backlog >= 1);
	}

	ret = sqfs_block_processor_end_file(&g_proc);

	VERIF_ASSERT(!g_fault || ret != 0, "C13.end_file.propagates");
	if (ret == 0)
		VERIF_ASSERT(!g_proc.begin_called && g_proc.blk_current == NULL &&
			     g_proc.blk_flags == 0 && g_proc.inode == NULL,
			     "C13.end_file.state");
	else if (ret != SQFS_ERROR_SEQUENCE)
		VERIF_ASSERT(g_proc.begin_called && g_proc.blk_flags == flags0,
			     "C13.end_file.state");
	VERIF_COVER(ret == 0 && g_submitted == 2 && g_deq_calls >= 1);
	VERIF_COVER(ret == 0 && g_submitted == 1 && cur != NULL);
	VERIF_COVER(ret == 0 && g_submitted == 0);
	VERIF_COVER(ret != 0 && g_alloc_faults == 1);
	VERIF_COVER(ret != 0 && g_deq_calls == 2);
	VERIF_COVER(ret == SQFS_ERROR_SEQUENCE);
#endif
}
