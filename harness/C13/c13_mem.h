/*
 * c13_mem.h - checking stubs for payload memcpy/memset (DESIGN 2.4): assert
 * the extents, copy small objects exactly (<= 8 bytes: headers), otherwise
 * give one witness byte its value. Included before the real file.
 */
#ifndef C13_MEM_H
#define C13_MEM_H
#include <string.h>

static void *c13_memcpy(void *dst, const void *src, size_t n)
{
	VERIF_ASSERT(VERIF_R_OK(src, n) && VERIF_W_OK(dst, n), "C13.env.memcpy.extent");
#ifdef VERIF_REPLAY
	return memcpy(dst, src, n);
#else
	if (n <= 8) {
		size_t i;
		for (i = 0; i < 8; ++i) {
			if (i < n)
				((unsigned char *)dst)[i] = ((const unsigned char *)src)[i];
		}
	} else {
#ifndef C13_MEM_NO_WITNESS
		size_t k = verif_nd_size("memcpy.k");
		if (k < n)
			((unsigned char *)dst)[k] = ((const unsigned char *)src)[k];
#endif
		/* C13_MEM_NO_WITNESS: payload bytes are not transferred at all;
		 * sound only where no obligation and no branch of the function
		 * under test reads payload bytes (stated in the harness) */
	}
	return dst;
#endif
}

static void *c13_memset(void *dst, int c, size_t n)
{
	VERIF_ASSERT(VERIF_W_OK(dst, n), "C13.env.memset.extent");
#ifdef VERIF_REPLAY
	return memset(dst, c, n);
#else
#ifndef C13_MEM_NO_WITNESS
	{
		size_t k = verif_nd_size("memset.k");
		if (k < n)
			((unsigned char *)dst)[k] = (unsigned char)c;
	}
#endif
	return dst;
#endif
}

#define memcpy c13_memcpy
#define memset c13_memset
#endif
