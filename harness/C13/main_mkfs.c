/* C13.main.status for gensquashfs (proved): the real main() and pack_files()
 * of bin/gensquashfs/src/mkfs.c, every other callee its contract
 * (main_env.h); pack_files runs over an empty file list (the per-file chain
 * pack_file -> block processor is the bp_* harnesses). Options (selinux file,
 * xattr map, sort file, pack file vs. directory scan, pack dir) are symbolic:
 * every stage of every option combination may fail.
 * Obligations as in main_tar2sqfs.c, plus
 *   C13.main.releases_input   selinux handle closed / sort file dropped /
 *                             directory iterator dropped exactly once
 * Loop-free (empty file list).
 */
#define C14_SITE "main_mkfs"
#include <stdlib.h>
#include <string.h>
#include <assert.h>
#include "verif.h"
#include "C14/c14_env.h"
#include "C14/c14_libc.h"
/* ghost working directory (see chdir/open/fchdir below) */
static int g_cwd;		/* 0 home, 1 moved */
static int g_home_fd = -1;	/* descriptor of the home directory, if open */
static _Bool g_home_fd_closed;
static int g_cwd_at_cleanup;
static _Bool g_fchdir_failed;
#define MAIN_ENV_CLEANUP_HOOK(status) (g_cwd_at_cleanup = g_cwd)
#include "C13/main_env.h"
#include "bin/gensquashfs/src/mkfs.h"

static sqfs_istream_t g_sortfile;
static sqfs_dir_iterator_t g_dir_it;
static int g_sehnd_obj, g_xattrmap_obj;
static unsigned g_sort_destroyed, g_dir_destroyed, g_se_closed, g_se_opened,
		g_sort_opened, g_dir_opened;
static bool g_pre_failed;	/* a non-stage step failed (open of an input) */
static options_t *g_opt;

void sort_destroy(sqfs_object_t *o)
{
	VERIF_ASSERT(o == (sqfs_object_t *)&g_sortfile, "C13.env.destroy.known_object");
	g_sort_destroyed += 1;
}

void dir_destroy(sqfs_object_t *o)
{
	VERIF_ASSERT(o == (sqfs_object_t *)&g_dir_it, "C13.env.destroy.known_object");
	g_dir_destroyed += 1;
}

void process_command_line(options_t *opt, int argc, char **argv)
{
	(void)argc; (void)argv;
	memset(opt, 0, sizeof(*opt));
	g_opt = opt;
	opt->cfg.filename = "out.sqfs";
	opt->cfg.quiet = verif_nd_bool("opt.quiet");
	opt->cfg.block_size = 131072;
	/* scan options of --pack-dir: every value (C11.main.scan_cfg) */
	opt->dirscan_flags = verif_nd_u32("opt.dirscan_flags");
	opt->force_uid_value = verif_nd_u32("opt.force_uid");
	opt->force_gid_value = verif_nd_u32("opt.force_gid");
	opt->selinux = verif_nd_bool("opt.selinux") ? "ctx" : NULL;
	opt->xattr_file = verif_nd_bool("opt.xattr_file") ? "map" : NULL;
	opt->sortfile = verif_nd_bool("opt.sortfile") ? "sort" : NULL;
	opt->infile = verif_nd_bool("opt.infile") ? "pack" : NULL;
	if (opt->infile == NULL || verif_nd_bool("opt.packdir")) {
#pragma push_macro("malloc")
#undef malloc
		opt->packdir = malloc(4);
#pragma pop_macro("malloc")
		VERIF_ASSUME(opt->packdir != NULL);
		opt->packdir[0] = 'd';
		opt->packdir[1] = '\0';
	}
}

static bool pre_fail(const char *tag)
{
	g_seq += 1;
	VERIF_ASSERT(g_cleanup_calls == 0, "C13.main.no_stage_after_cleanup");
	VERIF_ASSERT(g_ms_failed == 0 && !g_pre_failed,
		     "C13.main.stops_at_first_failure");
	if (verif_nd_bool(tag)) {
		g_fault = true;
		g_pre_failed = true;
		g_diag += 1;
		return true;
	}
	return false;
}

void *selinux_open_context_file(const char *filename)
{
	(void)filename;
	if (pre_fail("selinux_open.fail"))
		return NULL;
	g_se_opened += 1;
	return &g_sehnd_obj;
}

void selinux_close_context_file(void *sehnd)
{
	VERIF_ASSERT(sehnd == &g_sehnd_obj, "C13.main.stage_args");
	g_se_closed += 1;
}

void *xattr_open_map_file(const char *path)
{
	(void)path;
	if (pre_fail("xattr_map_open.fail"))
		return NULL;
	return &g_xattrmap_obj;
}

int sqfs_istream_open_file(sqfs_istream_t **out, const char *path, sqfs_u32 flags)
{
	(void)path; (void)flags;
	if (verif_nd_bool("sortfile_open.fail")) {
		/* main prints the diagnostic itself here */
		g_seq += 1;
		g_fault = true;
		g_pre_failed = true;
		*out = NULL;
		return c14_error_code("sortfile_open.err");
	}
	g_sortfile.base.refcount = 1;
	g_sortfile.base.destroy = sort_destroy;
	g_sort_opened += 1;
	*out = &g_sortfile;
	return 0;
}

sqfs_dir_iterator_t *dir_tree_iterator_create(const char *path,
					      const dir_tree_cfg_t *c)
{
	/* C11: -H / -o / -k ... reach the scan exactly as given: the directory
	 * scan is configured by the options alone (a dropped DIR_SCAN_NO_HARDLINKS
	 * makes the image depend on the enumeration order again) */
	VERIF_ASSERT(c != NULL && c->flags == g_opt->dirscan_flags &&
		     c->def_uid == g_opt->force_uid_value &&
		     c->def_gid == g_opt->force_gid_value &&
		     c->def_mtime == g_ms_writer->fs.defaults.mtime &&
		     c->prefix == NULL && c->name_pattern == NULL &&
		     path == g_opt->packdir, "C11.main.scan_cfg");
	if (pre_fail("dir_iterator.fail"))
		return NULL;
	((sqfs_object_t *)&g_dir_it)->refcount = 1;
	((sqfs_object_t *)&g_dir_it)->destroy = dir_destroy;
	g_dir_opened += 1;
	return &g_dir_it;
}

int scan_directory(fstree_t *fs, sqfs_dir_iterator_t *dir, size_t prefix_len,
		   const char *file_prefix)
{
	(void)prefix_len; (void)file_prefix;
	VERIF_ASSERT(fs == &g_ms_writer->fs && dir == &g_dir_it, "C13.main.stage_args");
	return ms_stage(MS_INPUT, "scan_directory.fail");
}

int fstree_from_file(fstree_t *fs, const char *filename, const options_t *opt)
{
	(void)filename; (void)opt;
	VERIF_ASSERT(fs == &g_ms_writer->fs, "C13.main.stage_args");
	return ms_stage(MS_INPUT, "fstree_from_file.fail");
}

int apply_xattrs(fstree_t *fs, const options_t *opt, void *selinux_handle,
		 void *xattr_map, sqfs_xattr_writer_t *xwr)
{
	(void)xwr;
	VERIF_ASSERT(fs == &g_ms_writer->fs &&
		     (selinux_handle != NULL) == (opt->selinux != NULL) &&
		     (xattr_map != NULL) == (opt->xattr_file != NULL),
		     "C13.main.stage_args");
	return ms_stage(MS_XATTR, "apply_xattrs.fail");
}

int fstree_sort_files(fstree_t *fs, sqfs_istream_t *sortfile)
{
	VERIF_ASSERT(fs == &g_ms_writer->fs && sortfile == &g_sortfile,
		     "C13.main.stage_args");
	return ms_stage(MS_SORT, "sort_files.fail");
}

/* The working directory as a ghost: 0 = the directory the tool was started in
 * (the one a relative output file name refers to), 1 = somewhere else.
 * chdir() moves away; the only way back is fchdir() on a descriptor obtained
 * by open(".") while still there. */

int chdir(const char *path)
{
	(void)path;
	if (verif_nd_bool("chdir.fail")) {
		g_seq += 1;
		g_fault = true;
		g_pre_failed = true;
		return -1;
	}
	g_cwd = 1;
	return 0;
}

int open(const char *path, int flags, ...)
{
	(void)flags;
	/* the only open(2) main/pack_files may issue itself: the current directory */
	VERIF_ASSERT(path != NULL && path[0] == '.' && path[1] == '\0',
		     "C13.env.open.known_path");
	if (verif_nd_bool("open_dot.fail")) {
		g_seq += 1;
		g_fault = true;
		g_pre_failed = true;
		return -1;
	}
	if (g_cwd == 0)
		g_home_fd = 7;
	return 7;
}

int fchdir(int fd)
{
	VERIF_ASSERT(fd == 7 && !g_home_fd_closed, "C13.env.fchdir.open_descriptor");
	if (verif_nd_bool("fchdir.fail")) {
		/* not a fault of the packing run: the way back only matters for
		 * removing the output of a run that failed for another reason */
		g_fchdir_failed = true;
		return -1;
	}
	g_cwd = (g_home_fd == 7) ? 0 : 1;
	return 0;
}

int close(int fd)
{
	VERIF_ASSERT(fd == 7 && !g_home_fd_closed, "C13.env.close.open_descriptor");
	g_home_fd_closed = true;
	return 0;
}

/* never reached with an empty file list */
char *fstree_get_path(tree_node_t *node) { (void)node; g_fault = true; return NULL; }
int canonicalize_name(char *filename) { (void)filename; return 0; }
int sqfs_native_file_open(sqfs_file_handle_t *out, const char *f, sqfs_u32 fl)
{ (void)out; (void)f; (void)fl; g_fault = true; return SQFS_ERROR_IO; }
int sqfs_native_file_get_size(sqfs_file_handle_t hnd, sqfs_u64 *out)
{ (void)hnd; (void)out; g_fault = true; return SQFS_ERROR_IO; }
void sqfs_native_file_close(sqfs_file_handle_t fd) { (void)fd; }
int sqfs_istream_open_handle(sqfs_istream_t **out, const char *path,
			     sqfs_file_handle_t fd, sqfs_u32 flags)
{ (void)out; (void)path; (void)fd; (void)flags; g_fault = true; return SQFS_ERROR_IO; }
int sqfs_block_processor_create_ostream(sqfs_ostream_t **out, const char *filename,
					sqfs_block_processor_t *proc,
					sqfs_inode_generic_t **inode, sqfs_u32 flags)
{ (void)out; (void)filename; (void)proc; (void)inode; (void)flags; g_fault = true; return SQFS_ERROR_IO; }
sqfs_s32 sqfs_istream_splice(sqfs_istream_t *in, sqfs_ostream_t *out, sqfs_u32 size)
{ (void)in; (void)out; (void)size; g_fault = true; return SQFS_ERROR_IO; }
int c13_ostream_flush(sqfs_ostream_t *strm) { (void)strm; return 0; }

#define main tool_main
#include "bin/gensquashfs/src/mkfs.c"
#undef main

void harness(void)
{
	static char *argv[2] = { "gensquashfs", NULL };
	unsigned want;
	int status;

	c14_ghost_init();
	main_env_init();
	g_sort_destroyed = g_dir_destroyed = g_se_closed = g_se_opened = 0;
	g_sort_opened = g_dir_opened = 0;
	g_pre_failed = false;
	g_opt = NULL;
	g_cwd = 0;
	g_home_fd = -1;
	g_home_fd_closed = false;
	g_cwd_at_cleanup = -1;
	g_fchdir_failed = false;

	status = tool_main(1, argv);

	want = MS_INIT | MS_INPUT | MS_POST | MS_XATTR | MS_FINISH;
	if (g_sort_opened)
		want |= MS_SORT;
	/* pack_files is real code here: it "ran" iff finish was reached */
	main_check(status, want, g_pre_failed);
	VERIF_ASSERT(g_se_closed == g_se_opened && g_sort_destroyed == g_sort_opened &&
		     g_dir_destroyed == g_dir_opened, "C13.main.releases_input");
	/* "the packers remove their partial output file": sqfs_writer_cleanup
	 * unlinks cfg.filename (proved in cleanup.c) - a relative name here -
	 * so a failing run has to call it from the directory the name refers to */
	VERIF_ASSERT(g_cleanup_calls == 0 || status == EXIT_SUCCESS ||
		     g_cwd_at_cleanup == 0 || g_fchdir_failed,
		     "C13.main.unlink_resolves");
	VERIF_ASSERT(g_home_fd != 7 || g_home_fd_closed, "C13.main.releases_input");
	VERIF_COVER(status == EXIT_SUCCESS && g_sort_opened && g_se_opened && g_dir_opened);
	VERIF_COVER(status == EXIT_SUCCESS && !g_sort_opened && !g_dir_opened);
	VERIF_COVER(status == EXIT_FAILURE && (g_ms_failed & MS_INIT));
	VERIF_COVER(status == EXIT_FAILURE && g_pre_failed && g_se_opened);
	VERIF_COVER(status == EXIT_FAILURE && (g_ms_failed & MS_FINISH));
	VERIF_COVER(status == EXIT_FAILURE && (g_ms_failed & MS_SORT));
}
