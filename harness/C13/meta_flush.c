/* C13.meta_flush.propagates (proved): sqfs_meta_writer_flush() + write_block()
 * (meta_writer.c), metadata writer in an arbitrary state (any fill level,
 * both modes, list empty or not). calloc, the compressor and write_at may
 * fail:
 *   C13.meta_flush.propagates     any failure => ret != 0
 *   C13.meta_flush.no_leak        the block buffer is freed or queued, never
 *                                 both, never lost (ghost alloc/free balance)
 *   C13.meta_flush.fail_keeps_data  allocation / compressor failure leaves the
 *                                 pending data (offset) untouched
 *   C13.meta_flush.block_wf       a queued / written block has stored length
 *                                 <= 8192 (precondition of ao_write_block)
 *   C14.append_only.meta_flush    (file contract) the write goes to the end
 * Payload memcpy/memset are checking stubs (c13_mem.h). Loop-free.
 */
#define C14_SITE "meta_flush"
/* 8 KiB buffers inside structs: no symbolic-index byte accesses (SAT does not
 * finish otherwise). Payload bytes are never read by the code under test nor
 * by an obligation here; the 2 byte block header is copied exactly. */
#define C13_MEM_NO_WITNESS
#define C14_NO_WITNESS
#include <stdlib.h>
#include <string.h>
#include "verif.h"
#include "C14/c14_env.h"
#include "C13/c13_alloc.h"
#include "C13/c13_mem.h"

static unsigned g_frees;
static void c13_free(void *p)
{
	if (p != NULL)
		g_frees += 1;
	free(p);
}
#define free c13_free

#include "lib/sqfs/src/meta_writer.c"
#undef free

static sqfs_compressor_t g_cmp;

void harness(void)
{
	static sqfs_meta_writer_t m;
	static meta_block_t tail;
	sqfs_u64 size0 = verif_nd_u64("fsize");
	size_t off0;
	bool had_list = verif_nd_bool("had_list");
	int ret;

	VERIF_ASSUME(size0 >= C14_SUPER_SZ && size0 <= C14_FILE_MAX);
	c14_file_init(size0);
	g_allocs = g_alloc_faults = g_frees = 0;
	g_cmp.do_block = c14_do_block;
	m.file = &g_file;
	m.cmp = &g_cmp;
	m.offset = verif_nd_size("offset");
	VERIF_ASSUME(m.offset <= sizeof(m.data));
	off0 = m.offset;
	m.block_offset = verif_nd_size("block_offset");
	VERIF_ASSUME(m.block_offset <= ((size_t)1 << 62));
	m.flags = verif_nd_bool("keep") ? SQFS_META_WRITER_KEEP_IN_MEMORY : 0;
	if (had_list) {
		m.list = &tail;
		m.list_end = &tail;
	}

	ret = sqfs_meta_writer_flush(&m);

	VERIF_ASSERT(!g_fault || ret != 0, "C13.meta_flush.propagates");
	if (m.flags & SQFS_META_WRITER_KEEP_IN_MEMORY) {
		VERIF_ASSERT(g_frees == 0 || (g_allocs == 1 && g_frees == 1 && ret != 0),
			     "C13.meta_flush.no_leak");
		if (ret == 0 && off0 != 0) {
			sqfs_u16 hdr = (sqfs_u16)(m.list_end->data[0] |
						  (m.list_end->data[1] << 8));
			VERIF_ASSERT(m.list_end != NULL && m.list_end != &tail &&
				     (hdr & 0x7FFF) <= SQFS_META_BLOCK_SIZE &&
				     (hdr & 0x7FFF) != 0,
				     "C13.meta_flush.block_wf");
		}
	} else {
		VERIF_ASSERT(g_frees == g_allocs, "C13.meta_flush.no_leak");
	}
	if (ret != 0 && g_nwrite == 0)
		VERIF_ASSERT(m.offset == off0, "C13.meta_flush.fail_keeps_data");
	VERIF_COVER(ret == 0 && off0 == 0);
	VERIF_COVER(ret == 0 && g_nwrite == 1 && off0 == 8192);
	VERIF_COVER(ret == 0 && m.list_end != &tail && had_list && off0 == 100);
	VERIF_COVER(ret != 0 && g_alloc_faults == 1);
	VERIF_COVER(ret != 0 && g_nwrite == 1);
	VERIF_COVER(ret != 0 && g_allocs == 1 && g_nwrite == 0);
}
