PROPERTY = "C13"
LEVEL = "proof"
FUNCTIONS = ["sqfs_writer_cleanup"]
TRUSTED = []
ASSUMPTIONS = []
EXPLANATION = ""

_FP_FILE = {"write_at": "c14_write_at", "get_size": "c14_get_size",
            "truncate": "c14_truncate", "read_at": "c14_read_at"}
_FP_WRITER = dict(_FP_FILE, write_options="c14_write_options", do_block="c14_do_block",
                  destroy=["c14_comp_destroy", "c14_outfile_destroy"])

HARNESSES = [
    dict(name="writer_init", file="writer_init.c", label="proved",
         fp={"write_at": "c14_write_at", "read_at": "rd_read_at",
             "write_options": "c14_write_options",
             "destroy": ["c14_comp_destroy", "c14_outfile_destroy"]},
         unwind=22, timeout=600, cases=[dict(id="all", tier="quick")]),
    dict(name="cleanup", file="cleanup.c", label="proved", fp=_FP_WRITER,
         timeout=300, cases=[dict(id="all", tier="quick")]),
]
