PROPERTY = "C13"
LEVEL = "proof"
FUNCTIONS = ["sqfs_writer_cleanup"]
TRUSTED = []
ASSUMPTIONS = []
EXPLANATION = ""

_FP_FILE = {"write_at": "c14_write_at", "get_size": "c14_get_size",
            "truncate": "c14_truncate", "read_at": "c14_read_at"}
_FP_WRITER = dict(_FP_FILE, write_options="c14_write_options", do_block="c14_do_block",
                  destroy=["c14_comp_destroy", "c14_outfile_destroy"])

_FP_BP = dict(_FP_FILE, write_data_block="c13_write_data_block", do_block="c14_do_block",
              destroy="c14_obj_destroy", submit="c13_pool_submit", dequeue="c13_pool_dequeue",
              get_status="c13_pool_get_status", get_worker_count="c13_pool_get_worker_count",
              set_worker_ptr="c13_pool_set_worker_ptr")

HARNESSES = [
    dict(name="main_mkfs", file="main_mkfs.c", label="proved",
         fp={"destroy": ["sort_destroy", "dir_destroy"], "flush": "c13_ostream_flush"},
         timeout=300, cases=[dict(id="all", tier="quick")]),
    dict(name="main_tar2sqfs", file="main_tar2sqfs.c", label="proved",
         fp={"destroy": ["in_destroy", "it_destroy"]},
         timeout=300, cases=[dict(id="all", tier="quick")]),
    dict(name="alloc", file="alloc.c", label="proved", timeout=300, native=False,
         cases=[dict(id="all", tier="quick")]),
    dict(name="array_ops", file="array_ops.c", label="proved", unwind=66, timeout=600,
         cases=[dict(id="init", defines={"OP": 0}, tier="quick"),
                dict(id="init_copy", defines={"OP": 1}, tier="quick"),
                dict(id="append_sz4", defines={"OP": 2, "ESIZE": 4}, tier="quick",
                     label="bounded(element size in {4,8,16})"),
                dict(id="append_sz8", defines={"OP": 2, "ESIZE": 8}, tier="quick",
                     label="bounded(element size in {4,8,16})"),
                dict(id="append_sz16", defines={"OP": 2, "ESIZE": 16}, tier="quick",
                     label="bounded(element size in {4,8,16})"),
                dict(id="set_capacity", defines={"OP": 3}, tier="quick")]),
    dict(name="write_table", file="write_table.c", label="proved",
         loops=["sqfs_write_table"], loop_tables=["C14"],
         fp=dict(_FP_FILE, destroy="mw_destroy"),
         timeout=600, cases=[dict(id="all", tier="quick")]),
    dict(name="tables", file="tables.c", label="bounded(entries <= 3)",
         fp=dict(_FP_FILE, destroy="tbl_destroy", copy="tbl_copy"), unwind=50,
         timeout=600, cases=[dict(id="n3", tier="quick")]),
    dict(name="meta_flush", file="meta_flush.c", label="proved",
         fp=dict(_FP_FILE, do_block="c14_do_block", destroy="c14_obj_destroy"),
         timeout=600, cases=[dict(id="all", tier="quick")]),
    dict(name="bp_frontend", file="bp_frontend.c", label="proved", fp=_FP_BP,
         loops=["get_new_block"], timeout=600, defines={"BP_BS": 16},
         cases=[dict(id="end_file", defines={"FE_ENQUEUE": 0}, tier="quick"),
                dict(id="enqueue", defines={"FE_ENQUEUE": 1}, tier="quick")]),
    # cbmc 6.11 attaches no loop contract to a condition-less "for (;;)" (the
    # clauses are silently dropped, caught by the driver's base/step count), so
    # the drain loop of sqfs_block_processor_sync is unwound: backlog <= 4
    dict(name="bp_finish", file="bp_finish.c", label="bounded(backlog <= 4)", fp=_FP_BP,
         unwind=7, timeout=600, cases=[dict(id="all", tier="quick")]),
    dict(name="bp_fragment", file="bp_fragment.c",
         label="bounded(block index <= 11, payload <= 16)", fp=_FP_BP, unwind=6, timeout=900,
         cases=[dict(id="avail0", defines={"INODE_AVAIL": 0}, tier="quick"),
                dict(id="avail16", defines={"INODE_AVAIL": 16}, tier="quick")]),
    dict(name="bp_block", file="bp_block.c",
         label="bounded(block index <= 11, in-flight copies <= 2)", fp=_FP_BP, unwind=6, timeout=900,
         # "flags & ~BLK_FLAG_INTERNAL": int mask converted to unsigned, defined
         # behaviour (modular) that --conversion-check flags
         nochecks=["--conversion-check"],
         cases=[dict(id="avail0", defines={"INODE_AVAIL": 0}, tier="quick"),
                dict(id="avail16", defines={"INODE_AVAIL": 16}, tier="quick")]),
    dict(name="bp_set_block_size", file="bp_set_block_size.c",
         label="bounded(block index <= 11)", fp=_FP_BP, unwind=6, timeout=600,
         cases=[dict(id="avail0", defines={"INODE_AVAIL": 0}, tier="quick"),
                dict(id="avail16", defines={"INODE_AVAIL": 16}, tier="quick")]),
    dict(name="export_table", file="export_table.c", label="proved",
         fp=dict(_FP_FILE, destroy="c14_obj_destroy"),
         timeout=600, cases=[dict(id="all", tier="quick")]),
    dict(name="finish", file="finish.c", label="proved",
         fp=dict(_FP_FILE, get_block_count="c14_get_block_count"),
         timeout=600, cases=[dict(id="all", tier="quick")]),
    dict(name="writer_init", file="writer_init.c", label="proved",
         fp={"write_at": "c14_write_at", "read_at": "rd_read_at",
             "write_options": "c14_write_options",
             "destroy": ["c14_comp_destroy", "c14_outfile_destroy"]},
         unwind=22, timeout=600, cases=[dict(id="all", tier="quick")]),
    dict(name="cleanup", file="cleanup.c", label="proved", fp=_FP_WRITER,
         timeout=300, cases=[dict(id="all", tier="quick")]),
]
