PROPERTY = "C13"
LEVEL = "proof"
FUNCTIONS = [
    "main (gensquashfs mkfs.c)", "pack_files (empty list)", "main (tar2sqfs)",
    "sqfs_writer_init", "sqfs_writer_finish", "padd_sqfs", "sqfs_writer_cleanup",
    "sqfs_dir_writer_write_export_table", "add_export_table_entry",
    "sqfs_write_table", "sqfs_id_table_write", "sqfs_frag_table_write",
    "sqfs_meta_writer_flush", "write_block", "sqfs_xattr_writer_flush",
    "set_block_size", "process_completed_block", "process_completed_fragment",
    "release_old_block", "get_new_block", "add_sentinel_block", "enqueue_block",
    "sqfs_block_processor_end_file", "sqfs_block_processor_sync",
    "sqfs_block_processor_finish",
    "array_init", "array_init_copy", "array_append", "array_set_capacity",
    "alloc_flex", "alloc_array",
]
TRUSTED = [
    "allocator contract (harness/C13/c13_alloc.h): malloc/calloc/realloc return NULL (fault) or a fresh object; realloc failure leaves the old block valid",
    "sqfs_file_t contract (harness/C14/c14_env.h): write_at / truncate / read_at fail or succeed at every call (proved for stdio_write_at in C14)",
    "stage contracts of the mains (harness/C13/main_env.h): each stage fails (and prints its own diagnostic) or succeeds; sqfs_writer_cleanup is its contract proved in cleanup.c",
    "component constructors / destroy hooks as in harness/C14/writer_env.h (references taken as the real constructors take them)",
    "thread pool contract (bp_env.h): submit fails or accepts; dequeue returns the next block or NULL with a status that may be 0",
    "block writer write_data_block, fragment table set/append/lookup, fragment hash table lookup/insert (incl. the comparison callback's error channel fblk_lookup_error), sqfs_inode_* helpers for file inodes, dequeue_block contract 'fails or lowers the backlog' (frontend / finish harnesses)",
    "static helpers of xattr_writer_flush.c replaced by contracts (dfcc)",
    "unlink() is the removal of the output; stdio diagnostics have no other effect",
]
ASSUMPTIONS = [
    "per-function fail-stop: fault => return != success for each function against its callees' contracts; the composition into 'the tool exits non-zero' is the two main harnesses plus these links, not a whole-program run",
    "not covered: option parsers, sqfs_serialize_fstree/serialize_tree_node/write_dir_entries, dequeue_block as a whole (its callees process_completed_block/_fragment are covered; chaining them under one harness did not finish: 14 min symex), sqfs_block_processor_append, sqfs_meta_writer_append, pack_file / istream / ostream chain (C12), sqfs2tar and rdsquashfs, dir_writer other than the export table, signals, diagnostics text",
    "bounded parts: block index <= 11, inode payload capacity 0/16, block payload <= 16 bytes, in-flight fragment copies <= 2, backlog <= 4 in sync/finish, table entries <= 3, array element size in {4,8,16}, alloc item size in {1,8,16}",
    "sqfs_block_processor_append(size = 0) with no current block dereferences NULL (C01.bp.append_safe) - not re-reported here",
    "array_init_copy of an empty array calls memcpy(NULL, NULL, 0) (formally undefined; C19's copy hooks) - excluded by requires",
    "callers zero-fill sqfs_writer_t when they set no_xattr (tar2sqfs does; gensquashfs never sets it)",
]
EXPLANATION = ("ghost flag g_fault is set by every environment contract that reports failure or NULL; each "
               "function on the writer call chain is checked for 'g_fault => return != success' (and the "
               "converse where meaningful) with every callee free to fail at every call, so all single and "
               "multiple fault positions are covered per function; cleanup unlinks the output for every "
               "non-success status after closing it; both mains return EXIT_FAILURE on any stage failure and "
               "call cleanup with exactly that status.")

_FP_FILE = {"write_at": "c14_write_at", "get_size": "c14_get_size",
            "truncate": "c14_truncate", "read_at": "c14_read_at"}
_FP_WRITER = dict(_FP_FILE, write_options="c14_write_options", do_block="c14_do_block",
                  destroy=["c14_comp_destroy", "c14_outfile_destroy"])

_FP_BP = dict(_FP_FILE, write_data_block="c13_write_data_block", do_block="c14_do_block",
              destroy="c14_obj_destroy", submit="c13_pool_submit", dequeue="c13_pool_dequeue",
              get_status="c13_pool_get_status", get_worker_count="c13_pool_get_worker_count",
              set_worker_ptr="c13_pool_set_worker_ptr")

HARNESSES = [
    dict(name="main_mkfs", file="main_mkfs.c", label="proved",
         fp={"destroy": ["sort_destroy", "dir_destroy"], "flush": "c13_ostream_flush"},
         timeout=300, cases=[dict(id="all", tier="quick")]),
    dict(name="main_tar2sqfs", file="main_tar2sqfs.c", label="proved",
         fp={"destroy": ["in_destroy", "it_destroy"]},
         timeout=300, cases=[dict(id="all", tier="quick")]),
    dict(name="rd_fill_files", file="rd_fill_files.c",
         label="bounded(file list <= 2, tree <= 3 nodes)", unwind=5, timeout=600,
         fp={"destroy": ["out_destroy", "in_destroy"], "flush": "out_flush"},
         cases=[dict(id="add_file_n%d_m%d" % (n, m), defines={"RD_CASE": 0, "RD_N0": n, "RD_M0": m},
                     tier="quick", timeout=200) for (n, m) in ((0, 0), (1, 1), (2, 2), (1, 2))] + [
                dict(id="unpack", defines={"RD_CASE": 1}, tier="quick")]),
    dict(name="rd_restore", file="rd_restore.c",
         label="bounded(tree = 4 nodes, xattr pairs <= 2)", unwind=5, timeout=600,
         nochecks=["--conversion-check"],   # "mode & ~S_IFMT": int mask on u16
         cases=[dict(id="restore", defines={"RS_CASE": 0}, tier="quick"),
                dict(id="attribs", defines={"RS_CASE": 1}, tier="quick")]),
    dict(name="alloc", file="alloc.c", label="bounded(item size in {1,8,16})", timeout=120,
         cases=[dict(id="item%d" % n, defines={"ITEM": n}, tier="quick") for n in (1, 8, 16)]),
    dict(name="array_ops", file="array_ops.c", label="proved", unwind=66, timeout=600,
         cases=[dict(id="init", defines={"OP": 0}, tier="quick"),
                dict(id="init_copy", defines={"OP": 1}, tier="quick"),
                dict(id="append_sz4", defines={"OP": 2, "ESIZE": 4}, tier="quick",
                     label="bounded(element size in {4,8,16})"),
                dict(id="append_sz8", defines={"OP": 2, "ESIZE": 8}, tier="quick",
                     label="bounded(element size in {4,8,16})"),
                dict(id="append_sz16", defines={"OP": 2, "ESIZE": 16}, tier="quick",
                     label="bounded(element size in {4,8,16})"),
                dict(id="set_capacity", defines={"OP": 3}, tier="quick")]),
    dict(name="write_table", file="write_table.c", label="proved",
         loops=["sqfs_write_table"], loop_tables=["C14"],
         fp=dict(_FP_FILE, destroy="mw_destroy"),
         timeout=600, cases=[dict(id="all", tier="quick")]),
    dict(name="tables", file="tables.c", label="bounded(entries <= 3)",
         fp=dict(_FP_FILE, destroy="tbl_destroy", copy="tbl_copy"), unwind=50,
         timeout=600, cases=[dict(id="n3", tier="quick")]),
    dict(name="xattr_flush", file="xattr_flush.c", label="proved",
         mode="dfcc", replace=["write_kv_pairs", "write_id_table", "alloc_location_table"],
         loops=["sqfs_xattr_writer_flush"], loop_tables=["C14"], native=False,
         fp=dict(_FP_FILE, destroy="mw_destroy"),
         timeout=600, cases=[dict(id="all", tier="quick")]),
    dict(name="meta_append", file="meta_append.c", timeout=600, weight=20,
         instrument_flags=["--replace-calls", "sqfs_meta_writer_flush:c13_flush_contract"],
         fp=dict(_FP_FILE, do_block="c14_do_block", destroy="c14_obj_destroy"),
         cases=[dict(id="max300", tier="quick", label="bounded(append size <= 300)",
                     defines={"APPEND_MAX": 300},
                     unwindset=["sqfs_meta_writer_append.0:4", "c13_memcpy.0:9"]),
                dict(id="max9000", tier="thorough", label="bounded(append size <= 9000)",
                     defines={"APPEND_MAX": 9000},
                     unwindset=["sqfs_meta_writer_append.0:5", "c13_memcpy.0:9"])]),
    dict(name="meta_flush", file="meta_flush.c", label="proved",
         fp=dict(_FP_FILE, do_block="c14_do_block", destroy="c14_obj_destroy"),
         timeout=600, cases=[dict(id="all", tier="quick")]),
    dict(name="bp_frontend", file="bp_frontend.c", label="proved", fp=_FP_BP,
         loops=["get_new_block"], timeout=600, defines={"BP_BS": 16},
         cases=[dict(id="end_file", defines={"FE_ENQUEUE": 0}, tier="quick"),
                dict(id="enqueue", defines={"FE_ENQUEUE": 1}, tier="quick")]),
    # cbmc 6.11 attaches no loop contract to a condition-less "for (;;)" (the
    # clauses are silently dropped, caught by the driver's base/step count), so
    # the drain loop of sqfs_block_processor_sync is unwound: backlog <= 4
    dict(name="bp_finish", file="bp_finish.c", label="bounded(backlog <= 4)", fp=_FP_BP,
         unwind=7, timeout=600, cases=[dict(id="all", tier="quick")]),
    dict(name="bp_append", file="bp_append.c",
         instrument_flags=["--replace-calls", "get_new_block:c13_get_new_block",
                           "--replace-calls", "enqueue_block:c13_enqueue_block"],
         label="bounded(append size <= 2 blocks + 3, block = 8)", fp=_FP_BP,
         defines={"BP_BS": 8}, unwind=9, timeout=280, nochecks=["--conversion-check"],
         cases=[dict(id="all", tier="quick")]),
    dict(name="bp_fragment", file="bp_fragment.c",
         label="bounded(block index <= 11, payload <= 16)", fp=_FP_BP, unwind=6, timeout=900,
         cases=[dict(id="avail0", defines={"INODE_AVAIL": 0}, tier="quick"),
                dict(id="avail16", defines={"INODE_AVAIL": 16}, tier="quick")]),
    dict(name="bp_block", file="bp_block.c",
         label="bounded(block index <= 11, in-flight copies <= 2)", fp=_FP_BP, unwind=6, timeout=900,
         # "flags & ~BLK_FLAG_INTERNAL": int mask converted to unsigned, defined
         # behaviour (modular) that --conversion-check flags
         nochecks=["--conversion-check"],
         cases=[dict(id="avail0", defines={"INODE_AVAIL": 0}, tier="quick"),
                dict(id="avail16", defines={"INODE_AVAIL": 16}, tier="quick")]),
    dict(name="bp_set_block_size", file="bp_set_block_size.c",
         label="bounded(block index <= 11)", fp=_FP_BP, unwind=6, timeout=600,
         cases=[dict(id="avail0", defines={"INODE_AVAIL": 0}, tier="quick"),
                dict(id="avail16", defines={"INODE_AVAIL": 16}, tier="quick")]),
    dict(name="export_table", file="export_table.c", label="proved",
         fp=dict(_FP_FILE, destroy="c14_obj_destroy"),
         timeout=600, cases=[dict(id="all", tier="quick")]),
    dict(name="finish", file="finish.c", label="proved",
         fp=dict(_FP_FILE, get_block_count="c14_get_block_count"),
         timeout=600, cases=[dict(id="all", tier="quick")]),
    dict(name="writer_init", file="writer_init.c", label="proved",
         fp={"write_at": "c14_write_at", "read_at": "rd_read_at",
             "write_options": "c14_write_options",
             "destroy": ["c14_comp_destroy", "c14_outfile_destroy"]},
         unwind=22, timeout=600, cases=[dict(id="all", tier="quick")]),
    dict(name="cleanup", file="cleanup.c", label="proved", fp=_FP_WRITER,
         timeout=300, cases=[dict(id="all", tier="quick")]),
]
