/* C13.main.status for tar2sqfs (proved): the real main() of
 * bin/tar2sqfs/src/tar2sqfs.c, every callee its contract (main_env.h): each
 * stage may fail.
 *   C13.main.status            any stage failure => main returns EXIT_FAILURE;
 *                              the result is EXIT_SUCCESS or EXIT_FAILURE
 *   C13.main.cleanup_status    once sqfs_writer_init succeeded,
 *                              sqfs_writer_cleanup is called exactly once,
 *                              after the last stage, with the status main
 *                              returns (so, with C13.cleanup.unlinks, the
 *                              output is removed on every failure)
 *   C13.success_is_faultfree   EXIT_SUCCESS => every stage ran once, in
 *                              order, and none failed
 *   C13.main.diagnostic        EXIT_FAILURE => a diagnostic was printed
 *   C13.main.stops_at_first_failure / stage_once / no_stage_after_cleanup
 *   C13.main.releases_input    the stdin wrapper and the tar iterator are
 *                              dropped exactly once on every path
 * Loop-free.
 */
#define C14_SITE "main_tar2sqfs"
#include <stdlib.h>
#include <string.h>
#include "verif.h"
#include "C14/c14_env.h"
#include "C14/c14_libc.h"
#include "C13/main_env.h"
#include "bin/tar2sqfs/src/tar2sqfs.h"

sqfs_writer_cfg_t cfg;
strlist_t excludedirs;

static sqfs_istream_t g_stdin_strm;
static sqfs_dir_iterator_t g_tar_it;
static unsigned g_in_destroyed, g_it_destroyed;
static bool g_stdin_failed, g_tar_failed;

void in_destroy(sqfs_object_t *o)
{
	VERIF_ASSERT(o == (sqfs_object_t *)&g_stdin_strm, "C13.env.destroy.known_object");
	g_in_destroyed += 1;
}

void it_destroy(sqfs_object_t *o)
{
	VERIF_ASSERT(o == (sqfs_object_t *)&g_tar_it, "C13.env.destroy.known_object");
	g_it_destroyed += 1;
}

void process_args(int argc, char **argv)
{
	(void)argc; (void)argv;
	cfg.filename = "out.sqfs";
	cfg.no_xattr = verif_nd_bool("cfg.no_xattr");
}

int istream_open_stdin(sqfs_istream_t **out)
{
	if (verif_nd_bool("stdin.fail")) {
		g_fault = true;
		g_stdin_failed = true;
		*out = NULL;
		return c14_error_code("stdin.err");
	}
	g_stdin_strm.base.refcount = 1;
	g_stdin_strm.base.destroy = in_destroy;
	*out = &g_stdin_strm;
	return 0;
}

sqfs_dir_iterator_t *tar_open_stream(sqfs_istream_t *stream,
				     const tar_iterator_opts *opts)
{
	(void)opts;
	VERIF_ASSERT(stream == &g_stdin_strm, "C13.main.stage_args");
	if (verif_nd_bool("tar_open.fail")) {
		g_fault = true;
		g_tar_failed = true;
		return NULL;
	}
	g_stdin_strm.base.refcount += 1;	/* the iterator keeps the stream */
	((sqfs_object_t *)&g_tar_it)->refcount = 1;
	((sqfs_object_t *)&g_tar_it)->destroy = it_destroy;
	return &g_tar_it;
}

int process_tarball(sqfs_dir_iterator_t *it, sqfs_writer_t *sqfs)
{
	VERIF_ASSERT(it == &g_tar_it && sqfs == g_ms_writer, "C13.main.stage_args");
	return ms_stage(MS_INPUT, "process_tarball.fail");
}

#define main tool_main
#include "bin/tar2sqfs/src/tar2sqfs.c"
#undef main

void harness(void)
{
	static char *argv[2] = { "tar2sqfs", NULL };
	int status;

	c14_ghost_init();
	main_env_init();
	g_in_destroyed = 0;
	g_it_destroyed = 0;
	g_stdin_failed = false;
	g_tar_failed = false;

	status = tool_main(1, argv);

	main_check(status, MS_INIT | MS_INPUT | MS_POST | MS_FINISH,
		   g_stdin_failed || g_tar_failed);
	if (!g_stdin_failed)
		VERIF_ASSERT(g_it_destroyed == (g_tar_failed ? 0u : 1u) &&
			     g_stdin_strm.base.refcount + g_in_destroyed >= 1,
			     "C13.main.releases_input");
	VERIF_COVER(status == EXIT_SUCCESS);
	VERIF_COVER(status == EXIT_FAILURE && g_stdin_failed);
	VERIF_COVER(status == EXIT_FAILURE && g_tar_failed);
	VERIF_COVER(status == EXIT_FAILURE && (g_ms_failed & MS_INIT));
	VERIF_COVER(status == EXIT_FAILURE && (g_ms_failed & MS_FINISH));
	VERIF_COVER(status == EXIT_FAILURE && (g_ms_failed & MS_INPUT));
}
