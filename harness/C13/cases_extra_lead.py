# C13 "a run that exits with status 0 has produced exactly the output of a
# fault-free run": sqfs_meta_write_write_to_file drains the queued directory
# blocks to the file and has to stop at, and report, the first failed write.
# The harness lives in harness/C01 (C01.meta.write_to_file.*); it is run here
# as well so that C13's own check decides the clause (seed C13-5: only the last
# block's write status survived).
import os as _os, sys as _sys
_sys.path.insert(0, _os.path.join(_os.path.dirname(_os.path.abspath(__file__)), "..", "..", "tools"))
from borrow import borrow as _borrow

HARNESSES = _borrow(__file__, "C01", ["meta_write_to_file"])
# the default compressor is a function of the build, not of transient probe failures
HARNESSES.append(dict(name="default_comp", file="default_comp.c", label="proved", timeout=300,
                      unwind=10, fp={"destroy": "probe_destroy"},
                      must_have=["C13.default_comp.function_of_build"]))
HARNESSES.append(dict(name="tarball_diag", file="tarball_diag.c", label="bounded(entries <= 1)",
                      timeout=400, include_dirs=["bin/tar2sqfs/src"], unwind=4, malloc_fail=True,
                      flags=["--memory-leak-check"],
                      pre_instrument_flags=["--replace-calls", "set_root_attribs:stub_set_root_attribs",
                                            "--replace-calls", "create_node_and_repack_data:stub_create_node"],
                      fp={"next": "env_next", "read_link": "env_read_link", "*": "env_never"},
                      must_have=["C13.tarball.diagnostic"]))
# the stream API every packer / unpacker copies file data with: an error of
# the source or the sink in the middle of a splice is the call's result, never
# a short count that the next (error-free) call turns into a clean end
# (seed C13-8; lib/sqfs/src/io/stream_api.c is anchored in C12 only)
HARNESSES += _borrow(__file__, "C12", ["api_splice", "api_read", "api_skip"])
FUNCTIONS = ["process_tarball", "sqfs_istream_splice / read / skip (via harness/C12)", "sqfs_meta_write_write_to_file (via harness/C01)", "compressor_get_default"]
TRUSTED = []
ASSUMPTIONS = []
