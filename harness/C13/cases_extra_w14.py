# C13 (worker w14): sqfs_perror (lib/common/src/perror.c), the C13 anchor through
# which every failure of the packers is reported.
FUNCTIONS = ["sqfs_perror"]
TRUSTED = ["fprintf / perror: record their arguments, clobber errno (digits and the stream are not modelled)"]
ASSUMPTIONS = []

HARNESSES = [
    # one case per concrete comparison code OTHER: the split covers all 17
    # defined codes, error_code itself is any int in every case
    dict(name="perror", file="w14_perror.c", label="proved", timeout=120, unwind=70,
         must_have=["C13.perror.message", "C13.perror.prefix", "C13.perror.errno_kept"],
         cases=[dict(id="other%d" % -o, defines={"OTHER": o}, tier="quick") for o in range(-17, 0)]),
]
