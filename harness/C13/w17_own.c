/* C13.bp.single_owner / C13.bp.no_orphan / C13.bp.destroy_safe
 * (bounded: <= W17_NB blocks alive; free list <= 2, I/O queue <= 2, pool <= 2,
 * in-flight copies <= 1; append <= 2 blocks + 1 byte of BP_BS byte blocks).
 *
 * The OWNERSHIP INVARIANT of the block processor (w17_own.h), as an inductive
 * invariant of its main-thread operations: the processor starts in an
 * ARBITRARY state that satisfies it (any subset of current block / fragment
 * block / cached block, lists and pool filled up to the bounds above, block
 * headers symbolic), ONE operation runs - the real code of frontend.c,
 * backend.c and block_processor.c together, nothing of the processor replaced
 * - against the fault-injecting contracts of allocator, pool, block writer,
 * fragment table and hash table, and on EVERY outcome (success and each
 * failure of submit / malloc / alloc_flex / calloc / realloc / dequeue /
 * write_data_block / table calls, a worker failing at any moment)
 *   C13.bp.single_owner   no block has two owners, no freed block has one,
 *                         nothing is freed twice or while the pool has it,
 *                         nothing freed or already inside is submitted
 *   C13.bp.no_orphan      no block is left without an owner
 *   C13.bp.backlog_le_max the back-pressure bound backlog <= max_backlog that
 *                         the setup relies on is re-established
 * and then the REAL block_processor_destroy() runs on that state:
 *   C13.bp.destroy_safe   it frees every block the processor owns exactly
 *                         once, none that the pool still has, the processor
 *                         itself once, shuts the pool down once and drops its
 *                         four references once; cbmc's pointer checks and
 *                         --memory-leak-check cover use after free and what the
 *                         table does not know (hash table chunk, inode)
 *
 * OP (case parameter): 0 begin_file, 1 append, 2 end_file, 3 submit_block,
 * 4 enqueue_block, 5 get_new_block, 6 process_completed_block,
 * 7 process_completed_fragment, 8 dequeue_block, 9 sync, 10 finish.
 * W17_RB: 1 = the processor reads fragment blocks back for byte-wise
 * deduplication (file and uncmp set): enqueue_block keeps an in-flight copy of
 * each fragment block.
 */
#define C14_SITE "w17_own"
#include <stdlib.h>
#include <string.h>
#include "verif.h"
#include "C14/c14_env.h"
#include "C13/c13_alloc.h"
#include "C13/bp_env.h"
#include "C13/w17_own.h"

/* memcpy / memset of the code under test: payload copies are extent checks
 * (no branch and no obligation here reads payload bytes); get_new_block's
 * memset(blk, 0, sizeof(*blk)) zeroes the header field by field */
static void *w17_memcpy(void *dst, const void *src, size_t n)
{
	VERIF_ASSERT(VERIF_R_OK(src, n) && VERIF_W_OK(dst, n), "C13.env.memcpy.extent");
#ifdef VERIF_REPLAY
	return memcpy(dst, src, n);
#else
	return dst;
#endif
}

static void *w17_memset(void *dst, int c, size_t n)
{
	VERIF_ASSERT(VERIF_W_OK(dst, n), "C13.env.memset.extent");
#ifdef VERIF_REPLAY
	return memset(dst, c, n);
#else
	if (n == sizeof(sqfs_block_t) && c == 0) {
		sqfs_block_t *b = dst;

		b->next = NULL;
		b->inode = NULL;
		b->io_seq_num = 0;
		b->flags = 0;
		b->size = 0;
		b->checksum = 0;
		b->index = 0;
		b->user = NULL;
	}
	return dst;
#endif
}
#define memcpy w17_memcpy
#define memset w17_memset
#undef malloc
#define malloc w17_block_malloc
#define free w17_free

#ifndef OP
#define OP 1
#endif
/* the back end is the real one where it is the subject (6, 7, 8); the front
 * end operations and sync/finish see dequeue_block through its contract */
#define W17_REAL_BACKEND (OP == 6 || OP == 7 || OP == 8)

#include "lib/sqfs/src/block_processor/frontend.c"
#if W17_REAL_BACKEND
#include "lib/sqfs/src/block_processor/backend.c"
#endif
#include "lib/sqfs/src/block_processor/block_processor.c"

#undef free
#undef malloc
#undef calloc
#undef realloc
#undef memcpy
#undef memset

#ifndef W17_RB
#define W17_RB 0
#endif
#ifndef APPEND_MAX
#define APPEND_MAX (BP_BS + 1)
#endif

#define USERF ((sqfs_u32)SQFS_BLK_USER_SETTABLE_FLAGS)
#define ALLF ((sqfs_u32)SQFS_BLK_FLAGS_ALL | (sqfs_u32)BLK_FLAG_INTERNAL)

/* hash table contract, destroy part: runs the delete function on what was
 * inserted (bp_env.h: one entry at most) */
void hash_table_destroy(struct hash_table *ht,
			void (*delete_function)(struct hash_entry *entry))
{
	VERIF_ASSERT(ht == &g_ht && g_in_destroy &&
		     delete_function == ht_delete_function, "C13.env.hash_table.pre");
	g_ht_destroyed += 1;
	if (g_ht_inserted != 0) {
		ht_delete_function(&g_ht_entry);
		g_ht_entry.data = NULL;
	}
}

/* ---- ownership transfers the contracts below are made of ------------------- */
static sqfs_block_t *w17_take_pool_head(void)
{
	sqfs_block_t *b = g_poolq[0];
	unsigned i;
	int k = w17_find(b);

	for (i = 0; i + 1 < W17_NB; ++i)
		g_poolq[i] = g_poolq[i + 1];
	g_pool_n -= 1;
	if (k >= 0)
		g_tab_pool[k] = false;
	return b;
}

static void w17_release(sqfs_block_t *b)
{
	b->next = g_proc.free_list;
	g_proc.free_list = b;
	if (g_proc.backlog > 0)
		g_proc.backlog -= 1;
}

#if !W17_REAL_BACKEND
/* dequeue_block as the front end sees it. Established on the real function in
 * case `dequeue` (OP 8): it preserves INV_OWN, never touches blk_current or a
 * block in the caller's hand, and returns 0 only after at least one block went
 * back to the free list (backlog lowered). Here: up to W17_DEQ_MOVES ownership
 * transfers among pool, I/O queue, free list and fragment block, then failure
 * or - if something was released - success. */
#ifndef W17_DEQ_MOVES
#define W17_DEQ_MOVES 2
#endif
static unsigned g_deqc_calls, g_deqc_ok;

int dequeue_block(sqfs_block_processor_t *proc)
{
	unsigned step, released = 0;
	sqfs_block_t *b;

	VERIF_ASSERT(proc == &g_proc && proc->backlog >= 1, "C13.env.dequeue_block.pre");
	g_deqc_calls += 1;
	for (step = 0; step < W17_DEQ_MOVES; ++step) {
		switch (verif_nd_u8("dequeue.move") % 6) {
		case 0:	/* a written block is recycled */
			if (proc->io_queue != NULL) {
				b = proc->io_queue;
				proc->io_queue = b->next;
				w17_release(b);
				released += 1;
			}
			break;
		case 1:	/* a completed block waits for its turn */
			if (g_pool_n > 0) {
				b = w17_take_pool_head();
				b->next = proc->io_queue;
				proc->io_queue = b;
			}
			break;
		case 2:	/* a tail end is merged / deduplicated / dropped */
			if (g_pool_n > 0) {
				w17_release(w17_take_pool_head());
				released += 1;
			}
			break;
		case 3:	/* a tail end starts a new fragment block */
			if (g_pool_n > 0 && proc->frag_block == NULL) {
				proc->frag_block = w17_take_pool_head();
				proc->frag_block->flags &= SQFS_BLK_DONT_COMPRESS;
				proc->frag_block->flags |= SQFS_BLK_FRAGMENT_BLOCK;
			}
			break;
		case 4:	/* the full fragment block is submitted (or refused) */
			if (proc->frag_block != NULL) {
				b = proc->frag_block;
				proc->frag_block = NULL;
				if (g_pool_n < W17_NB && verif_nd_bool("dequeue.frag_submitted")) {
					w17_into_pool(b);
				} else {
					b->next = proc->free_list;
					proc->free_list = b;
				}
			}
			break;
		default:
			break;
		}
	}
	if (released == 0 || verif_nd_bool("dequeue.fail")) {
		g_fault = true;
		return c14_error_code("dequeue.err");
	}
	g_deqc_ok += 1;
	return 0;
}
/* get_new_block / enqueue_block as sqfs_block_processor_append sees them
 * (harness w17_own_app, substituted by goto-instrument --replace-calls; append
 * with the real ones inlined into its loop: no result in 10 minutes). Both are
 * established on the real functions: cases get_new_block_* (success: a live,
 * zeroed block that is in none of the processor's places; INV_OWN otherwise
 * preserved) and enqueue_* (success: the pool has the block; failure: it is on
 * the free list). */
int w17_gnb_contract(sqfs_block_processor_t *proc, sqfs_block_t **out)
{
	sqfs_block_t *blk;
	int ret;

	VERIF_ASSERT(proc == &g_proc, "C13.env.get_new_block.pre");
	if (proc->backlog >= proc->max_backlog) {
		ret = dequeue_block(proc);
		if (ret != 0)
			return ret;
	}
	if (proc->free_list != NULL) {
		blk = proc->free_list;
		proc->free_list = blk->next;
	} else {
		blk = w17_block_malloc(sizeof(*blk) + BP_BS);
		if (blk == NULL)
			return SQFS_ERROR_ALLOC;
	}
	blk->next = NULL;
	blk->inode = NULL;
	blk->io_seq_num = 0;
	blk->flags = 0;
	blk->size = 0;
	blk->checksum = 0;
	blk->index = 0;
	blk->user = NULL;
	*out = blk;
	proc->backlog += 1;
	return 0;
}

int w17_enq_contract(sqfs_block_processor_t *proc, sqfs_block_t *blk)
{
	int k = w17_find(blk);

	VERIF_ASSERT(proc == &g_proc, "C13.env.enqueue_block.pre");
	/* a freed block, or one the pool already holds, must never be submitted */
	VERIF_ASSERT(k >= 0 && !g_tab_freed[k] && !g_tab_pool[k], "C13.bp.single_owner");
	w17_worker_may_fail();
	if (k < 0 || g_pstatus != 0 || g_pool_n >= W17_NB ||
	    verif_nd_bool("enqueue.submit_nomem")) {
		g_fault = true;
		g_submit_fail += 1;
		blk->next = proc->free_list;
		proc->free_list = blk;
		return g_pstatus != 0 ? g_pstatus : SQFS_ERROR_ALLOC;
	}
	g_poolq[g_pool_n] = blk;
	g_pool_n += 1;
	g_tab_pool[k] = true;
	g_submit_ok += 1;
	return 0;
}

#define DEQ_OK g_deqc_ok	/* cover points below: "a dequeue went through" */
#define DEQ_NULL (g_deqc_calls - g_deqc_ok)
#else
#define DEQ_OK g_deq_ok
#define DEQ_NULL g_deq_null
/* process_completed_block / process_completed_fragment as dequeue_block sees
 * them (case `dequeue`, substituted by goto-instrument --replace-calls; the
 * real ones are cases `pcb` and `pcf`): */
int w17_pcb_contract(sqfs_block_processor_t *proc, sqfs_block_t *blk)
{
	int k = w17_find(blk);

	/* the block is in nobody's list any more: dequeue_block unlinked it */
	VERIF_ASSERT(proc == &g_proc && k >= 0 && !g_tab_freed[k] && !g_tab_pool[k],
		     "C13.env.process_completed_block.pre");
	g_wdb_calls += 1;
	if ((blk->flags & SQFS_BLK_FRAGMENT_BLOCK) && proc->fblk_in_flight != NULL &&
	    verif_nd_bool("pcb.copy_matches")) {
		sqfs_block_t *it = proc->fblk_in_flight;

		proc->fblk_in_flight = it->next;
		w17_free(it);
	}
	w17_release(blk);
	if (verif_nd_bool("pcb.fail")) {
		g_fault = true;
		return c14_error_code("pcb.err");
	}
	return 0;
}

int w17_pcf_contract(sqfs_block_processor_t *proc, sqfs_block_t *frag)
{
	int k = w17_find(frag), err;

	VERIF_ASSERT(proc == &g_proc && k >= 0 && !g_tab_freed[k] && !g_tab_pool[k] &&
		     (frag->flags & SQFS_BLK_IS_FRAGMENT),
		     "C13.env.process_completed_fragment.pre");
	switch (verif_nd_u8("pcf.outcome") % 3) {
	case 0:	/* sparse / deduplicated / merged / early failure: recycled */
		w17_release(frag);
		break;
	case 1:	/* the fragment block is full: submit it, start a new one */
		if (proc->frag_block != NULL) {
			err = enqueue_block(proc, proc->frag_block);
			proc->frag_block = NULL;
			if (err) {
				w17_release(frag);
				return err;
			}
		}
		/* fall through */
	default:
		if (proc->frag_block != NULL) {
			w17_release(frag);
			break;
		}
		proc->frag_block = frag;
		frag->flags &= SQFS_BLK_DONT_COMPRESS;
		frag->flags |= SQFS_BLK_FRAGMENT_BLOCK;
		break;
	}
	if (verif_nd_bool("pcf.fail")) {
		g_fault = true;
		return c14_error_code("pcf.err");
	}
	return 0;
}
#endif

static sqfs_inode_generic_t *g_ino;	/* the inode slot blocks may point at */

static sqfs_inode_generic_t **nd_inode(void)
{
	return verif_nd_bool("blk.with_inode") ? &g_ino : NULL;
}

/* SHAPE (case parameters, DESIGN 2.4 "shape concrete, values symbolic"): which
 * of the single places are occupied and how long the lists are */
#ifndef W17_CUR
#define W17_CUR 1	/* a current block exists */
#endif
#ifndef W17_FB
#define W17_FB 1	/* a fragment block is being filled */
#endif
#ifndef W17_NFREE
#define W17_NFREE 2	/* nodes on the free list */
#endif
#ifndef W17_NIOQ
#define W17_NIOQ 1	/* completed blocks waiting for their turn */
#endif
#ifndef W17_NPOOL
#define W17_NPOOL 2	/* blocks inside the pool */
#endif

/* arbitrary state of that shape within INV_OWN; block headers symbolic */
static void setup_state(bool may_have_current)
{
	unsigned i;
	sqfs_block_t *b;

	g_ino = bp_new_inode();
	g_proc.max_backlog = verif_nd_size("max_backlog");
	g_proc.backlog = verif_nd_size("backlog");
	VERIF_ASSUME(g_proc.max_backlog >= 3 && g_proc.max_backlog < 1000);
	VERIF_ASSUME(g_proc.backlog <= g_proc.max_backlog);
	g_proc.io_deq_seq_num = verif_nd_u32("io_deq_seq_num");
	if (verif_nd_bool("with_frag_tbl"))
		g_proc.frag_tbl = &g_fragtbl;
#if W17_RB
	g_proc.file = &g_file;
	g_proc.uncmp = &g_uncmp_obj;
#endif

#if W17_CUR
	if (may_have_current)
		g_proc.blk_current = w17_blk(0, USERF | SQFS_BLK_FIRST_BLOCK, nd_inode());
#else
	(void)may_have_current;
#endif
#if W17_FB
	g_proc.frag_block = w17_blk(SQFS_BLK_FRAGMENT_BLOCK, SQFS_BLK_DONT_COMPRESS,
				    nd_inode());
#endif
#if W17_RB
	/* the cache block and one in-flight copy of a submitted fragment block */
	g_proc.cached_frag_blk = w17_blk(0, 0, NULL);
	g_proc.fblk_in_flight = w17_blk(0, 0, NULL);
#endif
	for (i = 0; i < W17_NFREE; ++i) {
		b = w17_blk(0, ALLF, NULL);
		b->next = g_proc.free_list;
		g_proc.free_list = b;
	}
	for (i = 0; i < W17_NIOQ; ++i) {
		b = w17_blk(0, ALLF & ~(sqfs_u32)SQFS_BLK_IS_FRAGMENT, nd_inode());
		/* store_io_block keeps the queue sorted */
		VERIF_ASSUME(g_proc.io_queue == NULL ||
			     b->io_seq_num <= g_proc.io_queue->io_seq_num);
		b->next = g_proc.io_queue;
		g_proc.io_queue = b;
	}
	for (i = 0; i < W17_NPOOL; ++i)
		w17_into_pool(w17_blk(0, ALLF, nd_inode()));
	g_pstatus = verif_nd_bool("pool.failed_before") ?
		c14_error_code("pool.status0") : 0;
	w17_owner_assume();
}

/* the real destructor on whatever state the operation left behind */
static void destroy_and_check(void)
{
	unsigned i;
	bool blocks_ok = true;

	/* the hooks the constructor installs */
	g_proc.obj.refcount = 1;
	g_proc.obj.destroy = block_processor_destroy;
	g_in_destroy = true;
	block_processor_destroy((sqfs_object_t *)&g_proc);
	g_in_destroy = false;

	for (i = 0; i < W17_NB; ++i) {
		/* everything the processor owned is gone; what the pool or
		 * the caller holds is not the processor's to free */
		if (i < g_tab_n && !g_tab_freed[i] && !g_tab_pool[i] && !g_tab_caller[i] &&
		    !g_tab_orphan[i])
			blocks_ok = false;
	}
	VERIF_ASSERT(blocks_ok, "C13.bp.destroy_safe");
	VERIF_ASSERT(g_proc_freed && g_pool_destroyed == 1 && g_ht_destroyed == 1,
		     "C13.bp.destroy_safe");
	VERIF_ASSERT(g_obj_destroyed == (g_proc.frag_tbl != NULL ? 1u : 0u) + 1u +
		     (W17_RB ? 2u : 0u), "C13.bp.destroy_safe");

	/* end of the process: what the pool and the caller still hold, blocks
	 * already reported by C13.bp.no_orphan, the caller's inode (so that
	 * --memory-leak-check reports what the table does not know) */
	for (i = 0; i < W17_NB; ++i) {
		if (i < g_tab_n && !g_tab_freed[i] &&
		    (g_tab_pool[i] || g_tab_caller[i] || g_tab_orphan[i])) {
			g_tab_freed[i] = true;
			free(g_tab[i]);
		}
	}
	free(g_ino);
}

void harness(void)
{
	int ret = 0;

	w17_env_init();
#if !W17_REAL_BACKEND
	g_deqc_calls = g_deqc_ok = 0;
#endif

#if OP == 0
	/* -------------------------------------------------------- begin_file */
	{
		sqfs_inode_generic_t *slot = NULL;
		bool with_inode = verif_nd_bool("with_inode");

		setup_state(true);
		g_proc.begin_called = verif_nd_bool("begin_called");
		ret = sqfs_block_processor_begin_file(&g_proc, with_inode ? &slot : NULL,
						      NULL, verif_nd_u32("flags"));
		w17_owner_check();
		VERIF_COVER(ret == 0 && with_inode);
		VERIF_COVER(ret == SQFS_ERROR_ALLOC);
		VERIF_COVER(ret == SQFS_ERROR_SEQUENCE);
		g_proc.inode = NULL;
		destroy_and_check();
		free(slot);
	}
#elif OP == 1 || OP == 2
	/* ------------------------------------------------- append / end_file */
	{
		size_t size = verif_nd_size("append.size");
		sqfs_block_t *cur;
		static sqfs_u8 data[APPEND_MAX];

		setup_state(true);
		cur = g_proc.blk_current;
		g_proc.begin_called = verif_nd_bool("begin_called");
		g_proc.blk_flags = verif_nd_u32("blk_flags") & (USERF | SQFS_BLK_FIRST_BLOCK);
		g_proc.blk_index = verif_nd_u32("blk_index");
		g_proc.inode = nd_inode();
		VERIF_ASSUME(size <= APPEND_MAX);
#if OP == 1
		ret = sqfs_block_processor_append(&g_proc,
				verif_nd_bool("with_data") ? data : NULL, size);
#else
		ret = sqfs_block_processor_end_file(&g_proc);
#endif
		w17_owner_check();
		VERIF_ASSERT(g_proc.backlog <= g_proc.max_backlog, "C13.bp.backlog_le_max");
		VERIF_COVER(ret == 0 && g_submit_ok >= 1);
#if W17_CUR
		/* the pool refuses the current block: it is on the free list and
		 * nowhere else */
		VERIF_COVER(ret != 0 && g_submit_fail == 1 && cur != NULL &&
			    g_proc.blk_current == NULL && g_proc.free_list == cur);
#else
		(void)cur;
#endif
#if W17_NFREE == 0
		VERIF_COVER(ret != 0 && g_blk_alloc_faults == 1);
#endif
		VERIF_COVER(ret != 0 && DEQ_NULL == 1);
#if W17_NIOQ + W17_NPOOL > 0
		VERIF_COVER(ret == 0 && DEQ_OK >= 1);
#endif
		destroy_and_check();
	}
#elif OP == 3
	/* ------------------------------------------------------ submit_block */
	{
		size_t size = verif_nd_size("submit.size");
		static sqfs_u8 data[BP_BS];

		setup_state(true);
		g_proc.begin_called = verif_nd_bool("begin_called");
		ret = sqfs_block_processor_submit_block(&g_proc, NULL,
							verif_nd_u32("flags"), data, size);
		w17_owner_check();
		VERIF_ASSERT(g_proc.backlog <= g_proc.max_backlog, "C13.bp.backlog_le_max");
		VERIF_COVER(ret == 0 && g_submit_ok == 1);
		VERIF_COVER(ret != 0 && g_submit_fail == 1);
#if W17_NFREE == 0
		VERIF_COVER(ret != 0 && g_blk_alloc_faults == 1);
#endif
		VERIF_COVER(ret == SQFS_ERROR_OVERFLOW);
		destroy_and_check();
	}
#elif OP == 4
	/* ----------------------------------------------------- enqueue_block */
	{
		sqfs_block_t *blk;
		int k;

		setup_state(true);
		/* the block in the caller's hand: enqueue_block takes it over on
		 * every outcome (that is what all five call sites rely on) */
		blk = w17_blk(0, ALLF, nd_inode());
		k = w17_find(blk);
		VERIF_ASSUME(k >= 0);
		ret = enqueue_block(&g_proc, blk);
		w17_owner_check();
		if (ret == 0)
			VERIF_ASSERT(g_tab_pool[k], "C13.bp.single_owner");
		else if (g_blk_alloc_faults == 0)
			VERIF_ASSERT(g_proc.free_list == blk, "C13.bp.single_owner");
		VERIF_COVER(ret == 0 && g_blk_allocs == W17_RB);
		VERIF_COVER(ret != 0 && g_submit_fail == 1 && g_pstatus != 0);
		VERIF_COVER(ret != 0 && g_submit_fail == 1 && g_pstatus == 0);
#if W17_RB
		VERIF_COVER(ret != 0 && g_blk_alloc_faults == 1);
#endif
		destroy_and_check();
	}
#elif OP == 5
	/* ----------------------------------------------------- get_new_block */
	{
		sqfs_block_t *out = NULL;
		int k;

		setup_state(true);
		ret = get_new_block(&g_proc, &out);
		if (ret == 0) {
			/* handed to the caller: not on the free list any more */
			k = w17_find(out);
			VERIF_ASSERT(k >= 0 && !g_tab_freed[k], "C13.bp.single_owner");
			VERIF_ASSERT(out->size == 0 && out->next == NULL && out->flags == 0 &&
				     out->inode == NULL, "C13.bp.get_new_block.zeroed");
			if (k >= 0)
				g_tab_caller[k] = true;
		}
		w17_owner_check();
		VERIF_ASSERT(g_proc.backlog <= g_proc.max_backlog, "C13.bp.backlog_le_max");
#if W17_NFREE == 0
		VERIF_COVER(ret == 0 && g_blk_allocs == 1);
		VERIF_COVER(ret != 0 && g_blk_alloc_faults == 1);
#else
		VERIF_COVER(ret == 0 && g_blk_allocs == 0);
#endif
#if W17_NIOQ + W17_NPOOL > 0
		VERIF_COVER(ret == 0 && DEQ_OK >= 1);
#endif
		VERIF_COVER(ret != 0 && DEQ_NULL == 1);
		destroy_and_check();
	}
#elif OP == 6
	/* ------------------------------------------- process_completed_block */
	{
		sqfs_block_t *blk, *fl;

		setup_state(true);
		VERIF_ASSUME(g_proc.backlog >= 1);
		fl = g_proc.fblk_in_flight;
		/* taken off the I/O queue by dequeue_block */
		blk = w17_blk(0, ALLF & ~(sqfs_u32)SQFS_BLK_IS_FRAGMENT, nd_inode());
		ret = process_completed_block(&g_proc, blk);
		w17_owner_check();
		VERIF_ASSERT(g_proc.free_list == blk, "C13.bp.single_owner");
		VERIF_COVER(ret == 0 && g_wdb_calls == 1);
		VERIF_COVER(ret != 0 && g_wdb_calls == 1);
#if W17_RB
		VERIF_COVER(ret == 0 && fl != NULL && g_proc.fblk_in_flight == NULL);
#else
		(void)fl;
#endif
		destroy_and_check();
	}
#elif OP == 7
	/* ---------------------------------------- process_completed_fragment */
	{
		sqfs_block_t *frag, *fb0;

		setup_state(true);
		VERIF_ASSUME(g_proc.backlog >= 1);
		fb0 = g_proc.frag_block;
		/* a tail end handed back by the pool */
		frag = w17_blk(SQFS_BLK_IS_FRAGMENT, ALLF, nd_inode());
		ret = process_completed_fragment(&g_proc, frag);
		w17_owner_check();
#if W17_FB
		VERIF_COVER(ret == 0 && g_proc.frag_block == frag && fb0 != NULL && g_submit_ok == 1);
		VERIF_COVER(ret == 0 && g_proc.frag_block == fb0 && fb0 != NULL && g_ht_inserted == 1);
		VERIF_COVER(ret != 0 && g_submit_fail == 1);
#else
		VERIF_COVER(ret == 0 && g_proc.frag_block == frag && fb0 == NULL);
#endif
		VERIF_COVER(ret != 0 && g_proc.frag_block == frag);
		VERIF_COVER(ret != 0 && g_proc.free_list == frag);
		destroy_and_check();
	}
#elif OP == 8
	/* ----------------------------------------------------- dequeue_block */
	{
		sqfs_block_t *cur;
		size_t backlog0;

		setup_state(true);
		cur = g_proc.blk_current;
		VERIF_ASSUME(g_proc.backlog >= 1);
		backlog0 = g_proc.backlog;
		ret = dequeue_block(&g_proc);
		w17_owner_check();
		/* never touches the block the front end is filling */
		VERIF_ASSERT(g_proc.blk_current == cur, "C13.bp.single_owner");
		/* what the front end's back-pressure loop and sync() rely on: success
		 * means a block was recycled - or nothing but the current / fragment
		 * block is left (the two cases sync() tests before it calls) */
		if (ret == 0)
			VERIF_ASSERT(g_proc.backlog < backlog0 ||
				     (g_proc.backlog == 1 && (g_proc.frag_block != NULL || cur != NULL)) ||
				     (g_proc.backlog == 2 && g_proc.frag_block != NULL && cur != NULL),
				     "C13.bp.dequeue_lowers_backlog");
		VERIF_ASSERT(g_proc.backlog <= backlog0, "C13.bp.dequeue_lowers_backlog");
#if W17_NPOOL == 2
		VERIF_COVER(ret == 0 && DEQ_OK == 2);
#endif
#if W17_NIOQ == 2
		VERIF_COVER(ret == 0 && g_wdb_calls == 2);
#endif
		VERIF_COVER(ret != 0 && DEQ_NULL == 1);
#if W17_NPOOL >= 1
		VERIF_COVER(ret != 0 && DEQ_OK == 1 && g_pstatus != 0);
#endif
#if W17_NIOQ + W17_NPOOL >= 1
		VERIF_COVER(ret == 0 && g_wdb_calls == 1);
		VERIF_COVER(ret != 0 && g_wdb_calls == 1);
#endif
		destroy_and_check();
	}
#elif OP == 9 || OP == 10
	/* ----------------------------------------------------- sync / finish */
	{
		setup_state(true);
		VERIF_ASSUME(g_proc.backlog <= 4);
#if OP == 9
		ret = sqfs_block_processor_sync(&g_proc);
#else
		ret = sqfs_block_processor_finish(&g_proc);
#endif
		w17_owner_check();
#if W17_NIOQ + W17_NPOOL > 0
		VERIF_COVER(ret == 0 && DEQ_OK >= 1);
#endif
		VERIF_COVER(ret == 0 && DEQ_OK == 0);
		VERIF_COVER(ret != 0);
#if OP == 10 && W17_FB
		VERIF_COVER(ret == 0 && g_submit_ok == 1);
		VERIF_COVER(ret != 0 && g_submit_fail == 1);
#endif
		destroy_and_check();
	}
#endif
	(void)ret;
}
