/* C13.bp.single_owner / C13.bp.no_orphan / C13.bp.destroy_safe
 * (bounded: <= W17_NB blocks alive; free list <= 2, I/O queue <= 2, pool <= 2,
 * in-flight copies <= 1; append <= 2 blocks + 1 byte of BP_BS byte blocks).
 *
 * The OWNERSHIP INVARIANT of the block processor (w17_own.h), as an inductive
 * invariant of its main-thread operations: the processor starts in an
 * ARBITRARY state that satisfies it (any subset of current block / fragment
 * block / cached block, lists and pool filled up to the bounds above, block
 * headers symbolic), ONE operation runs - the real code of frontend.c,
 * backend.c and block_processor.c together, nothing of the processor replaced
 * - against the fault-injecting contracts of allocator, pool, block writer,
 * fragment table and hash table, and on EVERY outcome (success and each
 * failure of submit / malloc / alloc_flex / calloc / realloc / dequeue /
 * write_data_block / table calls, a worker failing at any moment)
 *   C13.bp.single_owner   no block has two owners, no freed block has one,
 *                         nothing is freed twice or while the pool has it,
 *                         nothing freed or already inside is submitted
 *   C13.bp.no_orphan      no block is left without an owner
 *   C13.bp.backlog_le_max the back-pressure bound backlog <= max_backlog that
 *                         the setup relies on is re-established
 * and then the REAL block_processor_destroy() runs on that state:
 *   C13.bp.destroy_safe   it frees every block the processor owns exactly
 *                         once, none that the pool still has, the processor
 *                         itself once, shuts the pool down once and drops its
 *                         four references once; cbmc's pointer checks and
 *                         --memory-leak-check cover use after free and what the
 *                         table does not know (hash table chunk, inode)
 *
 * OP (case parameter): 0 begin_file, 1 append, 2 end_file, 3 submit_block,
 * 4 enqueue_block, 5 get_new_block, 6 process_completed_block,
 * 7 process_completed_fragment, 8 dequeue_block, 9 sync, 10 finish.
 * W17_RB: 1 = the processor reads fragment blocks back for byte-wise
 * deduplication (file and uncmp set): enqueue_block keeps an in-flight copy of
 * each fragment block.
 */
#define C14_SITE "w17_own"
#include <stdlib.h>
#include <string.h>
#include "verif.h"
#include "C14/c14_env.h"
#include "C13/c13_alloc.h"
#include "C13/bp_env.h"
#include "C13/w17_own.h"

#define C13_MEM_NO_WITNESS	/* no branch of the code under test reads payload */
#include "C13/c13_mem.h"
#undef malloc
#define malloc w17_block_malloc
#define free w17_free

#include "lib/sqfs/src/block_processor/frontend.c"
#include "lib/sqfs/src/block_processor/backend.c"
#include "lib/sqfs/src/block_processor/block_processor.c"

#undef free
#undef malloc
#undef calloc
#undef realloc
#undef memcpy
#undef memset

#ifndef OP
#define OP 1
#endif
#ifndef W17_RB
#define W17_RB 0
#endif
#ifndef APPEND_MAX
#define APPEND_MAX (2 * BP_BS + 1)
#endif

#define USERF ((sqfs_u32)SQFS_BLK_USER_SETTABLE_FLAGS)
#define ALLF ((sqfs_u32)SQFS_BLK_FLAGS_ALL | (sqfs_u32)BLK_FLAG_INTERNAL)

/* hash table contract, destroy part: runs the delete function on what was
 * inserted (bp_env.h: one entry at most) */
void hash_table_destroy(struct hash_table *ht,
			void (*delete_function)(struct hash_entry *entry))
{
	VERIF_ASSERT(ht == &g_ht && g_in_destroy &&
		     delete_function == ht_delete_function, "C13.env.hash_table.pre");
	g_ht_destroyed += 1;
	if (g_ht_inserted != 0) {
		ht_delete_function(&g_ht_entry);
		g_ht_entry.data = NULL;
	}
}

static sqfs_inode_generic_t *g_ino;	/* the inode slot blocks may point at */

static sqfs_inode_generic_t **nd_inode(void)
{
	return verif_nd_bool("blk.with_inode") ? &g_ino : NULL;
}

/* arbitrary state within INV_OWN and the bounds of the label */
static void setup_state(bool may_have_current)
{
	unsigned n, i;
	sqfs_block_t *b;

	g_ino = bp_new_inode();
	g_proc.max_backlog = verif_nd_size("max_backlog");
	g_proc.backlog = verif_nd_size("backlog");
	VERIF_ASSUME(g_proc.max_backlog >= 3 && g_proc.max_backlog < 1000);
	VERIF_ASSUME(g_proc.backlog <= g_proc.max_backlog);
	g_proc.io_deq_seq_num = verif_nd_u32("io_deq_seq_num");
	if (verif_nd_bool("with_frag_tbl"))
		g_proc.frag_tbl = &g_fragtbl;
#if W17_RB
	g_proc.file = &g_file;
	g_proc.uncmp = &g_uncmp_obj;
#endif

	if (may_have_current && verif_nd_bool("with_current"))
		g_proc.blk_current = w17_blk(0, USERF | SQFS_BLK_FIRST_BLOCK, nd_inode());
	if (verif_nd_bool("with_frag_block"))
		g_proc.frag_block = w17_blk(SQFS_BLK_FRAGMENT_BLOCK,
					    SQFS_BLK_DONT_COMPRESS, nd_inode());
#if W17_RB
	if (verif_nd_bool("with_cached"))
		g_proc.cached_frag_blk = w17_blk(0, 0, NULL);
	if (verif_nd_bool("with_in_flight"))
		g_proc.fblk_in_flight = w17_blk(0, 0, NULL);
#endif
	n = verif_nd_u8("free_list.len");
	VERIF_ASSUME(n <= 2);
	for (i = 0; i < 2; ++i) {
		if (i < n) {
			b = w17_blk(0, ALLF, NULL);
			b->next = g_proc.free_list;
			g_proc.free_list = b;
		}
	}
	n = verif_nd_u8("io_queue.len");
	VERIF_ASSUME(n <= 2);
	for (i = 0; i < 2; ++i) {
		if (i < n) {
			b = w17_blk(0, ALLF & ~(sqfs_u32)SQFS_BLK_IS_FRAGMENT, nd_inode());
			/* store_io_block keeps the queue sorted */
			VERIF_ASSUME(g_proc.io_queue == NULL ||
				     b->io_seq_num <= g_proc.io_queue->io_seq_num);
			b->next = g_proc.io_queue;
			g_proc.io_queue = b;
		}
	}
	n = verif_nd_u8("pool.len");
	VERIF_ASSUME(n <= 2);
	for (i = 0; i < 2; ++i) {
		if (i < n)
			w17_into_pool(w17_blk(0, ALLF, nd_inode()));
	}
	g_pstatus = verif_nd_bool("pool.failed_before") ?
		c14_error_code("pool.status0") : 0;
	w17_owner_assume();
}

/* the real destructor on whatever state the operation left behind */
static void destroy_and_check(void)
{
	unsigned i;
	bool blocks_ok = true;

	/* the hooks the constructor installs */
	g_proc.obj.refcount = 1;
	g_proc.obj.destroy = block_processor_destroy;
	g_in_destroy = true;
	block_processor_destroy((sqfs_object_t *)&g_proc);
	g_in_destroy = false;

	for (i = 0; i < W17_NB; ++i) {
		/* everything the processor owned is gone; what the pool or
		 * the caller holds is not the processor's to free */
		if (i < g_tab_n && !g_tab_freed[i] && !g_tab_pool[i] && !g_tab_caller[i])
			blocks_ok = false;
	}
	VERIF_ASSERT(blocks_ok, "C13.bp.destroy_safe");
	VERIF_ASSERT(g_proc_freed && g_pool_destroyed == 1 && g_ht_destroyed == 1,
		     "C13.bp.destroy_safe");
	VERIF_ASSERT(g_obj_destroyed == (g_proc.frag_tbl != NULL ? 1u : 0u) + 1u +
		     (W17_RB ? 2u : 0u), "C13.bp.destroy_safe");

	/* end of the process: what the pool and the caller still hold, the
	 * caller's inode (so that --memory-leak-check sees only real leaks) */
	for (i = 0; i < W17_NB; ++i) {
		if (i < g_tab_n && !g_tab_freed[i] && (g_tab_pool[i] || g_tab_caller[i])) {
			g_tab_freed[i] = true;
			free(g_tab[i]);
		}
	}
	free(g_ino);
}

void harness(void)
{
	int ret = 0;

	w17_env_init();

#if OP == 0
	/* -------------------------------------------------------- begin_file */
	{
		sqfs_inode_generic_t *slot = NULL;
		bool with_inode = verif_nd_bool("with_inode");

		setup_state(true);
		g_proc.begin_called = verif_nd_bool("begin_called");
		ret = sqfs_block_processor_begin_file(&g_proc, with_inode ? &slot : NULL,
						      NULL, verif_nd_u32("flags"));
		w17_owner_check();
		VERIF_COVER(ret == 0 && with_inode);
		VERIF_COVER(ret == SQFS_ERROR_ALLOC);
		VERIF_COVER(ret == SQFS_ERROR_SEQUENCE);
		g_proc.inode = NULL;
		destroy_and_check();
		free(slot);
	}
#elif OP == 1 || OP == 2
	/* ------------------------------------------------- append / end_file */
	{
		size_t size = verif_nd_size("append.size");
		sqfs_block_t *cur;
		static sqfs_u8 data[APPEND_MAX];

		setup_state(true);
		cur = g_proc.blk_current;
		g_proc.begin_called = verif_nd_bool("begin_called");
		g_proc.blk_flags = verif_nd_u32("blk_flags") & (USERF | SQFS_BLK_FIRST_BLOCK);
		g_proc.blk_index = verif_nd_u32("blk_index");
		g_proc.inode = nd_inode();
		VERIF_ASSUME(size <= APPEND_MAX);
#if OP == 1
		ret = sqfs_block_processor_append(&g_proc,
				verif_nd_bool("with_data") ? data : NULL, size);
#else
		ret = sqfs_block_processor_end_file(&g_proc);
#endif
		w17_owner_check();
		VERIF_ASSERT(g_proc.backlog <= g_proc.max_backlog, "C13.bp.backlog_le_max");
		VERIF_COVER(ret == 0 && g_submit_ok == 2);
		VERIF_COVER(ret == 0 && g_submit_ok == 1 && cur != NULL);
		VERIF_COVER(ret != 0 && g_submit_fail == 1 && cur != NULL &&
			    g_proc.blk_current == NULL);
		VERIF_COVER(ret != 0 && g_blk_alloc_faults == 1);
		VERIF_COVER(ret != 0 && g_deq_null == 1);
		VERIF_COVER(ret == 0 && g_deq_ok >= 1 && g_blk_allocs == 1);
		destroy_and_check();
	}
#elif OP == 3
	/* ------------------------------------------------------ submit_block */
	{
		size_t size = verif_nd_size("submit.size");
		static sqfs_u8 data[BP_BS];

		setup_state(true);
		g_proc.begin_called = verif_nd_bool("begin_called");
		ret = sqfs_block_processor_submit_block(&g_proc, NULL,
							verif_nd_u32("flags"), data, size);
		w17_owner_check();
		VERIF_ASSERT(g_proc.backlog <= g_proc.max_backlog, "C13.bp.backlog_le_max");
		VERIF_COVER(ret == 0 && g_submit_ok == 1);
		VERIF_COVER(ret != 0 && g_submit_fail == 1);
		VERIF_COVER(ret != 0 && g_blk_alloc_faults == 1);
		VERIF_COVER(ret == SQFS_ERROR_OVERFLOW);
		destroy_and_check();
	}
#elif OP == 4
	/* ----------------------------------------------------- enqueue_block */
	{
		sqfs_block_t *blk;
		int k;

		setup_state(true);
		/* the block in the caller's hand: enqueue_block takes it over on
		 * every outcome (that is what all five call sites rely on) */
		blk = w17_blk(0, ALLF, nd_inode());
		k = w17_find(blk);
		VERIF_ASSUME(k >= 0);
		ret = enqueue_block(&g_proc, blk);
		w17_owner_check();
		if (ret == 0)
			VERIF_ASSERT(g_tab_pool[k], "C13.bp.single_owner");
		else if (g_blk_alloc_faults == 0)
			VERIF_ASSERT(g_proc.free_list == blk, "C13.bp.single_owner");
		VERIF_COVER(ret == 0 && g_blk_allocs == W17_RB);
		VERIF_COVER(ret != 0 && g_submit_fail == 1 && g_pstatus != 0);
		VERIF_COVER(ret != 0 && g_submit_fail == 1 && g_pstatus == 0);
#if W17_RB
		VERIF_COVER(ret != 0 && g_blk_alloc_faults == 1);
#endif
		destroy_and_check();
	}
#elif OP == 5
	/* ----------------------------------------------------- get_new_block */
	{
		sqfs_block_t *out = NULL;
		int k;

		setup_state(true);
		ret = get_new_block(&g_proc, &out);
		if (ret == 0) {
			/* handed to the caller: not on the free list any more */
			k = w17_find(out);
			VERIF_ASSERT(k >= 0 && !g_tab_freed[k], "C13.bp.single_owner");
			if (k >= 0)
				g_tab_caller[k] = true;
		}
		w17_owner_check();
		VERIF_ASSERT(g_proc.backlog <= g_proc.max_backlog, "C13.bp.backlog_le_max");
		VERIF_COVER(ret == 0 && g_blk_allocs == 1);
		VERIF_COVER(ret == 0 && g_blk_allocs == 0 && g_deq_ok >= 1);
		VERIF_COVER(ret != 0 && g_blk_alloc_faults == 1);
		VERIF_COVER(ret != 0 && g_deq_null == 1);
		destroy_and_check();
	}
#elif OP == 6
	/* ------------------------------------------- process_completed_block */
	{
		sqfs_block_t *blk, *fl;

		setup_state(true);
		VERIF_ASSUME(g_proc.backlog >= 1);
		fl = g_proc.fblk_in_flight;
		/* taken off the I/O queue by dequeue_block */
		blk = w17_blk(0, ALLF & ~(sqfs_u32)SQFS_BLK_IS_FRAGMENT, nd_inode());
		ret = process_completed_block(&g_proc, blk);
		w17_owner_check();
		VERIF_ASSERT(g_proc.free_list == blk, "C13.bp.single_owner");
		VERIF_COVER(ret == 0 && g_wdb_calls == 1);
		VERIF_COVER(ret != 0 && g_wdb_calls == 1);
#if W17_RB
		VERIF_COVER(ret == 0 && fl != NULL && g_proc.fblk_in_flight == NULL);
#else
		(void)fl;
#endif
		destroy_and_check();
	}
#elif OP == 7
	/* ---------------------------------------- process_completed_fragment */
	{
		sqfs_block_t *frag, *fb0;

		setup_state(true);
		VERIF_ASSUME(g_proc.backlog >= 1);
		fb0 = g_proc.frag_block;
		/* a tail end handed back by the pool */
		frag = w17_blk(SQFS_BLK_IS_FRAGMENT, ALLF, nd_inode());
		ret = process_completed_fragment(&g_proc, frag);
		w17_owner_check();
		VERIF_COVER(ret == 0 && g_proc.frag_block == frag && fb0 != NULL && g_submit_ok == 1);
		VERIF_COVER(ret == 0 && g_proc.frag_block == fb0 && fb0 != NULL && g_ht_inserted == 1);
		VERIF_COVER(ret != 0 && g_submit_fail == 1);
		VERIF_COVER(ret != 0 && g_proc.frag_block == frag);
		VERIF_COVER(ret != 0 && g_proc.free_list == frag);
		destroy_and_check();
	}
#elif OP == 8
	/* ----------------------------------------------------- dequeue_block */
	{
		sqfs_block_t *cur;

		setup_state(true);
		cur = g_proc.blk_current;
		VERIF_ASSUME(g_proc.backlog >= 1);
		ret = dequeue_block(&g_proc);
		w17_owner_check();
		/* never touches the block the front end is filling */
		VERIF_ASSERT(g_proc.blk_current == cur, "C13.bp.single_owner");
		VERIF_COVER(ret == 0 && g_deq_ok == 2);
		VERIF_COVER(ret == 0 && g_wdb_calls == 2);
		VERIF_COVER(ret != 0 && g_deq_null == 1);
		VERIF_COVER(ret != 0 && g_deq_ok == 1 && g_pstatus != 0);
		VERIF_COVER(ret != 0 && g_wdb_calls == 1);
		destroy_and_check();
	}
#elif OP == 9 || OP == 10
	/* ----------------------------------------------------- sync / finish */
	{
		setup_state(true);
		VERIF_ASSUME(g_proc.backlog <= 4);
#if OP == 9
		ret = sqfs_block_processor_sync(&g_proc);
#else
		ret = sqfs_block_processor_finish(&g_proc);
#endif
		w17_owner_check();
		VERIF_COVER(ret == 0 && g_deq_ok >= 1);
		VERIF_COVER(ret == 0 && g_deq_ok == 0);
		VERIF_COVER(ret != 0);
#if OP == 10
		VERIF_COVER(ret == 0 && g_submit_ok == 1);
		VERIF_COVER(ret != 0 && g_submit_fail == 1);
#endif
		destroy_and_check();
	}
#endif
	(void)ret;
}
