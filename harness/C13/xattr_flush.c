/* C13.xattr_flush.propagates (proved; dfcc contracts on the static helpers):
 * C14/xattr_flush.c compiled with C13_CHECKS - the real
 * sqfs_xattr_writer_flush; write_kv_pairs / write_id_table /
 * alloc_location_table are replaced by contracts that may fail (and then set
 * the fault flag), sqfs_meta_writer_create and both write_at calls may fail:
 *   C13.xattr_flush.propagates           any failure => ret != 0
 *   C13.xattr_flush.fails_only_on_fault  ret != 0 => something failed
 *   C14.xattr_flush.writer_released      the temporary metadata writer is
 *                                        dropped on every path
 */
#define C13_CHECKS
#include "C14/xattr_flush.c"
