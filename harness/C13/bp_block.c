/* C13.process_completed_block.propagates (bounded: block index <= 11, inode
 * capacity 0/16, in-flight fragment copies <= 2): backend.c
 * process_completed_block() + real set_block_size(), the step that hands a
 * finished block to the block writer and records its size in the inode /
 * fragment table. Any block flags, with/without inode, with/without fragment
 * table; write_data_block, sqfs_frag_table_set and realloc may fail:
 *   C13.process_completed_block.propagates   any failure => ret != 0
 *   C13.process_completed_block.released     the block goes to the free list
 *                                            exactly once, backlog - 1, on
 *                                            every path (also on failure)
 *   C13.process_completed_block.no_record_after_write_failure  a failed write
 *                                            leaves inode and fragment table
 *                                            untouched
 *   C13.process_completed_block.no_crash     cbmc pointer checks
 */
#define C14_SITE "process_completed_block"
#include <stdlib.h>
#include <string.h>
#include "verif.h"
#include "C14/c14_env.h"
#include "C13/c13_alloc.h"
#include "C13/bp_env.h"
#include "lib/sqfs/src/block_processor/backend.c"

int enqueue_block(sqfs_block_processor_t *proc, sqfs_block_t *blk)
{
	(void)proc; (void)blk;
	return 0;
}

#ifndef NFLIGHT
#define NFLIGHT 2
#endif

void harness(void)
{
	sqfs_inode_generic_t *inode = NULL;
	bool with_inode = verif_nd_bool("with_inode");
	sqfs_block_t *blk, *fl;
	size_t backlog0;
	unsigned i;
	int ret;

	c14_ghost_init();
	bp_env_init();
	if (verif_nd_bool("with_frag_tbl"))
		g_proc.frag_tbl = &g_fragtbl;
	if (with_inode)
		inode = bp_new_inode();
	blk = bp_new_block(with_inode ? &inode : NULL);
	VERIF_ASSUME(blk->index <= 11);
	for (i = 0; i < NFLIGHT; ++i) {
		fl = bp_new_block(NULL);
		fl->next = g_proc.fblk_in_flight;
		g_proc.fblk_in_flight = fl;
	}
	g_proc.backlog = verif_nd_size("backlog");
	VERIF_ASSUME(g_proc.backlog >= 1 && g_proc.backlog < 1000);
	backlog0 = g_proc.backlog;

	ret = process_completed_block(&g_proc, blk);

	VERIF_ASSERT(!g_fault || ret != 0, "C13.process_completed_block.propagates");
	VERIF_ASSERT(g_proc.free_list == blk && blk->next == NULL &&
		     g_proc.backlog == backlog0 - 1 && g_wdb_calls == 1,
		     "C13.process_completed_block.released");
	if (ret != 0 && g_allocs == 0 && g_alloc_faults == 0 && g_ft_set == 0)
		VERIF_ASSERT(g_blk_start_calls == 0,
			     "C13.process_completed_block.no_record_after_write_failure");
	VERIF_COVER(ret == 0 && with_inode && g_allocs == 1 && (blk->flags & SQFS_BLK_IS_SPARSE));
	VERIF_COVER(ret == 0 && with_inode && g_allocs == 1 && !(blk->flags & SQFS_BLK_IS_SPARSE));
	VERIF_COVER(ret == 0 && g_ft_set == 1);
	VERIF_COVER(ret == 0 && g_blk_start_calls == 1);
	VERIF_COVER(ret != 0 && g_alloc_faults == 1);
	VERIF_COVER(ret != 0 && g_ft_set == 1);
}
