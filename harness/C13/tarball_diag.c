/* C13: process_tarball (bin/tar2sqfs/src/process_tarball.c) - "exit with a
 * non-zero status AND A DIAGNOSTIC". Callees as contracts:
 *   it->next      end of archive, an entry, or a negative error. The real tar
 *                 iterator (lib/tar/src/iterator.c it_next) reports most
 *                 failures itself (read_header prints) but is SILENT for an
 *                 allocation failure of the entry, for a member name that
 *                 canonicalize_name refuses ("a/../../x") and for a failed
 *                 skip of the stream - so "silent failure" is an outcome the
 *                 contract allows and the caller has to cover
 *   it->read_link silent failure (the caller prints, as it does today)
 *   set_root_attribs / create_node_and_repack_data: print their own message
 * One entry, then end of archive or an error (bounded: entries <= 1).
 *
 *   C13.tarball.propagates    any callee failure => ret != 0
 *   C13.tarball.diagnostic    ret != 0 => at least one diagnostic
 *   C13.tarball.no_leak       (memory-leak check) entry / link released
 */
#include "verif.h"
#include "bin/tar2sqfs/src/process_tarball.c"

bool dont_skip, keep_time, no_tail_pack, no_symlink_retarget;
sqfs_writer_cfg_t cfg;
char *root_becomes;
strlist_t excludedirs;

typedef struct {
	sqfs_dir_entry_t e;
	char name[4];
} ent_box_t;

static int g_next_calls;
static unsigned g_diag;
static bool g_fault;
static sqfs_writer_t g_sqfs;

int stub_set_root_attribs(sqfs_writer_t *sqfs, sqfs_dir_iterator_t *it,
			  const sqfs_dir_entry_t *ent)
{
	(void)sqfs; (void)it; (void)ent;
	if (verif_nd_bool("root.fail")) {
		g_fault = true;
		g_diag += 1;
		return -1;
	}
	return 0;
}

int stub_create_node(sqfs_writer_t *sqfs, sqfs_dir_iterator_t *it,
		     sqfs_dir_entry_t *ent, const char *link)
{
	(void)sqfs; (void)it; (void)ent; (void)link;
	if (verif_nd_bool("create.fail")) {
		g_fault = true;
		g_diag += 1;
		return -1;
	}
	return 0;
}

static int env_next(sqfs_dir_iterator_t *it, sqfs_dir_entry_t **out)
{
	ent_box_t *b;

	(void)it;
	*out = NULL;
	if (verif_nd_bool("next.fail")) {
		int e = verif_nd_int("next.err");

		VERIF_ASSUME(e < 0);
		g_fault = true;
		if (verif_nd_bool("next.reported_itself"))
			g_diag += 1;
		return e;
	}
	if (g_next_calls++ > 0)
		return 1;
	b = calloc(1, sizeof(*b));
	if (b == NULL) {
		g_fault = true;
		return SQFS_ERROR_ALLOC;	/* silently, as it_next does */
	}
	b->e.name[0] = (char)(verif_nd_bool("is_root") ? '\0' : 'f');
	b->e.mode = verif_nd_bool("is_link") ? (S_IFLNK | 0777) : (S_IFREG | 0644);
	b->e.mtime = verif_nd_i64("mtime");
	*out = &b->e;
	return 0;
}

static int env_read_link(sqfs_dir_iterator_t *it, char **out)
{
	(void)it;
	*out = NULL;
	if (verif_nd_bool("read_link.fail")) {
		g_fault = true;
		return SQFS_ERROR_ALLOC;
	}
	*out = calloc(1, 2);
	if (*out == NULL) {
		g_fault = true;
		return SQFS_ERROR_ALLOC;
	}
	(*out)[0] = 't';
	return 0;
}

static int env_never(void) { VERIF_ASSERT(0, "C13.env.iterator.unexpected_hook"); return -1; }

void sqfs_perror(const char *file, const char *action, int error_code)
{
	(void)file; (void)action; (void)error_code;
	g_diag += 1;
}
void perror(const char *s) { (void)s; g_diag += 1; }
int fputs(const char *s, FILE *f) { (void)s; (void)f; g_diag += 1; return 0; }
int canonicalize_name(char *filename)
{
	(void)filename;
	return 0;
}

void harness(void)
{
	sqfs_dir_iterator_t it;
	int ret;

	memset(&it, 0, sizeof(it));
	it.next = env_next;
	it.read_link = env_read_link;
	g_next_calls = 0;
	g_diag = 0;
	g_fault = false;
	keep_time = verif_nd_bool("keep_time");
	root_becomes = NULL;

	ret = process_tarball(&it, &g_sqfs);

	VERIF_ASSERT(!g_fault || ret != 0, "C13.tarball.propagates");
	VERIF_ASSERT(ret == 0 || g_diag >= 1, "C13.tarball.diagnostic");
	VERIF_COVER(ret == 0);
	VERIF_COVER(ret != 0 && g_diag == 1);
}
