/*
 * c13_alloc.h - fault-injecting allocator contract (DESIGN section 3 row
 * "malloc/calloc/realloc/strdup": every allocation may fail). The real code
 * included AFTER this header calls the wrappers (macro renaming, the
 * "-Dmalloc=counting wrapper" hook of properties.jsonl done inside the
 * harness); a failing allocation returns NULL and sets the ghost flag g_fault,
 * and the decision is on the tape, so counterexamples replay natively.
 * Requires g_fault (C14/c14_env.h).
 */
#ifndef C13_ALLOC_H
#define C13_ALLOC_H
#include <stdlib.h>
#include <string.h>

static unsigned g_allocs;	/* allocations that succeeded */
static unsigned g_alloc_faults;	/* allocations that failed */

static void *c13_malloc(size_t n)
{
	void *p;

	if (verif_nd_bool("malloc.fail")) {
		g_fault = true;
		g_alloc_faults += 1;
		return NULL;
	}
	p = malloc(n);
	VERIF_ASSUME(p != NULL);
	g_allocs += 1;
	return p;
}

static void *c13_calloc(size_t n, size_t sz)
{
	void *p;

	if (verif_nd_bool("calloc.fail")) {
		g_fault = true;
		g_alloc_faults += 1;
		return NULL;
	}
	p = calloc(n, sz);
	VERIF_ASSUME(p != NULL);
	g_allocs += 1;
	return p;
}

static void *c13_realloc(void *old, size_t n)
{
	void *p;

	if (verif_nd_bool("realloc.fail")) {
		g_fault = true;
		g_alloc_faults += 1;
		return NULL;	/* old block stays valid */
	}
	p = realloc(old, n);
	VERIF_ASSUME(p != NULL);
	g_allocs += 1;
	return p;
}

#define malloc c13_malloc
#define calloc c13_calloc
#define realloc c13_realloc

#endif /* C13_ALLOC_H */
