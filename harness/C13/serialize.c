/* C13 obligations on lib/common/src/writer/serialize_fstree.c (bounded:
 * <= 2 inodes in the tree / <= 2 directory entries; static callees replaced
 * by their contracts via goto-instrument --replace-calls where a case says
 * so). Every callee may fail at every call.
 * SF_CASE 0  sqfs_serialize_fstree (serialize_tree_node = contract):
 *   C13.serialize_fstree.propagates   any failure => ret != 0
 *   C13.serialize_fstree.diagnostic   ret != 0 => "storing filesystem tree"
 *                                     diagnostic printed
 *   C13.serialize_fstree.table_starts inode_table_start = file size at entry,
 *                                     directory_table_start = file size after
 *                                     both flushes, recorded before the
 *                                     directory blocks go out
 * SF_CASE 1  serialize_tree_node (write_dir_entries / tree_node_to_inode =
 *            contracts; node kind symbolic: directory, regular file, other):
 *   C13.serialize_tree_node.propagates  any failure => ret != 0
 *   C13.serialize_tree_node.inode_freed the inode object is freed exactly
 *                                     once on every path, and a file node no
 *                                     longer owns it (no double free later)
 * SF_CASE 2  write_dir_entries (real; <= 2 children, hard links included):
 *   C13.write_dir_entries.propagates  a failing dir writer call => NULL and a
 *                                     diagnostic
 */
#define C14_SITE "serialize"
#include <stdlib.h>
#include <string.h>
#include "verif.h"
#include "C14/c14_env.h"
#include "C14/c14_libc.h"
#include "C13/c13_alloc.h"
#include "simple_writer.h"
#include "common.h"

#ifndef SF_CASE
#define SF_CASE 0
#endif

static unsigned g_frees, g_node_calls, g_dw_calls, g_wtf_calls;
static sqfs_u64 g_size_after_flush, g_size_at_entry;
static bool g_dir_start_checked;
static sqfs_writer_t g_wr;

static void c13_free(void *p)
{
	if (p != NULL)
		g_frees += 1;
#pragma push_macro("free")
#undef free
	free(p);
#pragma pop_macro("free")
}

static int step(const char *tag)
{
	if (verif_nd_bool(tag)) {
		g_fault = true;
		return c14_error_code(tag);
	}
	return 0;
}

static void grow(const char *tag)
{
	sqfs_u64 g = verif_nd_u64(tag);

	if (g <= C14_FILE_MAX - g_fsize)
		g_fsize += g;
}

/* ---- metadata writer / id table / dir writer contracts ------------------ */
struct sqfs_meta_writer_t { sqfs_object_t base; };
struct sqfs_dir_writer_t { sqfs_object_t base; };
struct sqfs_id_table_t { sqfs_object_t base; };
static struct sqfs_meta_writer_t g_im, g_dm;
static struct sqfs_dir_writer_t g_dirwr;
static struct sqfs_id_table_t g_idtbl;
static unsigned g_flush_im, g_flush_dm;

int sqfs_meta_writer_flush(sqfs_meta_writer_t *m)
{
	if (m == &g_im) {
		g_flush_im += 1;
		grow("flush_im.grow");
	} else {
		VERIF_ASSERT(m == &g_dm, "C13.env.meta_writer.known");
		g_flush_dm += 1;	/* keep-in-memory writer: no file growth */
		g_size_after_flush = g_fsize;
	}
	return step("meta_flush.fail");
}

int sqfs_meta_write_write_to_file(sqfs_meta_writer_t *m)
{
	VERIF_ASSERT(m == &g_dm, "C13.env.meta_writer.known");
	g_wtf_calls += 1;
	if (g_wr.super.directory_table_start == g_size_after_flush &&
	    g_fsize == g_size_after_flush)
		g_dir_start_checked = true;
	grow("write_to_file.grow");
	return step("write_to_file.fail");
}

void sqfs_meta_writer_get_position(const sqfs_meta_writer_t *m,
				   sqfs_u64 *block_start, sqfs_u32 *offset)
{
	(void)m;
	*block_start = verif_nd_u32("pos.block");
	*offset = verif_nd_u16("pos.offset") & 0x1FFF;
}

int sqfs_meta_writer_write_inode(sqfs_meta_writer_t *iw, const sqfs_inode_generic_t *n)
{
	VERIF_ASSERT(iw == &g_im && n != NULL, "C13.env.write_inode.pre");
	return step("write_inode.fail");
}

int sqfs_id_table_id_to_index(sqfs_id_table_t *tbl, sqfs_u32 id, sqfs_u16 *out)
{
	(void)id;
	VERIF_ASSERT(tbl == &g_idtbl, "C13.env.id_table.pre");
	*out = verif_nd_u16("id.index");
	return step("id_to_index.fail");
}

int sqfs_inode_set_xattr_index(sqfs_inode_generic_t *inode, sqfs_u32 index)
{ (void)inode; (void)index; return 0; }
int sqfs_inode_make_basic(sqfs_inode_generic_t *inode) { (void)inode; return 0; }
int sqfs_inode_make_extended(sqfs_inode_generic_t *inode)
{
	if (inode->base.type == SQFS_INODE_FILE)
		inode->base.type = SQFS_INODE_EXT_FILE;
	return 0;
}

int sqfs_dir_writer_begin(sqfs_dir_writer_t *w, sqfs_u32 flags)
{ (void)flags; VERIF_ASSERT(w == &g_dirwr, "C13.env.dir_writer.pre"); g_dw_calls += 1; return step("dir_begin.fail"); }
int sqfs_dir_writer_add_entry(sqfs_dir_writer_t *w, const char *name, sqfs_u32 inum,
			      sqfs_u64 iref, sqfs_u16 mode)
{ (void)name; (void)inum; (void)iref; (void)mode; VERIF_ASSERT(w == &g_dirwr, "C13.env.dir_writer.pre"); g_dw_calls += 1; return step("dir_add.fail"); }
int sqfs_dir_writer_end(sqfs_dir_writer_t *w)
{ VERIF_ASSERT(w == &g_dirwr, "C13.env.dir_writer.pre"); g_dw_calls += 1; return step("dir_end.fail"); }

static sqfs_inode_generic_t *new_inode(const char *tag, int type)
{
	sqfs_inode_generic_t *i;

	if (verif_nd_bool(tag)) {
		g_fault = true;
		return NULL;
	}
#pragma push_macro("calloc")
#undef calloc
	i = calloc(1, sizeof(*i));
#pragma pop_macro("calloc")
	VERIF_ASSUME(i != NULL);
	g_allocs += 1;
	i->base.type = type;
	return i;
}

sqfs_inode_generic_t *sqfs_dir_writer_create_inode(const sqfs_dir_writer_t *w, size_t hlinks,
						   sqfs_u32 xattr, sqfs_u32 parent_ino)
{
	(void)hlinks; (void)xattr; (void)parent_ino;
	VERIF_ASSERT(w == &g_dirwr, "C13.env.dir_writer.pre");
	g_dw_calls += 1;
	return new_inode("dir_create_inode.fail",
			 verif_nd_bool("dir.ext") ? SQFS_INODE_EXT_DIR : SQFS_INODE_DIR);
}

/* contracts substituted for static callees (--replace-calls) */
int c13_serialize_tree_node(const char *filename, sqfs_writer_t *wr, tree_node_t *n)
{
	(void)filename;
	VERIF_ASSERT(wr == &g_wr && n != NULL, "C13.env.serialize_tree_node.pre");
	g_node_calls += 1;
	grow("node.grow");
	return step("serialize_tree_node.fail");
}

sqfs_inode_generic_t *c13_write_dir_entries(const char *filename, sqfs_dir_writer_t *dirw,
					    tree_node_t *node)
{
	(void)filename; (void)node;
	VERIF_ASSERT(dirw == &g_dirwr, "C13.env.dir_writer.pre");
	return new_inode("write_dir_entries.fail", SQFS_INODE_DIR);
}

sqfs_inode_generic_t *c13_tree_node_to_inode(tree_node_t *node)
{
	(void)node;
	return new_inode("tree_node_to_inode.fail", SQFS_INODE_FIFO);
}

#define free c13_free
#include "lib/common/src/writer/serialize_fstree.c"
#undef free

static tree_node_t g_n[3];

static void writer_setup(void)
{
	memset(&g_wr, 0, sizeof(g_wr));
	g_wr.outfile = &g_file;
	g_wr.im = &g_im;
	g_wr.dm = &g_dm;
	g_wr.dirwr = &g_dirwr;
	g_wr.idtbl = &g_idtbl;
}

void harness(void)
{
	sqfs_u64 size0 = verif_nd_u64("fsize");
	int ret;

	VERIF_ASSUME(size0 >= C14_SUPER_SZ && size0 <= C14_FILE_MAX);
	c14_file_init(size0);
	g_frees = g_node_calls = g_dw_calls = g_wtf_calls = 0;
	g_flush_im = g_flush_dm = 0;
	g_allocs = g_alloc_faults = 0;
	g_dir_start_checked = false;
	g_size_at_entry = size0;
	g_diag = 0;
	writer_setup();
	memset(g_n, 0, sizeof(g_n));

#if SF_CASE == 0
	{
		static tree_node_t *inodes[2];
		size_t count = verif_nd_size("inode_count");

		VERIF_ASSUME(count >= 1 && count <= 2);
		inodes[0] = &g_n[0];
		inodes[1] = &g_n[1];
		g_wr.fs.inodes = inodes;
		g_wr.fs.unique_inode_count = count;
		g_wr.fs.root = &g_n[count - 1];
		g_n[count - 1].inode_ref = verif_nd_u64("root.ref");

		ret = sqfs_serialize_fstree("out.sqfs", &g_wr);

		VERIF_ASSERT(!g_fault || ret != 0, "C13.serialize_fstree.propagates");
		VERIF_ASSERT(ret == 0 || g_diag >= 1, "C13.serialize_fstree.diagnostic");
		VERIF_ASSERT(g_wr.super.inode_table_start == size0 &&
			     (ret != 0 || (g_node_calls == count && g_flush_im == 1 &&
					   g_flush_dm == 1 && g_wtf_calls == 1 &&
					   g_dir_start_checked &&
					   g_wr.super.root_inode_ref == g_n[count - 1].inode_ref)),
			     "C13.serialize_fstree.table_starts");
		VERIF_COVER(ret == 0 && count == 2);
		VERIF_COVER(ret != 0 && g_node_calls == 1 && count == 2);
		VERIF_COVER(ret != 0 && g_wtf_calls == 1);
		VERIF_COVER(ret != 0 && g_flush_dm == 1 && g_wtf_calls == 0);
	}
#elif SF_CASE == 1
	{
		tree_node_t *n = &g_n[0];
		unsigned kind = verif_nd_u8("kind") % 3;
		sqfs_inode_generic_t *fi = NULL;

		n->xattr_idx = verif_nd_u32("xattr");
		n->link_count = verif_nd_u32("nlink");
		n->uid = verif_nd_u32("uid");
		n->gid = verif_nd_u32("gid");
		if (kind == 0) {
			n->mode = S_IFDIR | 0755;
		} else if (kind == 1) {
			n->mode = S_IFREG | 0644;
			fi = new_inode("never", verif_nd_bool("file.ext") ? SQFS_INODE_EXT_FILE : SQFS_INODE_FILE);
			VERIF_ASSUME(fi != NULL);
			n->data.file.inode = fi;
			g_fault = false;
		} else {
			n->mode = S_IFIFO | 0600;
		}

		ret = serialize_tree_node("out.sqfs", &g_wr, n);

		VERIF_ASSERT(!g_fault || ret != 0, "C13.serialize_tree_node.propagates");
		VERIF_ASSERT(g_frees == g_allocs &&
			     (kind != 1 || n->data.file.inode == NULL),
			     "C13.serialize_tree_node.inode_freed");
		VERIF_COVER(ret == 0 && kind == 0);
		VERIF_COVER(ret == 0 && kind == 1);
		VERIF_COVER(ret == 0 && kind == 2);
		VERIF_COVER(ret != 0 && g_allocs == 1);
		VERIF_COVER(ret != 0 && g_allocs == 0);
	}
#else
	{
		tree_node_t *dir = &g_n[0], *a = &g_n[1], *b = &g_n[2];
		sqfs_inode_generic_t *inode;
		static char na[2] = "a", nb[2] = "b";
		unsigned nchild = verif_nd_u8("children") % 3;

		dir->mode = S_IFDIR | 0755;
		a->name = na;
		a->mode = S_IFREG | 0644;
		b->name = nb;
		if (verif_nd_bool("b.hardlink")) {
			b->mode = S_IFLNK | 0777;
			b->flags = FLAG_LINK_IS_HARD;
			b->data.target_node = a;
		} else {
			b->mode = S_IFIFO | 0600;
		}
		if (nchild >= 1)
			dir->data.children = a;
		if (nchild == 2)
			a->next = b;
		if (verif_nd_bool("has_parent"))
			dir->parent = &g_n[1];

		inode = write_dir_entries("out.sqfs", &g_dirwr, dir);

		VERIF_ASSERT(!g_fault || inode == NULL, "C13.write_dir_entries.propagates");
		VERIF_ASSERT(inode != NULL || (g_fault && g_diag >= 1),
			     "C13.write_dir_entries.propagates");
		if (inode != NULL)
			VERIF_ASSERT(g_dw_calls == 3 + nchild, "C13.write_dir_entries.all_entries");
		VERIF_COVER(inode != NULL && nchild == 2);
		VERIF_COVER(inode != NULL && nchild == 0);
		VERIF_COVER(inode == NULL && g_dw_calls == 2);
		c13_free(inode);
	}
#endif
}
