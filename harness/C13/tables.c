/* C13.id_table_write.propagates / C13.frag_table_write.propagates (bounded:
 * <= TBL_N entries): the two table front ends above sqfs_write_table
 * (id_table.c, frag_table.c), sqfs_write_table = fault-injecting contract.
 *   C13.<f>.propagates    sqfs_write_table fails => ret != 0 (its code)
 *   C13.<f>.table_intact  the in-memory table is the same after the call
 *                         (id table: byte-swapped back also on failure), so a
 *                         failed run cannot go on with a corrupted table
 *   C13.frag_table_write.super_untouched_on_failure
 * Loops over the entries are unwound (TBL_N + 1).
 */
#define C14_SITE "tables"
#include <stdlib.h>
#include <string.h>
#include "verif.h"
#include "C14/c14_env.h"
#include "sqfs/table.h"
#include "util/array.h"

#ifndef TBL_N
#define TBL_N 3
#endif

static unsigned g_wt_calls;
static size_t g_wt_size;

int sqfs_write_table(sqfs_file_t *file, sqfs_compressor_t *cmp,
		     const void *data, size_t table_size, sqfs_u64 *start)
{
	(void)cmp;
	g_wt_calls += 1;
	g_wt_size = table_size;
	VERIF_ASSERT(file == &g_file && VERIF_R_OK(data, table_size),
		     "C13.env.write_table.pre");
	if (verif_nd_bool("write_table.fail")) {
		g_fault = true;
		return c14_error_code("write_table.err");
	}
	*start = verif_nd_u64("write_table.start");
	return 0;
}

int sqfs_read_table(sqfs_file_t *file, sqfs_compressor_t *cmp, size_t table_size,
		    sqfs_u64 location, sqfs_u64 lower_limit, sqfs_u64 upper_limit,
		    void **out)
{
	(void)file; (void)cmp; (void)table_size; (void)location;
	(void)lower_limit; (void)upper_limit; (void)out;
	return SQFS_ERROR_IO;
}
void array_cleanup(array_t *a) { (void)a; }
int array_init(array_t *a, size_t s, size_t c) { (void)a; (void)s; (void)c; return 0; }
int array_init_copy(array_t *a, const array_t *b) { (void)a; (void)b; return 0; }
int array_append(array_t *a, const void *d) { (void)a; (void)d; return 0; }
int array_set_capacity(array_t *a, size_t c) { (void)a; (void)c; return 0; }
void tbl_destroy(sqfs_object_t *o) { (void)o; }
sqfs_object_t *tbl_copy(const sqfs_object_t *o) { (void)o; return NULL; }

#include "lib/sqfs/src/id_table.c"
#include "lib/sqfs/src/frag_table.c"

void harness(void)
{
	static sqfs_super_t super;
	size_t used = verif_nd_size("used"), w = verif_nd_size("w");
	sqfs_u16 flags0 = verif_nd_u16("super.flags");
	int ret;

	c14_file_init(C14_SUPER_SZ);
	g_wt_calls = 0;
	VERIF_ASSUME(used <= TBL_N && w < TBL_N);
	super.flags = flags0;
	super.fragment_table_start = 0xFFFFFFFFFFFFFFFFULL;
	super.id_table_start = 0xFFFFFFFFFFFFFFFFULL;

	if (verif_nd_bool("id_table")) {
		static sqfs_id_table_t tbl;
		static sqfs_u32 ids[TBL_N];
		sqfs_u32 idw;

		verif_nd_bytes(ids, sizeof(ids), "ids");
		idw = ids[w];
		tbl.ids.size = sizeof(sqfs_u32);
		tbl.ids.count = TBL_N;
		tbl.ids.used = used;
		tbl.ids.data = ids;
		ret = sqfs_id_table_write(&tbl, &g_file, &super, NULL);
		VERIF_ASSERT(!g_fault || ret != 0, "C13.id_table_write.propagates");
		VERIF_ASSERT(g_wt_calls == 1 && g_wt_size == used * 4 &&
			     tbl.ids.used == used && ids[w] == idw,
			     "C13.id_table_write.table_intact");
		VERIF_COVER(ret == 0 && used == TBL_N);
		VERIF_COVER(ret != 0);
	} else {
		static sqfs_frag_table_t tbl;
		static sqfs_fragment_t frags[TBL_N];
		sqfs_u32 szw;

		verif_nd_bytes(frags, sizeof(frags), "frags");
		szw = frags[w].size;
		tbl.table.size = sizeof(sqfs_fragment_t);
		tbl.table.count = TBL_N;
		tbl.table.used = used;
		tbl.table.data = frags;
		ret = sqfs_frag_table_write(&tbl, &g_file, &super, NULL);
		VERIF_ASSERT(!g_fault || ret != 0, "C13.frag_table_write.propagates");
		VERIF_ASSERT(g_wt_calls == (used ? 1u : 0u) && tbl.table.used == used &&
			     frags[w].size == szw, "C13.frag_table_write.table_intact");
		if (ret != 0)
			VERIF_ASSERT(super.flags == flags0,
				     "C13.frag_table_write.super_untouched_on_failure");
		VERIF_COVER(ret == 0 && used == TBL_N);
		VERIF_COVER(ret == 0 && used == 0);
		VERIF_COVER(ret != 0);
	}
}
