# Worker w17: the OWNERSHIP INVARIANT of the block processor as an inductive
# invariant of every main-thread operation, then the real destructor
# (harness/C13/w17_own.c + w17_own.h).
FUNCTIONS = [
    "sqfs_block_processor_begin_file", "sqfs_block_processor_append", "sqfs_block_processor_end_file",
    "sqfs_block_processor_submit_block", "enqueue_block", "get_new_block", "add_sentinel_block",
    "process_completed_block", "process_completed_fragment", "release_old_block", "store_io_block",
    "dequeue_block (whole, real callees)", "sqfs_block_processor_sync", "sqfs_block_processor_finish",
    "block_processor_destroy", "free_block_list", "ht_delete_function", "sqfs_drop",
]
TRUSTED = [
    "thread pool contract, ownership part (harness/C13/w17_own.h): submit takes the block or fails and leaves it "
    "with the caller; dequeue hands back the oldest block (also after a worker failure: non-NULL with the status "
    "already non-zero, as threadpool.c dequeue() does), NULL only when nothing is inside or when the status is "
    "non-zero; destroy frees the pool's work items, not the blocks",
    "free() contract (w17_own.h): the argument is NULL, the processor, or a registered block that was not freed "
    "before and is not inside the pool; the block is really freed, so cbmc's pointer checks see any later use",
    "hash_table_destroy runs the delete function on the (at most one) entry inserted in this run",
]
ASSUMPTIONS = [
    "w17_own: bounded state - at most 10 blocks alive, free list <= 2, I/O queue <= 2, pool <= 2 at the start, "
    "one in-flight copy, append <= 2 blocks + 1 byte with 4 byte blocks; block index <= 3; backlog <= max_backlog "
    "(re-established: C13.bp.backlog_le_max); sync/finish additionally backlog <= 4",
    "blocks that are still inside the pool when the processor is destroyed are not freed by anybody "
    "(threadpool.c destroy() frees its work items, not item->data; block_processor_destroy does not drain the "
    "pool): after a failed run these blocks leak until exit. Recorded as an observation, not an obligation",
    "the in-flight copy list, the cached fragment block and the hash table chunk are part of the invariant only "
    "as far as the table knows them (copies and cache: yes; chunk: --memory-leak-check)",
]

_FP = {"write_at": "c14_write_at", "get_size": "c14_get_size", "truncate": "c14_truncate",
       "read_at": "c14_read_at", "do_block": "c14_do_block",
       "write_data_block": "c13_write_data_block",
       "submit": "w17_pool_submit", "dequeue": "w17_pool_dequeue", "get_status": "w17_pool_get_status",
       "get_worker_count": "c13_pool_get_worker_count", "set_worker_ptr": "c13_pool_set_worker_ptr",
       "block_processor_destroy:destroy": "w17_pool_destroy",
       "destroy": "c14_obj_destroy"}

_OPS = [(0, "begin_file"), (2, "end_file"), (3, "submit_block"), (4, "enqueue"),
        (5, "get_new_block"), (6, "pcb"), (7, "pcf"), (9, "sync"), (10, "finish")]
# W17_RB=1 (fragment blocks are read back: enqueue_block keeps in-flight
# copies) for the operations that can enqueue a fragment block / free a copy
_RB_OPS = (3, 4, 6, 7, 10)

# shape of the start state: (current block, fragment block, free list length,
# I/O queue length, blocks inside the pool); quick tier: the empty shape and
# the one with every place occupied once
_QUICK = [(1, 1, 1, 1, 1), (0, 0, 0, 0, 0)]
# dequeue_block with every place occupied: 4-5 minutes under load -> thorough
_QUICK_DEQ = [(0, 0, 0, 0, 0)]
# append is the expensive one (6 minutes per shape with a current block on a
# loaded machine, 30 s without): those shapes are in the thorough tier
_QUICK_APP = [(0, 0, 0, 0, 0)]
# thorough tier: three more shapes (fullest; two queued blocks and no free
# list; fragment block, no current block). Enumerating all 108 shapes within
# the bounds is possible (W17_* are free parameters) but costs hours.
_THOROUGH = [(1, 1, 2, 1, 2), (1, 0, 0, 2, 1), (0, 1, 1, 0, 2)]
_ALL = [(1, 1, 1, 1, 1), (0, 0, 0, 0, 0), (1, 0, 0, 0, 0)] + _THOROUGH


def _cases(ops, fixed=None):
    out = []
    for op, name in ops:
        for rb in ((0, 1) if op in _RB_OPS or op == 8 else (0,)):
            for sh in _ALL:
                d = {"W17_RB": rb, "W17_CUR": sh[0], "W17_FB": sh[1], "W17_NFREE": sh[2],
                     "W17_NIOQ": sh[3], "W17_NPOOL": sh[4]}
                if fixed is None:
                    d["OP"] = op
                out.append(dict(id="%s_rb%d_s%d%d%d%d%d" % ((name, rb) + sh), defines=d,
                                tier="quick" if sh in (_QUICK_DEQ if op == 8 else _QUICK_APP if op == 1 else _QUICK)
                                else "thorough"))
    return out


_LABEL = "bounded(6 start shapes with free list <= 2, I/O queue <= 2, pool <= 2; append <= 1 block + 1, block = 4)"
_COMMON = dict(file="w17_own.c", label=_LABEL, fp=_FP, unwind=14, timeout=900,
               flags=["--memory-leak-check"],
               # "flags & ~BLK_FLAG_INTERNAL", "flags & ~SQFS_BLK_USER_SETTABLE_FLAGS":
               # int mask converted to unsigned, defined behaviour
               nochecks=["--conversion-check"])

HARNESSES = [
    dict(_COMMON, name="w17_own", defines={"BP_BS": 4, "INODE_AVAIL": 0},
         must_have=["C13.bp.single_owner", "C13.bp.no_orphan", "C13.bp.destroy_safe"],
         cases=_cases(_OPS)),
    # append: its loop with the contracts of get_new_block / enqueue_block that
    # cases get_new_block_* / enqueue_* establish on the real functions
    dict(_COMMON, native=False, name="w17_own_app", defines={"BP_BS": 4, "INODE_AVAIL": 0, "OP": 1, "W17_DEQ_MOVES": 1},
         pre_instrument_flags=["--replace-calls", "get_new_block:w17_gnb_contract",
                               "--replace-calls", "enqueue_block:w17_enq_contract"],
         must_have=["C13.bp.single_owner", "C13.bp.no_orphan", "C13.bp.destroy_safe"],
         # <= BP_BS + 1 bytes: at most 4 passes through append's loop
         unwindset=["sqfs_block_processor_append.0:5"], timeout=1800,
         cases=[c for c in _cases([(1, "append")], fixed=True) if c["tier"] == "quick"]),
    # the same harness on the start shapes WITH a current block (thorough tier,
    # ~6 min each): their cover pass runs out of memory, so reachability of the
    # cover points is established by the quick shapes of w17_own_app only
    dict(_COMMON, native=False, cover=False, name="w17_own_app_cur",
         defines={"BP_BS": 4, "INODE_AVAIL": 0, "OP": 1, "W17_DEQ_MOVES": 1},
         pre_instrument_flags=["--replace-calls", "get_new_block:w17_gnb_contract",
                               "--replace-calls", "enqueue_block:w17_enq_contract"],
         must_have=["C13.bp.single_owner", "C13.bp.no_orphan", "C13.bp.destroy_safe"],
         unwindset=["sqfs_block_processor_append.0:5"], timeout=1800,
         cases=[c for c in _cases([(1, "append")], fixed=True) if c["tier"] != "quick"]),
    # dequeue_block itself: the real function, its two big callees replaced by
    # the contracts that cases pcb / pcf establish (all real together: no result
    # in 15 minutes)
    dict(_COMMON, native=False, name="w17_own_deq", defines={"BP_BS": 4, "INODE_AVAIL": 0, "OP": 8},
         pre_instrument_flags=["--replace-calls", "process_completed_block:w17_pcb_contract",
                               "--replace-calls", "process_completed_fragment:w17_pcf_contract"],
         must_have=["C13.bp.single_owner", "C13.bp.no_orphan", "C13.bp.destroy_safe",
                    "C13.bp.dequeue_lowers_backlog"],
         cases=_cases([(8, "dequeue")], fixed=True)),
]
