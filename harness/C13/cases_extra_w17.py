# Worker w17: the OWNERSHIP INVARIANT of the block processor as an inductive
# invariant of every main-thread operation, then the real destructor
# (harness/C13/w17_own.c + w17_own.h).
FUNCTIONS = [
    "sqfs_block_processor_begin_file", "sqfs_block_processor_append", "sqfs_block_processor_end_file",
    "sqfs_block_processor_submit_block", "enqueue_block", "get_new_block", "add_sentinel_block",
    "process_completed_block", "process_completed_fragment", "release_old_block", "store_io_block",
    "dequeue_block (whole, real callees)", "sqfs_block_processor_sync", "sqfs_block_processor_finish",
    "block_processor_destroy", "free_block_list", "ht_delete_function", "sqfs_drop",
]
TRUSTED = [
    "thread pool contract, ownership part (harness/C13/w17_own.h): submit takes the block or fails and leaves it "
    "with the caller; dequeue hands back the oldest block (also after a worker failure: non-NULL with the status "
    "already non-zero, as threadpool.c dequeue() does), NULL only when nothing is inside or when the status is "
    "non-zero; destroy frees the pool's work items, not the blocks",
    "free() contract (w17_own.h): the argument is NULL, the processor, or a registered block that was not freed "
    "before and is not inside the pool; the block is really freed, so cbmc's pointer checks see any later use",
    "hash_table_destroy runs the delete function on the (at most one) entry inserted in this run",
]
ASSUMPTIONS = [
    "w17_own: bounded state - at most 10 blocks alive, free list <= 2, I/O queue <= 2, pool <= 2 at the start, "
    "one in-flight copy, append <= 2 blocks + 1 byte with 4 byte blocks; block index <= 3; backlog <= max_backlog "
    "(re-established: C13.bp.backlog_le_max); sync/finish additionally backlog <= 4",
    "blocks that are still inside the pool when the processor is destroyed are not freed by anybody "
    "(threadpool.c destroy() frees its work items, not item->data; block_processor_destroy does not drain the "
    "pool): after a failed run these blocks leak until exit. Recorded as an observation, not an obligation",
    "the in-flight copy list, the cached fragment block and the hash table chunk are part of the invariant only "
    "as far as the table knows them (copies and cache: yes; chunk: --memory-leak-check)",
]

_FP = {"write_at": "c14_write_at", "get_size": "c14_get_size", "truncate": "c14_truncate",
       "read_at": "c14_read_at", "do_block": "c14_do_block",
       "write_data_block": "c13_write_data_block",
       "submit": "w17_pool_submit", "dequeue": "w17_pool_dequeue", "get_status": "w17_pool_get_status",
       "get_worker_count": "c13_pool_get_worker_count", "set_worker_ptr": "c13_pool_set_worker_ptr",
       "block_processor_destroy:destroy": "w17_pool_destroy",
       "destroy": "c14_obj_destroy"}

_OPS = [(0, "begin_file"), (1, "append"), (2, "end_file"), (3, "submit_block"), (4, "enqueue"),
        (5, "get_new_block"), (6, "pcb"), (7, "pcf"), (8, "dequeue"), (9, "sync"), (10, "finish")]
# W17_RB=1 (fragment blocks are read back: enqueue_block keeps in-flight
# copies) for the operations that can enqueue a fragment block / free a copy
_RB_OPS = (3, 4, 6, 7, 8, 10)

HARNESSES = [
    dict(name="w17_own", file="w17_own.c",
         label="bounded(blocks <= 10, lists <= 2, pool <= 2, append <= 2 blocks + 1, block = 4)",
         fp=_FP, defines={"BP_BS": 4, "INODE_AVAIL": 0}, unwind=12, timeout=900,
         flags=["--memory-leak-check"],
         # "flags & ~BLK_FLAG_INTERNAL", "flags & ~SQFS_BLK_USER_SETTABLE_FLAGS":
         # int mask converted to unsigned, defined behaviour
         nochecks=["--conversion-check"],
         must_have=["C13.bp.single_owner", "C13.bp.no_orphan", "C13.bp.destroy_safe"],
         cases=[dict(id="%s_rb0" % n, defines={"OP": op, "W17_RB": 0}, tier="quick") for op, n in _OPS] +
               [dict(id="%s_rb1" % n, defines={"OP": op, "W17_RB": 1}, tier="quick")
                for op, n in _OPS if op in _RB_OPS]),
]
