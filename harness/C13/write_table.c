/* C13.write_table.propagates (proved, loop contract): C14/ao_write_table.c
 * compiled with C13_CHECKS - the real sqfs_write_table against the
 * fault-injecting contracts of alloc_array, the metadata writer and write_at:
 *   C13.write_table.propagates           any failure => ret != 0
 *   C13.write_table.fails_only_on_fault  ret != 0 => something failed
 *   C14.write_table.writer_released      the temporary writer is dropped on
 *                                        every path
 */
#define C13_CHECKS
#include "C14/ao_write_table.c"
