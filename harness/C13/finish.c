/* C13 obligations on sqfs_writer_finish (proved): C14/finish.c compiled with
 * C13_CHECKS. Every stage, the superblock write, the padding write and the
 * padding allocation may fail, in any combination:
 *   C13.finish.propagates          any failure => ret != 0
 *   C13.finish.diagnostic          ret != 0 => a diagnostic was printed
 *   C13.finish.fails_only_on_fault ret != 0 => something did fail
 * together with C14.finish.no_super_on_failure (no final superblock after a
 * failed stage).
 */
#define C13_CHECKS
#include "C14/finish.c"
