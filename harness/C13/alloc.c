/* C13.alloc.overflow_is_failure (proved): lib/util/src/alloc.c alloc_flex /
 * alloc_array, full domain of base and count, item size case split over the
 * sizes the writer path uses (1, 8, 16 - a symbolic 64x64 multiplication
 * against an independent overflow predicate does not finish), calloc may fail:
 *   C13.alloc.overflow_is_failure  a size computation that does not fit
 *                                  size_t => NULL (never a short buffer)
 *   C13.alloc.size                 non-NULL => the object has at least
 *                                  base + item*n (resp. item*n) bytes
 *   C13.alloc.propagates           calloc failure => NULL
 * Loop-free.
 */
#define C14_SITE "alloc"
#ifndef ITEM
#define ITEM 8
#endif
#include <stdlib.h>
#include <string.h>
#include <errno.h>
#include "verif.h"
#include "C14/c14_env.h"

static size_t g_req;
static void *c13_sized_calloc(size_t n, size_t sz)
{
	void *p;

	g_req = n * sz;
	if (verif_nd_bool("calloc.fail") || g_req > ((size_t)1 << 40)) {
		g_fault = true;	/* huge requests fail (address space) */
		return NULL;
	}
	p = calloc(n, sz);
	VERIF_ASSUME(p != NULL);
	return p;
}
#define calloc c13_sized_calloc
#include "lib/util/src/alloc.c"
#undef calloc

void harness(void)
{
	size_t base = verif_nd_size("base"), item = ITEM;
	size_t n = verif_nd_size("n");
	size_t want = 0;
	bool ov;
	void *p;

	c14_ghost_init();
	if (verif_nd_bool("flex")) {
		ov = n > SIZE_MAX / ITEM || base > SIZE_MAX - ITEM * n;
		if (!ov)
			want = base + ITEM * n;
		p = alloc_flex(base, item, n);
	} else {
		ov = n > SIZE_MAX / ITEM;
		if (!ov)
			want = ITEM * n;
		p = alloc_array(item, n);
	}
	if (ov)
		VERIF_ASSERT(p == NULL, "C13.alloc.overflow_is_failure");
	if (p != NULL)
		VERIF_ASSERT(!ov && g_req == want && VERIF_OBJECT_SIZE(p) >= g_req,
			     "C13.alloc.size");
	VERIF_ASSERT(!g_fault || p == NULL, "C13.alloc.propagates");
	VERIF_COVER(p != NULL && want == 4096);
	VERIF_COVER(p == NULL && ov);
	VERIF_COVER(p == NULL && !ov && want == 16);
	free(p);
}
