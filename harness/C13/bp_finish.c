/* C13.bp_finish.propagates (bounded: backlog <= 4; the condition-less drain
 * loop of sqfs_block_processor_sync cannot carry a loop contract in cbmc 6.11): block_processor.c sqfs_block_processor_sync and
 * sqfs_block_processor_finish (real), dequeue_block / enqueue_block = their
 * fault-injecting contracts. Processor with any backlog, with/without a
 * pending fragment block / current block:
 *   C13.bp_finish.propagates     a failing dequeue_block / enqueue_block =>
 *                                ret != 0 (first stage of sqfs_writer_finish)
 *   C13.bp_finish.flushes_fragment_block  ret == 0 => the pending fragment
 *                                block was handed to enqueue_block exactly
 *                                once, with the next I/O sequence number, and
 *                                the processor no longer holds it
 *   C13.bp_finish.drained        ret == 0 => backlog is 0 (or only the current
 *                                block is left)
 */
#define C14_SITE "bp_finish"
#include <stdlib.h>
#include <string.h>
#include "verif.h"
#include "C14/c14_env.h"
#include "C13/c13_alloc.h"
#include "C13/bp_env.h"

static unsigned g_deq_calls, g_enq_calls;
static sqfs_block_t *g_enq_blk;

int dequeue_block(sqfs_block_processor_t *proc)
{
	size_t dec = verif_nd_size("dequeue.dec");

	VERIF_ASSERT(proc == &g_proc && proc->backlog >= 1, "C13.env.dequeue_block.pre");
	g_deq_calls += 1;
	if (verif_nd_bool("dequeue.fail")) {
		g_fault = true;
		return c14_error_code("dequeue.err");
	}
	if (dec < 1 || dec > proc->backlog)
		dec = 1;
	proc->backlog -= dec;
	return 0;
}

int enqueue_block(sqfs_block_processor_t *proc, sqfs_block_t *blk)
{
	VERIF_ASSERT(proc == &g_proc && blk != NULL, "C13.env.enqueue_block.pre");
	g_enq_calls += 1;
	g_enq_blk = blk;
	if (verif_nd_bool("enqueue.fail")) {
		g_fault = true;
		return c14_error_code("enqueue.err");
	}
	return 0;
}

#include "lib/sqfs/src/block_processor/block_processor.c"

void harness(void)
{
	sqfs_block_t *fb = NULL;
	sqfs_u32 seq0;
	int ret;

	c14_ghost_init();
	bp_env_init();
	g_deq_calls = g_enq_calls = 0;
	g_enq_blk = NULL;
	g_proc.backlog = verif_nd_size("backlog");
	VERIF_ASSUME(g_proc.backlog <= 4);
	if (verif_nd_bool("with_frag_block")) {
		fb = bp_new_block(NULL);
		g_proc.frag_block = fb;
		VERIF_ASSUME(g_proc.backlog >= 1);
	}
	if (verif_nd_bool("with_current"))
		g_proc.blk_current = bp_new_block(NULL);
	seq0 = g_proc.io_seq_num;

	ret = sqfs_block_processor_finish(&g_proc);

	VERIF_ASSERT(!g_fault || ret != 0, "C13.bp_finish.propagates");
	if (ret == 0) {
		if (fb != NULL)
			VERIF_ASSERT(g_enq_calls == 1 && g_enq_blk == fb &&
				     fb->io_seq_num == seq0 && g_proc.frag_block == NULL,
				     "C13.bp_finish.flushes_fragment_block");
		else
			VERIF_ASSERT(g_enq_calls == 0, "C13.bp_finish.flushes_fragment_block");
		VERIF_ASSERT(g_proc.backlog == 0 ||
			     (g_proc.backlog == 1 && g_proc.blk_current != NULL),
			     "C13.bp_finish.drained");
	}
	VERIF_COVER(ret == 0 && fb != NULL && g_deq_calls >= 2);
	VERIF_COVER(ret == 0 && fb == NULL && g_deq_calls == 0);
	VERIF_COVER(ret != 0 && g_enq_calls == 1 && g_deq_calls == 0);
	VERIF_COVER(ret != 0 && g_enq_calls == 0);
}
