/* C13.append.propagates (bounded: append size <= APPEND_MAX bytes with
 * BP_BS byte blocks: the current block is filled and submitted, a second one
 * filled and submitted, a tail started; the two callees
 * replaced by their contracts via goto-instrument --replace-calls): frontend.c
 * sqfs_block_processor_append(). get_new_block and enqueue_block are proved
 * in bp_frontend.c; here they are "fails (fault), or hands out a fresh zeroed
 * block and bumps the backlog" / "fails (fault), or takes the block".
 *   C13.append.propagates         a failing callee => ret != 0
 *   C13.append.accounts_all_bytes ret == 0 => every byte went into a block
 *                                 handed to enqueue_block (each exactly full)
 *                                 or sits in the current block; the input
 *                                 statistics advanced by exactly size
 *   C13.append.no_crash           cbmc pointer checks for EVERY size incl. 0,
 *                                 with and without a current block, data or
 *                                 NULL (sparse)
 */
#define C14_SITE "bp_append"
#include <stdlib.h>
#include <string.h>
#include "verif.h"
#include "C14/c14_env.h"
#include "C13/c13_alloc.h"
#include "C13/bp_env.h"
#undef malloc
#undef calloc
#undef realloc

#ifndef APPEND_MAX
#define APPEND_MAX (2 * BP_BS + 3)
#endif

static unsigned g_enq, g_new;
static size_t g_enq_bytes;

/* contracts, substituted for the real callees by goto-instrument
 * --replace-calls (the real ones are proved in bp_frontend.c) */
int c13_get_new_block(sqfs_block_processor_t *proc, sqfs_block_t **out)
{
	bp_block_t *w;

	VERIF_ASSERT(proc == &g_proc, "C13.env.get_new_block.pre");
	if (verif_nd_bool("get_new_block.fail")) {
		g_fault = true;
		return c14_error_code("get_new_block.err");
	}
	w = calloc(1, sizeof(*w));
	VERIF_ASSUME(w != NULL);
	g_new += 1;
	proc->backlog += 1;
	*out = &w->b;
	return 0;
}

int c13_enqueue_block(sqfs_block_processor_t *proc, sqfs_block_t *blk)
{
	VERIF_ASSERT(proc == &g_proc && blk != NULL && blk->size <= BP_BS,
		     "C13.env.enqueue_block.pre");
	g_enq += 1;
	g_enq_bytes += blk->size;
	if (verif_nd_bool("enqueue_block.fail")) {
		g_fault = true;
		return c14_error_code("enqueue_block.err");
	}
	return 0;
}

int dequeue_block(sqfs_block_processor_t *proc)
{
	(void)proc;
	return 0;
}

void *alloc_flex(size_t a, size_t b, size_t c)
{
	(void)a; (void)b; (void)c;
	return NULL;
}

/* payload copies: extents are checked, bytes are not transferred (no
 * obligation and no branch of append reads payload bytes) */
#define C13_MEM_NO_WITNESS
#include "C13/c13_mem.h"
#include "lib/sqfs/src/block_processor/frontend.c"
#undef memcpy
#undef memset

void harness(void)
{
	size_t size = verif_nd_size("append.size");
	sqfs_block_t *cur = NULL;
	sqfs_u8 *data = NULL;
	sqfs_u32 cur0 = 0;
	sqfs_u64 in0;
	int ret;

	c14_ghost_init();
	bp_env_init();
	g_enq = g_new = 0;
	g_enq_bytes = 0;
	g_proc.max_block_size = BP_BS;
	VERIF_ASSUME(size <= APPEND_MAX);
	g_proc.begin_called = verif_nd_bool("begin_called");
	g_proc.blk_flags = verif_nd_u32("blk_flags");
	g_proc.backlog = verif_nd_size("backlog");
	VERIF_ASSUME(g_proc.backlog < 100000);
	if (verif_nd_bool("with_data")) {
		data = malloc(size);
		VERIF_ASSUME(data != NULL);
	}
	if (verif_nd_bool("with_current")) {
		cur = bp_new_block(NULL);
		cur0 = cur->size;
		g_proc.blk_current = cur;
	}
	in0 = verif_nd_u64("stats.in");
	VERIF_ASSUME(in0 < ((sqfs_u64)1 << 60));
	g_proc.stats.input_bytes_read = in0;

	ret = sqfs_block_processor_append(&g_proc, data, size);

	VERIF_ASSERT(!g_fault || ret != 0, "C13.append.propagates");
	if (ret == 0)
		VERIF_ASSERT(g_proc.stats.input_bytes_read == in0 + size &&
			     g_enq_bytes == (size_t)g_enq * BP_BS &&
			     (g_proc.blk_current == NULL ||
			      g_proc.blk_current->size < BP_BS) &&
			     g_enq_bytes +
			     (g_proc.blk_current ? g_proc.blk_current->size : 0)
			     == cur0 + size,
			     "C13.append.accounts_all_bytes");
	VERIF_COVER(ret == 0 && size == 0 && cur != NULL);
	VERIF_COVER(ret == 0 && size == APPEND_MAX && g_enq == 2 && cur != NULL);
	VERIF_COVER(ret == 0 && data == NULL && size > 0);
	VERIF_COVER(ret != 0 && g_new == 0 && g_enq == 0 && g_fault);
	VERIF_COVER(ret != 0 && g_enq == 1);
	VERIF_COVER(ret == SQFS_ERROR_SEQUENCE);
}
