/*
 * bp_env.h - contracts of what lib/sqfs/src/block_processor/{backend,frontend,
 * block_processor}.c call, fault injecting. Requires C14/c14_env.h (g_fault,
 * file contract) and C13/c13_alloc.h before it, then the real file after it.
 *
 * Blocks are typed wrappers { sqfs_block_t; data[BP_BS] } (DESIGN 2.4), the
 * processor is a typed wrapper with BP_BS scratch bytes; max_block_size is
 * symbolic <= BP_BS.
 */
#ifndef BP_ENV_H
#define BP_ENV_H

#include "lib/sqfs/src/block_processor/internal.h"

#ifndef BP_BS
#define BP_BS 16
#endif

typedef struct {
	sqfs_block_t b;
	sqfs_u8 data[BP_BS];
} bp_block_t;

static struct {
	sqfs_block_processor_t p;
	sqfs_u8 scratch[BP_BS];
} g_bp;
#define g_proc (g_bp.p)

/* ---- inode helpers (lib/sqfs/src/inode.c), file inodes only ------------- */
static unsigned g_frag_loc_calls, g_blk_start_calls;

int sqfs_inode_make_extended(sqfs_inode_generic_t *inode)
{
	VERIF_ASSERT(inode->base.type == SQFS_INODE_FILE ||
		     inode->base.type == SQFS_INODE_EXT_FILE,
		     "C13.env.inode.is_file");
	if (inode->base.type == SQFS_INODE_FILE) {
		sqfs_u32 fidx = inode->data.file.fragment_index;
		sqfs_u32 foff = inode->data.file.fragment_offset;
		sqfs_u32 start = inode->data.file.blocks_start;
		sqfs_u32 fsz = inode->data.file.file_size;

		inode->data.file_ext.blocks_start = start;
		inode->data.file_ext.file_size = fsz;
		inode->data.file_ext.sparse = 0;
		inode->data.file_ext.nlink = 1;
		inode->data.file_ext.fragment_idx = fidx;
		inode->data.file_ext.fragment_offset = foff;
		inode->data.file_ext.xattr_idx = 0xFFFFFFFF;
		inode->base.type = SQFS_INODE_EXT_FILE;
	}
	return 0;
}

int sqfs_inode_set_frag_location(sqfs_inode_generic_t *inode,
				 sqfs_u32 index, sqfs_u32 offset)
{
	(void)index; (void)offset;
	VERIF_ASSERT(inode->base.type == SQFS_INODE_FILE ||
		     inode->base.type == SQFS_INODE_EXT_FILE,
		     "C13.env.inode.is_file");
	g_frag_loc_calls += 1;
	return 0;
}

int sqfs_inode_set_file_block_start(sqfs_inode_generic_t *inode,
				    sqfs_u64 location)
{
	(void)location;
	VERIF_ASSERT(inode->base.type == SQFS_INODE_FILE ||
		     inode->base.type == SQFS_INODE_EXT_FILE,
		     "C13.env.inode.is_file");
	g_blk_start_calls += 1;
	return 0;
}

int sqfs_inode_get_file_size(const sqfs_inode_generic_t *inode, sqfs_u64 *size)
{
	(void)inode;
	*size = verif_nd_u64("inode.file_size");
	return 0;
}

int sqfs_inode_set_file_size(sqfs_inode_generic_t *inode, sqfs_u64 size)
{
	(void)inode; (void)size;
	return 0;
}

/* ---- fragment table ------------------------------------------------------ */
static struct sqfs_frag_table_t { sqfs_object_t base; } g_fragtbl;
static unsigned g_ft_set, g_ft_append;

int sqfs_frag_table_set(sqfs_frag_table_t *tbl, sqfs_u32 index,
			sqfs_u64 location, sqfs_u32 size)
{
	(void)index; (void)location; (void)size;
	VERIF_ASSERT(tbl == &g_fragtbl, "C13.env.frag_table.pre");
	g_ft_set += 1;
	if (verif_nd_bool("frag_table_set.fail")) {
		g_fault = true;
		return c14_error_code("frag_table_set.err");
	}
	return 0;
}

int sqfs_frag_table_append(sqfs_frag_table_t *tbl, sqfs_u64 location,
			   sqfs_u32 size, sqfs_u32 *index)
{
	(void)location; (void)size;
	VERIF_ASSERT(tbl == &g_fragtbl, "C13.env.frag_table.pre");
	g_ft_append += 1;
	if (index != NULL)
		*index = verif_nd_u32("frag_table_append.index");
	if (verif_nd_bool("frag_table_append.fail")) {
		g_fault = true;
		return SQFS_ERROR_ALLOC;
	}
	return 0;
}

int sqfs_frag_table_lookup(sqfs_frag_table_t *tbl, sqfs_u32 index,
			   sqfs_fragment_t *out)
{
	(void)index;
	VERIF_ASSERT(tbl == &g_fragtbl, "C13.env.frag_table.pre");
	if (verif_nd_bool("frag_table_lookup.fail")) {
		g_fault = true;
		return SQFS_ERROR_OUT_OF_BOUNDS;
	}
	out->start_offset = verif_nd_u64("frag.start");
	out->size = verif_nd_u32("frag.size");
	out->pad0 = 0;
	return 0;
}

/* ---- fragment hash table: lookup/insert run the key comparison callback
 * (chunk_info_equals), which may record a lookup error in the processor ---- */
static struct hash_table g_ht;
static struct hash_entry g_ht_entry;
static chunk_info_t g_ht_chunk;
static unsigned g_ht_inserted;

static void ht_env_callback_effect(void)
{
	if (verif_nd_bool("ht.lookup_error")) {
		g_fault = true;
		g_proc.fblk_lookup_error = c14_error_code("ht.lookup_err");
	}
}

struct hash_entry *hash_table_search_pre_hashed(struct hash_table *ht,
						sqfs_u32 hash, const void *key)
{
	(void)hash; (void)key;
	VERIF_ASSERT(ht == &g_ht, "C13.env.hash_table.pre");
	ht_env_callback_effect();
	if (verif_nd_bool("ht.found")) {
		g_ht_chunk.index = verif_nd_u32("ht.chunk.index");
		g_ht_chunk.offset = verif_nd_u32("ht.chunk.offset");
		g_ht_entry.data = &g_ht_chunk;
		return &g_ht_entry;
	}
	return NULL;
}

struct hash_entry *hash_table_insert_pre_hashed(struct hash_table *ht,
						sqfs_u32 hash, const void *key,
						void *data)
{
	(void)hash; (void)key;
	VERIF_ASSERT(ht == &g_ht, "C13.env.hash_table.pre");
	ht_env_callback_effect();
	if (verif_nd_bool("ht.insert_fail")) {
		g_fault = true;	/* table growth failed */
		return NULL;
	}
	g_ht_inserted += 1;
	g_ht_entry.data = data;	/* the table owns the chunk now */
	return &g_ht_entry;
}

/* ---- block writer --------------------------------------------------------- */
static sqfs_block_writer_t g_blkwr;
static unsigned g_wdb_calls;

int c13_write_data_block(sqfs_block_writer_t *wr, void *user, sqfs_u32 size,
			 sqfs_u32 checksum, sqfs_u32 flags, const sqfs_u8 *data,
			 sqfs_u64 *location)
{
	(void)user; (void)checksum; (void)flags;
	VERIF_ASSERT(wr == &g_blkwr && VERIF_R_OK(data, size),
		     "C13.env.write_data_block.pre");
	g_wdb_calls += 1;
	if (verif_nd_bool("write_data_block.fail")) {
		g_fault = true;
		return c14_error_code("write_data_block.err");
	}
	*location = verif_nd_u64("write_data_block.location");
	return 0;
}

/* ---- thread pool (C09 contract, here: any outcome) ------------------------ */
static thread_pool_t g_pool;
static unsigned g_submitted;
static sqfs_block_t *g_pool_next;	/* what dequeue hands out next (or NULL) */
static int g_pool_status;

int c13_pool_submit(thread_pool_t *pool, void *ptr)
{
	(void)ptr;
	VERIF_ASSERT(pool == &g_pool, "C13.env.pool.pre");
	if (verif_nd_bool("pool.submit_fail")) {
		g_fault = true;
		g_pool_status = verif_nd_bool("pool.status_set") ?
			c14_error_code("pool.status") : 0;
		return -1;
	}
	g_submitted += 1;
	return 0;
}

void *c13_pool_dequeue(thread_pool_t *pool)
{
	sqfs_block_t *b = g_pool_next;

	VERIF_ASSERT(pool == &g_pool, "C13.env.pool.pre");
	if (b == NULL || verif_nd_bool("pool.dequeue_fail")) {
		/* a worker reported an error (or nothing is in flight) */
		g_fault = true;
		g_pool_status = verif_nd_bool("pool.status_set") ?
			c14_error_code("pool.status") : 0;
		return NULL;
	}
	g_pool_next = NULL;
	return b;
}

int c13_pool_get_status(thread_pool_t *pool)
{
	VERIF_ASSERT(pool == &g_pool, "C13.env.pool.pre");
	return g_pool_status;
}

size_t c13_pool_get_worker_count(thread_pool_t *pool)
{
	(void)pool;
	return 1;
}

void c13_pool_set_worker_ptr(thread_pool_t *pool, size_t idx, void *ptr)
{
	(void)pool; (void)idx; (void)ptr;
}

static void bp_env_init(void)
{
	memset(&g_bp, 0, sizeof(g_bp));
	g_frag_loc_calls = 0;
	g_blk_start_calls = 0;
	g_ft_set = 0;
	g_ft_append = 0;
	g_ht_inserted = 0;
	g_wdb_calls = 0;
	g_allocs = 0;
	g_alloc_faults = 0;
	g_submitted = 0;
	g_pool_next = NULL;
	g_pool_status = 0;
	g_pool.submit = c13_pool_submit;
	g_pool.dequeue = c13_pool_dequeue;
	g_pool.get_status = c13_pool_get_status;
	g_pool.get_worker_count = c13_pool_get_worker_count;
	g_pool.set_worker_ptr = c13_pool_set_worker_ptr;
	g_pool.destroy = NULL;
	g_proc.pool = &g_pool;
	g_blkwr.write_data_block = c13_write_data_block;
	g_proc.wr = &g_blkwr;
	g_proc.frag_ht = &g_ht;
	g_proc.max_block_size = verif_nd_size("max_block_size");
	VERIF_ASSUME(g_proc.max_block_size >= 1 && g_proc.max_block_size <= BP_BS);
	g_proc.max_backlog = verif_nd_size("max_backlog");
	VERIF_ASSUME(g_proc.max_backlog >= 3);
	g_proc.io_seq_num = verif_nd_u32("io_seq_num");
}

/* a heap block as get_new_block makes them */
static sqfs_block_t *bp_new_block(sqfs_inode_generic_t **inode)
{
	bp_block_t *w;
#pragma push_macro("malloc")
#undef malloc
	w = malloc(sizeof(*w));
#pragma pop_macro("malloc")
	VERIF_ASSUME(w != NULL);
	w->b.next = NULL;
	w->b.inode = inode;
	w->b.io_seq_num = verif_nd_u32("blk.io_seq_num");
	w->b.flags = verif_nd_u32("blk.flags");
	w->b.size = verif_nd_u32("blk.size");
	w->b.checksum = verif_nd_u32("blk.checksum");
	w->b.index = verif_nd_u32("blk.index");
	w->b.user = NULL;
	VERIF_ASSUME(w->b.size <= g_proc.max_block_size);
	return &w->b;
}

/* a heap file inode with INODE_AVAIL payload bytes */
#ifndef INODE_AVAIL
#define INODE_AVAIL 0
#endif
static sqfs_inode_generic_t *bp_new_inode(void)
{
	struct wrapped {
		sqfs_inode_generic_t n;
		sqfs_u8 extra[INODE_AVAIL + 1];
	} *w;
#pragma push_macro("calloc")
#undef calloc
	w = calloc(1, sizeof(sqfs_inode_generic_t) + INODE_AVAIL);
#pragma pop_macro("calloc")
	VERIF_ASSUME(w != NULL);
	w->n.base.type = verif_nd_bool("inode.ext") ? SQFS_INODE_EXT_FILE :
						     SQFS_INODE_FILE;
	w->n.payload_bytes_available = INODE_AVAIL;
	w->n.payload_bytes_used = verif_nd_u32("inode.used");
	VERIF_ASSUME(w->n.payload_bytes_used <= INODE_AVAIL &&
		     w->n.payload_bytes_used % 4 == 0);
	return &w->n;
}

#endif /* BP_ENV_H */
