/* C13 (w14): sqfs_perror (lib/common/src/perror.c) - how every failure of the
 * packers reaches the user. Loop-free, full domain: error_code is ANY int,
 * file / action present or NULL; fprintf and perror are contracts that record
 * their arguments and clobber errno.
 *
 *   C13.perror.message     exactly one message line "%s.\n" is printed, last,
 *                          with a readable, non-empty, NUL-terminated text;
 *                          each of the 17 defined codes (-17..-1) gets a text
 *                          of its own, any other int gets the "unknown error
 *                          code" text - no table index, no out-of-range read
 *                          for any int
 *   C13.perror.prefix      "file: " then "action: " are printed before it,
 *                          each iff the pointer is not NULL, with that pointer
 *   C13.perror.errno_kept  perror("OS error") is called iff the code is
 *                          SQFS_ERROR_IO, after the message, and sees the
 *                          errno value of the caller although fprintf clobbers
 *                          it (the OS error reported is the one of the failed
 *                          call, not of the diagnostics)
 */
#include <stdio.h>
#include <stdarg.h>
#include <string.h>
#include <errno.h>
#include "verif.h"

static int g_errno;
int *__errno_location(void)
{
	return &g_errno;
}

#define MAXCALLS 4
static unsigned g_nprint, g_nperror;
static const char *g_fmt[MAXCALLS];
static const char *g_arg[MAXCALLS];
static int g_errno_at_perror;
static unsigned g_prints_at_perror;

static int c13_fprintf(FILE *fp, const char *fmt, ...)
{
	va_list ap;

	VERIF_ASSERT(fp == stderr && g_nprint < MAXCALLS, "C13.perror.message");
	va_start(ap, fmt);
	g_fmt[g_nprint] = fmt;
	g_arg[g_nprint] = va_arg(ap, const char *);
	va_end(ap);
	g_nprint += 1;
	g_errno = verif_nd_int("errno_after_fprintf");
	return verif_nd_int("fprintf_ret");
}

static void c13_perror(const char *s)
{
	VERIF_ASSERT(s[0] == 'O' && s[1] == 'S' && s[2] == ' ' && s[3] == 'e' &&
		     s[8] == '\0', "C13.perror.errno_kept");
	g_nperror += 1;
	g_errno_at_perror = g_errno;
	g_prints_at_perror = g_nprint;
}

#define fprintf c13_fprintf
#define perror c13_perror
#include "lib/common/src/perror.c"
#undef fprintf
#undef perror

static _Bool is_fmt_prefix(const char *f)	/* "%s: " */
{
	return f[0] == '%' && f[1] == 's' && f[2] == ':' && f[3] == ' ' && f[4] == '\0';
}

static _Bool is_fmt_message(const char *f)	/* "%s.\n" */
{
	return f[0] == '%' && f[1] == 's' && f[2] == '.' && f[3] == '\n' && f[4] == '\0';
}

#ifndef OTHER
#define OTHER -1	/* second code for the distinctness check */
#endif

static const char *message_of(int code)
{
	g_nprint = g_nperror = 0;
	sqfs_perror(NULL, NULL, code);
	return g_arg[0];
}

void harness(void)
{
	static const char file[] = "f", action[] = "a";
	const char *fa = verif_nd_bool("with_file") ? file : NULL;
	const char *aa = verif_nd_bool("with_action") ? action : NULL;
	int code = verif_nd_int("error_code");
	int errno0 = verif_nd_int("errno");
	unsigned want = 1u + (fa != NULL) + (aa != NULL), i = 0;
	const char *msg, *other;
	size_t len;

	g_nprint = g_nperror = 0;
	g_prints_at_perror = 0;
	g_errno_at_perror = 0;
	g_errno = errno0;

	sqfs_perror(fa, aa, code);

	VERIF_ASSERT(g_nprint == want, "C13.perror.prefix");
	if (fa != NULL) {
		VERIF_ASSERT(is_fmt_prefix(g_fmt[i]) && g_arg[i] == fa, "C13.perror.prefix");
		i++;
	}
	if (aa != NULL) {
		VERIF_ASSERT(is_fmt_prefix(g_fmt[i]) && g_arg[i] == aa, "C13.perror.prefix");
		i++;
	}
	VERIF_ASSERT(is_fmt_message(g_fmt[i]), "C13.perror.message");
	msg = g_arg[i];
	VERIF_ASSERT(msg != NULL && VERIF_R_OK(msg, 1) && msg[0] != '\0',
		     "C13.perror.message");
	len = strlen(msg);
	VERIF_ASSERT(len < 64 && VERIF_R_OK(msg, len + 1), "C13.perror.message");
	VERIF_ASSERT((msg[0] == 'l' && msg[1] == 'i' && msg[2] == 'b' && msg[3] == 's') ==
		     (code < -17 || code > -1), "C13.perror.message");

	VERIF_ASSERT(g_nperror == (code == SQFS_ERROR_IO ? 1u : 0u), "C13.perror.errno_kept");
	if (g_nperror == 1)
		VERIF_ASSERT(g_errno_at_perror == errno0 && g_prints_at_perror == want,
			     "C13.perror.errno_kept");
	VERIF_ASSERT(g_errno == errno0, "C13.perror.errno_kept");

	VERIF_COVER(code == SQFS_ERROR_IO && fa != NULL && aa != NULL);
	VERIF_COVER(code == 0);
	VERIF_COVER(code == -2147483647 - 1);
	VERIF_COVER(code == SQFS_ERROR_SEQUENCE && fa == NULL);

	/* every defined code has a text of its own: different from the text of
	 * the concrete code OTHER (driver case split over OTHER = -17..-1) */
	if (code >= -17 && code <= -1 && code != OTHER) {
		other = message_of(OTHER);
		VERIF_ASSERT(other != msg, "C13.perror.message");
	}
}
