/* C13 / C02: compressor_get_default (lib/common/src/compress.c) - the default
 * block compressor is a property of the BUILD (the first compressor in the
 * preference list that is compiled in), not of the moment: a transient
 * failure of the probe (sqfs_compressor_create runs out of memory) must not
 * silently select a different compressor - the run would exit 0 with an image
 * that differs from the fault-free run - and must not run into assert(0).
 *
 * sqfs_compressor_create is its contract: SQFS_ERROR_UNSUPPORTED exactly for
 * compressors that are not compiled in (compressor.c: id out of range or no
 * entry in the table); for a compiled-in one success, or any other error
 * (allocation failure, library error).
 *
 *  C13.default_comp.function_of_build   result == first id of the preference
 *                                       list that is compiled in, for every
 *                                       pattern of probe failures
 *  C13.default_comp.no_abort            assert(0) is not reached when at
 *                                       least one compressor is compiled in
 *  C13.default_comp.probe_released      every probe object is dropped again
 */
#include <stdlib.h>
#include <string.h>
#include "verif.h"
#include "common.h"

static bool g_compiled[SQFS_COMP_MAX + 2];
static sqfs_compressor_t g_probe;
static int g_live;
static unsigned g_aborts;

static void probe_destroy(sqfs_object_t *o)
{
	VERIF_ASSERT(o == (sqfs_object_t *)&g_probe && g_live == 1,
		     "C13.default_comp.probe_released");
	g_live -= 1;
}

int sqfs_compressor_create(const sqfs_compressor_config_t *cfg,
			   sqfs_compressor_t **out)
{
	*out = NULL;
	VERIF_ASSERT(cfg != NULL && g_live == 0, "C13.default_comp.probe_released");
	if (cfg->id < SQFS_COMP_MIN || cfg->id > SQFS_COMP_MAX ||
	    !g_compiled[cfg->id])
		return SQFS_ERROR_UNSUPPORTED;
	if (verif_nd_bool("probe.fail")) {
		int e = verif_nd_int("probe.err");

		VERIF_ASSUME(e < 0 && e != SQFS_ERROR_UNSUPPORTED);
		return e;
	}
	((sqfs_object_t *)&g_probe)->refcount = 1;
	((sqfs_object_t *)&g_probe)->destroy = probe_destroy;
	g_live += 1;
	*out = &g_probe;
	return 0;
}

int sqfs_compressor_config_init(sqfs_compressor_config_t *cfg,
				SQFS_COMPRESSOR id, size_t block_size,
				sqfs_u16 flags)
{
	memset(cfg, 0, sizeof(*cfg));
	cfg->id = id;
	cfg->block_size = block_size;
	cfg->flags = flags;
	return 0;
}

/* assert(0) at the end of the list */
void __assert_fail(const char *a, const char *f, unsigned l, const char *fn)
{
	(void)a; (void)f; (void)l; (void)fn;
	g_aborts += 1;
	VERIF_ASSUME(0);
}

#undef NDEBUG
#undef WITH_LZO
#include "lib/common/src/compress.c"

void harness(void)
{
	/* the preference list of compress.c, written down independently */
	static const SQFS_COMPRESSOR pref[] = {
		SQFS_COMP_XZ, SQFS_COMP_ZSTD, SQFS_COMP_GZIP, SQFS_COMP_LZ4,
		SQFS_COMP_LZO,
	};
	SQFS_COMPRESSOR want = 0, got;
	unsigned i;
	bool any = false;

	g_live = 0;
	g_aborts = 0;
	for (i = 0; i < sizeof(g_compiled) / sizeof(g_compiled[0]); ++i)
		g_compiled[i] = false;
	for (i = SQFS_COMP_MIN; i <= SQFS_COMP_MAX; ++i)
		g_compiled[i] = verif_nd_bool("compiled");
	g_compiled[SQFS_COMP_LZO] = false;	/* handled by WITH_LZO, off here */
	for (i = 0; i < sizeof(pref) / sizeof(pref[0]); ++i) {
		if (g_compiled[pref[i]]) {
			want = pref[i];
			any = true;
			break;
		}
	}
	VERIF_ASSUME(any);

	got = compressor_get_default();

	VERIF_ASSERT(g_aborts == 0, "C13.default_comp.no_abort");
	VERIF_ASSERT(got == want, "C13.default_comp.function_of_build");
	VERIF_ASSERT(g_live == 0, "C13.default_comp.probe_released");
	VERIF_COVER(got == SQFS_COMP_GZIP);
	VERIF_COVER(got == SQFS_COMP_XZ);
}
