/* C13.meta_append.propagates (bounded: append size <= 9000 bytes = more than
 * one full metadata block, up to two flushes; sqfs_meta_writer_flush replaced by its contract via
 * goto-instrument --replace-calls, the real one is meta_flush.c):
 * sqfs_meta_writer_append() (meta_writer.c), writer at any fill level.
 *   C13.meta_append.propagates   a failing flush => ret != 0 (its code)
 *   C13.meta_append.accounts     ret == 0 => bytes flushed + bytes pending ==
 *                                bytes pending before + size, every flush was
 *                                of a completely full block, and less than a
 *                                full block is pending afterwards
 *   C13.meta_append.no_crash     every memcpy stays inside data[] / the
 *                                caller's buffer (checking stub), size 0 incl.
 */
#define C14_SITE "meta_append"
#define C13_MEM_NO_WITNESS
#define C14_NO_WITNESS
#include <stdlib.h>
#include <string.h>
#include "verif.h"
#include "C14/c14_env.h"
#include "C13/c13_mem.h"
#include "lib/sqfs/src/meta_writer.c"
#undef memcpy
#undef memset

static unsigned g_flushes;
static size_t g_flushed;
static bool g_partial_flush;

int c13_flush_contract(sqfs_meta_writer_t *m)
{
	VERIF_ASSERT(m->offset <= sizeof(m->data), "C13.env.meta_flush.pre");
	g_flushes += 1;
	if (m->offset == 0)
		return 0;
	if (verif_nd_bool("flush.fail")) {
		g_fault = true;
		return c14_error_code("flush.err");
	}
	g_flushed += m->offset;
	if (m->offset != sizeof(m->data))
		g_partial_flush = true;
	m->block_offset += 2 + (verif_nd_u16("flush.stored") % 8192) + 1;
	m->offset = 0;
	return 0;
}

#ifndef APPEND_MAX
#define APPEND_MAX 20000
#endif

void harness(void)
{
	static sqfs_meta_writer_t m;
	size_t size = verif_nd_size("size"), off0;
	sqfs_u8 *data;
	int ret;

	c14_file_init(C14_SUPER_SZ);
	g_flushes = 0;
	g_flushed = 0;
	g_partial_flush = false;
	VERIF_ASSUME(size <= APPEND_MAX);
	data = malloc(size);
	VERIF_ASSUME(data != NULL);
#ifdef OFF0
	m.offset = OFF0;	/* fill level case split (shape concrete) */
#else
	m.offset = verif_nd_size("offset");
#endif
	VERIF_ASSUME(m.offset < sizeof(m.data));
	off0 = m.offset;
	m.block_offset = 0;

	ret = sqfs_meta_writer_append(&m, data, size);

	VERIF_ASSERT(!g_fault || ret != 0, "C13.meta_append.propagates");
	if (ret == 0)
		VERIF_ASSERT(g_flushed + m.offset == off0 + size &&
			     !g_partial_flush &&
			     m.offset < sizeof(m.data),
			     "C13.meta_append.accounts");
	VERIF_COVER(ret == 0 && size == 0);
#if APPEND_MAX > 8192
	VERIF_COVER(ret == 0 && g_flushes == 2 && m.offset > 0);
#endif
	VERIF_COVER(ret == 0 && g_flushes == 1 && m.offset == 0);
	VERIF_COVER(ret != 0 && g_flushes == 1);
}
