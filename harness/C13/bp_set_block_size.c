/* C13.set_block_size.propagates (bounded: block index <= BP_IDX_MAX, inode
 * payload capacity case split 0 / 16 bytes): set_block_size() in backend.c
 * grows the file inode's block-size list with realloc. The real function,
 * real realloc model, allocation may fail:
 *   C13.set_block_size.propagates   realloc failure => ret != 0
 *   C13.set_block_size.fail_intact  ret != 0 => *inode is the old, still valid
 *                                   object with unchanged capacity/used
 *   C13.set_block_size.stores       ret == 0 => extra[index] == size, used
 *                                   covers the slot, capacity covers used
 *   C13.set_block_size.no_crash     cbmc pointer checks (no write beyond the
 *                                   reallocated object)
 * Loop: "while (newsz < min_size) newsz *= 2" - unwound (bounded by the index
 * bound).
 */
#define C14_SITE "set_block_size"
#include <stdlib.h>
#include <string.h>
#include "verif.h"
#include "C14/c14_env.h"
#include "C13/c13_alloc.h"
#include "C13/bp_env.h"
#include "lib/sqfs/src/block_processor/backend.c"

#ifndef BP_IDX_MAX
#define BP_IDX_MAX 11
#endif

int enqueue_block(sqfs_block_processor_t *proc, sqfs_block_t *blk)
{
	(void)proc; (void)blk;
	return 0;
}

void harness(void)
{
	sqfs_inode_generic_t *inode, *old;
	sqfs_u32 index = verif_nd_u32("index"), size = verif_nd_u32("size");
	sqfs_u32 used0;
	int ret;

	c14_ghost_init();
	g_allocs = 0;
	g_alloc_faults = 0;
	inode = bp_new_inode();
	old = inode;
	used0 = inode->payload_bytes_used;
	VERIF_ASSUME(index <= BP_IDX_MAX);

	ret = set_block_size(&inode, index, size);

	VERIF_ASSERT(!g_fault || ret != 0, "C13.set_block_size.propagates");
	if (ret != 0) {
		VERIF_ASSERT(inode == old &&
			     inode->payload_bytes_available == INODE_AVAIL &&
			     inode->payload_bytes_used == used0,
			     "C13.set_block_size.fail_intact");
	} else {
		VERIF_ASSERT(inode->extra[index] == size &&
			     inode->payload_bytes_used >= (index + 1) * 4 &&
			     inode->payload_bytes_used <= inode->payload_bytes_available,
			     "C13.set_block_size.stores");
	}
	VERIF_COVER(ret == 0 && g_allocs == 1 && index == BP_IDX_MAX);
#if INODE_AVAIL > 0
	VERIF_COVER(ret == 0 && g_allocs == 0);
#endif
	VERIF_COVER(ret != 0 && g_alloc_faults == 1);
	free(inode);
}
