/* C13.process_completed_fragment.propagates (bounded: block index <= 11, inode
 * payload capacity 0/16, block payload <= BP_BS bytes): the main-thread half
 * of tail-end packing, backend.c process_completed_fragment() + the real
 * set_block_size(). Processor in an arbitrary state (with/without a current
 * fragment block, with/without fragment table), fragment with/without inode,
 * any flags; every callee (hash table lookup incl. the comparison callback's
 * error channel, fragment table, enqueue_block, calloc, realloc) may fail:
 *   C13.process_completed_fragment.propagates  any failure => ret != 0
 *   C13.process_completed_fragment.block_owned the fragment is released to the
 *                                   free list exactly once, or became the
 *                                   current fragment block - never both, never
 *                                   lost; backlog moves accordingly
 *   C13.process_completed_fragment.no_crash    cbmc pointer checks, the merged
 *                                   fragment stays inside the fragment block
 */
#define C14_SITE "process_completed_fragment"
#include <stdlib.h>
#include <string.h>
#include "verif.h"
#include "C14/c14_env.h"
#include "C13/c13_alloc.h"
#include "C13/bp_env.h"
#include "lib/sqfs/src/block_processor/backend.c"

static unsigned g_enqueued;
static sqfs_block_t *g_enq_blk;

int enqueue_block(sqfs_block_processor_t *proc, sqfs_block_t *blk)
{
	VERIF_ASSERT(proc == &g_proc && blk != NULL, "C13.env.enqueue_block.pre");
	g_enqueued += 1;
	g_enq_blk = blk;
	if (verif_nd_bool("enqueue_block.fail")) {
		g_fault = true;
		/* the real one puts the block on the free list */
		blk->next = proc->free_list;
		proc->free_list = blk;
		return c14_error_code("enqueue_block.err");
	}
	return 0;
}

void harness(void)
{
	sqfs_inode_generic_t *inode = NULL;
	sqfs_block_t *frag, *fb = NULL;
	bool with_inode = verif_nd_bool("with_inode");
	bool with_fblk = verif_nd_bool("with_frag_block");
	size_t backlog0;
	int ret;

	c14_ghost_init();
	bp_env_init();
	g_enqueued = 0;
	g_enq_blk = NULL;
	if (verif_nd_bool("with_frag_tbl"))
		g_proc.frag_tbl = &g_fragtbl;
	if (with_inode)
		inode = bp_new_inode();
	frag = bp_new_block(with_inode ? &inode : NULL);
	frag->flags |= SQFS_BLK_IS_FRAGMENT;
	VERIF_ASSUME(frag->index <= 11);
	if (with_fblk) {
		fb = bp_new_block(NULL);
		g_proc.frag_block = fb;
	}
	g_proc.backlog = verif_nd_size("backlog");
	VERIF_ASSUME(g_proc.backlog >= (with_fblk ? 2u : 1u) && g_proc.backlog < 1000);
	backlog0 = g_proc.backlog;

	ret = process_completed_fragment(&g_proc, frag);

	VERIF_ASSERT(!g_fault || ret != 0,
		     "C13.process_completed_fragment.propagates");
	VERIF_ASSERT((g_proc.free_list == frag) != (g_proc.frag_block == frag) &&
		     g_proc.backlog == backlog0 - (g_proc.free_list == frag ? 1 : 0),
		     "C13.process_completed_fragment.block_owned");
	VERIF_COVER(ret == 0 && (frag->flags & SQFS_BLK_IS_SPARSE) && with_inode && g_allocs == 1);
	VERIF_COVER(ret == 0 && g_proc.frag_block == frag && g_enqueued == 1);
	VERIF_COVER(ret == 0 && with_fblk && g_proc.frag_block == fb && g_ht_inserted == 1);
	VERIF_COVER(ret != 0 && g_alloc_faults == 1);
	VERIF_COVER(ret != 0 && g_proc.fblk_lookup_error != 0);
}
