/*
 * main_env.h - stage contracts for the main() functions of the packers
 * (C13.main.status). Every stage is "fails (fault) or succeeds"; the ghost
 * sequence counter records the order of stage calls; sqfs_writer_cleanup is
 * its contract from cleanup.c: called with a status, it releases the writer
 * and (proved in cleanup.c) unlinks the output iff status != EXIT_SUCCESS.
 */
#ifndef MAIN_ENV_H
#define MAIN_ENV_H
#include "simple_writer.h"
#include "common.h"

enum {
	MS_INIT = 1, MS_CLEANUP = 2, MS_FINISH = 4, MS_POST = 8, MS_INPUT = 16,
	MS_PACK = 32, MS_XATTR = 64, MS_SORT = 128,
};

static unsigned g_ms_done;	/* stages that ran and succeeded */
static unsigned g_ms_failed;	/* stages that ran and failed */
static unsigned g_ms_seq[9];
static unsigned g_cleanup_calls, g_cleanup_seq;
static int g_cleanup_status;
static unsigned g_last_stage_seq;
static sqfs_writer_t *g_ms_writer;

static int ms_stage(unsigned id, const char *tag)
{
	g_seq += 1;
	g_last_stage_seq = g_seq;
	VERIF_ASSERT(!((g_ms_done | g_ms_failed) & id), "C13.main.stage_once");
	VERIF_ASSERT(g_cleanup_calls == 0, "C13.main.no_stage_after_cleanup");
	VERIF_ASSERT(g_ms_failed == 0, "C13.main.stops_at_first_failure");
	if (verif_nd_bool(tag)) {
		g_fault = true;
		g_ms_failed |= id;
		g_diag += 1;	/* the stages print their own diagnostics */
		return -1;
	}
	g_ms_done |= id;
	return 0;
}

int sqfs_writer_init(sqfs_writer_t *sqfs, const sqfs_writer_cfg_t *wrcfg)
{
	(void)wrcfg;
	g_ms_writer = sqfs;
	if (ms_stage(MS_INIT, "init.fail"))
		return -1;
	memset(&sqfs->fs, 0, sizeof(sqfs->fs));
	sqfs->fs.defaults.mtime = verif_nd_u32("fs.mtime");
	return 0;
}

int sqfs_writer_finish(sqfs_writer_t *sqfs, const sqfs_writer_cfg_t *c)
{
	(void)c;
	VERIF_ASSERT(sqfs == g_ms_writer && (g_ms_done & MS_INIT),
		     "C13.main.stage_args");
	return ms_stage(MS_FINISH, "finish.fail");
}

void sqfs_writer_cleanup(sqfs_writer_t *sqfs, int status)
{
	g_seq += 1;
	VERIF_ASSERT(sqfs == g_ms_writer && (g_ms_done & MS_INIT),
		     "C13.main.cleanup_only_after_init");
	g_cleanup_calls += 1;
	g_cleanup_seq = g_seq;
	g_cleanup_status = status;
#ifdef MAIN_ENV_CLEANUP_HOOK
	MAIN_ENV_CLEANUP_HOOK(status);
#endif
}

int fstree_post_process(fstree_t *fs)
{
	VERIF_ASSERT(fs == &g_ms_writer->fs, "C13.main.stage_args");
	return ms_stage(MS_POST, "post_process.fail");
}

static void main_env_init(void)
{
	unsigned i;

	g_ms_done = 0;
	g_ms_failed = 0;
	for (i = 0; i < 9; ++i)
		g_ms_seq[i] = 0;
	g_cleanup_calls = 0;
	g_cleanup_seq = 0;
	g_cleanup_status = -12345;
	g_last_stage_seq = 0;
	g_ms_writer = NULL;
	g_diag = 0;
}

/* the obligations shared by both mains; want = stages a fault-free run takes */
static void main_check(int status, unsigned want, bool pre_init_failed)
{
	if (g_ms_failed != 0 || pre_init_failed)
		VERIF_ASSERT(status == EXIT_FAILURE, "C13.main.status");
	if (status == EXIT_SUCCESS)
		VERIF_ASSERT(!g_fault && g_ms_done == want && g_ms_failed == 0,
			     "C13.success_is_faultfree");
	VERIF_ASSERT(status == EXIT_SUCCESS || status == EXIT_FAILURE,
		     "C13.main.status");
	VERIF_ASSERT(status == EXIT_SUCCESS || g_diag >= 1, "C13.main.diagnostic");
	if (g_ms_done & MS_INIT) {
		VERIF_ASSERT(g_cleanup_calls == 1 && g_cleanup_status == status &&
			     g_cleanup_seq > g_last_stage_seq,
			     "C13.main.cleanup_status");
	} else {
		/* init failed or was never reached: nothing to clean up here
		 * (init removes what it created: C13.init.failure_removes_output) */
		VERIF_ASSERT(g_cleanup_calls == 0, "C13.main.cleanup_status");
	}
}

#endif /* MAIN_ENV_H */
