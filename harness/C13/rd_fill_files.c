/* C13 obligations on bin/rdsquashfs/src/fill_files.c (bounded: file list
 * <= 2 entries before the call, trees of <= 3 nodes, <= 2 splice rounds per
 * file). Every allocation (c13_alloc.h), path construction, stream open and
 * transfer may fail at every position.
 *
 * RD_CASE add_file: add_file() on an ARBITRARY well-formed list (any fill
 *   level incl. "full, must grow"), followed by what its only caller does on
 *   failure: clear_file_list().
 *     C13.add_file.propagates      a failing realloc / path step => ret != 0
 *     C13.add_file.fail_intact     ret != 0 => the list still has its
 *                                  num_files valid entries (same count, buffer
 *                                  valid for them): the error path can walk it
 *     C13.add_file.stores          ret == 0 => one more entry, path + inode
 *     C13.clear_file_list.no_crash the walk after a failed add_file stays
 *                                  inside the list (cbmc pointer checks),
 *                                  frees every path once, resets the list
 * RD_CASE unpack: fill_unpacked_files() = gen_file_list_dfs + qsort +
 *   fill_files + clear_file_list on a 3 node tree (dir with two children,
 *   kinds symbolic):
 *     C13.fill_unpacked_files.propagates  any failure => -1
 *     C13.fill_unpacked_files.releases    all paths freed, list empty, every
 *                                  stream that was opened is dropped once
 *     C13.fill_unpacked_files.diagnostic  failure => something was printed
 *     C13.fill_unpacked_files.no_crash
 */
#define C14_SITE "rd_fill_files"
#include <stdlib.h>
#include <string.h>
#include "verif.h"
#include "C14/c14_env.h"
#include "C14/c14_libc.h"
#include "C13/c13_alloc.h"
#include "C13/rd_env.h"

static sqfs_ostream_t g_out;
static sqfs_istream_t g_in;
static unsigned g_out_open, g_in_open, g_out_opened, g_bad_drop, g_splices;

void out_destroy(sqfs_object_t *o)
{
	if (o != (sqfs_object_t *)&g_out || !g_out_open)
		g_bad_drop += 1;
	g_out_open = 0;
}

void in_destroy(sqfs_object_t *o)
{
	if (o != (sqfs_object_t *)&g_in || !g_in_open)
		g_bad_drop += 1;
	g_in_open = 0;
}

int out_flush(sqfs_ostream_t *s)
{
	(void)s;
	if (verif_nd_bool("flush.fail")) {
		g_fault = true;
		return c14_error_code("flush.err");
	}
	return 0;
}

int sqfs_ostream_open_file(sqfs_ostream_t **out, const char *path, sqfs_u32 flags)
{
	(void)path; (void)flags;
	if (g_out_open)
		g_bad_drop += 1;	/* previous stream leaked */
	if (verif_nd_bool("ostream_open.fail")) {
		g_fault = true;
		*out = NULL;
		return c14_error_code("ostream_open.err");
	}
	g_out.base.refcount = 1;
	g_out.base.destroy = out_destroy;
	g_out.flush = out_flush;
	g_out_open = 1;
	g_out_opened += 1;
	*out = &g_out;
	return 0;
}

int sqfs_data_reader_create_stream(sqfs_data_reader_t *data,
				   const sqfs_inode_generic_t *inode,
				   const char *filename, sqfs_istream_t **out)
{
	(void)data; (void)inode; (void)filename;
	if (g_in_open)
		g_bad_drop += 1;
	if (verif_nd_bool("istream_create.fail")) {
		g_fault = true;
		*out = NULL;
		return c14_error_code("istream_create.err");
	}
	g_in.base.refcount = 1;
	g_in.base.destroy = in_destroy;
	g_in_open = 1;
	g_splices = 0;
	*out = &g_in;
	return 0;
}

sqfs_s32 sqfs_istream_splice(sqfs_istream_t *in, sqfs_ostream_t *out, sqfs_u32 size)
{
	(void)size;
	if (in != &g_in || out != &g_out || !g_in_open || !g_out_open)
		g_bad_drop += 1;
	if (verif_nd_bool("splice.fail")) {
		g_fault = true;
		return c14_error_code("splice.err");
	}
	if (g_splices < 1 && verif_nd_bool("splice.more")) {
		g_splices += 1;
		return 1;
	}
	return 0;
}

int sqfs_inode_get_frag_location(const sqfs_inode_generic_t *i, sqfs_u32 *a, sqfs_u32 *b)
{ (void)i; *a = 0; *b = 0; return 0; }
int sqfs_inode_get_file_block_start(const sqfs_inode_generic_t *i, sqfs_u64 *l)
{ (void)i; *l = 0; return 0; }
int sqfs_inode_get_file_size(const sqfs_inode_generic_t *i, sqfs_u64 *s)
{ (void)i; *s = 0; return 0; }

/* any order is a permitted input for fill_files; the identity permutation is
 * one of them (ordering is C17's matter) */
static void c13_qsort(void *base, size_t n, size_t sz,
		      int (*cmp)(const void *, const void *))
{
	(void)base; (void)n; (void)sz; (void)cmp;
}
#define qsort c13_qsort

#include "bin/rdsquashfs/src/fill_files.c"

#define RD_ADD_FILE 0
#define RD_UNPACK 1
#ifndef RD_CASE
#define RD_CASE RD_ADD_FILE
#endif
#ifndef RD_N0
#define RD_N0 2
#define RD_M0 2
#endif

void harness(void)
{
	int ret;

	c14_ghost_init();
	rd_env_init();
	g_out_open = g_in_open = g_out_opened = g_bad_drop = g_splices = 0;

#if RD_CASE == RD_ADD_FILE
	{
		/* shape concrete (DESIGN 2.4): fill level / capacity per case */
		size_t n0 = RD_N0, m0 = RD_M0;
		size_t i;
		char *p;
		sqfs_tree_node_t *node = rd_node(0, S_IFREG | 0644);

		VERIF_ASSUME(m0 <= 2 && n0 <= m0);
		max_files = m0;
		num_files = n0;
#pragma push_macro("malloc")
#undef malloc
		files = m0 ? malloc(m0 * sizeof(files[0])) : NULL;
#pragma pop_macro("malloc")
		VERIF_ASSUME(m0 == 0 || files != NULL);
		for (i = 0; i < 2; ++i) {
			if (i < n0) {
				g_canon_fail_allowed = false;
				VERIF_ASSUME(sqfs_tree_node_get_path(node, &p) == 0);
				files[i].path = p;
				files[i].inode = node->inode;
			}
		}
		g_canon_fail_allowed = true;
		g_fault = false;
		g_paths_made = 0;

		ret = add_file(node);

		VERIF_ASSERT(!g_fault || ret != 0, "C13.add_file.propagates");
		if (ret != 0) {
			VERIF_ASSERT(num_files == n0 && (n0 == 0 || files != NULL) &&
				     max_files >= num_files && g_paths_live == n0 &&
				     g_diag >= 1,
				     "C13.add_file.fail_intact");
		} else {
			VERIF_ASSERT(num_files == n0 + 1 && num_files <= max_files &&
				     files[n0].inode == node->inode &&
				     files[n0].path != NULL && g_paths_live == n0 + 1,
				     "C13.add_file.stores");
		}
#if RD_N0 == RD_M0
		VERIF_COVER(ret == 0 && g_allocs == 1);
		VERIF_COVER(ret != 0 && g_alloc_faults == 1);
#else
		VERIF_COVER(ret == 0 && g_allocs == 0);
#endif
		VERIF_COVER(ret != 0 && g_alloc_faults == 0 && g_paths_made == 1);

		clear_file_list();

		VERIF_ASSERT(g_paths_live == 0 && g_path_double_free == 0 &&
			     files == NULL && num_files == 0 && max_files == 0,
			     "C13.clear_file_list.no_crash");
	}
#else
	{
		sqfs_tree_node_t *root = rd_node(0, S_IFDIR | 0755);
		sqfs_tree_node_t *a = rd_node(1, verif_nd_bool("a.reg") ? (S_IFREG | 0644) : (S_IFLNK | 0777));
		sqfs_tree_node_t *b = rd_node(2, verif_nd_bool("b.reg") ? (S_IFREG | 0644) : (S_IFDIR | 0755));

		root->children = a;
		a->parent = root;
		a->next = b;
		b->parent = root;
		files = NULL;
		num_files = max_files = 0;

		ret = fill_unpacked_files(4096, root, NULL, verif_nd_int("flags"));

		VERIF_ASSERT(!g_fault || ret != 0, "C13.fill_unpacked_files.propagates");
		VERIF_ASSERT(ret == 0 || ret == -1, "C13.fill_unpacked_files.propagates");
		VERIF_ASSERT(g_paths_live == 0 && g_path_double_free == 0 &&
			     files == NULL && num_files == 0 && g_out_open == 0 &&
			     g_in_open == 0 && g_bad_drop == 0,
			     "C13.fill_unpacked_files.releases");
		VERIF_ASSERT(ret == 0 || g_diag >= 1, "C13.fill_unpacked_files.diagnostic");
		VERIF_COVER(ret == 0 && g_out_opened == 2);
		VERIF_COVER(ret == 0 && g_out_opened == 0);
		VERIF_COVER(ret != 0 && g_out_opened == 2);
		VERIF_COVER(ret != 0 && g_alloc_faults == 1);
		VERIF_COVER(ret != 0 && g_out_opened == 1 && g_paths_made == 2);
	}
#endif
}
