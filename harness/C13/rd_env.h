/*
 * rd_env.h - contracts for the rdsquashfs unpack code (fill_files.c,
 * restore_fstree.c): path construction, name checks, diagnostics. Paths are
 * heap strings owned by the caller (sqfs_free); the contract counts live
 * paths so that leaks and double frees show up. Requires C14/c14_env.h
 * (g_fault), C14/c14_libc.h (g_diag) and C13/c13_alloc.h before it.
 */
#ifndef RD_ENV_H
#define RD_ENV_H
#include "common.h"
#include "dir_tree.h"
#include "sqfs/xattr.h"

typedef struct {
	sqfs_tree_node_t n;
	sqfs_u8 name[4];
} rd_node_t;

static sqfs_inode_generic_t g_rd_inode[4];
static rd_node_t g_rd_node[4];

static unsigned g_paths_live, g_paths_made, g_path_double_free;
static char g_path_buf[4][8];
static bool g_path_used[4];

int sqfs_tree_node_get_path(const sqfs_tree_node_t *node, char **out)
{
	unsigned i;

	(void)node;
	*out = NULL;
	if (verif_nd_bool("get_path.fail")) {
		g_fault = true;
		return c14_error_code("get_path.err");
	}
	for (i = 0; i < 4; ++i) {
		if (!g_path_used[i]) {
			g_path_used[i] = true;
			g_path_buf[i][0] = 'p';
			g_path_buf[i][1] = '\0';
			g_paths_live += 1;
			g_paths_made += 1;
			*out = g_path_buf[i];
			return 0;
		}
	}
	g_fault = true;	/* out of memory */
	return SQFS_ERROR_ALLOC;
}

/* xattr key / value objects handed out by the xattr reader contract */
static struct { sqfs_xattr_entry_t e; sqfs_u8 key[4]; } g_kv_key;
static struct { sqfs_xattr_value_t v; sqfs_u8 val[4]; } g_kv_val;
static bool g_key_live, g_val_live;

void sqfs_free(void *ptr)
{
	unsigned i;

	if (ptr == NULL)
		return;
	if (ptr == (void *)&g_kv_key) {
		if (!g_key_live)
			g_path_double_free += 1;
		g_key_live = false;
		return;
	}
	if (ptr == (void *)&g_kv_val) {
		if (!g_val_live)
			g_path_double_free += 1;
		g_val_live = false;
		return;
	}
	for (i = 0; i < 4; ++i) {
		if (ptr == (void *)g_path_buf[i]) {
			if (!g_path_used[i])
				g_path_double_free += 1;
			else
				g_paths_live -= 1;
			g_path_used[i] = false;
			return;
		}
	}
	g_path_double_free += 1;	/* not a path we handed out */
}

static bool g_canon_fail_allowed;
int canonicalize_name(char *filename)
{
	(void)filename;
	if (g_canon_fail_allowed && verif_nd_bool("canonicalize.fail")) {
		g_fault = true;
		return -1;
	}
	return 0;
}

bool is_filename_sane(const char *name, bool check_os_specific)
{
	(void)name; (void)check_os_specific;
	return verif_nd_bool("filename_sane");
}

int fprintf(FILE *f, const char *fmt, ...)
{
	(void)fmt;
	if (f == stderr)
		g_diag += 1;
	return 0;
}

char *strerror(int e)
{
	(void)e;
	return "error";
}

static void rd_env_init(void)
{
	unsigned i;

	g_paths_live = g_paths_made = g_path_double_free = 0;
	for (i = 0; i < 4; ++i)
		g_path_used[i] = false;
	g_diag = 0;
	g_canon_fail_allowed = true;
	g_key_live = g_val_live = false;
	g_allocs = g_alloc_faults = 0;
}

/* node i: mode given, name "a"; links set by the harness */
static sqfs_tree_node_t *rd_node(unsigned i, sqfs_u16 mode)
{
	memset(&g_rd_node[i], 0, sizeof(g_rd_node[i]));
	memset(&g_rd_inode[i], 0, sizeof(g_rd_inode[i]));
	g_rd_inode[i].base.mode = mode;
	g_rd_inode[i].base.mod_time = verif_nd_u32("node.mtime");
	g_rd_node[i].n.inode = &g_rd_inode[i];
	g_rd_node[i].n.uid = verif_nd_u32("node.uid");
	g_rd_node[i].n.gid = verif_nd_u32("node.gid");
	g_rd_node[i].name[0] = 'a';
	return &g_rd_node[i].n;
}
#endif
