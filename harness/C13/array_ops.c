/* C13.array.<op>.propagates (proved; OP case split covers the four growing
 * operations of lib/util/src/array.c): array_init, array_init_copy,
 * array_append, array_set_capacity on an arbitrary well-formed array
 * (element size 1..16, used <= count <= 2^40, data = count*size bytes),
 * every allocation may fail:
 *   C13.array.<op>.propagates   allocation failure => ret != 0
 *   C13.array.<op>.fail_intact  ret != 0 => the array is exactly as before
 *                               (same buffer, count, used): the caller still
 *                               owns a valid array and nothing leaked
 *   C13.array.<op>.post         ret == 0 => append: used+1 <= count, element
 *                               bytes stored (witness byte); set_capacity:
 *                               count >= capacity, used unchanged;
 *                               init/init_copy: count = requested, data
 *                               non-NULL when count > 0
 *   C13.array.<op>.no_crash     cbmc pointer checks (memcpy inside the buffer)
 * Loop: the doubling loop of array_set_capacity is bounded by the width of
 * size_t (overflow check in the loop): unwind 66, unwinding assertion.
 */
#define C14_SITE "array"
#include <stdlib.h>
#include <string.h>
#include "verif.h"
#include "C14/c14_env.h"
#include "C13/c13_alloc.h"
#include "lib/util/src/array.c"
#undef malloc
#undef calloc
#undef realloc

#define OP_INIT 0
#define OP_COPY 1
#define OP_APPEND 2
#define OP_SETCAP 3
#ifndef OP
#define OP OP_APPEND
#endif
#if OP == OP_INIT
#define OPN "init"
#elif OP == OP_COPY
#define OPN "init_copy"
#elif OP == OP_APPEND
#define OPN "append"
#else
#define OPN "set_capacity"
#endif

void harness(void)
{
	array_t a, b;
	size_t size = verif_nd_size("size"), count = verif_nd_size("count");
	size_t used = verif_nd_size("used"), cap = verif_nd_size("cap");
	size_t w = verif_nd_size("w");
	sqfs_u8 elem[16];
	void *data0;
	int ret;

	c14_ghost_init();
	g_allocs = g_alloc_faults = 0;
#ifdef ESIZE
	size = ESIZE;	/* element sizes the writer path uses: 4, 8, 16 */
#endif
	VERIF_ASSUME(size >= 1 && size <= 16 && count <= ((size_t)1 << 40) &&
		     used <= count && cap <= ((size_t)1 << 40) && w < size);
	verif_nd_bytes(elem, sizeof(elem), "elem");
	a.size = size;
	a.count = count;
	a.used = used;
	a.data = count ? malloc(count * size) : NULL;
	VERIF_ASSUME(count == 0 || a.data != NULL);
	data0 = a.data;

#if OP == OP_INIT
	ret = array_init(&b, size, cap);
	VERIF_ASSERT(!g_fault || ret != 0, "C13.array." OPN ".propagates");
	if (ret == 0)
		VERIF_ASSERT(b.size == size && b.count == cap && b.used == 0 &&
			     (cap == 0 || b.data != NULL), "C13.array." OPN ".post");
	else
		VERIF_ASSERT(b.data == NULL, "C13.array." OPN ".fail_intact");
	VERIF_COVER(ret == 0 && cap == 512);
	VERIF_COVER(ret != 0);
#elif OP == OP_COPY
	/* used == 0 makes the real code call memcpy(NULL, src, 0) - formally
	 * undefined, harmless, and a matter of the copy hooks (C19), not of
	 * fail-stop; excluded here */
	VERIF_ASSUME(used >= 1);
	ret = array_init_copy(&b, &a);
	VERIF_ASSERT(!g_fault || ret != 0, "C13.array." OPN ".propagates");
	if (ret == 0)
		VERIF_ASSERT(b.size == size && b.count == used && b.used == used &&
			     (used == 0 || (b.data != NULL && b.data != a.data)),
			     "C13.array." OPN ".post");
	else
		VERIF_ASSERT(b.data == NULL, "C13.array." OPN ".fail_intact");
	VERIF_ASSERT(a.data == data0 && a.count == count && a.used == used,
		     "C13.array." OPN ".fail_intact");
	VERIF_COVER(ret == 0 && used == 3);
	VERIF_COVER(ret != 0);
#elif OP == OP_APPEND
	ret = array_append(&a, elem);
	VERIF_ASSERT(!g_fault || ret != 0, "C13.array." OPN ".propagates");
	if (ret == 0)
		VERIF_ASSERT(a.used == used + 1 && a.used <= a.count && a.size == size &&
			     ((sqfs_u8 *)a.data)[used * size + w] == elem[w],
			     "C13.array." OPN ".post");
	else
		VERIF_ASSERT(a.data == data0 && a.count == count && a.used == used,
			     "C13.array." OPN ".fail_intact");
	VERIF_COVER(ret == 0 && g_allocs == 1 && count == 0);
	VERIF_COVER(ret == 0 && g_allocs == 1 && count == 128);
	VERIF_COVER(ret == 0 && g_allocs == 0);
	VERIF_COVER(ret != 0);
#else
	ret = array_set_capacity(&a, cap);
	VERIF_ASSERT(!g_fault || ret != 0, "C13.array." OPN ".propagates");
	if (ret == 0)
		VERIF_ASSERT(a.count >= cap && a.count >= count && a.used == used &&
			     a.size == size && (a.count == 0 || a.data != NULL),
			     "C13.array." OPN ".post");
	else
		VERIF_ASSERT(a.data == data0 && a.count == count && a.used == used,
			     "C13.array." OPN ".fail_intact");
	VERIF_COVER(ret == 0 && g_allocs == 1 && a.count == 4096);
	VERIF_COVER(ret == 0 && g_allocs == 0);
	VERIF_COVER(ret != 0);
#endif
}
