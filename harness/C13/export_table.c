/* C13.export_table.propagates (proved): sqfs_dir_writer_write_export_table()
 * with add_export_table_entry (real, static) against the fault-injecting
 * contracts of array_set_capacity and sqfs_write_table. Export table with a
 * symbolic capacity/fill, any root inode number:
 *   C13.export_table.propagates       a failing callee => ret != 0
 *   C13.export_table.success_writes   ret == 0 with an export table present =>
 *                                     the table (including the root entry) was
 *                                     handed to sqfs_write_table and the
 *                                     superblock records it ("a run that
 *                                     reports success took the fault-free
 *                                     path")
 *   C13.export_table.no_crash         pointer checks, memset extent inside the
 *                                     (re)allocated table
 * Loop-free (memset with symbolic extent: CBMC array_set).
 */
#define C14_SITE "export_table"
#include <stdlib.h>
#include <string.h>
#include "verif.h"
#include "C14/c14_env.h"
#include "sqfs/table.h"
#include "util/array.h"

#ifndef EXP_MAX
#define EXP_MAX 4096
#endif

static unsigned g_wt_calls;
static const void *g_wt_data;
static size_t g_wt_size;
static sqfs_u64 g_wt_start;

int sqfs_write_table(sqfs_file_t *file, sqfs_compressor_t *cmp,
		     const void *data, size_t table_size, sqfs_u64 *start)
{
	(void)cmp;
	g_wt_calls += 1;
	g_wt_data = data;
	g_wt_size = table_size;
	VERIF_ASSERT(file == &g_file && VERIF_R_OK(data, table_size),
		     "C13.env.write_table.pre");
	if (verif_nd_bool("write_table.fail")) {
		g_fault = true;
		return c14_error_code("write_table.err");
	}
	g_wt_start = verif_nd_u64("write_table.start");
	*start = g_wt_start;
	return 0;
}

/* util/array.c array_set_capacity: no-op when large enough, else realloc */
int array_set_capacity(array_t *array, size_t capacity)
{
	void *n;

	if (capacity <= array->count)
		return 0;
	if (verif_nd_bool("array_set_capacity.fail") ||
	    capacity > SIZE_MAX / array->size) {
		g_fault = true;
		return SQFS_ERROR_ALLOC;
	}
	n = realloc(array->data, capacity * array->size);
	VERIF_ASSUME(n != NULL);
	array->data = n;
	array->count = capacity;
	return 0;
}

#include "lib/sqfs/src/dir_writer.c"

void harness(void)
{
	static sqfs_dir_writer_t wr;
	static sqfs_super_t super;
	bool have_tbl = verif_nd_bool("have_tbl");
	size_t count = verif_nd_size("count"), used = verif_nd_size("used");
	sqfs_u32 inum = verif_nd_u32("root_inum");
	sqfs_u64 iref = verif_nd_u64("root_iref");
	sqfs_u16 flags0 = verif_nd_u16("flags");
	int ret;

	c14_file_init(C14_SUPER_SZ);
	g_wt_calls = 0;
	VERIF_ASSUME(count >= 1 && count <= EXP_MAX && used <= count &&
		     inum <= 2 * EXP_MAX);
	wr.export_tbl.size = sizeof(sqfs_u64);
	wr.export_tbl.count = have_tbl ? count : 0;
	wr.export_tbl.used = have_tbl ? used : 0;
	wr.export_tbl.data = have_tbl ? malloc(count * sizeof(sqfs_u64)) : NULL;
	VERIF_ASSUME(!have_tbl || wr.export_tbl.data != NULL);
	super.flags = flags0;
	super.export_table_start = 0xFFFFFFFFFFFFFFFFULL;

	ret = sqfs_dir_writer_write_export_table(&wr, &g_file, NULL, inum, iref,
						 &super);

	VERIF_ASSERT(!g_fault || ret != 0, "C13.export_table.propagates");
	if (ret == 0 && have_tbl) {
		VERIF_ASSERT(g_wt_calls == 1 && g_wt_data == wr.export_tbl.data &&
			     g_wt_size == wr.export_tbl.used * sizeof(sqfs_u64) &&
			     wr.export_tbl.used >= inum &&
			     super.export_table_start == g_wt_start &&
			     (super.flags & SQFS_FLAG_EXPORTABLE),
			     "C13.export_table.success_writes");
	}
	if (ret != 0)
		VERIF_ASSERT(super.export_table_start == 0xFFFFFFFFFFFFFFFFULL &&
			     super.flags == flags0,
			     "C13.export_table.failure_leaves_super");
	VERIF_COVER(ret == 0 && have_tbl && inum > count);
	VERIF_COVER(ret == 0 && have_tbl && inum < used);
	VERIF_COVER(ret == 0 && !have_tbl);
	VERIF_COVER(ret != 0 && g_wt_calls == 1);
	VERIF_COVER(g_fault && g_wt_calls == 0);
}
