/* C13.cleanup.unlinks (proved): sqfs_writer_cleanup(), the one place where the
 * packers remove their output. Writer as a successful sqfs_writer_init built
 * it (both mains call cleanup only after init succeeded; the xattr writer is
 * optional), reference structure as the real constructors build it, any
 * status value:
 *   C13.cleanup.unlinks          status != EXIT_SUCCESS => unlink(filename) is
 *                                called exactly once, with the writer's
 *                                filename, AFTER the output file object was
 *                                destroyed (closed); status == EXIT_SUCCESS =>
 *                                no unlink
 *   C13.cleanup.releases_all     every component and the file object are
 *                                destroyed exactly once (reference counts
 *                                reach zero), the fstree is cleaned up once
 *   C13.cleanup.no_crash         no destroy hook runs on an object that is
 *                                already gone; pointer checks of cbmc
 *   C13.cleanup.no_output_io     cleanup itself writes nothing to the file
 * Real code: cleanup.c; sqfs_drop (predef.h). Components are the contracts of
 * C14/writer_env.h (they hold the references the real constructors take).
 * Loop-free.
 */
#define C14_SITE "writer_cleanup"
#define WENV "C13"
#include <stdlib.h>
#include <string.h>
#include "verif.h"
#include "C14/c14_env.h"
#include "C14/c14_libc.h"
#include "C14/writer_env.h"

static unsigned g_unlinks, g_unlink_seq;
static const char *g_unlink_arg;

int unlink(const char *path)
{
	g_seq += 1;
	g_unlinks += 1;
	g_unlink_seq = g_seq;
	g_unlink_arg = path;
	if (verif_nd_bool("unlink.fail"))
		return -1;
	return 0;
}

#include "lib/common/src/writer/cleanup.c"

static const char g_name[] = "out.sqfs";

/* build the reference structure sqfs_writer_init builds */
static void build(sqfs_writer_t *wr, unsigned depth)
{
	sqfs_block_processor_desc_t desc;
	sqfs_compressor_config_t cc;

	memset(wr, 0, sizeof(*wr));
	wr->filename = g_name;
	c14_file_object_init(verif_nd_u64("fsize"));
	g_file.base.destroy = c14_outfile_destroy;
	g_file_open = true;
	wr->outfile = &g_file;
	g_fs_live = true;

	memset(&cc, 0, sizeof(cc));
	(void)sqfs_compressor_create(&cc, &wr->cmp);
	cc.flags = SQFS_COMP_FLAG_UNCOMPRESS;
	(void)sqfs_compressor_create(&cc, &wr->uncmp);
	VERIF_ASSUME(wr->cmp != NULL && wr->uncmp != NULL);
	wr->blkwr = sqfs_block_writer_create(wr->outfile, 0);
	wr->fragtbl = sqfs_frag_table_create(0);
	VERIF_ASSUME(wr->blkwr != NULL && wr->fragtbl != NULL);
	memset(&desc, 0, sizeof(desc));
	desc.size = sizeof(desc);
	desc.cmp = wr->cmp;
	desc.wr = wr->blkwr;
	desc.tbl = wr->fragtbl;
	desc.file = wr->outfile;
	desc.uncmp = wr->uncmp;
	VERIF_ASSUME(sqfs_block_processor_create_ex(&desc, &wr->data) == 0);
	wr->idtbl = sqfs_id_table_create(0);
	VERIF_ASSUME(wr->idtbl != NULL);
	if (depth & 1) {	/* no_xattr */
		wr->xwr = sqfs_xattr_writer_create(0);
		VERIF_ASSUME(wr->xwr != NULL);
	}
	wr->im = sqfs_meta_writer_create(wr->outfile, wr->cmp, 0);
	wr->dm = sqfs_meta_writer_create(wr->outfile, wr->cmp,
					 SQFS_META_WRITER_KEEP_IN_MEMORY);
	VERIF_ASSUME(wr->im != NULL && wr->dm != NULL);
	wr->dirwr = sqfs_dir_writer_create(wr->dm, 0);
	VERIF_ASSUME(wr->dirwr != NULL);
}

void harness(void)
{
	static sqfs_writer_t wr;
	int status = verif_nd_int("status"), i;
	bool with_xattr = verif_nd_bool("with_xattr");
	unsigned nwrite0;

	c14_ghost_init();
	writer_env_init();
	g_unlinks = 0;
	g_unlink_seq = 0;
	g_unlink_arg = NULL;
	build(&wr, with_xattr ? 1 : 0);
	g_fault = false;
	nwrite0 = g_nwrite;

	sqfs_writer_cleanup(&wr, status);

	if (status != EXIT_SUCCESS) {
		VERIF_ASSERT(g_unlinks == 1 && g_unlink_arg == g_name &&
			     g_file_destroyed == 1 &&
			     g_unlink_seq > g_file_destroy_seq,
			     "C13.cleanup.unlinks");
	} else {
		VERIF_ASSERT(g_unlinks == 0, "C13.cleanup.unlinks");
	}
	for (i = 0; i < OB_N; ++i) {
		VERIF_ASSERT(g_ob_destroyed[i] == g_ob_created[i] && !g_ob_live[i],
			     "C13.cleanup.releases_all");
	}
	VERIF_ASSERT(g_file_destroyed == 1 && !g_file_open && !g_fs_live &&
		     g_fs_cleanups == 1, "C13.cleanup.releases_all");
	VERIF_ASSERT(g_use_after_destroy == 0, "C13.cleanup.no_crash");
	VERIF_ASSERT(g_nwrite == nwrite0 && g_ntrunc == 0,
		     "C13.cleanup.no_output_io");
	VERIF_COVER(status == EXIT_FAILURE && with_xattr);
	VERIF_COVER(status == EXIT_SUCCESS && !with_xattr);
	VERIF_COVER(status == 77);
}
