/*
 * w17_own.h - ghost block table and the OWNERSHIP INVARIANT of the block
 * processor (lib/sqfs/src/block_processor/), plus the environment contracts
 * that take part in ownership: allocator of blocks, free(), the thread pool.
 * Included after C14/c14_env.h, C13/c13_alloc.h, C13/bp_env.h and before the
 * real translation units.
 *
 * Every sqfs_block_t that exists (made by the harness, by get_new_block's
 * malloc or by alloc_flex) is registered in g_tab[]. INV_OWN:
 *
 *   every registered block that has not been freed is owned by EXACTLY ONE of
 *     proc->blk_current, proc->frag_block, proc->cached_frag_blk,
 *     one node of proc->free_list, one node of proc->io_queue,
 *     one node of proc->fblk_in_flight,
 *     the pool (submitted, not yet handed back by dequeue),
 *     the caller (handed out through get_new_block's *out),
 *   a freed block is owned by nobody, the three lists are NULL terminated,
 *   and nothing but registered blocks is reachable through these places.
 *
 * w17_owner_check() computes the owner count of every block once and asserts
 *   C13.bp.single_owner   no block has two owners (one of them would free or
 *                         re-submit what the other still uses), no freed
 *                         block has an owner, lists are well formed
 *   C13.bp.no_orphan      no live block has lost its last owner (leak)
 * The free() contract asserts "registered, not freed before, not inside the
 * pool" at every call (C13.bp.single_owner while an operation runs,
 * C13.bp.destroy_safe while block_processor_destroy runs), and really frees,
 * so that cbmc's pointer checks flag any later use.
 */
#ifndef W17_OWN_H
#define W17_OWN_H

#ifndef W17_NB
#define W17_NB 12		/* capacity of the ghost table */
#endif

static sqfs_block_t *g_tab[W17_NB];
static bool g_tab_freed[W17_NB];
static bool g_tab_pool[W17_NB];		/* owner: the pool */
static bool g_tab_caller[W17_NB];	/* owner: the caller of the front end */
static bool g_tab_orphan[W17_NB];	/* reported by C13.bp.no_orphan */
static unsigned g_tab_n;
static bool g_tab_overflow;

static bool g_in_destroy;		/* block_processor_destroy is running */
static bool g_proc_freed;
static unsigned g_blk_allocs;		/* blocks handed out by malloc/alloc_flex */
static unsigned g_blk_alloc_faults;

static int w17_find(const void *p)
{
	unsigned i;

	for (i = 0; i < W17_NB; ++i) {
		if (i < g_tab_n && (const void *)g_tab[i] == p)
			return (int)i;
	}
	return -1;
}

static void w17_register(sqfs_block_t *b)
{
	if (g_tab_n >= W17_NB) {
		g_tab_overflow = true;
		return;
	}
	g_tab[g_tab_n] = b;
	g_tab_freed[g_tab_n] = false;
	g_tab_pool[g_tab_n] = false;
	g_tab_caller[g_tab_n] = false;
	g_tab_n += 1;
}

/* ---- the predicate ------------------------------------------------------- */
static unsigned g_cnt[W17_NB];
static bool g_shape_ok;		/* lists terminate, only registered live blocks */

static void w17_count_one(const sqfs_block_t *b)
{
	int k;

	if (b == NULL)
		return;
	k = w17_find(b);
	if (k < 0 || g_tab_freed[k]) {
		g_shape_ok = false;
		return;
	}
	g_cnt[k] += 1;
}

static void w17_count_list(const sqfs_block_t *it)
{
	unsigned steps;
	int k;

	for (steps = 0; steps <= W17_NB; ++steps) {
		if (it == NULL)
			return;
		k = w17_find(it);
		/* a foreign, freed or already counted node: do not follow it */
		if (k < 0 || g_tab_freed[k]) {
			g_shape_ok = false;
			return;
		}
		g_cnt[k] += 1;
		if (g_cnt[k] > 1)
			return;
		it = it->next;
	}
	g_shape_ok = false;	/* longer than the table: cyclic */
}

static void w17_owner_count(void)
{
	unsigned i;

	g_shape_ok = !g_tab_overflow;
	for (i = 0; i < W17_NB; ++i)
		g_cnt[i] = 0;
	w17_count_one(g_proc.blk_current);
	w17_count_one(g_proc.frag_block);
	w17_count_one(g_proc.cached_frag_blk);
	w17_count_list(g_proc.free_list);
	w17_count_list(g_proc.io_queue);
	w17_count_list(g_proc.fblk_in_flight);
	for (i = 0; i < W17_NB; ++i) {
		if (i < g_tab_n && g_tab_pool[i])
			g_cnt[i] += 1;
		if (i < g_tab_n && g_tab_caller[i])
			g_cnt[i] += 1;
	}
}

static bool w17_at_most_one(void)
{
	bool ok = g_shape_ok;
	unsigned i;

	for (i = 0; i < W17_NB; ++i) {
		if (i < g_tab_n && g_cnt[i] > (g_tab_freed[i] ? 0u : 1u))
			ok = false;
	}
	return ok;
}

static bool w17_at_least_one(void)
{
	bool ok = true;
	unsigned i;

	for (i = 0; i < W17_NB; ++i) {
		g_tab_orphan[i] = (i < g_tab_n && !g_tab_freed[i] && g_cnt[i] == 0);
		if (g_tab_orphan[i])
			ok = false;
	}
	return ok;
}

/* the state the operation starts in (precondition) */
static void w17_owner_assume(void)
{
	w17_owner_count();
	VERIF_ASSUME(w17_at_most_one() && w17_at_least_one());
}

/* ... and must leave behind, on every outcome */
static void w17_owner_check(void)
{
	w17_owner_count();
	VERIF_ASSERT(w17_at_most_one(), "C13.bp.single_owner");
	VERIF_ASSERT(w17_at_least_one(), "C13.bp.no_orphan");
}

/* ---- allocator of blocks -------------------------------------------------- */
static void *w17_new_wrapper(const char *tag)
{
	bp_block_t *w;

	if (verif_nd_bool(tag)) {
		g_fault = true;
		g_blk_alloc_faults += 1;
		return NULL;
	}
#pragma push_macro("calloc")
#undef calloc
	w = calloc(1, sizeof(*w));
#pragma pop_macro("calloc")
	VERIF_ASSUME(w != NULL);
	g_blk_allocs += 1;
	w17_register(&w->b);
	return w;
}

/* get_new_block: malloc(sizeof(block) + max_block_size), typed wrapper
 * (max_block_size == BP_BS in these harnesses) */
static void *w17_block_malloc(size_t n)
{
	VERIF_ASSERT(n == sizeof(sqfs_block_t) + BP_BS, "C13.env.block_malloc.size");
	return w17_new_wrapper("malloc.fail");
}

/* enqueue_block's in-flight copy, load_frag_block's cache block */
void *alloc_flex(size_t base_size, size_t item_size, size_t nmemb)
{
	VERIF_ASSERT(base_size == sizeof(sqfs_block_t) && item_size == 1 &&
		     nmemb <= BP_BS, "C13.env.alloc_flex.pre");
	return w17_new_wrapper("alloc_flex.fail");
}

/* ---- free() contract ------------------------------------------------------ */
static void w17_free(void *p)
{
	int k;

	if (p == NULL)
		return;
	if (p == (void *)&g_bp) {
		VERIF_ASSERT(g_in_destroy && !g_proc_freed, "C13.bp.destroy_safe");
		g_proc_freed = true;
		return;
	}
	k = w17_find(p);
	if (k >= 0) {
		bool ok = !g_tab_freed[k] && !g_tab_pool[k] && !g_tab_caller[k];

		if (g_in_destroy)
			VERIF_ASSERT(ok, "C13.bp.destroy_safe");
		else
			VERIF_ASSERT(ok, "C13.bp.single_owner");
		if (g_tab_freed[k])
			return;
		g_tab_freed[k] = true;
	}
	free(p);
}

/* ---- thread pool contract (ownership part) --------------------------------
 * submit(b)   fails (pool->status set, or no memory for the work item: -1) and
 *             leaves b with the caller, or takes b
 * dequeue()   what lib/util/src/threadpool.c dequeue() guarantees: NULL when
 *             nothing is inside; otherwise the oldest block, also after a
 *             worker failed (the block comes back non-NULL, the status is
 *             non-zero by then); NULL with blocks still inside only once the
 *             status is non-zero (workers have stopped)
 * A worker may fail at any call while blocks are inside; a worker may have
 * changed flags (IS_SPARSE, IS_COMPRESSED), size (smaller) and checksum.
 */
static sqfs_block_t *g_poolq[W17_NB];
static unsigned g_pool_n;
static int g_pstatus;
static unsigned g_submit_ok, g_submit_fail, g_deq_ok, g_deq_null;

static void w17_worker_may_fail(void)
{
	if (g_pstatus == 0 && g_pool_n > 0 && verif_nd_bool("worker.fails")) {
		g_pstatus = c14_error_code("worker.status");
		g_fault = true;
	}
}

int w17_pool_submit(thread_pool_t *pool, void *ptr)
{
	int k = w17_find(ptr);

	VERIF_ASSERT(pool == &g_pool && ptr != NULL, "C13.env.pool.pre");
	/* a freed block, or one the pool already holds, must never be submitted */
	VERIF_ASSERT(k >= 0 && !g_tab_freed[k] && !g_tab_pool[k],
		     "C13.bp.single_owner");
	w17_worker_may_fail();
	if (g_pstatus != 0) {
		g_submit_fail += 1;
		return g_pstatus;
	}
	if (k < 0 || g_pool_n >= W17_NB || verif_nd_bool("pool.submit_nomem")) {
		g_fault = true;
		g_submit_fail += 1;
		return -1;
	}
	g_poolq[g_pool_n] = ptr;
	g_pool_n += 1;
	g_tab_pool[k] = true;
	g_submit_ok += 1;
	return 0;
}

void *w17_pool_dequeue(thread_pool_t *pool)
{
	sqfs_block_t *b;
	unsigned i;
	int k;

	VERIF_ASSERT(pool == &g_pool, "C13.env.pool.pre");
	w17_worker_may_fail();
	if (g_pool_n == 0 || (g_pstatus != 0 && verif_nd_bool("pool.gives_up"))) {
		g_fault = true;
		g_deq_null += 1;
		return NULL;
	}
	b = g_poolq[0];
	for (i = 0; i + 1 < W17_NB; ++i)
		g_poolq[i] = g_poolq[i + 1];
	g_pool_n -= 1;
	k = w17_find(b);
	if (k >= 0)
		g_tab_pool[k] = false;
	/* what process_block may have done to it */
	if (verif_nd_bool("worker.sparse"))
		b->flags |= SQFS_BLK_IS_SPARSE;
	else if (verif_nd_bool("worker.compressed")) {
		sqfs_u32 sz = verif_nd_u32("worker.size");

		if (sz < b->size)
			b->size = sz;
		b->flags |= SQFS_BLK_IS_COMPRESSED;
	}
	b->checksum = verif_nd_u32("worker.checksum");
	g_deq_ok += 1;
	return b;
}

int w17_pool_get_status(thread_pool_t *pool)
{
	VERIF_ASSERT(pool == &g_pool, "C13.env.pool.pre");
	return g_pstatus;
}

static unsigned g_pool_destroyed;

/* threadpool.c destroy(): stops and joins the workers, frees its own work
 * items - NOT the blocks they point to */
void w17_pool_destroy(thread_pool_t *pool)
{
	VERIF_ASSERT(pool == &g_pool && g_in_destroy, "C13.env.pool.pre");
	g_pool_destroyed += 1;
}

/* ---- the remaining objects block_processor_destroy lets go of ------------- */
static sqfs_compressor_t g_uncmp_obj;
static unsigned g_ht_destroyed;

static void w17_obj_init(sqfs_object_t *o)
{
	o->refcount = 1;
	o->destroy = c14_obj_destroy;
	o->copy = NULL;
}

/* a registered heap block in the role the caller gives it */
static sqfs_block_t *w17_blk(sqfs_u32 must, sqfs_u32 may,
			     sqfs_inode_generic_t **inode)
{
	sqfs_block_t *b = bp_new_block(inode);

	b->flags = (b->flags & may) | must;
	VERIF_ASSUME(b->index <= 3);
	w17_register(b);
	return b;
}

static void w17_into_pool(sqfs_block_t *b)
{
	int k = w17_find(b);

	VERIF_ASSUME(k >= 0 && g_pool_n < W17_NB);
	g_poolq[g_pool_n] = b;
	g_pool_n += 1;
	g_tab_pool[k] = true;
}

static void w17_env_init(void)
{
	unsigned i;

	c14_ghost_init();
	bp_env_init();
	for (i = 0; i < W17_NB; ++i) {
		g_tab[i] = NULL;
		g_tab_freed[i] = g_tab_pool[i] = g_tab_caller[i] = false;
		g_tab_orphan[i] = false;
		g_poolq[i] = NULL;
		g_cnt[i] = 0;
	}
	g_tab_n = 0;
	g_tab_overflow = false;
	g_in_destroy = false;
	g_proc_freed = false;
	g_blk_allocs = g_blk_alloc_faults = 0;
	g_pool_n = 0;
	g_pstatus = 0;
	g_submit_ok = g_submit_fail = g_deq_ok = g_deq_null = 0;
	g_pool_destroyed = 0;
	g_ht_destroyed = 0;
	g_shape_ok = true;
	g_pool.submit = w17_pool_submit;
	g_pool.dequeue = w17_pool_dequeue;
	g_pool.get_status = w17_pool_get_status;
	g_pool.destroy = w17_pool_destroy;
	g_proc.max_block_size = BP_BS;
	w17_obj_init(&g_blkwr.base);
	c14_file_object_init(verif_nd_u64("fsize"));
	g_file.base.destroy = c14_obj_destroy;
	w17_obj_init(&g_uncmp_obj.base);
	w17_obj_init(&g_fragtbl.base);
}

#endif /* W17_OWN_H */
