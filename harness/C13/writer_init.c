/* C13 obligations on sqfs_writer_init (proved): the harness is
 * C14/writer_init.c compiled with C13_CHECKS - same real code (init.c,
 * super.c, write_super.c), same contracts (C14/writer_env.h); every callee
 * may fail at every call (all single and multiple fault positions):
 *   C13.init.propagates              any callee failure => ret != 0
 *   C13.init.diagnostic              ret != 0 => a diagnostic was printed
 *   C13.init.releases_all            ret != 0 => every object created so far
 *                                    is destroyed exactly once, the file
 *                                    object is closed, the fstree cleaned up
 *   C13.init.no_crash                no object is touched after its destroy
 *   C13.init.failure_removes_output  ret != 0 and the output file had been
 *                                    created => it is unlinked (after close)
 *   C13.init.failure_keeps_foreign_file  open failed (e.g. exists) => no unlink
 *   C13.init.success_keeps_output    ret == 0 => nothing destroyed / unlinked
 */
#define C13_CHECKS
#define WENV "C13"
#include "C14/writer_init.c"
