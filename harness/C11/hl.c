/* C11 (relational, bounded): the real hard-link filter (lib/sqfs/src/io/
 * dir_hl.c: sqfs_hard_link_filter_create, next, detect_hard_link,
 * store_hard_link) over the rbtree contract below (finite map; the real
 * compare_inum decides key equality). Two runs over the same two directory
 * entries A and B (regular files, names of NLEN symbolic bytes, distinct),
 * delivered by the source-iterator contract in the order A,B in run 1 and
 * B,A in run 2 - what readdir on two different file systems does.
 *
 * SAMEKEY 0 - different (dev, inode) keys:
 *   C11.hl.distinct_unchanged  neither run turns an entry into a link; both
 *       entries come out with the attributes they went in with
 * SAMEKEY 1 - A and B are two names of one file (same dev, same inode):
 *   C11.hl.one_primary   in each run exactly one of the two comes out as the
 *       file and the other as a hard link whose target is the first one's
 *       name
 *   C11.hl.order_free    for each NAME, what comes out (file or link, link
 *       target) is the same in both runs - the property's demand: the set of
 *       (path, kind, target) triples handed to the tree builder does not
 *       depend on the enumeration order
 */
#include <string.h>
#include <stdlib.h>
#include "verif.h"
#define NO_CUSTOM_ALLOC
#include "config.h"
#include "sqfs/dir_entry.h"
#include "sqfs/io.h"
#include "util/rbtree.h"

#ifndef NLEN
#define NLEN 1
#endif
#ifndef SAMEKEY
#define SAMEKEY 1
#endif

#ifdef VERIF_REPLAY
#define calloc c11_calloc
#define free c11_free
#define strdup c11_strdup
void *calloc(size_t n, size_t sz);
void free(void *p);
char *strdup(const char *s);
#endif

/* ---- rbtree contract ---------------------------------------------------
 * The filter uses the tree as a finite map (dev, inode) -> first path seen.
 * cbmc 6.11 aborts ("bv_to_array_expr" invariant) on the real rbtree.c node
 * layout here (key and value are memcpy'd into / cast out of a byte array
 * behind the node header), so the map is replaced by its contract: at most
 * RB_MAX entries, typed; insert appends (it may not fail here), lookup
 * returns the entry whose key compares equal under the tree's own
 * key_compare hook (the real compare_inum), else NULL; the value is reachable
 * through the real rbtree_node_value() accessor. Balancing is not part of
 * any claim of C11. */
#define RB_MAX 2
struct rbent {
	rbtree_node_t n;
	struct {
		sqfs_u64 k[2];
		char *val;
	} d;
};
static struct rbent g_rb[2][RB_MAX];
static unsigned g_rb_n[2];
static unsigned g_rb_trees;

int rbtree_init(rbtree_t *tree, size_t keysize, size_t valuesize,
		int(*key_compare)(const void *, const void *, const void *))
{
	VERIF_ASSERT(keysize == 16 && valuesize == sizeof(char *) &&
		     g_rb_trees < 2, "C11.env.rbtree_pre");
	memset(tree, 0, sizeof(*tree));
	tree->key_compare = key_compare;
	tree->key_size = keysize;
	tree->key_size_padded = keysize;
	tree->value_size = valuesize;
	/* which map this tree is: kept in the (otherwise unused) context */
	tree->key_context = &g_rb_n[g_rb_trees++];
	return 0;
}

static unsigned rb_id(const rbtree_t *tree)
{
	return tree->key_context == &g_rb_n[0] ? 0 : 1;
}

int rbtree_insert(rbtree_t *tree, const void *key, const void *value)
{
	unsigned t = rb_id(tree);
	struct rbent *e;

	VERIF_ASSERT(g_rb_n[t] < RB_MAX, "C11.env.rbtree_pre");
	e = &g_rb[t][g_rb_n[t]++];
	e->n.left = NULL;
	e->n.right = NULL;
	e->n.value_offset = 16;
	e->d.k[0] = ((const sqfs_u64 *)key)[0];
	e->d.k[1] = ((const sqfs_u64 *)key)[1];
	e->d.val = *(char *const *)value;
	if (tree->root == NULL)
		tree->root = &e->n;
	return 0;
}

rbtree_node_t *rbtree_lookup(const rbtree_t *tree, const void *key)
{
	unsigned t = rb_id(tree), i;

	for (i = 0; i < g_rb_n[t]; ++i) {
		if (tree->key_compare(NULL, key, g_rb[t][i].d.k) == 0)
			return &g_rb[t][i].n;
	}
	return NULL;
}

void rbtree_cleanup(rbtree_t *tree)
{
	(void)tree;
}
#include "lib/sqfs/src/io/dir_hl.c"

/* ---- allocation contract: typed objects, run-local pools ----------------- */
static hl_iterator_t g_hl[2];
static unsigned g_hl_used;
static char g_str[6][NLEN + 1];
static unsigned g_str_used;

void *calloc(size_t n, size_t sz)
{
	VERIF_ASSERT(n == 1, "C11.env.calloc_pre");
	VERIF_ASSERT(sz == sizeof(g_hl[0]) && g_hl_used < 2,
		     "C11.env.calloc_pre");
	memset(&g_hl[g_hl_used], 0, sizeof(g_hl[0]));
	return &g_hl[g_hl_used++];
}

void free(void *p)
{
	(void)p; /* pools are never reused inside one harness run */
}

char *strdup(const char *s)
{
	size_t i;
	char *d;

	VERIF_ASSERT(g_str_used < 6, "C11.env.calloc_pre");
	d = g_str[g_str_used++];
	for (i = 0; i < NLEN; ++i)
		d[i] = s[i];
	d[NLEN] = '\0';
	VERIF_ASSERT(s[NLEN] == '\0', "C11.env.strdup_pre");
	return d;
}

void sqfs_free(void *p)
{
	(void)p;
}


/* ---- source iterator contract --------------------------------------------- */
struct dent {
	sqfs_dir_entry_t e;
	char room[NLEN + 1];
};
/* [run][A/B] */
static struct dent g_ent[2][2];

struct src {
	sqfs_dir_iterator_t base;
	int run, pos;
};

static int stub_src_next(sqfs_dir_iterator_t *base, sqfs_dir_entry_t **out)
{
	struct src *s = (struct src *)base;
	int which;

	if (s->pos >= 2) {
		*out = NULL;
		return 1;
	}
	/* run 0: A then B; run 1: B then A */
	which = s->run == 0 ? s->pos : 1 - s->pos;
	s->pos += 1;
	*out = &g_ent[s->run][which].e;
	return 0;
}

static void stub_src_destroy(sqfs_object_t *o)
{
	(void)o;
}

/* the other hooks of the source are not used by next(); they exist so that
 * every function-pointer call site of dir_hl.c has a contract target */
static int stub_src_read_link(sqfs_dir_iterator_t *it, char **out)
{
	(void)it; *out = NULL;
	VERIF_ASSERT(0, "C11.hl.src_hook_unused");
	return SQFS_ERROR_NO_ENTRY;
}
static int stub_src_open_subdir(sqfs_dir_iterator_t *it, sqfs_dir_iterator_t **out)
{
	(void)it; *out = NULL;
	VERIF_ASSERT(0, "C11.hl.src_hook_unused");
	return SQFS_ERROR_NO_ENTRY;
}
static void stub_src_ignore_subdir(sqfs_dir_iterator_t *it)
{
	(void)it;
	VERIF_ASSERT(0, "C11.hl.src_hook_unused");
}
static int stub_src_open_file_ro(sqfs_dir_iterator_t *it, sqfs_istream_t **out)
{
	(void)it; *out = NULL;
	VERIF_ASSERT(0, "C11.hl.src_hook_unused");
	return SQFS_ERROR_NO_ENTRY;
}
static int stub_src_read_xattr(sqfs_dir_iterator_t *it, sqfs_xattr_t **out)
{
	(void)it; *out = NULL;
	VERIF_ASSERT(0, "C11.hl.src_hook_unused");
	return SQFS_ERROR_NO_ENTRY;
}

struct outcome {
	bool is_link;
	char target[NLEN + 1];
	sqfs_u16 mode;
};

static void one_run(int run, struct outcome res[2])
{
	static struct src srcs[2];
	sqfs_dir_iterator_t *flt = NULL;
	sqfs_dir_entry_t *ent;
	struct src *s = &srcs[run];
	int i, ret;
	size_t k;

	s->base.obj.refcount = 1;
	s->base.obj.destroy = stub_src_destroy;
	s->base.next = stub_src_next;
	s->base.read_link = stub_src_read_link;
	s->base.open_subdir = stub_src_open_subdir;
	s->base.ignore_subdir = stub_src_ignore_subdir;
	s->base.open_file_ro = stub_src_open_file_ro;
	s->base.read_xattr = stub_src_read_xattr;
	s->run = run;
	s->pos = 0;

	ret = sqfs_hard_link_filter_create(&flt, &s->base);
	VERIF_ASSERT(ret == 0 && flt != NULL, "C11.hl.create");

	for (i = 0; i < 2; ++i) {
		int which;

		ent = NULL;
		ret = next(flt, &ent);
		VERIF_ASSERT(ret == 0 && ent != NULL, "C11.hl.passes_all");
		which = ent == &g_ent[run][0].e ? 0 : 1;
		VERIF_ASSERT(ent == &g_ent[run][which].e, "C11.hl.passes_all");
		res[which].is_link =
			(ent->flags & SQFS_DIR_ENTRY_FLAG_HARD_LINK) != 0;
		res[which].mode = ent->mode;
		for (k = 0; k <= NLEN; ++k)
			res[which].target[k] = '\0';
		if (res[which].is_link) {
			char *t = NULL;

			ret = read_link(flt, &t);
			VERIF_ASSERT(ret == 0 && t != NULL, "C11.hl.passes_all");
			for (k = 0; k < NLEN; ++k)
				res[which].target[k] = t[k];
		}
	}
	ent = NULL;
	ret = next(flt, &ent);
	VERIF_ASSERT(ret == 1 && ent == NULL, "C11.hl.passes_all");
}

static bool same_str(const char *a, const char *b)
{
	size_t k;

	for (k = 0; k <= NLEN; ++k) {
		if (a[k] != b[k])
			return false;
	}
	return true;
}

void harness(void)
{
	struct outcome r0[2], r1[2];
	sqfs_u64 dev[2], ino[2];
	sqfs_u16 perm[2];
	char name[2][NLEN + 1];
	int run, w;
	size_t k;

	for (w = 0; w < 2; ++w) {
		verif_nd_bytes(name[w], NLEN, "name");
		name[w][NLEN] = '\0';
		for (k = 0; k < NLEN; ++k)
			VERIF_ASSUME(name[w][k] != '\0');
		dev[w] = verif_nd_u64("dev");
		ino[w] = verif_nd_u64("ino");
		perm[w] = verif_nd_u16("perm") & 07777;
	}
	VERIF_ASSUME(!same_str(name[0], name[1]));
#if SAMEKEY
	dev[1] = dev[0];
	ino[1] = ino[0];
#else
	VERIF_ASSUME(dev[0] != dev[1] || ino[0] != ino[1]);
#endif
	for (run = 0; run < 2; ++run) {
		for (w = 0; w < 2; ++w) {
			sqfs_dir_entry_t *e = &g_ent[run][w].e;

			e->size = 0;
			e->mtime = 0;
			e->dev = dev[w];
			e->rdev = 0;
			e->inode = ino[w];
			e->uid = 0;
			e->gid = 0;
			e->mode = S_IFREG | perm[w];
			e->flags = 0;
			for (k = 0; k <= NLEN; ++k)
				e->name[k] = name[w][k];
		}
	}

	one_run(0, r0);
	one_run(1, r1);

#if SAMEKEY
	/* within a run: first delivered is the file, second a link to it */
	VERIF_ASSERT(!r0[0].is_link && r0[1].is_link &&
		     same_str(r0[1].target, name[0]), "C11.hl.one_primary");
	VERIF_ASSERT(!r1[1].is_link && r1[0].is_link &&
		     same_str(r1[0].target, name[1]), "C11.hl.one_primary");
	/* across runs: per name */
	for (w = 0; w < 2; ++w) {
		VERIF_ASSERT(r0[w].is_link == r1[w].is_link &&
			     same_str(r0[w].target, r1[w].target),
			     "C11.hl.order_free");
	}
#else
	for (w = 0; w < 2; ++w) {
		VERIF_ASSERT(!r0[w].is_link && !r1[w].is_link &&
			     r0[w].mode == (S_IFREG | perm[w]) &&
			     r1[w].mode == (S_IFREG | perm[w]),
			     "C11.hl.distinct_unchanged");
	}
#endif
	VERIF_COVER(g_rb_n[0] >= 1 && g_rb_n[1] >= 1);
}
