/* C11 (w11): the native directory iterator, lib/sqfs/src/io/dir_unix.c, real
 * dir_next / dir_read_link / create_iterator / dir_open_subdir /
 * sqfs_dir_iterator_create_native over the POSIX contracts below (readdir,
 * fstatat, fstat, dirfd, readlinkat, openat, fdopendir, opendir, closedir,
 * close: TRUSTED, every outcome they permit is explored). All functions are
 * loop-free: proved.
 *
 * What C11 needs from this layer: it is a *transparent, stateless* view of
 * readdir - one entry out per entry in, in the order of the host, nothing
 * filtered, nothing reordered, every attribute the stat value - so the only
 * order dependence handed upwards is the order of readdir itself (removed
 * later by insert_sorted). Note: the code does NOT skip "." / ".." here (the
 * recursive iterator does, see w11_rec.c) and does not drop entries of other
 * devices: it flags them (SQFS_DIR_ENTRY_FLAG_MOUNT_POINT) and
 * dir_tree_iterator.c filters on the flag (w11_dti.c).
 *
 * MODE 0  dir_next
 *   C11.unix.next.sticky        a finished / failed iterator answers with its
 *                               state, *out = NULL, without touching the host
 *   C11.unix.next.end           readdir NULL with errno 0: returns 1, sticky
 *   C11.unix.next.readdir_error readdir NULL with errno set: SQFS_ERROR_IO, sticky
 *   C11.unix.next.stat_args     fstatat(dirfd(dir), <d_name of that entry>, &sb, AT_SYMLINK_NOFOLLOW)
 *   C11.unix.next.stat_error    fstatat fails: SQFS_ERROR_IO, *out NULL, sticky
 *   C11.unix.next.alloc_error   entry allocation fails: SQFS_ERROR_ALLOC, sticky
 *   C11.unix.next.one_per_entry exactly one readdir + one fstatat per call, the entry is
 *                               yielded whatever its name (no filtering, no look-ahead)
 *   C11.unix.next.fields        name/mode/uid/gid/size/mtime/dev/rdev/inode = the stat values, full width
 *   C11.unix.next.mount_flag    flags = MOUNT_POINT iff st_dev differs from the directory's device
 *   C11.unix.next.frame         dir, device untouched; state stays 0 on success
 * MODE 1  dir_read_link
 *   C11.unix.read_link.state    failed iterator: its error; finished / no current entry: NO_ENTRY; *out NULL
 *   C11.unix.read_link.args     readlinkat(dirfd, d_name of current entry, buf, st_size), buf writable st_size+1
 *   C11.unix.read_link.result   success: *out is the buffer, NUL-terminated at the returned length
 *   C11.unix.read_link.fail_clean  readlinkat fails: SQFS_ERROR_IO, *out NULL, buffer released (leak check)
 * MODE 2  create_iterator (+ sqfs_dir_iterator_create_native, dir_open_subdir)
 *   C11.unix.create.fail_closes   every failure closes the DIR exactly once, *out NULL, nothing leaks
 *   C11.unix.create.init          success: state 0, no current entry, device = st_dev of the directory,
 *                                 the six hooks of this file, refcount 1
 *   C11.unix.create.native_flags  unknown flags are refused before the host is touched
 *   C11.unix.open_subdir.state / .result
 */
#include <stdlib.h>
#include <string.h>
#include "verif.h"

static int g_errno;
#ifndef VERIF_REPLAY
int *__errno_location(void) { return &g_errno; }
#endif

#include "lib/sqfs/src/io/dir_unix.c"

#ifndef MODE
#define MODE 0
#endif

/* ---- host contracts ---------------------------------------------------------- */
static char g_dirobj[2];		/* what a DIR* points to: opaque */
#define THE_DIR ((DIR *)(void *)&g_dirobj[0])
#define NEW_DIR ((DIR *)(void *)&g_dirobj[1])
#define THE_FD 7
#define NEW_FD 9

static struct dirent g_dirent;
static int g_readdir_calls, g_fstatat_calls, g_closedir_calls, g_close_calls;
static int g_create_calls, g_readlink_calls, g_open_calls, g_fdopendir_calls;
static const char *g_create_name;
static bool g_host_ok;		/* stubs saw the arguments the contract demands */
static int g_readdir_outcome;	/* 0 entry, 1 end of directory, 2 error */

/* stat values the host reports (kept for the postcondition) */
static struct stat g_st;

static void nd_stat(struct stat *sb)
{
	/* field by field (HOWTO); POSIX: st_mode fits 16 bit, st_size >= 0 */
	sb->st_dev = verif_nd_u64("st.dev");
	sb->st_ino = verif_nd_u64("st.ino");
	sb->st_mode = verif_nd_u16("st.mode");
	sb->st_uid = verif_nd_u32("st.uid");
	sb->st_gid = verif_nd_u32("st.gid");
	sb->st_rdev = verif_nd_u64("st.rdev");
	sb->st_size = verif_nd_i64("st.size");
	VERIF_ASSUME(sb->st_size >= 0);
	sb->st_mtim.tv_sec = verif_nd_i64("st.mtime");
	sb->st_mtim.tv_nsec = verif_nd_u32("st.mtime_ns");
	sb->st_nlink = verif_nd_u64("st.nlink");
}

struct dirent *readdir(DIR *d)
{
	size_t len;

	VERIF_ASSERT(d == THE_DIR, "C11.unix.env.dir_handle");
	++g_readdir_calls;
	if (verif_nd_bool("readdir.null")) {
		/* end of directory leaves errno alone, an error sets it */
		g_readdir_outcome = 1;
		if (verif_nd_bool("readdir.err")) {
			g_errno = verif_nd_int("readdir.errno");
			VERIF_ASSUME(g_errno != 0);
			g_readdir_outcome = 2;
		}
		return NULL;
	}
	g_readdir_outcome = 0;
	/* any name of 1..NAME_MAX bytes; only the terminator position and a
	 * few leading bytes matter to the code under test */
	len = verif_nd_size("readdir.len");
	VERIF_ASSUME(len >= 1 && len <= 255);
	((unsigned char *)g_dirent.d_name)[0] = verif_nd_u8("readdir.n0");
	((unsigned char *)g_dirent.d_name)[1] = verif_nd_u8("readdir.n1");
	((unsigned char *)g_dirent.d_name)[2] = verif_nd_u8("readdir.n2");
	g_dirent.d_name[len] = '\0';
	g_dirent.d_ino = verif_nd_u64("readdir.ino");
	g_dirent.d_type = verif_nd_u8("readdir.type");
	/* errno may be clobbered by a successful call as well */
	g_errno = verif_nd_int("readdir.errno_ok");
	return &g_dirent;
}

int dirfd(DIR *d)
{
	if (d == THE_DIR)
		return THE_FD;
	VERIF_ASSERT(d == NEW_DIR, "C11.unix.env.dir_handle");
	return NEW_FD;
}

int fstatat(int fd, const char *path, struct stat *sb, int flags)
{
	++g_fstatat_calls;
	g_host_ok = fd == THE_FD && path == g_dirent.d_name &&
		    flags == AT_SYMLINK_NOFOLLOW && VERIF_W_OK(sb, sizeof(*sb));
	VERIF_ASSERT(g_host_ok, "C11.unix.next.stat_args");
	if (verif_nd_bool("fstatat.fail")) {
		g_errno = verif_nd_int("fstatat.errno");
		return -1;
	}
	nd_stat(&g_st);
	*sb = g_st;
	return 0;
}

int fstat(int fd, struct stat *sb)
{
	VERIF_ASSERT(fd == NEW_FD && VERIF_W_OK(sb, sizeof(*sb)),
		     "C11.unix.create.stat_args");
	if (verif_nd_bool("fstat.fail")) {
		g_errno = verif_nd_int("fstat.errno");
		return -1;
	}
	nd_stat(&g_st);
	*sb = g_st;
	return 0;
}

int closedir(DIR *d)
{
	VERIF_ASSERT(d == NEW_DIR || d == THE_DIR, "C11.unix.env.dir_handle");
	++g_closedir_calls;
	g_errno = verif_nd_int("closedir.errno");
	return 0;
}

int close(int fd)
{
	VERIF_ASSERT(fd == NEW_FD, "C11.unix.env.fd");
	++g_close_calls;
	g_errno = verif_nd_int("close.errno");
	return 0;
}

DIR *opendir(const char *path)
{
	(void)path;
	++g_open_calls;
	if (verif_nd_bool("opendir.fail")) {
		g_errno = verif_nd_int("opendir.errno");
		return NULL;
	}
	return NEW_DIR;
}

int openat(int fd, const char *path, int flags, ...)
{
	++g_open_calls;
	VERIF_ASSERT(fd == THE_FD && path == g_dirent.d_name,
		     "C11.unix.open_subdir.args");
	VERIF_ASSERT((flags & O_DIRECTORY) != 0 && (flags & O_ACCMODE) == O_RDONLY,
		     "C11.unix.open_subdir.args");
	if (verif_nd_bool("openat.fail")) {
		g_errno = verif_nd_int("openat.errno");
		return -1;
	}
	return NEW_FD;
}

DIR *fdopendir(int fd)
{
	VERIF_ASSERT(fd == NEW_FD, "C11.unix.env.fd");
	++g_fdopendir_calls;
	if (verif_nd_bool("fdopendir.fail")) {
		g_errno = verif_nd_int("fdopendir.errno");
		return NULL;
	}
	return NEW_DIR;
}

static size_t g_rl_size;
static char *g_rl_buf;
static ssize_t g_rl_ret;
static bool g_rl_room;
static size_t g_rl_k;		/* witness byte of the link target */
static uint8_t g_rl_v;

ssize_t readlinkat(int fd, const char *path, char *buf, size_t bufsiz)
{
	ssize_t r;

	++g_readlink_calls;
	VERIF_ASSERT(fd == THE_FD && path == g_dirent.d_name,
		     "C11.unix.read_link.args");
	VERIF_ASSERT(VERIF_W_OK(buf, bufsiz), "C11.unix.read_link.args");
	g_rl_size = bufsiz;
	g_rl_buf = buf;
	/* room for the terminator the caller appends */
	g_rl_room = VERIF_W_OK(buf, bufsiz + 1);
	r = verif_nd_i64("readlinkat.ret");
	VERIF_ASSUME(r >= -1 && (r < 0 || (size_t)r <= bufsiz));
	if (r > 0) {
		/* witness byte of the target written by the host */
		size_t k = verif_nd_size("readlinkat.k");
		VERIF_ASSUME(k < (size_t)r);
		g_rl_k = k;
		g_rl_v = verif_nd_u8("readlinkat.v");
		((unsigned char *)buf)[k] = g_rl_v;
	}
	g_rl_ret = r;
	return r;
}

/* contract of sqfs_dir_entry_create (lib/sqfs/src/dir_entry.c): NULL, or a
 * zeroed entry carrying mode, flags and a copy of the name */
static struct {
	sqfs_dir_entry_t e;
	char room[256];
} g_entry;

sqfs_dir_entry_t *sqfs_dir_entry_create(const char *name, sqfs_u16 mode,
					sqfs_u16 flags)
{
	++g_create_calls;
	g_create_name = name;
	if (verif_nd_bool("entry_create.fail"))
		return NULL;
	memset(&g_entry.e, 0, sizeof(g_entry.e));
	g_entry.e.mode = mode;
	g_entry.e.flags = flags;
	return &g_entry.e;
}

int sqfs_istream_open_handle(sqfs_istream_t **out, const char *path,
			     sqfs_file_handle_t fd, sqfs_u32 flags)
{
	(void)path; (void)fd; (void)flags;
	*out = NULL;
	return verif_nd_int("open_handle.ret");
}

/* ---- the iterator under test --------------------------------------------------- */
static unix_dir_iterator_t g_it;

static void setup_iterator(void)
{
	g_errno = verif_nd_int("errno0");
	g_readdir_calls = 0;
	g_fstatat_calls = 0;
	g_closedir_calls = 0;
	g_close_calls = 0;
	g_create_calls = 0;
	g_readlink_calls = 0;
	g_open_calls = 0;
	g_create_name = NULL;
	g_host_ok = false;
	g_readdir_outcome = -1;
	g_rl_buf = NULL;
	g_rl_size = 0;
	g_rl_ret = 0;
	g_rl_room = false;
	g_rl_k = 0;
	g_rl_v = 0;
	g_fdopendir_calls = 0;

	memset(&g_it, 0, sizeof(g_it));
	sqfs_object_init(&g_it, dir_destroy, NULL);
	g_it.base.next = dir_next;
	g_it.base.read_link = dir_read_link;
	g_it.base.open_subdir = dir_open_subdir;
	g_it.base.ignore_subdir = dir_ignore_subdir;
	g_it.base.open_file_ro = dir_open_file_ro;
	g_it.base.read_xattr = dir_read_xattr;
	g_it.dir = THE_DIR;
	g_it.device = verif_nd_u64("it.device");
	g_it.state = verif_nd_int("it.state");
	/* whatever the previous call left behind */
	g_it.ent = verif_nd_bool("it.has_ent") ? &g_dirent : NULL;
	nd_stat(&g_it.sb);
}

#if MODE == 0
void harness(void)
{
	sqfs_dir_entry_t *out = (sqfs_dir_entry_t *)&g_dirobj; /* garbage */
	int state0, ret;
	dev_t device0;

	setup_iterator();
	state0 = g_it.state;
	device0 = g_it.device;

	ret = dir_next(&g_it.base, &out);

	VERIF_ASSERT(g_it.dir == THE_DIR && g_it.device == device0 &&
		     g_closedir_calls == 0 && g_readlink_calls == 0 &&
		     g_open_calls == 0, "C11.unix.next.frame");
	VERIF_ASSERT(ret == g_it.state, "C11.unix.next.frame");

	if (state0 != 0) {
		VERIF_ASSERT(ret == state0 && out == NULL && g_it.state == state0 &&
			     g_readdir_calls == 0 && g_fstatat_calls == 0 &&
			     g_create_calls == 0, "C11.unix.next.sticky");
		VERIF_COVER(state0 > 0);
		VERIF_COVER(state0 < 0);
		return;
	}

	VERIF_ASSERT(g_readdir_calls == 1 && g_fstatat_calls <= 1 &&
		     g_create_calls <= 1, "C11.unix.next.one_per_entry");

	if (g_it.ent == NULL) {
		/* readdir said NULL; the contract stub set errno only on error */
		if (g_readdir_outcome == 1) {
			VERIF_ASSERT(ret == 1 && out == NULL && g_fstatat_calls == 0,
				     "C11.unix.next.end");
			VERIF_COVER(1);
		} else {
			VERIF_ASSERT(ret == SQFS_ERROR_IO && out == NULL &&
				     g_fstatat_calls == 0,
				     "C11.unix.next.readdir_error");
			VERIF_COVER(1);
		}
		return;
	}

	VERIF_ASSERT(g_it.ent == &g_dirent && g_fstatat_calls == 1 && g_host_ok,
		     "C11.unix.next.stat_args");

	if (ret == 0) {
		VERIF_ASSERT(out == &g_entry.e && g_create_calls == 1,
			     "C11.unix.next.one_per_entry");
		VERIF_ASSERT(g_create_name == g_dirent.d_name,
			     "C11.unix.next.fields");
		VERIF_ASSERT(out->mode == g_st.st_mode &&
			     out->uid == g_st.st_uid &&
			     out->gid == g_st.st_gid &&
			     out->size == (sqfs_u64)g_st.st_size &&
			     out->mtime == g_st.st_mtim.tv_sec &&
			     out->dev == g_st.st_dev &&
			     out->rdev == g_st.st_rdev &&
			     out->inode == g_st.st_ino,
			     "C11.unix.next.fields");
		VERIF_ASSERT(out->flags == (g_st.st_dev != device0 ?
					    SQFS_DIR_ENTRY_FLAG_MOUNT_POINT : 0),
			     "C11.unix.next.mount_flag");
		VERIF_ASSERT(g_it.state == 0, "C11.unix.next.frame");
		/* the stat buffer kept for read_link is the one just read */
		VERIF_ASSERT(g_it.sb.st_size == g_st.st_size,
			     "C11.unix.next.fields");
		VERIF_COVER(g_st.st_dev != device0);
		VERIF_COVER(g_st.st_dev == device0);
		VERIF_COVER(g_dirent.d_name[0] == '.' && g_dirent.d_name[1] == '\0');
		VERIF_COVER(g_dirent.d_name[255] == '\0');
		VERIF_COVER(g_st.st_ino > 0xffffffffULL && g_st.st_uid == 0xffffffffU);
		return;
	}

	VERIF_ASSERT(out == NULL && ret < 0, "C11.unix.next.fail_null");
	if (g_create_calls == 0) {
		VERIF_ASSERT(ret == SQFS_ERROR_IO, "C11.unix.next.stat_error");
		VERIF_COVER(1);
	} else {
		VERIF_ASSERT(ret == SQFS_ERROR_ALLOC, "C11.unix.next.alloc_error");
		VERIF_COVER(1);
	}
}
#endif

#if MODE == 1
void harness(void)
{
	char *out = &g_dirobj[0];
	int state0, ret;
	bool had_ent;

	setup_iterator();
	state0 = g_it.state;
	had_ent = g_it.ent != NULL;

	ret = dir_read_link(&g_it.base, &out);

	VERIF_ASSERT(g_it.state == state0 && g_it.dir == THE_DIR &&
		     g_readdir_calls == 0 && g_fstatat_calls == 0 &&
		     g_closedir_calls == 0, "C11.unix.read_link.frame");

	if (state0 < 0) {
		VERIF_ASSERT(ret == state0 && out == NULL && g_readlink_calls == 0,
			     "C11.unix.read_link.state");
		VERIF_COVER(1);
		return;
	}
	if (state0 > 0 || !had_ent) {
		VERIF_ASSERT(ret == SQFS_ERROR_NO_ENTRY && out == NULL &&
			     g_readlink_calls == 0, "C11.unix.read_link.state");
		VERIF_COVER(1);
		return;
	}
	if (g_readlink_calls == 0) {
		/* only an allocation failure may stop it before the host call */
		VERIF_ASSERT(ret == SQFS_ERROR_ALLOC && out == NULL,
			     "C11.unix.read_link.alloc_error");
		VERIF_COVER(1);
		return;
	}
	VERIF_ASSERT(g_readlink_calls == 1 &&
		     g_rl_size == (size_t)g_it.sb.st_size && g_rl_room,
		     "C11.unix.read_link.args");
	if (g_rl_ret < 0) {
		VERIF_ASSERT(ret == SQFS_ERROR_IO && out == NULL,
			     "C11.unix.read_link.fail_clean");
		VERIF_COVER(1);
		return;
	}
	VERIF_ASSERT(ret == 0 && out == g_rl_buf && out[g_rl_ret] == '\0',
		     "C11.unix.read_link.result");
	/* every byte the host wrote is still there (witness byte) */
	VERIF_ASSERT(g_rl_ret == 0 || ((unsigned char *)out)[g_rl_k] == g_rl_v,
		     "C11.unix.read_link.result");
	VERIF_COVER(g_rl_ret == 0);
	VERIF_COVER(g_rl_ret > 0 && (size_t)g_rl_ret == g_rl_size);
	VERIF_COVER(g_rl_size > 4096);
	free(out);
}
#endif

#if MODE == 2
#ifndef VARIANT
#define VARIANT 0
#endif
void harness(void)
{
	sqfs_dir_iterator_t *out = &g_it.base;
	unix_dir_iterator_t *n;
	int state0, ret;
	bool had_ent;

	setup_iterator();
	state0 = g_it.state;
	had_ent = g_it.ent != NULL;
	(void)state0; (void)had_ent;

#if VARIANT == 0
	out = NULL;	/* both callers clear *out first */
	ret = create_iterator(&out, NEW_DIR);
#elif VARIANT == 1
	{
		sqfs_u32 flags = verif_nd_u32("native.flags");
		sqfs_u32 known = SQFS_FILE_OPEN_NO_CHARSET_XFRM;

		ret = sqfs_dir_iterator_create_native(&out, "x", flags);
		if ((flags & ~known) != 0) {
			VERIF_ASSERT(ret == SQFS_ERROR_UNSUPPORTED && out == NULL &&
				     g_open_calls == 0,
				     "C11.unix.create.native_flags");
			VERIF_COVER(1);
			return;
		}
		VERIF_ASSERT(g_open_calls == 1, "C11.unix.create.native_flags");
		if (ret == SQFS_ERROR_IO && g_closedir_calls == 0) {
			/* opendir itself failed (a failing fstat closes the DIR:
			 * told apart by the closedir count) */
			VERIF_ASSERT(out == NULL, "C11.unix.create.fail_closes");
			VERIF_COVER(1);
			return;
		}
	}
#else
	ret = dir_open_subdir(&g_it.base, &out);
	VERIF_ASSERT(g_it.state == state0 && g_readdir_calls == 0,
		     "C11.unix.open_subdir.frame");
	if (state0 < 0) {
		VERIF_ASSERT(ret == state0 && out == NULL && g_open_calls == 0,
			     "C11.unix.open_subdir.state");
		VERIF_COVER(1);
		return;
	}
	if (state0 > 0 || !had_ent) {
		VERIF_ASSERT(ret == SQFS_ERROR_NO_ENTRY && out == NULL &&
			     g_open_calls == 0, "C11.unix.open_subdir.state");
		VERIF_COVER(1);
		return;
	}
	VERIF_ASSERT(g_open_calls == 1, "C11.unix.open_subdir.result");
	if (ret != 0 && g_closedir_calls == 0) {
		/* openat or fdopendir failed: a descriptor that was obtained
		 * is closed again, exactly once */
		VERIF_ASSERT((ret == SQFS_ERROR_IO || ret == SQFS_ERROR_NOT_DIR) &&
			     out == NULL && g_close_calls == (g_fdopendir_calls ? 1 : 0),
			     "C11.unix.open_subdir.result");
		VERIF_COVER(g_close_calls == 1);
		VERIF_COVER(ret == SQFS_ERROR_NOT_DIR);
		return;
	}
	VERIF_ASSERT(g_close_calls == 0, "C11.unix.open_subdir.result");
#endif

	if (ret != 0) {
		VERIF_ASSERT((ret == SQFS_ERROR_ALLOC || ret == SQFS_ERROR_IO) &&
			     out == NULL && g_closedir_calls == 1,
			     "C11.unix.create.fail_closes");
		VERIF_COVER(ret == SQFS_ERROR_ALLOC);
		VERIF_COVER(ret == SQFS_ERROR_IO);
		return;
	}
	n = (unix_dir_iterator_t *)out;
	VERIF_ASSERT(out != NULL && out != &g_it.base && g_closedir_calls == 0,
		     "C11.unix.create.init");
	VERIF_ASSERT(n->state == 0 && n->ent == NULL && n->dir == NEW_DIR &&
		     n->device == g_st.st_dev, "C11.unix.create.init");
	VERIF_ASSERT(n->base.obj.refcount == 1 &&
		     n->base.obj.destroy == dir_destroy &&
		     n->base.obj.copy == NULL &&
		     n->base.next == dir_next &&
		     n->base.read_link == dir_read_link &&
		     n->base.open_subdir == dir_open_subdir &&
		     n->base.ignore_subdir == dir_ignore_subdir &&
		     n->base.open_file_ro == dir_open_file_ro &&
		     n->base.read_xattr == dir_read_xattr,
		     "C11.unix.create.init");
	VERIF_COVER(1);
	/* the object is released through its own hook, closing the DIR once */
	sqfs_drop(out);
	VERIF_ASSERT(g_closedir_calls == 1, "C11.unix.create.destroy_closes");
}
#endif
