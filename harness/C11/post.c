/* C11 (bounded shapes): the real fstree_post_process / alloc_inode_num_dfs /
 * map_inodes_dfs / file_list_dfs (lib/fstree/src/post_process.c) on concrete
 * tree shapes of up to 7 nodes (SHAPE), ids / times / names / stale inode
 * numbers symbolic (type and permission bits concrete, see below), node
 * objects deliberately NOT laid out in tree order (the table below maps tree
 * positions to objects in a scrambled way, so an ordering that peeked at
 * addresses or at stale inode numbers would show).
 *
 *   C11.post.function_of_tree  inode numbers, the inode table and the file
 *       list are what the spec traversal of the sorted tree gives:
 *       - a directory's entries get consecutive numbers in list (= name)
 *         order, after everything inside its sub-directories, root last;
 *       - inodes[i] is the node with number i+1, unique_inode_count = nodes;
 *       - fs->files lists the regular files in depth-first list order
 *   C11.post.frame   names, links, modes, ids, times are not touched
 *
 * Shapes (D dir, F file, L symlink), children in list order:
 *   0  R{F F}            1  R{D{F F} F}         2  R{F D{F} D{F} F}
 *   3  R{D{D{F}} L}      4  R{D{} F D{L F}}
 * Hard links are resolved before numbering (C07) and get no number; shapes
 * with hard links are C03.post.dense's subject.
 */
#include <string.h>
#include <stdlib.h>
#include "C11/fnode.h"

#ifndef SHAPE
#define SHAPE 1
#endif

/* tree position -> (parent position, kind); position 0 is the root */
#define D S_IFDIR
#define F S_IFREG
#define L S_IFLNK
#if SHAPE == 0
#define NN 3
static const int par[NN] = { -1, 0, 0 };
static const sqfs_u16 kind[NN] = { D, F, F };
#elif SHAPE == 1
#define NN 5
static const int par[NN] = { -1, 0, 1, 1, 0 };
static const sqfs_u16 kind[NN] = { D, D, F, F, F };
#elif SHAPE == 2
#define NN 7
static const int par[NN] = { -1, 0, 0, 2, 0, 4, 0 };
static const sqfs_u16 kind[NN] = { D, F, D, F, D, F, F };
#elif SHAPE == 3
#define NN 5
static const int par[NN] = { -1, 0, 1, 2, 0 };
static const sqfs_u16 kind[NN] = { D, D, D, F, L };
#elif SHAPE == 4
#define NN 6
static const int par[NN] = { -1, 0, 0, 0, 3, 3 };
static const sqfs_u16 kind[NN] = { D, D, F, D, L, F };
#else
#error "unknown SHAPE"
#endif
/* scrambled placement: position p lives in object obj[p] */
static const int obj[8] = { 3, 6, 0, 5, 1, 7, 2, 4 };
#define P(p) TNODE(obj[p])

#ifdef VERIF_REPLAY
#define calloc c11_calloc
#define fputs c11_fputs
#define perror c11_perror
#endif

static tree_node_t *g_table[NN];
static bool g_table_live, g_calloc_failed;
static unsigned g_msgs;

void *calloc(size_t n, size_t sz)
{
	size_t i;

	/* post_process passes (element size, count) */
	VERIF_ASSERT(n == sizeof(tree_node_t *) && sz == NN && !g_table_live,
		     "C11.env.calloc_pre");
	/* failure is a concrete case (-DCALLOC_FAILS): a nondeterministic
	 * NULL makes fs->inodes an if-then-else pointer */
#ifdef CALLOC_FAILS
	g_calloc_failed = true;
	return NULL;
#endif
	for (i = 0; i < NN; ++i)
		g_table[i] = NULL;
	g_table_live = true;
	return g_table;
}

int fputs(const char *s, FILE *fp) { (void)s; (void)fp; ++g_msgs; return 0; }
void perror(const char *s) { (void)s; ++g_msgs; }

int fstree_resolve_hard_links(fstree_t *fs)
{
	/* no hard links in these shapes: nothing to resolve (C07 owns it) */
	VERIF_ASSERT(fs->links_unresolved == NULL, "C11.post.pre");
	return 0;
}

#include "lib/fstree/src/post_process.c"

/* ---- spec traversal --------------------------------------------------- */
static unsigned want_num[NN];
static int want_files[NN];
static unsigned n_files, counter;

static void spec_number(int d)
{
	int c;

	for (c = 0; c < NN; ++c) {
		if (par[c] == d && kind[c] == D)
			spec_number(c);
	}
	for (c = 0; c < NN; ++c) {
		if (par[c] == d)
			want_num[c] = ++counter;
	}
}

static void spec_files(int d)
{
	int c;

	for (c = 0; c < NN; ++c) {
		if (par[c] != d)
			continue;
		if (kind[c] == F)
			want_files[n_files++] = c;
		else if (kind[c] == D)
			spec_files(c);
	}
}

void harness(void)
{
	static fstree_t fs;
	tree_node_t old[NN], *it;
	int p, q, ret;
	unsigned i;

	/* What the walk branches on must be syntactically concrete for symex
	 * (DESIGN 2.4 "shape concrete"): the type bits AND the permission bits
	 * of the mode (cbmc does not fold S_ISDIR over symbolic low bits), the
	 * child pointers (the union is assigned as a whole - a member-wise
	 * write leaves an unsimplified byte_update and the recursion explodes;
	 * found by the C03 harness), the stale next_by_type links. Everything
	 * else stays symbolic. */
	for (p = 0; p < NN; ++p) {
		fnode_init(obj[p], kind[p]);
		P(p)->mode = kind[p] | 0644;
		P(p)->data = (__typeof__(P(p)->data)){ .children = NULL };
	}
	for (p = 0; p < NN; ++p) {
		tree_node_t *last = NULL;

		P(p)->parent = par[p] >= 0 ? P(par[p]) : NULL;
		/* stale links from an earlier use must not matter */
		P(p)->next_by_type = (p % 2) ? P(0) : NULL;
		for (q = p + 1; q < NN && kind[p] == D; ++q) {
			if (par[q] != p)
				continue;
			if (last == NULL)
				P(p)->data = (__typeof__(P(p)->data)){ .children = P(q) };
			else
				last->next = P(q);
			last = P(q);
		}
	}
	fs.root = P(0);
	fs.unique_inode_count = verif_nd_size("stale_count");
	for (p = 0; p < NN; ++p)
		old[p] = *P(p);

	spec_number(0);
	want_num[0] = ++counter;
	spec_files(0);

	ret = fstree_post_process(&fs);

#ifdef CALLOC_FAILS
	VERIF_COVER(ret != 0);
#else
	VERIF_COVER(ret == 0);
#endif
	if (ret != 0) {
		VERIF_ASSERT(g_calloc_failed && g_msgs > 0, "C11.post.fail_only_oom");
		return;
	}

	VERIF_ASSERT(fs.unique_inode_count == NN && fs.inodes == g_table,
		     "C11.post.function_of_tree");
	for (p = 0; p < NN; ++p) {
		VERIF_ASSERT(P(p)->inode_num == want_num[p],
			     "C11.post.function_of_tree");
		VERIF_ASSERT(want_num[p] >= 1 && want_num[p] <= NN &&
			     g_table[want_num[p] - 1] == P(p),
			     "C11.post.function_of_tree");
	}
	it = fs.files;
	for (i = 0; i < n_files; ++i) {
		VERIF_ASSERT(it == P(want_files[i]), "C11.post.function_of_tree");
		if (it == NULL)
			break;
		it = it->next_by_type;
	}
	VERIF_ASSERT(it == NULL, "C11.post.function_of_tree");

	for (p = 0; p < NN; ++p) {
		tree_node_t *n = P(p);

		VERIF_ASSERT(n->name == old[p].name && n->next == old[p].next &&
			     n->parent == old[p].parent && n->uid == old[p].uid &&
			     n->gid == old[p].gid && n->mode == old[p].mode &&
			     n->mod_time == old[p].mod_time &&
			     n->link_count == old[p].link_count &&
			     n->flags == old[p].flags &&
			     n->xattr_idx == old[p].xattr_idx &&
			     (kind[p] != D ||
			      n->data.children == old[p].data.children),
			     "C11.post.frame");
	}
}
