/* C11 (w11): the recursive directory iterator, lib/sqfs/src/io/dir_rec.c - real
 * next / pop / expand_path / ignore_subdir / destroy /
 * sqfs_dir_iterator_create_recursive. The wrapped single-directory iterators
 * are contracts: at every call any entry, end of directory, or any error.
 *
 * What C11 needs: the iterator adds NO order of its own. It is a depth-first
 * stack machine whose output sequence is determined by the sequences of the
 * wrapped iterators alone: it reads only the directory on top of the stack,
 * yields what it reads immediately (no look-ahead, no buffering) under the
 * name <names on the stack joined by '/'> '/' <entry name>, enters a
 * sub-directory exactly once and directly after yielding it, and drops
 * exactly the pending sub-directory on ignore_subdir.
 *
 * Shape concrete (HOWTO): DEPTH frames on the stack (bottom one is the root
 * frame with the empty name), HAS_NEXT = a sub-directory is pending from the
 * previous call. Symbolic: frame names (<= NLEN bytes), entry names (<= ELEN
 * bytes, "." and ".." included), modes, all attributes, every outcome of the
 * wrapped iterators / realloc / alloc_flex / open_subdir.
 *
 * MODE 0  next
 *   C11.rec.next.sticky         state != 0: returns it, *out NULL, nothing touched
 *   C11.rec.next.enters_pending a pending sub-directory becomes the top before anything is read
 *   C11.rec.next.reads_top_only (in the contract of the wrapped next) only the iterator on top is read
 *   C11.rec.next.pop_once       a directory that reported its end is released exactly once and never read again
 *   C11.rec.next.end            stack exhausted: returns > 0, sticky, *out NULL
 *   C11.rec.next.error          a wrapped error is returned unchanged, sticky, *out NULL
 *   C11.rec.next.zero_iff_entry returns 0 exactly when *out is an entry; any other return is sticky
 *   C11.rec.next.skips_dots     "." and ".." are never yielded, every other entry is (the first one read)
 *   C11.rec.next.no_lookahead   entries read = dot entries skipped + the one yielded
 *   C11.rec.next.name           yielded name = stack path '/' entry name; attributes untouched
 *   C11.rec.next.subdir_pending directory yielded: open_subdir once on the top, pending frame = (entry name, that iterator);
 *                               anything else: nothing pending, open_subdir not called
 *   C11.rec.next.open_error     open_subdir fails: its error, sticky, *out NULL
 *   C11.rec.next.alloc_error    realloc / alloc_flex fail: SQFS_ERROR_ALLOC, sticky, *out NULL, the opened sub-directory released
 *   C11.rec.next.no_leak        (cbmc memory-leak check after destroy) nothing allocated survives; every wrapped
 *                               iterator still referenced is released exactly once by destroy
 * MODE 1  ignore_subdir
 *   C11.rec.ignore.drops_pending  exactly the pending frame is released (once), the stack is untouched
 * MODE 2  sqfs_dir_iterator_create_recursive
 *   C11.rec.create.init / .fail_clean
 */
#include <stdlib.h>
#include <string.h>
#include "verif.h"

#ifndef MODE
#define MODE 0
#endif
#ifndef DEPTH
#define DEPTH 1
#endif
#ifndef HAS_NEXT
#define HAS_NEXT 0
#endif
/* string lengths are shape (HOWTO): concrete per case, bytes symbolic */
#ifndef FLEN
#define FLEN 2			/* length of every non-root frame name */
#endif
#ifndef ELEN
#define ELEN 2			/* length of the entry names delivered (1: "." possible, 2: ".." possible) */
#endif
#define NLEN (FLEN > ELEN ? FLEN : ELEN)	/* room of a frame name: a pushed frame carries an entry name */
#ifndef ROOT_NAMED
#define ROOT_NAMED 0	/* 1: the bottom frame carries a name too (cheapest shape with a non-empty stack path) */
#endif
#define NFRAMES (DEPTH + 1)	/* frames that can exist: stack + pending */
#define MAXPATH (NFRAMES * (NLEN + 1) + ELEN + 1)
#ifndef MAXDOTS
#define MAXDOTS 1
#endif
/* reads of wrapped iterators in one call: one "end" per frame, the dot
 * entries, the entry yielded (or the error) */
#define MAXCALLS (DEPTH + HAS_NEXT + MAXDOTS + 1)

#ifdef VERIF_REPLAY
#define realloc w11_realloc
void *w11_realloc(void *p, size_t n);
#endif

#include "lib/sqfs/src/io/dir_rec.c"

/* C library string functions on the few short strings of this harness: plain
 * byte loops with the standard semantics (cbmc's built-in models go through
 * whole-object array copies, which cost two orders of magnitude here) */
#ifndef VERIF_REPLAY
size_t strlen(const char *s)
{
	size_t n = 0;

	while (s[n] != '\0')
		++n;
	return n;
}

int strcmp(const char *a, const char *b)
{
	size_t i = 0;

	while (a[i] != '\0' && a[i] == b[i])
		++i;
	return (int)*(const unsigned char *)&a[i] - (int)*(const unsigned char *)&b[i];
}

char *strcpy(char *dst, const char *src)
{
	size_t i = 0;

	do {
		dst[i] = src[i];
	} while (src[i++] != '\0');
	return dst;
}

char *strrchr(const char *s, int c)
{
	const char *last = NULL;
	size_t i = 0;

	do {
		if (s[i] == (char)c)
			last = s + i;
	} while (s[i++] != '\0');
	return (char *)last;
}

void *memcpy(void *dst, const void *src, size_t n)
{
	size_t i;

	for (i = 0; i < n; ++i)
		((char *)dst)[i] = ((const char *)src)[i];
	return dst;
}

void *memmove(void *dst, const void *src, size_t n)
{
	char tmp[MAXPATH + 1];
	size_t i;

	VERIF_ASSERT(n <= sizeof(tmp), "C11.rec.env.memmove_pre");
	for (i = 0; i < n; ++i)
		tmp[i] = ((const char *)src)[i];
	for (i = 0; i < n; ++i)
		((char *)dst)[i] = tmp[i];
	return dst;
}
#endif

/* ---- typed objects --------------------------------------------------------- */
struct frame {
	dir_stack_t s;
	char room[NLEN + 1];
};
struct dent {
	sqfs_dir_entry_t e;
	char room[ELEN + 1];
};
struct bigdent {
	sqfs_dir_entry_t e;
	char room[MAXPATH];
};
struct sub {
	sqfs_dir_iterator_t base;
	int id;
};

#define NSUB (NFRAMES + 1)	/* + the one open_subdir may hand out */
static struct sub g_sub[NSUB];
static int g_released[NSUB];	/* destroy hook runs */
static int g_ended[NSUB];	/* reported end of directory */
static int g_next_calls, g_open_calls, g_entries, g_dots;
static int g_first_read;	/* id of the iterator read first */
static int g_err;		/* error injected by a wrapped call */
static int g_open_on;		/* id open_subdir was called on */
static bool g_open_ok;		/* open_subdir handed out g_sub[NSUB-1] */
static bool g_realloc_failed, g_flex_failed, g_flex_called;
static struct dent *g_last;	/* last entry delivered */
static sqfs_dir_entry_t g_last_copy;
static char g_last_name[ELEN + 1];
static dir_tree_iterator_t *g_it;

static int sub_id(const sqfs_dir_iterator_t *it)
{
	return ((const struct sub *)it)->id;
}

static bool is_dot(const char *n)
{
	return (n[0] == '.' && n[1] == '\0') ||
	       (n[0] == '.' && n[1] == '.' && n[2] == '\0');
}

/* contract of a wrapped iterator's next: any entry | end | any error */
static int stub_next(sqfs_dir_iterator_t *it, sqfs_dir_entry_t **out)
{
	int id = sub_id(it), r;
	struct dent *d;
	size_t len, k;

	VERIF_ASSERT(g_it->top != NULL && it == g_it->top->dir,
		     "C11.rec.next.reads_top_only");
	VERIF_ASSERT(!g_released[id] && !g_ended[id], "C11.rec.next.pop_once");
	/* an entry read earlier in this call must have been a dot entry */
	VERIF_ASSERT(g_last == NULL || is_dot(g_last_name),
		     "C11.rec.next.skips_dots");
	if (g_next_calls == 0)
		g_first_read = id;
	++g_next_calls;
	VERIF_ASSUME(g_next_calls <= MAXCALLS);	/* bound of the harness */

	r = verif_nd_int("sub.next.ret");
	if (r < 0) {
		g_err = r;
		*out = NULL;
		return r;
	}
	if (r > 0) {
		g_ended[id] = 1;
		*out = NULL;
		return r;
	}
	d = malloc(sizeof(*d));
	VERIF_ASSUME(d != NULL);
	d->e.size = verif_nd_u64("ent.size");
	d->e.mtime = verif_nd_i64("ent.mtime");
	d->e.dev = verif_nd_u64("ent.dev");
	d->e.rdev = verif_nd_u64("ent.rdev");
	d->e.inode = verif_nd_u64("ent.inode");
	d->e.uid = verif_nd_u64("ent.uid");
	d->e.gid = verif_nd_u64("ent.gid");
	d->e.mode = verif_nd_u16("ent.mode");
	d->e.flags = verif_nd_u16("ent.flags");
	/* a name of ELEN bytes without '/' (single directory level) */
	len = ELEN;
	for (k = 0; k <= ELEN; ++k) {
		unsigned char c = verif_nd_u8("ent.name");

		if (k >= len)
			c = 0;
		else
			VERIF_ASSUME(c != 0 && c != '/');
		((unsigned char *)d->e.name)[k] = c;
		((unsigned char *)g_last_name)[k] = c;
	}
	if (is_dot(g_last_name)) {
		++g_dots;
		VERIF_ASSUME(g_dots <= MAXDOTS);
	}
	++g_entries;
	g_last = d;
	g_last_copy = d->e;
	*out = &d->e;
	return 0;
}

static int stub_open_subdir(sqfs_dir_iterator_t *it, sqfs_dir_iterator_t **out)
{
	int r;

	VERIF_ASSERT(g_it->top != NULL && it == g_it->top->dir,
		     "C11.rec.next.reads_top_only");
	g_open_on = sub_id(it);
	++g_open_calls;
	r = verif_nd_int("sub.open.ret");
	VERIF_ASSUME(r <= 0);	/* sqfs/io.h: zero or a negative SQFS_ERROR */
	if (r != 0) {
		g_err = r;
		*out = NULL;
		return r;
	}
	g_open_ok = true;
	g_sub[NSUB - 1].base.obj.refcount = 1;
	*out = &g_sub[NSUB - 1].base;
	return 0;
}

static void stub_destroy(sqfs_object_t *o)
{
	g_released[sub_id((sqfs_dir_iterator_t *)o)] += 1;
}

static int stub_read_link(sqfs_dir_iterator_t *it, char **out)
{
	(void)it; *out = NULL;
	VERIF_ASSERT(0, "C11.rec.src_hook_unused");
	return SQFS_ERROR_NO_ENTRY;
}
static void stub_ignore_subdir(sqfs_dir_iterator_t *it)
{
	(void)it;
	VERIF_ASSERT(0, "C11.rec.src_hook_unused");
}
static int stub_open_file_ro(sqfs_dir_iterator_t *it, sqfs_istream_t **out)
{
	(void)it; *out = NULL;
	VERIF_ASSERT(0, "C11.rec.src_hook_unused");
	return SQFS_ERROR_NO_ENTRY;
}
static int stub_read_xattr(sqfs_dir_iterator_t *it, sqfs_xattr_t **out)
{
	(void)it; *out = NULL;
	VERIF_ASSERT(0, "C11.rec.src_hook_unused");
	return SQFS_ERROR_NO_ENTRY;
}

/* contract of realloc as expand_path uses it: NULL (old block untouched) or
 * a block of the requested size carrying the old contents; typed */
#ifdef VERIF_REPLAY
void *w11_realloc(void *p, size_t n)
#else
void *realloc(void *p, size_t n)
#endif
{
	struct bigdent *b;
	size_t k;

	VERIF_ASSERT(g_last != NULL && p == (void *)g_last, "C11.rec.env.realloc_pre");
	VERIF_ASSERT(n <= sizeof(*b) && n >= sizeof(sqfs_dir_entry_t),
		     "C11.rec.env.realloc_pre");
	if (verif_nd_bool("realloc.fail")) {
		g_realloc_failed = true;
		return NULL;
	}
	b = malloc(sizeof(*b));
	VERIF_ASSUME(b != NULL);
	b->e = g_last->e;
	for (k = 0; k <= ELEN; ++k)
		b->e.name[k] = g_last->e.name[k];
	free(p);
	return b;
}

/* contract of alloc_flex (lib/util/src/alloc.c): NULL or zeroed block */
void *alloc_flex(size_t base_size, size_t item_size, size_t nmemb)
{
	struct frame *f;

	VERIF_ASSERT(base_size == sizeof(dir_stack_t) && item_size == 1 &&
		     nmemb == ELEN + 1, "C11.rec.env.alloc_flex_pre");
	g_flex_called = true;
	if (verif_nd_bool("alloc_flex.fail")) {
		g_flex_failed = true;
#if MODE == 0
		VERIF_COVER(1);
#endif
		return NULL;
	}
	f = malloc(sizeof(*f));
	VERIF_ASSUME(f != NULL);
	f->s.next = NULL;
	f->s.dir = NULL;
	{
		size_t k;
		for (k = 0; k <= NLEN; ++k)
			f->s.name[k] = '\0';
	}
	return f;
}

/* ---- initial state ------------------------------------------------------------ */
static char g_fname[NFRAMES][NLEN + 1];	/* frame names, bottom first */

static struct frame *mkframe(int i, struct frame *below)
{
	struct frame *f = malloc(sizeof(*f));
	size_t k, len;

	VERIF_ASSUME(f != NULL);
	/* the root frame carries the empty name, the others a component */
	len = (i == 0 && !ROOT_NAMED) ? 0 : FLEN;
	for (k = 0; k <= NLEN; ++k) {
		unsigned char c = verif_nd_u8("frame.name");

		if (k >= len)
			c = 0;
		else
			VERIF_ASSUME(c != 0 && c != '/');
		((unsigned char *)g_fname[i])[k] = c;
		((unsigned char *)f->s.name)[k] = c;
	}
	f->s.next = below ? &below->s : NULL;
	f->s.dir = &g_sub[i].base;
	return f;
}

static void setup(void)
{
	struct frame *f = NULL;
	int i;

	g_next_calls = 0; g_open_calls = 0; g_entries = 0; g_dots = 0;
	g_first_read = -1; g_err = 0; g_open_on = -1; g_open_ok = false;
	g_realloc_failed = false; g_flex_failed = false; g_flex_called = false;
	g_last = NULL;
	for (i = 0; i < NSUB; ++i) {
		g_released[i] = 0;
		g_ended[i] = 0;
		g_sub[i].id = i;
		g_sub[i].base.obj.refcount = 1;
		g_sub[i].base.obj.destroy = stub_destroy;
		g_sub[i].base.obj.copy = NULL;
		g_sub[i].base.next = stub_next;
		g_sub[i].base.read_link = stub_read_link;
		g_sub[i].base.open_subdir = stub_open_subdir;
		g_sub[i].base.ignore_subdir = stub_ignore_subdir;
		g_sub[i].base.open_file_ro = stub_open_file_ro;
		g_sub[i].base.read_xattr = stub_read_xattr;
	}
	g_it = malloc(sizeof(*g_it));
	VERIF_ASSUME(g_it != NULL);
	sqfs_object_init(g_it, destroy, NULL);
	g_it->base.next = next;
	g_it->base.read_link = read_link;
	g_it->base.open_subdir = open_subdir;
	g_it->base.ignore_subdir = ignore_subdir;
	g_it->base.open_file_ro = open_file_ro;
	g_it->base.read_xattr = read_xattr;
	g_it->state = 0;

	for (i = 0; i < DEPTH; ++i)
		f = mkframe(i, f);
	g_it->top = f ? &f->s : NULL;
#if HAS_NEXT
	f = mkframe(DEPTH, NULL);
	/* a pending frame is not linked yet; next does that */
	f->s.next = (dir_stack_t *)&g_sub[0];	/* garbage, must be overwritten */
	g_it->next_top = &f->s;
#else
	g_it->next_top = NULL;
#endif
}

/* specification: the yielded name when `frames' frames are on the stack =
 * their names, bottom first, each followed by '/' (the root frame has the
 * empty name and contributes nothing), then the entry name. All offsets are
 * concrete for a given number of frames. */
static bool spec_name_ok(const char *got, int frames)
{
	size_t n = 0, k;
	bool ok = true;
	int i;

	for (i = ROOT_NAMED ? 0 : 1; i < frames; ++i) {
		for (k = 0; k < FLEN; ++k)
			ok = ok && got[n + k] == g_fname[i][k];
		ok = ok && got[n + FLEN] == '/';
		n += FLEN + 1;
	}
	for (k = 0; k <= ELEN; ++k)
		ok = ok && got[n + k] == g_last_name[k];
	return ok;
}

static void finish(sqfs_dir_entry_t *out)
{
	int i;

	free(out);
	destroy(&g_it->base.obj);
	/* every wrapped iterator that was on the stack / pending at the start,
	 * and the one open_subdir handed out, is released exactly once - by
	 * pop, by the failure path or, at the latest, by destroy */
	for (i = 0; i < DEPTH + HAS_NEXT; ++i) {
		VERIF_ASSERT(g_released[i] == 1, "C11.rec.next.no_leak");
	}
	VERIF_ASSERT(g_released[NSUB - 1] == (g_open_ok ? 1 : 0),
		     "C11.rec.next.no_leak");
}

#if MODE == 0
void harness(void)
{
	sqfs_dir_entry_t *out = (sqfs_dir_entry_t *)&g_sub[0]; /* garbage */
	int state0, ret, frames_now, i;
	dir_stack_t *s;
	size_t k;

	setup();
	state0 = verif_nd_int("it.state");
	g_it->state = state0;

	ret = next(&g_it->base, &out);

	if (state0 != 0) {
		VERIF_ASSERT(ret == state0 && out == NULL && g_it->state == state0 &&
			     g_next_calls == 0 && g_open_calls == 0,
			     "C11.rec.next.sticky");
		VERIF_COVER(1);
		finish(out);
		return;
	}

	VERIF_ASSERT((ret == 0) == (out != NULL) && g_it->state == ret,
		     "C11.rec.next.zero_iff_entry");
	if ((ret == 0) != (out != NULL)) {
		/* already reported; keep the rest of the postcondition from
		 * dereferencing a missing entry */
		finish(out);
		return;
	}
#if HAS_NEXT
	/* the pending directory is entered first: whatever was read first was
	 * read from it (it sits at index DEPTH) */
	VERIF_ASSERT(g_next_calls >= 1 && g_first_read == DEPTH,
		     "C11.rec.next.enters_pending");
#elif DEPTH > 0
	VERIF_ASSERT(g_next_calls >= 1 && g_first_read == DEPTH - 1,
		     "C11.rec.next.enters_pending");
#endif
	/* directories that reported their end are gone, once */
	for (i = 0; i < DEPTH + HAS_NEXT; ++i) {
		VERIF_ASSERT(!g_ended[i] || g_released[i] == 1,
			     "C11.rec.next.pop_once");
		VERIF_ASSERT(g_ended[i] || g_released[i] == 0,
			     "C11.rec.next.pop_once");
	}

	if (ret > 0) {
		VERIF_ASSERT(g_it->top == NULL && g_it->next_top == NULL &&
			     g_err == 0 && (g_last == NULL || is_dot(g_last_name)),
			     "C11.rec.next.end");
		for (i = 0; i < DEPTH + HAS_NEXT; ++i)
			VERIF_ASSERT(g_ended[i], "C11.rec.next.end");
		VERIF_COVER(g_dots > 0);
		VERIF_COVER(g_dots == 0);
		finish(out);
		return;
	}

	if (ret < 0) {
		if (g_err != 0 && g_open_calls) {
			VERIF_ASSERT(ret == g_err, "C11.rec.next.open_error");
		} else if (g_err != 0) {
			VERIF_ASSERT(ret == g_err, "C11.rec.next.error");
		} else {
			VERIF_ASSERT(ret == SQFS_ERROR_ALLOC &&
				     (g_realloc_failed || g_flex_failed),
				     "C11.rec.next.alloc_error");
		}
		VERIF_COVER(g_err != 0 && g_open_calls == 0);
		VERIF_COVER(g_err != 0 && g_open_calls == 1);
		finish(out);
		return;
	}

	/* ---- an entry was yielded ---- */
	/* no failure may be swallowed */
	VERIF_ASSERT(g_err == 0 || g_open_calls, "C11.rec.next.error");
	VERIF_ASSERT(g_err == 0 || !g_open_calls, "C11.rec.next.open_error");
	VERIF_ASSERT(!g_realloc_failed && !g_flex_failed,
		     "C11.rec.next.alloc_error");
	VERIF_ASSERT(g_last != NULL && !is_dot(g_last_name),
		     "C11.rec.next.skips_dots");
	VERIF_ASSERT(g_entries == g_dots + 1, "C11.rec.next.no_lookahead");

	/* the stack as it is now: the frames that have not ended, bottom
	 * first; the yielded entry belongs to the top one */
	frames_now = 0;
	for (i = 0; i < DEPTH + HAS_NEXT; ++i) {
		if (!g_ended[i])
			frames_now = i + 1;
	}
	for (i = 1; i <= DEPTH + HAS_NEXT; ++i) {
		if (frames_now == i)
			VERIF_ASSERT(spec_name_ok(out->name, i), "C11.rec.next.name");
	}
	VERIF_ASSERT(frames_now >= 1, "C11.rec.next.name");
	VERIF_ASSERT(out->size == g_last_copy.size && out->mtime == g_last_copy.mtime &&
		     out->dev == g_last_copy.dev && out->rdev == g_last_copy.rdev &&
		     out->inode == g_last_copy.inode && out->uid == g_last_copy.uid &&
		     out->gid == g_last_copy.gid && out->mode == g_last_copy.mode &&
		     out->flags == g_last_copy.flags, "C11.rec.next.name");

	/* stack links: top is frame frames_now-1 and chains down to the root */
	i = frames_now;
	for (s = g_it->top; s != NULL && i > 0; s = s->next) {
		--i;
		VERIF_ASSERT(s->dir == &g_sub[i].base, "C11.rec.next.enters_pending");
	}
	VERIF_ASSERT(s == NULL && i == 0, "C11.rec.next.enters_pending");

	if (S_ISDIR(out->mode)) {
		VERIF_ASSERT(g_open_calls == 1 && g_open_on == frames_now - 1 &&
			     g_flex_called && g_it->next_top != NULL &&
			     g_it->next_top->dir == &g_sub[NSUB - 1].base &&
			     g_released[NSUB - 1] == 0,
			     "C11.rec.next.subdir_pending");
		for (k = 0; k <= ELEN; ++k)
			VERIF_ASSERT(g_it->next_top->name[k] == g_last_name[k],
				     "C11.rec.next.subdir_pending");
		VERIF_COVER(frames_now == DEPTH + HAS_NEXT);
	} else {
		VERIF_ASSERT(g_open_calls == 0 && !g_flex_called &&
			     g_it->next_top == NULL, "C11.rec.next.subdir_pending");
		VERIF_COVER(g_dots == MAXDOTS);
	}
#if DEPTH + HAS_NEXT > 1
	VERIF_COVER(frames_now < DEPTH + HAS_NEXT);
#endif
	finish(out);
}
#endif

#if MODE == 1
void harness(void)
{
	dir_stack_t *top0;
	int i;

	setup();
	top0 = g_it->top;
	ignore_subdir(&g_it->base);
	VERIF_ASSERT(g_it->next_top == NULL && g_it->top == top0 &&
		     g_it->state == 0 && g_next_calls == 0 && g_open_calls == 0,
		     "C11.rec.ignore.drops_pending");
	for (i = 0; i < NSUB; ++i) {
		VERIF_ASSERT(g_released[i] == ((HAS_NEXT && i == DEPTH) ? 1 : 0),
			     "C11.rec.ignore.drops_pending");
	}
	VERIF_COVER(1);
	/* idempotent */
	ignore_subdir(&g_it->base);
	VERIF_ASSERT(g_it->next_top == NULL && g_it->top == top0 &&
		     g_released[DEPTH] == (HAS_NEXT ? 1 : 0),
		     "C11.rec.ignore.drops_pending");
	destroy(&g_it->base.obj);
	for (i = 0; i < DEPTH + HAS_NEXT; ++i)
		VERIF_ASSERT(g_released[i] == 1, "C11.rec.next.no_leak");
}
#endif

#if MODE == 2
void harness(void)
{
	sqfs_dir_iterator_t *out = &g_sub[1].base;
	dir_tree_iterator_t *it;
	sqfs_u32 rc0;
	int ret;

	setup();
	free(g_it);
	g_it = NULL;
	rc0 = verif_nd_u32("base.refcount");
	VERIF_ASSUME(rc0 >= 1 && rc0 < 0xffffffffU);
	g_sub[0].base.obj.refcount = rc0;

	ret = sqfs_dir_iterator_create_recursive(&out, &g_sub[0].base);

	if (ret != 0) {
		VERIF_ASSERT(ret == SQFS_ERROR_ALLOC && out == NULL &&
			     g_sub[0].base.obj.refcount == rc0 && g_released[0] == 0,
			     "C11.rec.create.fail_clean");
		VERIF_COVER(1);
		return;
	}
	it = (dir_tree_iterator_t *)out;
	VERIF_ASSERT(out != NULL && it->state == 0 && it->top == NULL &&
		     it->next_top != NULL && it->next_top->dir == &g_sub[0].base &&
		     it->next_top->name[0] == '\0' &&
		     g_sub[0].base.obj.refcount == rc0 + 1,
		     "C11.rec.create.init");
	VERIF_ASSERT(it->base.obj.refcount == 1 && it->base.obj.destroy == destroy &&
		     it->base.next == next && it->base.read_link == read_link &&
		     it->base.open_subdir == open_subdir &&
		     it->base.ignore_subdir == ignore_subdir &&
		     it->base.open_file_ro == open_file_ro &&
		     it->base.read_xattr == read_xattr, "C11.rec.create.init");
	VERIF_COVER(1);
	/* what sqfs_drop does with the last reference */
	destroy(&out->obj);
	VERIF_ASSERT(g_sub[0].base.obj.refcount == rc0 && g_released[0] == 0,
		     "C11.rec.create.init");
}
#endif
