"""C11 additions by w20: hard link resolution against an independent path
lookup spec (the existing C07 harness stubs the lookup as 'any node')."""
FUNCTIONS = ["fstree_resolve_hard_links (with the real fstree_get_node_by_path / child_by_name)",
             "resolve_link (exact target)"]
TRUSTED = [
    "w20_hl_resolve: fstree_get_path (only used for the failure message) = NULL; fprintf/strerror contracts; "
    "CBMC library models of strchr / strlen / strncmp on strings <= 9 bytes",
]
ASSUMPTIONS = [
    "w20_hl_resolve: ONE concrete tree shape (root{A{f},U{B{g}},K[,K2]}, K optionally below U), <= 8 nodes, <= 2 hard links; "
    "all names (1..NAMELEN bytes, NAMELEN 1 quick / 2 thorough) and the link target strings (1..3 components) are symbolic; "
    "sibling lists are distinct and in strcmp order (C11.insert.sorted_perm); link_count of the six plain nodes < 0xFFFFFFF0 "
    "(the EMLINK refusal is C07.hardlink.count)",
]

def _uw(ts, nlinks, namelen, wide=False):
    tgt = 3 * (namelen + 1)
    # wide: no entry for resolve_link - a change that adds loops to it renumbers
    # them, so the tight bound of loop 0 would hit the wrong loop (reported as
    # 'resolve_link.unwind'); under the global bound (unwind=9) the run costs 4-6x
    return ["fstree_resolve_hard_links.0:%d" % (nlinks + 1)] + \
           ([] if wide else ["resolve_link.0:%d" % (nlinks + 2)]) + [
            "fstree_get_node_by_path.0:%d" % (ts + 1), "fstree_get_node_by_path.1:%d" % (ts + 1),
            "child_by_name.0:5", "strchr.0:%d" % (tgt + 2), "strlen.0:%d" % (tgt + 2),
            "strncmp.0:%d" % (namelen + 2),
            "spec_designates.0:9", "spec_designates.1:9", "spec_designates.2:9", "spec_final.0:%d" % (nlinks + 1),
            "target_sym.0:4", "target_sym.1:4", "link_children.0:4",
            "verif_nd_bytes.0:%d" % (namelen + 1), "name_sym.0:%d" % (namelen + 1),
            "fname_cmp.0:%d" % (namelen + 2)]

def _case(id, ts, nlinks=1, namelen=1, tier="quick", wide=False, **d):
    d = dict(d, TSHAPE=ts, NLINKS=nlinks, NAMELEN=namelen)
    return dict(id=id, defines=d, tier=tier, unwindset=_uw(ts, nlinks, namelen, wide))

def _cases():
    out = []
    for ts in (1, 2, 3):
        out.append(_case("root_t%d" % ts, ts))
        out.append(_case("inU_t%d" % ts, ts, LINK_IN_U=1))
    for ts in (2, 3):
        for o in (0, 1):
            out.append(_case("chain_t%d_o%d" % (ts, o), ts, nlinks=2, ORDER=o, CONCRETE_NAMES=1, K2_CONCRETE=1,
                             tier="thorough"))
            out.append(_case("chainsym_t%d_o%d" % (ts, o), ts, nlinks=2, ORDER=o, CONCRETE_NAMES=1,
                             tier="thorough"))
    for ts in (2, 3):
        out.append(_case("root_t%d_wide" % ts, ts, tier="thorough", wide=True))
        out.append(_case("inU_t%d_wide" % ts, ts, tier="thorough", wide=True, LINK_IN_U=1))
    for ts in (2, 3):
        out.append(_case("root_t%d_len2" % ts, ts, namelen=2, tier="thorough"))
    return out

HARNESSES = [
    dict(name="w20_hl_resolve", file="w20_hl_resolve.c",
         label="bounded(one tree shape <= 8 nodes, <= 2 links, names <= 2 bytes)",
         unwind=9, timeout=900, native=False, solver="cadical",
         cases=_cases()),
]
