PROPERTY = "C11"
LEVEL = "model_checking"
FUNCTIONS = ["insert_sorted", "child_by_name", "mknode", "clamp_timestamp",
             "fstree_add_generic", "fstree_get_node_by_path",
             "fstree_post_process", "alloc_inode_num_dfs", "map_inodes_dfs",
             "file_list_dfs", "reorder_hard_links (no-op on link-free trees)",
             "sqfs_hard_link_filter_create", "next (dir_hl.c)", "read_link (dir_hl.c)",
             "detect_hard_link", "store_hard_link", "compare_inum",
             ]
TRUSTED = [
    "calloc/strdup/free: typed fixed-size objects from run-local pools (mknode: may fail; hl: never fails)",
    "rbtree (lib/util/src/rbtree.c) as a finite map with the tree's own compare hook deciding key equality - the real node layout makes cbmc 6.11 abort (bv_to_array_expr invariant)",
    "source directory iterator of the hard-link filter: delivers the given entries in the stated order, then end-of-directory",
    "fstree_resolve_hard_links in the post_process harness: nothing to resolve (trees without hard links; resolution is C07's)",
    "CBMC library models of strcmp/strncmp/strlen/strchr/strrchr/strcpy/memcpy/memset",
]
ASSUMPTIONS = [
    "bounded: directory lists of <= 5 entries, names of <= 2 bytes (full alphabet), tree shapes of <= 7 nodes, two names per multiply-linked file",
    "order independence is decomposed: (1) insert_sorted yields THE sorted arrangement whatever the arrival order (checked relationally on the mechanism for 2 and 3 entries, all orders), "
    "(2) child_by_name finds a name wherever it sits, (3) create and overwrite paths give a node the same attributes F(ent), (4) numbering and file order are a function of the sorted tree; "
    "the composition of these into 'same image' is an argument, not a checked statement",
    "real readdir, glob.c's use of the iterators, dir_rec.c/dir_unix.c, the -o/-k options and the block processor's placement (C02) are not executed here",
    "post_process: type and permission bits of the modes are concrete per shape (cbmc cannot fold S_ISDIR over symbolic low bits); ids, times, names, stale numbers are symbolic",
    "64 bit uid/gid narrowing in mknode / fstree_add_generic is C01's subject (conversion check disabled in those two harnesses for that reason only)",
    "static scan (manual, not a registered check): lib/fstree/src contains no relational operator on pointers and no use of node addresses as keys",
]
EXPLANATION = ("single-run contracts whose conjunction implies order independence of the tree, plus one relational harness on "
               "insert_sorted and one on the hard-link filter (which fails on this snapshot: recorded finding)")


def _ins0(k):
    return dict(id="one_k%d" % k, defines={"MODE": 0, "K": k, "NAMELEN": 2},
                unwind=k + 4)


def _ins1(k, perm):
    return dict(id="orders_k%d_p%d" % (k, perm),
                defines={"MODE": 1, "K": k, "PERM": perm, "NAMELEN": 2},
                unwind=8)


HARNESSES = [
    dict(name="insert", file="insert.c", label="bounded(list<=4,name<=2)",
         include_dirs=["lib/fstree/src"], timeout=900,
         cases=[dict(_ins0(k), tier="quick") for k in (0, 1, 2, 3)] +
               [dict(_ins0(k), tier="thorough", label="bounded(list<=6,name<=2)") for k in (4, 5)] +
               [dict(_ins1(2, 1), tier="quick")] +
               [dict(_ins1(3, p), tier="quick") for p in (1, 2, 3, 4, 5)]),
    dict(name="child_by_name", file="child_by_name.c",
         label="bounded(list<=2,name<=2)", include_dirs=["lib/fstree/src"],
         timeout=1800, unwind=8,
         cases=[dict(id="k%d_len%d" % (k, n), defines={"K": k, "LEN": n, "NAMELEN": 2},
                     tier="quick" if k <= 2 else "thorough",
                     label="bounded(list<=%d,name<=2)" % (2 if k <= 2 else 3))
                for k in (0, 1, 2, 3) for n in (1, 2)]),
    dict(name="mknode", file="mknode.c", label="bounded(name<=2,extra<=2)",
         include_dirs=["lib/fstree/src"], timeout=900, unwind=8,
         nochecks=["--conversion-check"],
         cases=[dict(id="n%d_x%d" % (n, x), defines={"NLEN": n, "WITH_EXTRA": x, "NAMELEN": 2},
                     tier="quick") for n in (1, 2) for x in (0, 1)]),
    dict(name="add", file="add.c", label="bounded(name<=2)",
         include_dirs=["lib/fstree/src"], timeout=1800, unwind=8,
         nochecks=["--conversion-check"],
         cases=[dict(id="state%d_n%d" % (s, n), defines={"STATE": s, "NLEN": n, "NAMELEN": 2},
                     tier="quick") for s in (0, 1) for n in (1, 2)]),
    dict(name="post", file="post.c", label="bounded(shapes=5,nodes<=7)",
         include_dirs=["lib/fstree/src"], timeout=900, unwind=9,
         cases=[dict(id="shape%d" % s, defines={"SHAPE": s, "NAMELEN": 2}, tier="quick")
                for s in range(0, 5)] +
               [dict(id="shape1_oom", defines={"SHAPE": 1, "NAMELEN": 2, "CALLOC_FAILS": None},
                     tier="quick")]),
    dict(name="hl", file="hl.c", label="bounded(2 names per file,name<=2)",
         include_dirs=["lib/sqfs/src/io"], timeout=1800, unwind=6,
         fp={"next:next": "stub_src_next",
             "read_link:read_link": "stub_src_read_link",
             "open_subdir:open_subdir": "stub_src_open_subdir",
             "ignore_subdir:ignore_subdir": "stub_src_ignore_subdir",
             "open_file_ro:open_file_ro": "stub_src_open_file_ro",
             "read_xattr:read_xattr": "stub_src_read_xattr",
             "key_compare": "compare_inum",
             "destroy": "stub_src_destroy"},
         cases=[dict(id="samekey_n%d" % n, defines={"SAMEKEY": 1, "NLEN": n}, tier="quick")
                for n in (1, 2)] +
               [dict(id="distinct_n%d" % n, defines={"SAMEKEY": 0, "NLEN": n}, tier="quick")
                for n in (1, 2)]),
]
