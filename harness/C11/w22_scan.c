/* C11 / C01 (w22): the per-entry path of the real scan_directory()
 * (bin/gensquashfs/src/glob.c) - the place where what the directory scan stack
 * yields is handed to the tree builder.
 *
 * The iterator is a contract: it delivers NENT entries (concrete per case) and
 * then ends (any positive value) or fails (any negative value). Every entry is
 * arbitrary: all 2^16 modes - so every kind: directory, regular file, symlink,
 * devices, fifo, socket, unknown - all flags (a hard link is flagged AND has
 * type S_IFLNK, which is what the hard-link filter produces), every
 * uid/gid/mtime/rdev/size/dev/inode. Its name is what dir_tree_iterator.c
 * yields for the configuration glob_files() uses: prefix '/' rel when
 * prefix_len > 0, rel otherwise, rel = NLEN non-NUL bytes not starting with
 * '/'. fstree_get_node_by_path (parent lookup) and fstree_add_generic are
 * contracts that record their arguments and return every outcome.
 *
 *   C01.scan.fields          the entry handed to fstree_add_generic is the entry the iterator delivered:
 *                            name (full image path, prefix included), mode, uid, gid, mtime, rdev, size,
 *                            flags, dev, inode - all unchanged
 *   C01.scan.extra           `extra' = the string read through it->read_link for a symlink / hard link
 *                            (read exactly once, only for those); for a regular file the input location
 *                            relative to the pack directory: [file_prefix '/'] rel, i.e. the image path
 *                            minus the prefix (gensquashfs.1: the location "is scanned ... and the contents
 *                            are added to the specified virtual path"); NULL is accepted for a regular file
 *                            only when location and image path coincide (no prefix, no file_prefix: "If
 *                            omitted, the image path is used as a relative path"); NULL for everything else
 *   C11.scan.one_per_entry   every delivered entry whose parent exists in the tree is handed over exactly
 *                            once, before the next entry is read
 *   C11.scan.order_kept      hand-over order = iterator order (the entry handed over is always the object read
 *                            last; nothing is buffered, so the only reordering is fstree's insert_sorted)
 *   C11.scan.parent_lookup   the parent lookup is made on the entry's own name, never creating nodes
 *   C11.scan.skip_orphan     an entry is skipped (silently) iff its parent is not in the tree (gensquashfs.1,
 *                            -type/-nonrecursive: "will not add new directory nodes, but still recurse into a
 *                            directory if a coresponding node already exist"); a skipped directory is
 *                            followed by exactly one ignore_subdir, nothing else ever is
 *   C11.scan.error_stops     an error of next / read_link / fstree_add_generic / an allocation ends the scan:
 *                            -1, no further call to the iterator or the tree
 *   C11.scan.end_success     end of directory: 0, after all NENT entries were resolved
 *   (cbmc memory-leak check) entries, link targets and location strings are released on every path
 */
#include <stdlib.h>
#include <string.h>
#include <stdio.h>
#include <stddef.h>
#include "verif.h"

#include "bin/gensquashfs/src/mkfs.h"

#ifndef NENT
#define NENT 1		/* entries delivered before the end / the error */
#endif
#ifndef NLEN
#define NLEN 2		/* length of the name relative to the scanned directory */
#endif
#ifndef PLEN
#define PLEN 1		/* prefix_len (length of the image path of the glob target) */
#endif
#ifndef FPLEN
#define FPLEN 1		/* length of file_prefix (the glob's location argument), -1: NULL */
#endif
#ifndef TLEN
#define TLEN 2		/* length of link targets */
#endif
#ifndef MAY_FAIL_ALLOC
#define MAY_FAIL_ALLOC 0	/* 1: built with --malloc-may-fail */
#endif
#define FPL (FPLEN > 0 ? FPLEN : 0)
#define OFF (PLEN > 0 ? PLEN + 1 : 0)	/* where rel starts in the name */
#define MAXNAME (OFF + NLEN + 1)
#define MAXLOC (FPL + 1 + NLEN + 1)
/* cover points on the per-entry path exist only when there is an entry */
#if NENT > 0
#define ECOVER(c) VERIF_COVER(c)
#else
#define ECOVER(c) ((void)0)
#endif

#include "bin/gensquashfs/src/glob.c"

/* plain byte loops with the standard semantics (cheaper than cbmc's models
 * on heap objects, w11) */
size_t strlen(const char *s)
{
	size_t n = 0;

	while (s[n] != '\0')
		++n;
	return n;
}

void *memcpy(void *dst, const void *src, size_t n)
{
	size_t i;

	VERIF_ASSERT(VERIF_R_OK(src, n) && VERIF_W_OK(dst, n), "C11.scan.env.memcpy_pre");
	for (i = 0; i < n; ++i)
		((char *)dst)[i] = ((const char *)src)[i];
	return dst;
}

/* ---- ghost state --------------------------------------------------------------- */
static int g_errno;
int *__errno_location(void) { return &g_errno; }

struct dent {
	sqfs_dir_entry_t e;
	char room[MAXNAME];
};

static fstree_t g_fs;
static tree_node_t g_root, g_parent, g_node;
static sqfs_dir_iterator_t g_iter;
static char g_fp[FPL + 1];		/* file_prefix */
static char g_pfx[PLEN + 1];		/* the prefix the names start with */

static int g_calls;			/* calls of next */
static bool g_done;			/* next said end / error */
static int g_src_ret;
static bool g_failed;			/* a callee reported an error */
static bool g_alloc_failed;		/* strdup failed (malloc failures are not observable) */
static int g_delivered, g_added, g_skipped;

static bool g_pending;			/* an entry was delivered and is not settled yet */
static sqfs_dir_entry_t g_e0;		/* as delivered */
static char g_n0[MAXNAME];
static struct dent *g_cur;
static int g_lookups, g_adds, g_ign, g_rl;
static bool g_lookup_ok, g_rl_ok;
static char g_target[TLEN + 1];

static bool needs_location(void)
{
	return S_ISREG(g_e0.mode) && (PLEN > 0 || FPLEN >= 0);
}

/* the delivered entry must have met its fate before anything else happens */
static void settle(void)
{
	if (!g_pending)
		return;
	VERIF_ASSERT(g_lookups == 1, "C11.scan.parent_lookup");
	if (!g_lookup_ok) {
		VERIF_ASSERT(g_adds == 0 && g_rl == 0 && !g_failed, "C11.scan.skip_orphan");
		VERIF_ASSERT(g_ign == (S_ISDIR(g_e0.mode) ? 1 : 0), "C11.scan.skip_orphan");
		++g_skipped;
		ECOVER(S_ISDIR(g_e0.mode));
		ECOVER(!S_ISDIR(g_e0.mode));
	} else {
		VERIF_ASSERT(g_ign == 0, "C11.scan.skip_orphan");
		if (g_adds == 0) {
			/* not handed over: only because something it needed
			 * failed - and then the scan is over */
			VERIF_ASSERT(g_failed || g_alloc_failed ||
				     (MAY_FAIL_ALLOC && needs_location()),
				     "C11.scan.one_per_entry");
			g_failed = true;
		} else {
			VERIF_ASSERT(g_adds == 1, "C11.scan.one_per_entry");
			++g_added;
		}
	}
	g_pending = false;
}

/* ---- the iterator contract -------------------------------------------------------- */
static int stub_next(sqfs_dir_iterator_t *it, sqfs_dir_entry_t **out)
{
	struct dent *d;
	size_t k;
	int r;

	VERIF_ASSERT(it == &g_iter, "C11.scan.env.iter");
	VERIF_ASSERT(!g_done, "C11.scan.error_stops");
	settle();
	VERIF_ASSERT(!g_failed, "C11.scan.error_stops");
	++g_calls;
	if (g_calls > NENT + 1) {
		/* unreachable (asserted above); tells symex so */
		VERIF_ASSUME(0);
	}
	if (g_calls > NENT) {
		r = verif_nd_int("src.end");
		VERIF_ASSUME(r != 0);
		g_done = true;
		g_src_ret = r;
		if (verif_nd_bool("src.end.clears"))
			*out = NULL;
		return r;
	}
	d = malloc(sizeof(*d));
	VERIF_ASSUME(d != NULL);
	d->e.size = verif_nd_u64("ent.size");
	d->e.mtime = verif_nd_i64("ent.mtime");
	d->e.dev = verif_nd_u64("ent.dev");
	d->e.rdev = verif_nd_u64("ent.rdev");
	d->e.inode = verif_nd_u64("ent.inode");
	d->e.uid = verif_nd_u64("ent.uid");
	d->e.gid = verif_nd_u64("ent.gid");
	d->e.mode = verif_nd_u16("ent.mode");
	d->e.flags = verif_nd_u16("ent.flags");
	/* what the hard-link filter (dir_hl.c) makes of a second name: a link
	 * (S_IFLNK | 0777; dir_tree_iterator.c then rewrites the permission
	 * bits, so those are arbitrary here) */
	VERIF_ASSUME(!(d->e.flags & SQFS_DIR_ENTRY_FLAG_HARD_LINK) ||
		     S_ISLNK(d->e.mode));
	for (k = 0; k < MAXNAME; ++k) {
		unsigned char c;

		if (k + 1 == MAXNAME) {
			c = 0;
		} else if (k < PLEN) {
			c = ((const unsigned char *)g_pfx)[k];
		} else if (PLEN > 0 && k == PLEN) {
			c = '/';
		} else {
			c = verif_nd_u8("ent.name");
			VERIF_ASSUME(c != 0);
			if (k == OFF)
				VERIF_ASSUME(c != '/');
		}
		((unsigned char *)d->e.name)[k] = c;
		((unsigned char *)g_n0)[k] = c;
	}
	g_e0 = d->e;
	g_cur = d;
	g_pending = true;
	g_lookups = 0; g_adds = 0; g_ign = 0; g_rl = 0;
	g_lookup_ok = false; g_rl_ok = false;
	++g_delivered;
	*out = &d->e;
	return 0;
}

static void stub_ignore_subdir(sqfs_dir_iterator_t *it)
{
	VERIF_ASSERT(it == &g_iter, "C11.scan.env.iter");
	VERIF_ASSERT(g_pending && !g_done && !g_failed, "C11.scan.skip_orphan");
	++g_ign;
}

static int stub_read_link(sqfs_dir_iterator_t *it, char **out)
{
	size_t k;
	char *p;
	int r;

	VERIF_ASSERT(it == &g_iter, "C11.scan.env.iter");
	VERIF_ASSERT(g_pending && !g_done && !g_failed && g_lookup_ok &&
		     S_ISLNK(g_e0.mode) && g_rl == 0, "C01.scan.extra");
	++g_rl;
	r = verif_nd_int("read_link.ret");
	VERIF_ASSUME(r <= 0);
	if (r != 0) {
		g_failed = true;
		if (verif_nd_bool("read_link.clears"))
			*out = NULL;
		return r;
	}
	p = malloc(TLEN + 1);
	VERIF_ASSUME(p != NULL);
	for (k = 0; k < TLEN; ++k) {
		unsigned char c = verif_nd_u8("target");

		VERIF_ASSUME(c != 0);
		((unsigned char *)p)[k] = c;
		((unsigned char *)g_target)[k] = c;
	}
	p[TLEN] = '\0';
	g_target[TLEN] = '\0';
	g_rl_ok = true;
	*out = p;
	return 0;
}

/* ---- the tree contracts ------------------------------------------------------------- */
tree_node_t *fstree_get_node_by_path(fstree_t *fs, tree_node_t *root,
				     const char *path, bool create_implicitly,
				     bool stop_at_parent)
{
	VERIF_ASSERT(g_pending && !g_done && !g_failed && g_lookups == 0 &&
		     fs == &g_fs && root == &g_root &&
		     path == g_cur->e.name && !create_implicitly && stop_at_parent,
		     "C11.scan.parent_lookup");
	++g_lookups;
	if (verif_nd_bool("lookup.fail")) {
		g_errno = verif_nd_int("lookup.errno");
		return NULL;
	}
	g_lookup_ok = true;
	return verif_nd_bool("lookup.root") ? &g_root : &g_parent;
}

tree_node_t *fstree_add_generic(fstree_t *fs, const sqfs_dir_entry_t *ent,
				const char *extra)
{
	size_t k;

	VERIF_ASSERT(fs == &g_fs && ent != NULL, "C11.scan.env.add_pre");
	VERIF_ASSERT(!g_done && !g_failed, "C11.scan.error_stops");
	VERIF_ASSERT(g_pending && g_lookup_ok && g_adds == 0, "C11.scan.one_per_entry");
	/* it is the entry read last - the very object the iterator delivered, not
	 * one that was held back - and all earlier ones are settled */
	VERIF_ASSERT(g_cur != NULL && ent == &g_cur->e, "C11.scan.order_kept");
	VERIF_ASSERT(g_delivered == g_added + g_skipped + 1, "C11.scan.order_kept");
	++g_adds;

	VERIF_ASSERT(VERIF_R_OK(ent, sizeof(*ent) + MAXNAME), "C01.scan.fields");
	VERIF_ASSERT(ent->mode == g_e0.mode && ent->flags == g_e0.flags, "C01.scan.fields");
	VERIF_ASSERT(ent->uid == g_e0.uid && ent->gid == g_e0.gid, "C01.scan.fields");
	VERIF_ASSERT(ent->mtime == g_e0.mtime && ent->size == g_e0.size &&
		     ent->rdev == g_e0.rdev, "C01.scan.fields");
	VERIF_ASSERT(ent->dev == g_e0.dev && ent->inode == g_e0.inode, "C01.scan.fields");
	for (k = 0; k < MAXNAME; ++k)
		VERIF_ASSERT(ent->name[k] == g_n0[k], "C01.scan.fields");

	if (S_ISLNK(g_e0.mode)) {
		VERIF_ASSERT(g_rl == 1 && g_rl_ok && extra != NULL, "C01.scan.extra");
		if (extra != NULL) {
			VERIF_ASSERT(VERIF_R_OK(extra, TLEN + 1), "C01.scan.extra");
			for (k = 0; k <= TLEN; ++k)
				VERIF_ASSERT(extra[k] == g_target[k], "C01.scan.extra");
		}
		ECOVER((g_e0.flags & SQFS_DIR_ENTRY_FLAG_HARD_LINK) != 0);
		ECOVER((g_e0.flags & SQFS_DIR_ENTRY_FLAG_HARD_LINK) == 0);
	} else if (S_ISREG(g_e0.mode)) {
		VERIF_ASSERT(g_rl == 0, "C01.scan.extra");
		if (extra == NULL) {
			/* image path and input location coincide */
			VERIF_ASSERT(PLEN == 0 && FPLEN < 0, "C01.scan.extra");
		} else {
			char want[MAXLOC];
			size_t n = 0;

			if (FPLEN >= 0) {
				for (k = 0; k < FPL; ++k)
					want[n++] = g_fp[k];
				want[n++] = '/';
			}
			for (k = 0; k < NLEN; ++k)
				want[n++] = g_n0[OFF + k];
			want[n++] = '\0';
			VERIF_ASSERT(VERIF_R_OK(extra, n), "C01.scan.extra");
			for (k = 0; k < n; ++k)
				VERIF_ASSERT(extra[k] == want[k], "C01.scan.extra");
		}
		ECOVER(1);
	} else {
		VERIF_ASSERT(extra == NULL && g_rl == 0, "C01.scan.extra");
		ECOVER(S_ISDIR(g_e0.mode));
		ECOVER(S_ISCHR(g_e0.mode) || S_ISBLK(g_e0.mode));
		ECOVER(S_ISFIFO(g_e0.mode) || S_ISSOCK(g_e0.mode));
	}

	if (verif_nd_bool("add.fail")) {
		g_errno = verif_nd_int("add.errno");
		g_failed = true;
		return NULL;
	}
	return &g_node;
}

/* ---- libc / diagnostics ---------------------------------------------------------------- */
char *strdup(const char *s)
{
	size_t n = 0, k;
	char *p;

	while (s[n] != '\0')
		++n;
	VERIF_ASSERT(n < MAXNAME, "C11.scan.env.strdup_pre");
	if (verif_nd_bool("strdup.fail")) {
		g_alloc_failed = true;
		return NULL;
	}
	p = malloc(n + 1);
	if (p == NULL) {
		g_alloc_failed = true;
		return NULL;
	}
	for (k = 0; k <= n; ++k)
		p[k] = s[k];
	return p;
}

void sqfs_perror(const char *file, const char *action, int error_code)
{
	(void)file; (void)action; (void)error_code;
}

int fputs(const char *s, FILE *f) { (void)s; (void)f; return 0; }
void perror(const char *s) { (void)s; }

void harness(void)
{
	size_t k;
	int ret;

	g_errno = 0; g_calls = 0; g_done = false; g_src_ret = 0; g_failed = false;
	g_alloc_failed = false; g_delivered = 0; g_added = 0; g_skipped = 0;
	g_pending = false; g_cur = NULL; g_lookups = 0; g_adds = 0; g_ign = 0;
	g_rl = 0; g_lookup_ok = false; g_rl_ok = false;

	g_fs.root = &g_root;
	g_root.mode = S_IFDIR | 0755;
	g_parent.mode = S_IFDIR | 0755;
	g_iter.next = stub_next;
	g_iter.ignore_subdir = stub_ignore_subdir;
	g_iter.read_link = stub_read_link;

	for (k = 0; k < FPL; ++k) {
		unsigned char c = verif_nd_u8("file_prefix");

		VERIF_ASSUME(c != 0);
		((unsigned char *)g_fp)[k] = c;
	}
	g_fp[FPL] = '\0';
	/* canonical image path of the glob target: no leading / trailing slash */
	for (k = 0; k < PLEN; ++k) {
		unsigned char c = verif_nd_u8("prefix");

		VERIF_ASSUME(c != 0);
		if (k == 0 || k + 1 == PLEN)
			VERIF_ASSUME(c != '/');
		((unsigned char *)g_pfx)[k] = c;
	}
	g_pfx[PLEN] = '\0';

	ret = scan_directory(&g_fs, &g_iter, PLEN, FPLEN < 0 ? NULL : g_fp);

	settle();
	VERIF_ASSERT(ret == 0 || ret == -1, "C11.scan.error_stops");
	if (g_failed) {
		VERIF_ASSERT(ret == -1 && !g_done, "C11.scan.error_stops");
		ECOVER(g_rl == 1);
		ECOVER(g_adds == 1);
		return;
	}
	/* no failure: it ran until the iterator ended */
	VERIF_ASSERT(g_done && g_calls == NENT + 1 && g_delivered == NENT &&
		     g_added + g_skipped == NENT, "C11.scan.one_per_entry");
	if (g_src_ret > 0) {
		VERIF_ASSERT(ret == 0, "C11.scan.end_success");
		VERIF_COVER(g_added == NENT);
		VERIF_COVER(g_skipped == NENT);
	} else {
		VERIF_ASSERT(ret == -1, "C11.scan.error_stops");
		VERIF_COVER(1);
	}
}
