/* C11, through the PUBLIC fstree API (independent of how fstree.c splits the
 * work between child_by_name / insert_sorted / mknode, so it keeps compiling
 * and keeps its meaning when those are folded or renamed): one real
 * fstree_add_generic() call for a new entry into a root directory that
 * already holds K children in strictly increasing strcmp order.
 * Names: the children have L1 (and L2) symbolic bytes, the entry LA symbolic
 * bytes (no NUL, no '/'), all distinct - different lengths make "one name is
 * a proper prefix of the other" ("lib" / "lib64") reachable in both
 * directions.
 *
 *   C11.add.sorted_set   afterwards the directory lists exactly the old
 *        children plus one node carrying the entry's name, each once, in
 *        strictly increasing strcmp order. A strictly sorted list of a set of
 *        names is unique, so by induction over the arrivals the children list
 *        (and with it directory entry order, inode numbers and file packing
 *        order, which post_process derives from it) is a function of the SET
 *        of entries, not of the order in which the host enumerated them.
 *   C11.add.lookup       the new node is found again under its name by
 *        fstree_get_node_by_path, and so is every old child
 * calloc: typed-object contract (one fresh zeroed node with room for the
 * name), does not fail here.
 */
#include <string.h>
#include <stdlib.h>
#include <errno.h>
#include <sys/stat.h>
#include "verif.h"
#include "fstree.h"

size_t g_canon_L;

#ifndef K
#define K 1
#endif
#ifndef LA
#define LA 1
#endif
#ifndef L1
#define L1 2
#endif
#ifndef L2
#define L2 2
#endif
#define MAXL 2

struct bignode {
	tree_node_t n;
	char payload[MAXL + 1];
};
static struct bignode g_root, g_c1, g_c2, g_new;
static unsigned g_allocs;

#ifdef VERIF_REPLAY
#define calloc c11_calloc
#endif

void *calloc(size_t n, size_t sz)
{
	VERIF_ASSERT(n == 1 && sz <= sizeof(struct bignode) && g_allocs == 0,
		     "C11.env.calloc_pre");
	g_allocs += 1;
	memset(&g_new, 0, sizeof(g_new));
	return &g_new;
}

#include "lib/util/src/canonicalize_name.c"
#include "lib/fstree/src/fstree.c"

struct dent {
	sqfs_dir_entry_t e;
	char room[MAXL + 1];
};
static struct dent g_ent;

static void mkname(char *dst, size_t len)
{
	size_t i;

	for (i = 0; i <= MAXL; ++i)
		dst[i] = '\0';
	for (i = 0; i < MAXL; ++i) {
		if (i < len) {
			dst[i] = (char)verif_nd_u8("name");
			VERIF_ASSUME(dst[i] != '\0' && dst[i] != '/');
		}
	}
	/* "." and ".." are not directory entries */
	VERIF_ASSUME(!(dst[0] == '.' && (len == 1 || (len == 2 && dst[1] == '.'))));
}

static int name_cmp(const char *a, const char *b)
{
	size_t i;

	for (i = 0; i <= MAXL; ++i) {
		unsigned char x = (unsigned char)a[i], y = (unsigned char)b[i];

		if (x != y)
			return x < y ? -1 : 1;
		if (x == '\0')
			return 0;
	}
	return 0;
}

static void mkchild(struct bignode *c, size_t len)
{
	memset(c, 0, sizeof(*c));
	mkname(c->payload, len);
	c->n.name = c->payload;
	c->n.parent = &g_root.n;
	c->n.mode = S_IFREG | 0644;
	c->n.link_count = 1;
}

void harness(void)
{
	static fstree_t fs;
	const tree_node_t *it, *prev = NULL;
	tree_node_t *r;
	unsigned n = 0, seen_new = 0, seen1 = 0, seen2 = 0;

	g_allocs = 0;
	memset(&g_root, 0, sizeof(g_root));
	g_root.n.name = g_root.payload;
	g_root.n.mode = S_IFDIR | 0755;
	g_root.n.link_count = 2 + K;
	fs.root = &g_root.n;
	fs.defaults.mode = S_IFDIR | 0755;
	fs.links_unresolved = NULL;

	mkname(g_ent.e.name, LA);
	g_ent.e.mtime = verif_nd_i64("mtime");
	g_ent.e.inode = verif_nd_u64("ino");
	g_ent.e.uid = verif_nd_u32("uid");
	g_ent.e.gid = verif_nd_u32("gid");
	g_ent.e.flags = 0;
	g_ent.e.mode = S_IFREG | 0644;

#if K >= 1
	mkchild(&g_c1, L1);
	g_root.n.data.children = &g_c1.n;
	VERIF_ASSUME(name_cmp(g_c1.payload, g_ent.e.name) != 0);
#endif
#if K >= 2
	mkchild(&g_c2, L2);
	g_c1.n.next = &g_c2.n;
	VERIF_ASSUME(name_cmp(g_c1.payload, g_c2.payload) < 0);
	VERIF_ASSUME(name_cmp(g_c2.payload, g_ent.e.name) != 0);
#endif
#if K >= 1
	/* the existing name is a proper prefix of the new one / the reverse */
#if LA > L1
	VERIF_COVER(g_ent.e.name[0] == g_c1.payload[0] &&
		    (L1 < 2 || g_ent.e.name[1] == g_c1.payload[1]));
#elif LA < L1
	VERIF_COVER(g_ent.e.name[0] == g_c1.payload[0] &&
		    (LA < 2 || g_ent.e.name[1] == g_c1.payload[1]));
#endif
	VERIF_COVER(name_cmp(g_ent.e.name, g_c1.payload) < 0);
	VERIF_COVER(name_cmp(g_ent.e.name, g_c1.payload) > 0);
#endif

	r = fstree_add_generic(&fs, &g_ent.e, NULL);

	VERIF_ASSERT(r == &g_new.n && g_allocs == 1, "C11.add.sorted_set");
	VERIF_ASSERT(name_cmp(g_new.n.name, g_ent.e.name) == 0, "C11.add.sorted_set");
	for (it = g_root.n.data.children; it != NULL && n < K + 2; it = it->next) {
		if (prev != NULL)
			VERIF_ASSERT(name_cmp(prev->name, it->name) < 0,
				     "C11.add.sorted_set");
		VERIF_ASSERT(it->parent == &g_root.n, "C11.add.sorted_set");
		if (it == &g_new.n) seen_new += 1;
		if (it == &g_c1.n) seen1 += 1;
		if (it == &g_c2.n) seen2 += 1;
		prev = it;
		n += 1;
	}
	VERIF_ASSERT(it == NULL && n == K + 1 && seen_new == 1 &&
		     seen1 == (K >= 1) && seen2 == (K >= 2), "C11.add.sorted_set");
#if K >= 1
	VERIF_ASSERT(name_cmp(g_c1.n.name, g_c1.payload) == 0 && g_c1.n.name == g_c1.payload,
		     "C11.add.sorted_set");
#endif

#ifdef WITH_LOOKUP
	VERIF_ASSERT(fstree_get_node_by_path(&fs, fs.root, g_ent.e.name, false, false)
		     == &g_new.n, "C11.add.lookup");
#if K >= 1
	VERIF_ASSERT(fstree_get_node_by_path(&fs, fs.root, g_c1.payload, false, false)
		     == &g_c1.n, "C11.add.lookup");
#endif
#endif
}
