/* C11 / C07: fstree_resolve_hard_links + resolve_link (lib/fstree/src/
 * hardlink.c) with the REAL fstree_get_node_by_path / child_by_name
 * (lib/fstree/src/fstree.c) on a concrete small tree whose names and link
 * target strings are symbolic:
 *
 *      root +- A/            (name X)        node 1
 *           |   +- f         (name Y)        node 2
 *           +- U/            (name W)        node 3
 *           |   +- B/        (name Z)        node 4   Z == X is allowed: then
 *           |       +- g     (name Y2)       node 5   "W/Z" ends in the path
 *           +- K  hard link  (name V)        node 6   of the top-level A
 *           +- K2 hard link  (name V2)       node 7   (-DNLINKS=2)
 *
 *   -DLINK_IN_U  puts K below U instead of the root.
 *   -DTSHAPE=n   target of K has n components of 1..NAMELEN symbolic bytes
 *   -DORDER      order of the two links on fs->links_unresolved
 *   K2's target is one symbolic component (it can name K: chain, or itself),
 *   with -DK2_CONCRETE it is K's name.
 *   -DCTGT=n (with CONCRETE_NAMES) makes K's target one of the concrete paths
 *   u/l/f, l/f, u/l, f, u/f, l/f/f, a: the run is then concrete for cbmc and
 *   finishes at once whatever the look-up code looks like.
 *   -DCONCRETE_NAMES fixes the names to l/f, u/l/f, links a and z (the cases
 *   with two links are too slow otherwise); the target of K stays symbolic.
 *
 * Siblings carry distinct names in strcmp order (what insert_sorted leaves
 * behind, C11.insert.sorted_perm); everything else about the names is free.
 *
 * Spec (independent of the code): designates(path) walks the components of
 * the path from the root, at each level the child whose name equals the
 * component byte for byte; a non-directory in the middle or a missing child
 * designates nothing. final(link) follows designates() through hard links.
 *
 *   C11.hl.resolve_exact   success => every hard link is flagged resolved and
 *                          its target_node is exactly final(its target path)
 *                          - whatever the order in which the links were
 *                          recorded - and that node is neither a directory
 *                          nor a link
 *   C11.hl.fail_iff        failure <=> some link's path designates nothing, a
 *                          directory, or runs in a cycle
 *   C11.hl.link_count      success => every node's link_count grew by the
 *                          number of links that designate it
 *   C11.hl.tree_unchanged  names, parents, sibling and children pointers and
 *                          modes of all nodes are untouched; on success the
 *                          unresolved list is empty
 */
#include <errno.h>
#include <string.h>
#include <stdlib.h>
#include <stdio.h>
#ifndef NAMELEN
#define NAMELEN 1
#endif
#include "C11/fnode.h"

#ifndef NLINKS
#define NLINKS 1
#endif
#ifndef TSHAPE
#define TSHAPE 2
#endif
#ifndef ORDER
#define ORDER 0
#endif
#define NNODES (6 + NLINKS)
#define TGTMAX (3 * (NAMELEN + 1))

static fstree_t g_fs;
static char g_tgt[2][TGTMAX + 1];	/* target strings of K, K2 */
static unsigned g_diag;

/* ---- environment of the failure message ----------------------------------- */
char *fstree_get_path(tree_node_t *node)
{
	(void)node;
	return NULL;
}

int fprintf(FILE *f, const char *fmt, ...)
{
	(void)f; (void)fmt;
	g_diag += 1;
	return 0;
}

char *strerror(int e)
{
	static char msg[] = "error";

	(void)e;
	return msg;
}

static int g_errno;
int *__errno_location(void)
{
	return &g_errno;
}

#include "lib/fstree/src/fstree.c"
#include "lib/fstree/src/hardlink.c"

/* ---- spec ------------------------------------------------------------------- */
static int is_hl(const tree_node_t *n)
{
	return S_ISLNK(n->mode) && (n->flags & FLAG_LINK_IS_HARD);
}

/* component table of the two target paths: g_comp[k][c] is component c of
 * link k's path (NUL terminated), g_ncomp[k] their number; g_tgt[k] is their
 * join with '/' (target_sym). The tree is concrete in shape: g_parent[]. */
static char g_comp[2][3][NAMELEN + 1];
static unsigned g_ncomp[2];
static int g_parent[8];

static int spec_designates(int k)
{
	int cur = 0, found, n;
	unsigned c;
	size_t i;

	for (c = 0; c < 3; ++c) {
		if (c >= g_ncomp[k])
			break;
		if (cur < 0 || !S_ISDIR(TNODE(cur)->mode))
			return -1;
		found = -1;
		for (n = 1; n < NNODES; ++n) {
			bool eq = true;

			for (i = 0; i <= NAMELEN; ++i) {
				if (FN(n)->name[i] != g_comp[k][c][i])
					eq = false;
			}
			if (g_parent[n] == cur && eq && found < 0)
				found = n;
		}
		if (found < 0)
			return -1;
		cur = found;
	}
	return cur;
}

static int g_des[2];

/* final(link k): NULL = dangling, cycle, or a directory */
static tree_node_t *spec_final(int k)
{
	int n = g_des[k];
	unsigned hops;

	for (hops = 0; hops < NLINKS; ++hops) {
		if (n == 6)
			n = g_des[0];
		else if (NLINKS > 1 && n == 7)
			n = g_des[1];
	}
	if (n < 0 || n == 6 || (NLINKS > 1 && n == 7))
		return NULL;		/* still a link after |links| hops: cycle */
	if (S_ISDIR(TNODE(n)->mode))
		return NULL;
	return TNODE(n);
}

/* ---- tree construction ------------------------------------------------------- */
static void name_sym(int k)
{
	size_t i;
	bool ended = false;

	/* fnode_init made NAMELEN symbolic bytes + NUL: non-empty, no '/',
	 * nothing behind an embedded terminator */
	VERIF_ASSUME(FN(k)->name[0] != '\0');
	for (i = 0; i < NAMELEN; ++i) {
		VERIF_ASSUME(FN(k)->name[i] != '/');
		if (FN(k)->name[i] == '\0')
			ended = true;
		if (ended)
			VERIF_ASSUME(FN(k)->name[i] == '\0');
	}
}

static void link_children(int dir, int a, int b, int c)
{
	int kids[3], n = 0, i;

	if (a >= 0) kids[n++] = a;
	if (b >= 0) kids[n++] = b;
	if (c >= 0) kids[n++] = c;
	TNODE(dir)->data.children = n ? TNODE(kids[0]) : NULL;
	for (i = 0; i < n; ++i) {
		TNODE(kids[i])->parent = TNODE(dir);
		g_parent[kids[i]] = dir;
		TNODE(kids[i])->next = (i + 1 < n) ? TNODE(kids[i + 1]) : NULL;
	}
}

/* a symbolic path of ncomp components, each 1..NAMELEN bytes */
static void target_sym(int k, unsigned ncomp)
{
	char *t = g_tgt[k];
	size_t pos = 0, i;
	unsigned c;
	bool ended;

	g_ncomp[k] = ncomp;
	for (c = 0; c < ncomp; ++c) {
		if (c > 0)
			t[pos++] = '/';
		ended = false;
		for (i = 0; i < NAMELEN; ++i) {
			unsigned char ch = verif_nd_u8("tgt");

			VERIF_ASSUME(ch != '/');
			if (i == 0)
				VERIF_ASSUME(ch != '\0');
			if (ch == '\0')
				ended = true;
			if (ended)
				ch = '\0';
			((unsigned char *)g_comp[k][c])[i] = ch;
			if (!ended)
				((unsigned char *)t)[pos++] = ch;
		}
		g_comp[k][c][NAMELEN] = '\0';
	}
	t[pos] = '\0';
}

#ifdef CTGT
/* a concrete path for link k: with CONCRETE_NAMES the whole run is concrete
 * for cbmc, whatever the look-up code looks like (loops, recursion) */
static void target_concrete(int k, const char *path)
{
	size_t pos = 0, i = 0;
	unsigned c = 0;

	for (pos = 0; path[pos] != '\0'; ++pos) {
		g_tgt[k][pos] = path[pos];
		if (path[pos] == '/') {
			g_comp[k][c][i] = '\0';
			++c;
			i = 0;
		} else {
			g_comp[k][c][i++] = path[pos];
		}
	}
	g_comp[k][c][i] = '\0';
	g_tgt[k][pos] = '\0';
	g_ncomp[k] = c + 1;
}

static const char *const g_ctgt[] = { "u/l/f", "l/f", "u/l", "f", "u/f", "l/f/f", "a" };
#endif

struct snap {
	tree_node_t *next, *parent, *children;
	char name[NAMELEN + 1];
	sqfs_u16 mode;
	sqfs_u32 link_count;
};

void harness(void)
{
	struct snap s0[NNODES];
	tree_node_t *want[2];
	bool solvable;
	int k, ret;
	size_t i;

	g_diag = 0;
	g_errno = 0;
	for (k = 0; k < 8; ++k)
		g_parent[k] = -1;

	fnode_init(0, S_IFDIR);
	FN(0)->name[0] = '\0';
	for (k = 1; k < NNODES; ++k) {
		fnode_init(k, (k == 1 || k == 3 || k == 4) ? S_IFDIR :
			   (k >= 6) ? S_IFLNK : S_IFREG);
		name_sym(k);
	}
	/* the node KIND must be a constant for cbmc's symbolic execution (the
	 * permission bits play no role here): otherwise every S_ISDIR / S_ISLNK
	 * test stays open and the look-up loops are explored to their bounds */
	TNODE(0)->mode = S_IFDIR | 0755;
	for (k = 1; k < NNODES; ++k)
		TNODE(k)->mode = (k == 1 || k == 3 || k == 4) ? (S_IFDIR | 0755) :
			(k >= 6) ? (S_IFLNK | 0777) : (S_IFREG | 0644);
#ifdef CONCRETE_NAMES
	/* the suffix situation spelled out: l/f and u/l/f; links a and z */
	{
#ifdef LINK_IN_U
		static const char nm[9] = "?lfulfzz";	/* K sorts behind B below U */
#else
		static const char nm[9] = "?lfulfaz";
#endif

		for (k = 1; k < NNODES; ++k) {
			FN(k)->name[0] = nm[k];
			for (i = 1; i <= NAMELEN; ++i)
				FN(k)->name[i] = '\0';
		}
	}
#endif
	/* sibling lists in strcmp order, names distinct */
#if NLINKS > 1
	link_children(0, 1, 3, 7);
	VERIF_ASSUME(fname_cmp(3, 7) < 0);
#else
	link_children(0, 1, 3, -1);
#endif
	VERIF_ASSUME(fname_cmp(1, 3) < 0);
	link_children(1, 2, -1, -1);
	link_children(4, 5, -1, -1);
#ifdef LINK_IN_U
	link_children(3, 4, 6, -1);
	VERIF_ASSUME(fname_cmp(4, 6) < 0);
#else
	link_children(3, 4, -1, -1);
	/* K sorts in front of A in the root */
	TNODE(6)->parent = TNODE(0);
	g_parent[6] = 0;
	TNODE(6)->next = TNODE(0)->data.children;
	TNODE(0)->data.children = TNODE(6);
	VERIF_ASSUME(fname_cmp(6, 1) < 0);
#endif

#ifdef CTGT
	target_concrete(0, g_ctgt[CTGT]);
#else
	target_sym(0, TSHAPE);
#endif
	TNODE(6)->flags = FLAG_LINK_IS_HARD;
	TNODE(6)->data.target = g_tgt[0];
#if NLINKS > 1
#ifdef K2_CONCRETE
	/* K2 names K (chain K2 -> K -> ...); needs CONCRETE_NAMES */
	g_ncomp[1] = 1;
	for (i = 0; i <= NAMELEN; ++i)
		g_comp[1][0][i] = g_tgt[1][i] = FN(6)->name[i];
#else
	target_sym(1, 1);
#endif
	TNODE(7)->flags = FLAG_LINK_IS_HARD;
	TNODE(7)->data.target = g_tgt[1];
#endif

	memset(&g_fs, 0, sizeof(g_fs));
	g_fs.root = TNODE(0);
#if NLINKS > 1
#if ORDER == 0
	g_fs.links_unresolved = TNODE(6);
	TNODE(6)->next_by_type = TNODE(7);
#else
	g_fs.links_unresolved = TNODE(7);
	TNODE(7)->next_by_type = TNODE(6);
#endif
#else
	g_fs.links_unresolved = TNODE(6);
#endif

	for (k = 0; k < NNODES; ++k) {
		s0[k].next = TNODE(k)->next;
		s0[k].parent = TNODE(k)->parent;
		s0[k].children = (k == 0 || k == 1 || k == 3 || k == 4) ?
			TNODE(k)->data.children : NULL;
		for (i = 0; i <= NAMELEN; ++i)
			s0[k].name[i] = FN(k)->name[i];
		s0[k].mode = TNODE(k)->mode;
		s0[k].link_count = TNODE(k)->link_count;
		if (k < 6)
			VERIF_ASSUME(TNODE(k)->link_count < 0xFFFFFFF0);
	}

	g_des[0] = spec_designates(0);
	g_des[1] = NLINKS > 1 ? spec_designates(1) : -1;
	want[0] = spec_final(0);
	want[1] = NLINKS > 1 ? spec_final(1) : TNODE(2);
	solvable = want[0] != NULL && want[1] != NULL;

	ret = fstree_resolve_hard_links(&g_fs);

	VERIF_ASSERT(ret == 0 || ret == -1, "C11.hl.fail_iff");
	VERIF_ASSERT((ret == 0) == solvable, "C11.hl.fail_iff");
	VERIF_ASSERT(ret == 0 || g_diag >= 1, "C11.hl.fail_iff");

	if (ret == 0) {
		for (k = 0; k < NLINKS; ++k) {
			tree_node_t *l = TNODE(6 + k);

			VERIF_ASSERT((l->flags & FLAG_LINK_RESOVED) &&
				     (l->flags & FLAG_LINK_IS_HARD),
				     "C11.hl.resolve_exact");
			VERIF_ASSERT(l->data.target_node == want[k],
				     "C11.hl.resolve_exact");
			VERIF_ASSERT(want[k] != NULL && !S_ISDIR(want[k]->mode) &&
				     !S_ISLNK(want[k]->mode),
				     "C11.hl.resolve_exact");
		}
		for (k = 0; k < 6; ++k) {
			sqfs_u32 extra = (want[0] == TNODE(k) ? 1 : 0) +
				(NLINKS > 1 && want[1] == TNODE(k) ? 1 : 0);

			VERIF_ASSERT(TNODE(k)->link_count == s0[k].link_count + extra,
				     "C11.hl.link_count");
		}
		VERIF_ASSERT(g_fs.links_unresolved == NULL &&
			     TNODE(6)->next_by_type == NULL &&
			     (NLINKS < 2 || TNODE(7)->next_by_type == NULL),
			     "C11.hl.tree_unchanged");
	}
	for (k = 0; k < NNODES; ++k) {
		VERIF_ASSERT(TNODE(k)->next == s0[k].next &&
			     TNODE(k)->parent == s0[k].parent &&
			     TNODE(k)->mode == s0[k].mode &&
			     TNODE(k)->name == FN(k)->name,
			     "C11.hl.tree_unchanged");
		for (i = 0; i <= NAMELEN; ++i)
			VERIF_ASSERT(FN(k)->name[i] == s0[k].name[i], "C11.hl.tree_unchanged");
		if (k == 0 || k == 1 || k == 3 || k == 4)
			VERIF_ASSERT(TNODE(k)->data.children == s0[k].children,
				     "C11.hl.tree_unchanged");
	}

#ifdef CTGT
	VERIF_COVER((ret == 0) == (CTGT <= 1));
	VERIF_COVER(CTGT != 0 || want[0] == TNODE(5));
	VERIF_COVER(CTGT != 1 || want[0] == TNODE(2));
#else
	VERIF_COVER(ret == -1);
#endif
#if defined(CTGT)
#elif TSHAPE == 2
	VERIF_COVER(ret == 0 && want[0] == TNODE(2));
	/* "Z/Y2" with Z == X, Y2 == Y names the top-level A/f although it is
	 * also the tail of the path of U/B/g */
	VERIF_COVER(ret == 0 && want[0] == TNODE(2) && fname_cmp(1, 4) == 0 &&
		    fname_cmp(2, 5) == 0);
#ifndef CONCRETE_NAMES
	VERIF_COVER(ret == -1 && fname_cmp(1, 4) != 0 && g_tgt[0][0] == FN(4)->name[0]);
#endif
#elif TSHAPE == 3
	VERIF_COVER(ret == 0 && want[0] == TNODE(5));
	VERIF_COVER(ret == 0 && want[0] == TNODE(5) && fname_cmp(1, 4) == 0 &&
		    fname_cmp(2, 5) == 0);
#else
	VERIF_COVER(ret == -1 && g_des[0] == 1);
#endif
#if NLINKS > 1
	VERIF_COVER(ret == 0 && g_des[1] == 6);
#ifndef K2_CONCRETE
	VERIF_COVER(ret == -1 && g_des[1] == 7);
#endif
#endif
}
