/* C11 (w11): lib/common/src/dir_tree_iterator.c - real next / should_skip /
 * expand_path / apply_changes (MODE 0) and dir_tree_iterator_create / destroy
 * (MODE 1).
 *
 * What C11 needs: the filter/rewrite layer between the host scan and the tree
 * builder is an ELEMENT-WISE stream transformer: whether an entry is dropped
 * and how it is rewritten is a function of that entry and the configuration
 * only - never of the entries seen before - and entries leave in the order
 * they arrive. Then permuting the host order permutes the output and nothing
 * else. And: the hard-link filter (the one order dependent stage, finding
 * C11.hl.order_free) is stacked in exactly when hard links are not disabled.
 *
 * MODE 0: the wrapped iterator is a contract that delivers up to K arbitrary
 * entries (then end or error). Every entry's fate is judged against the spec
 * functions below, which see (entry, cfg, fnmatch verdict) and nothing else;
 * since the entries delivered before it are arbitrary, any dependence on
 * history would make the judgement fail for some history.
 *   C11.dti.next.elementwise   dropped / yielded exactly as spec(entry, cfg) says
 *   C11.dti.next.ignore_subdir a dropped-by-filter directory and (with -nonrecursive) every directory is
 *                              followed by exactly one ignore_subdir on the wrapped iterator; nothing else is
 *   C11.dti.next.rewrite       yielded entry = spec rewrite: prefix '/' name, default uid/gid/mtime/permission
 *                              bits unless KEEP_*, type bits and everything else untouched
 *   C11.dti.next.fnmatch_args  pattern = cfg.name_pattern; full path + FNM_PATHNAME, or last component + 0
 *   C11.dti.next.no_buffering  the entry yielded is the last one read; one read per judged entry
 *   C11.dti.next.cfg_frame     cfg and the wrapped iterator are never modified (the only state carried
 *                              between calls is `state`, 0 until end/error)
 *   C11.dti.next.sticky / .end_error   end and errors are passed on unchanged and stick; realloc failure = SQFS_ERROR_ALLOC
 *   (memory-leak check)        dropped entries are freed
 * MODE 1:
 *   C11.dti.create.hl_filter_iff   the hard-link filter wraps the recursive iterator iff DIR_SCAN_NO_HARDLINKS is clear
 *   C11.dti.create.chain           native(path, 0) -> recursive(native) [-> hard-link filter(recursive)]
 *   C11.dti.create.cfg_copied      the object's cfg is the given one, field by field
 *   C11.dti.create.refs            success: the object owns exactly one reference to the top of the chain, the
 *                                  construction references are dropped; failure: NULL, everything released
 */
#include <stdlib.h>
#include <string.h>
#include <stdio.h>
#include "verif.h"

#ifndef MODE
#define MODE 0
#endif
#ifndef PLEN
#define PLEN 1		/* length of cfg.prefix (0: empty string, -1: NULL) */
#endif
#ifndef ELEN
#define ELEN 2		/* length of delivered entry names */
#endif
#ifndef K
#define K 2		/* entries the wrapped iterator may deliver in one call */
#endif
#ifndef HAS_PATTERN
#define HAS_PATTERN 1
#endif
#define PL (PLEN > 0 ? PLEN : 0)
#define MAXNAME (PL + 1 + ELEN + 1)

#ifdef VERIF_REPLAY
#define realloc w11_realloc
void *w11_realloc(void *p, size_t n);
#endif

#include "lib/common/src/dir_tree_iterator.c"

#ifndef VERIF_REPLAY
size_t strlen(const char *s)
{
	size_t n = 0;

	while (s[n] != '\0')
		++n;
	return n;
}

char *strrchr(const char *s, int c)
{
	const char *last = NULL;
	size_t i = 0;

	do {
		if (s[i] == (char)c)
			last = s + i;
	} while (s[i++] != '\0');
	return (char *)last;
}

void *memcpy(void *dst, const void *src, size_t n)
{
	size_t i;

	for (i = 0; i < n; ++i)
		((char *)dst)[i] = ((const char *)src)[i];
	return dst;
}

void *memmove(void *dst, const void *src, size_t n)
{
	char tmp[MAXNAME + 1];
	size_t i;

	VERIF_ASSERT(n <= sizeof(tmp), "C11.dti.env.memmove_pre");
	for (i = 0; i < n; ++i)
		tmp[i] = ((const char *)src)[i];
	for (i = 0; i < n; ++i)
		((char *)dst)[i] = tmp[i];
	return dst;
}
#endif

void perror(const char *s) { (void)s; }
#ifndef VERIF_REPLAY
int fprintf(FILE *f, const char *fmt, ...) { (void)f; (void)fmt; return 0; }
#endif

struct sub {
	sqfs_dir_iterator_t base;
	int id;
};
static struct sub g_sub[3];	/* 0 native, 1 recursive, 2 hard-link filter */
static int g_released[3];

static void stub_destroy(sqfs_object_t *o)
{
	int id = ((struct sub *)o)->id;

	g_released[id] += 1;
	/* what the real objects do: sqfs_drop what they wrap */
	while (id > 0) {
		--id;
		if (g_sub[id].base.obj.refcount > 1) {
			g_sub[id].base.obj.refcount -= 1;
			break;
		}
		g_released[id] += 1;
	}
}

#if MODE == 0
/* ---- the wrapped iterator and the per-entry judgement ----------------------------- */
struct dent {
	sqfs_dir_entry_t e;
	char room[ELEN + 1];
};
struct bigdent {
	sqfs_dir_entry_t e;
	char room[MAXNAME];
};

static dir_tree_iterator_t g_it;
static dir_tree_cfg_t g_cfg0;
static char g_prefix[PL + 1];
static char g_pattern[2];

static bool g_pending;			/* an entry was delivered and not judged yet */
static sqfs_dir_entry_t g_e0;		/* its attributes as delivered */
static char g_n0[ELEN + 1];		/* its name as delivered */
static void *g_cur;			/* where it lives now */
static int g_reads, g_judged, g_ign, g_fn_calls, g_fn_ret, g_src_ret;
static bool g_fn_ok, g_realloc_called, g_realloc_failed;

static unsigned int spec_type_mask(sqfs_u16 mode)
{
	switch (mode & S_IFMT) {
	case S_IFSOCK: return DIR_SCAN_NO_SOCK;
	case S_IFLNK: return DIR_SCAN_NO_SLINK;
	case S_IFREG: return DIR_SCAN_NO_FILE;
	case S_IFBLK: return DIR_SCAN_NO_BLK;
	case S_IFCHR: return DIR_SCAN_NO_CHR;
	case S_IFIFO: return DIR_SCAN_NO_FIFO;
	default: return 0;
	}
}

/* judge the pending entry: `yielded' is what the code did with it */
static void judge(bool yielded)
{
	const sqfs_u32 f = g_cfg0.flags;
	bool isdir = S_ISDIR(g_e0.mode);
	bool filtered, keep;
	int want_ign;

	filtered = ((f & DIR_SCAN_ONE_FILESYSTEM) &&
		    (g_e0.flags & SQFS_DIR_ENTRY_FLAG_MOUNT_POINT)) ||
		   (f & spec_type_mask(g_e0.mode)) != 0;
	if (filtered) {
		keep = false;
		want_ign = isdir ? 1 : 0;
		VERIF_ASSERT(g_fn_calls == 0 && !g_realloc_called,
			     "C11.dti.next.elementwise");
	} else {
		want_ign = (isdir && (f & DIR_SCAN_NO_RECURSION)) ? 1 : 0;
		if (isdir && (f & DIR_SCAN_NO_DIR)) {
			keep = false;
			VERIF_ASSERT(g_fn_calls == 0, "C11.dti.next.elementwise");
		} else if (g_cfg0.name_pattern != NULL) {
			VERIF_ASSERT(g_fn_calls == 1 && g_fn_ok,
				     "C11.dti.next.fnmatch_args");
			keep = g_fn_ret == 0;
		} else {
			VERIF_ASSERT(g_fn_calls == 0, "C11.dti.next.fnmatch_args");
			keep = true;
		}
	}
	VERIF_ASSERT(yielded == keep, "C11.dti.next.elementwise");
	VERIF_ASSERT(g_ign == want_ign, "C11.dti.next.ignore_subdir");
	VERIF_COVER(filtered && isdir);
	VERIF_COVER(!filtered && !keep);
	g_pending = false;
	++g_judged;
	g_ign = 0;
	g_fn_calls = 0;
	g_realloc_called = false;
}

static int stub_next(sqfs_dir_iterator_t *it, sqfs_dir_entry_t **out)
{
	struct dent *d;
	size_t k;
	int r;

	VERIF_ASSERT(it == &g_sub[1].base, "C11.dti.env.rec");
	if (g_pending)
		judge(false);
	VERIF_ASSERT(g_ign == 0, "C11.dti.next.ignore_subdir");
	r = verif_nd_int("src.next");
	if (g_reads >= K)
		VERIF_ASSUME(r != 0);	/* bound of the harness */
	if (r != 0) {
		g_src_ret = r;
		*out = NULL;
		return r;
	}
	++g_reads;
	d = malloc(sizeof(*d));
	VERIF_ASSUME(d != NULL);
	d->e.size = verif_nd_u64("ent.size");
	d->e.mtime = verif_nd_i64("ent.mtime");
	d->e.dev = verif_nd_u64("ent.dev");
	d->e.rdev = verif_nd_u64("ent.rdev");
	d->e.inode = verif_nd_u64("ent.inode");
	d->e.uid = verif_nd_u64("ent.uid");
	d->e.gid = verif_nd_u64("ent.gid");
	d->e.mode = verif_nd_u16("ent.mode");
	d->e.flags = verif_nd_u16("ent.flags");
	for (k = 0; k <= ELEN; ++k) {
		unsigned char c = verif_nd_u8("ent.name");

		if (k == ELEN)
			c = 0;
		else
			VERIF_ASSUME(c != 0);
		((unsigned char *)d->e.name)[k] = c;
		((unsigned char *)g_n0)[k] = c;
	}
	g_e0 = d->e;
	g_cur = d;
	g_pending = true;
	*out = &d->e;
	return 0;
}

static void stub_ignore_subdir(sqfs_dir_iterator_t *it)
{
	VERIF_ASSERT(it == &g_sub[1].base && g_pending, "C11.dti.next.ignore_subdir");
	++g_ign;
}

#ifdef VERIF_REPLAY
void *w11_realloc(void *p, size_t n)
#else
void *realloc(void *p, size_t n)
#endif
{
	struct bigdent *b;
	size_t k;

	VERIF_ASSERT(g_pending && p == g_cur && n <= sizeof(*b) &&
		     n >= sizeof(sqfs_dir_entry_t) + PL + 1 + ELEN + 1,
		     "C11.dti.env.realloc_pre");
	g_realloc_called = true;
	if (verif_nd_bool("realloc.fail")) {
		g_realloc_failed = true;
		return NULL;
	}
	b = malloc(sizeof(*b));
	VERIF_ASSUME(b != NULL);
	b->e = ((struct dent *)p)->e;
	for (k = 0; k <= ELEN; ++k)
		b->e.name[k] = ((struct dent *)p)->e.name[k];
	free(p);
	g_cur = b;
	return b;
}

int fnmatch(const char *pattern, const char *string, int flags)
{
	const char *name = ((sqfs_dir_entry_t *)g_cur)->name;
	size_t k;
	bool ok;

	++g_fn_calls;
	ok = g_pending && pattern == g_cfg0.name_pattern && pattern != NULL;
	if (g_cfg0.flags & DIR_SCAN_MATCH_FULL_PATH) {
		ok = ok && string == name && flags == FNM_PATHNAME;
	} else {
		/* the last component: starts the name or follows a '/', and
		 * holds no '/' itself */
		ok = ok && flags == 0 && VERIF_SAME_OBJECT(string, name) &&
		     (string == name || string[-1] == '/');
		for (k = 0; k < MAXNAME && string[k] != '\0'; ++k)
			ok = ok && string[k] != '/';
	}
	g_fn_ok = ok;
	g_fn_ret = verif_nd_int("fnmatch.ret");
	return g_fn_ret;
}

static bool cfg_same(const dir_tree_cfg_t *a, const dir_tree_cfg_t *b)
{
	return a->flags == b->flags && a->def_uid == b->def_uid &&
	       a->def_gid == b->def_gid && a->def_mode == b->def_mode &&
	       a->def_mtime == b->def_mtime && a->prefix == b->prefix &&
	       a->name_pattern == b->name_pattern;
}

void harness(void)
{
	sqfs_dir_entry_t *out = (sqfs_dir_entry_t *)&g_sub[0];
	int state0, ret;
	size_t k, off;

	g_pending = false; g_cur = NULL; g_reads = 0; g_judged = 0; g_ign = 0;
	g_fn_calls = 0; g_fn_ret = 0; g_src_ret = 0; g_fn_ok = false;
	g_realloc_called = false; g_realloc_failed = false;
	g_sub[1].id = 1;
	g_sub[1].base.obj.refcount = 1;
	g_sub[1].base.obj.destroy = stub_destroy;
	g_sub[1].base.next = stub_next;
	g_sub[1].base.ignore_subdir = stub_ignore_subdir;

	for (k = 0; k < PL; ++k) {
		unsigned char c = verif_nd_u8("prefix");

		VERIF_ASSUME(c != 0);
		((unsigned char *)g_prefix)[k] = c;
	}
	g_prefix[PL] = '\0';
	g_pattern[0] = '*';
	g_pattern[1] = '\0';

	g_cfg0.flags = verif_nd_u32("cfg.flags");
	g_cfg0.def_uid = verif_nd_u32("cfg.uid");
	g_cfg0.def_gid = verif_nd_u32("cfg.gid");
	g_cfg0.def_mode = verif_nd_u32("cfg.mode");
	g_cfg0.def_mtime = verif_nd_i64("cfg.mtime");
	g_cfg0.prefix = PLEN < 0 ? NULL : g_prefix;
	g_cfg0.name_pattern = HAS_PATTERN ? g_pattern : NULL;

	g_it.cfg = g_cfg0;
	g_it.rec = &g_sub[1].base;
	state0 = verif_nd_int("it.state");
	g_it.state = state0;

	ret = next(&g_it.base, &out);

	VERIF_ASSERT(cfg_same(&g_it.cfg, &g_cfg0) && g_it.rec == &g_sub[1].base &&
		     g_released[1] == 0, "C11.dti.next.cfg_frame");
	if (state0 != 0) {
		VERIF_ASSERT(ret == state0 && g_it.state == state0 && g_reads == 0 &&
			     g_src_ret == 0, "C11.dti.next.sticky");
		VERIF_COVER(1);
		return;
	}
	VERIF_ASSERT(g_it.state == ret, "C11.dti.next.sticky");
	if (ret != 0) {
		VERIF_ASSERT(out == NULL, "C11.dti.next.end_error");
		if (g_realloc_failed) {
			VERIF_ASSERT(ret == SQFS_ERROR_ALLOC, "C11.dti.next.end_error");
#if PLEN > 0
			VERIF_COVER(1);
#endif
		} else {
			/* whatever the wrapped iterator said; every entry read
			 * before was judged (dropped) */
			VERIF_ASSERT(ret == g_src_ret && !g_pending &&
				     g_judged == g_reads, "C11.dti.next.end_error");
			VERIF_COVER(ret > 0 && g_reads == K);
			VERIF_COVER(ret < 0);
		}
		return;
	}
	VERIF_ASSERT(out != NULL && g_pending && (void *)out == g_cur &&
		     g_judged + 1 == g_reads, "C11.dti.next.no_buffering");
	judge(true);

	/* the rewrite, a function of (g_e0, g_n0, cfg) */
	off = PL > 0 ? PL + 1 : 0;
	for (k = 0; k < PL; ++k)
		VERIF_ASSERT(out->name[k] == g_prefix[k], "C11.dti.next.rewrite");
	if (PL > 0)
		VERIF_ASSERT(out->name[PL] == '/', "C11.dti.next.rewrite");
	for (k = 0; k <= ELEN; ++k)
		VERIF_ASSERT(out->name[off + k] == g_n0[k], "C11.dti.next.rewrite");
	VERIF_ASSERT(out->mtime == ((g_cfg0.flags & DIR_SCAN_KEEP_TIME) ?
				    g_e0.mtime : g_cfg0.def_mtime) &&
		     out->uid == ((g_cfg0.flags & DIR_SCAN_KEEP_UID) ?
				  g_e0.uid : g_cfg0.def_uid) &&
		     out->gid == ((g_cfg0.flags & DIR_SCAN_KEEP_GID) ?
				  g_e0.gid : g_cfg0.def_gid) &&
		     out->mode == ((g_cfg0.flags & DIR_SCAN_KEEP_MODE) ? g_e0.mode :
				   (sqfs_u16)((g_e0.mode & ~07777) |
					      (g_cfg0.def_mode & 07777))),
		     "C11.dti.next.rewrite");
	VERIF_ASSERT(out->size == g_e0.size && out->dev == g_e0.dev &&
		     out->rdev == g_e0.rdev && out->inode == g_e0.inode &&
		     out->flags == g_e0.flags, "C11.dti.next.rewrite");
	VERIF_COVER(g_reads == K);
	VERIF_COVER(S_ISDIR(out->mode) && (g_cfg0.flags & DIR_SCAN_NO_RECURSION));
	free(out);
}
#endif

#if MODE == 1
static int g_native_calls, g_rec_calls, g_hl_calls;
static const char g_path[] = "p";

int sqfs_dir_iterator_create_native(sqfs_dir_iterator_t **out,
				    const char *path, sqfs_u32 flags)
{
	int r = verif_nd_int("native.ret");

	VERIF_ASSERT(path == g_path && flags == 0 && g_native_calls == 0,
		     "C11.dti.create.chain");
	++g_native_calls;
	VERIF_ASSUME(r <= 0);
	*out = NULL;
	if (r != 0)
		return r;
	g_sub[0].base.obj.refcount = 1;
	*out = &g_sub[0].base;
	return 0;
}

int sqfs_dir_iterator_create_recursive(sqfs_dir_iterator_t **out,
				       sqfs_dir_iterator_t *base)
{
	int r = verif_nd_int("rec.ret");

	VERIF_ASSERT(base == &g_sub[0].base && g_native_calls == 1 &&
		     g_rec_calls == 0 && g_released[0] == 0, "C11.dti.create.chain");
	++g_rec_calls;
	VERIF_ASSUME(r <= 0);
	*out = NULL;
	if (r != 0)
		return r;
	g_sub[0].base.obj.refcount += 1;	/* sqfs_grab(base) */
	g_sub[1].base.obj.refcount = 1;
	*out = &g_sub[1].base;
	return 0;
}

int sqfs_hard_link_filter_create(sqfs_dir_iterator_t **out,
				 sqfs_dir_iterator_t *base)
{
	int r = verif_nd_int("hl.ret");

	VERIF_ASSERT(base == &g_sub[1].base && g_rec_calls == 1 &&
		     g_hl_calls == 0 && g_released[1] == 0, "C11.dti.create.chain");
	++g_hl_calls;
	VERIF_ASSUME(r <= 0);
	*out = NULL;
	if (r != 0)
		return r;
	g_sub[1].base.obj.refcount += 1;
	g_sub[2].base.obj.refcount = 1;
	*out = &g_sub[2].base;
	return 0;
}

int fnmatch(const char *pattern, const char *string, int flags)
{
	(void)pattern; (void)string; (void)flags;
	return 0;
}

void harness(void)
{
	sqfs_dir_iterator_t *res;
	dir_tree_iterator_t *it;
	dir_tree_cfg_t cfg;
	bool want_hl;
	int i;

	g_native_calls = 0; g_rec_calls = 0; g_hl_calls = 0;
	for (i = 0; i < 3; ++i) {
		g_released[i] = 0;
		g_sub[i].id = i;
		g_sub[i].base.obj.refcount = 0;
		g_sub[i].base.obj.destroy = stub_destroy;
	}
	cfg.flags = verif_nd_u32("cfg.flags");
	cfg.def_uid = verif_nd_u32("cfg.uid");
	cfg.def_gid = verif_nd_u32("cfg.gid");
	cfg.def_mode = verif_nd_u32("cfg.mode");
	cfg.def_mtime = verif_nd_i64("cfg.mtime");
	cfg.prefix = verif_nd_bool("cfg.has_prefix") ? g_path : NULL;
	cfg.name_pattern = verif_nd_bool("cfg.has_pattern") ? g_path : NULL;
	want_hl = (cfg.flags & DIR_SCAN_NO_HARDLINKS) == 0;

	res = dir_tree_iterator_create(g_path, &cfg);

	if (res == NULL) {
		/* nothing survives a failed construction */
		for (i = 0; i < 3; ++i) {
			VERIF_ASSERT(g_sub[i].base.obj.refcount <= 1 &&
				     (g_sub[i].base.obj.refcount == 0 ||
				      g_released[i] == 1), "C11.dti.create.refs");
		}
		VERIF_ASSERT(g_hl_calls == 0 || want_hl, "C11.dti.create.hl_filter_iff");
		VERIF_COVER(g_native_calls == 0);
		VERIF_COVER(g_rec_calls == 1 && g_hl_calls == 0);
		VERIF_COVER(g_hl_calls == 1);
		return;
	}
	it = (dir_tree_iterator_t *)res;
	VERIF_ASSERT(g_native_calls == 1 && g_rec_calls == 1, "C11.dti.create.chain");
	VERIF_ASSERT(g_hl_calls == (want_hl ? 1 : 0) &&
		     it->rec == (want_hl ? &g_sub[2].base : &g_sub[1].base),
		     "C11.dti.create.hl_filter_iff");
	VERIF_ASSERT(it->cfg.flags == cfg.flags && it->cfg.def_uid == cfg.def_uid &&
		     it->cfg.def_gid == cfg.def_gid && it->cfg.def_mode == cfg.def_mode &&
		     it->cfg.def_mtime == cfg.def_mtime && it->cfg.prefix == cfg.prefix &&
		     it->cfg.name_pattern == cfg.name_pattern && it->state == 0,
		     "C11.dti.create.cfg_copied");
	VERIF_ASSERT(res->obj.refcount == 1 && res->obj.destroy == destroy &&
		     res->next == next && res->read_link == read_link &&
		     res->open_subdir == open_subdir &&
		     res->ignore_subdir == ignore_subdir &&
		     res->open_file_ro == open_file_ro &&
		     res->read_xattr == read_xattr, "C11.dti.create.cfg_copied");
	/* construction references dropped: each object of the chain is held
	 * once, by the one above it */
	VERIF_ASSERT(g_sub[0].base.obj.refcount == 1 && g_sub[1].base.obj.refcount == 1 &&
		     g_sub[2].base.obj.refcount == (want_hl ? 1 : 0) &&
		     g_released[0] == 0 && g_released[1] == 0 && g_released[2] == 0,
		     "C11.dti.create.refs");
	VERIF_COVER(want_hl);
	VERIF_COVER(!want_hl);
	destroy(&res->obj);
	VERIF_ASSERT(g_released[0] == 1 && g_released[1] == 1 &&
		     g_released[2] == (want_hl ? 1 : 0), "C11.dti.create.refs");
}
#endif
