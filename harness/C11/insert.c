/* C11 (bounded lists): the real insert_sorted (lib/fstree/src/fstree.c).
 *
 * MODE 0 - one insertion into an arbitrary strictly sorted list of K nodes
 *   (the representation invariant of a directory), new name distinct from
 *   all of them (mknode is only reached after child_by_name found nothing):
 *     C11.insert.sorted_perm   afterwards the list is strictly sorted in
 *         strcmp order, holds exactly the K old nodes and the new one, each
 *         once, is NULL-terminated, the new node's parent is the directory,
 *         nothing else of any node changed
 * MODE 1 - the relational statement itself, on the mechanism: the same K
 *   distinct names inserted into two empty directories, once in index order
 *   and once in the order PERM (all K! - 1 other orders are cases; names are
 *   symbolic, so every pair of arrival orders is covered):
 *     C11.insert.order_free    both directories list the names in the same
 *         sequence
 * All name bytes symbolic.
 */
#include <string.h>
#include <stdlib.h>
#include "C11/fnode.h"

size_t g_canon_L;
#include "lib/util/src/canonicalize_name.c"
#include "lib/fstree/src/fstree.c"

#ifndef K
#define K 2
#endif
#ifndef MODE
#define MODE 0
#endif
#ifndef PERM
#define PERM 1
#endif

#if MODE == 0
void harness(void)
{
	/* node 0 = directory, 1..K = old children in list order, K+1 = new */
	tree_node_t *dir = TNODE(0), *nn = TNODE(K + 1), *it;
	tree_node_t old[K + 2];
	bool seen[K + 2];
	int k, cnt = 0, prev = -1;

	fnode_init(0, S_IFDIR);
	for (k = 1; k <= K + 1; ++k)
		fnode_init(k, verif_nd_u16("fmt") & S_IFMT);
	for (k = 1; k <= K; ++k) {
		TNODE(k)->parent = dir;
		TNODE(k)->next = k < K ? TNODE(k + 1) : NULL;
		if (k > 1)
			VERIF_ASSUME(fname_cmp(k - 1, k) < 0);
		VERIF_ASSUME(fname_cmp(k, K + 1) != 0);
	}
	dir->data.children = K > 0 ? TNODE(1) : NULL;
	/* whatever the new node's links were, they are overwritten */
	nn->next = verif_nd_bool("junk") ? TNODE(0) : NULL;
	for (k = 0; k <= K + 1; ++k) {
		old[k] = *TNODE(k);
		seen[k] = false;
	}

	insert_sorted(dir, nn);

	it = dir->data.children;
	for (k = 0; k <= K + 1 && it != NULL; ++k) {
		int idx = fnode_index(it);

		VERIF_ASSERT(idx >= 1 && idx <= K + 1 && !seen[idx],
			     "C11.insert.sorted_perm");
		if (idx < 1 || idx > K + 1)
			break;
		seen[idx] = true;
		VERIF_ASSERT(it->parent == dir, "C11.insert.sorted_perm");
		if (prev > 0)
			VERIF_ASSERT(fname_cmp(prev, idx) < 0,
				     "C11.insert.sorted_perm");
		prev = idx;
		++cnt;
		it = it->next;
	}
	VERIF_ASSERT(it == NULL && cnt == K + 1, "C11.insert.sorted_perm");

	/* frame: only next pointers, the new node's parent and the
	 * directory's list head may differ */
	for (k = 0; k <= K + 1; ++k) {
		tree_node_t now = *TNODE(k);

		now.next = old[k].next;
		if (k == 0)
			now.data.children = old[k].data.children;
		if (k == K + 1)
			now.parent = old[k].parent;
		VERIF_ASSERT(now.name == old[k].name && now.uid == old[k].uid &&
			     now.gid == old[k].gid && now.mode == old[k].mode &&
			     now.mod_time == old[k].mod_time &&
			     now.link_count == old[k].link_count &&
			     now.flags == old[k].flags &&
			     now.parent == old[k].parent &&
			     now.next_by_type == old[k].next_by_type &&
			     now.inode_num == old[k].inode_num &&
			     now.xattr_idx == old[k].xattr_idx &&
			     (k == 0 || now.data.children == old[k].data.children),
			     "C11.insert.frame");
	}
	VERIF_COVER(dir->data.children == nn);
#if K > 0
	VERIF_COVER(TNODE(K)->next == nn);
#endif
#if K > 1
	VERIF_COVER(TNODE(1)->next == nn);
#endif
}
#else
/* MODE 1: two directories, nodes 1..K and 4..3+K carry the same names */
static const int perms[6][3] = {
	{ 0, 1, 2 }, { 1, 0, 2 }, { 0, 2, 1 }, { 2, 1, 0 }, { 1, 2, 0 },
	{ 2, 0, 1 }
};

void harness(void)
{
	tree_node_t *d1 = TNODE(0), *d2 = TNODE(7), *a, *b;
	int k, j;
	size_t i;

	fnode_init(0, S_IFDIR);
	fnode_init(7, S_IFDIR);
	for (k = 0; k < K; ++k) {
		fnode_init(1 + k, S_IFREG);
		fnode_init(4 + k, S_IFREG);
		for (i = 0; i <= NAMELEN; ++i)
			FN(4 + k)->name[i] = FN(1 + k)->name[i];
		for (j = 0; j < k; ++j)
			VERIF_ASSUME(fname_cmp(1 + j, 1 + k) != 0);
	}

	for (k = 0; k < K; ++k)
		insert_sorted(d1, TNODE(1 + k));
	for (k = 0; k < 3; ++k) {
		if (perms[PERM][k] < K)
			insert_sorted(d2, TNODE(4 + perms[PERM][k]));
	}

	a = d1->data.children;
	b = d2->data.children;
	for (k = 0; k < K; ++k) {
		int ia = fnode_index(a), ib = fnode_index(b);

		VERIF_ASSERT(a != NULL && b != NULL && ia >= 1 && ia <= 3 &&
			     ib == ia + 3, "C11.insert.order_free");
		if (a == NULL || b == NULL)
			break;
		a = a->next;
		b = b->next;
	}
	VERIF_ASSERT(a == NULL && b == NULL, "C11.insert.order_free");
	VERIF_COVER(d1->data.children == TNODE(K));
	VERIF_COVER(d1->data.children == TNODE(1));
}
#endif
