/* C11: the real mknode (lib/fstree/src/fstree.c) for one entry with fully
 * symbolic attributes (64 bit ids and time, all 16 mode bits, hard-link flag)
 * into a directory that already has one child; name of NLEN symbolic bytes
 * distinct from the sibling's; extra string absent or two symbolic bytes;
 * calloc is the typed-object contract (may fail).
 *
 *   C11.mknode.fields   success => uid, gid, mode, mtime of the new node
 *       are F(ent) (spec/fstree_spec.h - the same function the overwrite
 *       path of fstree_add_generic is held to), its name is the given one,
 *       it is linked under the parent in sorted position, the parent's link
 *       count grew by one, link_count/xattr_idx have their initial values,
 *       hard links are queued for resolution and nothing else is
 *   C11.mknode.fail_clean  failure => errno says why (EMLINK, EINVAL) or the
 *       allocation failed; the directory is unchanged
 */
#include <string.h>
#include <stdlib.h>
#include <errno.h>
#include "C11/fnode.h"
#include "fstree_spec.h"

size_t g_canon_L;

#ifndef NLEN
#define NLEN 2
#endif
#ifndef WITH_EXTRA
#define WITH_EXTRA 0
#endif

struct bignode {
	tree_node_t n;
	sqfs_u8 payload[NLEN + 1 + 3];
};
static struct bignode g_new;
static bool g_new_live, g_calloc_failed;
static size_t g_want_size;

#ifdef VERIF_REPLAY
#define calloc c11_calloc
#define free c11_free
#endif

void *calloc(size_t n, size_t sz)
{
	VERIF_ASSERT(n == 1 && sz == g_want_size && sz <= sizeof(g_new) &&
		     !g_new_live, "C11.env.calloc_pre");
	if (verif_nd_bool("calloc_fail")) {
		g_calloc_failed = true;
		return NULL;
	}
	memset(&g_new, 0, sizeof(g_new));
	g_new_live = true;
	return &g_new;
}

void free(void *p)
{
	VERIF_ASSERT(p == NULL || (p == (void *)&g_new && g_new_live),
		     "C11.env.calloc_pre");
	if (p != NULL)
		g_new_live = false;
}

#include "lib/util/src/canonicalize_name.c"
#include "lib/fstree/src/fstree.c"

struct dent {
	sqfs_dir_entry_t e;
	char room[4];
};

void harness(void)
{
	static fstree_t fs;
	static struct dent de;
	char name[NLEN + 1], extra[3];
	tree_node_t *dir = TNODE(0), *sib = TNODE(1), *r, *queue = TNODE(2);
	struct spec_fields f;
	sqfs_u32 old_links;
	bool hard;
	size_t i;

	fnode_init(0, S_IFDIR);
	fnode_init(1, verif_nd_u16("fmt") & S_IFMT);
	fnode_init(2, S_IFLNK);
	sib->parent = dir;
	dir->data.children = sib;
	old_links = dir->link_count;
	fs.root = dir;
	fs.links_unresolved = verif_nd_bool("queue") ? queue : NULL;

	verif_nd_bytes(name, NLEN, "name");
	name[NLEN] = '\0';
	for (i = 0; i < NLEN; ++i)
		VERIF_ASSUME(name[i] != '\0' && name[i] != '/');
	VERIF_ASSUME(strcmp(name, FN(1)->name) != 0);
	verif_nd_bytes(extra, 2, "extra");
	extra[2] = '\0';

	de.e.size = verif_nd_u64("size");
	de.e.mtime = verif_nd_i64("mtime");
	de.e.dev = verif_nd_u64("dev");
	de.e.rdev = verif_nd_u64("rdev");
	de.e.inode = verif_nd_u64("ino");
	de.e.uid = verif_nd_u64("uid");
	de.e.gid = verif_nd_u64("gid");
	de.e.mode = verif_nd_u16("mode");
	de.e.flags = verif_nd_bool("hard") ? SQFS_DIR_ENTRY_FLAG_HARD_LINK : 0;
	hard = (de.e.flags & SQFS_DIR_ENTRY_FLAG_HARD_LINK) != 0;
	f = spec_node_fields(&de.e);

	g_want_size = sizeof(tree_node_t) + NLEN + 1 +
		(WITH_EXTRA ? strlen(extra) + 1 : 0);
	{
		tree_node_t *old_q = fs.links_unresolved;

		errno = 0;
		r = mknode(&fs, dir, name, NLEN, WITH_EXTRA ? extra : NULL,
			   &de.e);

		VERIF_COVER(r != NULL && hard);
		VERIF_COVER(r != NULL && !hard && S_ISDIR(r->mode));
		VERIF_COVER(r == NULL && !g_calloc_failed);

		if (r == NULL) {
			/* refusals: allocation failure, link count overflow,
			 * a hard link target that cannot be canonicalised, and
			 * (since fix 0ecbfd4) owner IDs / device numbers that
			 * do not fit the 32 bit on-disk fields - never a
			 * silently narrowed value */
			VERIF_ASSERT(g_calloc_failed || errno == EMLINK ||
				     (errno == EINVAL && hard && WITH_EXTRA) ||
				     (errno == EOVERFLOW &&
				      (de.e.uid > 0xFFFFFFFFUL ||
				       de.e.gid > 0xFFFFFFFFUL ||
				       ((S_ISBLK(de.e.mode) || S_ISCHR(de.e.mode)) &&
					!hard && de.e.rdev > 0xFFFFFFFFUL))),
				     "C11.mknode.fail_clean");
			VERIF_ASSERT(dir->data.children == sib &&
				     sib->next == NULL &&
				     dir->link_count == old_links &&
				     fs.links_unresolved == old_q &&
				     !g_new_live, "C11.mknode.fail_clean");
			return;
		}

		VERIF_ASSERT(r == &g_new.n, "C11.mknode.fields");
		VERIF_ASSERT(r->uid == f.uid && r->gid == f.gid &&
			     r->mode == f.mode && r->mod_time == f.mod_time,
			     "C11.mknode.fields");
		VERIF_ASSERT(r->xattr_idx == 0xFFFFFFFF &&
			     r->link_count == (S_ISDIR(f.mode) ? 2U : 1U) &&
			     r->inode_num == 0, "C11.mknode.fields");
		VERIF_ASSERT(r->name == (char *)g_new.payload &&
			     memcmp(r->name, name, NLEN + 1) == 0,
			     "C11.mknode.fields");
		VERIF_ASSERT(r->parent == dir &&
			     dir->link_count == old_links + 1,
			     "C11.mknode.fields");
		if (strcmp(name, FN(1)->name) < 0) {
			VERIF_ASSERT(dir->data.children == r && r->next == sib &&
				     sib->next == NULL, "C11.mknode.fields");
		} else {
			VERIF_ASSERT(dir->data.children == sib &&
				     sib->next == r && r->next == NULL,
				     "C11.mknode.fields");
		}
		if (hard) {
			VERIF_ASSERT((r->flags & FLAG_LINK_IS_HARD) &&
				     fs.links_unresolved == r &&
				     r->next_by_type == old_q,
				     "C11.mknode.fields");
		} else {
			VERIF_ASSERT(r->flags == 0 &&
				     fs.links_unresolved == old_q &&
				     r->next_by_type == NULL,
				     "C11.mknode.fields");
		}
	}
}
