/* C11 harness vocabulary: fstree nodes as typed wrappers, one static object
 * per node reached through a constant pointer table (an ARRAY of wrappers
 * with a flexible array member inside is mis-read by cbmc 6.11 when element
 * index and byte offset are both symbolic). The name lives in the wrapper's
 * own array, tree_node_t.name points at it - exactly the layout mknode
 * builds (name = payload).
 */
#ifndef C11_FNODE_H
#define C11_FNODE_H
#include <sys/stat.h>
#include <stddef.h>
#include "verif.h"
#include "fstree.h"

#ifndef NAMELEN
#define NAMELEN 2
#endif
#define MAXN 8

struct fnode {
	tree_node_t n;
	char name[NAMELEN + 1];
};

static struct fnode g_f0, g_f1, g_f2, g_f3, g_f4, g_f5, g_f6, g_f7;
static struct fnode *const g_fp[MAXN] = {
	&g_f0, &g_f1, &g_f2, &g_f3, &g_f4, &g_f5, &g_f6, &g_f7
};
#define FN(k) (g_fp[k])
#define TNODE(k) (&g_fp[k]->n)

static int fnode_index(const tree_node_t *n)
{
	int k;

	for (k = 0; k < MAXN; ++k) {
		if (n == TNODE(k))
			return k;
	}
	return -1;
}

/* all value fields symbolic, links cleared, name symbolic (NAMELEN bytes +
 * terminator; an embedded NUL gives the shorter names) */
static void fnode_init(int k, sqfs_u16 fmt)
{
	tree_node_t *n = TNODE(k);

	verif_nd_bytes(FN(k)->name, NAMELEN, "name");
	FN(k)->name[NAMELEN] = '\0';
	n->next_by_type = NULL;
	n->next = NULL;
	n->parent = NULL;
	n->name = FN(k)->name;
	n->xattr_idx = verif_nd_u32("xattr");
	n->uid = verif_nd_u32("uid");
	n->gid = verif_nd_u32("gid");
	n->inode_num = verif_nd_u32("inum");
	n->mod_time = verif_nd_u32("mtime");
	n->link_count = verif_nd_u32("nlink");
	n->mode = (sqfs_u16)(fmt | (verif_nd_u16("perm") & 07777));
	n->flags = 0;
	n->inode_ref = verif_nd_u64("iref");
	n->data.children = NULL;
}

/* strcmp order on unsigned bytes */
static int fname_cmp(int a, int b)
{
	size_t i;

	for (i = 0; i <= NAMELEN; ++i) {
		unsigned char x = *(const unsigned char *)&FN(a)->name[i];
		unsigned char y = *(const unsigned char *)&FN(b)->name[i];

		if (x != y)
			return x < y ? -1 : 1;
		if (x == '\0')
			return 0;
	}
	return 0;
}
#endif
