/* C11 (bounded lists): the real child_by_name (lib/fstree/src/fstree.c) on
 * an arbitrary list of K nodes (any order, duplicates allowed - the answer
 * must not rely on the invariant) and a query taken the way the callers take
 * it: a pointer into a longer path plus a length.
 *
 *   C11.child_by_name.exact  the result is the first node whose name is
 *       exactly the LEN-byte prefix of the query (same bytes, same length);
 *       NULL iff there is none - so "is there already an entry of that
 *       name" does not depend on where in the list it is or on what else is
 *       in the list
 * All name and query bytes symbolic; query has QLEN >= LEN bytes, the bytes
 * after the prefix are arbitrary (next path component).
 */
#include <string.h>
#include <stdlib.h>
#include "C11/fnode.h"

size_t g_canon_L;
#include "lib/util/src/canonicalize_name.c"
#include "lib/fstree/src/fstree.c"

#ifndef K
#define K 2
#endif
#ifndef LEN
#define LEN 2
#endif
#define QLEN (NAMELEN + 2)

static bool matches(int k, const char *q, size_t len)
{
	size_t i;

	for (i = 0; i < len; ++i) {
		if (FN(k)->name[i] != q[i] || q[i] == '\0')
			return false;
	}
	return FN(k)->name[len] == '\0';
}

void harness(void)
{
	char q[QLEN + 1];
	tree_node_t *dir = TNODE(0), *r;
	int k, want = -1;
	size_t i;

	fnode_init(0, S_IFDIR);
	for (k = 1; k <= K; ++k) {
		fnode_init(k, verif_nd_u16("fmt") & S_IFMT);
		TNODE(k)->parent = dir;
		TNODE(k)->next = k < K ? TNODE(k + 1) : NULL;
	}
	dir->data.children = K > 0 ? TNODE(1) : NULL;
	verif_nd_bytes(q, QLEN, "query");
	q[QLEN] = '\0';
	/* callers pass len = length of a path component: no NUL inside */
	for (i = 0; i < LEN; ++i)
		VERIF_ASSUME(q[i] != '\0');

	for (k = K; k >= 1; --k) {
		if (matches(k, q, LEN))
			want = k;
	}

	r = child_by_name(dir, q, LEN);

	VERIF_ASSERT((r == NULL) == (want < 0), "C11.child_by_name.exact");
	VERIF_ASSERT(r == NULL || r == TNODE(want), "C11.child_by_name.exact");
	VERIF_COVER(r == NULL);
#if K > 0
	VERIF_COVER(r == TNODE(K));
	VERIF_COVER(r == TNODE(1));
#endif
}
