/* C11: the real fstree_add_generic (with the real fstree_get_node_by_path
 * and child_by_name underneath) for an entry whose name already exists in
 * the root directory. The existing node R/"x" has symbolic attributes and one
 * child of its own; the entry has fully symbolic attributes (64 bit ids and
 * time, all 16 mode bits); the name is NLEN symbolic bytes.
 *
 * STATE 0 - the existing node is a directory that was created implicitly
 *           (as the parent of an earlier entry) and the entry is a directory:
 *   C11.add.overwrite_fields  the node ends up with uid, gid, mode, mtime
 *       = F(ent), the SAME spec function mknode is held to
 *       (C11.mknode.fields) - so "parent seen first" and "directory seen
 *       first" give the same node; the implicit flag is cleared; children,
 *       link count, position in the parent are untouched; no allocation
 *   C11.add.overwrite_fields.mtime_clamp   the mtime clause for entry times
 *       outside 0 .. 2^32-1 (split off: it is a recorded finding of
 *       snapshot c02cd92, see proposed_known_findings.json)
 * STATE 1 - the existing node is explicit (any kind), or it is not a
 *           directory, or the entry is not a directory:
 *   C11.add.eexist   the entry is refused with EEXIST and the tree is
 *       unchanged - a second explicit entry of a name loses, whichever of the
 *       two came first
 */
#include <string.h>
#include <stdlib.h>
#include <errno.h>
#include "C11/fnode.h"
#include "fstree_spec.h"

size_t g_canon_L;

#ifndef NLEN
#define NLEN 1
#endif
#ifndef STATE
#define STATE 0
#endif

#ifdef VERIF_REPLAY
#define calloc c11_calloc
#endif

void *calloc(size_t n, size_t sz)
{
	(void)n; (void)sz;
	VERIF_ASSERT(0, "C11.add.no_alloc");
	return NULL;
}

#include "lib/util/src/canonicalize_name.c"
#include "lib/fstree/src/fstree.c"

/* the entry's name is a flexible array member that starts inside the tail
 * padding of sqfs_dir_entry_t: the room behind it is reserved here, the bytes
 * are written through e.name */
struct dent {
	sqfs_dir_entry_t e;
	char room[NLEN + 1];
};

void harness(void)
{
	static fstree_t fs;
	static struct dent de;
	tree_node_t *root = TNODE(0), *x = TNODE(1), *sub = TNODE(2), *r;
	tree_node_t old;
	struct spec_fields f;
	size_t i;

	fnode_init(0, S_IFDIR);
	FN(0)->name[0] = '\0';
#if STATE == 0
	fnode_init(1, S_IFDIR);
	x->flags = FLAG_DIR_CREATED_IMPLICITLY;
#else
	fnode_init(1, verif_nd_u16("fmt") & S_IFMT);
	x->flags = verif_nd_bool("implicit") ? FLAG_DIR_CREATED_IMPLICITLY : 0;
#endif
	fnode_init(2, S_IFREG);
	for (i = 0; i < NLEN; ++i)
		VERIF_ASSUME(FN(1)->name[i] != '\0' && FN(1)->name[i] != '/');
	FN(1)->name[NLEN] = '\0';
	x->parent = root;
	root->data.children = x;
	if (S_ISDIR(x->mode)) {
		x->data.children = sub;
		sub->parent = x;
	}
	fs.root = root;
	fs.defaults.mode = verif_nd_u16("defmode");
	fs.defaults.uid = verif_nd_u32("defuid");
	fs.defaults.gid = verif_nd_u32("defgid");
	fs.defaults.mtime = verif_nd_u32("defmtime");

	for (i = 0; i <= NLEN; ++i)
		de.e.name[i] = FN(1)->name[i];
	de.e.size = verif_nd_u64("size");
	de.e.mtime = verif_nd_i64("mtime");
	de.e.dev = verif_nd_u64("dev");
	de.e.rdev = verif_nd_u64("rdev");
	de.e.inode = verif_nd_u64("ino");
	de.e.uid = verif_nd_u64("uid");
	de.e.gid = verif_nd_u64("gid");
	de.e.flags = 0;
#if STATE == 0
	de.e.mode = S_IFDIR | (verif_nd_u16("perm") & 07777);
#else
	de.e.mode = verif_nd_u16("mode");
	/* everything except "implicit directory meets directory entry" */
	VERIF_ASSUME(!(S_ISDIR(x->mode) && S_ISDIR(de.e.mode) &&
		       (x->flags & FLAG_DIR_CREATED_IMPLICITLY)));
	/* a symlink entry without a target is refused earlier (EINVAL) */
	VERIF_ASSUME(!S_ISLNK(de.e.mode));
#endif
	f = spec_node_fields(&de.e);
	old = *x;

	errno = 0;
	r = fstree_add_generic(&fs, &de.e, NULL);

#if STATE == 0
	VERIF_ASSERT(r == x, "C11.add.overwrite_fields");
	VERIF_ASSERT(x->uid == f.uid && x->gid == f.gid && x->mode == f.mode,
		     "C11.add.overwrite_fields");
	if (de.e.mtime >= 0 && de.e.mtime <= 0xFFFFFFFFLL) {
		VERIF_ASSERT(x->mod_time == f.mod_time,
			     "C11.add.overwrite_fields");
	} else {
		VERIF_ASSERT(x->mod_time == f.mod_time,
			     "C11.add.overwrite_fields.mtime_clamp");
	}
	VERIF_ASSERT(!(x->flags & FLAG_DIR_CREATED_IMPLICITLY) &&
		     x->data.children == sub && x->link_count == old.link_count &&
		     x->parent == root && x->next == NULL &&
		     root->data.children == x && x->name == old.name,
		     "C11.add.overwrite_fields");
	VERIF_COVER(de.e.mtime < 0);
	VERIF_COVER(de.e.mtime > 0xFFFFFFFFLL);
	VERIF_COVER(de.e.mtime >= 0 && de.e.mtime <= 0xFFFFFFFFLL);
#else
	VERIF_ASSERT(r == NULL && errno == EEXIST, "C11.add.eexist");
	VERIF_ASSERT(x->uid == old.uid && x->gid == old.gid &&
		     x->mode == old.mode && x->mod_time == old.mod_time &&
		     x->flags == old.flags && x->link_count == old.link_count &&
		     x->next == NULL && root->data.children == x,
		     "C11.add.eexist");
	VERIF_COVER(S_ISDIR(x->mode) && S_ISDIR(de.e.mode));
	VERIF_COVER(!S_ISDIR(x->mode));
#endif
}
