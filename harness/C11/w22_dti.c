/* C11 (w22): lib/common/src/dir_tree_iterator.c - the real next(), should_skip,
 * expand_path, apply_changes with a NON-EMPTY prefix (the realloc / memmove
 * path of expand_path) and with a name pattern (the fnmatch branch). These are
 * the two shapes w11_dti_next could not finish (DESIGN 11.7); everything w11
 * states for the empty-prefix / no-pattern shape is stated here again, since it
 * is the same function.
 *
 * What made it tractable: all LENGTHS are concrete per case (prefix PLEN bytes,
 * delivered names ELEN bytes, NENT entries delivered before the wrapped
 * iterator ends or fails), all BYTES and attributes symbolic;
 *   strlen    a checked contract: for the two strings next() measures (the
 *             prefix, the delivered name) it returns the case's length after
 *             asserting that the string really has it - so sizes and offsets
 *             stay constants in symex;
 *   realloc   a contract on typed fixed-size objects: NULL with the old block
 *             untouched | a fresh block of the requested size (at least what the
 *             result needs - asserted) holding the old contents, old one freed;
 *   memmove / memcpy   checking stubs (r_ok / w_ok, then the bytes);
 *   fnmatch   a contract: any verdict, arguments checked;
 *   wrapped iterator   a contract: entry number 1..NENT = any entry (all 2^16
 *             modes, all flags, all ids / times, name of ELEN non-NUL bytes,
 *             '/' allowed: the recursive iterator yields relative paths), then
 *             any non-zero value.
 *
 *   C11.dti.next.prefix        yielded name = prefix '/' original name (no prefix / empty prefix: the original
 *                              name), NUL terminated, in a block large enough for it
 *   C11.dti.next.rewrite       mtime/uid/gid/permission bits = the configured defaults unless KEEP_*; type bits,
 *                              size, dev, rdev, inode, flags unchanged
 *   C11.dti.next.fnmatch_args  fnmatch is called once per entry that survived the type filters, with
 *                              pattern = cfg.name_pattern and string = the full (prefixed) path + FNM_PATHNAME
 *                              iff DIR_SCAN_MATCH_FULL_PATH, else the last path component + flags 0; never
 *                              without a pattern
 *   C11.dti.next.match_filter  such an entry is dropped iff fnmatch's verdict is non-zero. A directory dropped
 *                              by the PATTERN is still descended into (dir_tree_iterator.h: "The iterator
 *                              still recurses into directories, it simply doesn't report them if they don't
 *                              match"; find(1) -name semantics): no ignore_subdir for it, unless
 *                              DIR_SCAN_NO_RECURSION, which sends exactly one for every directory
 *   C11.dti.next.elementwise   dropped by should_skip / NO_DIR exactly as spec(entry, cfg) says, without
 *                              consulting fnmatch or realloc for a type-filtered entry
 *   C11.dti.next.ignore_subdir exactly one ignore_subdir for a type-/mount-filtered directory and, with
 *                              NO_RECURSION, for every other directory; none otherwise
 *   C11.dti.next.no_buffering  the entry yielded is the last one read
 *   C11.dti.next.cfg_frame / .sticky / .end_error   as in w11_dti
 *   (memory-leak check)        dropped entries and the old block are freed
 *
 * WITH_READ_LINK (harness w22_dti_read_link): after next() has yielded an entry the real read_link() is called
 * for it; the wrapped iterator's read_link is a contract (any error | a fresh TLEN-byte string - for an entry
 * flagged SQFS_DIR_ENTRY_FLAG_HARD_LINK that string is, as dir_hl.c documents, the NAME UNDER WHICH THE WRAPPED
 * ITERATOR YIELDED the first link, i.e. a name without this iterator's prefix).
 *   C01.dti.read_link.hl_target_namespace   hard link + non-empty prefix: the target returned is prefix '/' that
 *                              name - the name under which THIS iterator yielded the first link (dir_tree_iterator.h:
 *                              the prefix is "prepended to all entries returned by the iterator"); otherwise the link
 *                              names a different or no entry of the tree that scan_directory builds
 *   C01.dti.read_link.verbatim symlink (not flagged), or no prefix: exactly the wrapped iterator's string
 *   C11.dti.fwd.rec            one call to rec->read_link; its error is passed on; nothing leaks
 */
#include <stdlib.h>
#include <string.h>
#include <stdio.h>
#include "verif.h"

#ifndef PLEN
#define PLEN 1		/* length of cfg.prefix (0: empty string, -1: NULL) */
#endif
#ifndef ELEN
#define ELEN 2		/* length of delivered entry names */
#endif
#ifndef NENT
#define NENT 1		/* entries the wrapped iterator delivers before it ends / fails */
#endif
#ifndef HAS_PATTERN
#define HAS_PATTERN 1
#endif
#ifndef END
#define END 1		/* what the wrapped iterator says after its NENT entries: concrete, so that symex sees
			 * that next() returns (a symbolic non-zero value made symex unwind the retry loops
			 * to their bounds: 260 s instead of seconds). That ANY non-zero value is passed on
			 * unchanged is w11_dti_next's C11.dti.next.end_error - the statement that does it is
			 * the same for every prefix / pattern. */
#endif
#ifndef TLEN
#define TLEN 1		/* WITH_READ_LINK: length of the target the wrapped iterator reports */
#endif
#define PL (PLEN > 0 ? PLEN : 0)
#define OFF (PL > 0 ? PL + 1 : 0)
#define MAXNAME (OFF + ELEN + 1)

#include "lib/common/src/dir_tree_iterator.c"

struct dent {
	sqfs_dir_entry_t e;
	char room[ELEN + 1];
};
struct bigdent {
	sqfs_dir_entry_t e;
	char room[MAXNAME];
};

static dir_tree_iterator_t g_it;
static dir_tree_cfg_t g_cfg0;
static char g_prefix[PL + 1];
static char g_pattern[3];
static sqfs_dir_iterator_t g_rec;

static bool g_pending;			/* an entry was delivered and not judged yet */
static sqfs_dir_entry_t g_e0;		/* its attributes as delivered */
static char g_n0[ELEN + 1];		/* its name as delivered */
static void *g_cur;			/* where it lives now */
static bool g_cur_big;			/* ... after a successful realloc */
static int g_calls, g_reads, g_judged, g_ign, g_fn_calls, g_fn_ret, g_src_ret;
static bool g_src_done, g_fn_ok, g_realloc_called, g_realloc_failed;
static char *g_tgt;			/* the string the wrapped read_link returned */
static char g_target[TLEN + 1];		/* its contents */
static int g_rl_calls, g_rl_ret;

/* ---- libc contracts ----------------------------------------------------------------- */
static size_t checked_len(const char *s, size_t n)
{
	size_t k;

	for (k = 0; k < n; ++k)
		VERIF_ASSERT(s[k] != '\0', "C11.dti.env.strlen_model");
	VERIF_ASSERT(s[n] == '\0', "C11.dti.env.strlen_model");
	return n;
}

size_t strlen(const char *s)
{
	size_t n = 0;

	if (s == g_prefix)
		return checked_len(s, PL);
	if (g_cur != NULL && !g_cur_big && s == ((sqfs_dir_entry_t *)g_cur)->name)
		return checked_len(s, ELEN);
	if (g_tgt != NULL && s == g_tgt)
		return checked_len(s, TLEN);
	while (s[n] != '\0')
		++n;
	return n;
}

char *strrchr(const char *s, int c)
{
	const char *last = NULL;
	size_t i = 0;

	do {
		if (s[i] == (char)c)
			last = s + i;
	} while (s[i++] != '\0');
	return (char *)last;
}

void *memcpy(void *dst, const void *src, size_t n)
{
	size_t i;

	VERIF_ASSERT(VERIF_R_OK(src, n) && VERIF_W_OK(dst, n), "C11.dti.env.memcpy_pre");
	for (i = 0; i < n; ++i)
		((char *)dst)[i] = ((const char *)src)[i];
	return dst;
}

void *memmove(void *dst, const void *src, size_t n)
{
	char tmp[MAXNAME + 1];
	size_t i;

	VERIF_ASSERT(n <= sizeof(tmp) && VERIF_R_OK(src, n) && VERIF_W_OK(dst, n),
		     "C11.dti.env.memmove_pre");
	for (i = 0; i < n && i < sizeof(tmp); ++i)
		tmp[i] = ((const char *)src)[i];
	for (i = 0; i < n && i < sizeof(tmp); ++i)
		((char *)dst)[i] = tmp[i];
	return dst;
}

void *realloc(void *p, size_t n)
{
	struct bigdent *b;
	struct dent *old = p;
	size_t k;

	VERIF_ASSERT(g_pending && p == g_cur && !g_cur_big && !g_realloc_called,
		     "C11.dti.env.realloc_pre");
	/* the block must hold prefix '/' name NUL */
	VERIF_ASSERT(n >= sizeof(sqfs_dir_entry_t) + MAXNAME, "C11.dti.next.prefix");
	VERIF_ASSERT(n <= sizeof(*b), "C11.dti.env.realloc_pre");
	g_realloc_called = true;
	if (verif_nd_bool("realloc.fail")) {
		g_realloc_failed = true;
		return NULL;
	}
	b = malloc(sizeof(*b));
	VERIF_ASSUME(b != NULL);
	b->e.size = old->e.size;
	b->e.mtime = old->e.mtime;
	b->e.dev = old->e.dev;
	b->e.rdev = old->e.rdev;
	b->e.inode = old->e.inode;
	b->e.uid = old->e.uid;
	b->e.gid = old->e.gid;
	b->e.mode = old->e.mode;
	b->e.flags = old->e.flags;
	for (k = 0; k <= ELEN; ++k)
		b->e.name[k] = old->e.name[k];
	/* the rest of the new block is indeterminate */
	for (k = ELEN + 1; k < MAXNAME; ++k)
		((unsigned char *)b->e.name)[k] = verif_nd_u8("realloc.junk");
	free(p);
	g_cur = b;
	g_cur_big = true;
	return b;
}

int fnmatch(const char *pattern, const char *string, int flags)
{
	const char *name = ((sqfs_dir_entry_t *)g_cur)->name;
	size_t k;
	bool ok;

	++g_fn_calls;
	ok = g_pending && pattern == g_cfg0.name_pattern && pattern != NULL;
	if (g_cfg0.flags & DIR_SCAN_MATCH_FULL_PATH) {
		ok = ok && string == name && flags == FNM_PATHNAME;
	} else {
		/* the last component: starts the name or follows a '/', and
		 * holds no '/' itself */
		ok = ok && flags == 0 && VERIF_SAME_OBJECT(string, name) &&
		     (string == name || string[-1] == '/');
		for (k = 0; k < MAXNAME && string[k] != '\0'; ++k)
			ok = ok && string[k] != '/';
	}
	g_fn_ok = ok;
	g_fn_ret = verif_nd_int("fnmatch.ret");
	return g_fn_ret;
}

void perror(const char *s) { (void)s; }
int fprintf(FILE *f, const char *fmt, ...) { (void)f; (void)fmt; return 0; }

/* dir_tree_iterator_create is compiled but not reachable from this harness */
int sqfs_dir_iterator_create_native(sqfs_dir_iterator_t **out, const char *path, sqfs_u32 flags)
{
	(void)out; (void)path; (void)flags;
	VERIF_ASSERT(0, "C11.dti.env.not_called");
	return -1;
}

int sqfs_dir_iterator_create_recursive(sqfs_dir_iterator_t **out, sqfs_dir_iterator_t *base)
{
	(void)out; (void)base;
	VERIF_ASSERT(0, "C11.dti.env.not_called");
	return -1;
}

int sqfs_hard_link_filter_create(sqfs_dir_iterator_t **out, sqfs_dir_iterator_t *base)
{
	(void)out; (void)base;
	VERIF_ASSERT(0, "C11.dti.env.not_called");
	return -1;
}

/* ---- spec ------------------------------------------------------------------------------- */
static unsigned int spec_type_mask(sqfs_u16 mode)
{
	switch (mode & S_IFMT) {
	case S_IFSOCK: return DIR_SCAN_NO_SOCK;
	case S_IFLNK: return DIR_SCAN_NO_SLINK;
	case S_IFREG: return DIR_SCAN_NO_FILE;
	case S_IFBLK: return DIR_SCAN_NO_BLK;
	case S_IFCHR: return DIR_SCAN_NO_CHR;
	case S_IFIFO: return DIR_SCAN_NO_FIFO;
	default: return 0;
	}
}

/* judge the pending entry: `yielded' is what the code did with it */
static void judge(bool yielded)
{
	const sqfs_u32 f = g_cfg0.flags;
	bool isdir = S_ISDIR(g_e0.mode);
	bool filtered, keep, by_pattern = false;
	int want_ign;

	filtered = ((f & DIR_SCAN_ONE_FILESYSTEM) &&
		    (g_e0.flags & SQFS_DIR_ENTRY_FLAG_MOUNT_POINT)) ||
		   (f & spec_type_mask(g_e0.mode)) != 0;
	if (filtered) {
		keep = false;
		want_ign = isdir ? 1 : 0;
		VERIF_ASSERT(g_fn_calls == 0 && !g_realloc_called,
			     "C11.dti.next.elementwise");
		VERIF_ASSERT(yielded == keep, "C11.dti.next.elementwise");
	} else {
		want_ign = (isdir && (f & DIR_SCAN_NO_RECURSION)) ? 1 : 0;
		if (isdir && (f & DIR_SCAN_NO_DIR)) {
			keep = false;
			VERIF_ASSERT(g_fn_calls == 0, "C11.dti.next.fnmatch_args");
			VERIF_ASSERT(yielded == keep, "C11.dti.next.elementwise");
		} else if (g_cfg0.name_pattern != NULL) {
			VERIF_ASSERT(g_fn_calls == 1 && g_fn_ok,
				     "C11.dti.next.fnmatch_args");
			keep = g_fn_ret == 0;
			by_pattern = true;
			VERIF_ASSERT(yielded == keep, "C11.dti.next.match_filter");
		} else {
			VERIF_ASSERT(g_fn_calls == 0, "C11.dti.next.fnmatch_args");
			keep = true;
			VERIF_ASSERT(yielded == keep, "C11.dti.next.elementwise");
		}
	}
	if (by_pattern && !keep)
		VERIF_ASSERT(g_ign == want_ign, "C11.dti.next.match_filter");
	else
		VERIF_ASSERT(g_ign == want_ign, "C11.dti.next.ignore_subdir");
	VERIF_COVER(filtered && isdir);
	VERIF_COVER(!filtered && !keep);
#if HAS_PATTERN
	VERIF_COVER(by_pattern && !keep && isdir && g_ign == 0);
	VERIF_COVER(by_pattern && !keep && isdir && g_ign == 1);
	VERIF_COVER(by_pattern && keep);
#endif
	g_pending = false;
	++g_judged;
	g_ign = 0;
	g_fn_calls = 0;
	g_realloc_called = false;
}

/* ---- the wrapped iterator ------------------------------------------------------------------ */
static int stub_next(sqfs_dir_iterator_t *it, sqfs_dir_entry_t **out)
{
	struct dent *d;
	size_t k;
	int r;

	VERIF_ASSERT(it == &g_rec, "C11.dti.env.rec");
	VERIF_ASSERT(!g_src_done, "C11.dti.next.end_error");
	if (g_pending)
		judge(false);
	VERIF_ASSERT(g_ign == 0, "C11.dti.next.ignore_subdir");
	++g_calls;
	if (g_calls > NENT + 1) {
		/* unreachable (asserted above); tells symex so */
		VERIF_ASSUME(0);
	}
	if (g_calls > NENT) {
		r = END;
		g_src_ret = r;
		g_src_done = true;
		*out = NULL;
		return r;
	}
	++g_reads;
	d = malloc(sizeof(*d));
	VERIF_ASSUME(d != NULL);
	d->e.size = verif_nd_u64("ent.size");
	d->e.mtime = verif_nd_i64("ent.mtime");
	d->e.dev = verif_nd_u64("ent.dev");
	d->e.rdev = verif_nd_u64("ent.rdev");
	d->e.inode = verif_nd_u64("ent.inode");
	d->e.uid = verif_nd_u64("ent.uid");
	d->e.gid = verif_nd_u64("ent.gid");
	d->e.mode = verif_nd_u16("ent.mode");
	d->e.flags = verif_nd_u16("ent.flags");
	for (k = 0; k <= ELEN; ++k) {
		unsigned char c = verif_nd_u8("ent.name");

		if (k == ELEN)
			c = 0;
		else
			VERIF_ASSUME(c != 0);
		((unsigned char *)d->e.name)[k] = c;
		((unsigned char *)g_n0)[k] = c;
	}
	g_e0 = d->e;
	g_cur = d;
	g_cur_big = false;
	g_pending = true;
	*out = &d->e;
	return 0;
}

static void stub_ignore_subdir(sqfs_dir_iterator_t *it)
{
	VERIF_ASSERT(it == &g_rec && g_pending, "C11.dti.next.ignore_subdir");
	++g_ign;
}

static void stub_destroy(sqfs_object_t *o)
{
	(void)o;
	VERIF_ASSERT(0, "C11.dti.next.cfg_frame");
}

static int stub_read_link(sqfs_dir_iterator_t *it, char **out)
{
	size_t k;
	char *p;

	VERIF_ASSERT(it == &g_rec, "C11.dti.fwd.rec");
	++g_rl_calls;
	g_rl_ret = verif_nd_int("read_link.ret");
	VERIF_ASSUME(g_rl_ret <= 0);
	if (g_rl_ret != 0) {
		*out = NULL;
		return g_rl_ret;
	}
	p = malloc(TLEN + 1);
	VERIF_ASSUME(p != NULL);
	for (k = 0; k < TLEN; ++k) {
		unsigned char c = verif_nd_u8("target");

		VERIF_ASSUME(c != 0);
		((unsigned char *)p)[k] = c;
		((unsigned char *)g_target)[k] = c;
	}
	p[TLEN] = '\0';
	g_target[TLEN] = '\0';
	g_tgt = p;
	*out = p;
	return 0;
}

static bool cfg_same(const dir_tree_cfg_t *a, const dir_tree_cfg_t *b)
{
	return a->flags == b->flags && a->def_uid == b->def_uid &&
	       a->def_gid == b->def_gid && a->def_mode == b->def_mode &&
	       a->def_mtime == b->def_mtime && a->prefix == b->prefix &&
	       a->name_pattern == b->name_pattern;
}

void harness(void)
{
	sqfs_dir_entry_t *out = (sqfs_dir_entry_t *)&g_rec;
	size_t k;
	int ret;

	g_pending = false; g_cur = NULL; g_cur_big = false; g_calls = 0; g_reads = 0;
	g_judged = 0; g_ign = 0; g_fn_calls = 0; g_fn_ret = 0; g_src_ret = 0;
	g_src_done = false; g_fn_ok = false;
	g_realloc_called = false; g_realloc_failed = false;
	g_tgt = NULL; g_rl_calls = 0; g_rl_ret = 0;
	g_rec.read_link = stub_read_link;
	g_rec.obj.refcount = 1;
	g_rec.obj.destroy = stub_destroy;
	g_rec.next = stub_next;
	g_rec.ignore_subdir = stub_ignore_subdir;

	for (k = 0; k < PL; ++k) {
		unsigned char c = verif_nd_u8("prefix");

		VERIF_ASSUME(c != 0);
		((unsigned char *)g_prefix)[k] = c;
	}
	g_prefix[PL] = '\0';
	((unsigned char *)g_pattern)[0] = verif_nd_u8("pattern");
	((unsigned char *)g_pattern)[1] = verif_nd_u8("pattern");
	g_pattern[2] = '\0';

	g_cfg0.flags = verif_nd_u32("cfg.flags");
	g_cfg0.def_uid = verif_nd_u32("cfg.uid");
	g_cfg0.def_gid = verif_nd_u32("cfg.gid");
	g_cfg0.def_mode = verif_nd_u32("cfg.mode");
	g_cfg0.def_mtime = verif_nd_i64("cfg.mtime");
	g_cfg0.prefix = PLEN < 0 ? NULL : g_prefix;
	g_cfg0.name_pattern = HAS_PATTERN ? g_pattern : NULL;
#ifdef FULL_PATH	/* optional split of the one flag that selects the fnmatch argument */
	if (FULL_PATH)
		g_cfg0.flags |= DIR_SCAN_MATCH_FULL_PATH;
	else
		g_cfg0.flags &= ~(sqfs_u32)DIR_SCAN_MATCH_FULL_PATH;
#endif

	g_it.cfg = g_cfg0;
	g_it.rec = &g_rec;
	g_it.state = 0;		/* state != 0: w11_dti_next (sticky) */

	ret = next(&g_it.base, &out);

	VERIF_ASSERT(cfg_same(&g_it.cfg, &g_cfg0) && g_it.rec == &g_rec &&
		     g_rec.obj.refcount == 1, "C11.dti.next.cfg_frame");
	VERIF_ASSERT(g_it.state == ret, "C11.dti.next.sticky");
	if (ret != 0) {
		VERIF_ASSERT(out == NULL, "C11.dti.next.end_error");
		if (g_realloc_failed) {
			VERIF_ASSERT(ret == SQFS_ERROR_ALLOC, "C11.dti.next.end_error");
#if PLEN > 0
			VERIF_COVER(1);
#endif
		} else {
			/* whatever the wrapped iterator said; every entry read
			 * before was judged (dropped) */
			VERIF_ASSERT(g_src_done && ret == g_src_ret && !g_pending &&
				     g_judged == g_reads && g_reads == NENT,
				     "C11.dti.next.end_error");
			VERIF_COVER(ret == END);
		}
		return;
	}
	VERIF_ASSERT(out != NULL && g_pending && (void *)out == g_cur &&
		     g_judged + 1 == g_reads, "C11.dti.next.no_buffering");
	VERIF_ASSERT(g_cur_big == (PL > 0), "C11.dti.next.prefix");
	judge(true);

	/* the name: prefix '/' original name */
	for (k = 0; k < PL; ++k)
		VERIF_ASSERT(out->name[k] == g_prefix[k], "C11.dti.next.prefix");
	if (PL > 0)
		VERIF_ASSERT(out->name[PL] == '/', "C11.dti.next.prefix");
	for (k = 0; k <= ELEN; ++k)
		VERIF_ASSERT(out->name[OFF + k] == g_n0[k], "C11.dti.next.prefix");
	/* the attributes, a function of (g_e0, cfg) */
	VERIF_ASSERT(out->mtime == ((g_cfg0.flags & DIR_SCAN_KEEP_TIME) ?
				    g_e0.mtime : g_cfg0.def_mtime) &&
		     out->uid == ((g_cfg0.flags & DIR_SCAN_KEEP_UID) ?
				  g_e0.uid : g_cfg0.def_uid) &&
		     out->gid == ((g_cfg0.flags & DIR_SCAN_KEEP_GID) ?
				  g_e0.gid : g_cfg0.def_gid) &&
		     out->mode == ((g_cfg0.flags & DIR_SCAN_KEEP_MODE) ? g_e0.mode :
				   (sqfs_u16)((g_e0.mode & ~07777) |
					      (g_cfg0.def_mode & 07777))),
		     "C11.dti.next.rewrite");
	VERIF_ASSERT(out->size == g_e0.size && out->dev == g_e0.dev &&
		     out->rdev == g_e0.rdev && out->inode == g_e0.inode &&
		     out->flags == g_e0.flags, "C11.dti.next.rewrite");
	VERIF_COVER(g_reads == NENT);
	VERIF_COVER(S_ISDIR(out->mode) && (g_cfg0.flags & DIR_SCAN_NO_RECURSION));
#ifdef WITH_READ_LINK
	{
		bool is_hl = (g_e0.flags & SQFS_DIR_ENTRY_FLAG_HARD_LINK) != 0;
		char *tgt = NULL;
		int r;

		r = read_link(&g_it.base, &tgt);

		VERIF_ASSERT(g_rl_calls == 1, "C11.dti.fwd.rec");
		VERIF_ASSERT(cfg_same(&g_it.cfg, &g_cfg0) && g_it.rec == &g_rec &&
			     g_it.state == 0, "C11.dti.fwd.frame");
		if (g_rl_ret != 0) {
			VERIF_ASSERT(r == g_rl_ret && tgt == NULL, "C11.dti.fwd.rec");
			VERIF_COVER(1);
		} else if (r != 0) {
			/* only where a new string has to be built */
			VERIF_ASSERT(r == SQFS_ERROR_ALLOC && tgt == NULL && is_hl && PL > 0,
				     "C11.dti.fwd.rec");
		} else if (is_hl && PL > 0) {
			bool room = tgt != NULL && VERIF_R_OK(tgt, PL + 1 + TLEN + 1);

			VERIF_ASSERT(room, "C01.dti.read_link.hl_target_namespace");
			if (room) {
				for (k = 0; k < PL; ++k)
					VERIF_ASSERT(tgt[k] == g_prefix[k],
						     "C01.dti.read_link.hl_target_namespace");
				VERIF_ASSERT(tgt[PL] == '/',
					     "C01.dti.read_link.hl_target_namespace");
				for (k = 0; k <= TLEN; ++k)
					VERIF_ASSERT(tgt[PL + 1 + k] == g_target[k],
						     "C01.dti.read_link.hl_target_namespace");
			}
#if PLEN > 0
			VERIF_COVER(1);
#endif
		} else {
			bool room = tgt != NULL && VERIF_R_OK(tgt, TLEN + 1);

			VERIF_ASSERT(room, "C01.dti.read_link.verbatim");
			for (k = 0; room && k <= TLEN; ++k)
				VERIF_ASSERT(tgt[k] == g_target[k], "C01.dti.read_link.verbatim");
#if PLEN <= 0
			VERIF_COVER(is_hl);
#endif
			VERIF_COVER(!is_hl);
		}
		free(tgt);
	}
#endif
	free(out);
}
