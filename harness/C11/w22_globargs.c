/* C01 / C11 (w22): what the real glob_files() tells the real scan_directory()
 * (bin/gensquashfs/src/glob.c) - the two arguments w11_glob_flags cannot see
 * because its iterator is empty: prefix_len and file_prefix. Composition check
 * through both real functions (the line is concrete and has no options, one
 * entry is delivered, so this is cheap).
 *
 * gensquashfs.1: "glob <path> ... [OPTIONS...] <location>": the location "is
 * interpreted relative to the pack directory ... scanned recursively and the
 * contents are added to the specified virtual path"; a file's <location> is
 * the "location of the input file ... relative to ... the pack directory. If
 * omitted, the image path is used as a relative path".
 *
 * The iterator contract yields ONE regular file the way dir_tree_iterator.c
 * does for the configuration it was created with: cfg.prefix '/' x (x when the
 * prefix is empty), x one symbolic byte; then the directory ends.
 *
 *   C01.glob.scan_args.location   the input location handed to fstree_add_generic is the path of the file
 *                                 relative to the pack directory: <location> '/' x with a location argument
 *                                 (TAIL 1: "s", TAIL 2: "--" "s"), x without one (or NULL when the image path is
 *                                 x as well: target = root)
 *   C01.glob.scan_args.image_path the entry's name (image path: target path '/' x) is handed over unchanged
 *   C11.glob.scan_once            one iterator, one entry, handed over once, iterator dropped once, result 0
 *
 * PFX 1: the glob target is the directory "d"; 0: the root (canonical path "").
 */
#include <stdlib.h>
#include <string.h>
#include <stdio.h>
#include <stddef.h>
#include "verif.h"

#include "bin/gensquashfs/src/mkfs.h"

#ifndef PFX
#define PFX 1
#endif
#ifndef TAIL
#define TAIL 1
#endif
#define CAP 4

#include "bin/gensquashfs/src/glob.c"
#include "lib/util/src/split_line.c"

size_t strlen(const char *s)
{
	size_t n = 0;

	while (s[n] != '\0')
		++n;
	return n;
}

int strcmp(const char *a, const char *b)
{
	size_t i = 0;

	while (a[i] != '\0' && a[i] == b[i])
		++i;
	return (int)*(const unsigned char *)&a[i] - (int)*(const unsigned char *)&b[i];
}

void *memcpy(void *dst, const void *src, size_t n)
{
	size_t i;

	VERIF_ASSERT(VERIF_R_OK(src, n) && VERIF_W_OK(dst, n), "C01.glob.env.memcpy_pre");
	for (i = 0; i < n; ++i)
		((char *)dst)[i] = ((const char *)src)[i];
	return dst;
}

char *strdup(const char *s)
{
	size_t n = strlen(s), k;
	char *p = malloc(n + 1);

	VERIF_ASSUME(p != NULL);
	for (k = 0; k <= n; ++k)
		p[k] = s[k];
	return p;
}

static int g_errno;
int *__errno_location(void) { return &g_errno; }

struct dent {
	sqfs_dir_entry_t e;
	char room[4];
};

static tree_node_t g_target, g_node;
static fstree_t g_fs;
static sqfs_dir_iterator_t g_iter;
static dir_tree_cfg_t g_cfg;
static char *g_prefix;
static char g_scan_path[8];
static unsigned char g_x;
static int g_creates, g_nexts, g_adds, g_destroys;
static struct {
	split_line_t s;
	char *room[CAP];
} g_sep;
static char a0[4], a1[4];

tree_node_t *fstree_get_node_by_path(fstree_t *fs, tree_node_t *root,
				     const char *path, bool create_implicitly,
				     bool stop_at_parent)
{
	(void)path;
	VERIF_ASSERT(fs == &g_fs && root == &g_target, "C01.glob.env.lookup_pre");
	/* glob_files: the target node; scan_directory: the parent of the entry */
	VERIF_ASSERT(create_implicitly != stop_at_parent, "C01.glob.env.lookup_pre");
	return &g_target;
}

char *fstree_get_path(tree_node_t *node)
{
	char *p = malloc(2);

	VERIF_ASSERT(node == &g_target, "C01.glob.env.get_path_pre");
	VERIF_ASSUME(p != NULL);
	p[0] = PFX ? 'd' : '\0';
	p[1] = '\0';
	g_prefix = p;
	return p;
}

int canonicalize_name(char *filename)
{
	VERIF_ASSERT(filename == g_prefix, "C01.glob.env.canon_pre");
	return 0;
}

static int stub_next(sqfs_dir_iterator_t *it, sqfs_dir_entry_t **out)
{
	struct dent *d;

	VERIF_ASSERT(it == &g_iter, "C01.glob.env.iter");
	++g_nexts;
	if (g_nexts > 2)
		VERIF_ASSUME(0);
	if (g_nexts == 2)
		return 1;
	d = malloc(sizeof(*d));
	VERIF_ASSUME(d != NULL);
	d->e.size = verif_nd_u64("ent.size");
	d->e.mtime = verif_nd_i64("ent.mtime");
	d->e.dev = 0; d->e.rdev = 0; d->e.inode = 0;
	d->e.uid = verif_nd_u32("ent.uid");
	d->e.gid = verif_nd_u32("ent.gid");
	d->e.mode = S_IFREG | (verif_nd_u16("ent.perm") & 07777);
	d->e.flags = 0;
	g_x = verif_nd_u8("ent.x");
	VERIF_ASSUME(g_x != 0 && g_x != '/');
	/* what dir_tree_iterator.c yields for the cfg it was given
	 * (C11.dti.next.prefix) */
	if (g_cfg.prefix != NULL && g_cfg.prefix[0] != '\0') {
		d->e.name[0] = g_cfg.prefix[0];
		d->e.name[1] = '/';
		((unsigned char *)d->e.name)[2] = g_x;
		d->e.name[3] = '\0';
	} else {
		((unsigned char *)d->e.name)[0] = g_x;
		d->e.name[1] = '\0';
	}
	*out = &d->e;
	return 0;
}

static void stub_ignore_subdir(sqfs_dir_iterator_t *it)
{
	(void)it;
	VERIF_ASSERT(0, "C11.glob.scan_once");
}

static int stub_read_link(sqfs_dir_iterator_t *it, char **out)
{
	(void)it; *out = NULL;
	VERIF_ASSERT(0, "C11.glob.scan_once");
	return -1;
}

static void stub_destroy(sqfs_object_t *o)
{
	VERIF_ASSERT(o == &g_iter.obj, "C01.glob.env.iter");
	++g_destroys;
}

sqfs_dir_iterator_t *dir_tree_iterator_create(const char *path,
					      const dir_tree_cfg_t *cfg)
{
	size_t k;

	++g_creates;
	g_cfg = *cfg;
	for (k = 0; k < sizeof(g_scan_path); ++k)
		g_scan_path[k] = '\0';
	for (k = 0; k + 1 < sizeof(g_scan_path) && path[k] != '\0'; ++k)
		g_scan_path[k] = path[k];
	sqfs_object_init(&g_iter, stub_destroy, NULL);
	g_iter.next = stub_next;
	g_iter.ignore_subdir = stub_ignore_subdir;
	g_iter.read_link = stub_read_link;
	return &g_iter;
}

tree_node_t *fstree_add_generic(fstree_t *fs, const sqfs_dir_entry_t *ent,
				const char *extra)
{
	VERIF_ASSERT(fs == &g_fs && g_nexts == 1, "C11.glob.scan_once");
	++g_adds;
#if PFX
	VERIF_ASSERT(ent->name[0] == 'd' && ent->name[1] == '/' &&
		     ((const unsigned char *)ent->name)[2] == g_x && ent->name[3] == '\0',
		     "C01.glob.scan_args.image_path");
#else
	VERIF_ASSERT(((const unsigned char *)ent->name)[0] == g_x && ent->name[1] == '\0',
		     "C01.glob.scan_args.image_path");
#endif
#if TAIL > 0
	VERIF_ASSERT(extra != NULL && VERIF_R_OK(extra, 4), "C01.glob.scan_args.location");
	if (extra != NULL && VERIF_R_OK(extra, 4))
		VERIF_ASSERT(extra[0] == 's' && extra[1] == '/' &&
			     ((const unsigned char *)extra)[2] == g_x && extra[3] == '\0',
			     "C01.glob.scan_args.location");
#else
	if (extra == NULL) {
		/* image path = location */
		VERIF_ASSERT(!PFX, "C01.glob.scan_args.location");
	} else {
		VERIF_ASSERT(VERIF_R_OK(extra, 2), "C01.glob.scan_args.location");
		if (VERIF_R_OK(extra, 2))
			VERIF_ASSERT(((const unsigned char *)extra)[0] == g_x && extra[1] == '\0',
				     "C01.glob.scan_args.location");
	}
#endif
	VERIF_COVER(1);
	return &g_node;
}

void sqfs_perror(const char *file, const char *action, int error_code)
{
	(void)file; (void)action; (void)error_code;
}

int fprintf(FILE *f, const char *fmt, ...) { (void)f; (void)fmt; return 0; }
int fputs(const char *s, FILE *f) { (void)s; (void)f; return 0; }
void perror(const char *s) { (void)s; }
char *strerror(int e) { (void)e; return (char *)"error"; }

void harness(void)
{
	static sqfs_dir_entry_t ent_hdr;
	static const char basepath[] = "b";
	size_t n = 0;
	int ret;

	g_errno = 0; g_creates = 0; g_nexts = 0; g_adds = 0; g_destroys = 0;
	g_prefix = NULL; g_x = 0;
	g_fs.root = &g_target;
	g_target.mode = S_IFDIR | 0755;
	ent_hdr.mtime = verif_nd_i64("line.mtime");
	ent_hdr.uid = verif_nd_u32("line.uid");
	ent_hdr.gid = verif_nd_u32("line.gid");
	ent_hdr.mode = verif_nd_u16("line.mode");

#if TAIL == 2
	a0[0] = '-'; a0[1] = '-'; a0[2] = '\0';
	g_sep.s.args[n++] = a0;
#endif
#if TAIL >= 1
	a1[0] = 's'; a1[1] = '\0';
	g_sep.s.args[n++] = a1;
#endif
	g_sep.s.count = n;

	ret = glob_files(&g_fs, "f", 1, &ent_hdr, basepath, verif_nd_u32("glob_flags"),
			 &g_sep.s);

	VERIF_ASSERT(ret == 0 && g_creates == 1 && g_nexts == 2 && g_adds == 1 &&
		     g_destroys == 1, "C11.glob.scan_once");
#if TAIL == 0
	VERIF_ASSERT(g_scan_path[0] == 'b' && g_scan_path[1] == '\0', "C11.glob.scan_once");
#else
	VERIF_ASSERT(g_scan_path[0] == 'b' && g_scan_path[1] == '/' &&
		     g_scan_path[2] == 's' && g_scan_path[3] == '\0', "C11.glob.scan_once");
#endif
	VERIF_COVER(1);
}
