"""C11 additions by w11: the four anchored files that were in no harness
(bin/gensquashfs/src/glob.c, lib/common/src/dir_tree_iterator.c,
lib/sqfs/src/io/dir_rec.c, lib/sqfs/src/io/dir_unix.c)."""
FUNCTIONS = []
TRUSTED = []
ASSUMPTIONS = []
HARNESSES = []

# ---- dir_unix.c ---------------------------------------------------------------
FUNCTIONS += ["dir_next (dir_unix.c)", "dir_read_link (dir_unix.c)", "create_iterator (dir_unix.c)",
              "dir_open_subdir (dir_unix.c)", "sqfs_dir_iterator_create_native", "dir_destroy (dir_unix.c)"]
TRUSTED += [
    "w11_unix: POSIX contracts readdir (entry with any name of 1..255 bytes | NULL with errno untouched | NULL with errno != 0; "
    "errno may be clobbered on success), fstatat/fstat (fail | any stat value with st_mode < 2^16 and st_size >= 0), "
    "readlinkat (any r in [-1, bufsiz], writes only buf[0..r)), dirfd, openat, fdopendir, opendir, closedir, close; "
    "sqfs_dir_entry_create = NULL | zeroed entry with mode/flags and a copy of the name (lib/sqfs/src/dir_entry.c, not executed)",
]
_UNIX_FP = {"destroy": "dir_destroy"}
HARNESSES += [
    dict(name="w11_unix_next", file="w11_unix.c", label="proved", include_dirs=["lib/sqfs/src/io"],
         defines={"MODE": 0}, fp=_UNIX_FP, timeout=600, cases=[dict(id="full", tier="quick")]),
    dict(name="w11_unix_read_link", file="w11_unix.c", label="proved", include_dirs=["lib/sqfs/src/io"],
         defines={"MODE": 1}, fp=_UNIX_FP, malloc_fail=True, flags=["--memory-leak-check"],
         timeout=600, cases=[dict(id="full", tier="quick")]),
    dict(name="w11_unix_create", file="w11_unix.c", label="proved", include_dirs=["lib/sqfs/src/io"],
         defines={"MODE": 2}, fp=_UNIX_FP, malloc_fail=True, flags=["--memory-leak-check"], timeout=600,
         # the real code writes flags & (~ENUM_CONSTANT): int -> unsigned conversion of a negative constant,
         # well defined in C, not a claim of C11
         nochecks=["--conversion-check"],
         cases=[dict(id=n, defines={"VARIANT": v}, tier="quick")
                for v, n in ((0, "create_iterator"), (1, "create_native"), (2, "open_subdir"))]),
]

# ---- dir_rec.c ------------------------------------------------------------------
FUNCTIONS += ["next (dir_rec.c)", "pop (dir_rec.c)", "expand_path (dir_rec.c)", "ignore_subdir (dir_rec.c)",
              "destroy (dir_rec.c)", "sqfs_dir_iterator_create_recursive"]
TRUSTED += [
    "w11_rec: wrapped single-directory iterators = contracts (next: any entry with a slash-free name of 1..2 bytes incl. '.'/'..' "
    "| end | any error; open_subdir: an iterator | any error); realloc = NULL (old block untouched) | typed block with the old "
    "contents; alloc_flex = NULL | zeroed typed block (lib/util/src/alloc.c not executed); "
    "strlen/strcmp/strcpy/strrchr/memcpy/memmove as plain byte loops with the standard semantics, CBMC models of malloc/calloc/free",
]
ASSUMPTIONS += [
    "w11_rec: stack + pending of <= 2 frames (the '_named' shape gives the bottom frame a name so that a non-empty stack path is "
    "covered in the quick tier), frame and entry names of 1 and 2 bytes (length per case, bytes symbolic: full alphabet minus NUL and "
    "'/'), at most 1 '.'/'..' entry skipped per call; induction over calls is by the state triple (state, top, next_top) the "
    "postconditions re-establish; read_link/open_subdir/open_file_ro/read_xattr forwarders of dir_rec.c are not under contract",
]
_REC_FP = {"next:next": "stub_next", "next:open_subdir": "stub_open_subdir", "destroy": "stub_destroy"}


def _rec(d, h, e=2, f=2, named=0):
    frames = d + 1
    if named:
        c = _rec(d, h, e, f)
        c["id"] += "_named"
        c["defines"]["ROOT_NAMED"] = 1
        return c
    # next.0 (the for(;;) of next): one pass per read of a wrapped iterator; everything else walks strings <= MAXPATH
    return dict(id="d%d_p%d_e%d_f%d" % (d, h, e, f), defines={"DEPTH": d, "HAS_NEXT": h, "ELEN": e, "FLEN": f},
                unwind=frames * (f + 1) + e + 1 + 2, unwindset=["next.0:%d" % (d + h + 1 + 1 + 1)])


# measured: d0_p1 40-50 s, d1_p0 35 s, d1_p1 150 s
_REC_QUICK = [(0, 1, 1, 2), (0, 1, 2, 2), (1, 0, 2, 1, 1)]
_REC_THOROUGH = [(1, 0, 2, 1), (1, 1, 1, 2), (1, 0, 1, 2, 1)]

HARNESSES += [
    dict(name="w11_rec_next", file="w11_rec.c", label="bounded(stack<=2,name<=2,dots<=1)", native=False,
         include_dirs=["lib/sqfs/src/io"], defines={"MODE": 0}, fp=_REC_FP,
         flags=["--memory-leak-check"], timeout=900,
         cases=[dict(_rec(*t), tier="quick") for t in _REC_QUICK] +
               [dict(_rec(*t), tier="thorough") for t in _REC_THOROUGH]),
    dict(name="w11_rec_ignore", file="w11_rec.c", label="bounded(stack<=2)",
         include_dirs=["lib/sqfs/src/io"], defines={"MODE": 1}, fp=_REC_FP,
         flags=["--memory-leak-check"], timeout=600,
         cases=[dict(_rec(d, h), tier="quick") for d, h in ((0, 0), (1, 0), (1, 1), (2, 1))]),
    dict(name="w11_rec_create", file="w11_rec.c", label="proved", include_dirs=["lib/sqfs/src/io"],
         defines={"MODE": 2, "DEPTH": 0, "HAS_NEXT": 0}, fp=_REC_FP, malloc_fail=True,
         flags=["--memory-leak-check"], timeout=600, unwind=6, cases=[dict(id="full", tier="quick")]),
]

# ---- glob.c -----------------------------------------------------------------------
FUNCTIONS += ["glob_files", "set_scan_flag", "apply_type_flag", "split_line_remove_front",
              "scan_directory (only its empty-directory / read-error paths; the per-entry path is NOT under contract)"]
TRUSTED += [
    "w11_glob_flags: fstree_get_node_by_path = NULL | the target node (any mode); fstree_get_path = NULL | fresh string; "
    "canonicalize_name = 0 | -1 (proved in C18); dir_tree_iterator_create = NULL | an iterator, records the configuration and path "
    "it is given (the real one: w11_dti_create); the iterator is empty or fails at once; "
    "fprintf/fputs/perror/strerror/sqfs_perror: no effect; strcmp/strlen/memcpy as plain byte loops, CBMC models of memset/calloc/free",
]
ASSUMPTIONS += [
    "w11_glob_flags: the option lines are enumerated (quick: 25 lines of <= 4 items with every scan option before and after -type; "
    "thorough: + every ordered pair (-xdev | -nohardlinks | -path) x (14 type letters) in both orders and 20 type/option/type triples); "
    "the inherited flags (all 2^32), the line's defaults and every callee outcome are symbolic; a missing argument of the last option "
    "is not exercised; symbolic option strings were tried and take 250-1000 s per case",
]
_GLOB_FP = {"next": "stub_next", "destroy": "stub_destroy", "ignore_subdir": "stub_ignore_subdir",
            "read_link": "stub_read_link"}


_SCAN = {"xdev": 0, "mount": 1, "keeptime": 2, "nonrecursive": 3, "nohardlinks": 4, "bogus": 5}
_LETTERS = "bBcCdDpPfFlLsSx"


def _code(tok):
    if tok in _SCAN:
        return _SCAN[tok]
    if tok.startswith("type_"):
        return 10 + _LETTERS.index(tok[5:])
    return {"name": 30, "path": 31}[tok]


def _glob(line, tail=0, tier="quick"):
    toks = line.split()
    defs = {"TAIL": tail}
    for i, t in enumerate(toks):
        defs["O%d" % i] = _code(t)
    if "bogus" in toks or "type_x" in toks:
        defs["REJECT"] = None
    return dict(id=("_".join(toks) or "none") + ("_t%d" % tail if tail else ""), defines=defs, tier=tier)


_GLOB_QUICK = [
    "", "nohardlinks", "type_f", "name", "path",
    "nohardlinks type_f", "type_f nohardlinks",          # the seeded change C11-3: option before / after -type
    "xdev type_d", "mount type_D", "keeptime type_l", "nonrecursive type_s", "path type_c",
    "type_b type_c keeptime", "nohardlinks type_f type_l", "type_p nohardlinks type_S",
    "xdev name type_F nonrecursive", "type_L path type_P nohardlinks", "keeptime nohardlinks type_B type_C",
    "bogus", "type_x", "nohardlinks bogus", "type_f type_x",
]
_GLOB_THOROUGH = (["%s type_%s" % (o, l) for o in ("xdev", "nohardlinks", "path")
                   for l in _LETTERS[:14]] +
                  ["type_%s %s" % (l, o) for o in ("xdev", "nohardlinks", "path")
                   for l in _LETTERS[:14]] +
                  ["type_%s %s type_%s" % (a, o, b) for o in ("xdev", "keeptime", "nonrecursive", "nohardlinks", "path")
                   for a, b in (("f", "d"), ("l", "s"), ("b", "c"), ("p", "f"))])
_GLOB_QUICK = [l for l in _GLOB_QUICK]
_GLOB_THOROUGH = [l for l in _GLOB_THOROUGH if l not in _GLOB_QUICK]

HARNESSES += [
    dict(name="w11_glob_flags", file="w11_glob.c", label="bounded(options<=4, lines enumerated)",
         include_dirs=["bin/gensquashfs/src"], fp=_GLOB_FP, native=False,
         flags=["--memory-leak-check"], malloc_fail=True, unwind=16, timeout=300,
         unwindset=["glob_files.0:6", "split_line_remove_front.0:12", "scan_directory.0:3"],
         cases=[_glob(l) for l in _GLOB_QUICK] +
               [_glob("nohardlinks type_f", 1), _glob("type_f nohardlinks", 2), _glob("", 1)] +
               [_glob(l, 0, "thorough") for l in _GLOB_THOROUGH]),
]

# ---- dir_tree_iterator.c ------------------------------------------------------------
FUNCTIONS += ["next (dir_tree_iterator.c)", "should_skip", "expand_path (dir_tree_iterator.c)", "apply_changes",
              "dir_tree_iterator_create", "destroy (dir_tree_iterator.c)"]
TRUSTED += [
    "w11_dti_next: wrapped iterator = contract (next: any entry with a name of ELEN non-NUL bytes, '/' allowed | end | any error; "
    "ignore_subdir counted); fnmatch = any int, arguments checked; realloc = NULL | typed block with the old contents",
    "w11_dti_create: sqfs_dir_iterator_create_native / sqfs_dir_iterator_create_recursive / sqfs_hard_link_filter_create = "
    "error | fresh object holding one reference to what it wraps (the real ones: w11_unix_create, w11_rec_create, C11 hl)",
]
ASSUMPTIONS += [
    "w11_dti_next: at most K=2 entries read per call (one dropped + one yielded, or two dropped), EMPTY prefix, entry names of 1 byte, "
    "no name pattern (the fnmatch branch: did not finish in 900 s, not registered - only its argument check is written down in the "
    "harness); cases with a non-empty prefix (realloc/memmove path of expand_path) or "
    "2-byte names did not finish in 400 s and are not registered - that path is NOT covered; across calls the induction is by "
    "cfg_frame + sticky (cfg and rec never change, state is 0 until end/error); the read_link/... forwarders are not under contract",
]
_DTI_FP = {"next:next": "stub_next", "next:ignore_subdir": "stub_ignore_subdir", "destroy": "stub_destroy"}
HARNESSES += [
    dict(name="w11_dti_next", file="w11_dti.c", label="bounded(reads<=2,prefix empty,name 1 byte)", include_dirs=["lib/common/src"],
         defines={"MODE": 0}, fp=_DTI_FP, flags=["--memory-leak-check"], native=False, unwind=10, timeout=900,
         unwindset=["next.0:4"],
         cases=[dict(id="p%d_e%d_pat%d" % (p, e, pat), defines={"PLEN": p, "ELEN": e, "HAS_PATTERN": pat},
                     tier=t)
                # with a name pattern (HAS_PATTERN=1) the same shape did not finish in 900 s: not registered
                for p, e, pat, t in ((0, 1, 0, "quick"),)]),
    dict(name="w11_dti_create", file="w11_dti.c", label="proved", include_dirs=["lib/common/src"],
         defines={"MODE": 1}, fp={"destroy": "stub_destroy"}, malloc_fail=True, flags=["--memory-leak-check"],
         native=False, unwind=4, timeout=600, cases=[dict(id="full", tier="quick")]),
]
