"""C11 additions by w11: the four anchored files that were in no harness
(bin/gensquashfs/src/glob.c, lib/common/src/dir_tree_iterator.c,
lib/sqfs/src/io/dir_rec.c, lib/sqfs/src/io/dir_unix.c)."""
FUNCTIONS = []
TRUSTED = []
ASSUMPTIONS = []
HARNESSES = []

# ---- dir_unix.c ---------------------------------------------------------------
FUNCTIONS += ["dir_next (dir_unix.c)", "dir_read_link (dir_unix.c)", "create_iterator (dir_unix.c)",
              "dir_open_subdir (dir_unix.c)", "sqfs_dir_iterator_create_native", "dir_destroy (dir_unix.c)"]
TRUSTED += [
    "w11_unix: POSIX contracts readdir (entry with any name of 1..255 bytes | NULL with errno untouched | NULL with errno != 0; "
    "errno may be clobbered on success), fstatat/fstat (fail | any stat value with st_mode < 2^16 and st_size >= 0), "
    "readlinkat (any r in [-1, bufsiz], writes only buf[0..r)), dirfd, openat, fdopendir, opendir, closedir, close; "
    "sqfs_dir_entry_create = NULL | zeroed entry with mode/flags and a copy of the name (lib/sqfs/src/dir_entry.c, not executed)",
]
_UNIX_FP = {"destroy": "dir_destroy"}
HARNESSES += [
    dict(name="w11_unix_next", file="w11_unix.c", label="proved", include_dirs=["lib/sqfs/src/io"],
         defines={"MODE": 0}, fp=_UNIX_FP, timeout=600, cases=[dict(id="full", tier="quick")]),
    dict(name="w11_unix_read_link", file="w11_unix.c", label="proved", include_dirs=["lib/sqfs/src/io"],
         defines={"MODE": 1}, fp=_UNIX_FP, malloc_fail=True, flags=["--memory-leak-check"],
         timeout=600, cases=[dict(id="full", tier="quick")]),
    dict(name="w11_unix_create", file="w11_unix.c", label="proved", include_dirs=["lib/sqfs/src/io"],
         defines={"MODE": 2}, fp=_UNIX_FP, malloc_fail=True, flags=["--memory-leak-check"], timeout=600,
         # the real code writes flags & (~ENUM_CONSTANT): int -> unsigned conversion of a negative constant,
         # well defined in C, not a claim of C11
         nochecks=["--conversion-check"],
         cases=[dict(id=n, defines={"VARIANT": v}, tier="quick")
                for v, n in ((0, "create_iterator"), (1, "create_native"), (2, "open_subdir"))]),
]

# ---- dir_rec.c ------------------------------------------------------------------
FUNCTIONS += ["next (dir_rec.c)", "pop (dir_rec.c)", "expand_path (dir_rec.c)", "ignore_subdir (dir_rec.c)",
              "destroy (dir_rec.c)", "sqfs_dir_iterator_create_recursive"]
TRUSTED += [
    "w11_rec: wrapped single-directory iterators = contracts (next: any entry with a slash-free name of 1..2 bytes incl. '.'/'..' "
    "| end | any error; open_subdir: an iterator | any error); realloc = NULL (old block untouched) | typed block with the old "
    "contents; alloc_flex = NULL | zeroed typed block (lib/util/src/alloc.c not executed); CBMC models of "
    "strlen/strcmp/strcpy/strrchr/memcpy/memmove/malloc/calloc/free",
]
ASSUMPTIONS += [
    "w11_rec: stack of <= 2 frames + 1 pending, frame and entry names <= 2 bytes (full alphabet minus NUL and '/'), at most 1 "
    "'.'/'..' entries skipped per call; induction over calls is by the state triple (state, top, next_top) the postconditions re-establish",
]
_REC_FP = {"next:next": "stub_next", "next:open_subdir": "stub_open_subdir", "destroy": "stub_destroy"}


def _rec(d, h):
    frames = d + 1
    # next.0 (the for(;;) of next): one pass per read of a wrapped iterator; everything else walks strings <= MAXPATH
    return dict(id="d%d_p%d" % (d, h), defines={"DEPTH": d, "HAS_NEXT": h},
                unwind=frames * 3 + 3 + 2, unwindset=["next.0:%d" % (d + h + 1 + 1 + 1)])


HARNESSES += [
    dict(name="w11_rec_next", file="w11_rec.c", label="bounded(stack<=3,name<=2,dots<=1)",
         include_dirs=["lib/sqfs/src/io"], defines={"MODE": 0}, fp=_REC_FP,
         flags=["--memory-leak-check"], timeout=900,
         cases=[dict(_rec(d, h), tier="quick" if (d, h) in ((0, 1), (1, 0), (1, 1)) else "thorough")
                for d, h in ((0, 1), (1, 0), (1, 1), (2, 0), (2, 1))]),
    dict(name="w11_rec_ignore", file="w11_rec.c", label="bounded(stack<=2)",
         include_dirs=["lib/sqfs/src/io"], defines={"MODE": 1}, fp=_REC_FP,
         flags=["--memory-leak-check"], timeout=600,
         cases=[dict(_rec(d, h), tier="quick") for d, h in ((0, 0), (1, 0), (1, 1), (2, 1))]),
    dict(name="w11_rec_create", file="w11_rec.c", label="proved", include_dirs=["lib/sqfs/src/io"],
         defines={"MODE": 2, "DEPTH": 0, "HAS_NEXT": 0}, fp=_REC_FP, malloc_fail=True,
         flags=["--memory-leak-check"], timeout=600, unwind=6, cases=[dict(id="full", tier="quick")]),
]
