# C11 (lead, round 2): gensquashfs main() hands the scan options to the
# directory scan unchanged (seed C11-5: an allow-list in main() dropped
# DIR_SCAN_NO_HARDLINKS, so -H was ignored and the hard-link filter made the
# image depend on the enumeration order). The harness is C13's main_mkfs.c
# (real main(), every callee its contract) with the obligation
# C11.main.scan_cfg at the dir_tree_iterator_create contract.
import os as _os, sys as _sys
_sys.path.insert(0, _os.path.join(_os.path.dirname(_os.path.abspath(__file__)), "..", "..", "tools"))
from borrow import borrow as _borrow

HARNESSES = _borrow(__file__, "C13", ["main_mkfs"])
for _h in HARNESSES:
    _h["must_have"] = ["C11.main.scan_cfg"]
FUNCTIONS = ["gensquashfs main() (scan configuration; via harness/C13/main_mkfs.c)"]
TRUSTED = []
ASSUMPTIONS = []
