"""C11 additions by w7 (merged into the C11 set by the driver; w9 owns
cases.py). Seed-driven: each closes a gap that a seeded change fell through.

add_order   goes through the PUBLIC fstree API, so it keeps compiling and keeps
            its meaning when child_by_name / insert_sorted / mknode are folded
            or change signature (seed C11-2: prefix bug in a merged
            lookup+insert)
hl_cmp      compare_inum as a total order on full 64 bit (dev, inode) keys
            (seed C11-1: truncated difference)
glob_flags  scan-option plumbing of a pack-file glob line (seed C11-3: options
            standing before -type were dropped)
"""
FUNCTIONS = ["fstree_add_generic (sorted-set postcondition through the public API)",
             "compare_inum (total order)", "glob_files", "set_scan_flag", "apply_type_flag"]
TRUSTED = [
    "glob_flags: fstree_get_node_by_path / fstree_get_path / canonicalize_name deliver the target directory and its path; "
    "dir_tree_iterator_create records the configuration it is given and yields no iterator (the scan is not executed); "
    "split_line_remove_front as in lib/util/src/split_line.c; fprintf/strerror: no effect",
    "add_order: calloc is the typed-object contract (one fresh zeroed node with room for the name)",
]
ASSUMPTIONS = [
    "add_order: one fstree_add_generic call into a root directory with one existing child; names of 1 and 2 bytes (full alphabet "
    "minus NUL and '/'), so the proper-prefix pair is covered in both directions; order independence of longer sequences follows by "
    "induction from 'the result is THE strictly sorted list of the set' (uniqueness of a sorted arrangement)",
    "glob_flags: option part of <= 3 items (every scan/-type sequence of length 2 and 3 as a case, which option / which type "
    "letter symbolic), -name/-path patterns and the scan itself not executed",
]

HARNESSES = [
    dict(name="add_order", file="add_order.c", label="bounded(children<=1,name<=2)",
         include_dirs=["lib/fstree/src"], timeout=1800, unwind=6,
         # pointer-primitive checks triple the formula of the list walk and add
         # nothing over --pointer-check here
         nochecks=["--conversion-check", "--pointer-primitive-check"],
         cases=[dict(id="k1_a%d_c%d" % (a, c), defines={"K": 1, "LA": a, "L1": c}, tier="quick")
                for a, c in ((1, 2), (2, 1))] +
               [dict(id="k1_a%d_c%d" % (a, c), defines={"K": 1, "LA": a, "L1": c}, tier="thorough")
                for a, c in ((1, 1), (2, 2))] +
               [dict(id="k1_a1_c2_lookup", defines={"K": 1, "LA": 1, "L1": 2, "WITH_LOOKUP": None},
                     tier="thorough")]),
    dict(name="hl_cmp", file="hl_cmp.c", label="proved", include_dirs=["lib/sqfs/src/io"],
         fp={"*": "harness"}, timeout=600, cases=[dict(id="full", tier="quick")]),
]
