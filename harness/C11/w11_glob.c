/* C11 (w11): option plumbing of a pack-file glob line - the real glob_files,
 * set_scan_flag, apply_type_flag (bin/gensquashfs/src/glob.c) and
 * split_line_remove_front (lib/util/src/split_line.c).
 *
 * C11 for a glob line: "... with and without -nohardlinks ...": the scan the
 * line asks for must be the scan that is run. The configuration handed to
 * dir_tree_iterator_create is a function of the SET of options on the line
 * and the inherited flags; in particular -nohardlinks (the order independent
 * mode of the hard-link handling), -xdev/-mount, -keeptime, -nonrecursive and
 * -path survive any number of -type options wherever those stand.
 *
 * The postcondition is computed from the harness's own record of what it put
 * on the line (OR-accumulated, i.e. order free), not from the parser.
 *
 * The line is concrete per case (O0..O3: which option stands where; TAIL 0:
 * nothing after the options, 1: a source sub-directory, 2: "--" and a source
 * sub-directory) - with symbolic option strings the run took 250-1000 s per
 * case, with concrete ones < 1 s, so the option sequences are enumerated by
 * the driver (quick: hand-picked lines incl. every scan option before and
 * after -type; thorough: every ordered pair / triple). Symbolic: the
 * inherited flags (all 2^32), the defaults of the line, the target's mode,
 * every outcome of the callees.
 *
 *   C11.glob.flags.scan_options_survive  ONE_FILESYSTEM / KEEP_TIME / NO_RECURSION / NO_HARDLINKS / MATCH_FULL_PATH
 *                                        are set iff inherited or asked for anywhere on the line
 *   C11.glob.flags.type_filter           with >= 1 -type: the NO_* bits are exactly the complement of the selected
 *                                        types; without: the inherited ones
 *   C11.glob.flags.inherited_kept        every other bit is the inherited one
 *   C11.glob.cfg.defaults                def_uid/gid/mode/mtime from the line's entry, prefix = canonical path of the target
 *   C11.glob.cfg.pattern                 name_pattern = argument of the last -name/-path, NULL without one
 *   C11.glob.scan_once                   exactly one iterator is created (after all options are parsed), on
 *                                        basepath or basepath/'/'/sub-directory, scanned, and dropped once
 *   C11.glob.result                      returns what the scan returned
 *   C11.glob.reject                      unknown option / unknown type letter / target missing, not a directory,
 *                                        not canonical / allocation failure: -1 and nothing is scanned
 *   C11.glob.fail_clean                  (cbmc memory-leak check) the prefix string and the path buffer never leak
 */
#include <stdlib.h>
#include <string.h>
#include <stdio.h>
#include <stddef.h>
#include "verif.h"

#include "bin/gensquashfs/src/mkfs.h"

/* the line: up to four option items, concrete per case (O0..O3):
 *   0..4  -xdev -mount -keeptime -nonrecursive -nohardlinks, 5 an unknown option
 *   10+t  -type <letter t of "bBcCdDpPfFlLsS">, 24: -type x (invalid)
 *   30    -name <pattern>, 31 -path <pattern>
 *   -1    no item */
#ifndef O0
#define O0 -1
#endif
#ifndef O1
#define O1 -1
#endif
#ifndef O2
#define O2 -1
#endif
#ifndef O3
#define O3 -1
#endif
#ifndef TAIL
#define TAIL 0
#endif
#define CAP 12

#include "bin/gensquashfs/src/glob.c"
#include "lib/util/src/split_line.c"

/* C library string functions on the short option strings: plain byte loops
 * with the standard semantics (cbmc's built-in models are far more expensive
 * on symbolic strings; measured 250 s -> seconds) */
size_t strlen(const char *s)
{
	size_t n = 0;

	while (s[n] != '\0')
		++n;
	return n;
}

int strcmp(const char *a, const char *b)
{
	size_t i = 0;

	while (a[i] != '\0' && a[i] == b[i])
		++i;
	return (int)*(const unsigned char *)&a[i] - (int)*(const unsigned char *)&b[i];
}

void *memcpy(void *dst, const void *src, size_t n)
{
	size_t i;

	for (i = 0; i < n; ++i)
		((char *)dst)[i] = ((const char *)src)[i];
	return dst;
}

/* ---- contracts of the callees ------------------------------------------------ */
static int g_errno;
int *__errno_location(void) { return &g_errno; }

static tree_node_t g_target;
static fstree_t g_fs;
static int g_lookup_calls, g_create_calls, g_destroy_calls, g_next_calls;
static bool g_lookup_ok, g_path_ok, g_canon_ok;
static char *g_prefix;
static dir_tree_cfg_t g_cfg;		/* what dir_tree_iterator_create was given */
static char g_scan_path[8];
static size_t g_args_left_at_create;
static int g_scan_ret;
static struct {
	sqfs_dir_iterator_t base;
} g_iter;
static struct {
	split_line_t s;
	char *room[CAP];
} g_sep;

tree_node_t *fstree_get_node_by_path(fstree_t *fs, tree_node_t *root,
				     const char *path, bool create_implicitly,
				     bool stop_at_parent)
{
	(void)path;
	VERIF_ASSERT(fs == &g_fs && root == g_fs.root && create_implicitly &&
		     !stop_at_parent, "C11.glob.env.lookup_pre");
	++g_lookup_calls;
	if (verif_nd_bool("lookup.fail")) {
		g_errno = verif_nd_int("lookup.errno");
		return NULL;
	}
	g_lookup_ok = true;
	return &g_target;
}

char *fstree_get_path(tree_node_t *node)
{
	char *p;

	VERIF_ASSERT(node == &g_target, "C11.glob.env.get_path_pre");
	if (verif_nd_bool("get_path.fail"))
		return NULL;
	p = malloc(4);
	VERIF_ASSUME(p != NULL);
	/* a path of <= 3 bytes; its text is not interpreted by glob_files */
	p[0] = verif_nd_bool("path.empty") ? '\0' : 'd';
	p[1] = '\0';
	p[2] = '\0';
	p[3] = '\0';
	g_prefix = p;
	g_path_ok = true;
	return p;
}

int canonicalize_name(char *filename)
{
	VERIF_ASSERT(filename == g_prefix, "C11.glob.env.canon_pre");
	if (verif_nd_bool("canon.fail"))
		return -1;
	g_canon_ok = true;
	return 0;
}

static int stub_next(sqfs_dir_iterator_t *it, sqfs_dir_entry_t **out)
{
	int r = verif_nd_int("iter.next");

	VERIF_ASSERT(it == &g_iter.base, "C11.glob.env.iter");
	++g_next_calls;
	/* the scan itself is the subject of w11_glob_scan: here the directory
	 * is empty or unreadable */
	VERIF_ASSUME(r != 0);
	*out = NULL;
	g_scan_ret = r > 0 ? 0 : -1;
	return r;
}

static void stub_ignore_subdir(sqfs_dir_iterator_t *it)
{
	(void)it;
	VERIF_ASSERT(0, "C11.glob.env.no_entries_here");
}

static int stub_read_link(sqfs_dir_iterator_t *it, char **out)
{
	(void)it; *out = NULL;
	VERIF_ASSERT(0, "C11.glob.env.no_entries_here");
	return -1;
}

static void stub_destroy(sqfs_object_t *o)
{
	VERIF_ASSERT(o == &g_iter.base.obj, "C11.glob.env.iter");
	++g_destroy_calls;
}

sqfs_dir_iterator_t *dir_tree_iterator_create(const char *path,
					      const dir_tree_cfg_t *cfg)
{
	size_t k;

	++g_create_calls;
	g_cfg = *cfg;
	g_args_left_at_create = g_sep.s.count;
	for (k = 0; k < sizeof(g_scan_path); ++k)
		g_scan_path[k] = '\0';
	for (k = 0; k + 1 < sizeof(g_scan_path) && path[k] != '\0'; ++k)
		g_scan_path[k] = path[k];
	if (verif_nd_bool("create.fail"))
		return NULL;
	sqfs_object_init(&g_iter, stub_destroy, NULL);
	g_iter.base.next = stub_next;
	g_iter.base.ignore_subdir = stub_ignore_subdir;
	g_iter.base.read_link = stub_read_link;
	return &g_iter.base;
}

void sqfs_perror(const char *file, const char *action, int error_code)
{
	(void)file; (void)action; (void)error_code;
}

tree_node_t *fstree_add_generic(fstree_t *fs, const sqfs_dir_entry_t *ent,
				const char *extra)
{
	(void)fs; (void)ent; (void)extra;
	VERIF_ASSERT(0, "C11.glob.env.no_entries_here");
	return NULL;
}

int fprintf(FILE *f, const char *fmt, ...) { (void)f; (void)fmt; return 0; }
int fputs(const char *s, FILE *f) { (void)s; (void)f; return 0; }
void perror(const char *s) { (void)s; }
char *strerror(int e) { (void)e; return (char *)"error"; }

/* ---- the line ------------------------------------------------------------------ */
#define NSCAN 6		/* five scan options + one unknown option */
static const char scan_names[NSCAN][14] = {
	"-xdev", "-mount", "-keeptime", "-nonrecursive", "-nohardlinks",
	"-hardlinks",
};
static const unsigned int scan_bits[NSCAN] = {
	DIR_SCAN_ONE_FILESYSTEM, DIR_SCAN_ONE_FILESYSTEM, DIR_SCAN_KEEP_TIME,
	DIR_SCAN_NO_RECURSION, DIR_SCAN_NO_HARDLINKS, 0,
};
#define NARGOPT 3
static const char arg_names[NARGOPT][14] = { "-type", "-name", "-path" };
#define NLETTER 15	/* 14 valid + one invalid */
static const char letters[NLETTER] = "bBcCdDpPfFlLsSx";
static const unsigned int letter_bits[NLETTER] = {
	DIR_SCAN_NO_BLK, DIR_SCAN_NO_BLK, DIR_SCAN_NO_CHR, DIR_SCAN_NO_CHR,
	DIR_SCAN_NO_DIR, DIR_SCAN_NO_DIR, DIR_SCAN_NO_FIFO, DIR_SCAN_NO_FIFO,
	DIR_SCAN_NO_FILE, DIR_SCAN_NO_FILE, DIR_SCAN_NO_SLINK, DIR_SCAN_NO_SLINK,
	DIR_SCAN_NO_SOCK, DIR_SCAN_NO_SOCK, 0,
};
#define TYPEMASK (DIR_SCAN_NO_SOCK | DIR_SCAN_NO_SLINK | DIR_SCAN_NO_FILE | \
		  DIR_SCAN_NO_BLK | DIR_SCAN_NO_DIR | DIR_SCAN_NO_CHR | \
		  DIR_SCAN_NO_FIFO)
#define SCANMASK (DIR_SCAN_ONE_FILESYSTEM | DIR_SCAN_KEEP_TIME | \
		  DIR_SCAN_NO_RECURSION | DIR_SCAN_NO_HARDLINKS | \
		  DIR_SCAN_MATCH_FULL_PATH)

/* one static buffer per argument (HOWTO: no rows of a 2-D array handed to
 * string walkers) */
static char a0[14], a1[14], a2[14], a3[14], a4[14], a5[14], a6[14], a7[14],
	    a8[14], a9[14];
static char *const abuf[10] = { a0, a1, a2, a3, a4, a5, a6, a7, a8, a9 };

#define PUT(dst, src) do { size_t c_; for (c_ = 0; c_ < 14; ++c_) (dst)[c_] = (src)[c_]; } while (0)

void harness(void)
{
	static sqfs_dir_entry_t ent_hdr;	/* ent->name is only printed */
	unsigned int glob_flags, want_scan = 0, want_sel = 0, got;
	bool any_type = false, bad = false;
	char *want_pat = NULL;
	static const char basepath[] = "b";
	static const int opts[4] = { O0, O1, O2, O3 };
	size_t n = 0;
	int j, ret;

	g_errno = 0;
	g_lookup_calls = 0; g_create_calls = 0; g_destroy_calls = 0;
	g_next_calls = 0; g_lookup_ok = false; g_path_ok = false;
	g_canon_ok = false; g_prefix = NULL; g_scan_ret = -2;
	g_args_left_at_create = 99;
	g_fs.root = &g_target;
	g_target.mode = verif_nd_u16("target.mode");

	ent_hdr.mtime = verif_nd_i64("line.mtime");
	ent_hdr.uid = verif_nd_u32("line.uid");
	ent_hdr.gid = verif_nd_u32("line.gid");
	ent_hdr.mode = verif_nd_u16("line.mode");
	glob_flags = verif_nd_u32("glob_flags");

	for (j = 0; j < 4; ++j) {
		int o = opts[j];

		if (o < 0)
			break;
		if (o < 10) {
			PUT(abuf[n], scan_names[o]);
			g_sep.s.args[n] = abuf[n];
			++n;
			want_scan |= scan_bits[o];
			if (scan_bits[o] == 0)
				bad = true;
		} else {
			int k = o < 30 ? 0 : (o - 29);

			PUT(abuf[n], arg_names[k]);
			g_sep.s.args[n] = abuf[n];
			++n;
			if (k == 0) {
				int t = o - 10;

				abuf[n][0] = letters[t];
				abuf[n][1] = '\0';
				any_type = true;
				want_sel |= letter_bits[t];
				if (letter_bits[t] == 0)
					bad = true;
			} else {
				abuf[n][0] = (char)('0' + j);
				abuf[n][1] = '\0';
				want_pat = abuf[n];
				if (k == 2)
					want_scan |= DIR_SCAN_MATCH_FULL_PATH;
			}
			g_sep.s.args[n] = abuf[n];
			++n;
		}
		if (bad)
			break;	/* parsing stops at the first bad item */
	}
#if TAIL == 2
	PUT(abuf[n], "--\0\0\0\0\0\0\0\0\0\0\0");
	g_sep.s.args[n] = abuf[n];
	++n;
#endif
#if TAIL >= 1
	PUT(abuf[n], "s\0\0\0\0\0\0\0\0\0\0\0\0");
	g_sep.s.args[n] = abuf[n];
	++n;
#endif
	g_sep.s.count = n;

	ret = glob_files(&g_fs, "f", 1, &ent_hdr, basepath, glob_flags, &g_sep.s);

	VERIF_ASSERT(g_lookup_calls == 1, "C11.glob.scan_once");

	if (!g_lookup_ok || !S_ISDIR(g_target.mode) || !g_path_ok || !g_canon_ok ||
	    bad) {
		/* an error of the line: nothing may be scanned. (An unknown
		 * option / letter is only noticed if parsing gets that far;
		 * it always does: all items before it are valid or it is
		 * itself the first bad one.) */
		VERIF_ASSERT(ret == -1 && g_create_calls == 0 && g_next_calls == 0,
			     "C11.glob.reject");
		VERIF_COVER(!g_lookup_ok);
		VERIF_COVER(g_lookup_ok && !S_ISDIR(g_target.mode));
		VERIF_COVER(g_canon_ok && S_ISDIR(g_target.mode) ? bad : 1);
		return;
	}

	if (g_create_calls == 0) {
		/* only the path buffer allocation may stop it now */
		VERIF_ASSERT(ret == -1 && TAIL != 0 && g_next_calls == 0,
			     "C11.glob.reject");
		return;
	}

	VERIF_ASSERT(g_create_calls == 1 && g_args_left_at_create == (TAIL ? 1 : 0),
		     "C11.glob.scan_once");
	got = g_cfg.flags;
	VERIF_ASSERT((got & SCANMASK) == ((glob_flags & SCANMASK) | want_scan),
		     "C11.glob.flags.scan_options_survive");
	if (any_type) {
		VERIF_ASSERT((got & TYPEMASK) == (TYPEMASK & ~want_sel),
			     "C11.glob.flags.type_filter");
	} else {
		VERIF_ASSERT((got & TYPEMASK) == (glob_flags & TYPEMASK),
			     "C11.glob.flags.type_filter");
	}
	VERIF_ASSERT((got & ~(unsigned int)(SCANMASK | TYPEMASK)) ==
		     (glob_flags & ~(unsigned int)(SCANMASK | TYPEMASK)),
		     "C11.glob.flags.inherited_kept");
	VERIF_ASSERT(g_cfg.def_uid == ent_hdr.uid && g_cfg.def_gid == ent_hdr.gid &&
		     g_cfg.def_mode == ent_hdr.mode &&
		     g_cfg.def_mtime == ent_hdr.mtime &&
		     g_cfg.prefix == g_prefix && g_prefix != NULL,
		     "C11.glob.cfg.defaults");
	VERIF_ASSERT(g_cfg.name_pattern == want_pat, "C11.glob.cfg.pattern");
#if TAIL == 0
	VERIF_ASSERT(g_scan_path[0] == 'b' && g_scan_path[1] == '\0',
		     "C11.glob.scan_once");
#else
	VERIF_ASSERT(g_scan_path[0] == 'b' && g_scan_path[1] == '/' &&
		     g_scan_path[2] == 's' && g_scan_path[3] == '\0',
		     "C11.glob.scan_once");
#endif
	if (g_next_calls == 0) {
		/* the iterator could not be created */
		VERIF_ASSERT(ret == -1 && g_destroy_calls == 0, "C11.glob.result");
#ifndef REJECT
		VERIF_COVER(1);
#endif
		return;
	}
	VERIF_ASSERT(g_next_calls == 1 && g_destroy_calls == 1 && ret == g_scan_ret,
		     "C11.glob.result");
#ifndef REJECT		/* a line with a bad item never gets here */
	VERIF_COVER(ret == 0);
	VERIF_COVER(ret == -1);
#else
	VERIF_ASSERT(0, "C11.glob.reject");
#endif
}
