"""C11 / C01 additions by w22 (continues w11): scan_directory's per-entry path
(bin/gensquashfs/src/glob.c), dir_tree_iterator.c next() with a non-empty prefix
and with a name pattern, the read_link/open_subdir/open_file_ro/read_xattr/
ignore_subdir forwarders of dir_rec.c and dir_tree_iterator.c."""
FUNCTIONS = []
TRUSTED = []
ASSUMPTIONS = []
HARNESSES = []

# ---- glob.c: scan_directory -------------------------------------------------------
FUNCTIONS += ["scan_directory (per-entry path)"]
TRUSTED += [
    "w22_scan: the iterator = contract (next: NENT entries with any mode/flags/ids/times - HARD_LINK flag only together with "
    "type S_IFLNK as dir_hl.c produces it - and a name prefix '/' rel as dir_tree_iterator.c yields it (w22_dti_next: "
    "C11.dti.next.prefix), then any positive or negative value; read_link: any error | fresh TLEN-byte string; ignore_subdir "
    "counted); fstree_get_node_by_path = NULL with any errno | a node; fstree_add_generic = NULL with any errno | a node, "
    "arguments recorded (the real one: C11 add/mknode, C01 mknode); strdup = NULL | fresh copy; sqfs_perror/perror/fputs: no effect; "
    "strlen/memcpy as plain byte loops, CBMC models of malloc/free",
]
ASSUMPTIONS += [
    "w22_scan: bounded: <= 2 entries per scan (3 in the thorough tier; the loop is a guard-less for(;;): no loop contract possible in cbmc 6.11; the loop "
    "body re-initialises all its locals, so iterations are independent), relative names of 1..3 bytes, prefix_len 0..2, file_prefix "
    "NULL or 1..2 bytes, link targets of 1..2 bytes (lengths per case, all bytes symbolic); an empty file_prefix string is not "
    "exercised; a failure of the malloc for the location string is not observable by the harness: in w22_scan (malloc never fails) "
    "every regular file must be handed over, in w22_scan_oom (malloc may fail) a regular file that needs a location string may "
    "instead end the scan with -1",
]
_SCAN_FP = {"next": "stub_next", "ignore_subdir": "stub_ignore_subdir", "read_link": "stub_read_link"}


def _scan(n, nl, pl, fpl, tl=1, tier="quick"):
    maxname = (pl + 1 if pl else 0) + nl + 1
    maxloc = max(fpl, 0) + 1 + nl + 1
    return dict(id="n%d_l%d_p%d_f%s_t%d" % (n, nl, pl, "N" if fpl < 0 else str(fpl), tl),
                defines={"NENT": n, "NLEN": nl, "PLEN": pl, "FPLEN": fpl, "TLEN": tl},
                unwind=max(maxname, maxloc) + 2, unwindset=["scan_directory.0:%d" % (n + 2)], tier=tier)


# measured: 0.4-5 s per case
_SCAN_QUICK = ([(0, 1, 0, -1)] +
               [(1, nl, pl, fpl, 1 + (nl + pl) % 2) for nl in (1, 2, 3) for pl in (0, 1, 2) for fpl in (-1, 1, 2)] +
               [(2, 1, 0, -1), (2, 2, 1, 1), (2, 1, 2, -1, 2), (2, 2, 0, 2)])
_SCAN_THOROUGH = ([(2, nl, pl, fpl, tl) for nl in (1, 2, 3) for pl in (0, 1, 2) for fpl in (-1, 1, 2) for tl in (1, 2)] +
                  [(3, 1, 0, -1), (3, 2, 1, 1), (3, 1, 1, -1, 2)])

HARNESSES += [
    dict(name="w22_scan", file="w22_scan.c", label="bounded(entries<=3,name<=3,prefix<=2)", include_dirs=["bin/gensquashfs/src"],
         fp=_SCAN_FP, native=False, flags=["--memory-leak-check", "--no-malloc-may-fail"], timeout=600,
         cases=[_scan(*t) for t in _SCAN_QUICK] +
               [_scan(*t, tier="thorough") for t in _SCAN_THOROUGH
                if _scan(*t)["id"] not in [_scan(*q)["id"] for q in _SCAN_QUICK]]),
    dict(name="w22_scan_oom", file="w22_scan.c", label="bounded(entries<=3,name<=3,prefix<=2)", include_dirs=["bin/gensquashfs/src"],
         fp=_SCAN_FP, native=False, malloc_fail=True, flags=["--memory-leak-check"], timeout=600,
         defines={"MAY_FAIL_ALLOC": 1},
         cases=[_scan(1, 2, 1, 1), _scan(1, 1, 1, -1), _scan(2, 1, 0, 1)]),
]

# ---- dir_tree_iterator.c: next() with a prefix / a pattern -------------------------------
FUNCTIONS += ["next (dir_tree_iterator.c; non-empty prefix, name pattern)", "expand_path (dir_tree_iterator.c; realloc path)"]
_DTI_FP = {"next:next": "stub_next", "next:ignore_subdir": "stub_ignore_subdir"}


def _dti(p, e, n, pat, end=1, tier="quick"):
    pl = max(p, 0)
    maxname = (pl + 1 if pl else 0) + e + 1
    return dict(id="p%s_e%d_n%d_pat%d_%s" % ("N" if p < 0 else str(p), e, n, pat, "end" if end > 0 else "err"),
                defines={"PLEN": p, "ELEN": e, "NENT": n, "HAS_PATTERN": pat, "END": end},
                unwind=maxname + 3, unwindset=["next.%d:%d" % (l, n + 2) for l in (0, 1, 2)], tier=tier)


TRUSTED += [
    "w22_dti_next: wrapped iterator = contract (NENT entries with any mode/flags/ids/times and a name of ELEN non-NUL bytes, '/' "
    "allowed, then the case's END value; ignore_subdir counted); fnmatch = any int, arguments checked; realloc = NULL (old block "
    "untouched) | fresh typed block with the old contents, the rest arbitrary; strlen = checked contract (returns the case's concrete "
    "length of the prefix / the delivered name after asserting that the string has it), strrchr/memcpy/memmove = plain byte loops "
    "that first assert r_ok/w_ok",
]
ASSUMPTIONS += [
    "w22_dti_next: bounded: prefix NULL/empty/1/2 bytes, delivered names of 1..2 bytes (lengths per case, bytes symbolic), NENT = 1 "
    "entry read per call in the quick tier (dropped or yielded), 2 in the thorough tier (about 120 s per case: exits of the inner "
    "loop from different iterations merge and the call counter becomes symbolic); the wrapped iterator's end / error value is concrete "
    "per case (1 | SQFS_ERROR_IO) - a symbolic non-zero value makes symex unwind both retry loops to their bounds (260-350 s instead "
    "of 2 s); that ANY non-zero value is passed on unchanged and sticks is w11_dti_next's obligation; it->state = 0 on entry (sticky "
    "state: w11_dti_next)",
]
_DTI_QUICK = [(p, e, 1, pat, end) for p in (-1, 0, 1, 2) for e in (1, 2) for pat in (0, 1) for end in (1, -2)
              if p > 0 or pat]   # no prefix and no pattern: w11_dti_next
_DTI_THOROUGH = [(1, 1, 2, 1, -2), (2, 1, 2, 1, 1), (1, 2, 2, 0, 1), (0, 1, 2, 1, 1)]
HARNESSES += [
    dict(name="w22_dti_next", file="w22_dti.c", label="bounded(reads<=2,prefix<=2,name<=2)", include_dirs=["lib/common/src"],
         fp=_DTI_FP, flags=["--memory-leak-check"], native=False, timeout=900,
         cases=[_dti(*t) for t in _DTI_QUICK] + [_dti(*t, tier="thorough") for t in _DTI_THOROUGH]),
]

FUNCTIONS += ["read_link (dir_tree_iterator.c; after next(), hard-link targets)"]
TRUSTED += [
    "w22_dti_read_link: the wrapped iterator's read_link = any error | fresh TLEN-byte string; for a hard link that string is the name "
    "under which the WRAPPED iterator yielded the first link (dir_hl.c store_hard_link: strdup(ent->name) below the prefixing layer)",
]


def _rl(p, e, t, tier="quick"):
    c = _dti(p, e, 1, 0, 1, tier)
    c["id"] = "p%s_e%d_t%d" % ("N" if p < 0 else str(p), e, t)
    c["defines"]["TLEN"] = t
    c["defines"]["WITH_READ_LINK"] = None
    c["unwind"] = c["unwind"] + t
    return c


HARNESSES += [
    # two real functions (next, then read_link for the entry it yielded): read_link's answer depends on which entry is current
    dict(name="w22_dti_read_link", file="w22_dti.c", label="bounded(prefix<=2,name<=2,target<=2)", include_dirs=["lib/common/src"],
         fp=dict(_DTI_FP, **{"read_link:read_link": "stub_read_link"}), flags=["--memory-leak-check"], native=False, timeout=600,
         cases=[_rl(-1, 1, 1), _rl(0, 1, 2), _rl(1, 1, 1), _rl(1, 2, 2), _rl(2, 1, 2)]),
]

# ---- the forwarders of dir_rec.c and dir_tree_iterator.c ---------------------------------------
FUNCTIONS += ["read_link (dir_rec.c)", "open_subdir (dir_rec.c)", "open_file_ro (dir_rec.c)", "read_xattr (dir_rec.c)",
              "read_link (dir_tree_iterator.c)", "open_subdir (dir_tree_iterator.c)", "open_file_ro (dir_tree_iterator.c)",
              "read_xattr (dir_tree_iterator.c)", "ignore_subdir (dir_tree_iterator.c)"]
TRUSTED += [
    "w22_fwd: the wrapped iterators' read_link/open_subdir/open_file_ro/read_xattr = contracts that record the call and return any "
    "int, *out = an object on 0, NULL or junk otherwise (the real ones: w11_unix_read_link, dir_hl.c is not under contract)",
]
_FWD_FP = {"read_link": "stub_read_link", "open_subdir": "stub_open_subdir", "open_file_ro": "stub_open_file_ro",
           "read_xattr": "stub_read_xattr", "ignore_subdir": "stub_ignore_subdir"}
_FN = ["read_link", "open_subdir", "open_file_ro", "read_xattr", "ignore_subdir"]
HARNESSES += [
    # the case split covers the whole shape domain the functions can distinguish: empty / non-empty stack (2 frames: a lower frame
    # exists), with / without a pending frame; state, results symbolic
    dict(name="w22_rec_fwd", file="w22_fwd.c", label="proved", include_dirs=["lib/sqfs/src/io"], defines={"LAYER": 0},
         fp=_FWD_FP, native=False, timeout=300,
         cases=[dict(id="%s_d%d_p%d" % (_FN[f], d, h), defines={"FN": f, "DEPTH": d, "HAS_NEXT": h}, tier="quick")
                for f in range(4) for d, h in ((0, 0), (0, 1), (1, 1), (2, 0), (2, 1))]),
    dict(name="w22_dti_fwd", file="w22_fwd.c", label="proved", include_dirs=["lib/common/src"], defines={"LAYER": 1},
         fp=_FWD_FP, native=False, timeout=300,
         cases=[dict(id=_FN[f], defines={"FN": f}, tier="quick") for f in range(5)]),
]

# ---- glob_files -> scan_directory: prefix_len / file_prefix -----------------------------------------
FUNCTIONS += ["glob_files + scan_directory (composition: prefix_len, file_prefix)"]
TRUSTED += [
    "w22_globargs: as w11_glob_flags (fstree_get_node_by_path/fstree_get_path/canonicalize_name/dir_tree_iterator_create contracts, here "
    "without failures: malloc never fails), the iterator yields one regular file named cfg.prefix '/' x as dir_tree_iterator.c does "
    "(C11.dti.next.prefix), then ends",
]
ASSUMPTIONS += [
    "w22_globargs: the line has no options (w11_glob_flags covers them), target path 'd' or the root, location absent | 's' | '--' 's', "
    "one entry with a one-byte name (byte symbolic); failures are not exercised here (w11_glob_flags, w22_scan)",
]
HARNESSES += [
    dict(name="w22_globargs", file="w22_globargs.c", label="bounded(line enumerated, 1 entry)", include_dirs=["bin/gensquashfs/src"],
         fp={"next": "stub_next", "destroy": "stub_destroy", "ignore_subdir": "stub_ignore_subdir", "read_link": "stub_read_link"},
         native=False, flags=["--memory-leak-check", "--no-malloc-may-fail"], unwind=10, timeout=300,
         unwindset=["scan_directory.0:4", "glob_files.0:3"],
         cases=[dict(id="pfx%d_tail%d" % (p, t), defines={"PFX": p, "TAIL": t}, tier="quick") for p in (0, 1) for t in (0, 1, 2)]),
]
