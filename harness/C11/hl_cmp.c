/* C11: compare_inum() (lib/sqfs/src/io/dir_hl.c), the key order of the
 * hard-link filter's map, for ALL 64 bit (dev, inode) values - loop-free,
 * full domain. If it is not a total order with equality exactly on equal
 * keys, unrelated files are merged (or links missed) depending on which one
 * the host enumerates first.
 *   C11.hl.cmp.equal_iff_same   cmp(a,b) == 0  <=>  a.dev == b.dev and
 *                               a.inum == b.inum
 *   C11.hl.cmp.antisymmetric    sign(cmp(a,b)) == -sign(cmp(b,a))
 *   C11.hl.cmp.transitive       cmp(a,b) <= 0 and cmp(b,c) <= 0 => cmp(a,c) <= 0
 *   C11.hl.cmp.lexicographic    dev first, inode second (unsigned)
 */
#include <string.h>
#include <stdlib.h>
#include "verif.h"
#include "lib/sqfs/src/io/dir_hl.c"

static int sgn(int x) { return x < 0 ? -1 : (x > 0 ? 1 : 0); }

void harness(void)
{
	inumtree_key_t a, b, c;
	int ab, ba, bc, ac;

	a.dev = verif_nd_u64("a.dev"); a.inum = verif_nd_u64("a.inum");
	b.dev = verif_nd_u64("b.dev"); b.inum = verif_nd_u64("b.inum");
	c.dev = verif_nd_u64("c.dev"); c.inum = verif_nd_u64("c.inum");

	ab = compare_inum(NULL, &a, &b);
	ba = compare_inum(NULL, &b, &a);
	bc = compare_inum(NULL, &b, &c);
	ac = compare_inum(NULL, &a, &c);

	VERIF_ASSERT((ab == 0) == (a.dev == b.dev && a.inum == b.inum),
		     "C11.hl.cmp.equal_iff_same");
	VERIF_ASSERT(sgn(ab) == -sgn(ba), "C11.hl.cmp.antisymmetric");
	if (ab <= 0 && bc <= 0)
		VERIF_ASSERT(ac <= 0, "C11.hl.cmp.transitive");
	VERIF_ASSERT(sgn(ab) == (a.dev != b.dev ? (a.dev < b.dev ? -1 : 1) :
				 a.inum != b.inum ? (a.inum < b.inum ? -1 : 1) : 0),
		     "C11.hl.cmp.lexicographic");
	VERIF_COVER(ab < 0 && a.dev == b.dev && b.inum - a.inum == 0x100000000ULL);
	VERIF_COVER(ab > 0 && a.dev > b.dev && a.inum < b.inum);
	VERIF_COVER(ab == 0);
}
