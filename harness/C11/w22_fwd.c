/* C11 (w22): the forwarders of the directory scan stack - the real read_link /
 * open_subdir / open_file_ro / read_xattr of lib/sqfs/src/io/dir_rec.c
 * (LAYER 0) and read_link / open_subdir / open_file_ro / read_xattr /
 * ignore_subdir of lib/common/src/dir_tree_iterator.c (LAYER 1). Loop-free.
 *
 * scan_directory reads a link target through the TOP of the iterator stack
 * (dir_tree_iterator -> [hard-link filter ->] dir_rec -> native directory);
 * the answer belongs to the entry yielded last only if every layer hands the
 * call to the iterator that yielded it:
 *
 *   C11.rec.fwd.top        dir_rec: the call goes, exactly once, with the caller's out pointer, to the same
 *                          member of the wrapped iterator on TOP of the stack (the directory the current
 *                          entry was read from) - not to the pending sub-directory (next_top), not to a
 *                          lower frame; result and *out are the callee's
 *   C11.rec.fwd.no_entry   empty stack: SQFS_ERROR_NO_ENTRY, *out = NULL, nothing is called
 *   C11.rec.fwd.frame      the stack, the pending frame and the state are not touched
 *   C11.dti.fwd.rec        dir_tree_iterator: state 0: the call goes, exactly once, to the same member of
 *                          `rec` (the top of the wrapped chain); result and *out are the callee's
 *   C11.dti.fwd.sticky     state != 0 (ended or failed): nothing is called, the state is returned
 *                          (ignore_subdir: nothing happens)
 *   C11.dti.fwd.frame      cfg, rec and state are not touched
 *
 * FN: 0 read_link, 1 open_subdir, 2 open_file_ro, 3 read_xattr, 4 ignore_subdir (LAYER 1 only; dir_rec's
 * ignore_subdir is w11_rec_ignore). DEPTH (LAYER 0): frames on the stack, 0..2; HAS_NEXT: a pending frame.
 */
#include <stdlib.h>
#include <string.h>
#include <stdio.h>
#include "verif.h"

#ifndef LAYER
#define LAYER 0
#endif
#ifndef FN
#define FN 0
#endif
#ifndef DEPTH
#define DEPTH 1
#endif
#ifndef HAS_NEXT
#define HAS_NEXT 1
#endif

#if LAYER == 0
#include "lib/sqfs/src/io/dir_rec.c"
#else
#include "lib/common/src/dir_tree_iterator.c"
#endif

/* ---- the wrapped iterators: contracts that record the call ------------------------------ */
#define NSUB 3
static sqfs_dir_iterator_t g_sub[NSUB];
static int g_calls, g_member, g_ret;
static sqfs_dir_iterator_t *g_callee;
static void *g_out_arg, *g_out_val;
static char g_token[4];

static int record(sqfs_dir_iterator_t *it, void **out, int member)
{
	++g_calls;
	g_callee = it;
	g_member = member;
	g_out_arg = out;
	g_ret = verif_nd_int("sub.ret");
	/* on success an object; on failure whatever the callee leaves there */
	if (g_ret == 0)
		g_out_val = &g_token[0];
	else
		g_out_val = verif_nd_bool("sub.junk") ? (void *)&g_token[1] : NULL;
	*out = g_out_val;
	return g_ret;
}

static int stub_read_link(sqfs_dir_iterator_t *it, char **out)
{
	return record(it, (void **)out, 0);
}

static int stub_open_subdir(sqfs_dir_iterator_t *it, sqfs_dir_iterator_t **out)
{
	return record(it, (void **)out, 1);
}

static int stub_open_file_ro(sqfs_dir_iterator_t *it, sqfs_istream_t **out)
{
	return record(it, (void **)out, 2);
}

static int stub_read_xattr(sqfs_dir_iterator_t *it, sqfs_xattr_t **out)
{
	return record(it, (void **)out, 3);
}

static void stub_ignore_subdir(sqfs_dir_iterator_t *it)
{
	++g_calls;
	g_callee = it;
	g_member = 4;
}

static int stub_next(sqfs_dir_iterator_t *it, sqfs_dir_entry_t **out)
{
	(void)it; (void)out;
	VERIF_ASSERT(0, "C11.fwd.env.not_called");
	return -1;
}

static void stub_destroy(sqfs_object_t *o)
{
	(void)o;
	VERIF_ASSERT(0, "C11.fwd.env.not_called");
}

static void init_subs(void)
{
	int i;

	g_calls = 0; g_member = -1; g_ret = 0; g_callee = NULL;
	g_out_arg = NULL; g_out_val = NULL;
	for (i = 0; i < NSUB; ++i) {
		g_sub[i].obj.refcount = 1;
		g_sub[i].obj.destroy = stub_destroy;
		g_sub[i].next = stub_next;
		g_sub[i].read_link = stub_read_link;
		g_sub[i].open_subdir = stub_open_subdir;
		g_sub[i].ignore_subdir = stub_ignore_subdir;
		g_sub[i].open_file_ro = stub_open_file_ro;
		g_sub[i].read_xattr = stub_read_xattr;
	}
}

/* the call under test; `slot' is the caller's out variable */
static void *g_slot;

static int call_fn(sqfs_dir_iterator_t *base)
{
#if FN == 0
	return read_link(base, (char **)&g_slot);
#elif FN == 1
	return open_subdir(base, (sqfs_dir_iterator_t **)&g_slot);
#elif FN == 2
	return open_file_ro(base, (sqfs_istream_t **)&g_slot);
#elif FN == 3
	return read_xattr(base, (sqfs_xattr_t **)&g_slot);
#else
	ignore_subdir(base);
	return 0;
#endif
}

/* libc the unreachable parts of the translation units refer to */
void perror(const char *s) { (void)s; }

#if LAYER == 0
/* ---- dir_rec.c ------------------------------------------------------------------------------ */
struct frame {
	dir_stack_t s;
	char name[2];
};
static struct frame g_frame[3];		/* [0] top, [1] below it, [2] the pending one */

void harness(void)
{
	static dir_tree_iterator_t it;
	dir_stack_t *top0, *next0;
	int state0, ret, i;

	init_subs();
	for (i = 0; i < 3; ++i) {
		g_frame[i].s.next = NULL;
		g_frame[i].s.dir = &g_sub[i];
		g_frame[i].name[0] = (char)('a' + i);
		g_frame[i].name[1] = '\0';
	}
#if DEPTH >= 2
	g_frame[0].s.next = &g_frame[1].s;
#endif
	it.top = DEPTH >= 1 ? &g_frame[0].s : NULL;
	it.next_top = HAS_NEXT ? &g_frame[2].s : NULL;
	/* after an error the stack is still there, after the end it is empty:
	 * any state */
	it.state = verif_nd_int("it.state");
	top0 = it.top; next0 = it.next_top; state0 = it.state;
	g_slot = &g_token[2];

	ret = call_fn(&it.base);

	VERIF_ASSERT(it.top == top0 && it.next_top == next0 && it.state == state0 &&
		     g_frame[0].s.dir == &g_sub[0] && g_frame[1].s.dir == &g_sub[1] &&
		     g_frame[2].s.dir == &g_sub[2] &&
		     g_frame[0].s.next == (DEPTH >= 2 ? &g_frame[1].s : NULL),
		     "C11.rec.fwd.frame");
#if DEPTH == 0
	VERIF_ASSERT(ret == SQFS_ERROR_NO_ENTRY && g_slot == NULL && g_calls == 0,
		     "C11.rec.fwd.no_entry");
	VERIF_COVER(1);
#else
	VERIF_ASSERT(g_calls == 1 && g_callee == &g_sub[0] && g_member == FN,
		     "C11.rec.fwd.top");
	VERIF_ASSERT(g_out_arg == (void *)&g_slot && ret == g_ret && g_slot == g_out_val,
		     "C11.rec.fwd.top");
	VERIF_COVER(ret == 0);
	VERIF_COVER(ret < 0 && g_slot == NULL);
#endif
}
#else
/* ---- dir_tree_iterator.c ------------------------------------------------------------------------ */
int fnmatch(const char *pattern, const char *string, int flags)
{
	(void)pattern; (void)string; (void)flags;
	VERIF_ASSERT(0, "C11.fwd.env.not_called");
	return 0;
}

void harness(void)
{
	static dir_tree_iterator_t it;
	static const char prefix[] = "p";
	dir_tree_cfg_t cfg0;
	int state0, ret;

	init_subs();
	it.cfg.flags = verif_nd_u32("cfg.flags");
	it.cfg.def_uid = verif_nd_u32("cfg.uid");
	it.cfg.def_gid = verif_nd_u32("cfg.gid");
	it.cfg.def_mode = verif_nd_u32("cfg.mode");
	it.cfg.def_mtime = verif_nd_i64("cfg.mtime");
	it.cfg.prefix = verif_nd_bool("cfg.has_prefix") ? prefix : NULL;
	it.cfg.name_pattern = verif_nd_bool("cfg.has_pattern") ? prefix : NULL;
	cfg0 = it.cfg;
	it.rec = &g_sub[0];
	state0 = verif_nd_int("it.state");
	it.state = state0;
	g_slot = &g_token[2];

	ret = call_fn(&it.base);

	VERIF_ASSERT(it.rec == &g_sub[0] && it.state == state0 &&
		     it.cfg.flags == cfg0.flags && it.cfg.def_uid == cfg0.def_uid &&
		     it.cfg.def_gid == cfg0.def_gid && it.cfg.def_mode == cfg0.def_mode &&
		     it.cfg.def_mtime == cfg0.def_mtime && it.cfg.prefix == cfg0.prefix &&
		     it.cfg.name_pattern == cfg0.name_pattern, "C11.dti.fwd.frame");
	if (state0 != 0) {
#if FN == 4
		VERIF_ASSERT(g_calls == 0, "C11.dti.fwd.sticky");
#else
		VERIF_ASSERT(g_calls == 0 && ret == state0, "C11.dti.fwd.sticky");
#endif
		VERIF_COVER(state0 > 0);
		VERIF_COVER(state0 < 0);
		return;
	}
	VERIF_ASSERT(g_calls == 1 && g_callee == &g_sub[0] && g_member == FN,
		     "C11.dti.fwd.rec");
#if FN != 4
	VERIF_ASSERT(g_out_arg == (void *)&g_slot && ret == g_ret && g_slot == g_out_val,
		     "C11.dti.fwd.rec");
	VERIF_COVER(ret == 0);
	VERIF_COVER(ret != 0);
#else
	VERIF_COVER(1);
#endif
}
#endif
