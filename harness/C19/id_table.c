/* C19: id_table_copy / id_table_destroy (lib/sqfs/src/id_table.c) with
 * the real array_init_copy / array_init / array_cleanup underneath.
 *
 * Original: heap object, N ids (N concrete, -DN=0..4), table
 * capacity N+SLACK, every entry byte symbolic, refcount symbolic >= 1.
 *
 *   C19.id_table.succeeds          NULL only if an allocation failed
 *   C19.id_table.header            copy carries the type's own destroy and
 *                                    copy hooks, refcount 1 after sqfs_copy
 *   C19.id_table.fresh             copy and its entry buffer are new
 *                                    objects; used/size equal; capacity
 *                                    covers used; every entry byte equal
 *                                    (witness byte)
 *   C19.id_table.frame             nothing of the original changed (header,
 *                                    array descriptor, entry bytes)
 *   C19.id_table.answers_equal     sqfs_id_table_index_to_id gives the same
 *                                    answer on copy and original for every
 *                                    index (symbolic)
 *   C19.id_table.independent       a write through the copy is not seen by
 *                                    the original and vice versa
 *   C19.id_table.release.*         drop both in either order: hooks
 *                                    callable, everything freed exactly once
 *   C19.id_table.oom.*             failed copy: nothing leaked, original
 *                                    intact and still releasable
 */
#define C19_T "id_table"
#include "c19_env.h"
#include "lib/util/src/array.c"
#include "lib/sqfs/src/id_table.c"

#define TBL_T sqfs_id_table_t
#define TBL_ARR ids
#define TBL_DESTROY id_table_destroy
#define TBL_COPY id_table_copy
#define ESZ sizeof(sqfs_u32)
static bool id_answers_eq(const sqfs_id_table_t *a, const sqfs_id_table_t *b, sqfs_u32 idx)
{
	sqfs_u32 x = 0, y = 0;
	int ra = sqfs_id_table_index_to_id(a, (sqfs_u16)(idx & 0xFFFF), &x);
	int rb = sqfs_id_table_index_to_id(b, (sqfs_u16)(idx & 0xFFFF), &y);

	return ra == rb && (ra != 0 || x == y);
}
#define TBL_ANSWERS_EQ(o, c, i) id_answers_eq(o, c, i)
#include "array_table.inc.h"
