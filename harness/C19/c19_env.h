/*
 * c19_env.h - environment shared by the C19 harnesses.
 *
 * 1. Allocation contract (trusted): malloc/calloc/realloc return NULL or a
 *    fresh object of the requested size (CBMC memory model). While
 *    g_oom_enabled is set every allocation made by the code under test may
 *    fail; the choice goes through the tape (verif_nd_bool), so an OOM
 *    counterexample replays natively. The redirection is a macro placed in
 *    front of the verbatim #include of the repository file: the compiled
 *    text of the file is unchanged. A ghost counter of live allocations
 *    (g_live) lets "no leak" be a *named* obligation per path; cbmc's own
 *    --memory-leak-check is on as well.
 *
 * 2. Abstract sqfs object contract (trusted for the sub-objects a composite
 *    copies or shares; each concrete type's own hooks are verified against
 *    the same contract in its own harness):
 *      copy    returns NULL (allowed at any time) or a fresh object whose
 *              header carries the same hooks; refcount arbitrary (sqfs_copy
 *              resets it); the original is untouched.
 *      destroy requires the object to be alive (never destroyed before),
 *              frees it.
 *    Ghost state per stub object id: destroyed[], copies made.
 */
#ifndef C19_ENV_H
#define C19_ENV_H

#include <stdlib.h>
#include <string.h>
#include <errno.h>
#include <unistd.h>
#include "verif.h"
#include "sqfs/predef.h"

#ifndef C19_T
#define C19_T "unnamed"
#endif
#define C19_OB(clause) "C19." C19_T "." clause

/* two pointers into different objects: exact under cbmc, address inequality
 * in the native replay (VERIF_SAME_OBJECT is constant 1 there) */
#ifdef VERIF_REPLAY
#define C19_DISTINCT(a, b) ((const void *)(a) != (const void *)(b))
#else
#define C19_DISTINCT(a, b) (!__CPROVER_same_object((a), (b)))
#endif

/* ------------------------------------------------------------ allocation */
static int g_oom_enabled;       /* allocations of the code under test may fail */
static unsigned g_alloc_calls;  /* allocation requests seen */
static unsigned g_alloc_failed; /* of which failed */
static long g_live;             /* live allocations made through the wrappers */

/* cbmc wants compile-time object sizes (a size that is merely *equal* to a
 * constant but computed through heap fields gives a symbolic-size object:
 * slow, and cbmc 6.11 aborts while building an error trace). A harness may
 * define C19_SIZES, a list of the sizes it expects; a request equal to one of
 * them is served with that constant. Any other request is served as is. */
#ifndef C19_SIZES
#define C19_SIZES 0
#endif
static void *c19_raw_alloc(size_t n, int zero)
{
#ifndef VERIF_REPLAY
	static const size_t sizes[] = { C19_SIZES };
	unsigned i;

	for (i = 0; i < sizeof(sizes) / sizeof(sizes[0]); ++i) {
		if (sizes[i] != 0 && n == sizes[i])
			return zero ? calloc(1, sizes[i]) : malloc(sizes[i]);
	}
#endif
	return zero ? calloc(1, n) : malloc(n);
}

static void *c19_malloc(size_t n)
{
	void *p;
	g_alloc_calls++;
	if (g_oom_enabled && verif_nd_bool("oom")) {
		g_alloc_failed++;
		return NULL;
	}
	p = c19_raw_alloc(n, 0);
#ifndef VERIF_REPLAY
	__CPROVER_assume(p != NULL);
#endif
	g_live++;
	return p;
}

static void *c19_calloc(size_t a, size_t b)
{
	void *p;
	g_alloc_calls++;
	if (g_oom_enabled && verif_nd_bool("oom")) {
		g_alloc_failed++;
		return NULL;
	}
	p = c19_raw_alloc(a * b, 1);
#ifndef VERIF_REPLAY
	__CPROVER_assume(p != NULL);
#endif
	g_live++;
	return p;
}

/* buffers owned by the original that the hook under test must never free */
#ifndef C19_MAXPROT
#define C19_MAXPROT 5
#endif
static const void *g_prot[C19_MAXPROT];
static unsigned g_prot_n, g_prot_freed;
static int g_prot_armed;

static void c19_protect(const void *p)
{
	if (g_prot_n < C19_MAXPROT)
		g_prot[g_prot_n++] = p;
}

static void c19_free(void *p)
{
	unsigned i;

	if (p != NULL) {
		g_live--;
		if (g_prot_armed) {
			for (i = 0; i < C19_MAXPROT; ++i) {
				if (i < g_prot_n && g_prot[i] == p)
					g_prot_freed++;
			}
		}
	}
	free(p);
}

/* memcpy: ISO C 7.24.1p2 - the pointer arguments must be valid even when
 * n == 0 (gcc/clang declare them nonnull and UBSan reports it). That clause is
 * a named obligation; for n > 0 cbmc's own bounds checks on memcpy apply. */
static void *c19_memcpy(void *d, const void *s, size_t n)
{
	VERIF_ASSERT(d != NULL && s != NULL, C19_OB("memcpy_args_nonnull"));
	if (n == 0)
		return d;
	return memcpy(d, s, n);
}

#define memcpy(d, s, n) c19_memcpy(d, s, n)

#define malloc(n) c19_malloc(n)
#define calloc(a, b) c19_calloc(a, b)
#define free(p) c19_free(p)

/* ------------------------------------------------- abstract sqfs objects */
#define C19_MAXOBJ 12

typedef struct {
	sqfs_object_t base;
	unsigned id;
	sqfs_u32 state; /* opaque scalar state: a copy must carry the same */
} c19_obj_t;

static unsigned g_obj_n;
static unsigned char g_obj_destroyed[C19_MAXOBJ];
static unsigned char g_obj_copy_of[C19_MAXOBJ]; /* 1 + id of the source, 0 = original */
static unsigned g_obj_double_destroy;

static void c19_obj_destroy(sqfs_object_t *o);
static sqfs_object_t *c19_obj_copy(const sqfs_object_t *o);

static c19_obj_t *c19_obj_new(size_t refcount)
{
	int save = g_oom_enabled;
	c19_obj_t *o;

	g_oom_enabled = 0;
	o = malloc(sizeof(*o));
	g_oom_enabled = save;
	o->base.refcount = refcount;
	o->base.destroy = c19_obj_destroy;
	o->base.copy = c19_obj_copy;
	o->id = g_obj_n++;
	o->state = verif_nd_u32("obj_state");
	return o;
}

static void c19_obj_destroy(sqfs_object_t *b)
{
	c19_obj_t *o = (c19_obj_t *)b;

	if (o->id < C19_MAXOBJ) {
		if (g_obj_destroyed[o->id])
			g_obj_double_destroy++;
		g_obj_destroyed[o->id] = 1;
	}
	free(o);
}

/* sub-object copy: may fail like any allocation while g_oom_enabled */
static sqfs_object_t *c19_obj_copy(const sqfs_object_t *b)
{
	const c19_obj_t *o = (const c19_obj_t *)b;
	c19_obj_t *c;

	if (g_obj_n >= C19_MAXOBJ)
		return NULL;
	c = malloc(sizeof(*c));
	if (c == NULL)
		return NULL;
	c->base.refcount = verif_nd_size("copy_refcount");
	c->base.destroy = c19_obj_destroy;
	c->base.copy = c19_obj_copy;
	c->id = g_obj_n++;
	c->state = o->state;
	g_obj_copy_of[c->id] = (unsigned char)(1 + o->id);
	return (sqfs_object_t *)c;
}

/* Targets for function-pointer call sites that live in the same translation
 * unit as the hooks but are not part of copy/destroy (read_at, do_block ...):
 * the harness never reaches them; if it did, that is reported. */
#include "sqfs/io.h"
#include "sqfs/compressor.h"
int c19_unreachable_read_at(sqfs_file_t *f, sqfs_u64 off, void *buf, size_t n)
{
	(void)f; (void)off; (void)buf; (void)n;
	VERIF_ASSERT(0, C19_OB("env.no_io_during_copy"));
	return -1;
}

sqfs_s32 c19_unreachable_do_block(sqfs_compressor_t *c, const sqfs_u8 *in,
					 sqfs_u32 n, sqfs_u8 *out, sqfs_u32 m)
{
	(void)c; (void)in; (void)n; (void)out; (void)m;
	VERIF_ASSERT(0, C19_OB("env.no_io_during_copy"));
	return -1;
}

#endif /* C19_ENV_H */
