/* Shared body of the compressor copy harnesses (gzip, xz, lz4, zstd, lzma).
 * Parameters: COMP_T (private struct), COMP_DESTROY / COMP_COPY (its hooks),
 * COMP_SKIP_OFF / COMP_SKIP_LEN (byte range holding owned library state that
 * must NOT be shared: z_stream, ZSTD_CCtx pointer; LEN 0 for flat types),
 * COMP_INIT(o) (set the fields the hooks branch on), COMP_OWNED_FRESH(o, c)
 * (the owned library state of the copy is a new, live one),
 * COMP_OWNED_ALLOCS (library allocations per instance).
 *
 * Every byte of the private struct outside the object header and the owned
 * range is symbolic (unconstrained heap memory, witness byte pinned) - so
 * "equal scalar state" covers every configuration field, present or future.
 */
void harness(void)
{
	COMP_T *o, *c;
	size_t rc0 = verif_nd_size("refcount");
	size_t k = verif_nd_size("witness");
	sqfs_u8 v = verif_nd_u8("byte");
	bool order = verif_nd_bool("order");
	unsigned calls0;
	long live0;

	VERIF_ASSUME(rc0 >= 1);
	VERIF_ASSUME(k >= sizeof(sqfs_object_t) && k < sizeof(COMP_T));
	VERIF_ASSUME(COMP_SKIP_LEN == 0 ||
		     k < COMP_SKIP_OFF || k >= COMP_SKIP_OFF + COMP_SKIP_LEN);

	o = malloc(sizeof(*o));
	((sqfs_u8 *)o)[k] = v;
	COMP_INIT(o);
	v = ((sqfs_u8 *)o)[k];
	((sqfs_object_t *)o)->refcount = rc0;
	((sqfs_object_t *)o)->destroy = COMP_DESTROY;
	((sqfs_object_t *)o)->copy = COMP_COPY;
	live0 = g_live;
	calls0 = g_alloc_calls;

	g_oom_enabled = 1;
	c = sqfs_copy(o);
	g_oom_enabled = 0;

	VERIF_ASSERT(((sqfs_object_t *)o)->refcount == rc0 &&
		     ((sqfs_object_t *)o)->destroy == COMP_DESTROY &&
		     ((sqfs_object_t *)o)->copy == COMP_COPY &&
		     ((sqfs_u8 *)o)[k] == v && COMP_OWNED_INTACT(o), C19_OB("frame"));

	if (c == NULL) {
		VERIF_ASSERT(g_alloc_failed > 0, C19_OB("succeeds"));
		VERIF_ASSERT(g_live == live0, C19_OB("oom.no_leak"));
		VERIF_COVER(g_alloc_calls - calls0 == 1);
		VERIF_COVER(g_alloc_calls - calls0 == 1 + COMP_OWNED_ALLOCS);
	} else {
		VERIF_ASSERT(g_alloc_failed == 0, C19_OB("succeeds"));
		VERIF_ASSERT(((sqfs_object_t *)c)->destroy == COMP_DESTROY &&
			     ((sqfs_object_t *)c)->copy == COMP_COPY &&
			     ((sqfs_object_t *)c)->refcount == 1, C19_OB("header"));
		((sqfs_object_t *)c)->destroy = COMP_DESTROY;
		((sqfs_object_t *)c)->copy = COMP_COPY;
		((sqfs_object_t *)c)->refcount = 1;

		VERIF_ASSERT(C19_DISTINCT(c, o) && VERIF_RW_OK(c, sizeof(COMP_T)),
			     C19_OB("fresh"));
		VERIF_ASSERT(((sqfs_u8 *)c)[k] == v, C19_OB("fresh"));
		VERIF_ASSERT(COMP_OWNED_FRESH(o, c), C19_OB("fresh.owned_state"));
		((sqfs_u8 *)c)[k] = v ^ 0xFF;
		VERIF_ASSERT(((sqfs_u8 *)o)[k] == v, C19_OB("independent"));
		((sqfs_u8 *)c)[k] = v;
	}

	if (c != NULL && order) {
		sqfs_drop(o);
		if (rc0 == 1)
			VERIF_ASSERT(COMP_OWNED_INTACT(c), C19_OB("release.copy_survives"));
		sqfs_drop(c);
	} else {
		if (c != NULL) {
			sqfs_drop(c);
			VERIF_ASSERT(COMP_OWNED_INTACT(o), C19_OB("release.original_survives"));
		}
		sqfs_drop(o);
	}
	if (rc0 > 1) {
		VERIF_ASSERT(((sqfs_object_t *)o)->refcount == rc0 - 1 && g_live == live0,
			     C19_OB("release.no_leak"));
		((sqfs_object_t *)o)->refcount = 1;
		sqfs_drop(o);
	}
	if (c != NULL)
		VERIF_ASSERT(g_live == 0 && g_lib_bad == 0, C19_OB("release.no_leak"));
	else
		VERIF_ASSERT(g_live == 0 && g_lib_bad == 0, C19_OB("oom.original_releasable"));
	VERIF_COVER(c != NULL && order && rc0 == 1);
	VERIF_COVER(c != NULL && !order && rc0 > 1);
}
