/* C19: rbtree_copy / rbtree_cleanup (lib/util/src/rbtree.c), both build
 * configurations: default (nodes from a mem_pool_t, contract in
 * c19_mempool.h) and -DNO_CUSTOM_ALLOC (calloc per node).
 *
 * Tree: SHAPE selects one of the shapes with <= 3 nodes (concrete), key size
 * KS (padded KP), value size VS concrete; colours, key and value bytes
 * symbolic. Node i of the original is a typed wrapper {rbtree_node_t; payload}.
 *
 *   C19.rbtree.succeeds     failure only after a failed allocation
 *   C19.rbtree.fresh        same shape; every node of the copy is a new
 *                           object; colour, value_offset, key and value bytes
 *                           equal (witness); descriptor scalars equal; own pool
 *   C19.rbtree.frame        descriptor and nodes of the original unchanged
 *   C19.rbtree.independent  node writes in one invisible in the other
 *   C19.rbtree.release      cleanup of both in either order: all freed once
 *   C19.rbtree.oom.no_leak  failed copy keeps nothing allocated
 *   C19.rbtree.oom.out_empty failed copy leaves no dangling root in out
 */
#define C19_T "rbtree"
#include "c19_env.h"
#include "lib/util/src/rbtree.c"

#ifndef SHAPE
#define SHAPE 4
#endif
#ifndef KS
#define KS 4
#endif
#ifndef VS
#define VS 8
#endif
#define KP (((KS) + 7) / 8 * 8)
#define PAY (KP + VS)

typedef struct {
	rbtree_node_t n;
	sqfs_u8 payload[PAY];
} node_wrap_t;

#ifndef NO_CUSTOM_ALLOC
#define C19_POOL_OBJ_SIZE ((sizeof(rbtree_node_t) + PAY + 7) / 8 * 8)
#include "c19_mempool.h"
#endif

/* shapes: child index tables, -1 = none; node 0 is the root */
#if SHAPE == 0
#define NN 0
static const int SL[1] = { -1 }, SR[1] = { -1 };
#elif SHAPE == 1
#define NN 1
static const int SL[1] = { -1 }, SR[1] = { -1 };
#elif SHAPE == 2
#define NN 2
static const int SL[2] = { 1, -1 }, SR[2] = { -1, -1 };
#elif SHAPE == 3
#define NN 2
static const int SL[2] = { -1, -1 }, SR[2] = { 1, -1 };
#elif SHAPE == 4
#define NN 3
static const int SL[3] = { 1, -1, -1 }, SR[3] = { 2, -1, -1 };
#elif SHAPE == 5
#define NN 3
static const int SL[3] = { 1, 2, -1 }, SR[3] = { -1, -1, -1 };
#elif SHAPE == 6
#define NN 3
static const int SL[3] = { -1, -1, -1 }, SR[3] = { 1, 2, -1 };
#elif SHAPE == 7
#define NN 3
static const int SL[3] = { 1, -1, -1 }, SR[3] = { -1, 2, -1 };
#else
#define NN 3
static const int SL[3] = { -1, 2, -1 }, SR[3] = { 1, -1, -1 };
#endif
#define NA (NN > 0 ? NN : 1)

/* colour + padding live in the 32-bit word after value_offset; the harness
 * writes that word as a whole (bit 0 = is_red on this ABI, asserted where
 * used): cbmc 6.11 aborts while building an error trace ("bv_to_array_expr")
 * when a 1-bit field of an untyped calloc() object is assigned directly */
static void node_set_red(rbtree_node_t *n, unsigned red)
{
	*(sqfs_u32 *)((char *)n + offsetof(rbtree_node_t, value_offset) + 4) = red;
}

static int cmp_stub(const void *ctx, const void *l, const void *r)
{
	(void)ctx; (void)l; (void)r;
	return 0;
}

void harness(void)
{
	rbtree_t src, dst;
	node_wrap_t *on[NA];
	rbtree_node_t *cn[NA];
	sqfs_u8 v[NA];
	unsigned red[NA];
	size_t k = verif_nd_size("witness");
	static int ctx_obj;
	void *ctx = verif_nd_bool("key_context") ? &ctx_obj : NULL;
	bool order = verif_nd_bool("order");
	long live0;
	int i, ret;

	VERIF_ASSUME(k < PAY);
	VERIF_ASSERT(offsetof(node_wrap_t, payload) == offsetof(rbtree_node_t, data) &&
		     sizeof(node_wrap_t) == sizeof(rbtree_node_t) + PAY,
		     C19_OB("env.wrapper_layout"));

	memset(&src, 0, sizeof(src));
	src.key_compare = cmp_stub;
	src.key_size = KS;
	src.key_size_padded = KP;
	src.value_size = VS;
	src.key_context = ctx;
#ifndef NO_CUSTOM_ALLOC
	src.pool = mem_pool_create(sizeof(rbtree_node_t) + PAY);
#endif
	for (i = 0; i < NN; ++i) {
		on[i] = malloc(sizeof(node_wrap_t));
#ifndef NO_CUSTOM_ALLOC
		c19_pool_adopt(src.pool, on[i]);
#endif
	}
	for (i = 0; i < NN; ++i) {
		on[i]->n.left = SL[i] >= 0 ? &on[SL[i]]->n : NULL;
		on[i]->n.right = SR[i] >= 0 ? &on[SR[i]]->n : NULL;
		on[i]->n.value_offset = KP;
		red[i] = verif_nd_bool("red");
		node_set_red(&on[i]->n, red[i]);
		VERIF_ASSERT(on[i]->n.is_red == red[i] && on[i]->n.pad0 == 0,
			     C19_OB("env.wrapper_layout"));
		v[i] = verif_nd_u8("payload");
		on[i]->payload[k] = v[i];
	}
	src.root = NN > 0 ? &on[0]->n : NULL;
	live0 = g_live;

	/* dst: whatever memory the caller hands in */
	dst.root = (NN > 0 && verif_nd_bool("junk")) ? &on[0]->n : NULL;
	dst.key_size = verif_nd_size("junk");

	g_oom_enabled = 1;
	ret = rbtree_copy(&src, &dst);
	g_oom_enabled = 0;

	VERIF_ASSERT(src.root == (NN > 0 ? &on[0]->n : NULL) &&
		     src.key_compare == cmp_stub && src.key_size == KS &&
		     src.key_size_padded == KP && src.value_size == VS &&
		     src.key_context == ctx, C19_OB("frame"));
	for (i = 0; i < NN; ++i) {
		VERIF_ASSERT(on[i]->n.left == (SL[i] >= 0 ? &on[SL[i]]->n : NULL) &&
			     on[i]->n.right == (SR[i] >= 0 ? &on[SR[i]]->n : NULL) &&
			     on[i]->n.value_offset == KP && on[i]->n.is_red == red[i] &&
			     on[i]->payload[k] == v[i], C19_OB("frame"));
	}

	if (ret != 0) {
		VERIF_ASSERT(g_alloc_failed > 0, C19_OB("succeeds"));
		VERIF_ASSERT(dst.root == NULL, C19_OB("oom.out_empty"));
		VERIF_ASSERT(g_live == live0, C19_OB("oom.no_leak"));
		g_live = live0; /* keep the release obligations independent */
#if NN > 0 || !defined(NO_CUSTOM_ALLOC)
		VERIF_COVER(g_alloc_failed == 1);
#endif
	} else {
		VERIF_ASSERT(g_alloc_failed == 0, C19_OB("succeeds"));
		VERIF_ASSERT(dst.key_compare == cmp_stub && dst.key_size == KS &&
			     dst.key_size_padded == KP && dst.value_size == VS &&
			     dst.key_context == ctx, C19_OB("fresh"));
#ifndef NO_CUSTOM_ALLOC
		VERIF_ASSERT(dst.pool != NULL && dst.pool != src.pool, C19_OB("fresh"));
#endif
		VERIF_ASSERT((dst.root != NULL) == (NN > 0), C19_OB("fresh"));
		if (NN > 0)
			cn[0] = dst.root;
		for (i = 0; i < NN; ++i) {
			int j;

			VERIF_ASSERT(cn[i] != NULL &&
				     VERIF_RW_OK(cn[i], sizeof(rbtree_node_t) + PAY),
				     C19_OB("fresh"));
			for (j = 0; j < NN; ++j)
				VERIF_ASSERT(C19_DISTINCT(cn[i], on[j]),
					     C19_OB("fresh"));
			VERIF_ASSERT((cn[i]->left != NULL) == (SL[i] >= 0) &&
				     (cn[i]->right != NULL) == (SR[i] >= 0),
				     C19_OB("fresh"));
			if (SL[i] >= 0)
				cn[SL[i]] = cn[i]->left;
			if (SR[i] >= 0)
				cn[SR[i]] = cn[i]->right;
			VERIF_ASSERT(cn[i]->value_offset == KP &&
				     cn[i]->is_red == red[i] &&
				     cn[i]->data[k] == v[i], C19_OB("fresh"));
		}
		for (i = 0; i < NN; ++i) {
			cn[i]->data[k] = v[i] ^ 0xFF;
			node_set_red(cn[i], !red[i]);
			VERIF_ASSERT(on[i]->payload[k] == v[i] &&
				     on[i]->n.is_red == red[i], C19_OB("independent"));
		}
		if (order)
			rbtree_cleanup(&src);
		rbtree_cleanup(&dst);
		VERIF_ASSERT(dst.root == NULL, C19_OB("release"));
		VERIF_COVER(order);
		VERIF_COVER(!order);
	}
	if (ret != 0 || !order)
		rbtree_cleanup(&src);
	VERIF_ASSERT(g_live == 0, C19_OB("release"));
}
