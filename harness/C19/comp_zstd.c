/* C19: zstd_create_copy / zstd_destroy (lib/sqfs/src/comp/zstd.c).
 * libzstd is a contract (trusted): ZSTD_createCCtx returns NULL or a fresh
 * context; ZSTD_freeCCtx releases a live context (NULL allowed).
 *   C19.zstd.fresh.owned_state   the copy has its own compression context
 */
#define C19_T "zstd"
#include "c19_env.h"
#include "lib/sqfs/src/comp/zstd.c"

struct ZSTD_CCtx_s { int live; };
static unsigned g_lib_bad;

ZSTD_CCtx *ZSTD_createCCtx(void)
{
	ZSTD_CCtx *c = malloc(sizeof(*c));

	if (c != NULL)
		c->live = 1;
	return c;
}

size_t ZSTD_freeCCtx(ZSTD_CCtx *c)
{
	if (c != NULL) {
		if (c->live != 1)
			g_lib_bad++;
		c->live = 0;
		free(c);
	}
	return 0;
}

#define COMP_T zstd_compressor_t
#define COMP_DESTROY zstd_destroy
#define COMP_COPY zstd_create_copy
#define COMP_SKIP_OFF offsetof(zstd_compressor_t, zctx)
#define COMP_SKIP_LEN sizeof(ZSTD_CCtx *)
static ZSTD_CCtx *g_octx;
static void zstd_init(zstd_compressor_t *o)
{
	int save = g_oom_enabled;

	g_oom_enabled = 0;
	o->zctx = ZSTD_createCCtx();
	g_octx = o->zctx;
	g_oom_enabled = save;
}
#define COMP_INIT(o) zstd_init(o)
#define COMP_OWNED_INTACT(o) ((o)->zctx != NULL && (o)->zctx->live == 1)
#define COMP_OWNED_FRESH(o, c) ((c)->zctx != NULL && (c)->zctx != (o)->zctx && \
	(c)->zctx->live == 1 && (o)->zctx == g_octx)
#define COMP_OWNED_ALLOCS 1
#include "comp.inc.h"
